import AnsiSpec
/-
  AnsiProofs.Lemmas.Effects — helper lemmas for C18 (and the feed algebra reused by C01):
  digits/number round trips, split/join, the hand-written abstraction `alpha` from the library's
  effect dict to a terminal state, table agreement, algebra of `Term.feed`.
-/
open Term

namespace Eff

/-! ## characters and digit strings -/


theorem isDigit_range {c : Char} (h : Py.isDigit c = true) : 48 ≤ c.toNat ∧ c.toNat ≤ 57 := by
  simp only [Py.isDigit, Bool.and_eq_true, decide_eq_true_eq, Char.le_def, UInt32.le_iff_toNat_le,
    Char.toNat_val] at h
  exact h

theorem term_isDigit_eq : Term.isDigit = Py.isDigit := rfl

theorem isSpace_of_isDigit {c : Char} (h : Py.isDigit c = true) : Py.isSpace c = false := by
  have := isDigit_range h
  have h32 : c ≠ ' ' := by
    intro e; subst e; simp at this
  simp [Py.isSpace, h32]
  omega

theorem isWs_of_isDigit {c : Char} (h : Py.isDigit c = true) : Term.isWs c = false :=
  isSpace_of_isDigit h

theorem ne_semi_of_isDigit {c : Char} (h : Py.isDigit c = true) : c ≠ ';' := by
  intro e; subst e; simp [Py.isDigit] at h

theorem isTerm_of_isDigit {c : Char} (h : Py.isDigit c = true) : isTerm c = false := by
  have := isDigit_range h
  have h' : ¬ (Gen.termLo ≤ c.toNat) := by simp only [Gen.termLo]; omega
  simp [isTerm, h']


/-! ## `str(n)` -/


def AllDigits (s : Str) : Prop := ∀ c ∈ s, Py.isDigit c = true

theorem digitChar_spec : ∀ k, k < 10 →
    (Char.ofNat ('0'.toNat + k)).toNat - '0'.toNat = k ∧ Py.isDigit (Char.ofNat ('0'.toNat + k)) = true := by
  decide

theorem digitsVal_append_single (ds : Str) (c : Char) :
    Py.digitsVal (ds ++ [c]) = 10 * Py.digitsVal ds + (c.toNat - '0'.toNat) := by
  simp [Py.digitsVal, List.foldl_append]

theorem natDigitsAux_spec : ∀ (fuel n : Nat) (acc : Str), n < fuel →
    ∃ ds, Py.natDigitsAux fuel n acc = ds ++ acc ∧ ds ≠ [] ∧ AllDigits ds ∧ Py.digitsVal ds = n := by
  intro fuel
  induction fuel with
  | zero => intro n acc h; omega
  | succ fuel ih =>
    intro n acc h
    have hd := digitChar_spec (n % 10) (Nat.mod_lt _ (by omega))
    simp only [Py.natDigitsAux]
    by_cases h0 : n / 10 = 0
    · simp only [h0, if_true]
      refine ⟨[Char.ofNat ('0'.toNat + n % 10)], rfl, by simp, ?_, ?_⟩
      · intro c hc; simp at hc; subst hc; exact hd.2
      · have : n % 10 = n := by omega
        simp only [Py.digitsVal, List.foldl_cons, List.foldl_nil]
        omega
    · simp only [h0, if_false]
      obtain ⟨ds, h1, h2, h3, h4⟩ := ih (n / 10) (Char.ofNat ('0'.toNat + n % 10) :: acc) (by omega)
      refine ⟨ds ++ [Char.ofNat ('0'.toNat + n % 10)], by rw [h1, List.append_assoc]; rfl, by simp, ?_, ?_⟩
      · intro c hc
        rcases List.mem_append.1 hc with hc | hc
        · exact h3 c hc
        · simp at hc; subst hc; exact hd.2
      · rw [digitsVal_append_single, h4]; omega

theorem natStr_spec (n : Nat) : Py.natStr n ≠ [] ∧ AllDigits (Py.natStr n) ∧ Py.digitsVal (Py.natStr n) = n := by
  obtain ⟨ds, h1, h2, h3, h4⟩ := natDigitsAux_spec (n + 1) n [] (by omega)
  simp only [List.append_nil] at h1
  rw [Py.natStr, h1]; exact ⟨h2, h3, h4⟩


/-! ## split / join / strip -/


theorem splitSemi_eq (s : List Char) : Term.splitSemi s = Py.splitOnChar ';' s := by
  induction s with
  | nil => rfl
  | cons c rest ih =>
    simp only [Term.splitSemi, Py.splitOnChar, ih]
    cases Py.splitOnChar ';' rest <;> rfl

theorem splitOnChar_ne_nil (sep : Char) (s : Str) : Py.splitOnChar sep s ≠ [] := by
  induction s with
  | nil => simp [Py.splitOnChar]
  | cons c rest ih =>
    simp only [Py.splitOnChar]
    split
    · simp
    · split <;> simp

theorem splitOnChar_noSep {sep : Char} {s : Str} (h : ∀ c ∈ s, c ≠ sep) : Py.splitOnChar sep s = [s] := by
  induction s with
  | nil => rfl
  | cons c rest ih =>
    have hc : (c == sep) = false := by simpa using h c (by simp)
    simp only [Py.splitOnChar, hc, ih (fun d hd => h d (by simp [hd]))]
    simp

theorem splitOnChar_append_sep {sep : Char} {a : Str} (b : Str) (h : ∀ c ∈ a, c ≠ sep) :
    Py.splitOnChar sep (a ++ sep :: b) = a :: Py.splitOnChar sep b := by
  induction a with
  | nil => simp [Py.splitOnChar]
  | cons c rest ih =>
    have hc : (c == sep) = false := by simpa using h c (by simp)
    simp only [List.cons_append, Py.splitOnChar, hc, ih (fun d hd => h d (by simp [hd]))]
    simp

theorem splitOnChar_joinSep {sep : Char} : ∀ (l : List Str), l ≠ [] → (∀ a ∈ l, ∀ c ∈ a, c ≠ sep) →
    Py.splitOnChar sep (joinSep [sep] l) = l
  | [], h, _ => absurd rfl h
  | [a], _, h => by simpa [joinSep] using splitOnChar_noSep (h a (by simp))
  | a :: b :: rest, _, h => by
    have ih := splitOnChar_joinSep (b :: rest) (by simp) (fun x hx => h x (by simp [hx]))
    simp only [joinSep, List.append_assoc, List.singleton_append]
    rw [splitOnChar_append_sep _ (h a (by simp)), ih]

theorem dropWhile_eq_self_of_head {p : Char → Bool} : ∀ {s : Str}, (∀ c, s.head? = some c → p c = false) → s.dropWhile p = s
  | [], _ => rfl
  | c :: rest, h => by simp [List.dropWhile, h c rfl]

theorem strip_digits {s : Str} (h : AllDigits s) : Py.strip s = s := by
  have h1 : s.dropWhile Py.isSpace = s :=
    dropWhile_eq_self_of_head (fun c hc => isSpace_of_isDigit (h c (List.mem_of_mem_head? hc)))
  have h2 : s.reverse.dropWhile Py.isSpace = s.reverse :=
    dropWhile_eq_self_of_head (fun c hc => isSpace_of_isDigit (h c (by simpa using List.mem_of_mem_head? hc)))
  simp only [Py.strip, Py.rstripBy, h1, h2, List.reverse_reverse]

theorem trim_digits {s : Str} (h : AllDigits s) : Term.trim s = s := strip_digits h


/-! ## reading numbers -/


theorem isdigit_iff {s : Str} : Py.isdigit s = true ↔ s ≠ [] ∧ AllDigits s := by
  simp [Py.isdigit, AllDigits]

theorem parseDigitsU_digits : ∀ (s : Str) (a : Nat), AllDigits s →
    Py.parseDigitsU s (some a) false = some (s.foldl (fun n c => 10 * n + (c.toNat - '0'.toNat)) a)
  | [], a, _ => by simp [Py.parseDigitsU]
  | c :: rest, a, h => by
    have hc : Py.isDigit c = true := h c (by simp)
    simp only [Py.parseDigitsU, hc, if_true, Option.getD_some, List.foldl_cons]
    exact parseDigitsU_digits rest _ (fun d hd => h d (by simp [hd]))

theorem int_digits {s : Str} (hne : s ≠ []) (h : AllDigits s) : Py.int s = some (Py.digitsVal s : Int) := by
  unfold Py.int
  rw [strip_digits h]
  match s, hne, h with
  | c :: rest, _, h =>
    have hc : Py.isDigit c = true := h c (by simp)
    have hp : Py.parseDigitsU (c :: rest) none false = some (Py.digitsVal (c :: rest)) := by
      simp only [Py.parseDigitsU, hc, if_true, Option.getD_none]
      rw [parseDigitsU_digits rest _ (fun d hd => h d (by simp [hd]))]
      simp [Py.digitsVal]
    split
    · rename_i heq; cases heq; simp [Py.isDigit] at hc
    · rename_i heq; cases heq; simp [Py.isDigit] at hc
    · rw [hp]; rfl

theorem param_digits {s : Str} (hne : s ≠ []) (h : AllDigits s) : Term.param s = some (Py.digitsVal s) := by
  unfold Term.param
  simp only [trim_digits h]
  have h1 : s.isEmpty = false := by simpa [List.isEmpty_iff] using hne
  have h2 : s.all Term.isDigit = true := by simpa [AllDigits, term_isDigit_eq] using h
  simp [h1, h2, Term.decimal, Py.digitsVal]

theorem int_natStr (n : Nat) : Py.int (Py.natStr n) = some (n : Int) := by
  have := natStr_spec n
  rw [int_digits this.1 this.2.1, this.2.2]


/-! ## the terminal: equations of `Term.feed` and facts about `Term.specEffect` -/


theorem feed_nil (t : TState) : feed t [] = t := feed.eq_1 t
theorem feed_none (t : TState) (rest) : feed t (none :: rest) = feed t rest := feed.eq_2 t rest
theorem feed_unknown {c : Nat} (h : specEffect c = none) (t : TState) (rest) :
    feed t (some c :: rest) = feed t rest := feed.eq_3 t c rest h
theorem feed_reset {c : Nat} (h : specEffect c = some .reset) (t : TState) (rest) :
    feed t (some c :: rest) = feed Term.default rest := feed.eq_4 t c rest h
theorem feed_set {c : Nat} {g} (h : specEffect c = some (.set g)) (t : TState) (rest) :
    feed t (some c :: rest) = feed (t.put g [c]) rest := feed.eq_5 t c rest g h
theorem feed_clear {c : Nat} {g} (h : specEffect c = some (.clear g)) (t : TState) (rest) :
    feed t (some c :: rest) = feed (t.drop g) rest := feed.eq_6 t c rest g h
theorem feed_ext5 {c : Nat} {g} (h : specEffect c = some (.ext g)) (t : TState) (n : Nat) (rest) :
    feed t (some c :: some 5 :: some n :: rest) =
      feed (if n ≤ 255 then t.put g [c, 5, n] else t) rest := feed.eq_7 t c g rest n h
theorem feed_ext5_end {c : Nat} {g} (h : specEffect c = some (.ext g)) (t : TState) :
    feed t [some c, some 5] = t := feed.eq_9 t c g h
theorem feed_ext2 {c : Nat} {g} (h : specEffect c = some (.ext g)) (t : TState) (r gr b : Nat) (rest) :
    feed t (some c :: some 2 :: some r :: some gr :: some b :: rest) =
      feed (if r ≤ 255 ∧ gr ≤ 255 ∧ b ≤ 255 then t.put g [c, 2, r, gr, b] else t) rest :=
  feed.eq_10 t c g rest r gr b h
theorem feed_ext2_short {c : Nat} {g} (h : specEffect c = some (.ext g)) (t : TState) (rest)
    (hl : rest.length < 3) : feed t (some c :: some 2 :: rest) = t := by
  refine feed.eq_12 t c rest ?_ g h
  intro r gr b rest' e; subst e; simp at hl; omega
theorem feed_ext_other {c : Nat} {g} (h : specEffect c = some (.ext g)) (t : TState) (rest)
    (h5 : rest.head? ≠ some (some 5)) (h2 : rest.head? ≠ some (some 2)) :
    feed t (some c :: rest) = feed t rest := by
  refine feed.eq_13 t c rest g h ?_ ?_ ?_ ?_ <;> (intros; subst_vars; simp at h5 h2)


theorem specEffect_ge {c : Nat} (h : 108 ≤ c) : specEffect c = none := by
  unfold specEffect
  repeat (rw [if_neg (by omega)])

def extOK (c : Nat) : Bool :=
  match specEffect c with
  | some (.ext g) => (c == 38 && g == .fg) || (c == 48 && g == .bg) || (c == 58 && g == .ulColor)
  | _ => true

theorem extOK_all : (List.range 108).all extOK = true := by decide +kernel

theorem specEffect_ext {c : Nat} {g : Group} (h : specEffect c = some (.ext g)) :
    (c = 38 ∧ g = .fg) ∨ (c = 48 ∧ g = .bg) ∨ (c = 58 ∧ g = .ulColor) := by
  by_cases hc : c < 108
  · have := List.all_eq_true.1 extOK_all c (List.mem_range.2 hc)
    simp [extOK, h] at this
    rcases this with (h | h) | h <;> simp [h]
  · rw [specEffect_ge (by omega)] at h; cases h

theorem specEffect_38 : specEffect 38 = some (.ext .fg) := by decide
theorem specEffect_48 : specEffect 48 = some (.ext .bg) := by decide
theorem specEffect_58 : specEffect 58 = some (.ext .ulColor) := by decide


/-! ## the library's tables against the terminal's -/

/-- the library's effect numbers (`AnsiParamEffect` values) as terminal groups; 1 = RESET has none -/
def groupOfEff : Nat → Option Term.Group
  | 2 => some .boldness | 3 => some .italics | 4 => some .underline | 5 => some .overline
  | 6 => some .blinking | 7 => some .swap | 8 => some .visibility | 9 => some .crossedOut
  | 10 => some .font | 11 => some .spacing | 12 => some .boxing | 13 => some .fg | 14 => some .bg
  | 15 => some .ulColor | _ => none

/-- inverse of `groupOfEff` -/
def effOfGroup : Term.Group → Nat
  | .boldness => 2 | .italics => 3 | .underline => 4 | .overline => 5 | .blinking => 6 | .swap => 7
  | .visibility => 8 | .crossedOut => 9 | .font => 10 | .spacing => 11 | .boxing => 12 | .fg => 13
  | .bg => 14 | .ulColor => 15

theorem groupOfEff_effOfGroup (g : Term.Group) : groupOfEff (effOfGroup g) = some g := by
  cases g <;> rfl

theorem groupOfEff_eq_some {e : Nat} {g : Term.Group} : groupOfEff e = some g ↔ e = effOfGroup g := by
  constructor
  · intro h
    unfold groupOfEff at h
    split at h <;> first | (cases h; rfl) | cases h
  · intro h; subst h; exact groupOfEff_effOfGroup g

/-- the numbering `groupOfEff` assumes is the library's: a renumbering of `AnsiParamEffect` is noticed here -/
theorem effNames_eq : Gen.effNames =
    [(1, "RESET"), (2, "BOLDNESS"), (3, "ITALICS"), (4, "UNDERLINE"), (5, "OVERLINE"), (6, "BLINKING"),
     (7, "SWAP_BG_FG"), (8, "VISIBILITY"), (9, "CROSSED_OUT"), (10, "FONT_TYPE"), (11, "SPACING"),
     (12, "BOXING"), (13, "FG_COLOR"), (14, "BG_COLOR"), (15, "UL_COLOR")] := by decide

theorem ctrlFns_eq : Gen.ctrlFns = [([38,5],1), ([38,2],3), ([48,5],1), ([48,2],3), ([58,5],1), ([58,2],3)] := by
  decide

theorem fn_distinct : Gen.fnResetAll ≠ Gen.fnApply ∧ Gen.fnResetAll ≠ Gen.fnClear ∧ Gen.fnApply ≠ Gen.fnClear := by
  decide

/-- one row of the comparison library table / terminal table -/
def paramAgrees (c : Nat) : Bool :=
  match ansiParam (c : Int), Term.specEffect c with
  | none, none => true
  | some (e, fn), some a =>
    if fn = Gen.fnResetAll then a == .reset
    else if fn = Gen.fnClear then
      match groupOfEff e with
      | some g => a == .clear g
      | none => false
    else if fn = Gen.fnApply then
      match groupOfEff e with
      | some g => a == .set g || a == .ext g || (c == 10 && a == .clear g)
      | none => false
    else false
  | _, _ => false

def tablesAgreeCheck : Bool :=
  decide (Gen.fnResetAll ≠ Gen.fnApply ∧ Gen.fnResetAll ≠ Gen.fnClear ∧ Gen.fnApply ≠ Gen.fnClear) &&
  Gen.paramTable.all (fun r => r.1 < 256) &&
  (List.range 256).all paramAgrees

theorem tables_agree : tablesAgreeCheck = true := by decide +kernel

theorem ansiParam_natCast (c : Nat) :
    ansiParam (c : Int) = (Gen.paramTable.find? (fun r => r.1 == c)).map (·.2) := by
  have : ¬ ((c : Int) < 0) := by omega
  simp [ansiParam, this]

theorem ansiParam_ge {c : Nat} (h : 256 ≤ c) : ansiParam (c : Int) = none := by
  have hk : Gen.paramTable.all (fun r => r.1 < 256) = true := by
    have := tables_agree
    simp only [tablesAgreeCheck, Bool.and_eq_true] at this
    exact this.1.2
  rw [ansiParam_natCast, Option.map_eq_none_iff, List.find?_eq_none]
  intro r hr
  have := List.all_eq_true.1 hk r hr
  simp at this ⊢; omega

/-- how the library's `AnsiParam(c)` and the terminal's reading of `c` relate -/
inductive ParamSpec (c : Nat) : Option (Nat × Nat) → Option Action → Prop
  | unknown : ParamSpec c none none
  | reset (e : Nat) : ParamSpec c (some (e, Gen.fnResetAll)) (some .reset)
  | clear (e : Nat) (g : Group) : groupOfEff e = some g → ParamSpec c (some (e, Gen.fnClear)) (some (.clear g))
  | set (e : Nat) (g : Group) : groupOfEff e = some g → ParamSpec c (some (e, Gen.fnApply)) (some (.set g))
  | ext (e : Nat) (g : Group) : groupOfEff e = some g → ParamSpec c (some (e, Gen.fnApply)) (some (.ext g))
  | font10 (e : Nat) (g : Group) : c = 10 → groupOfEff e = some g →
      ParamSpec c (some (e, Gen.fnApply)) (some (.clear g))

theorem param_spec (c : Nat) : ParamSpec c (ansiParam (c : Int)) (specEffect c) := by
  by_cases hc : c < 256
  · have h := tables_agree
    simp only [tablesAgreeCheck, Bool.and_eq_true] at h
    have h := List.all_eq_true.1 h.2 c (List.mem_range.2 hc)
    unfold paramAgrees at h
    split at h
    · rename_i h1 h2; rw [h1, h2]; exact .unknown
    · rename_i e fn a h1 h2
      rw [h1, h2]
      split at h
      · rename_i hf; subst hf; simp at h; subst h; exact .reset e
      · split at h
        · rename_i hf; subst hf
          split at h
          · rename_i g hg; simp at h; subst h; exact .clear e g hg
          · cases h
        · split at h
          · rename_i hf; subst hf
            split at h
            · rename_i g hg
              simp only [Bool.or_eq_true, beq_iff_eq, Bool.and_eq_true] at h
              rcases h with (h | h) | h
              · subst h; exact .set e g hg
              · subst h; exact .ext e g hg
              · rw [h.2]; exact .font10 e g h.1 hg
            · cases h
          · cases h
    · cases h
  · rw [ansiParam_ge (by omega), specEffect_ge (by omega)]; exact .unknown




/-- one row of `EFFECT_CLEAR_DICT` against the terminal -/
def clearAgrees (r : Nat × Nat) : Bool :=
  if r.1 = 1 then Term.specEffect r.2 == some .reset
  else match groupOfEff r.1 with
    | some g => Term.specEffect r.2 == some (.clear g)
    | none => false

def clearCheck : Bool :=
  Gen.clearTable.all clearAgrees &&
  (List.range' 2 14).all (fun e => Gen.clearTable.any (fun r => r.1 == e))

theorem clear_check : clearCheck = true := by decide

theorem clear_row {e code : Nat} (h : (e, code) ∈ Gen.clearTable) (he : e ≠ 1) :
    ∃ g, groupOfEff e = some g ∧ Term.specEffect code = some (.clear g) := by
  have hc := clear_check
  simp only [clearCheck, Bool.and_eq_true] at hc
  have := List.all_eq_true.1 hc.1 _ h
  simp only [clearAgrees, he, if_false] at this
  split at this
  · rename_i g hg; exact ⟨g, hg, by simpa using this⟩
  · cases this

theorem clear_row_reset {code : Nat} (h : (1, code) ∈ Gen.clearTable) : Term.specEffect code = some .reset := by
  have hc := clear_check
  simp only [clearCheck, Bool.and_eq_true] at hc
  have := List.all_eq_true.1 hc.1 _ h
  simpa [clearAgrees] using this

theorem clear_total {e : Nat} (h2 : 2 ≤ e) (h15 : e ≤ 15) : ∃ code, (e, code) ∈ Gen.clearTable := by
  have hc := clear_check
  simp only [clearCheck, Bool.and_eq_true] at hc
  have := List.all_eq_true.1 hc.2 e (List.mem_range'.2 ⟨e - 2, by omega, by omega⟩)
  simp only [List.any_eq_true, beq_iff_eq] at this
  obtain ⟨⟨e', code⟩, hm, rfl⟩ := this
  exact ⟨code, hm⟩

/-! ## the abstraction function -/

/-- the codes of a setting text, if every parameter is a number -/
def settingVal (t : Str) : Option (List Nat) :=
  if (Term.params t).all Option.isSome then some ((Term.params t).filterMap id) else none

/-- what a dict entry filed under group `g` stands for: its codes, except that the default font
    (code 10, which the library files as an *apply* of FONT_TYPE) stands for "nothing set" -/
def entryVal (g : Group) (s : Setting) : Option Val :=
  if g = .font ∧ settingVal s.txt = some [10] then none else settingVal s.txt

/-- the terminal state a `settings_to_dict` result stands for -/
def alpha (d : PyDict) : Term.TState := fun g =>
  (d.find? (fun kv => groupOfEff kv.1 == some g)).bind (fun kv => entryVal g kv.2)

theorem settingVal_of_params {t : Str} {vals : List Nat} (h : Term.params t = vals.map some) :
    settingVal t = some vals := by
  have h1 : (vals.map some).all Option.isSome = true := by simp
  have h2 : (vals.map some).filterMap id = vals := by simp [List.filterMap_map]
  simp [settingVal, h, h2]

theorem groupOfEff_beq (k : Nat) (g : Group) : (groupOfEff k == some g) = (k == effOfGroup g) := by
  rw [Bool.eq_iff_iff]; simp [groupOfEff_eq_some]

theorem effOfGroup_inj {g g' : Group} (h : effOfGroup g = effOfGroup g') : g = g' := by
  have := groupOfEff_effOfGroup g
  rw [h, groupOfEff_effOfGroup] at this
  exact (Option.some.inj this).symm

theorem alpha_eq (d : PyDict) (g : Group) :
    alpha d g = (d.find? (fun kv => kv.1 == effOfGroup g)).bind (fun kv => entryVal g kv.2) := by
  simp only [alpha, groupOfEff_beq]

theorem alpha_nil : alpha [] = Term.default := rfl

theorem find_insert (d : PyDict) (e : Nat) (s : Setting) (k : Nat) :
    (d.insert e s).find? (fun kv => kv.1 == k) =
      if k = e then some (e, s) else d.find? (fun kv => kv.1 == k) := by
  induction d with
  | nil =>
    by_cases h : k = e
    · simp [PyDict.insert, h]
    · have : (e == k) = false := by simpa using fun h' => h h'.symm
      simp [PyDict.insert, h, this]
  | cons kv rest ih =>
    obtain ⟨k', v'⟩ := kv
    by_cases hk : k' = e
    · subst hk
      by_cases h : k = k'
      · subst h; simp [PyDict.insert]
      · have : (k' == k) = false := by simpa using fun h' => h h'.symm
        simp [PyDict.insert, h, this]
    · have hk' : (k' == e) = false := by simpa using hk
      simp only [PyDict.insert, hk', Bool.false_eq_true, if_false, List.find?_cons]
      by_cases h : k' = k
      · subst h; simp [hk]
      · have : (k' == k) = false := by simpa using h
        simp only [this, ih]

theorem find_erase (d : PyDict) (e : Nat) (k : Nat) :
    (d.erase e).find? (fun kv => kv.1 == k) =
      if k = e then none else d.find? (fun kv => kv.1 == k) := by
  induction d with
  | nil => simp [PyDict.erase]
  | cons kv rest ih =>
    obtain ⟨k', v'⟩ := kv
    simp only [PyDict.erase] at ih
    by_cases hk : k' = e
    · subst hk
      simp only [PyDict.erase, List.filter_cons, bne_self_eq_false, Bool.false_eq_true, if_false, ih]
      by_cases h : k = k'
      · simp [h]
      · have : (k' == k) = false := by simpa using fun h' => h h'.symm
        simp [h, this]
    · have hk' : (k' != e) = true := by simpa using hk
      simp only [PyDict.erase, List.filter_cons, hk', if_true, List.find?_cons, ih]
      by_cases h : k' = k
      · subst h; simp [hk]
      · have : (k' == k) = false := by simpa using h
        simp [this]

theorem alpha_insert {e : Nat} {g : Group} (hg : groupOfEff e = some g) (d : PyDict) (s : Setting) :
    alpha (d.insert e s) = fun g' => if g' = g then entryVal g s else alpha d g' := by
  funext g'
  rw [groupOfEff_eq_some] at hg
  rw [alpha_eq, alpha_eq, find_insert]
  by_cases h : g' = g
  · subst h; simp [hg]
  · have : effOfGroup g' ≠ e := fun h' => h (effOfGroup_inj (h'.trans hg))
    simp [h, this]

theorem alpha_erase {e : Nat} {g : Group} (hg : groupOfEff e = some g) (d : PyDict) :
    alpha (d.erase e) = (alpha d).drop g := by
  funext g'
  rw [groupOfEff_eq_some] at hg
  rw [TState.drop, alpha_eq, alpha_eq, find_erase]
  by_cases h : g' = g
  · subst h; simp [hg]
  · have : effOfGroup g' ≠ e := fun h' => h (effOfGroup_inj (h'.trans hg))
    simp [h, this]


/-! ## group texts -/

/-- the numbers of a digits-only setting text -/
def valsOf (t : Str) : List Nat := (Py.splitOnChar ';' t).map Py.digitsVal

/-- the shapes `isGroupTxt` allows: one code that does not open an extended colour, or a complete
    extended-colour group -/
inductive GroupVals : List Nat → Prop
  | single (c : Nat) : c ≠ 38 → c ≠ 48 → c ≠ 58 → GroupVals [c]
  | idx (c n : Nat) : (c = 38 ∨ c = 48 ∨ c = 58) → n ≤ 255 → GroupVals [c, 5, n]
  | rgb (c r g b : Nat) : (c = 38 ∨ c = 48 ∨ c = 58) → r ≤ 255 → g ≤ 255 → b ≤ 255 →
      GroupVals [c, 2, r, g, b]

theorem isGroupTxt_spec {t : Str} (h : isGroupTxt t = true) :
    (∀ it ∈ Py.splitOnChar ';' t, Py.isdigit it = true) ∧ GroupVals (valsOf t) := by
  unfold isGroupTxt at h
  simp only [Bool.and_eq_true, List.all_eq_true] at h
  refine ⟨h.1, ?_⟩
  have h2 := h.2
  unfold valsOf
  split at h2
  · rename_i c heq; rw [heq]; simp at h2; exact .single c h2.1.1 h2.1.2 h2.2
  · rename_i c n heq; rw [heq]; simp at h2; exact .idx c n (or_assoc.1 h2.1) h2.2
  · rename_i c r g b heq; rw [heq]; simp at h2
    exact .rgb c r g b (or_assoc.1 h2.1.1.1) h2.1.1.2 h2.1.2 h2.2
  · cases h2

theorem isGroupTxt_of_spec {t : Str} (h1 : ∀ it ∈ Py.splitOnChar ';' t, Py.isdigit it = true)
    (h2 : GroupVals (valsOf t)) : isGroupTxt t = true := by
  unfold isGroupTxt
  simp only [Bool.and_eq_true, List.all_eq_true]
  refine ⟨h1, ?_⟩
  unfold valsOf at h2
  generalize List.map Py.digitsVal (Py.splitOnChar ';' t) = l at h2
  cases h2 with
  | single c a b d => simp [a, b, d]
  | idx c n hc hn => rcases hc with rfl | rfl | rfl <;> simp [hn]
  | rgb c r g b hc hr hg hb => rcases hc with rfl | rfl | rfl <;> simp [hr, hg, hb]

/-- model and terminal read the same numbers from a digits-only text -/
theorem params_of_digits {t : Str} (h : ∀ it ∈ Py.splitOnChar ';' t, Py.isdigit it = true) :
    Term.params t = (valsOf t).map some := by
  unfold Term.params valsOf
  rw [splitSemi_eq, List.map_map]
  apply List.map_congr_left
  intro it hit
  have := isdigit_iff.1 (h it hit)
  exact param_digits this.1 this.2

/-- `get_initial_param` of a digits-only text is the `AnsiParam` of its first number -/
theorem initialParam_of_digits {t : Str} (h : ∀ it ∈ Py.splitOnChar ';' t, Py.isdigit it = true) :
    SettingTxt.initialParam t = ((valsOf t).head?.map (fun c => ((c : Nat) : Int))).bind ansiParam := by
  unfold SettingTxt.initialParam valsOf
  cases hs : Py.splitOnChar ';' t with
  | nil => exact absurd hs (splitOnChar_ne_nil _ _)
  | cons v rest =>
    have := isdigit_iff.1 (h v (by simp [hs]))
    simp [int_digits this.1 this.2]


/-! ## feed algebra: a complete group is consumed as a unit -/

theorem specEffect_of_extCode {c : Nat} (hc : c = 38 ∨ c = 48 ∨ c = 58) :
    ∃ g, specEffect c = some (.ext g) := by
  rcases hc with rfl | rfl | rfl
  · exact ⟨_, specEffect_38⟩
  · exact ⟨_, specEffect_48⟩
  · exact ⟨_, specEffect_58⟩

/-- a single code that is not 38/48/58 is consumed on its own -/
theorem feed_single {c : Nat} (h38 : c ≠ 38) (h48 : c ≠ 48) (h58 : c ≠ 58) (st : TState) (rest) :
    feed st (some c :: rest) = feed (feed st [some c]) rest := by
  cases hs : specEffect c with
  | none => rw [feed_unknown hs, feed_unknown hs, feed_nil]
  | some a =>
    cases a with
    | reset => rw [feed_reset hs, feed_reset hs, feed_nil]
    | set g => rw [feed_set hs, feed_set hs, feed_nil]
    | clear g => rw [feed_clear hs, feed_clear hs, feed_nil]
    | ext g => rcases specEffect_ext hs with h | h | h <;> simp_all

/-- **a complete group is consumed as a unit** -/
theorem feed_group {vals : List Nat} (h : GroupVals vals) (st : TState) (rest : List (Option Nat)) :
    feed st (vals.map some ++ rest) = feed (feed st (vals.map some)) rest := by
  cases h with
  | single c a b d => exact feed_single a b d st rest
  | idx c n hc hn =>
    obtain ⟨g, hg⟩ := specEffect_of_extCode hc
    simp only [List.map_cons, List.map_nil, List.cons_append, List.nil_append]
    rw [feed_ext5 hg, feed_ext5 hg, feed_nil]
  | rgb c r g b hc hr hg hb =>
    obtain ⟨gr, hgr⟩ := specEffect_of_extCode hc
    simp only [List.map_cons, List.map_nil, List.cons_append, List.nil_append]
    rw [feed_ext2 hgr, feed_ext2 hgr, feed_nil]

theorem feed_groupTxt {t : Str} (h : isGroupTxt t = true) (st : TState) (rest : List (Option Nat)) :
    feed st (Term.params t ++ rest) = feed (feed st (Term.params t)) rest := by
  obtain ⟨h1, h2⟩ := isGroupTxt_spec h
  rw [params_of_digits h1]
  exact feed_group h2 st rest

theorem codesOf_nil : codesOf [] = [] := rfl
theorem codesOf_cons (s : Setting) (l : List Setting) : codesOf (s :: l) = Term.params s.txt ++ codesOf l := by
  simp [codesOf]
theorem codesOf_append (l l' : List Setting) : codesOf (l ++ l') = codesOf l ++ codesOf l' := by
  simp [codesOf]

/-- settings that are complete groups can be fed one list after the other -/
theorem feed_codesOf_append' {l : List Setting} (h : ∀ s ∈ l, isGroupTxt s.txt = true) (st : TState)
    (rest : List (Option Nat)) : feed st (codesOf l ++ rest) = feed (feed st (codesOf l)) rest := by
  induction l generalizing st with
  | nil => simp [codesOf_nil, feed_nil]
  | cons s l ih =>
    have hs := h s (by simp)
    have hl : ∀ s ∈ l, isGroupTxt s.txt = true := fun x hx => h x (by simp [hx])
    rw [codesOf_cons, List.append_assoc, feed_groupTxt hs, ih hl, feed_groupTxt hs st (codesOf l)]

theorem feed_codesOf_append {l : List Setting} (h : ∀ s ∈ l, isGroupTxt s.txt = true) (st : TState)
    (l' : List Setting) : feed st (codesOf (l ++ l')) = feed (feed st (codesOf l)) (codesOf l') := by
  rw [codesOf_append, feed_codesOf_append' h]


/-! ## `settings_to_dict` against the terminal -/

/-- one iteration of `settings_to_dict` -/
def dictStep (d : PyDict) (s : Setting) : PyDict :=
  match SettingTxt.initialParam s.txt with
  | none => d
  | some (eff, fn) =>
    if fn == Gen.fnApply then d.insert eff s
    else if fn == Gen.fnClear then d.erase eff
    else []

theorem settingsToDict_eq (ss : List Setting) (d : PyDict) : settingsToDict ss d = ss.foldl dictStep d := rfl
theorem settingsToDict_nil (d : PyDict) : settingsToDict [] d = d := rfl
theorem settingsToDict_cons (s : Setting) (ss : List Setting) (d : PyDict) :
    settingsToDict (s :: ss) d = settingsToDict ss (dictStep d s) := rfl
theorem settingsToDict_append (l l' : List Setting) (d : PyDict) :
    settingsToDict (l ++ l') d = settingsToDict l' (settingsToDict l d) := by
  simp [settingsToDict_eq, List.foldl_append]

theorem entryVal_of_params {s : Setting} {vals : List Nat} (h : Term.params s.txt = vals.map some)
    (g : Group) (hv : vals ≠ [10]) : entryVal g s = some vals := by
  simp [entryVal, settingVal_of_params h, hv]

theorem entryVal_font10 {s : Setting} (h : Term.params s.txt = [some 10]) : entryVal .font s = none := by
  have : settingVal s.txt = some [10] := settingVal_of_params (vals := [10]) h
  simp [entryVal, this]

theorem specEffect_10 : specEffect 10 = some (.clear .font) := by decide

/-- what `settings_to_dict` does with one group text is what the terminal does with its codes -/
theorem alpha_dictStep {s : Setting} (h : isGroupTxt s.txt = true) (d : PyDict) :
    alpha (dictStep d s) = feed (alpha d) (Term.params s.txt) := by
  obtain ⟨h1, h2⟩ := isGroupTxt_spec h
  have hp := params_of_digits h1
  have hi := initialParam_of_digits h1
  have hR := fn_distinct
  unfold dictStep
  rw [hp, hi]
  generalize valsOf s.txt = vals at *
  cases h2 with
  | single c a b cc =>
    have ps := param_spec c
    simp only [List.head?_cons, Option.map_some, Option.bind_some, List.map_cons, List.map_nil]
    generalize ansiParam (c : Int) = q at ps
    cases hs : specEffect c with
    | none =>
      rw [hs] at ps; cases ps
      rw [feed_unknown hs, feed_nil]
    | some act =>
      rw [hs] at ps
      cases ps with
      | reset e =>
        have e1 : (Gen.fnResetAll == Gen.fnApply) = false := by simpa using hR.1
        have e2 : (Gen.fnResetAll == Gen.fnClear) = false := by simpa using hR.2.1
        simp only [e1, e2, Bool.false_eq_true, if_false]
        rw [feed_reset hs, feed_nil]; rfl
      | clear e g hg =>
        have e1 : (Gen.fnClear == Gen.fnApply) = false := by simpa using fun h => hR.2.2 h.symm
        simp only [e1, Bool.false_eq_true, if_false, beq_self_eq_true, if_true]
        rw [feed_clear hs, feed_nil, alpha_erase hg]
      | set e g hg =>
        simp only [beq_self_eq_true, if_true]
        have hc10 : c ≠ 10 := by
          intro h10; subst h10; rw [specEffect_10] at hs; cases hs
        rw [feed_set hs, feed_nil, alpha_insert hg,
          entryVal_of_params (vals := [c]) hp g (by simpa using hc10)]
        rfl
      | ext e g hg => rcases specEffect_ext hs with h | h | h <;> simp_all
      | font10 e g h10 hg =>
        subst h10
        rw [specEffect_10] at hs
        cases hs
        simp only [beq_self_eq_true, if_true]
        rw [feed_clear specEffect_10, feed_nil, alpha_insert hg, entryVal_font10 hp]
        rfl
  | idx c n hc hn =>
    obtain ⟨g, hs⟩ := specEffect_of_extCode hc
    have ps := param_spec c
    simp only [List.head?_cons, Option.map_some, Option.bind_some, List.map_cons, List.map_nil]
    generalize ansiParam (c : Int) = q at ps
    rw [hs] at ps
    cases ps with
    | ext e _ hg =>
      simp only [beq_self_eq_true, if_true]
      rw [feed_ext5 hs, feed_nil, alpha_insert hg,
        entryVal_of_params (vals := [c, 5, n]) hp g (by simp), if_pos hn]
      rfl
  | rgb c r gg b hc hr hg' hb =>
    obtain ⟨g, hs⟩ := specEffect_of_extCode hc
    have ps := param_spec c
    simp only [List.head?_cons, Option.map_some, Option.bind_some, List.map_cons, List.map_nil]
    generalize ansiParam (c : Int) = q at ps
    rw [hs] at ps
    cases ps with
    | ext e _ hg =>
      simp only [beq_self_eq_true, if_true]
      rw [feed_ext2 hs, feed_nil, alpha_insert hg,
        entryVal_of_params (vals := [c, 2, r, gg, b]) hp g (by simp), if_pos ⟨hr, hg', hb⟩]
      rfl

/-- `settings_to_dict(ss, old)` stands for feeding the codes of `ss` to the terminal in state `old`
    (no assumption on `old` is needed) -/
theorem alpha_settingsToDict {ss : List Setting} (h : ∀ s ∈ ss, isGroupTxt s.txt = true) (old : PyDict) :
    alpha (settingsToDict ss old) = feed (alpha old) (codesOf ss) := by
  induction ss generalizing old with
  | nil => rw [settingsToDict_nil, codesOf_nil, feed_nil]
  | cons s ss ih =>
    have hs := h s (by simp)
    rw [settingsToDict_cons, ih (fun x hx => h x (by simp [hx])), alpha_dictStep hs, codesOf_cons,
      feed_groupTxt hs]


/-- what a dict built by `settings_to_dict` from group texts looks like: keys pairwise distinct, every
    entry is a group text filed under the effect its first code applies -/
def DictOK (d : PyDict) : Prop :=
  d.Pairwise (fun a b => a.1 ≠ b.1) ∧
  ∀ kv ∈ d, isGroupTxt kv.2.txt = true ∧ SettingTxt.initialParam kv.2.txt = some (kv.1, Gen.fnApply)

theorem dictOK_nil : DictOK [] := ⟨List.Pairwise.nil, by simp⟩

theorem mem_insert {d : PyDict} {e : Nat} {s : Setting} {kv : Nat × Setting} (h : kv ∈ d.insert e s) :
    kv = (e, s) ∨ kv ∈ d := by
  induction d with
  | nil => simp [PyDict.insert] at h; exact .inl h
  | cons x rest ih =>
    obtain ⟨k', v'⟩ := x
    by_cases hk : k' = e
    · subst hk
      simp only [PyDict.insert, beq_self_eq_true, if_true, List.mem_cons] at h
      rcases h with h | h
      · exact .inl h
      · exact .inr (by simp [h])
    · have hk' : (k' == e) = false := by simpa using hk
      simp only [PyDict.insert, hk', Bool.false_eq_true, if_false, List.mem_cons] at h
      rcases h with h | h
      · subst h; exact .inr (by simp)
      · rcases ih h with h | h
        · exact .inl h
        · exact .inr (by simp [h])

theorem pairwise_insert {d : PyDict} (h : d.Pairwise (fun a b => a.1 ≠ b.1)) (e : Nat) (s : Setting) :
    (d.insert e s).Pairwise (fun a b => a.1 ≠ b.1) := by
  induction d with
  | nil => simp [PyDict.insert]
  | cons x rest ih =>
    obtain ⟨k', v'⟩ := x
    rw [List.pairwise_cons] at h
    by_cases hk : k' = e
    · subst hk
      simp only [PyDict.insert, beq_self_eq_true, if_true]
      exact List.pairwise_cons.2 ⟨h.1, h.2⟩
    · have hk' : (k' == e) = false := by simpa using hk
      simp only [PyDict.insert, hk', Bool.false_eq_true, if_false]
      refine List.pairwise_cons.2 ⟨?_, ih h.2⟩
      intro b hb
      rcases mem_insert hb with hb | hb
      · subst hb; exact hk
      · exact h.1 b hb

theorem dictOK_insert {d : PyDict} (h : DictOK d) {e : Nat} {s : Setting} (hs : isGroupTxt s.txt = true)
    (hi : SettingTxt.initialParam s.txt = some (e, Gen.fnApply)) : DictOK (d.insert e s) := by
  refine ⟨pairwise_insert h.1 e s, ?_⟩
  intro kv hkv
  rcases mem_insert hkv with hkv | hkv
  · subst hkv; exact ⟨hs, hi⟩
  · exact h.2 kv hkv

theorem dictOK_erase {d : PyDict} (h : DictOK d) (e : Nat) : DictOK (d.erase e) :=
  ⟨h.1.filter _, fun kv hkv => h.2 kv (List.mem_filter.1 hkv).1⟩

theorem dictOK_dictStep {d : PyDict} (h : DictOK d) {s : Setting} (hs : isGroupTxt s.txt = true) :
    DictOK (dictStep d s) := by
  unfold dictStep
  split
  · exact h
  · rename_i e fn hi
    split
    · rename_i hf
      have : fn = Gen.fnApply := by simpa using hf
      subst this
      exact dictOK_insert h hs hi
    · split
      · exact dictOK_erase h e
      · exact dictOK_nil

theorem dictOK_settingsToDict {ss : List Setting} (h : ∀ s ∈ ss, isGroupTxt s.txt = true) {old : PyDict}
    (ho : DictOK old) : DictOK (settingsToDict ss old) := by
  induction ss generalizing old with
  | nil => exact ho
  | cons s ss ih =>
    rw [settingsToDict_cons]
    exact ih (fun x hx => h x (by simp [hx])) (dictOK_dictStep ho (h s (by simp)))

theorem isGroupTxt_zero : isGroupTxt ['0'] = true := by decide


/-! ## texts made by `parse_graphic_sequence`: `';'.join(str(c) for c in group)` -/

/-- the text of a group of codes -/
def joinNats (l : List Nat) : Str := joinSep [';'] (l.map Py.natStr)

theorem intStr_natCast (n : Nat) : Py.intStr (n : Int) = Py.natStr n := by
  have : ¬ ((n : Int) < 0) := by omega
  simp [Py.intStr, this]

theorem joinInts_natCast (l : List Nat) : joinInts (l.map (fun c => ((c : Nat) : Int))) = joinNats l := by
  simp [joinInts, joinNats, semi, List.map_map, Function.comp_def, intStr_natCast]

theorem natStr_noSemi (n : Nat) : ∀ c ∈ Py.natStr n, c ≠ ';' :=
  fun c hc => ne_semi_of_isDigit ((natStr_spec n).2.1 c hc)

theorem isdigit_natStr (n : Nat) : Py.isdigit (Py.natStr n) = true :=
  isdigit_iff.2 ⟨(natStr_spec n).1, (natStr_spec n).2.1⟩

theorem split_joinNats {l : List Nat} (h : l ≠ []) : Py.splitOnChar ';' (joinNats l) = l.map Py.natStr := by
  apply splitOnChar_joinSep
  · simpa using h
  · intro a ha
    obtain ⟨n, _, rfl⟩ := List.mem_map.1 ha
    exact natStr_noSemi n

theorem split_natStr (n : Nat) : Py.splitOnChar ';' (Py.natStr n) = [Py.natStr n] :=
  splitOnChar_noSep (natStr_noSemi n)

theorem joinNats_single (n : Nat) : joinNats [n] = Py.natStr n := rfl

theorem items_joinNats {l : List Nat} (h : l ≠ []) : ∀ it ∈ Py.splitOnChar ';' (joinNats l), Py.isdigit it = true := by
  rw [split_joinNats h]
  intro it hit
  obtain ⟨n, _, rfl⟩ := List.mem_map.1 hit
  exact isdigit_natStr n

theorem valsOf_joinNats {l : List Nat} (h : l ≠ []) : valsOf (joinNats l) = l := by
  rw [valsOf, split_joinNats h, List.map_map]
  conv => rhs; rw [← List.map_id l]
  apply List.map_congr_left
  intro n _
  exact (natStr_spec n).2.2

theorem params_joinNats {l : List Nat} (h : l ≠ []) : Term.params (joinNats l) = l.map some := by
  rw [params_of_digits (items_joinNats h), valsOf_joinNats h]

theorem isGroupTxt_joinNats {l : List Nat} (h : GroupVals l) : isGroupTxt (joinNats l) = true := by
  have hne : l ≠ [] := by cases h <;> simp
  exact isGroupTxt_of_spec (items_joinNats hne) (by rw [valsOf_joinNats hne]; exact h)

theorem toList_joinNats {l : List Nat} (h : l ≠ []) :
    SettingTxt.toList (joinNats l) = l.map (fun (c : Nat) => Code.int (c : Int)) := by
  rw [SettingTxt.toList, split_joinNats h, List.map_map]
  apply List.map_congr_left
  intro n _
  have hs := natStr_spec n
  simp [strip_digits hs.2.1, isdigit_natStr, hs.2.2]

theorem valid_joinNats (l : List Nat) : SettingTxt.valid (joinNats l) = true := by
  have key : ∀ l : List Str, (∀ a ∈ l, ∀ c ∈ a, isTerm c = false) → ∀ c ∈ joinSep [';'] l, isTerm c = false := by
    intro l
    induction l with
    | nil => intro _ c hc; simp [joinSep] at hc
    | cons a rest ih =>
      intro h c hc
      cases rest with
      | nil => exact h a (by simp) c (by simpa [joinSep] using hc)
      | cons b rest =>
        simp only [joinSep, List.append_assoc, List.mem_append, List.mem_singleton] at hc
        rcases hc with hc | hc | hc
        · exact h a (by simp) c hc
        · subst hc; decide
        · exact ih (fun x hx => h x (by simp [hx])) c hc
  simp only [SettingTxt.valid, List.all_eq_true, Bool.not_eq_true']
  apply key
  intro a ha c hc
  obtain ⟨n, _, rfl⟩ := List.mem_map.1 ha
  exact isTerm_of_isDigit ((natStr_spec n).2.1 c hc)


/-! ## the loop of `parse_graphic_sequence` -/

/-- codes that open an extended-colour group -/
def IsExt (c : Nat) : Prop := c = 38 ∨ c = 48 ∨ c = 58

instance (c : Nat) : Decidable (IsExt c) := by unfold IsExt; infer_instance

abbrev ci (c : Nat) : Code := Code.int (c : Int)

theorem pgsFnLoop_nonExt {c : Nat} (h : ¬ IsExt c) (tl : List Code) :
    pgsFnLoop (ci c :: tl) (c : Int) Gen.ctrlFns (1, false, false) = (1, false, false) := by
  simp only [IsExt, not_or] at h
  have a1 : ((c : Nat) : Int) ≠ 38 := by omega
  have a2 : ((c : Nat) : Int) ≠ 48 := by omega
  have a3 : ((c : Nat) : Int) ≠ 58 := by omega
  have b1 : (38 : Int) ≠ ((c : Nat) : Int) := by omega
  have b2 : (48 : Int) ≠ ((c : Nat) : Int) := by omega
  have b3 : (58 : Int) ≠ ((c : Nat) : Int) := by omega
  rw [ctrlFns_eq]
  simp [pgsFnLoop, SettingTxt.startsWithFn, a1, a2, a3, b1, b2, b3]

theorem pgsFnLoop_ext5 {c : Nat} (h : IsExt c) (tl : List Code) :
    pgsFnLoop (ci c :: Code.int 5 :: tl) (c : Int) Gen.ctrlFns (1, false, false) = (3, true, true) := by
  rw [ctrlFns_eq]
  rcases h with rfl | rfl | rfl <;> simp [pgsFnLoop, SettingTxt.startsWithFn]

theorem pgsFnLoop_ext2 {c : Nat} (h : IsExt c) (tl : List Code) :
    pgsFnLoop (ci c :: Code.int 2 :: tl) (c : Int) Gen.ctrlFns (1, false, false) = (5, true, true) := by
  rw [ctrlFns_eq]
  rcases h with rfl | rfl | rfl <;> simp [pgsFnLoop, SettingTxt.startsWithFn]

theorem pgsFnLoop_extOther {c : Nat} (h : IsExt c) (tl : List Code)
    (h5 : tl.head? ≠ some (Code.int 5)) (h2 : tl.head? ≠ some (Code.int 2)) :
    pgsFnLoop (ci c :: tl) (c : Int) Gen.ctrlFns (1, false, false) = (1, false, true) := by
  rw [ctrlFns_eq]
  cases tl with
  | nil => rcases h with rfl | rfl | rfl <;> simp [pgsFnLoop, SettingTxt.startsWithFn]
  | cons x tl =>
    have x5 : (x == Code.int 5) = false := by simpa using h5
    have x2 : (x == Code.int 2) = false := by simpa using h2
    rcases h with rfl | rfl | rfl <;> simp [pgsFnLoop, SettingTxt.startsWithFn, x5, x2]


theorem ansiParam_ext {c : Nat} (h : IsExt c) : ∃ e, ansiParam (c : Int) = some (e, Gen.fnApply) := by
  obtain ⟨g, hs⟩ := specEffect_of_extCode h
  have ps := param_spec c
  rw [hs] at ps
  generalize ansiParam (c : Int) = q at ps
  cases ps with
  | ext e _ _ => exact ⟨e, rfl⟩

theorem dec_lt_cast (n : Nat) : decide (255 < (n : Int)) = !decide (n ≤ 255) := by
  by_cases h : n ≤ 255
  · have : ¬ (255 < (n : Int)) := by omega
    simp [h, this]
  · have : (255 < (n : Int)) := by omega
    simp [h, this]

theorem parsable_idx {c : Nat} (h : IsExt c) (n : Nat) :
    SettingTxt.parsable (joinNats [c, 5, n]) = decide (n ≤ 255) := by
  obtain ⟨e, he⟩ := ansiParam_ext h
  unfold SettingTxt.parsable
  rw [valid_joinNats, toList_joinNats (by simp)]
  simp only [List.map_cons, List.map_nil, he, ctrlFns_eq]
  rcases h with rfl | rfl | rfl <;>
    simp [SettingTxt.parsableFnLoop, SettingTxt.startsWithFn, dec_lt_cast]

theorem parsable_rgb {c : Nat} (h : IsExt c) (r g b : Nat) :
    SettingTxt.parsable (joinNats [c, 2, r, g, b]) = decide (r ≤ 255 ∧ g ≤ 255 ∧ b ≤ 255) := by
  obtain ⟨e, he⟩ := ansiParam_ext h
  unfold SettingTxt.parsable
  rw [valid_joinNats, toList_joinNats (by simp)]
  simp only [List.map_cons, List.map_nil, he, ctrlFns_eq]
  rcases h with rfl | rfl | rfl <;>
    simp [SettingTxt.parsableFnLoop, SettingTxt.startsWithFn, dec_lt_cast]


theorem joinInts_single (c : Nat) : joinInts [(c : Int)] = Py.natStr c := by
  exact (joinInts_natCast [c]).trans (joinNats_single c)

theorem loop_single {c : Nat} (h : ¬ IsExt c) (rest : List Code) (l : Int) (o : List Str) :
    pgsLoop false (Code.int (c : Int) :: rest) ⟨l, [], o⟩ =
      pgsLoop false rest ⟨0, [], o ++ [Py.natStr c]⟩ := by
  rw [pgsLoop]
  simp [pgsFnLoop_nonExt h, joinInts_single]

theorem loop_skip {c : Nat} (h : IsExt c) (rest : List Code)
    (h5 : rest.head? ≠ some (Code.int 5)) (h2 : rest.head? ≠ some (Code.int 2)) (l : Int) (o : List Str) :
    pgsLoop false (Code.int (c : Int) :: rest) ⟨l, [], o⟩ = pgsLoop false rest ⟨l, [], o⟩ := by
  rw [pgsLoop]
  simp [pgsFnLoop_extOther h rest h5 h2]

theorem loop_open5 {c : Nat} (h : IsExt c) (rest : List Code) (l : Int) (o : List Str) :
    pgsLoop false (Code.int (c : Int) :: Code.int 5 :: rest) ⟨l, [], o⟩ =
      pgsLoop false (Code.int 5 :: rest) ⟨2, [(c : Int)], o⟩ := by
  rw [pgsLoop]
  simp [pgsFnLoop_ext5 h]

theorem loop_open2 {c : Nat} (h : IsExt c) (rest : List Code) (l : Int) (o : List Str) :
    pgsLoop false (Code.int (c : Int) :: Code.int 2 :: rest) ⟨l, [], o⟩ =
      pgsLoop false (Code.int 2 :: rest) ⟨4, [(c : Int)], o⟩ := by
  rw [pgsLoop]
  simp [pgsFnLoop_ext2 h]

theorem loop_cont (v : Int) (rest : List Code) (l : Int) (cur : List Int) (o : List Str)
    (hc : cur ≠ []) (hl : 1 < l) :
    pgsLoop false (Code.int v :: rest) ⟨l, cur, o⟩ = pgsLoop false rest ⟨l - 1, cur ++ [v], o⟩ := by
  rw [pgsLoop]
  have : ¬ (l - 1 ≤ 0) := by omega
  simp [hc, this]

theorem loop_flush (v : Int) (rest : List Code) (l : Int) (cur : List Int) (o : List Str)
    (hc : cur ≠ []) (hl : l ≤ 1) :
    pgsLoop false (Code.int v :: rest) ⟨l, cur, o⟩ =
      pgsLoop false rest ⟨l - 1, [], if SettingTxt.parsable (joinInts (cur ++ [v])) then o ++ [joinInts (cur ++ [v])] else o⟩ := by
  rw [pgsLoop]
  have : l - 1 ≤ 0 := by omega
  simp [hc, this]


/-- how `parse_graphic_sequence(codes, add_erroneous=False)` cuts a code list into groups: the
    relation mirrors the look-ahead of a terminal (`Term.feed`) -/
inductive Split : List Nat → List (List Nat) → Prop
  | nil : Split [] []
  | single (c : Nat) (rest : List Nat) (gs : List (List Nat)) :
      ¬ IsExt c → Split rest gs → Split (c :: rest) ([c] :: gs)
  | skip (c : Nat) (rest : List Nat) (gs : List (List Nat)) :
      IsExt c → rest.head? ≠ some 5 → rest.head? ≠ some 2 → Split rest gs → Split (c :: rest) gs
  | idx (c n : Nat) (rest : List Nat) (gs : List (List Nat)) :
      IsExt c → n ≤ 255 → Split rest gs → Split (c :: 5 :: n :: rest) ([c, 5, n] :: gs)
  | idxBad (c n : Nat) (rest : List Nat) (gs : List (List Nat)) :
      IsExt c → ¬ n ≤ 255 → Split rest gs → Split (c :: 5 :: n :: rest) gs
  | idxEnd (c : Nat) : IsExt c → Split [c, 5] []
  | rgb (c r g b : Nat) (rest : List Nat) (gs : List (List Nat)) :
      IsExt c → (r ≤ 255 ∧ g ≤ 255 ∧ b ≤ 255) → Split rest gs →
      Split (c :: 2 :: r :: g :: b :: rest) ([c, 2, r, g, b] :: gs)
  | rgbBad (c r g b : Nat) (rest : List Nat) (gs : List (List Nat)) :
      IsExt c → ¬ (r ≤ 255 ∧ g ≤ 255 ∧ b ≤ 255) → Split rest gs →
      Split (c :: 2 :: r :: g :: b :: rest) gs
  | rgbEnd (c : Nat) (tail : List Nat) : IsExt c → tail.length < 3 → Split (c :: 2 :: tail) []

theorem split_exists_aux : ∀ (n : Nat) (codes : List Nat), codes.length ≤ n → ∃ gs, Split codes gs := by
  intro n
  induction n with
  | zero =>
    intro codes h
    have : codes = [] := List.length_eq_zero_iff.1 (by omega)
    subst this; exact ⟨[], .nil⟩
  | succ n ih =>
    intro codes h
    match codes, h with
    | [], _ => exact ⟨[], .nil⟩
    | c :: rest, h =>
      simp only [List.length_cons] at h
      by_cases hc : IsExt c
      · match rest, h with
        | [], _ => exact ⟨[], .skip c [] [] hc (by simp) (by simp) .nil⟩
        | m :: rest1, h =>
          simp only [List.length_cons] at h
          by_cases h5 : m = 5
          · subst h5
            match rest1, h with
            | [], _ => exact ⟨[], .idxEnd c hc⟩
            | k :: rest2, h =>
              simp only [List.length_cons] at h
              obtain ⟨gs, hgs⟩ := ih rest2 (by omega)
              by_cases hk : k ≤ 255
              · exact ⟨_, .idx c k rest2 gs hc hk hgs⟩
              · exact ⟨_, .idxBad c k rest2 gs hc hk hgs⟩
          · by_cases h2 : m = 2
            · subst h2
              match rest1, h with
              | r :: g :: b :: rest2, h =>
                simp only [List.length_cons] at h
                obtain ⟨gs, hgs⟩ := ih rest2 (by omega)
                by_cases hk : r ≤ 255 ∧ g ≤ 255 ∧ b ≤ 255
                · exact ⟨_, .rgb c r g b rest2 gs hc hk hgs⟩
                · exact ⟨_, .rgbBad c r g b rest2 gs hc hk hgs⟩
              | [], _ => exact ⟨[], .rgbEnd c [] hc (by simp)⟩
              | [_], _ => exact ⟨[], .rgbEnd c _ hc (by simp)⟩
              | [_, _], _ => exact ⟨[], .rgbEnd c _ hc (by simp)⟩
            · obtain ⟨gs, hgs⟩ := ih (m :: rest1) (by simp; omega)
              exact ⟨gs, .skip c _ gs hc (by simpa using h5) (by simpa using h2) hgs⟩
      · obtain ⟨gs, hgs⟩ := ih rest (by omega)
        exact ⟨_, .single c rest gs hc hgs⟩

theorem split_exists (codes : List Nat) : ∃ gs, Split codes gs := split_exists_aux _ codes (Nat.le_refl _)

theorem split_groupVals {codes : List Nat} {gs : List (List Nat)} (h : Split codes gs) :
    ∀ g ∈ gs, GroupVals g := by
  induction h with
  | nil => simp
  | single c rest gs hc _ ih =>
    intro g hg
    rcases List.mem_cons.1 hg with rfl | hg
    · simp only [IsExt, not_or] at hc; exact .single c hc.1 hc.2.1 hc.2.2
    · exact ih g hg
  | skip c rest gs _ _ _ _ ih => exact ih
  | idx c n rest gs hc hn _ ih =>
    intro g hg
    rcases List.mem_cons.1 hg with rfl | hg
    · exact .idx c n hc hn
    · exact ih g hg
  | idxBad c n rest gs _ _ _ ih => exact ih
  | idxEnd c _ => simp
  | rgb c r g b rest gs hc hk _ ih =>
    intro g' hg
    rcases List.mem_cons.1 hg with rfl | hg
    · exact .rgb c r g b hc hk.1 hk.2.1 hk.2.2
    · exact ih g' hg
  | rgbBad c r g b rest gs _ _ _ ih => exact ih
  | rgbEnd c tail _ _ => simp

/-- the groups kept are exactly what the terminal does not ignore -/
theorem split_feed {codes : List Nat} {gs : List (List Nat)} (h : Split codes gs) :
    ∀ st : TState, feed st (gs.flatten.map some) = feed st (codes.map some) := by
  induction h with
  | nil => intro st; rfl
  | single c rest gs hc _ ih =>
    intro st
    simp only [IsExt, not_or] at hc
    simp only [List.flatten_cons, List.map_cons, List.cons_append, List.nil_append]
    rw [feed_single hc.1 hc.2.1 hc.2.2, ih, ← feed_single hc.1 hc.2.1 hc.2.2]
  | skip c rest gs hc h5 h2 _ ih =>
    intro st
    obtain ⟨g, hg⟩ := specEffect_of_extCode hc
    rw [List.map_cons, feed_ext_other hg, ih]
    · cases rest <;> simp_all
    · cases rest <;> simp_all
  | idx c n rest gs hc hn _ ih =>
    intro st
    obtain ⟨g, hg⟩ := specEffect_of_extCode hc
    simp only [List.flatten_cons, List.map_cons, List.cons_append, List.nil_append]
    rw [feed_ext5 hg, feed_ext5 hg, ih]
  | idxBad c n rest gs hc hn _ ih =>
    intro st
    obtain ⟨g, hg⟩ := specEffect_of_extCode hc
    simp only [List.map_cons]
    rw [feed_ext5 hg, if_neg hn, ih]
  | idxEnd c hc =>
    intro st
    obtain ⟨g, hg⟩ := specEffect_of_extCode hc
    simp only [List.flatten_nil, List.map_nil, List.map_cons]
    rw [feed_ext5_end hg, feed_nil]
  | rgb c r g b rest gs hc hk _ ih =>
    intro st
    obtain ⟨gr, hg⟩ := specEffect_of_extCode hc
    simp only [List.flatten_cons, List.map_cons, List.cons_append, List.nil_append]
    rw [feed_ext2 hg, feed_ext2 hg, ih]
  | rgbBad c r g b rest gs hc hk _ ih =>
    intro st
    obtain ⟨gr, hg⟩ := specEffect_of_extCode hc
    simp only [List.map_cons]
    rw [feed_ext2 hg, if_neg hk, ih]
  | rgbEnd c tail hc hl =>
    intro st
    obtain ⟨gr, hg⟩ := specEffect_of_extCode hc
    simp only [List.flatten_nil, List.map_nil, List.map_cons]
    rw [feed_ext2_short hg _ _ (by simpa using hl), feed_nil]


/-- a list of ints as `parse_graphic_sequence` receives it -/
abbrev ints (l : List Nat) : List Code := l.map (fun (c : Nat) => Code.int (c : Int))

theorem pgsLoop_nil (b : Bool) (st : PgsSt) : pgsLoop b [] st = st := by rw [pgsLoop]

theorem ints_head5 {rest : List Nat} (h : rest.head? ≠ some 5) : (ints rest).head? ≠ some (Code.int 5) := by
  cases rest with
  | nil => simp
  | cons m t =>
    simp only [List.head?_cons, ne_eq, Option.some.injEq] at h
    simp only [ints, List.map_cons, List.head?_cons, ne_eq, Option.some.injEq, Code.int.injEq]
    omega

theorem ints_head2 {rest : List Nat} (h : rest.head? ≠ some 2) : (ints rest).head? ≠ some (Code.int 2) := by
  cases rest with
  | nil => simp
  | cons m t =>
    simp only [List.head?_cons, ne_eq, Option.some.injEq] at h
    simp only [ints, List.map_cons, List.head?_cons, ne_eq, Option.some.injEq, Code.int.injEq]
    omega

theorem split_loop {codes : List Nat} {gs : List (List Nat)} (h : Split codes gs) :
    ∀ (l : Int) (o : List Str), (pgsLoop false (ints codes) ⟨l, [], o⟩).out = o ++ gs.map joinNats := by
  induction h with
  | nil => intro l o; simp [pgsLoop_nil]
  | single c rest gs hc _ ih =>
    intro l o
    have e : ints (c :: rest) = Code.int (c : Int) :: ints rest := rfl
    rw [e, loop_single hc, ih]
    simp [joinNats_single]
  | skip c rest gs hc h5 h2 _ ih =>
    intro l o
    have e : ints (c :: rest) = Code.int (c : Int) :: ints rest := rfl
    rw [e, loop_skip hc _ (ints_head5 h5) (ints_head2 h2), ih]
  | idx c n rest gs hc hn _ ih =>
    intro l o
    have e : ints (c :: 5 :: n :: rest) = Code.int (c : Int) :: Code.int 5 :: Code.int (n : Int) :: ints rest := rfl
    have e2 : joinInts ([(c : Int)] ++ [5] ++ [(n : Int)]) = joinNats [c, 5, n] := joinInts_natCast [c, 5, n]
    rw [e, loop_open5 hc, loop_cont _ _ _ _ _ (by simp) (by omega),
      loop_flush _ _ _ _ _ (by simp) (by omega), e2, parsable_idx hc, ih]
    simp [hn]
  | idxBad c n rest gs hc hn _ ih =>
    intro l o
    have e : ints (c :: 5 :: n :: rest) = Code.int (c : Int) :: Code.int 5 :: Code.int (n : Int) :: ints rest := rfl
    have e2 : joinInts ([(c : Int)] ++ [5] ++ [(n : Int)]) = joinNats [c, 5, n] := joinInts_natCast [c, 5, n]
    rw [e, loop_open5 hc, loop_cont _ _ _ _ _ (by simp) (by omega),
      loop_flush _ _ _ _ _ (by simp) (by omega), e2, parsable_idx hc, ih]
    simp [hn]
  | idxEnd c hc =>
    intro l o
    have e : ints [c, 5] = [Code.int (c : Int), Code.int 5] := rfl
    rw [e, loop_open5 hc, loop_cont _ _ _ _ _ (by simp) (by omega), pgsLoop_nil]
    simp
  | rgb c r g b rest gs hc hk _ ih =>
    intro l o
    have e : ints (c :: 2 :: r :: g :: b :: rest) =
      Code.int (c : Int) :: Code.int 2 :: Code.int (r : Int) :: Code.int (g : Int) :: Code.int (b : Int) :: ints rest := rfl
    have e2 : joinInts ([(c : Int)] ++ [2] ++ [(r : Int)] ++ [(g : Int)] ++ [(b : Int)]) = joinNats [c, 2, r, g, b] :=
      joinInts_natCast [c, 2, r, g, b]
    rw [e, loop_open2 hc, loop_cont _ _ _ _ _ (by simp) (by omega), loop_cont _ _ _ _ _ (by simp) (by omega),
      loop_cont _ _ _ _ _ (by simp) (by omega),
      loop_flush _ _ _ _ _ (by simp) (by omega), e2, parsable_rgb hc, ih]
    simp [hk]
  | rgbBad c r g b rest gs hc hk _ ih =>
    intro l o
    have e : ints (c :: 2 :: r :: g :: b :: rest) =
      Code.int (c : Int) :: Code.int 2 :: Code.int (r : Int) :: Code.int (g : Int) :: Code.int (b : Int) :: ints rest := rfl
    have e2 : joinInts ([(c : Int)] ++ [2] ++ [(r : Int)] ++ [(g : Int)] ++ [(b : Int)]) = joinNats [c, 2, r, g, b] :=
      joinInts_natCast [c, 2, r, g, b]
    rw [e, loop_open2 hc, loop_cont _ _ _ _ _ (by simp) (by omega), loop_cont _ _ _ _ _ (by simp) (by omega),
      loop_cont _ _ _ _ _ (by simp) (by omega),
      loop_flush _ _ _ _ _ (by simp) (by omega), e2, parsable_rgb hc, ih]
    simp [hk]
  | rgbEnd c tail hc hl =>
    intro l o
    match tail, hl with
    | [], _ =>
      have e : ints [c, 2] = [Code.int (c : Int), Code.int 2] := rfl
      rw [e, loop_open2 hc, loop_cont _ _ _ _ _ (by simp) (by omega), pgsLoop_nil]
      simp
    | [r], _ =>
      have e : ints [c, 2, r] = [Code.int (c : Int), Code.int 2, Code.int (r : Int)] := rfl
      rw [e, loop_open2 hc, loop_cont _ _ _ _ _ (by simp) (by omega),
        loop_cont _ _ _ _ _ (by simp) (by omega), pgsLoop_nil]
      simp
    | [r, g], _ =>
      have e : ints [c, 2, r, g] = [Code.int (c : Int), Code.int 2, Code.int (r : Int), Code.int (g : Int)] := rfl
      rw [e, loop_open2 hc, loop_cont _ _ _ _ _ (by simp) (by omega),
        loop_cont _ _ _ _ _ (by simp) (by omega), loop_cont _ _ _ _ _ (by simp) (by omega), pgsLoop_nil]
      simp


/-! ## `add_erroneous=True`: every token survives -/

theorem intStr_noSemi (v : Int) : ∀ c ∈ Py.intStr v, c ≠ ';' := by
  intro c hc
  unfold Py.intStr at hc
  split at hc
  · rcases List.mem_cons.1 hc with rfl | hc
    · decide
    · exact natStr_noSemi _ c hc
  · exact natStr_noSemi _ c hc

theorem split_joinInts {cur : List Int} (h : cur ≠ []) :
    Py.splitOnChar ';' (joinInts cur) = cur.map Py.intStr := by
  unfold joinInts semi
  apply splitOnChar_joinSep
  · simpa using h
  · intro a ha
    obtain ⟨n, _, rfl⟩ := List.mem_map.1 ha
    exact intStr_noSemi n

/-- the tokens a loop state holds: those of the finished settings, then the open group -/
def tokens (st : PgsSt) : List Str := st.out.flatMap (Py.splitOnChar ';') ++ st.cur.map Py.intStr

theorem loop_true_step (v : Int) (rest : List Code) (st : PgsSt) :
    ∃ st1, pgsLoop true (Code.int v :: rest) st = pgsLoop true rest st1 ∧
      tokens st1 = tokens st ++ [Py.intStr v] := by
  rw [pgsLoop]
  simp only [Bool.not_true, Bool.false_eq_true, and_false, if_false]
  have key : ∀ left : Int, ∃ st1,
      (if left - 1 ≤ 0 then
            pgsLoop true rest
              { left := left - 1,
                out :=
                  if (true || (st.cur ++ [v]).length == 1 || SettingTxt.parsable (joinInts (st.cur ++ [v]))) = true then
                    st.out ++ [joinInts (st.cur ++ [v])]
                  else st.out }
          else pgsLoop true rest { left := left - 1, cur := st.cur ++ [v], out := st.out }) =
        pgsLoop true rest st1 ∧ tokens st1 = tokens st ++ [Py.intStr v] := by
    intro left
    by_cases hl : left - 1 ≤ 0
    · refine ⟨_, by rw [if_pos hl], ?_⟩
      simp [tokens, split_joinInts]
    · refine ⟨_, by rw [if_neg hl], ?_⟩
      simp [tokens]
  by_cases hc : st.cur.isEmpty = true
  · simp only [hc, if_true]; exact key _
  · simp only [hc]; exact key _


theorem loop_true_tokens (codes : List Nat) : ∀ st : PgsSt,
    tokens (pgsLoop true (ints codes) st) = tokens st ++ codes.map Py.natStr := by
  induction codes with
  | nil => intro st; simp [pgsLoop_nil]
  | cons c rest ih =>
    intro st
    obtain ⟨st1, h1, h2⟩ := loop_true_step (c : Int) (ints rest) st
    have e : ints (c :: rest) = Code.int (c : Int) :: ints rest := rfl
    rw [e, h1, ih, h2, intStr_natCast]
    simp

theorem pgsItems_true_tokens (codes : List Nat) :
    (pgsItems (ints codes) true).flatMap (Py.splitOnChar ';') = codes.map Py.natStr := by
  have h := loop_true_tokens codes {}
  simp only [tokens] at h
  unfold pgsItems
  simp only [and_true]
  cases hc : (pgsLoop true (ints codes) {}).cur with
  | nil => rw [hc] at h; simpa using h
  | cons a t =>
    rw [hc] at h
    simp only [List.isEmpty_cons, Bool.not_false, if_true, List.flatMap_append, List.flatMap_cons,
      List.flatMap_nil, List.append_nil]
    rw [split_joinInts (by simp)]
    exact h

theorem pgsItemsOfList_ints (l : List Nat) : pgsItemsOfList (ints l) = ints l := by
  simp [pgsItemsOfList, ints, List.map_map, Function.comp_def]

theorem pgsList_ints {codes : List Nat} (h : codes ≠ []) (b : Bool) :
    pgsList (ints codes) b = pgsItems (ints codes) b := by
  have : (ints codes).isEmpty = false := by cases codes <;> simp_all [ints]
  simp [pgsList, this, pgsItemsOfList_ints]

theorem pgsItems_false {codes : List Nat} {gs : List (List Nat)} (h : Split codes gs) :
    pgsItems (ints codes) false = gs.map joinNats := by
  unfold pgsItems
  simp only [Bool.false_eq_true, and_false, if_false]
  simpa using split_loop h 0 []

theorem pgsItemsOfStr_joinNats {codes : List Nat} (h : codes ≠ []) :
    pgsItemsOfStr (joinNats codes) = ints codes := by
  rw [pgsItemsOfStr, split_joinNats h, List.map_map]
  apply List.map_congr_left
  intro n _
  have hs := natStr_spec n
  simp [strip_digits hs.2.1, int_natStr]

theorem joinNats_ne_nil {codes : List Nat} (h : codes ≠ []) : joinNats codes ≠ [] := by
  intro e
  have := split_joinNats h
  rw [e] at this
  match codes, h with
  | c :: rest, _ =>
    simp [Py.splitOnChar] at this
    exact (natStr_spec c).1 this.1

theorem pgsStr_joinNats {codes : List Nat} (h : codes ≠ []) (b : Bool) :
    pgsStr (joinNats codes) b = pgsList (ints codes) b := by
  have : (joinNats codes).isEmpty = false := by
    simpa [List.isEmpty_iff] using joinNats_ne_nil h
  rw [pgsList_ints h, pgsStr, this]
  simp [pgsItemsOfStr_joinNats h]

theorem codesOf_groups (gs : List (List Nat)) (h : ∀ g ∈ gs, g ≠ []) :
    codesOf ((gs.map joinNats).map (fun t => (⟨0, t⟩ : Setting))) = gs.flatten.map some := by
  induction gs with
  | nil => rfl
  | cons g gs ih =>
    simp only [List.map_cons, codesOf_cons, List.flatten_cons, List.map_append]
    rw [params_joinNats (h g (by simp)), ih (fun x hx => h x (by simp [hx]))]


end Eff
