import AnsiSpec
/-
  AnsiProofs.Lemmas.Effects — helper lemmas for C18 (and the feed algebra reused by C01):
  digits/number round trips, split/join, the hand-written abstraction `alpha` from the library's
  effect dict to a terminal state, table agreement, algebra of `Term.feed`.
-/
open Term

namespace Eff

/-! ## characters and digit strings -/


theorem isDigit_range {c : Char} (h : Py.isDigit c = true) : 48 ≤ c.toNat ∧ c.toNat ≤ 57 := by
  simp only [Py.isDigit, Bool.and_eq_true, decide_eq_true_eq, Char.le_def, UInt32.le_iff_toNat_le,
    Char.toNat_val] at h
  exact h

theorem term_isDigit_eq : Term.isDigit = Py.isDigit := rfl

theorem isSpace_of_isDigit {c : Char} (h : Py.isDigit c = true) : Py.isSpace c = false := by
  have := isDigit_range h
  have h32 : c ≠ ' ' := by
    intro e; subst e; simp at this
  simp [Py.isSpace, h32]
  omega

theorem isWs_of_isDigit {c : Char} (h : Py.isDigit c = true) : Term.isWs c = false :=
  isSpace_of_isDigit h

theorem ne_semi_of_isDigit {c : Char} (h : Py.isDigit c = true) : c ≠ ';' := by
  intro e; subst e; simp [Py.isDigit] at h

theorem isTerm_of_isDigit {c : Char} (h : Py.isDigit c = true) : isTerm c = false := by
  have := isDigit_range h
  have h' : ¬ (Gen.termLo ≤ c.toNat) := by simp only [Gen.termLo]; omega
  simp [isTerm, h']


/-! ## `str(n)` -/


def AllDigits (s : Str) : Prop := ∀ c ∈ s, Py.isDigit c = true

theorem digitChar_spec : ∀ k, k < 10 →
    (Char.ofNat ('0'.toNat + k)).toNat - '0'.toNat = k ∧ Py.isDigit (Char.ofNat ('0'.toNat + k)) = true := by
  decide

theorem digitsVal_append_single (ds : Str) (c : Char) :
    Py.digitsVal (ds ++ [c]) = 10 * Py.digitsVal ds + (c.toNat - '0'.toNat) := by
  simp [Py.digitsVal, List.foldl_append]

theorem natDigitsAux_spec : ∀ (fuel n : Nat) (acc : Str), n < fuel →
    ∃ ds, Py.natDigitsAux fuel n acc = ds ++ acc ∧ ds ≠ [] ∧ AllDigits ds ∧ Py.digitsVal ds = n := by
  intro fuel
  induction fuel with
  | zero => intro n acc h; omega
  | succ fuel ih =>
    intro n acc h
    have hd := digitChar_spec (n % 10) (Nat.mod_lt _ (by omega))
    simp only [Py.natDigitsAux]
    by_cases h0 : n / 10 = 0
    · simp only [h0, if_true]
      refine ⟨[Char.ofNat ('0'.toNat + n % 10)], rfl, by simp, ?_, ?_⟩
      · intro c hc; simp at hc; subst hc; exact hd.2
      · have : n % 10 = n := by omega
        simp only [Py.digitsVal, List.foldl_cons, List.foldl_nil]
        omega
    · simp only [h0, if_false]
      obtain ⟨ds, h1, h2, h3, h4⟩ := ih (n / 10) (Char.ofNat ('0'.toNat + n % 10) :: acc) (by omega)
      refine ⟨ds ++ [Char.ofNat ('0'.toNat + n % 10)], by rw [h1, List.append_assoc]; rfl, by simp, ?_, ?_⟩
      · intro c hc
        rcases List.mem_append.1 hc with hc | hc
        · exact h3 c hc
        · simp at hc; subst hc; exact hd.2
      · rw [digitsVal_append_single, h4]; omega

theorem natStr_spec (n : Nat) : Py.natStr n ≠ [] ∧ AllDigits (Py.natStr n) ∧ Py.digitsVal (Py.natStr n) = n := by
  obtain ⟨ds, h1, h2, h3, h4⟩ := natDigitsAux_spec (n + 1) n [] (by omega)
  simp only [List.append_nil] at h1
  rw [Py.natStr, h1]; exact ⟨h2, h3, h4⟩


/-! ## split / join / strip -/


theorem splitSemi_eq (s : List Char) : Term.splitSemi s = Py.splitOnChar ';' s := by
  induction s with
  | nil => rfl
  | cons c rest ih =>
    simp only [Term.splitSemi, Py.splitOnChar, ih]
    cases Py.splitOnChar ';' rest <;> rfl

theorem splitOnChar_ne_nil (sep : Char) (s : Str) : Py.splitOnChar sep s ≠ [] := by
  induction s with
  | nil => simp [Py.splitOnChar]
  | cons c rest ih =>
    simp only [Py.splitOnChar]
    split
    · simp
    · split <;> simp

theorem splitOnChar_noSep {sep : Char} {s : Str} (h : ∀ c ∈ s, c ≠ sep) : Py.splitOnChar sep s = [s] := by
  induction s with
  | nil => rfl
  | cons c rest ih =>
    have hc : (c == sep) = false := by simpa using h c (by simp)
    simp only [Py.splitOnChar, hc, ih (fun d hd => h d (by simp [hd]))]
    simp

theorem splitOnChar_append_sep {sep : Char} {a : Str} (b : Str) (h : ∀ c ∈ a, c ≠ sep) :
    Py.splitOnChar sep (a ++ sep :: b) = a :: Py.splitOnChar sep b := by
  induction a with
  | nil => simp [Py.splitOnChar]
  | cons c rest ih =>
    have hc : (c == sep) = false := by simpa using h c (by simp)
    simp only [List.cons_append, Py.splitOnChar, hc, ih (fun d hd => h d (by simp [hd]))]
    simp

theorem splitOnChar_joinSep {sep : Char} : ∀ (l : List Str), l ≠ [] → (∀ a ∈ l, ∀ c ∈ a, c ≠ sep) →
    Py.splitOnChar sep (joinSep [sep] l) = l
  | [], h, _ => absurd rfl h
  | [a], _, h => by simpa [joinSep] using splitOnChar_noSep (h a (by simp))
  | a :: b :: rest, _, h => by
    have ih := splitOnChar_joinSep (b :: rest) (by simp) (fun x hx => h x (by simp [hx]))
    simp only [joinSep, List.append_assoc, List.singleton_append]
    rw [splitOnChar_append_sep _ (h a (by simp)), ih]

theorem dropWhile_eq_self_of_head {p : Char → Bool} : ∀ {s : Str}, (∀ c, s.head? = some c → p c = false) → s.dropWhile p = s
  | [], _ => rfl
  | c :: rest, h => by simp [List.dropWhile, h c rfl]

theorem strip_digits {s : Str} (h : AllDigits s) : Py.strip s = s := by
  have h1 : s.dropWhile Py.isSpace = s :=
    dropWhile_eq_self_of_head (fun c hc => isSpace_of_isDigit (h c (List.mem_of_mem_head? hc)))
  have h2 : s.reverse.dropWhile Py.isSpace = s.reverse :=
    dropWhile_eq_self_of_head (fun c hc => isSpace_of_isDigit (h c (by simpa using List.mem_of_mem_head? hc)))
  simp only [Py.strip, Py.rstripBy, h1, h2, List.reverse_reverse]

theorem trim_digits {s : Str} (h : AllDigits s) : Term.trim s = s := strip_digits h


/-! ## reading numbers -/


theorem isdigit_iff {s : Str} : Py.isdigit s = true ↔ s ≠ [] ∧ AllDigits s := by
  simp [Py.isdigit, AllDigits]

theorem parseDigitsU_digits : ∀ (s : Str) (a : Nat), AllDigits s →
    Py.parseDigitsU s (some a) false = some (s.foldl (fun n c => 10 * n + (c.toNat - '0'.toNat)) a)
  | [], a, _ => by simp [Py.parseDigitsU]
  | c :: rest, a, h => by
    have hc : Py.isDigit c = true := h c (by simp)
    simp only [Py.parseDigitsU, hc, if_true, Option.getD_some, List.foldl_cons]
    exact parseDigitsU_digits rest _ (fun d hd => h d (by simp [hd]))

theorem int_digits {s : Str} (hne : s ≠ []) (h : AllDigits s) : Py.int s = some (Py.digitsVal s : Int) := by
  unfold Py.int
  rw [strip_digits h]
  match s, hne, h with
  | c :: rest, _, h =>
    have hc : Py.isDigit c = true := h c (by simp)
    have hp : Py.parseDigitsU (c :: rest) none false = some (Py.digitsVal (c :: rest)) := by
      simp only [Py.parseDigitsU, hc, if_true, Option.getD_none]
      rw [parseDigitsU_digits rest _ (fun d hd => h d (by simp [hd]))]
      simp [Py.digitsVal]
    split
    · rename_i heq; cases heq; simp [Py.isDigit] at hc
    · rename_i heq; cases heq; simp [Py.isDigit] at hc
    · rw [hp]; rfl

theorem param_digits {s : Str} (hne : s ≠ []) (h : AllDigits s) : Term.param s = some (Py.digitsVal s) := by
  unfold Term.param
  simp only [trim_digits h]
  have h1 : s.isEmpty = false := by simpa [List.isEmpty_iff] using hne
  have h2 : s.all Term.isDigit = true := by simpa [AllDigits, term_isDigit_eq] using h
  simp [h1, h2, Term.decimal, Py.digitsVal]

theorem int_natStr (n : Nat) : Py.int (Py.natStr n) = some (n : Int) := by
  have := natStr_spec n
  rw [int_digits this.1 this.2.1, this.2.2]


/-! ## the terminal: equations of `Term.feed` and facts about `Term.specEffect` -/


theorem feed_nil (t : TState) : feed t [] = t := feed.eq_1 t
theorem feed_none (t : TState) (rest) : feed t (none :: rest) = feed t rest := feed.eq_2 t rest
theorem feed_unknown {c : Nat} (h : specEffect c = none) (t : TState) (rest) :
    feed t (some c :: rest) = feed t rest := feed.eq_3 t c rest h
theorem feed_reset {c : Nat} (h : specEffect c = some .reset) (t : TState) (rest) :
    feed t (some c :: rest) = feed Term.default rest := feed.eq_4 t c rest h
theorem feed_set {c : Nat} {g} (h : specEffect c = some (.set g)) (t : TState) (rest) :
    feed t (some c :: rest) = feed (t.put g [c]) rest := feed.eq_5 t c rest g h
theorem feed_clear {c : Nat} {g} (h : specEffect c = some (.clear g)) (t : TState) (rest) :
    feed t (some c :: rest) = feed (t.drop g) rest := feed.eq_6 t c rest g h
theorem feed_ext5 {c : Nat} {g} (h : specEffect c = some (.ext g)) (t : TState) (n : Nat) (rest) :
    feed t (some c :: some 5 :: some n :: rest) =
      feed (if n ≤ 255 then t.put g [c, 5, n] else t) rest := feed.eq_7 t c g rest n h
theorem feed_ext5_end {c : Nat} {g} (h : specEffect c = some (.ext g)) (t : TState) :
    feed t [some c, some 5] = t := feed.eq_9 t c g h
theorem feed_ext2 {c : Nat} {g} (h : specEffect c = some (.ext g)) (t : TState) (r gr b : Nat) (rest) :
    feed t (some c :: some 2 :: some r :: some gr :: some b :: rest) =
      feed (if r ≤ 255 ∧ gr ≤ 255 ∧ b ≤ 255 then t.put g [c, 2, r, gr, b] else t) rest :=
  feed.eq_10 t c g rest r gr b h
theorem feed_ext2_short {c : Nat} {g} (h : specEffect c = some (.ext g)) (t : TState) (rest)
    (hl : rest.length < 3) : feed t (some c :: some 2 :: rest) = t := by
  refine feed.eq_12 t c rest ?_ g h
  intro r gr b rest' e; subst e; simp at hl; omega
theorem feed_ext_other {c : Nat} {g} (h : specEffect c = some (.ext g)) (t : TState) (rest)
    (h5 : rest.head? ≠ some (some 5)) (h2 : rest.head? ≠ some (some 2)) :
    feed t (some c :: rest) = feed t rest := by
  refine feed.eq_13 t c rest g h ?_ ?_ ?_ ?_ <;> (intros; subst_vars; simp at h5 h2)


theorem specEffect_ge {c : Nat} (h : 108 ≤ c) : specEffect c = none := by
  unfold specEffect
  repeat (rw [if_neg (by omega)])

def extOK (c : Nat) : Bool :=
  match specEffect c with
  | some (.ext g) => (c == 38 && g == .fg) || (c == 48 && g == .bg) || (c == 58 && g == .ulColor)
  | _ => true

theorem extOK_all : (List.range 108).all extOK = true := by decide +kernel

theorem specEffect_ext {c : Nat} {g : Group} (h : specEffect c = some (.ext g)) :
    (c = 38 ∧ g = .fg) ∨ (c = 48 ∧ g = .bg) ∨ (c = 58 ∧ g = .ulColor) := by
  by_cases hc : c < 108
  · have := List.all_eq_true.1 extOK_all c (List.mem_range.2 hc)
    simp [extOK, h] at this
    rcases this with (h | h) | h <;> simp [h]
  · rw [specEffect_ge (by omega)] at h; cases h

theorem specEffect_38 : specEffect 38 = some (.ext .fg) := by decide
theorem specEffect_48 : specEffect 48 = some (.ext .bg) := by decide
theorem specEffect_58 : specEffect 58 = some (.ext .ulColor) := by decide


/-! ## the library's tables against the terminal's -/

/-- the library's effect numbers (`AnsiParamEffect` values) as terminal groups; 1 = RESET has none -/
def groupOfEff : Nat → Option Term.Group
  | 2 => some .boldness | 3 => some .italics | 4 => some .underline | 5 => some .overline
  | 6 => some .blinking | 7 => some .swap | 8 => some .visibility | 9 => some .crossedOut
  | 10 => some .font | 11 => some .spacing | 12 => some .boxing | 13 => some .fg | 14 => some .bg
  | 15 => some .ulColor | _ => none

/-- inverse of `groupOfEff` -/
def effOfGroup : Term.Group → Nat
  | .boldness => 2 | .italics => 3 | .underline => 4 | .overline => 5 | .blinking => 6 | .swap => 7
  | .visibility => 8 | .crossedOut => 9 | .font => 10 | .spacing => 11 | .boxing => 12 | .fg => 13
  | .bg => 14 | .ulColor => 15

theorem groupOfEff_effOfGroup (g : Term.Group) : groupOfEff (effOfGroup g) = some g := by
  cases g <;> rfl

theorem groupOfEff_eq_some {e : Nat} {g : Term.Group} : groupOfEff e = some g ↔ e = effOfGroup g := by
  constructor
  · intro h
    unfold groupOfEff at h
    split at h <;> first | (cases h; rfl) | cases h
  · intro h; subst h; exact groupOfEff_effOfGroup g

/-- the numbering `groupOfEff` assumes is the library's: a renumbering of `AnsiParamEffect` is noticed here -/
theorem effNames_eq : Gen.effNames =
    [(1, "RESET"), (2, "BOLDNESS"), (3, "ITALICS"), (4, "UNDERLINE"), (5, "OVERLINE"), (6, "BLINKING"),
     (7, "SWAP_BG_FG"), (8, "VISIBILITY"), (9, "CROSSED_OUT"), (10, "FONT_TYPE"), (11, "SPACING"),
     (12, "BOXING"), (13, "FG_COLOR"), (14, "BG_COLOR"), (15, "UL_COLOR")] := by decide

theorem ctrlFns_eq : Gen.ctrlFns = [([38,5],1), ([38,2],3), ([48,5],1), ([48,2],3), ([58,5],1), ([58,2],3)] := by
  decide

theorem fn_distinct : Gen.fnResetAll ≠ Gen.fnApply ∧ Gen.fnResetAll ≠ Gen.fnClear ∧ Gen.fnApply ≠ Gen.fnClear := by
  decide

/-- one row of the comparison library table / terminal table -/
def paramAgrees (c : Nat) : Bool :=
  match ansiParam (c : Int), Term.specEffect c with
  | none, none => true
  | some (e, fn), some a =>
    if fn = Gen.fnResetAll then a == .reset
    else if fn = Gen.fnClear then
      match groupOfEff e with
      | some g => a == .clear g
      | none => false
    else if fn = Gen.fnApply then
      match groupOfEff e with
      | some g => a == .set g || a == .ext g || (c == 10 && a == .clear g)
      | none => false
    else false
  | _, _ => false

def tablesAgreeCheck : Bool :=
  decide (Gen.fnResetAll ≠ Gen.fnApply ∧ Gen.fnResetAll ≠ Gen.fnClear ∧ Gen.fnApply ≠ Gen.fnClear) &&
  Gen.paramTable.all (fun r => r.1 < 256) &&
  (List.range 256).all paramAgrees

theorem tables_agree : tablesAgreeCheck = true := by decide +kernel

theorem ansiParam_natCast (c : Nat) :
    ansiParam (c : Int) = (Gen.paramTable.find? (fun r => r.1 == c)).map (·.2) := by
  have : ¬ ((c : Int) < 0) := by omega
  simp [ansiParam, this]

theorem ansiParam_ge {c : Nat} (h : 256 ≤ c) : ansiParam (c : Int) = none := by
  have hk : Gen.paramTable.all (fun r => r.1 < 256) = true := by
    have := tables_agree
    simp only [tablesAgreeCheck, Bool.and_eq_true] at this
    exact this.1.2
  rw [ansiParam_natCast, Option.map_eq_none_iff, List.find?_eq_none]
  intro r hr
  have := List.all_eq_true.1 hk r hr
  simp at this ⊢; omega

/-- how the library's `AnsiParam(c)` and the terminal's reading of `c` relate -/
inductive ParamSpec (c : Nat) : Option (Nat × Nat) → Option Action → Prop
  | unknown : ParamSpec c none none
  | reset (e : Nat) : ParamSpec c (some (e, Gen.fnResetAll)) (some .reset)
  | clear (e : Nat) (g : Group) : groupOfEff e = some g → ParamSpec c (some (e, Gen.fnClear)) (some (.clear g))
  | set (e : Nat) (g : Group) : groupOfEff e = some g → ParamSpec c (some (e, Gen.fnApply)) (some (.set g))
  | ext (e : Nat) (g : Group) : groupOfEff e = some g → ParamSpec c (some (e, Gen.fnApply)) (some (.ext g))
  | font10 (e : Nat) (g : Group) : c = 10 → groupOfEff e = some g →
      ParamSpec c (some (e, Gen.fnApply)) (some (.clear g))

theorem param_spec (c : Nat) : ParamSpec c (ansiParam (c : Int)) (specEffect c) := by
  by_cases hc : c < 256
  · have h := tables_agree
    simp only [tablesAgreeCheck, Bool.and_eq_true] at h
    have h := List.all_eq_true.1 h.2 c (List.mem_range.2 hc)
    unfold paramAgrees at h
    split at h
    · rename_i h1 h2; rw [h1, h2]; exact .unknown
    · rename_i e fn a h1 h2
      rw [h1, h2]
      split at h
      · rename_i hf; subst hf; simp at h; subst h; exact .reset e
      · split at h
        · rename_i hf; subst hf
          split at h
          · rename_i g hg; simp at h; subst h; exact .clear e g hg
          · cases h
        · split at h
          · rename_i hf; subst hf
            split at h
            · rename_i g hg
              simp only [Bool.or_eq_true, beq_iff_eq, Bool.and_eq_true] at h
              rcases h with (h | h) | h
              · subst h; exact .set e g hg
              · subst h; exact .ext e g hg
              · rw [h.2]; exact .font10 e g h.1 hg
            · cases h
          · cases h
    · cases h
  · rw [ansiParam_ge (by omega), specEffect_ge (by omega)]; exact .unknown


end Eff
