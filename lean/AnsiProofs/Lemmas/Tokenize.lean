import AnsiSpec
/-
  AnsiProofs.Lemmas.Tokenize — helper lemmas for property C19
  (`ParsedAnsiControlSequenceString` is lossless; cursor/erase/scroll helpers).

  * `Parsed.record` / `Parsed.push` algebra (`record_cases`, `formatted_push`, `formatted_record`)
  * invariants of `tokLoop` (`tokLoop_formatted`, `tokLoop_text`, `tokLoop_good`, `tokLoop_lastOnly`)
  * `C19Spec.removeRecognised` — the independent specification of `unformatted_str`
  * `Py.intStr` produces only non-terminator characters; `tokenize_single`
-/

/-! ## `Parsed.push` / `Parsed.record` -/

namespace Parsed

@[simp] theorem push_text (p : Parsed) (s : Str) : (p.push s).text = p.text ++ s := rfl
@[simp] theorem push_seqs (p : Parsed) (s : Str) : (p.push s).seqs = p.seqs := rfl

/-- `record` case analysis: either the last key equals the current text length and the sequence is
    appended to that block, or a new block is appended (no block yet / last key different). -/
theorem record_cases (p : Parsed) (c : CtlSeq) :
    (∃ init l, p.seqs = init ++ [(p.text.length, l)] ∧
        p.record c = { p with seqs := init ++ [(p.text.length, l ++ [c])] }) ∨
    ((p.seqs = [] ∨ ∃ init k l, p.seqs = init ++ [(k, l)] ∧ k ≠ p.text.length) ∧
        p.record c = { p with seqs := p.seqs ++ [(p.text.length, [c])] }) := by
  rcases List.eq_nil_or_concat p.seqs with h | ⟨init, ⟨k, l⟩, h⟩
  · right
    refine ⟨Or.inl h, ?_⟩
    simp [record, h]
  · by_cases hk : k = p.text.length
    · left
      refine ⟨init, l, by simp [h, hk], ?_⟩
      simp [record, h, hk]
    · right
      refine ⟨Or.inr ⟨init, k, l, by simp [h], hk⟩, ?_⟩
      simp [record, h, hk]

@[simp] theorem record_text (p : Parsed) (c : CtlSeq) : (p.record c).text = p.text := by
  rcases record_cases p c with ⟨init, l, _, h⟩ | ⟨_, h⟩ <;> rw [h]

/-- every key is an index into (or the end of) the text -/
def KeysLe (p : Parsed) : Prop := ∀ kv ∈ p.seqs, kv.1 ≤ p.text.length

theorem keysLe_empty : KeysLe {} := by intro kv h; cases h

theorem keysLe_push {p : Parsed} (h : KeysLe p) (s : Str) : KeysLe (p.push s) := by
  intro kv hkv
  have := h kv hkv
  simp only [push_text, List.length_append]
  omega

theorem keysLe_record {p : Parsed} (h : KeysLe p) (c : CtlSeq) : KeysLe (p.record c) := by
  intro kv hkv
  rw [record_text]
  rcases record_cases p c with ⟨init, l, hs, hr⟩ | ⟨_, hr⟩
  · rw [hr] at hkv
    simp only [List.mem_append, List.mem_singleton] at hkv
    rcases hkv with hkv | hkv
    · exact h kv (by rw [hs]; simp [hkv])
    · rw [hkv]; exact Nat.le_refl _
  · rw [hr] at hkv
    simp only [List.mem_append, List.mem_singleton] at hkv
    rcases hkv with hkv | hkv
    · exact h kv hkv
    · rw [hkv]; exact Nat.le_refl _

/-- rendering of one recorded sequence -/
def render (c : CtlSeq) : Str := Gen.csi ++ c.sequence ++ c.terminator

/-- the fold of `formatted` -/
def fmtFold (text : Str) (seqs : List (Nat × List CtlSeq)) (init : Str × Nat) : Str × Nat :=
  seqs.foldl (fun (acc : Str × Nat) (kv : Nat × List CtlSeq) =>
      (acc.1 ++ formatted.pySliceL text acc.2 kv.1 ++
        (kv.2.map (fun c => Gen.csi ++ c.sequence ++ c.terminator)).flatten, kv.1)) init

theorem formatted_eq (p : Parsed) :
    p.formatted = (fmtFold p.text p.seqs ([], 0)).1 ++ p.text.drop (fmtFold p.text p.seqs ([], 0)).2 := rfl

theorem fmtFold_append (text : Str) (a b : List (Nat × List CtlSeq)) (i : Str × Nat) :
    fmtFold text (a ++ b) i = fmtFold text b (fmtFold text a i) := by
  simp [fmtFold, List.foldl_append]

/-- the position component of the fold stays within the text -/
theorem fmtFold_snd_le (text : Str) (n : Nat) :
    ∀ (seqs : List (Nat × List CtlSeq)) (i : Str × Nat), (∀ kv ∈ seqs, kv.1 ≤ n) → i.2 ≤ n →
      (fmtFold text seqs i).2 ≤ n := by
  intro seqs
  induction seqs with
  | nil => intro i _ hi; simpa [fmtFold] using hi
  | cons kv rest ih =>
    intro i h hi
    have : fmtFold text (kv :: rest) i = fmtFold text rest
        (i.1 ++ formatted.pySliceL text i.2 kv.1 ++
          (kv.2.map (fun c => Gen.csi ++ c.sequence ++ c.terminator)).flatten, kv.1) := rfl
    rw [this]
    apply ih
    · intro kv' hkv'; exact h kv' (List.mem_cons_of_mem _ hkv')
    · exact h kv List.mem_cons_self

/-- appending text beyond all keys does not change the fold -/
theorem fmtFold_text_append (text s : Str) :
    ∀ (seqs : List (Nat × List CtlSeq)) (i : Str × Nat), (∀ kv ∈ seqs, kv.1 ≤ text.length) →
      fmtFold (text ++ s) seqs i = fmtFold text seqs i := by
  intro seqs
  induction seqs with
  | nil => intro i _; rfl
  | cons kv rest ih =>
    intro i h
    have e1 : ∀ t, fmtFold t (kv :: rest) i = fmtFold t rest
        (i.1 ++ formatted.pySliceL t i.2 kv.1 ++
          (kv.2.map (fun c => Gen.csi ++ c.sequence ++ c.terminator)).flatten, kv.1) := fun _ => rfl
    rw [e1, e1, ih _ (fun kv' hkv' => h kv' (List.mem_cons_of_mem _ hkv'))]
    have hk : kv.1 ≤ text.length := h kv List.mem_cons_self
    have : formatted.pySliceL (text ++ s) i.2 kv.1 = formatted.pySliceL text i.2 kv.1 := by
      simp only [formatted.pySliceL]
      rw [List.take_append_of_le_length hk]
    rw [this]

theorem formatted_push {p : Parsed} (h : KeysLe p) (s : Str) :
    (p.push s).formatted = p.formatted ++ s := by
  rw [formatted_eq, formatted_eq]
  simp only [push_text, push_seqs]
  rw [fmtFold_text_append _ _ _ _ h]
  have hle : (fmtFold p.text p.seqs ([], 0)).2 ≤ p.text.length :=
    fmtFold_snd_le _ _ _ _ h (Nat.zero_le _)
  rw [List.drop_append_of_le_length hle, List.append_assoc]

theorem formatted_record {p : Parsed} (h : KeysLe p) (c : CtlSeq) :
    (p.record c).formatted = p.formatted ++ render c := by
  rcases record_cases p c with ⟨init, l, hs, hr⟩ | ⟨_, hr⟩
  · rw [hr, formatted_eq, formatted_eq]
    simp only
    rw [hs, fmtFold_append, fmtFold_append]
    simp [fmtFold, render, List.drop_length]
  · rw [hr, formatted_eq, formatted_eq]
    simp only
    rw [fmtFold_append]
    have hle : (fmtFold p.text p.seqs ([], 0)).2 ≤ p.text.length :=
      fmtFold_snd_le _ _ _ _ h (Nat.zero_le _)
    simp [fmtFold, render, formatted.pySliceL, List.take_length]

end Parsed

/-! ## Losslessness of `tokLoop` -/

/-- what the tokenizer still holds in its local variables in a given mode -/
def TokMode.pending : TokMode → Str
  | .text => []
  | .params ps => Gen.csi ++ ps

theorem csi_eq : Gen.csi = ['\x1b', '['] := by decide

open Parsed in
theorem tokLoop_keysLe (ae : Bool) (acc : Option Str) (m : TokMode) (s : Str) (o : Parsed) :
    KeysLe o → KeysLe (tokLoop ae acc m s o) := by
  fun_induction tokLoop ae acc m s o with
  | case1 o => exact id
  | case2 rest o ih => exact ih
  | case3 c rest o _ ih => exact fun h => ih (keysLe_push h _)
  | case4 ps o hacc => exact fun h => keysLe_record h _
  | case5 ps o hacc => exact fun h => keysLe_push h _
  | case6 ps c rest o ht hacc ih => exact fun h => ih (keysLe_record h _)
  | case7 ps c rest o ht hacc ih => exact fun h => ih (keysLe_push h _)
  | case8 ps c rest o ht ih => exact ih

open Parsed in
theorem tokLoop_formatted (ae : Bool) (acc : Option Str) (m : TokMode) (s : Str) (o : Parsed) :
    KeysLe o → (tokLoop ae acc m s o).formatted = o.formatted ++ m.pending ++ s := by
  fun_induction tokLoop ae acc m s o with
  | case1 o => intro _; simp [TokMode.pending]
  | case2 rest o ih =>
    intro h; rw [ih h]; simp [TokMode.pending, csi_eq]
  | case3 c rest o _ ih =>
    intro h; rw [ih (keysLe_push h _), formatted_push h]; simp [TokMode.pending]
  | case4 ps o hacc =>
    intro h; rw [formatted_record h]; simp [TokMode.pending, render]
  | case5 ps o hacc =>
    intro h; rw [formatted_push h]; simp [TokMode.pending]
  | case6 ps c rest o ht hacc ih =>
    intro h; rw [ih (keysLe_record h _), formatted_record h]; simp [TokMode.pending, render]
  | case7 ps c rest o ht hacc ih =>
    intro h; rw [ih (keysLe_push h _), formatted_push h]; simp [TokMode.pending]
  | case8 ps c rest o ht ih =>
    intro h; rw [ih h]; simp [TokMode.pending]

/-! ## Independent specification of `unformatted_str` -/

namespace C19Spec

/-- a parameter (non-final) character of a control sequence: anything outside 0x40–0x7E -/
def isParamChar (c : Char) : Bool := !isTerm c

/-- Is a candidate sequence with the given final byte (`none` = input ended before a final byte)
    recognised?  "terminator non-empty or unterminated ones allowed; and no acceptable set given,
    or the terminator is empty (`'' in acceptable` is True in Python), or it is in the set". -/
def recognised (allowEmpty : Bool) (acceptable : Option Str) (final : Option Char) : Prop :=
  (final ≠ none ∨ allowEmpty = true) ∧
  (acceptable = none ∨ final = none ∨ ∃ a t, acceptable = some a ∧ final = some t ∧ t ∈ a)

instance (ae : Bool) (acc : Option Str) (f : Option Char) : Decidable (recognised ae acc f) := by
  unfold recognised
  cases acc with
  | none => exact decidable_of_iff (f ≠ none ∨ ae = true) (by simp)
  | some a =>
    cases f with
    | none => exact decidable_of_iff (ae = true) (by simp)
    | some t => exact decidable_of_iff (t ∈ a) (by simp)

/-- `s` with every recognised control sequence removed.  Scan for `ESC [`; the candidate is the
    maximal run of parameter characters followed by one final byte if there is one (`final`); a
    recognised candidate is dropped, an unrecognised one is kept verbatim; scanning resumes after
    the candidate in both cases. -/
def removeRecognised (allowEmpty : Bool) (acceptable : Option Str) : Str → Str
  | [] => []
  | '\x1b' :: '[' :: rest =>
    let params := rest.takeWhile isParamChar
    let after := rest.dropWhile isParamChar
    let final : Option Char := after.head?
    if recognised allowEmpty acceptable final then removeRecognised allowEmpty acceptable after.tail
    else '\x1b' :: '[' :: (params ++ final.toList ++ removeRecognised allowEmpty acceptable after.tail)
  | c :: rest => c :: removeRecognised allowEmpty acceptable rest
termination_by s => s.length
decreasing_by
  all_goals
    first
    | (have := (List.dropWhile_sublist (l := rest) isParamChar).length_le
       simp only [List.length_tail, List.length_cons]; omega)
    | simp

end C19Spec

/-! ## `tokLoop` computes the specification -/

theorem acceptSeq_nil_iff (ae : Bool) (acc : Option Str) :
    acceptSeq ae acc [] = true ↔ C19Spec.recognised ae acc none := by
  cases acc <;> simp [acceptSeq, C19Spec.recognised]

theorem acceptSeq_one_iff (ae : Bool) (acc : Option Str) (c : Char) :
    acceptSeq ae acc [c] = true ↔ C19Spec.recognised ae acc (some c) := by
  cases acc <;> simp [acceptSeq, C19Spec.recognised]

/-- the text still to be produced from mode `m` and remaining input `s`, according to the spec -/
def tokCont (ae : Bool) (acc : Option Str) : TokMode → Str → Str
  | .text, s => C19Spec.removeRecognised ae acc s
  | .params ps, s =>
    if C19Spec.recognised ae acc (s.dropWhile C19Spec.isParamChar).head? then
      C19Spec.removeRecognised ae acc (s.dropWhile C19Spec.isParamChar).tail
    else Gen.csi ++ ps ++ s.takeWhile C19Spec.isParamChar ++
      (s.dropWhile C19Spec.isParamChar).head?.toList ++
      C19Spec.removeRecognised ae acc (s.dropWhile C19Spec.isParamChar).tail

theorem removeRecognised_csi (ae : Bool) (acc : Option Str) (rest : Str) :
    C19Spec.removeRecognised ae acc ('\x1b' :: '[' :: rest) = tokCont ae acc (.params []) rest := by
  rw [C19Spec.removeRecognised.eq_2]
  simp [tokCont, csi_eq]

theorem tokLoop_text (ae : Bool) (acc : Option Str) (m : TokMode) (s : Str) (o : Parsed) :
    (tokLoop ae acc m s o).text = o.text ++ tokCont ae acc m s := by
  fun_induction tokLoop ae acc m s o with
  | case1 o => simp [tokCont, C19Spec.removeRecognised]
  | case2 rest o ih => rw [ih, tokCont, removeRecognised_csi]
  | case3 c rest o hne ih =>
    rw [ih]; simp [tokCont, C19Spec.removeRecognised.eq_3 _ _ _ _ hne]
  | case4 ps o hacc =>
    simp [tokCont, (acceptSeq_nil_iff ae acc).mp hacc, C19Spec.removeRecognised]
  | case5 ps o hacc =>
    simp [tokCont, mt (acceptSeq_nil_iff ae acc).mpr hacc, C19Spec.removeRecognised]
  | case6 ps c rest o ht hacc ih =>
    rw [ih]
    simp [tokCont, C19Spec.isParamChar, ht, (acceptSeq_one_iff ae acc c).mp hacc]
  | case7 ps c rest o ht hacc ih =>
    rw [ih]
    simp [tokCont, C19Spec.isParamChar, ht, mt (acceptSeq_one_iff ae acc c).mpr hacc]
  | case8 ps c rest o ht ih =>
    rw [ih]
    have hp : C19Spec.isParamChar c = true := by simpa [C19Spec.isParamChar] using ht
    simp only [tokCont, List.dropWhile_cons, List.takeWhile_cons, hp, if_true]
    split <;> simp

/-! ## Well-formedness of the recorded sequences -/

/-- a recorded sequence is one the property calls "recognised" -/
def SeqOk (ae : Bool) (acc : Option Str) (c : CtlSeq) : Prop :=
  (∀ ch ∈ c.sequence, isTerm ch = false) ∧
  (c.terminator = [] ∨ ∃ ch, c.terminator = [ch] ∧ isTerm ch = true) ∧
  (c.terminator = [] → ae = true) ∧
  (∀ a, acc = some a → ∀ ch, c.terminator = [ch] → ch ∈ a)

structure Good (ae : Bool) (acc : Option Str) (p : Parsed) : Prop where
  keysLe : p.KeysLe
  asc : (p.seqs.map (·.1)).Pairwise (· < ·)
  blocks : ∀ kv ∈ p.seqs, kv.2 ≠ [] ∧ ∀ c ∈ kv.2, SeqOk ae acc c

theorem good_empty (ae : Bool) (acc : Option Str) : Good ae acc {} :=
  ⟨Parsed.keysLe_empty, by simp, by intro kv h; cases h⟩

theorem good_push {ae : Bool} {acc : Option Str} {p : Parsed} (h : Good ae acc p) (s : Str) :
    Good ae acc (p.push s) :=
  ⟨Parsed.keysLe_push h.keysLe s, h.asc, h.blocks⟩

theorem good_record {ae : Bool} {acc : Option Str} {p : Parsed} (h : Good ae acc p) {c : CtlSeq}
    (hc : SeqOk ae acc c) : Good ae acc (p.record c) := by
  refine ⟨Parsed.keysLe_record h.keysLe c, ?_, ?_⟩
  · rcases Parsed.record_cases p c with ⟨init, l, hs, hr⟩ | ⟨hs, hr⟩
    · have := h.asc
      rw [hs] at this
      rw [hr]; simpa using this
    · rw [hr]
      simp only [List.map_append, List.map_cons, List.map_nil]
      rw [List.pairwise_append]
      refine ⟨h.asc, by simp, ?_⟩
      intro a ha b hb
      simp only [List.mem_singleton] at hb
      subst hb
      rcases hs with hs | ⟨init, k, l, hs, hk⟩
      · rw [hs] at ha; cases ha
      · have hasc := h.asc
        rw [hs] at hasc ha
        simp only [List.map_append, List.map_cons, List.map_nil] at hasc ha
        have hkle : k ≤ p.text.length := h.keysLe (k, l) (by rw [hs]; simp)
        rw [List.pairwise_append] at hasc
        rcases List.mem_append.mp ha with ha | ha
        · have := hasc.2.2 a ha k (by simp)
          omega
        · simp only [List.mem_singleton] at ha
          omega
  · intro kv hkv
    rcases Parsed.record_cases p c with ⟨init, l, hs, hr⟩ | ⟨hs, hr⟩
    · rw [hr] at hkv
      simp only [List.mem_append, List.mem_singleton] at hkv
      rcases hkv with hkv | hkv
      · exact h.blocks kv (by rw [hs]; simp [hkv])
      · subst hkv
        refine ⟨by simp, ?_⟩
        intro c' hc'
        simp only [List.mem_append, List.mem_singleton] at hc'
        rcases hc' with hc' | hc'
        · exact (h.blocks (p.text.length, l) (by rw [hs]; simp)).2 c' hc'
        · rw [hc']; exact hc
    · rw [hr] at hkv
      simp only [List.mem_append, List.mem_singleton] at hkv
      rcases hkv with hkv | hkv
      · exact h.blocks kv hkv
      · subst hkv
        refine ⟨by simp, ?_⟩
        intro c' hc'
        simp only [List.mem_singleton] at hc'
        rw [hc']; exact hc

/-- the parameter characters collected so far are all non-terminators -/
def TokMode.paramsOk : TokMode → Prop
  | .text => True
  | .params ps => ∀ ch ∈ ps, isTerm ch = false

theorem acceptSeq_nil_allow {ae : Bool} {acc : Option Str} (h : acceptSeq ae acc [] = true) :
    ae = true := by
  cases acc <;> simpa [acceptSeq] using h

theorem acceptSeq_one_mem {ae : Bool} {acc : Option Str} {c : Char}
    (h : acceptSeq ae acc [c] = true) : ∀ a, acc = some a → c ∈ a := by
  intro a ha; subst ha
  simpa [acceptSeq] using h

theorem tokLoop_good (ae : Bool) (acc : Option Str) (m : TokMode) (s : Str) (o : Parsed) :
    Good ae acc o → m.paramsOk → Good ae acc (tokLoop ae acc m s o) := by
  fun_induction tokLoop ae acc m s o with
  | case1 o => exact fun h _ => h
  | case2 rest o ih => exact fun h _ => ih h (by simp [TokMode.paramsOk])
  | case3 c rest o _ ih => exact fun h _ => ih (good_push h _) trivial
  | case4 ps o hacc =>
    intro h hp
    exact good_record h ⟨hp, Or.inl rfl, fun _ => acceptSeq_nil_allow hacc, by simp⟩
  | case5 ps o hacc => exact fun h _ => good_push h _
  | case6 ps c rest o ht hacc ih =>
    intro h hp
    refine ih (good_record h ⟨hp, Or.inr ⟨c, rfl, ht⟩, by simp, ?_⟩) trivial
    intro a ha ch hch
    simp only [List.cons.injEq, and_true] at hch
    subst hch
    exact acceptSeq_one_mem hacc a ha
  | case7 ps c rest o ht hacc ih => exact fun h _ => ih (good_push h _) trivial
  | case8 ps c rest o ht ih =>
    intro h hp
    refine ih h ?_
    intro ch hch
    simp only [List.mem_append, List.mem_singleton] at hch
    rcases hch with hch | hch
    · exact hp ch hch
    · subst hch; simpa using ht

/-! ## An unterminated sequence can only be the very last one -/

/-- no recorded sequence has an empty terminator -/
def NoEmpty (p : Parsed) : Prop := ∀ kv ∈ p.seqs, ∀ c ∈ kv.2, c.terminator ≠ []

/-- a sequence with empty terminator can only sit at the end of the last block (positional) -/
def LastOnly (p : Parsed) : Prop :=
  ∀ init kv rest, p.seqs = init ++ kv :: rest → ∀ l1 c l2, kv.2 = l1 ++ c :: l2 →
    c.terminator = [] → rest = [] ∧ l2 = []

theorem last_unique {α : Type} (P : α → Prop) (xs : List α) (x : α) (h : ∀ y ∈ xs, ¬ P y)
    (pre : List α) (y : α) (post : List α) (e : xs ++ [x] = pre ++ y :: post) (hy : P y) :
    post = [] ∧ y = x := by
  rcases List.eq_nil_or_concat post with hp | ⟨post', z, hp⟩
  · subst hp
    have := List.append_inj' e rfl
    simp only [List.cons.injEq, and_true] at this
    exact ⟨rfl, this.2.symm⟩
  · subst hp
    have e' : xs ++ [x] = (pre ++ y :: post') ++ [z] := by simpa using e
    have := (List.append_inj' e' rfl).1
    exact absurd hy (h y (by rw [this]; simp))

theorem noEmpty_empty : NoEmpty {} := by intro kv h; cases h

theorem noEmpty_push {p : Parsed} (h : NoEmpty p) (s : Str) : NoEmpty (p.push s) := h

theorem noEmpty_record {p : Parsed} (h : NoEmpty p) {c : CtlSeq} (hc : c.terminator ≠ []) :
    NoEmpty (p.record c) := by
  intro kv hkv c' hc'
  rcases Parsed.record_cases p c with ⟨init, l, hs, hr⟩ | ⟨hs, hr⟩
  · rw [hr] at hkv
    simp only [List.mem_append, List.mem_singleton] at hkv
    rcases hkv with hkv | hkv
    · exact h kv (by rw [hs]; simp [hkv]) c' hc'
    · subst hkv
      simp only [List.mem_append, List.mem_singleton] at hc'
      rcases hc' with hc' | hc'
      · exact h (p.text.length, l) (by rw [hs]; simp) c' hc'
      · rw [hc']; exact hc
  · rw [hr] at hkv
    simp only [List.mem_append, List.mem_singleton] at hkv
    rcases hkv with hkv | hkv
    · exact h kv hkv c' hc'
    · subst hkv
      simp only [List.mem_singleton] at hc'
      rw [hc']; exact hc

theorem lastOnly_of_noEmpty {p : Parsed} (h : NoEmpty p) : LastOnly p := by
  intro init kv rest hs l1 c l2 hkv hc
  exact absurd hc (h kv (by rw [hs]; simp) c (by rw [hkv]; simp))

theorem lastOnly_record {p : Parsed} (h : NoEmpty p) (c : CtlSeq) : LastOnly (p.record c) := by
  intro init' kv rest hs' l1 c' l2 hkv hc'
  have key : ∃ init l, (p.record c).seqs = init ++ [(p.text.length, l ++ [c])] ∧
      (∀ kv ∈ init, ∀ c ∈ kv.2, c.terminator ≠ []) ∧ (∀ c ∈ l, c.terminator ≠ []) := by
    rcases Parsed.record_cases p c with ⟨init, l, hs, hr⟩ | ⟨hs, hr⟩
    · refine ⟨init, l, by rw [hr], ?_, ?_⟩
      · intro kv hkv; exact h kv (by rw [hs]; simp [hkv])
      · exact h (p.text.length, l) (by rw [hs]; simp)
    · exact ⟨p.seqs, [], by rw [hr]; simp, h, by simp⟩
  obtain ⟨init, l, hs, hinit, hl⟩ := key
  rw [hs] at hs'
  have h1 := last_unique (fun kv : Nat × List CtlSeq => ∃ c ∈ kv.2, c.terminator = []) init _
    (by intro y hy ⟨c, hc, hce⟩; exact hinit y hy c hc hce) init' kv rest hs'
    ⟨c', by rw [hkv]; simp, hc'⟩
  refine ⟨h1.1, ?_⟩
  have hkv2 : l ++ [c] = l1 ++ c' :: l2 := by rw [← hkv, h1.2]
  exact (last_unique (fun c : CtlSeq => c.terminator = []) l c
    (by intro y hy; exact hl y hy) l1 c' l2 hkv2 hc').1

theorem tokLoop_lastOnly (ae : Bool) (acc : Option Str) (m : TokMode) (s : Str) (o : Parsed) :
    NoEmpty o → LastOnly (tokLoop ae acc m s o) := by
  fun_induction tokLoop ae acc m s o with
  | case1 o => exact lastOnly_of_noEmpty
  | case2 rest o ih => exact ih
  | case3 c rest o _ ih => exact fun h => ih (noEmpty_push h _)
  | case4 ps o hacc => exact fun h => lastOnly_record h _
  | case5 ps o hacc => exact fun h => lastOnly_of_noEmpty (noEmpty_push h _)
  | case6 ps c rest o ht hacc ih => exact fun h => ih (noEmpty_record h (by simp))
  | case7 ps c rest o ht hacc ih => exact fun h => ih (noEmpty_push h _)
  | case8 ps c rest o ht ih => exact ih

/-! ## `str(int)` never contains a final byte; a single well-formed sequence -/

theorem digit_not_term : ∀ d, d < 10 → isTerm (Char.ofNat ('0'.toNat + d)) = false := by decide

theorem minus_not_term : isTerm '-' = false := by decide

theorem semicolon_not_term : isTerm ';' = false := by decide

theorem natDigitsAux_not_term (fuel n : Nat) (accu : Str) (h : ∀ ch ∈ accu, isTerm ch = false) :
    ∀ ch ∈ Py.natDigitsAux fuel n accu, isTerm ch = false := by
  induction fuel generalizing n accu with
  | zero => simpa [Py.natDigitsAux] using h
  | succ fuel ih =>
    have h' : ∀ ch ∈ Char.ofNat ('0'.toNat + n % 10) :: accu, isTerm ch = false := by
      intro ch hch
      rcases List.mem_cons.mp hch with hch | hch
      · rw [hch]; exact digit_not_term _ (Nat.mod_lt _ (by decide))
      · exact h ch hch
    simp only [Py.natDigitsAux]
    split
    · exact h'
    · exact ih _ _ h'

theorem intStr_not_term (i : Int) : ∀ ch ∈ Py.intStr i, isTerm ch = false := by
  unfold Py.intStr Py.natStr
  split
  · intro ch hch
    rcases List.mem_cons.mp hch with hch | hch
    · rw [hch]; exact minus_not_term
    · exact natDigitsAux_not_term _ _ [] (by simp) ch hch
  · exact natDigitsAux_not_term _ _ [] (by simp)

/-- in parameter mode the tokenizer reads through any run of non-terminators -/
theorem tokLoop_params_run (ae : Bool) (acc : Option Str) (qs : Str)
    (h : ∀ ch ∈ qs, isTerm ch = false) (ps rest : Str) (o : Parsed) :
    tokLoop ae acc (.params ps) (qs ++ rest) o = tokLoop ae acc (.params (ps ++ qs)) rest o := by
  induction qs generalizing ps with
  | nil => simp
  | cons q qs ih =>
    have hq : isTerm q = false := h q List.mem_cons_self
    rw [List.cons_append, tokLoop.eq_5]
    simp only [hq, Bool.false_eq_true, if_false]
    rw [ih (fun ch hch => h ch (List.mem_cons_of_mem _ hch))]
    simp

/-- `ESC [ params final` alone is parsed to exactly that one sequence at index 0, empty text -/
theorem tokenize_single (ae : Bool) (acc : Option Str) (ps : Str) (fb : Char)
    (hps : ∀ ch ∈ ps, isTerm ch = false) (hfb : isTerm fb = true)
    (hacc : acceptSeq ae acc [fb] = true) :
    tokenize (Gen.csi ++ ps ++ [fb]) ae acc = { text := [], seqs := [(0, [⟨ps, [fb]⟩])] } := by
  unfold tokenize
  rw [csi_eq]
  simp only [List.cons_append, List.nil_append]
  rw [tokLoop.eq_2, tokLoop_params_run ae acc ps hps, tokLoop.eq_5]
  simp only [hfb, hacc, if_true, List.nil_append]
  rw [tokLoop.eq_1]
  rfl

theorem joinSep_one (sep a : Str) : joinSep sep [a] = a := rfl
theorem joinSep_two (sep a b : Str) : joinSep sep [a, b] = a ++ sep ++ b := rfl
