import AnsiProofs.Lemmas.Basic
/-
  Helper lemmas for property C06 (`apply_formatting`).

  Part 1: more facts about the sorted association list operations `ensure`, `modify`.
  Part 2: the replay in function form (`before`), and the self-check `replayOk` in function form.
  Part 3: "block insertion": how a block `N` of fresh objects travels through `stepPoint`.
  Part 4: the function-level theorem (`TopUpd`, `BotUpd`).
  Part 5: the table produced by `applyFormatting` is such an update.
-/

/-- the new objects are new: not yet in the table, and pairwise different -/
def FreshN (x : AStr) (N : List Setting) : Prop :=
  (∀ s ∈ N, ∀ t ∈ x.fmts.settings, s.id ≠ t.id) ∧ (N.map (·.id)).Nodup

/-! ## Part 1: association list -/

namespace Fmts

theorem get?_modify (f : Fmts) (k : Nat) (h : Point → Point) (j : Nat) :
    (f.modify k h).get? j = if j = k then (f.get? k).map h else f.get? j := by
  induction f with
  | nil => simp [Fmts.modify, get?_nil]
  | cons kp rest ih =>
    obtain ⟨k', p'⟩ := kp
    unfold Fmts.modify
    by_cases h1 : k' = k
    · subst h1
      simp only [if_true, get?_cons]
      by_cases hj : j = k'
      · subst hj; simp
      · have : ¬ k' = j := fun e => hj e.symm
        simp [hj, this]
    · simp only [h1, if_false, get?_cons]
      rw [ih]
      by_cases hj : j = k
      · subst hj; simp [h1]; split <;> simp
      · simp [hj]

theorem keys_modify (f : Fmts) (k : Nat) (h : Point → Point) :
    (f.modify k h).map (·.1) = f.map (·.1) := by
  induction f with
  | nil => rfl
  | cons kp rest ih =>
    obtain ⟨k', p'⟩ := kp
    unfold Fmts.modify
    by_cases h1 : k' = k
    · simp [h1]
    · simp [h1, ih]

theorem sortedKeys_iff (f : Fmts) : SortedKeys f ↔ (f.map (·.1)).Pairwise (· < ·) := by
  unfold SortedKeys
  rw [List.pairwise_map]

theorem sorted_modify {f : Fmts} (hs : SortedKeys f) (k : Nat) (h : Point → Point) :
    SortedKeys (f.modify k h) := by
  rw [sortedKeys_iff, keys_modify, ← sortedKeys_iff]; exact hs

theorem sorted_ensure {f : Fmts} (hs : SortedKeys f) (k : Nat) : SortedKeys (f.ensure k) := by
  unfold Fmts.ensure
  split
  · exact hs
  · exact sorted_set hs k {}

theorem get?_ensure {f : Fmts} (hs : SortedKeys f) (k j : Nat) :
    (f.ensure k).get? j = if j = k then some (toFun f k) else f.get? j := by
  unfold Fmts.ensure Fmts.contains toFun Fmts.getD
  cases hk : f.get? k with
  | none =>
    simp [get?_set hs]
  | some p =>
    by_cases hj : j = k
    · subst hj; simp [hk]
    · simp [hj]

theorem toFun_ensure {f : Fmts} (hs : SortedKeys f) (k j : Nat) :
    toFun (f.ensure k) j = toFun f j := by
  unfold toFun Fmts.getD
  rw [get?_ensure hs]
  by_cases hj : j = k
  · subst hj; simp [toFun, Fmts.getD]
  · simp [hj]

theorem contains_ensure {f : Fmts} (hs : SortedKeys f) (k : Nat) : (f.ensure k).contains k = true := by
  unfold Fmts.contains
  rw [get?_ensure hs]; simp

theorem toFun_modify (f : Fmts) (k : Nat) (h : Point → Point) (hc : f.contains k = true) (j : Nat) :
    toFun (f.modify k h) j = if j = k then h (toFun f k) else toFun f j := by
  unfold toFun Fmts.getD
  rw [get?_modify]
  unfold Fmts.contains at hc
  by_cases hj : j = k
  · subst hj
    cases hk : f.get? j with
    | none => simp [hk] at hc
    | some p => simp
  · simp [hj]

theorem contains_modify (f : Fmts) (k : Nat) (h : Point → Point) (j : Nat) :
    (f.modify k h).contains j = f.contains j := by
  unfold Fmts.contains
  rw [get?_modify]
  by_cases hj : j = k
  · subst hj; simp
  · simp [hj]

theorem modify_id (f : Fmts) (k : Nat) (h : Point → Point) (hid : ∀ p, h p = p) : f.modify k h = f := by
  induction f with
  | nil => rfl
  | cons kp rest ih =>
    obtain ⟨k', p'⟩ := kp
    unfold Fmts.modify
    by_cases h1 : k' = k
    · simp [h1, hid]
    · simp [h1, ih]

/-- membership in a sorted table, in terms of `get?` -/
theorem mem_iff_get? {f : Fmts} (hs : SortedKeys f) (k : Nat) (p : Point) :
    (k, p) ∈ f ↔ f.get? k = some p :=
  ⟨get?_eq_some_of_mem hs, mem_of_get?_eq_some⟩

/-- `bound` of `WF` in terms of `contains` -/
theorem bound_iff {f : Fmts} (hs : SortedKeys f) (n : Nat) :
    (∀ kp ∈ f, kp.1 ≤ n) ↔ ∀ j, f.contains j = true → j ≤ n := by
  constructor
  · intro h j hj
    unfold Fmts.contains at hj
    cases hk : f.get? j with
    | none => simp [hk] at hj
    | some p => exact h (j, p) (mem_of_get?_eq_some hk)
  · intro h kp hkp
    obtain ⟨k, p⟩ := kp
    apply h
    unfold Fmts.contains
    rw [get?_eq_some_of_mem hs hkp]; rfl

/-- `noAddEnd` of `WF` in terms of `toFun` -/
theorem noAddEnd_iff {f : Fmts} (hs : SortedKeys f) (n : Nat) :
    (∀ kp ∈ f, kp.1 = n → kp.2.add = []) ↔ (toFun f n).add = [] := by
  constructor
  · intro h
    unfold toFun Fmts.getD
    cases hk : f.get? n with
    | none => rfl
    | some p => exact h (n, p) (mem_of_get?_eq_some hk) rfl
  · intro h kp hkp hn
    obtain ⟨k, p⟩ := kp
    simp at hn; subst hn
    have := get?_eq_some_of_mem hs hkp
    unfold toFun Fmts.getD at h
    rw [this] at h
    exact h

/-- the settings mentioned in a table, in terms of `toFun` -/
theorem mem_settings_iff {f : Fmts} (hs : SortedKeys f) (s : Setting) :
    s ∈ f.settings ↔ ∃ k, s ∈ (toFun f k).add ∨ s ∈ (toFun f k).rem := by
  unfold Fmts.settings
  rw [List.mem_flatMap]
  constructor
  · rintro ⟨⟨k, p⟩, hkp, hsp⟩
    refine ⟨k, ?_⟩
    have := get?_eq_some_of_mem hs hkp
    unfold toFun Fmts.getD
    rw [this]
    simpa using hsp
  · rintro ⟨k, hk⟩
    unfold toFun Fmts.getD at hk
    cases hg : f.get? k with
    | none => simp [hg] at hk
    | some p =>
      refine ⟨(k, p), mem_of_get?_eq_some hg, ?_⟩
      simpa [hg] using hk

end Fmts

/-! ## Part 2: replay in function form -/

/-- `current_settings` just before index `k` is processed -/
def before (g : Nat → Point) (k : Nat) : List Setting := runFrom g [] 0 k

theorem before_zero (g : Nat → Point) : before g 0 = [] := rfl

theorem before_succ (g : Nat → Point) (k : Nat) :
    before g (k + 1) = stepPoint (before g k) (g k) := by
  unfold before
  rw [runFrom_add g [] 0 k 1]
  simp [runFrom]

theorem activeFn_eq_before (g : Nat → Point) (i : Nat) : activeFn g i = before g (i + 1) := rfl

theorem active_eq_before {f : Fmts} (hs : SortedKeys f) (i : Nat) :
    active f i = before (Fmts.toFun f) (i + 1) := by
  rw [active_eq_activeFn f hs, activeFn_eq_before]

theorem before_congr {g g' : Nat → Point} (k : Nat) (h : ∀ j, j < k → g' j = g j) :
    before g' k = before g k := by
  unfold before
  exact runFrom_congr k [] (fun j _ hj => h j (by omega))

theorem runFrom_skip (g : Nat → Point) (cur : List Setting) (lo m : Nat)
    (h : ∀ j, lo ≤ j → j < lo + m → g j = {}) : runFrom g cur lo m = cur := by
  induction m generalizing lo with
  | zero => rfl
  | succ m ih =>
    simp only [runFrom]
    rw [h lo (Nat.le_refl _) (by omega), stepPoint_empty]
    exact ih (lo + 1) (fun j h1 h2 => h j (by omega) (by omega))

theorem toFun_cons_lt (k : Nat) (p : Point) (rest : Fmts) {j : Nat} (hj : j < k) :
    Fmts.toFun ((k, p) :: rest) j = {} := by
  unfold Fmts.toFun Fmts.getD
  rw [Fmts.get?_cons]
  have h1 : ¬ k = j := by omega
  simp [h1, hj]

theorem toFun_cons_eq (k : Nat) (p : Point) (rest : Fmts) : Fmts.toFun ((k, p) :: rest) k = p := by
  unfold Fmts.toFun Fmts.getD
  rw [Fmts.get?_cons]; simp

theorem toFun_cons_gt (k : Nat) (p : Point) (rest : Fmts) {j : Nat} (hj : k < j) :
    Fmts.toFun ((k, p) :: rest) j = Fmts.toFun rest j := by
  unfold Fmts.toFun Fmts.getD
  rw [Fmts.get?_cons]
  have h1 : ¬ k = j := by omega
  have h2 : ¬ j < k := by omega
  simp [h1, h2]

theorem toFun_nil (j : Nat) : Fmts.toFun [] j = {} := rfl

/-- the library's self-check, index by index -/
theorem replayOkFrom_iff (f : Fmts) (hs : SortedKeys f) (lo : Nat) (hlb : Fmts.LB lo f)
    (cur : List Setting) :
    replayOkFrom cur f = true ↔
      ∀ k, lo ≤ k → stepOk (runFrom (Fmts.toFun f) cur lo (k - lo)) (Fmts.toFun f k).rem = true := by
  induction f generalizing cur lo with
  | nil => simp [replayOkFrom, toFun_nil, stepOk]
  | cons kp rest ih =>
    obtain ⟨k0, p⟩ := kp
    have hk : lo ≤ k0 := hlb (k0, p) (by simp)
    have hrest : SortedKeys rest := Fmts.sorted_tail hs
    have hlb' : Fmts.LB (k0 + 1) rest := Fmts.LB_tail_of_sorted hs
    have hskip : ∀ m, lo + m ≤ k0 → runFrom (Fmts.toFun ((k0, p) :: rest)) cur lo m = cur :=
      fun m hm => runFrom_skip _ cur lo m (fun j _ h2 => toFun_cons_lt k0 p rest (by omega))
    have hlater : ∀ k, k0 < k →
        runFrom (Fmts.toFun ((k0, p) :: rest)) cur lo (k - lo) =
          runFrom (Fmts.toFun rest) (stepPoint cur p) (k0 + 1) (k - (k0 + 1)) := by
      intro k hk'
      have e1 : k - lo = (k0 - lo) + ((k - (k0 + 1)) + 1) := by omega
      rw [e1, runFrom_add, hskip (k0 - lo) (by omega)]
      have e3 : lo + (k0 - lo) = k0 := by omega
      rw [e3, Nat.add_comm (k - (k0 + 1)) 1]
      simp only [runFrom_add, runFrom, toFun_cons_eq]
      exact runFrom_congr _ _ (fun j h1 _ => toFun_cons_gt k0 p rest (by omega))
    simp only [replayOkFrom, Bool.and_eq_true]
    rw [ih hrest (k0 + 1) hlb' (stepPoint cur p)]
    constructor
    · rintro ⟨h1, h2⟩ k hk'
      by_cases c1 : k < k0
      · rw [toFun_cons_lt k0 p rest c1]; simp [stepOk]
      · by_cases c2 : k = k0
        · subst c2
          rw [hskip (k - lo) (by omega), toFun_cons_eq]; exact h1
        · have c3 : k0 < k := by omega
          rw [hlater k c3, toFun_cons_gt k0 p rest c3]
          exact h2 k (by omega)
    · intro h
      constructor
      · have := h k0 hk
        rw [hskip (k0 - lo) (by omega), toFun_cons_eq] at this; exact this
      · intro k hk'
        have c3 : k0 < k := by omega
        have := h k (by omega)
        rw [hlater k c3, toFun_cons_gt k0 p rest c3] at this
        exact this

theorem replayOk_iff {f : Fmts} (hs : SortedKeys f) :
    replayOk f = true ↔
      ∀ k, stepOk (before (Fmts.toFun f) k) (Fmts.toFun f k).rem = true := by
  unfold replayOk before
  rw [replayOkFrom_iff f hs 0 (fun _ _ => Nat.zero_le _) []]
  simp

/-! ## Part 3: block insertion -/

/-- delete, for every stop marker in `r`, the first object with that identity -/
def eraseAll (c r : List Setting) : List Setting := r.foldl (fun c s => eraseId c s.id) c

theorem eraseAll_nil (c : List Setting) : eraseAll c [] = c := rfl

theorem eraseAll_cons (c : List Setting) (s : Setting) (r : List Setting) :
    eraseAll c (s :: r) = eraseAll (eraseId c s.id) r := rfl

theorem eraseAll_append (c r1 r2 : List Setting) :
    eraseAll c (r1 ++ r2) = eraseAll (eraseAll c r1) r2 := by
  simp [eraseAll, List.foldl_append]

theorem stepPoint_eq (c : List Setting) (p : Point) : stepPoint c p = eraseAll c p.rem ++ p.add := rfl

theorem stepOk_nil (c : List Setting) : stepOk c [] = true := by
  cases c <;> rfl

theorem stepOk_cons (c : List Setting) (s : Setting) (r : List Setting) :
    stepOk c (s :: r) = (hasId c s.id && stepOk (eraseId c s.id) r) := by
  cases c <;> rfl

theorem stepOk_append (c r1 r2 : List Setting) :
    stepOk c (r1 ++ r2) = (stepOk c r1 && stepOk (eraseAll c r1) r2) := by
  induction r1 generalizing c with
  | nil => simp [stepOk_nil, eraseAll_nil]
  | cons s r ih => simp [stepOk_cons, eraseAll_cons, ih, Bool.and_assoc]

/-- the identity `i` does not occur in `N` -/
def NotIn (N : List Setting) (i : Nat) : Prop := ∀ t ∈ N, t.id ≠ i

theorem hasId_false_of_notIn {N : List Setting} {i : Nat} (h : NotIn N i) : hasId N i = false := by
  unfold hasId
  rw [List.any_eq_false]
  intro t ht
  simpa using h t ht

theorem notIn_of_hasId_false {N : List Setting} {i : Nat} (h : hasId N i = false) : NotIn N i := by
  unfold hasId at h
  rw [List.any_eq_false] at h
  intro t ht
  simpa using h t ht

theorem eraseId_of_notIn {N : List Setting} {i : Nat} (h : NotIn N i) : eraseId N i = N := by
  unfold eraseId
  apply List.eraseP_of_forall_not
  intro t ht
  simpa using h t ht

theorem hasId_append (a b : List Setting) (i : Nat) : hasId (a ++ b) i = (hasId a i || hasId b i) := by
  simp [hasId]

theorem eraseId_append_left {a : List Setting} {i : Nat} (h : hasId a i = true) (b : List Setting) :
    eraseId (a ++ b) i = eraseId a i ++ b := by
  unfold hasId at h
  obtain ⟨t, ht, hti⟩ := List.any_eq_true.mp h
  unfold eraseId
  exact List.eraseP_append_left (p := fun x => x.id == i) hti b ht

theorem eraseId_append_right {a : List Setting} {i : Nat} (h : hasId a i = false) (b : List Setting) :
    eraseId (a ++ b) i = a ++ eraseId b i := by
  unfold hasId at h
  rw [List.any_eq_false] at h
  unfold eraseId
  exact List.eraseP_append_right b (fun t ht => by simpa using h t ht)

theorem eraseId_sublist (c : List Setting) (i : Nat) : (eraseId c i).Sublist c :=
  List.eraseP_sublist

theorem eraseAll_sublist (c r : List Setting) : (eraseAll c r).Sublist c := by
  induction r generalizing c with
  | nil => exact List.Sublist.refl _
  | cons s r ih => exact (ih _).trans (eraseId_sublist c s.id)

/-- `c'` is `c` with the block `N` inserted somewhere -/
def Ins (N c c' : List Setting) : Prop := ∃ p q, c = p ++ q ∧ c' = p ++ N ++ q

theorem Ins.eraseId {N c c' : List Setting} (h : Ins N c c') {i : Nat} (hi : NotIn N i) :
    Ins N (eraseId c i) (eraseId c' i) ∧ hasId c' i = hasId c i := by
  obtain ⟨p, q, rfl, rfl⟩ := h
  have hN := hasId_false_of_notIn hi
  refine ⟨?_, by simp [hasId_append, hN]⟩
  cases hp : hasId p i with
  | true =>
    refine ⟨_root_.eraseId p i, q, eraseId_append_left hp q, ?_⟩
    rw [List.append_assoc, eraseId_append_left hp, List.append_assoc]
  | false =>
    refine ⟨p, _root_.eraseId q i, eraseId_append_right hp q, ?_⟩
    rw [List.append_assoc, eraseId_append_right hp, eraseId_append_right hN, List.append_assoc]

theorem Ins.eraseAll {N c c' : List Setting} (h : Ins N c c') {r : List Setting}
    (hr : ∀ s ∈ r, NotIn N s.id) :
    Ins N (eraseAll c r) (eraseAll c' r) ∧ stepOk c' r = stepOk c r := by
  induction r generalizing c c' with
  | nil => exact ⟨h, by simp [stepOk_nil]⟩
  | cons s r ih =>
    have h1 := h.eraseId (hr s (by simp))
    have h2 := ih h1.1 (fun t ht => hr t (by simp [ht]))
    exact ⟨h2.1, by rw [stepOk_cons, stepOk_cons, h1.2, h2.2]⟩

theorem Ins.stepPoint {N c c' : List Setting} (h : Ins N c c') {pt : Point}
    (hr : ∀ s ∈ pt.rem, NotIn N s.id) : Ins N (stepPoint c pt) (stepPoint c' pt) := by
  obtain ⟨p, q, h1, h2⟩ := (h.eraseAll hr).1
  refine ⟨p, q ++ pt.add, ?_, ?_⟩
  · rw [stepPoint_eq, h1, List.append_assoc]
  · rw [stepPoint_eq, h2]; simp [List.append_assoc]

/-- at the end of the range the stop markers `N` take the block out again -/
theorem eraseAll_block {N : List Setting} (hnd : (N.map (·.id)).Nodup) (p q : List Setting)
    (hp : ∀ t ∈ N, NotIn p t.id) :
    eraseAll (p ++ N ++ q) N = p ++ q ∧ stepOk (p ++ N ++ q) N = true := by
  suffices H : ∀ (M : List Setting), (M.map (·.id)).Nodup → (∀ t ∈ M, NotIn p t.id) →
      eraseAll (p ++ M ++ q) M = p ++ q ∧ stepOk (p ++ M ++ q) M = true from H N hnd hp
  intro M
  induction M with
  | nil => intros; simp [eraseAll_nil, stepOk_nil]
  | cons a M ih =>
    intro hnd hp
    have hpa : hasId p a.id = false := hasId_false_of_notIn (hp a (by simp))
    have he : eraseId (p ++ a :: M ++ q) a.id = p ++ M ++ q := by
      rw [List.append_assoc, eraseId_append_right hpa]
      simp [eraseId, List.append_assoc]
    have hh : hasId (p ++ a :: M ++ q) a.id = true := by
      simp [hasId]
    rw [List.map_cons, List.nodup_cons] at hnd
    have := ih hnd.2 (fun t ht => hp t (by simp [ht]))
    rw [eraseAll_cons, stepOk_cons, he, hh]
    simpa using this

theorem eraseAll_self (c : List Setting) : eraseAll c c = [] ∧ stepOk c c = true := by
  induction c with
  | nil => simp [eraseAll_nil, stepOk_nil]
  | cons a c ih =>
    rw [eraseAll_cons, stepOk_cons]
    have : eraseId (a :: c) a.id = c := by simp [eraseId]
    rw [this]
    simp [hasId, ih]

/-- a block at the very end stays at the very end as long as nothing is appended -/
theorem eraseAll_suffix {N c r : List Setting} (hr : ∀ s ∈ r, NotIn N s.id) :
    eraseAll (c ++ N) r = eraseAll c r ++ N := by
  induction r generalizing c with
  | nil => rfl
  | cons s r ih =>
    rw [eraseAll_cons, eraseAll_cons, ← ih (fun t ht => hr t (by simp [ht]))]
    congr 1
    cases hc : hasId c s.id with
    | true => exact eraseId_append_left hc N
    | false => rw [eraseId_append_right hc, eraseId_of_notIn (hr s (by simp)), eraseId_of_notIn (notIn_of_hasId_false hc)]

/-- a block at the very front stays at the very front -/
theorem eraseAll_prefix {N c r : List Setting} (hr : ∀ s ∈ r, NotIn N s.id) :
    eraseAll (N ++ c) r = N ++ eraseAll c r ∧ stepOk (N ++ c) r = stepOk c r := by
  induction r generalizing c with
  | nil => simp [eraseAll_nil, stepOk_nil]
  | cons s r ih =>
    have hN := hasId_false_of_notIn (hr s (by simp))
    have := @ih (eraseId c s.id) (fun t ht => hr t (by simp [ht]))
    rw [eraseAll_cons, eraseAll_cons, stepOk_cons, stepOk_cons, eraseId_append_right hN, this.1, this.2]
    simp [hasId_append, hN]

theorem nodup_ins {N p q : List Setting} (hN : (N.map (·.id)).Nodup)
    (hpq : ((p ++ q).map (·.id)).Nodup) (hfr : ∀ t ∈ N, NotIn (p ++ q) t.id) :
    ((p ++ N ++ q).map (·.id)).Nodup := by
  have hperm : (p ++ N ++ q).Perm (N ++ (p ++ q)) := by
    rw [List.append_assoc]
    exact (List.perm_append_comm_assoc p N q)
  rw [(hperm.map _).nodup_iff, List.map_append, List.nodup_append]
  refine ⟨hN, hpq, ?_⟩
  intro a ha b hb hab
  obtain ⟨t, ht, rfl⟩ := List.mem_map.mp ha
  obtain ⟨u, hu, rfl⟩ := List.mem_map.mp hb
  exact hfr t ht u hu hab.symm

/-! ## Part 4: the update in function form -/

/-- no object mentioned by the table `g` has the identity of a new one -/
def FreshG (g : Nat → Point) (N : List Setting) : Prop :=
  ∀ k s, (s ∈ (g k).add ∨ s ∈ (g k).rem) → NotIn N s.id

theorem mem_stepPoint {c : List Setting} {p : Point} {s : Setting} (h : s ∈ stepPoint c p) :
    s ∈ c ∨ s ∈ p.add := by
  rw [stepPoint_eq, List.mem_append] at h
  rcases h with h | h
  · exact Or.inl ((eraseAll_sublist c p.rem).subset h)
  · exact Or.inr h

theorem mem_before {g : Nat → Point} {k : Nat} {s : Setting} (h : s ∈ before g k) :
    ∃ j, s ∈ (g j).add := by
  induction k with
  | zero => simp [before_zero] at h
  | succ k ih =>
    rw [before_succ] at h
    rcases mem_stepPoint h with h | h
    · exact ih h
    · exact ⟨k, h⟩

theorem FreshG.before {g : Nat → Point} {N : List Setting} (hf : FreshG g N) {k : Nat} {s : Setting}
    (h : s ∈ before g k) : NotIn N s.id := by
  obtain ⟨j, hj⟩ := mem_before h
  exact hf j s (Or.inl hj)

theorem FreshG.rem {g : Nat → Point} {N : List Setting} (hf : FreshG g N) (k : Nat) :
    ∀ s ∈ (g k).rem, NotIn N s.id := fun s hs => hf k s (Or.inr hs)

theorem before_le_of_oth {g g' : Nat → Point} {st en : Nat} (hlt : st < en)
    (oth : ∀ j, j ≠ st → j ≠ en → g' j = g j) {k : Nat} (hk : k ≤ st) : before g' k = before g k :=
  before_congr k (fun j hj => oth j (by omega) (by omega))

theorem before_after_of_oth {g g' : Nat → Point} {st en : Nat} (hlt : st < en)
    (oth : ∀ j, j ≠ st → j ≠ en → g' j = g j) (h : before g' (en + 1) = before g (en + 1))
    {k : Nat} (hk : en < k) : before g' k = before g k := by
  obtain ⟨d, rfl⟩ : ∃ d, k = en + 1 + d := ⟨k - (en + 1), by omega⟩
  clear hk
  induction d with
  | zero => exact h
  | succ d ih =>
    rw [← Nat.add_assoc, before_succ, before_succ, ih, oth _ (by omega) (by omega)]

/-- `apply_formatting(..., topmost=True)` in function form -/
structure TopUpd (g g' : Nat → Point) (N : List Setting) (st en : Nat) : Prop where
  lt : st < en
  oth : ∀ j, j ≠ st → j ≠ en → g' j = g j
  atSt : g' st = { rem := (g st).rem, add := (g st).add ++ N }
  atEn : g' en = { rem := (g en).rem ++ N, add := (g en).add }
  fresh : FreshG g N
  nd : (N.map (·.id)).Nodup

namespace TopUpd
variable {g g' : Nat → Point} {N : List Setting} {st en : Nat}

theorem before_le (h : TopUpd g g' N st en) {k : Nat} (hk : k ≤ st) : before g' k = before g k :=
  before_le_of_oth h.lt h.oth hk

theorem before_st (h : TopUpd g g' N st en) : before g' (st + 1) = before g (st + 1) ++ N := by
  rw [before_succ, before_succ, h.before_le (Nat.le_refl _), h.atSt, stepPoint_eq, stepPoint_eq]
  simp [List.append_assoc]

theorem ins (h : TopUpd g g' N st en) {k : Nat} (h1 : st < k) (h2 : k ≤ en) :
    Ins N (before g k) (before g' k) := by
  obtain ⟨d, rfl⟩ : ∃ d, k = st + 1 + d := ⟨k - (st + 1), by omega⟩
  clear h1
  induction d with
  | zero => exact ⟨before g (st + 1), [], by simp, by simp [h.before_st]⟩
  | succ d ih =>
    rw [← Nat.add_assoc, before_succ, before_succ, h.oth _ (by omega) (by omega)]
    exact (ih (by omega)).stepPoint (h.fresh.rem _)

theorem upto (h : TopUpd g g' N st en) {k : Nat} (h1 : st < k) (h2 : k ≤ en)
    (hadd : ∀ j, st < j → j < k → (g j).add = []) : before g' k = before g k ++ N := by
  obtain ⟨d, rfl⟩ : ∃ d, k = st + 1 + d := ⟨k - (st + 1), by omega⟩
  clear h1
  induction d with
  | zero => exact h.before_st
  | succ d ih =>
    rw [← Nat.add_assoc, before_succ, before_succ, h.oth _ (by omega) (by omega),
      ih (by omega) (fun j a b => hadd j a (by omega)), stepPoint_eq, stepPoint_eq,
      hadd (st + 1 + d) (by omega) (by omega), eraseAll_suffix (h.fresh.rem _)]
    simp

theorem at_en (h : TopUpd g g' N st en) :
    before g' (en + 1) = before g (en + 1) ∧
      (stepOk (before g en) (g en).rem = true → stepOk (before g' en) (g' en).rem = true) := by
  have hi := (h.ins h.lt (Nat.le_refl _)).eraseAll (h.fresh.rem en)
  obtain ⟨p, q, e1, e2⟩ := hi.1
  have hp : ∀ t ∈ N, NotIn p t.id := by
    intro t ht u hu hut
    have hu' : u ∈ before g en :=
      (eraseAll_sublist _ _).subset (by rw [e1]; exact List.mem_append_left _ hu)
    exact h.fresh.before hu' t ht hut.symm
  have hb := eraseAll_block h.nd p q hp
  constructor
  · rw [before_succ, before_succ, h.atEn, stepPoint_eq, stepPoint_eq]
    simp only [eraseAll_append]
    rw [e2, hb.1, e1]
  · intro hok
    rw [h.atEn]
    simp only [stepOk_append, Bool.and_eq_true]
    exact ⟨by rw [hi.2]; exact hok, by rw [e2]; exact hb.2⟩

theorem before_gt (h : TopUpd g g' N st en) {k : Nat} (hk : en < k) : before g' k = before g k :=
  before_after_of_oth h.lt h.oth h.at_en.1 hk

theorem ok (h : TopUpd g g' N st en) (hok : ∀ k, stepOk (before g k) (g k).rem = true) (k : Nat) :
    stepOk (before g' k) (g' k).rem = true := by
  by_cases c1 : k < st
  · rw [h.before_le (by omega), h.oth k (by omega) (by have := h.lt; omega)]; exact hok k
  · by_cases c2 : k = st
    · subst c2; rw [h.before_le (Nat.le_refl _), h.atSt]; exact hok k
    · by_cases c3 : k < en
      · rw [h.oth k c2 (by omega), ((h.ins (by omega) (by omega)).eraseAll (h.fresh.rem k)).2]
        exact hok k
      · by_cases c4 : k = en
        · subst c4; exact h.at_en.2 (hok k)
        · rw [h.before_gt (by omega), h.oth k c2 c4]; exact hok k

theorem nodup (h : TopUpd g g' N st en) (hnd : ∀ k, ((before g k).map (·.id)).Nodup) (k : Nat) :
    ((before g' k).map (·.id)).Nodup := by
  by_cases c1 : k ≤ st
  · rw [h.before_le c1]; exact hnd k
  · by_cases c2 : k ≤ en
    · obtain ⟨p, q, e1, e2⟩ := h.ins (by omega) c2
      rw [e2]
      refine nodup_ins h.nd (by rw [← e1]; exact hnd k) ?_
      intro t ht u hu hut
      rw [← e1] at hu
      exact h.fresh.before hu t ht hut.symm
    · rw [h.before_gt (by omega)]; exact hnd k

end TopUpd

/-- `apply_formatting(..., topmost=False)` in function form: whatever is active when `st` is reached
    (and not stopped there) is stopped and started again right behind the new objects -/
structure BotUpd (g g' : Nat → Point) (N : List Setting) (st en : Nat) : Prop where
  lt : st < en
  oth : ∀ j, j ≠ st → j ≠ en → g' j = g j
  atSt : g' st = { rem := (g st).rem ++ eraseAll (before g st) (g st).rem,
                   add := N ++ eraseAll (before g st) (g st).rem ++ (g st).add }
  atEn : g' en = { rem := N ++ (g en).rem, add := (g en).add }
  fresh : FreshG g N
  nd : (N.map (·.id)).Nodup

namespace BotUpd
variable {g g' : Nat → Point} {N : List Setting} {st en : Nat}

theorem before_le (h : BotUpd g g' N st en) {k : Nat} (hk : k ≤ st) : before g' k = before g k :=
  before_le_of_oth h.lt h.oth hk

theorem before_st (h : BotUpd g g' N st en) : before g' (st + 1) = N ++ before g (st + 1) := by
  rw [before_succ, before_succ, h.before_le (Nat.le_refl _), h.atSt, stepPoint_eq, stepPoint_eq]
  simp only [eraseAll_append, (eraseAll_self _).1]
  simp [List.append_assoc]

theorem inside (h : BotUpd g g' N st en) {k : Nat} (h1 : st < k) (h2 : k ≤ en) :
    before g' k = N ++ before g k := by
  obtain ⟨d, rfl⟩ : ∃ d, k = st + 1 + d := ⟨k - (st + 1), by omega⟩
  clear h1
  induction d with
  | zero => exact h.before_st
  | succ d ih =>
    rw [← Nat.add_assoc, before_succ, before_succ, h.oth _ (by omega) (by omega), ih (by omega),
      stepPoint_eq, stepPoint_eq, (eraseAll_prefix (h.fresh.rem _)).1, List.append_assoc]

theorem at_en (h : BotUpd g g' N st en) :
    before g' (en + 1) = before g (en + 1) ∧
      (stepOk (before g en) (g en).rem = true → stepOk (before g' en) (g' en).rem = true) := by
  have hb := eraseAll_block h.nd [] (before g en) (fun t _ u hu => by cases hu)
  simp only [List.nil_append] at hb
  constructor
  · rw [before_succ, before_succ, h.atEn, stepPoint_eq, stepPoint_eq, h.inside h.lt (Nat.le_refl _)]
    simp only [eraseAll_append]
    rw [hb.1]
  · intro hok
    rw [h.atEn, h.inside h.lt (Nat.le_refl _)]
    simp only [stepOk_append, Bool.and_eq_true]
    exact ⟨hb.2, by rw [hb.1]; exact hok⟩

theorem before_gt (h : BotUpd g g' N st en) {k : Nat} (hk : en < k) : before g' k = before g k :=
  before_after_of_oth h.lt h.oth h.at_en.1 hk

theorem ok (h : BotUpd g g' N st en) (hok : ∀ k, stepOk (before g k) (g k).rem = true) (k : Nat) :
    stepOk (before g' k) (g' k).rem = true := by
  by_cases c1 : k < st
  · rw [h.before_le (by omega), h.oth k (by omega) (by have := h.lt; omega)]; exact hok k
  · by_cases c2 : k = st
    · subst c2
      rw [h.before_le (Nat.le_refl _), h.atSt]
      simp only [stepOk_append, Bool.and_eq_true]
      exact ⟨hok k, (eraseAll_self _).2⟩
    · by_cases c3 : k < en
      · rw [h.oth k c2 (by omega), h.inside (by omega) (by omega), (eraseAll_prefix (h.fresh.rem k)).2]
        exact hok k
      · by_cases c4 : k = en
        · subst c4; exact h.at_en.2 (hok k)
        · rw [h.before_gt (by omega), h.oth k c2 c4]; exact hok k

theorem nodup (h : BotUpd g g' N st en) (hnd : ∀ k, ((before g k).map (·.id)).Nodup) (k : Nat) :
    ((before g' k).map (·.id)).Nodup := by
  by_cases c1 : k ≤ st
  · rw [h.before_le c1]; exact hnd k
  · by_cases c2 : k ≤ en
    · rw [h.inside (by omega) c2]
      have := @nodup_ins N [] (before g k) h.nd (hnd k)
        (fun t ht u hu hut => h.fresh.before hu t ht hut.symm)
      simpa using this
    · rw [h.before_gt (by omega)]; exact hnd k

end BotUpd

/-! ## Part 5: the table built by `applyFormatting` -/

theorem sliceIdx_le (n : Nat) (v : Option Int) (d : Nat) (hd : d ≤ n) : sliceIdx n v d ≤ n := by
  unfold sliceIdx
  cases v with
  | none => exact hd
  | some v =>
    simp only
    split
    · omega
    · exact Nat.min_le_right _ _

namespace Fmts

/-- `if k not in d: d[k] = Point()` followed by an update of `d[k]` -/
def em (f : Fmts) (k : Nat) (h : Point → Point) : Fmts := (f.ensure k).modify k h

theorem sorted_em {f : Fmts} (hs : SortedKeys f) (k : Nat) (h : Point → Point) : SortedKeys (f.em k h) :=
  sorted_modify (sorted_ensure hs k) k h

theorem toFun_em {f : Fmts} (hs : SortedKeys f) (k : Nat) (h : Point → Point) (j : Nat) :
    toFun (f.em k h) j = if j = k then h (toFun f k) else toFun f j := by
  unfold em
  rw [toFun_modify _ _ _ (contains_ensure hs k), toFun_ensure hs, toFun_ensure hs]

theorem contains_em {f : Fmts} (hs : SortedKeys f) (k : Nat) (h : Point → Point) (j : Nat) :
    (f.em k h).contains j = (decide (j = k) || f.contains j) := by
  unfold em
  rw [contains_modify]
  unfold Fmts.contains
  rw [get?_ensure hs]
  by_cases hj : j = k <;> simp [hj]

theorem if_isEmpty_modify (f : Fmts) (st n : Nat) (P : List Setting) :
    (if P.isEmpty then f else f.modify st (fun p =>
        { rem := p.rem ++ P, add := p.add.take n ++ P ++ p.add.drop n })) =
      f.modify st (fun p => { rem := p.rem ++ P, add := p.add.take n ++ P ++ p.add.drop n }) := by
  split
  · rename_i hP
    rw [List.isEmpty_iff] at hP
    subst hP
    rw [modify_id]
    intro p
    simp
  · rfl

end Fmts

theorem applyFormatting_top (x : AStr) (N : List Setting) (start end_ : Option Int)
    (h1 : ¬ (sliceIdx x.len start 0 ≥ x.len ∨ sliceIdx x.len end_ x.len ≤ sliceIdx x.len start 0))
    (hN : N ≠ []) :
    x.applyFormatting N start end_ true =
      ⟨x.s, Fmts.em (Fmts.em x.fmts (sliceIdx x.len start 0) (fun p => { p with add := p.add ++ N }))
            (sliceIdx x.len end_ x.len) (fun p => { p with rem := p.rem ++ N })⟩ := by
  have hN' : N.isEmpty = false := by cases N <;> simp_all
  unfold AStr.applyFormatting Fmts.em
  simp only [h1, if_false, hN', if_true, Bool.false_eq_true]

theorem applyFormatting_bot (x : AStr) (N : List Setting) (start end_ : Option Int)
    (h1 : ¬ (sliceIdx x.len start 0 ≥ x.len ∨ sliceIdx x.len end_ x.len ≤ sliceIdx x.len start 0))
    (hN : N ≠ []) :
    x.applyFormatting N start end_ false =
      let st := sliceIdx x.len start 0
      let f2 := x.fmts.em st (fun p => { p with add := N ++ p.add })
      let P := (active f2 st).filter (fun s => !hasId (f2.getD st).add s.id)
      ⟨x.s, Fmts.em (f2.modify st (fun p =>
            { rem := p.rem ++ P, add := p.add.take N.length ++ P ++ p.add.drop N.length }))
            (sliceIdx x.len end_ x.len) (fun p => { p with rem := N ++ p.rem })⟩ := by
  have hN' : N.isEmpty = false := by cases N <;> simp_all
  unfold AStr.applyFormatting Fmts.em
  simp only [h1, if_false, hN', Bool.false_eq_true]
  rw [Fmts.if_isEmpty_modify]

theorem FreshN.freshG {x : AStr} {N : List Setting} (hw : WF x) (h : FreshN x N) :
    FreshG (Fmts.toFun x.fmts) N := by
  intro k s hs t ht
  exact h.1 t ht s ((Fmts.mem_settings_iff hw.sorted s).mpr ⟨k, hs⟩)

theorem hasId_self {l : List Setting} {s : Setting} (h : s ∈ l) : hasId l s.id = true := by
  unfold hasId
  exact List.any_eq_true.mpr ⟨s, h, by simp⟩

/-- `apply_formatting(…, topmost=True)` is a `TopUpd` of the table -/
theorem apply_topUpd {x : AStr} {N : List Setting} {start end_ : Option Int} {st en : Nat}
    (hw : WF x) (hf : FreshN x N) (hst : st = sliceIdx x.len start 0)
    (hen : en = sliceIdx x.len end_ x.len) (h1 : st < x.len) (h2 : st < en) (hN : N ≠ []) :
    (x.applyFormatting N start end_ true).s = x.s ∧
    SortedKeys (x.applyFormatting N start end_ true).fmts ∧
    TopUpd (Fmts.toFun x.fmts) (Fmts.toFun (x.applyFormatting N start end_ true).fmts) N st en ∧
    (∀ j, (x.applyFormatting N start end_ true).fmts.contains j = true →
        x.fmts.contains j = true ∨ j = st ∨ j = en) := by
  subst hst hen
  rw [applyFormatting_top x N start end_ (by omega) hN]
  have hs := hw.sorted
  have hs1 := Fmts.sorted_em hs (sliceIdx x.len start 0) (fun p => { p with add := p.add ++ N })
  refine ⟨rfl, Fmts.sorted_em hs1 _ _, ?_, ?_⟩
  · refine ⟨h2, ?_, ?_, ?_, hf.freshG hw, hf.2⟩
    · intro j j1 j2
      simp only [Fmts.toFun_em hs1, Fmts.toFun_em hs, j1, j2, if_false]
    · have : ¬ sliceIdx x.len start 0 = sliceIdx x.len end_ x.len := by omega
      simp only [Fmts.toFun_em hs1, Fmts.toFun_em hs, this, if_false, if_true]
    · have : ¬ sliceIdx x.len end_ x.len = sliceIdx x.len start 0 := by omega
      simp only [Fmts.toFun_em hs1, Fmts.toFun_em hs, this, if_false, if_true]
  · intro j hj
    simp only [Fmts.contains_em hs1, Fmts.contains_em hs, Bool.or_eq_true, decide_eq_true_eq] at hj
    rcases hj with h | h | h
    · exact Or.inr (Or.inr h)
    · exact Or.inr (Or.inl h)
    · exact Or.inl h

/-- what `apply_formatting(…, topmost=False)` stops and starts again at `st` -/
theorem bot_P {x : AStr} {N : List Setting} (st : Nat) (hw : WF x) (hf : FreshN x N) :
    (active (x.fmts.em st (fun p => { p with add := N ++ p.add })) st).filter
        (fun s => !hasId ((x.fmts.em st (fun p => { p with add := N ++ p.add })).getD st).add s.id) =
      eraseAll (before (Fmts.toFun x.fmts) st) (Fmts.toFun x.fmts st).rem := by
  have hs := hw.sorted
  have hs1 := Fmts.sorted_em hs st (fun p => { p with add := N ++ p.add })
  have hg : Fmts.toFun (x.fmts.em st (fun p => { p with add := N ++ p.add })) st =
      { rem := (Fmts.toFun x.fmts st).rem, add := N ++ (Fmts.toFun x.fmts st).add } := by
    rw [Fmts.toFun_em hs]; simp
  rw [show (x.fmts.em st (fun p => { p with add := N ++ p.add })).getD st =
    Fmts.toFun (x.fmts.em st (fun p => { p with add := N ++ p.add })) st from rfl]
  have hb : before (Fmts.toFun (x.fmts.em st (fun p => { p with add := N ++ p.add }))) st =
      before (Fmts.toFun x.fmts) st :=
    before_congr st (fun j hj => by
      have : ¬ j = st := by omega
      simp only [Fmts.toFun_em hs, this, if_false])
  have hnd := hw.nodup st
  rw [active_eq_before hs, before_succ, stepPoint_eq, List.map_append, List.nodup_append] at hnd
  rw [active_eq_before hs1, before_succ, hb, hg]
  show List.filter _ (stepPoint _ _) = _
  rw [stepPoint_eq]
  simp only [List.filter_append]
  have e1 : List.filter (fun s => !hasId (N ++ (Fmts.toFun x.fmts st).add) s.id)
      (N ++ (Fmts.toFun x.fmts st).add) = [] := by
    rw [List.filter_eq_nil_iff]
    intro s hs'
    simp [hasId_self hs']
  have e2 : List.filter (fun s => !hasId (N ++ (Fmts.toFun x.fmts st).add) s.id)
      (eraseAll (before (Fmts.toFun x.fmts) st) (Fmts.toFun x.fmts st).rem) =
      eraseAll (before (Fmts.toFun x.fmts) st) (Fmts.toFun x.fmts st).rem := by
    rw [List.filter_eq_self]
    intro s hs'
    have a1 : hasId N s.id = false :=
      hasId_false_of_notIn ((hf.freshG hw).before ((eraseAll_sublist _ _).subset hs'))
    have a2 : hasId (Fmts.toFun x.fmts st).add s.id = false := by
      apply hasId_false_of_notIn
      intro t ht hts
      exact hnd.2.2 s.id (List.mem_map.mpr ⟨s, hs', rfl⟩) t.id (List.mem_map.mpr ⟨t, ht, rfl⟩) hts.symm
    simp [hasId_append, a1, a2]
  rw [e2]
  simpa using e1

/-- `apply_formatting(…, topmost=False)` is a `BotUpd` of the table -/
theorem apply_botUpd {x : AStr} {N : List Setting} {start end_ : Option Int} {st en : Nat}
    (hw : WF x) (hf : FreshN x N) (hst : st = sliceIdx x.len start 0)
    (hen : en = sliceIdx x.len end_ x.len) (h1 : st < x.len) (h2 : st < en) (hN : N ≠ []) :
    (x.applyFormatting N start end_ false).s = x.s ∧
    SortedKeys (x.applyFormatting N start end_ false).fmts ∧
    BotUpd (Fmts.toFun x.fmts) (Fmts.toFun (x.applyFormatting N start end_ false).fmts) N st en ∧
    (∀ j, (x.applyFormatting N start end_ false).fmts.contains j = true →
        x.fmts.contains j = true ∨ j = st ∨ j = en) := by
  subst hst hen
  rw [applyFormatting_bot x N start end_ (by omega) hN]
  simp only [bot_P _ hw hf]
  have hs := hw.sorted
  have hs1 := Fmts.sorted_em hs (sliceIdx x.len start 0) (fun p => { p with add := N ++ p.add })
  have hc1 : (x.fmts.em (sliceIdx x.len start 0) (fun p => { p with add := N ++ p.add })).contains
      (sliceIdx x.len start 0) = true := by
    rw [Fmts.contains_em hs]; simp
  refine ⟨trivial, Fmts.sorted_em (Fmts.sorted_modify hs1 _ _) _ _, ?_, ?_⟩
  · refine ⟨h2, ?_, ?_, ?_, hf.freshG hw, hf.2⟩
    · intro j j1 j2
      simp only [Fmts.toFun_em (Fmts.sorted_modify hs1 _ _), Fmts.toFun_modify _ _ _ hc1,
        Fmts.toFun_em hs, j1, j2, if_false]
    · have : ¬ sliceIdx x.len start 0 = sliceIdx x.len end_ x.len := by omega
      simp only [Fmts.toFun_em (Fmts.sorted_modify hs1 _ _), Fmts.toFun_modify _ _ _ hc1,
        Fmts.toFun_em hs, this, if_false, if_true]
      simp
    · have : ¬ sliceIdx x.len end_ x.len = sliceIdx x.len start 0 := by omega
      simp only [Fmts.toFun_em (Fmts.sorted_modify hs1 _ _), Fmts.toFun_modify _ _ _ hc1,
        Fmts.toFun_em hs, this, if_false, if_true]
  · intro j hj
    simp only [Fmts.contains_em (Fmts.sorted_modify hs1 _ _), Fmts.contains_modify,
      Fmts.contains_em hs, Bool.or_eq_true, decide_eq_true_eq] at hj
    rcases hj with h | h | h
    · exact Or.inr (Or.inr h)
    · exact Or.inr (Or.inl h)
    · exact Or.inl h

/-! ## Part 6: the invariant `WF` is kept -/

theorem TopUpd.mem_new {g g' : Nat → Point} {N : List Setting} {st en : Nat} (h : TopUpd g g' N st en)
    {k : Nat} {s : Setting} (hs : s ∈ (g' k).add ∨ s ∈ (g' k).rem) :
    s ∈ N ∨ ∃ j, s ∈ (g j).add ∨ s ∈ (g j).rem := by
  by_cases c1 : k = st
  · subst c1
    rw [h.atSt] at hs
    simp only [List.mem_append] at hs
    rcases hs with (hs | hs) | hs
    · exact Or.inr ⟨k, Or.inl hs⟩
    · exact Or.inl hs
    · exact Or.inr ⟨k, Or.inr hs⟩
  · by_cases c2 : k = en
    · subst c2
      rw [h.atEn] at hs
      simp only [List.mem_append] at hs
      rcases hs with hs | hs | hs
      · exact Or.inr ⟨k, Or.inl hs⟩
      · exact Or.inr ⟨k, Or.inr hs⟩
      · exact Or.inl hs
    · rw [h.oth k c1 c2] at hs
      exact Or.inr ⟨k, hs⟩

theorem BotUpd.mem_new {g g' : Nat → Point} {N : List Setting} {st en : Nat} (h : BotUpd g g' N st en)
    {k : Nat} {s : Setting} (hs : s ∈ (g' k).add ∨ s ∈ (g' k).rem) :
    s ∈ N ∨ ∃ j, s ∈ (g j).add ∨ s ∈ (g j).rem := by
  have hA : s ∈ eraseAll (before g st) (g st).rem → ∃ j, s ∈ (g j).add ∨ s ∈ (g j).rem := by
    intro hs
    obtain ⟨j, hj⟩ := mem_before ((eraseAll_sublist _ _).subset hs)
    exact ⟨j, Or.inl hj⟩
  by_cases c1 : k = st
  · subst c1
    rw [h.atSt] at hs
    simp only [List.mem_append] at hs
    rcases hs with ((hs | hs) | hs) | hs | hs
    · exact Or.inl hs
    · exact Or.inr (hA hs)
    · exact Or.inr ⟨k, Or.inl hs⟩
    · exact Or.inr ⟨k, Or.inr hs⟩
    · exact Or.inr (hA hs)
  · by_cases c2 : k = en
    · subst c2
      rw [h.atEn] at hs
      simp only [List.mem_append] at hs
      rcases hs with hs | hs | hs
      · exact Or.inr ⟨k, Or.inl hs⟩
      · exact Or.inl hs
      · exact Or.inr ⟨k, Or.inr hs⟩
    · rw [h.oth k c1 c2] at hs
      exact Or.inr ⟨k, hs⟩

theorem eq_of_id_eq {N : List Setting} (hnd : (N.map (·.id)).Nodup) {s t : Setting}
    (hs : s ∈ N) (ht : t ∈ N) (h : s.id = t.id) : s = t := by
  induction N with
  | nil => cases hs
  | cons a N ih =>
    rw [List.map_cons, List.nodup_cons] at hnd
    rcases List.mem_cons.mp hs with rfl | hs' <;> rcases List.mem_cons.mp ht with rfl | ht'
    · rfl
    · exact absurd (List.mem_map.mpr ⟨t, ht', h.symm⟩) hnd.1
    · exact absurd (List.mem_map.mpr ⟨s, hs', h⟩) hnd.1
    · exact ih hnd.2 hs' ht'

/-- assembling `WF` of the result from the function-level facts -/
theorem wf_of_upd {x x' : AStr} {N : List Setting} {st en : Nat} (hw : WF x) (hf : FreshN x N)
    (hs : x'.s = x.s) (hsorted : SortedKeys x'.fmts)
    (hcont : ∀ j, x'.fmts.contains j = true → x.fmts.contains j = true ∨ j = st ∨ j = en)
    (hst : st < x.len) (hen : en ≤ x.len)
    (hok : ∀ k, stepOk (before (Fmts.toFun x'.fmts) k) (Fmts.toFun x'.fmts k).rem = true)
    (hnd : ∀ k, ((before (Fmts.toFun x'.fmts) k).map (·.id)).Nodup)
    (hgt : ∀ k, en < k → before (Fmts.toFun x'.fmts) k = before (Fmts.toFun x.fmts) k)
    (hoth : ∀ j, j ≠ st → j ≠ en → Fmts.toFun x'.fmts j = Fmts.toFun x.fmts j)
    (hadd : (Fmts.toFun x'.fmts en).add = (Fmts.toFun x.fmts en).add)
    (hmem : ∀ k s, (s ∈ (Fmts.toFun x'.fmts k).add ∨ s ∈ (Fmts.toFun x'.fmts k).rem) →
      s ∈ N ∨ ∃ j, s ∈ (Fmts.toFun x.fmts j).add ∨ s ∈ (Fmts.toFun x.fmts j).rem) : WF x' := by
  have hlen : x'.len = x.len := by unfold AStr.len; rw [hs]
  refine ⟨hsorted, ?_, ?_, ?_, ?_, ?_, ?_⟩
  · rw [Fmts.bound_iff hsorted, hlen]
    intro j hj
    rcases hcont j hj with h | h | h
    · exact (Fmts.bound_iff hw.sorted _).mp hw.bound j h
    · omega
    · omega
  · rw [Fmts.noAddEnd_iff hsorted, hlen]
    have hold := (Fmts.noAddEnd_iff hw.sorted _).mp hw.noAddEnd
    by_cases c : x.len = en
    · rw [c, hadd, ← c]; exact hold
    · rw [hoth _ (by omega) c]; exact hold
  · exact (replayOk_iff hsorted).mpr hok
  · intro i
    rw [active_eq_before hsorted]; exact hnd _
  · rw [hlen, active_eq_before hsorted, hgt _ (by omega), ← active_eq_before hw.sorted]
    exact hw.closed
  · have hsub : ∀ s ∈ x'.fmts.settings, s ∈ N ∨ s ∈ x.fmts.settings := by
      intro s hs
      obtain ⟨k, hk⟩ := (Fmts.mem_settings_iff hsorted s).mp hs
      rcases hmem k s hk with h | h
      · exact Or.inl h
      · exact Or.inr ((Fmts.mem_settings_iff hw.sorted s).mpr h)
    intro s hs t ht hid
    rcases hsub s hs with h1 | h1 <;> rcases hsub t ht with h2 | h2
    · rw [eq_of_id_eq hf.2 h1 h2 hid]
    · exact absurd hid (hf.1 s h1 t h2)
    · exact absurd hid.symm (hf.1 t h2 s h1)
    · exact hw.coherent s h1 t h2 hid

theorem TopUpd.add_en {g g' : Nat → Point} {N : List Setting} {st en : Nat} (h : TopUpd g g' N st en) :
    (g' en).add = (g en).add := by rw [h.atEn]

theorem BotUpd.add_en {g g' : Nat → Point} {N : List Setting} {st en : Nat} (h : BotUpd g g' N st en) :
    (g' en).add = (g en).add := by rw [h.atEn]

theorem WF.before_ok {x : AStr} (hw : WF x) (k : Nat) :
    stepOk (before (Fmts.toFun x.fmts) k) (Fmts.toFun x.fmts k).rem = true :=
  (replayOk_iff hw.sorted).mp hw.ok k

theorem WF.before_nodup {x : AStr} (hw : WF x) (k : Nat) :
    ((before (Fmts.toFun x.fmts) k).map (·.id)).Nodup := by
  cases k with
  | zero => simp [before_zero]
  | succ k => rw [← active_eq_before hw.sorted]; exact hw.nodup k

/-! ## Part 7: the fresh objects made by `apply_formatting` -/

theorem freshSettings_ids_aux (nid : Nat) (ts : List Str) (k : Nat) :
    ((ts.zipIdx k).map (fun (ti : Str × Nat) => (⟨nid + ti.2, ti.1⟩ : Setting))).map (·.id) =
      List.range' (nid + k) ts.length := by
  induction ts generalizing k with
  | nil => rfl
  | cons t ts ih =>
    simp only [List.zipIdx_cons, List.map_cons, List.length_cons, List.range'_succ]
    rw [ih (k + 1)]
    rfl

theorem freshSettings_ids (nid : Nat) (ts : List Str) :
    (freshSettings nid ts).map (·.id) = List.range' nid ts.length := by
  have := freshSettings_ids_aux nid ts 0
  simpa [freshSettings] using this

/-! ## Part 8: checking `WF` on a concrete value -/

theorem activeFrom_ge_bound {f : Fmts} {m : Nat} (hb : ∀ kp ∈ f, kp.1 ≤ m) {i : Nat} (hi : m ≤ i)
    (c : List Setting) : activeFrom c f i = activeFrom c f m := by
  induction f generalizing c with
  | nil => rfl
  | cons kp rest ih =>
    obtain ⟨k, p⟩ := kp
    have hk : k ≤ m := hb (k, p) (by simp)
    have h1 : k ≤ i := by omega
    simp only [activeFrom, hk, h1, if_true]
    exact ih (fun x hx => hb x (by simp [hx])) _

/-- `WF.nodup` (a statement about every index) follows from the finitely many indices up to the
    last key -/
theorem nodup_all_of_le {f : Fmts} {m : Nat} (hb : ∀ kp ∈ f, kp.1 ≤ m)
    (h : ∀ i, i ≤ m → ((active f i).map (·.id)).Nodup) (i : Nat) : ((active f i).map (·.id)).Nodup := by
  by_cases hi : i ≤ m
  · exact h i hi
  · unfold active
    rw [activeFrom_ge_bound hb (by omega : m ≤ i)]
    exact h m (Nat.le_refl _)
