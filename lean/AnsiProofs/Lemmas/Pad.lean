import AnsiProofs.Lemmas.Basic
/-
  AnsiProofs.Lemmas.Pad — helper lemmas for property C12 (`ljust`, `rjust`, `center`, `zfill`,
  `assign_str`, the `[fill][sign][align][width]` part of a format spec).

  * sorted association lists: `Fmts.erase` as a filter, `toFun_erase`, `sorted_erase`,
    `shiftKeys` (`toFun_shiftKeys_*`, `sorted_shiftKeys`), the structural form of
    "move the end point" (`erase_set_last`)
  * the function representation: `prevFn`, `activeFn_congr`, `activeFn_const`, shifts,
    erasing / setting the end point
  * things that only depend on the sequence of points (`replayOk`, `Fmts.settings`)
  * the total description of `active` after each padding operation, and `WF` preservation
  * the hand-rolled regex matcher on the three justification patterns
-/

/-! ## Sorted association lists: membership, `erase`, `shiftKeys` -/

namespace Fmts

theorem toFun_of_mem {f : Fmts} (h : SortedKeys f) {k : Nat} {p : Point} (hm : (k, p) ∈ f) :
    toFun f k = p := by
  unfold toFun Fmts.getD
  rw [get?_eq_some_of_mem h hm]; rfl

theorem toFun_of_not_mem {f : Fmts} {k : Nat} (hm : ∀ p, (k, p) ∉ f) : toFun f k = {} := by
  unfold toFun Fmts.getD
  cases hg : f.get? k with
  | none => rfl
  | some p => exact absurd (mem_of_get?_eq_some hg) (hm p)

theorem get?_eq_none_of_not_mem {f : Fmts} {k : Nat} (hm : ∀ p, (k, p) ∉ f) : f.get? k = none := by
  cases hg : f.get? k with
  | none => rfl
  | some p => exact absurd (mem_of_get?_eq_some hg) (hm p)

theorem not_mem_of_get?_eq_none {f : Fmts} (h : SortedKeys f) {k : Nat} (hg : f.get? k = none) :
    ∀ p, (k, p) ∉ f := by
  intro p hm
  rw [get?_eq_some_of_mem h hm] at hg
  cases hg

/-- a key occurs at most once in a sorted table -/
theorem mem_unique {f : Fmts} (h : SortedKeys f) {k : Nat} {p q : Point} (hp : (k, p) ∈ f)
    (hq : (k, q) ∈ f) : p = q := by
  have h1 := get?_eq_some_of_mem h hp
  have h2 := get?_eq_some_of_mem h hq
  rw [h1] at h2
  exact Option.some.inj h2

/-- on a sorted table `del d[k]` is a filter -/
theorem erase_eq_filter {f : Fmts} (h : SortedKeys f) (k : Nat) :
    f.erase k = f.filter (fun kp => kp.1 ≠ k) := by
  induction f with
  | nil => rfl
  | cons kp rest ih =>
    obtain ⟨k', p'⟩ := kp
    have hs := sorted_tail h
    have hlt := sorted_head_lt h
    unfold Fmts.erase
    by_cases h1 : k' = k
    · subst h1
      simp only [if_true, List.filter_cons]
      simp only [ne_eq, not_true_eq_false, decide_false, Bool.false_eq_true, if_false]
      symm
      apply List.filter_eq_self.mpr
      intro x hx
      have := hlt x hx
      simp at this ⊢
      omega
    · simp only [h1, if_false, List.filter_cons, ne_eq, not_false_eq_true, decide_true, if_true]
      rw [ih hs]

theorem mem_erase {f : Fmts} (h : SortedKeys f) (k : Nat) (x : Nat × Point) :
    x ∈ f.erase k ↔ x ∈ f ∧ x.1 ≠ k := by
  rw [erase_eq_filter h]
  simp

theorem sorted_erase {f : Fmts} (h : SortedKeys f) (k : Nat) : SortedKeys (f.erase k) := by
  rw [erase_eq_filter h]
  exact List.Pairwise.filter _ h

theorem toFun_erase {f : Fmts} (h : SortedKeys f) (k j : Nat) :
    toFun (f.erase k) j = if j = k then {} else toFun f j := by
  by_cases hj : j = k
  · subst hj
    simp only [if_true]
    apply toFun_of_not_mem
    intro p hp
    exact ((mem_erase h j _).mp hp).2 rfl
  · simp only [hj, if_false]
    cases hg : f.get? j with
    | none =>
      have hn := not_mem_of_get?_eq_none h hg
      rw [toFun_of_not_mem hn, toFun_of_not_mem]
      intro p hp
      exact hn p ((mem_erase h k _).mp hp).1
    | some p =>
      have hm := mem_of_get?_eq_some hg
      rw [toFun_of_mem h hm, toFun_of_mem (sorted_erase h k)]
      exact (mem_erase h k _).mpr ⟨hm, hj⟩

/-- erasing an absent key changes nothing -/
theorem erase_of_get?_none {f : Fmts} (h : SortedKeys f) {k : Nat} (hg : f.get? k = none) :
    f.erase k = f := by
  rw [erase_eq_filter h]
  apply List.filter_eq_self.mpr
  intro x hx
  simp only [ne_eq, decide_not, Bool.not_eq_eq_eq_not, Bool.not_true, decide_eq_false_iff_not]
  intro hk
  exact not_mem_of_get?_eq_none h hg x.2 (by rw [← hk]; exact hx)

end Fmts

/-! ### `shiftKeys` -/

theorem shiftKeys_false (f : Fmts) (num : Nat) :
    shiftKeys f num false = f.map (fun kp => (kp.1 + num, kp.2)) := by
  simp [shiftKeys]

theorem mem_shiftKeys_false {f : Fmts} {num : Nat} {x : Nat × Point} :
    x ∈ shiftKeys f num false ↔ ∃ k, (k, x.2) ∈ f ∧ x.1 = k + num := by
  rw [shiftKeys_false]
  simp only [List.mem_map]
  constructor
  · rintro ⟨⟨k, p⟩, hm, rfl⟩
    exact ⟨k, hm, rfl⟩
  · rintro ⟨k, hm, hk⟩
    refine ⟨(k, x.2), hm, ?_⟩
    obtain ⟨a, b⟩ := x
    simp at hk ⊢
    omega

theorem mem_shiftKeys_true {f : Fmts} {num : Nat} {x : Nat × Point} :
    x ∈ shiftKeys f num true ↔ (x.1 = 0 ∧ x ∈ f) ∨ ∃ k, k ≠ 0 ∧ (k, x.2) ∈ f ∧ x.1 = k + num := by
  simp only [shiftKeys, true_and, List.mem_map]
  constructor
  · rintro ⟨⟨k, p⟩, hm, rfl⟩
    by_cases hk : k = 0
    · subst hk
      exact Or.inl ⟨rfl, hm⟩
    · simp only [hk, if_false]
      exact Or.inr ⟨k, hk, hm, rfl⟩
  · rintro (⟨h0, hm⟩ | ⟨k, hk, hm, hx⟩)
    · refine ⟨x, hm, ?_⟩
      simp [h0]
    · refine ⟨(k, x.2), hm, ?_⟩
      obtain ⟨a, b⟩ := x
      simp at hx ⊢
      simp [hk, hx]

theorem sorted_shiftKeys {f : Fmts} (h : SortedKeys f) (num : Nat) (keep : Bool) :
    SortedKeys (shiftKeys f num keep) := by
  unfold shiftKeys SortedKeys
  rw [List.pairwise_map]
  refine List.Pairwise.imp ?_ h
  intro a b hab
  cases keep with
  | false => simp; omega
  | true =>
    simp only [true_and]
    by_cases ha : a.1 = 0 <;> by_cases hb : b.1 = 0 <;> simp only [ha, hb, if_true, if_false] <;>
      omega

theorem map_snd_shiftKeys (f : Fmts) (num : Nat) (keep : Bool) :
    (shiftKeys f num keep).map (·.2) = f.map (·.2) := by
  unfold shiftKeys
  rw [List.map_map]
  apply List.map_congr_left
  intro a _
  simp only [Function.comp]
  split <;> rfl

theorem toFun_shiftKeys_false {f : Fmts} (h : SortedKeys f) (num j : Nat) :
    Fmts.toFun (shiftKeys f num false) j = if j < num then {} else Fmts.toFun f (j - num) := by
  have hs := sorted_shiftKeys h num false
  by_cases hj : j < num
  · simp only [hj, if_true]
    apply Fmts.toFun_of_not_mem
    intro p hp
    obtain ⟨k, _, hk⟩ := mem_shiftKeys_false.mp hp
    simp at hk; omega
  · simp only [hj, if_false]
    cases hg : f.get? (j - num) with
    | none =>
      have hn := Fmts.not_mem_of_get?_eq_none h hg
      rw [Fmts.toFun_of_not_mem hn, Fmts.toFun_of_not_mem]
      intro p hp
      obtain ⟨k, hm, hk⟩ := mem_shiftKeys_false.mp hp
      simp at hk hm
      have : k = j - num := by omega
      subst this
      exact hn p hm
    | some p =>
      have hm := Fmts.mem_of_get?_eq_some hg
      rw [Fmts.toFun_of_mem h hm, Fmts.toFun_of_mem hs]
      exact mem_shiftKeys_false.mpr ⟨j - num, hm, by simp; omega⟩

theorem toFun_shiftKeys_true {f : Fmts} (h : SortedKeys f) (num j : Nat) :
    Fmts.toFun (shiftKeys f num true) j =
      if j = 0 then Fmts.toFun f 0 else if j ≤ num then {} else Fmts.toFun f (j - num) := by
  have hs := sorted_shiftKeys h num true
  by_cases hj0 : j = 0
  · subst hj0
    simp only [if_true]
    cases hg : f.get? 0 with
    | none =>
      have hn := Fmts.not_mem_of_get?_eq_none h hg
      rw [Fmts.toFun_of_not_mem hn, Fmts.toFun_of_not_mem]
      intro p hp
      rcases mem_shiftKeys_true.mp hp with ⟨_, hm⟩ | ⟨k, hk, _, hx⟩
      · exact hn p hm
      · simp at hx; omega
    | some p =>
      have hm := Fmts.mem_of_get?_eq_some hg
      rw [Fmts.toFun_of_mem h hm, Fmts.toFun_of_mem hs]
      exact mem_shiftKeys_true.mpr (Or.inl ⟨rfl, hm⟩)
  · simp only [hj0, if_false]
    by_cases hj : j ≤ num
    · simp only [hj, if_true]
      apply Fmts.toFun_of_not_mem
      intro p hp
      rcases mem_shiftKeys_true.mp hp with ⟨h0, _⟩ | ⟨k, hk, _, hx⟩
      · exact hj0 h0
      · simp at hx; omega
    · simp only [hj, if_false]
      cases hg : f.get? (j - num) with
      | none =>
        have hn := Fmts.not_mem_of_get?_eq_none h hg
        rw [Fmts.toFun_of_not_mem hn, Fmts.toFun_of_not_mem]
        intro p hp
        rcases mem_shiftKeys_true.mp hp with ⟨h0, _⟩ | ⟨k, hk, hm, hx⟩
        · exact hj0 h0
        · simp at hx hm
          have : k = j - num := by omega
          subst this
          exact hn p hm
      | some p =>
        have hm := Fmts.mem_of_get?_eq_some hg
        rw [Fmts.toFun_of_mem h hm, Fmts.toFun_of_mem hs]
        exact mem_shiftKeys_true.mpr (Or.inr ⟨j - num, by omega, hm, by simp; omega⟩)

theorem shiftKeys_zero (f : Fmts) (keep : Bool) : shiftKeys f 0 keep = f := by
  unfold shiftKeys
  conv => rhs; rw [← List.map_id f]
  apply List.map_congr_left
  intro a _
  split <;> rfl

/-! ### structural form of "move the end point" -/

namespace Fmts

/-- setting a key above all present keys appends -/
theorem set_last {h : Fmts} {m : Nat} (p : Point) (hlt : ∀ kp ∈ h, kp.1 < m) :
    h.set m p = h ++ [(m, p)] := by
  induction h with
  | nil => rfl
  | cons kp rest ih =>
    obtain ⟨k', p'⟩ := kp
    have h1 : k' < m := hlt (k', p') (by simp)
    have h2 : ¬ k' = m := by omega
    have h3 : ¬ m < k' := by omega
    unfold Fmts.set
    simp only [h2, h3, if_false, List.cons_append]
    rw [ih (fun kp hkp => hlt kp (List.mem_cons_of_mem _ hkp))]

/-- the greatest possible key, when present, is the last entry -/
theorem erase_last {f : Fmts} (h : SortedKeys f) {n : Nat} {p : Point}
    (hb : ∀ kp ∈ f, kp.1 ≤ n) (hm : (n, p) ∈ f) : f = f.erase n ++ [(n, p)] := by
  induction f with
  | nil => cases hm
  | cons kp rest ih =>
    obtain ⟨k', p'⟩ := kp
    have hs := sorted_tail h
    have hlt := sorted_head_lt h
    unfold Fmts.erase
    by_cases h1 : k' = n
    · subst h1
      simp only [if_true]
      have hr : rest = [] := by
        cases rest with
        | nil => rfl
        | cons y ys =>
          have a := hlt y (by simp)
          have b := hb y (by simp)
          simp at a; omega
      subst hr
      simp at hm
      simp [hm]
    · simp only [h1, if_false, List.cons_append]
      have hm' : (n, p) ∈ rest := by
        rcases List.mem_cons.mp hm with e | e
        · cases e; exact absurd rfl h1
        · exact e
      rw [← ih hs (fun kp hkp => hb kp (List.mem_cons_of_mem _ hkp)) hm']

end Fmts

/-! ## Things that depend only on the sequence of points -/

theorem replayOkFrom_congr {f g : Fmts} (h : f.map (·.2) = g.map (·.2)) (cur : List Setting) :
    replayOkFrom cur f = replayOkFrom cur g := by
  induction f generalizing g cur with
  | nil =>
    cases g with
    | nil => rfl
    | cons b g => simp at h
  | cons a f ih =>
    cases g with
    | nil => simp at h
    | cons b g =>
      obtain ⟨ka, pa⟩ := a
      obtain ⟨kb, pb⟩ := b
      simp only [List.map_cons, List.cons.injEq] at h
      obtain ⟨h1, h2⟩ := h
      subst h1
      simp only [replayOkFrom]
      rw [ih h2]

theorem replayOk_congr {f g : Fmts} (h : f.map (·.2) = g.map (·.2)) : replayOk f = replayOk g :=
  replayOkFrom_congr h []

theorem settings_eq_map_snd (f : Fmts) :
    Fmts.settings f = (f.map (·.2)).flatMap (fun p => p.add ++ p.rem) := by
  unfold Fmts.settings
  rw [List.flatMap_map]

theorem settings_congr {f g : Fmts} (h : f.map (·.2) = g.map (·.2)) :
    Fmts.settings f = Fmts.settings g := by
  rw [settings_eq_map_snd, settings_eq_map_snd, h]

/-! ## The function representation -/

/-- the settings active just before index `n` (nothing before index 0) -/
def prevFn (g : Nat → Point) : Nat → List Setting
  | 0 => []
  | n + 1 => activeFn g n

theorem activeFn_eq_step_prev (g : Nat → Point) (n : Nat) :
    activeFn g n = stepPoint (prevFn g n) (g n) := by
  cases n with
  | zero => exact activeFn_zero g
  | succ n => exact activeFn_succ g n

theorem activeFn_congr {g g' : Nat → Point} {j : Nat} (h : ∀ k, k ≤ j → g k = g' k) :
    activeFn g j = activeFn g' j :=
  runFrom_congr (j + 1) [] (fun k _ hk => h k (by omega))

theorem prevFn_congr {g g' : Nat → Point} {n : Nat} (h : ∀ k, k < n → g k = g' k) :
    prevFn g n = prevFn g' n := by
  cases n with
  | zero => rfl
  | succ n => exact activeFn_congr (fun k hk => h k (by omega))

/-- no point in `n..n+d`: the active list is what it was before `n` -/
theorem activeFn_const_prev {g : Nat → Point} {n : Nat} :
    ∀ d, (∀ k, n ≤ k → k ≤ n + d → g k = {}) → activeFn g (n + d) = prevFn g n
  | 0, h => by
    rw [Nat.add_zero, activeFn_eq_step_prev, h n (Nat.le_refl _) (by omega), stepPoint_empty]
  | d + 1, h => by
    rw [← Nat.add_assoc, activeFn_succ, h (n + d + 1) (by omega) (by omega), stepPoint_empty]
    exact activeFn_const_prev d (fun k h1 h2 => h k h1 (by omega))

theorem activeFn_const_prev' {g : Nat → Point} {n j : Nat} (hnj : n ≤ j)
    (h : ∀ k, n ≤ k → k ≤ j → g k = {}) : activeFn g j = prevFn g n := by
  have := activeFn_const_prev (g := g) (n := n) (j - n) (fun k h1 h2 => h k h1 (by omega))
  rwa [show n + (j - n) = j by omega] at this

/-- no point in `i+1..j`: the active list is constant -/
theorem activeFn_const {g : Nat → Point} {i j : Nat} (hij : i ≤ j)
    (h : ∀ k, i < k → k ≤ j → g k = {}) : activeFn g j = activeFn g i := by
  by_cases e : i = j
  · subst e; rfl
  · exact activeFn_const_prev' (n := i + 1) (by omega) (fun k h1 h2 => h k (by omega) h2)

/-- shifting every key by `d` -/
theorem activeFn_shift_lt {g' : Nat → Point} {d j : Nat} (h0 : ∀ k, k < d → g' k = {}) (hj : j < d) :
    activeFn g' j = [] :=
  activeFn_const_prev' (n := 0) (Nat.zero_le _) (fun k _ hk => h0 k (by omega))

theorem activeFn_shift {g g' : Nat → Point} {d : Nat} (h0 : ∀ k, k < d → g' k = {})
    (h1 : ∀ k, g' (k + d) = g k) (j : Nat) : activeFn g' (j + d) = activeFn g j := by
  induction j with
  | zero =>
    rw [activeFn_eq_step_prev, h1 0, activeFn_zero]
    congr 1
    rw [Nat.zero_add]
    cases d with
    | zero => rfl
    | succ d => exact activeFn_shift_lt h0 (Nat.lt_succ_self d)
  | succ j ih =>
    rw [show j + 1 + d = (j + d) + 1 by omega, activeFn_succ, ih, activeFn_succ]
    rw [show j + d + 1 = (j + 1) + d by omega, h1]

/-- shifting every key but 0 by `d` -/
theorem activeFn_shiftKeep_le {g g' : Nat → Point} {d j : Nat} (h0 : g' 0 = g 0)
    (h1 : ∀ k, 0 < k → k ≤ d → g' k = {}) (hj : j ≤ d) : activeFn g' j = activeFn g 0 := by
  rw [activeFn_const (i := 0) (Nat.zero_le _) (fun k a b => h1 k a (by omega))]
  exact activeFn_congr (fun k hk => by rw [show k = 0 by omega, h0])

theorem activeFn_shiftKeep {g g' : Nat → Point} {d : Nat} (h0 : g' 0 = g 0)
    (h1 : ∀ k, 0 < k → k ≤ d → g' k = {}) (h2 : ∀ k, 0 < k → g' (k + d) = g k) (j : Nat) :
    activeFn g' (j + d) = activeFn g j := by
  induction j with
  | zero => rw [Nat.zero_add]; exact activeFn_shiftKeep_le h0 h1 (Nat.le_refl _)
  | succ j ih =>
    rw [show j + 1 + d = (j + d) + 1 by omega, activeFn_succ, ih, activeFn_succ]
    rw [show j + d + 1 = (j + 1) + d by omega, h2 _ (by omega)]

/-- deleting the point at `n` when nothing lies beyond it -/
theorem activeFn_eraseEnd_lt {g h : Nat → Point} {n j : Nat}
    (hh : ∀ k, h k = if k = n then {} else g k) (hj : j < n) : activeFn h j = activeFn g j :=
  activeFn_congr (fun k hk => by rw [hh, if_neg (by omega)])

theorem activeFn_eraseEnd_ge {g h : Nat → Point} {n j : Nat}
    (hh : ∀ k, h k = if k = n then {} else g k) (hb : ∀ k, n < k → g k = {}) (hj : n ≤ j) :
    activeFn h j = prevFn g n := by
  rw [activeFn_const_prev' hj]
  · exact prevFn_congr (fun k hk => by rw [hh, if_neg (by omega)])
  · intro k h1 _
    rw [hh]
    by_cases e : k = n
    · simp [e]
    · simp only [e, if_false]; exact hb k (by omega)

/-- putting a point at `M` when nothing lies at or beyond it -/
theorem activeFn_setEnd_lt {q g' : Nat → Point} {M j : Nat} {p : Point}
    (hg : ∀ k, g' k = if k = M then p else q k) (hj : j < M) : activeFn g' j = activeFn q j :=
  activeFn_congr (fun k hk => by rw [hg, if_neg (by omega)])

theorem activeFn_setEnd_ge {q g' : Nat → Point} {M j : Nat} {p : Point}
    (hg : ∀ k, g' k = if k = M then p else q k) (hb : ∀ k, M ≤ k → q k = {}) (hj : M ≤ j) :
    activeFn g' j = stepPoint (prevFn q M) p := by
  rw [activeFn_const hj (fun k a b => by rw [hg, if_neg (by omega)]; exact hb k (by omega))]
  rw [activeFn_eq_step_prev, hg M, if_pos rfl]
  congr 1
  exact prevFn_congr (fun k hk => by rw [hg, if_neg (by omega)])

theorem activeFn_shiftKeep_sub {g g' : Nat → Point} {d : Nat} (h0 : g' 0 = g 0)
    (h1 : ∀ k, 0 < k → k ≤ d → g' k = {}) (h2 : ∀ k, 0 < k → g' (k + d) = g k) (j : Nat) :
    activeFn g' j = activeFn g (j - d) := by
  by_cases hj : j ≤ d
  · rw [activeFn_shiftKeep_le h0 h1 hj, show j - d = 0 by omega]
  · have := activeFn_shiftKeep h0 h1 h2 (j - d)
    rwa [show j - d + d = j by omega] at this

/-! ## Facts about well-formed values -/

theorem act_eq_activeFn {x : AStr} (hw : WF x) (j : Nat) :
    act x j = activeFn (Fmts.toFun x.fmts) j := active_eq_activeFn _ hw.sorted j

theorem WF.toFun_beyond {x : AStr} (hw : WF x) {k : Nat} (hk : x.len < k) :
    Fmts.toFun x.fmts k = {} := by
  apply Fmts.toFun_of_not_mem
  intro p hp
  have := hw.bound _ hp
  simp at this; omega

/-- positions at or beyond the end report nothing -/
theorem WF.act_ge {x : AStr} (hw : WF x) {j : Nat} (hj : x.len ≤ j) : act x j = [] := by
  rw [act_eq_activeFn hw, activeFn_const hj (fun k a _ => hw.toFun_beyond a), ← act_eq_activeFn hw]
  exact hw.closed

/-- what the last character reports (`[]` for the empty text) -/
def lastAct (x : AStr) : List Setting := prevFn (Fmts.toFun x.fmts) x.len

theorem lastAct_pos {x : AStr} (hw : WF x) (h : 0 < x.len) : lastAct x = act x (x.len - 1) := by
  unfold lastAct
  rw [act_eq_activeFn hw]
  cases hn : x.len with
  | zero => omega
  | succ n => rfl

theorem lastAct_zero {x : AStr} (h : x.len = 0) : lastAct x = [] := by
  unfold lastAct; rw [h]; rfl

theorem WF.step_last {x : AStr} (hw : WF x) :
    stepPoint (lastAct x) (Fmts.toFun x.fmts x.len) = [] := by
  unfold lastAct
  rw [← activeFn_eq_step_prev, ← act_eq_activeFn hw]
  exact hw.closed

theorem lastAct_nodup {x : AStr} (hw : WF x) : ((lastAct x).map (·.id)).Nodup := by
  by_cases h : 0 < x.len
  · rw [lastAct_pos hw h]; exact hw.nodup _
  · rw [lastAct_zero (by omega)]; simp

/-- `WF` only looks at the length of the text and the table -/
theorem WF.of_eq {a b : AStr} (hw : WF a) (hl : b.len = a.len) (hf : b.fmts = a.fmts) : WF b where
  sorted := by rw [hf]; exact hw.sorted
  bound := by rw [hf, hl]; exact hw.bound
  noAddEnd := by rw [hf, hl]; exact hw.noAddEnd
  ok := by rw [hf]; exact hw.ok
  nodup := by rw [hf]; exact hw.nodup
  closed := by rw [hf, hl]; exact hw.closed
  coherent := by rw [hf]; exact hw.coherent

/-! ## Operation C: shift every key (`rjust`/`center` without extension; `ljust` is `left = 0`) -/

theorem active_shift {f : Fmts} (hs : SortedKeys f) (left j : Nat) :
    active (shiftKeys f left false) j = if j < left then [] else active f (j - left) := by
  rw [active_eq_activeFn _ (sorted_shiftKeys hs left false)]
  have h0 : ∀ k, k < left → Fmts.toFun (shiftKeys f left false) k = {} := by
    intro k hk; rw [toFun_shiftKeys_false hs, if_pos hk]
  by_cases hj : j < left
  · rw [if_pos hj]; exact activeFn_shift_lt h0 hj
  · rw [if_neg hj, active_eq_activeFn _ hs]
    have := activeFn_shift (g := Fmts.toFun f) h0
      (fun k => by rw [toFun_shiftKeys_false hs, if_neg (by omega), Nat.add_sub_cancel]) (j - left)
    rwa [show j - left + left = j by omega] at this

theorem wf_shift {x y : AStr} (hw : WF x) (left right : Nat) (hl : y.len = x.len + left + right)
    (hf : y.fmts = shiftKeys x.fmts left false) : WF y where
  sorted := by rw [hf]; exact sorted_shiftKeys hw.sorted _ _
  bound := by
    intro kp hkp
    rw [hf] at hkp
    obtain ⟨k, hm, hk⟩ := mem_shiftKeys_false.mp hkp
    have := hw.bound _ hm
    simp at this; omega
  noAddEnd := by
    intro kp hkp he
    rw [hf] at hkp
    obtain ⟨k, hm, hk⟩ := mem_shiftKeys_false.mp hkp
    have hb := hw.bound _ hm
    simp at hb
    exact hw.noAddEnd (k, kp.2) hm (by simp only; omega)
  ok := by rw [hf, replayOk_congr (map_snd_shiftKeys _ _ _)]; exact hw.ok
  nodup := by
    intro i
    rw [hf, active_shift hw.sorted]
    split
    · simp
    · exact hw.nodup _
  closed := by
    rw [hf, active_shift hw.sorted, hl, if_neg (by omega)]
    exact hw.act_ge (by omega)
  coherent := by rw [hf, settings_congr (map_snd_shiftKeys _ _ _)]; exact hw.coherent

/-! ## Operation B: shift every key but 0 (`rjust` with extension) -/

theorem active_shiftKeep {f : Fmts} (hs : SortedKeys f) (num j : Nat) :
    active (shiftKeys f num true) j = active f (j - num) := by
  rw [active_eq_activeFn _ (sorted_shiftKeys hs num true), active_eq_activeFn _ hs]
  apply activeFn_shiftKeep_sub
  · rw [toFun_shiftKeys_true hs, if_pos rfl]
  · intro k h1 h2
    rw [toFun_shiftKeys_true hs, if_neg (by omega), if_pos h2]
  · intro k h1
    rw [toFun_shiftKeys_true hs, if_neg (by omega), if_neg (by omega), Nat.add_sub_cancel]

theorem wf_shiftKeep {x y : AStr} (hw : WF x) (num : Nat) (hl : y.len = x.len + num)
    (hf : y.fmts = shiftKeys x.fmts num true) : WF y where
  sorted := by rw [hf]; exact sorted_shiftKeys hw.sorted _ _
  bound := by
    intro kp hkp
    rw [hf] at hkp
    rcases mem_shiftKeys_true.mp hkp with ⟨h0, _⟩ | ⟨k, _, hm, hk⟩
    · omega
    · have := hw.bound _ hm
      simp at this; omega
  noAddEnd := by
    intro kp hkp he
    rw [hf] at hkp
    rcases mem_shiftKeys_true.mp hkp with ⟨h0, hm⟩ | ⟨k, _, hm, hk⟩
    · exact hw.noAddEnd _ hm (by omega)
    · exact hw.noAddEnd (k, kp.2) hm (by simp only; omega)
  ok := by rw [hf, replayOk_congr (map_snd_shiftKeys _ _ _)]; exact hw.ok
  nodup := by
    intro i
    rw [hf, active_shiftKeep hw.sorted]
    exact hw.nodup _
  closed := by
    rw [hf, active_shiftKeep hw.sorted, hl, Nat.add_sub_cancel]
    exact hw.closed
  coherent := by rw [hf, settings_congr (map_snd_shiftKeys _ _ _)]; exact hw.coherent

/-! ## Operation A: take the end point out, shift every key but 0, put the end point at the new end
    (`center` with extension; `ljust` with extension and `assign_str` are `left = 0`) -/

def padExt (f : Fmts) (n left L : Nat) : Fmts :=
  match f.get? n with
  | some p => (shiftKeys (f.erase n) left true).set L p
  | none => shiftKeys (f.erase n) left true

theorem sorted_padExt {f : Fmts} (hs : SortedKeys f) (n left L : Nat) :
    SortedKeys (padExt f n left L) := by
  unfold padExt
  split
  · exact Fmts.sorted_set (sorted_shiftKeys (Fmts.sorted_erase hs _) _ _) _ _
  · exact sorted_shiftKeys (Fmts.sorted_erase hs _) _ _

/-- keys of the shifted table without its end point stay below the new end -/
theorem shifted_erase_lt {f : Fmts} (hs : SortedKeys f) {n left L : Nat}
    (hb : ∀ kp ∈ f, kp.1 ≤ n) (hL : n + left < L) :
    ∀ kp ∈ shiftKeys (f.erase n) left true, kp.1 < L := by
  intro kp hkp
  rcases mem_shiftKeys_true.mp hkp with ⟨h0, _⟩ | ⟨k, _, hm, hk⟩
  · omega
  · have h1 := (Fmts.mem_erase hs n _).mp hm
    have := hb _ h1.1
    simp at this; omega

theorem mem_padExt {f : Fmts} {n left L : Nat} {kp : Nat × Point}
    (hkp : kp ∈ padExt f n left L) :
    (kp.1 = L ∧ (n, kp.2) ∈ f) ∨ kp ∈ shiftKeys (f.erase n) left true := by
  unfold padExt at hkp
  split at hkp
  · rename_i p hg
    rcases Fmts.mem_set hkp with e | e
    · subst e; exact Or.inl ⟨rfl, Fmts.mem_of_get?_eq_some hg⟩
    · exact Or.inr e
  · exact Or.inr hkp

theorem map_snd_padExt {f : Fmts} (hs : SortedKeys f) {n left L : Nat}
    (hb : ∀ kp ∈ f, kp.1 ≤ n) (hL : n + left < L) :
    (padExt f n left L).map (·.2) = f.map (·.2) := by
  unfold padExt
  split
  · rename_i p hg
    have hm := Fmts.mem_of_get?_eq_some hg
    rw [Fmts.set_last p (shifted_erase_lt hs hb hL), List.map_append, map_snd_shiftKeys]
    conv => rhs; rw [Fmts.erase_last hs hb hm]
    rw [List.map_append]
    rfl
  · rename_i hg
    rw [map_snd_shiftKeys, Fmts.erase_of_get?_none hs hg]

theorem toFun_padExt {f : Fmts} (hs : SortedKeys f) {n left L : Nat}
    (hb : ∀ kp ∈ f, kp.1 ≤ n) (hL : n + left < L) (j : Nat) :
    Fmts.toFun (padExt f n left L) j =
      if j = L then Fmts.toFun f n else Fmts.toFun (shiftKeys (f.erase n) left true) j := by
  unfold padExt
  split
  · rename_i p hg
    rw [Fmts.toFun_set (sorted_shiftKeys (Fmts.sorted_erase hs _) _ _)]
    have : Fmts.toFun f n = p := Fmts.toFun_of_mem hs (Fmts.mem_of_get?_eq_some hg)
    rw [this]
  · rename_i hg
    by_cases hj : j = L
    · subst hj
      rw [if_pos rfl, Fmts.toFun_of_not_mem (Fmts.not_mem_of_get?_eq_none hs hg)]
      apply Fmts.toFun_of_not_mem
      intro p hp
      have := shifted_erase_lt hs hb hL _ hp
      simp at this
    · rw [if_neg hj]

theorem active_padExt {x : AStr} (hw : WF x) {left L : Nat} (hL : x.len + left < L) (j : Nat) :
    active (padExt x.fmts x.len left L) j =
      if L ≤ j then [] else if j - left < x.len then act x (j - left) else lastAct x := by
  have hs := hw.sorted
  have hse := Fmts.sorted_erase hs x.len
  rw [active_eq_activeFn _ (sorted_padExt hs _ _ _)]
  have hg' := toFun_padExt hs hw.bound hL
  have hh := Fmts.toFun_erase hs x.len
  -- the shifted table, as a function
  have hsh0 : Fmts.toFun (shiftKeys (x.fmts.erase x.len) left true) 0 =
      Fmts.toFun (x.fmts.erase x.len) 0 := by
    rw [toFun_shiftKeys_true hse, if_pos rfl]
  have hsh1 : ∀ k, 0 < k → k ≤ left →
      Fmts.toFun (shiftKeys (x.fmts.erase x.len) left true) k = {} := by
    intro k h1 h2
    rw [toFun_shiftKeys_true hse, if_neg (by omega), if_pos h2]
  have hsh2 : ∀ k, 0 < k → Fmts.toFun (shiftKeys (x.fmts.erase x.len) left true) (k + left) =
      Fmts.toFun (x.fmts.erase x.len) k := by
    intro k h1
    rw [toFun_shiftKeys_true hse, if_neg (by omega), if_neg (by omega), Nat.add_sub_cancel]
  have hshb : ∀ k, L ≤ k → Fmts.toFun (shiftKeys (x.fmts.erase x.len) left true) k = {} := by
    intro k hk
    rw [toFun_shiftKeys_true hse, if_neg (by omega), if_neg (by omega), hh, if_neg (by omega)]
    exact hw.toFun_beyond (by omega)
  -- value of the shifted table at any index below the new end
  have hbelow : ∀ i, activeFn (Fmts.toFun (shiftKeys (x.fmts.erase x.len) left true)) i =
      if i - left < x.len then act x (i - left) else lastAct x := by
    intro i
    rw [activeFn_shiftKeep_sub hsh0 hsh1 hsh2 i]
    by_cases hi : i - left < x.len
    · rw [if_pos hi, activeFn_eraseEnd_lt hh hi, act_eq_activeFn hw]
    · rw [if_neg hi]
      exact activeFn_eraseEnd_ge hh (fun k hk => hw.toFun_beyond hk) (by omega)
  by_cases hj : L ≤ j
  · rw [if_pos hj, activeFn_setEnd_ge hg' hshb hj]
    have hp : prevFn (Fmts.toFun (shiftKeys (x.fmts.erase x.len) left true)) L = lastAct x := by
      cases hLe : L with
      | zero => omega
      | succ L' =>
        show activeFn _ L' = _
        rw [hbelow L', if_neg (by omega)]
    rw [hp]
    exact hw.step_last
  · rw [if_neg hj, activeFn_setEnd_lt hg' (by omega)]
    exact hbelow j

theorem wf_padExt {x y : AStr} (hw : WF x) {left L : Nat} (hL : x.len + left < L)
    (hl : y.len = L) (hf : y.fmts = padExt x.fmts x.len left L) : WF y where
  sorted := by rw [hf]; exact sorted_padExt hw.sorted _ _ _
  bound := by
    intro kp hkp
    rw [hf] at hkp
    rcases mem_padExt hkp with ⟨h1, _⟩ | h
    · omega
    · have := shifted_erase_lt hw.sorted hw.bound hL kp h
      omega
  noAddEnd := by
    intro kp hkp he
    rw [hf] at hkp
    rcases mem_padExt hkp with ⟨_, hm⟩ | h
    · exact hw.noAddEnd (x.len, kp.2) hm rfl
    · have := shifted_erase_lt hw.sorted hw.bound hL kp h
      omega
  ok := by rw [hf, replayOk_congr (map_snd_padExt hw.sorted hw.bound hL)]; exact hw.ok
  nodup := by
    intro i
    rw [hf, active_padExt hw hL]
    split
    · simp
    · split
      · exact hw.nodup _
      · exact lastAct_nodup hw
  closed := by
    rw [hf, active_padExt hw hL, hl, if_pos (Nat.le_refl _)]
  coherent := by
    rw [hf, settings_congr (map_snd_padExt hw.sorted hw.bound hL)]; exact hw.coherent

/-! ## The model operations in terms of A, B, C -/

set_option linter.unusedSimpArgs false

namespace AStr

theorem len_mk (s : Str) (f : Fmts) : (AStr.mk s f).len = s.length := rfl

/-! ### `ljust` -/

theorem ljust_noop' {x : AStr} {w : Int} (c : Char) (e : Bool) (h : (w - (x.len : Int)).toNat = 0) :
    x.ljust w c e = x := by
  unfold ljust
  simp only [h, Nat.lt_irrefl, gt_iff_lt, if_false]

theorem ljust_s (x : AStr) (w : Int) (c : Char) (e : Bool) :
    (x.ljust w c e).s = x.s ++ List.replicate (w - (x.len : Int)).toNat c := by
  unfold ljust
  by_cases h : (w - (x.len : Int)).toNat > 0
  · simp only [h, if_true]
  · have : (w - (x.len : Int)).toNat = 0 := by omega
    simp only [this, Nat.lt_irrefl, gt_iff_lt, if_false, List.replicate_zero, List.append_nil,
      List.nil_append, Nat.zero_div, Nat.sub_self]

theorem ljust_len (x : AStr) (w : Int) (c : Char) (e : Bool) :
    (x.ljust w c e).len = x.len + (w - (x.len : Int)).toNat := by
  unfold len; rw [ljust_s]; simp [len]

theorem ljust_fmts_plain (x : AStr) (w : Int) (c : Char) : (x.ljust w c false).fmts = x.fmts := by
  unfold ljust
  simp only [Bool.false_eq_true, if_false]
  split <;> rfl

theorem ljust_fmts_ext {x : AStr} (hs : SortedKeys x.fmts) {w : Int} (c : Char)
    (h : 0 < (w - (x.len : Int)).toNat) :
    (x.ljust w c true).fmts = padExt x.fmts x.len 0 (x.len + (w - (x.len : Int)).toNat) := by
  unfold ljust padExt
  simp only [gt_iff_lt, h, if_true, shiftKeys_zero]
  cases hg : x.fmts.get? x.len with
  | none => simp only; exact (Fmts.erase_of_get?_none hs hg).symm
  | some p => rfl

theorem act_ljust_plain (x : AStr) (w : Int) (c : Char) (j : Nat) :
    act (x.ljust w c false) j = act x j := by
  unfold act; rw [ljust_fmts_plain]

theorem act_ljust_ext {x : AStr} (hw : WF x) {w : Int} (c : Char)
    (h : 0 < (w - (x.len : Int)).toNat) (j : Nat) :
    act (x.ljust w c true) j =
      if x.len + (w - (x.len : Int)).toNat ≤ j then [] else if j < x.len then act x j else lastAct x := by
  unfold act
  rw [ljust_fmts_ext hw.sorted c h, active_padExt hw (by omega)]
  rfl

theorem ljust_wf' {x : AStr} (hw : WF x) (w : Int) (c : Char) (e : Bool) : WF (x.ljust w c e) := by
  by_cases h : 0 < (w - (x.len : Int)).toNat
  · cases e with
    | true => exact wf_padExt hw (by omega) (ljust_len x w c true) (ljust_fmts_ext hw.sorted c h)
    | false =>
      exact wf_shift hw 0 (w - (x.len : Int)).toNat (by rw [ljust_len]; omega)
        (by rw [ljust_fmts_plain, shiftKeys_zero])
  · rw [ljust_noop' c e (by omega)]; exact hw

/-! ### `rjust` -/

theorem rjust_noop' {x : AStr} {w : Int} (c : Char) (e : Bool) (h : (w - (x.len : Int)).toNat = 0) :
    x.rjust w c e = x := by
  unfold rjust
  simp only [h, Nat.lt_irrefl, gt_iff_lt, if_false]

theorem rjust_s (x : AStr) (w : Int) (c : Char) (e : Bool) :
    (x.rjust w c e).s = List.replicate (w - (x.len : Int)).toNat c ++ x.s := by
  unfold rjust
  by_cases h : (w - (x.len : Int)).toNat > 0
  · simp only [h, if_true]
  · have : (w - (x.len : Int)).toNat = 0 := by omega
    simp only [this, Nat.lt_irrefl, gt_iff_lt, if_false, List.replicate_zero, List.append_nil,
      List.nil_append, Nat.zero_div, Nat.sub_self]

theorem rjust_len (x : AStr) (w : Int) (c : Char) (e : Bool) :
    (x.rjust w c e).len = x.len + (w - (x.len : Int)).toNat := by
  unfold len; rw [rjust_s]; simp [len]; omega

theorem rjust_fmts (x : AStr) (w : Int) (c : Char) (e : Bool) :
    (x.rjust w c e).fmts = shiftKeys x.fmts (w - (x.len : Int)).toNat e := by
  unfold rjust
  by_cases h : (w - (x.len : Int)).toNat > 0
  · simp only [h, if_true, Bool.false_eq_true, if_false]
  · have : (w - (x.len : Int)).toNat = 0 := by omega
    simp only [this, Nat.lt_irrefl, gt_iff_lt, if_false, shiftKeys_zero, Nat.zero_div]

theorem act_rjust_ext {x : AStr} (hw : WF x) (w : Int) (c : Char) (j : Nat) :
    act (x.rjust w c true) j = act x (j - (w - (x.len : Int)).toNat) := by
  unfold act; rw [rjust_fmts, active_shiftKeep hw.sorted]

theorem act_rjust_plain {x : AStr} (hw : WF x) (w : Int) (c : Char) (j : Nat) :
    act (x.rjust w c false) j =
      if j < (w - (x.len : Int)).toNat then [] else act x (j - (w - (x.len : Int)).toNat) := by
  unfold act; rw [rjust_fmts, active_shift hw.sorted]

theorem rjust_wf' {x : AStr} (hw : WF x) (w : Int) (c : Char) (e : Bool) : WF (x.rjust w c e) := by
  cases e with
  | true => exact wf_shiftKeep hw _ (rjust_len x w c true) (rjust_fmts x w c true)
  | false => exact wf_shift hw _ 0 (rjust_len x w c false) (rjust_fmts x w c false)

/-! ### `center` -/

theorem center_noop' {x : AStr} {w : Int} (c : Char) (e : Bool) (h : (w - (x.len : Int)).toNat = 0) :
    x.center w c e = x := by
  unfold center
  simp only [h, Nat.lt_irrefl, gt_iff_lt, if_false]

theorem center_s (x : AStr) (w : Int) (c : Char) (e : Bool) :
    (x.center w c e).s = List.replicate ((w - (x.len : Int)).toNat / 2) c ++ x.s ++
      List.replicate ((w - (x.len : Int)).toNat - (w - (x.len : Int)).toNat / 2) c := by
  unfold center
  by_cases h : (w - (x.len : Int)).toNat > 0
  · simp only [h, if_true]
  · have : (w - (x.len : Int)).toNat = 0 := by omega
    simp only [this, Nat.lt_irrefl, gt_iff_lt, if_false, List.replicate_zero, List.append_nil,
      List.nil_append, Nat.zero_div, Nat.sub_self]

theorem center_len (x : AStr) (w : Int) (c : Char) (e : Bool) :
    (x.center w c e).len = x.len + (w - (x.len : Int)).toNat := by
  unfold len; rw [center_s]; simp [len]; omega

theorem center_fmts_plain (x : AStr) (w : Int) (c : Char) :
    (x.center w c false).fmts = shiftKeys x.fmts ((w - (x.len : Int)).toNat / 2) false := by
  unfold center
  by_cases h : (w - (x.len : Int)).toNat > 0
  · simp only [h, if_true, Bool.false_eq_true, if_false]
  · have : (w - (x.len : Int)).toNat = 0 := by omega
    simp only [this, Nat.lt_irrefl, gt_iff_lt, if_false, shiftKeys_zero, Nat.zero_div]

theorem center_fmts_ext (x : AStr) {w : Int} (c : Char) (h : 0 < (w - (x.len : Int)).toNat) :
    (x.center w c true).fmts =
      padExt x.fmts x.len ((w - (x.len : Int)).toNat / 2) (x.len + (w - (x.len : Int)).toNat) := by
  unfold center padExt
  simp only [gt_iff_lt, h, if_true]
  have hl : (List.replicate ((w - (x.len : Int)).toNat / 2) c ++ x.s ++
      List.replicate ((w - (x.len : Int)).toNat - (w - (x.len : Int)).toNat / 2) c).length =
      x.len + (w - (x.len : Int)).toNat := by
    simp [len]; omega
  rw [hl]
  cases hg : x.fmts.get? x.len <;> rfl

theorem act_center_plain {x : AStr} (hw : WF x) (w : Int) (c : Char) (j : Nat) :
    act (x.center w c false) j =
      if j < (w - (x.len : Int)).toNat / 2 then [] else act x (j - (w - (x.len : Int)).toNat / 2) := by
  unfold act; rw [center_fmts_plain, active_shift hw.sorted]

theorem act_center_ext {x : AStr} (hw : WF x) {w : Int} (c : Char)
    (h : 0 < (w - (x.len : Int)).toNat) (j : Nat) :
    act (x.center w c true) j =
      if x.len + (w - (x.len : Int)).toNat ≤ j then []
      else if j - (w - (x.len : Int)).toNat / 2 < x.len then act x (j - (w - (x.len : Int)).toNat / 2)
      else lastAct x := by
  unfold act
  rw [center_fmts_ext x c h, active_padExt hw (by omega)]
  rfl

theorem center_wf' {x : AStr} (hw : WF x) (w : Int) (c : Char) (e : Bool) : WF (x.center w c e) := by
  by_cases h : 0 < (w - (x.len : Int)).toNat
  · cases e with
    | true => exact wf_padExt hw (by omega) (center_len x w c true) (center_fmts_ext x c h)
    | false =>
      exact wf_shift hw _ ((w - (x.len : Int)).toNat - (w - (x.len : Int)).toNat / 2)
        (by rw [center_len]; omega) (center_fmts_plain x w c)
  · rw [center_noop' c e (by omega)]; exact hw

/-! ### `assign_str` with a text that is not shorter -/

theorem assignStr_s (x : AStr) (t : Str) : (x.assignStr t).s = t := by
  unfold assignStr
  simp only
  split
  · split <;> rfl
  · split <;> rfl

theorem assignStr_fmts_longer {x : AStr} (hs : SortedKeys x.fmts) {t : Str} (h : x.len < t.length) :
    (x.assignStr t).fmts = padExt x.fmts x.len 0 t.length := by
  unfold assignStr padExt
  simp only [gt_iff_lt, h, if_true, shiftKeys_zero]
  cases hg : x.fmts.get? x.len with
  | none => simp only; exact (Fmts.erase_of_get?_none hs hg).symm
  | some p => rfl

theorem assignStr_fmts_same {x : AStr} {t : Str} (h : x.len = t.length) :
    (x.assignStr t).fmts = x.fmts := by
  unfold assignStr
  simp [h]

end AStr
