import AnsiProofs.Lemmas.Basic
/-
  AnsiProofs.Lemmas.Pad — helper lemmas for property C12 (`ljust`, `rjust`, `center`, `zfill`,
  `assign_str`, the `[fill][sign][align][width]` part of a format spec).
  Everything lives in `namespace PadL` (so `Fmts.foo` below is `PadL.Fmts.foo`).

  * sorted association lists: `Fmts.erase` as a filter, `toFun_erase`, `sorted_erase`,
    `shiftKeys` (`toFun_shiftKeys_*`, `sorted_shiftKeys`), the structural form of
    "move the end point" (`Fmts.set_last`, `Fmts.erase_last`)
  * things that only depend on the sequence of points (`replayOk_congr`, `settings_congr`)
  * the function representation: `prevFn`, `activeFn_congr`, `activeFn_const`, shifts,
    erasing / setting the end point
  * the three table operations behind padding — A `padExt` (end point out, shift all keys but 0,
    end point to the new end), B `shiftKeys _ _ true`, C `shiftKeys _ _ false` — each with the total
    description of `active` afterwards (`active_padExt`, `active_shiftKeep`, `active_shift`) and
    `WF` preservation (`wf_padExt`, `wf_shiftKeep`, `wf_shift`)
  * `namespace AStr`: `ljust`/`rjust`/`center`/`assignStr` in terms of A, B, C
  * `namespace Rx`: the hand-rolled regex matcher on the three justification patterns and on the
    spec splitter; the grammar (`parse`, `Mem`, `stripNl`) and `applyStringFormat_eq`,
    `toStr_grammar`
-/

namespace PadL

/-! ## Sorted association lists: membership, `erase`, `shiftKeys` -/

namespace Fmts
open _root_.Fmts

theorem toFun_of_mem {f : Fmts} (h : SortedKeys f) {k : Nat} {p : Point} (hm : (k, p) ∈ f) :
    toFun f k = p := by
  unfold toFun Fmts.getD
  rw [get?_eq_some_of_mem h hm]; rfl

theorem toFun_of_not_mem {f : Fmts} {k : Nat} (hm : ∀ p, (k, p) ∉ f) : toFun f k = {} := by
  unfold toFun Fmts.getD
  cases hg : f.get? k with
  | none => rfl
  | some p => exact absurd (mem_of_get?_eq_some hg) (hm p)

theorem get?_eq_none_of_not_mem {f : Fmts} {k : Nat} (hm : ∀ p, (k, p) ∉ f) : f.get? k = none := by
  cases hg : f.get? k with
  | none => rfl
  | some p => exact absurd (mem_of_get?_eq_some hg) (hm p)

theorem not_mem_of_get?_eq_none {f : Fmts} (h : SortedKeys f) {k : Nat} (hg : f.get? k = none) :
    ∀ p, (k, p) ∉ f := by
  intro p hm
  rw [get?_eq_some_of_mem h hm] at hg
  cases hg

/-- a key occurs at most once in a sorted table -/
theorem mem_unique {f : Fmts} (h : SortedKeys f) {k : Nat} {p q : Point} (hp : (k, p) ∈ f)
    (hq : (k, q) ∈ f) : p = q := by
  have h1 := get?_eq_some_of_mem h hp
  have h2 := get?_eq_some_of_mem h hq
  rw [h1] at h2
  exact Option.some.inj h2

/-- on a sorted table `del d[k]` is a filter -/
theorem erase_eq_filter {f : Fmts} (h : SortedKeys f) (k : Nat) :
    f.erase k = f.filter (fun kp => kp.1 ≠ k) := by
  induction f with
  | nil => rfl
  | cons kp rest ih =>
    obtain ⟨k', p'⟩ := kp
    have hs := sorted_tail h
    have hlt := sorted_head_lt h
    unfold Fmts.erase
    by_cases h1 : k' = k
    · subst h1
      simp only [if_true, List.filter_cons]
      simp only [ne_eq, not_true_eq_false, decide_false, Bool.false_eq_true, if_false]
      symm
      apply List.filter_eq_self.mpr
      intro x hx
      have := hlt x hx
      simp at this ⊢
      omega
    · simp only [h1, if_false, List.filter_cons, ne_eq, not_false_eq_true, decide_true, if_true]
      rw [ih hs]

theorem mem_erase {f : Fmts} (h : SortedKeys f) (k : Nat) (x : Nat × Point) :
    x ∈ f.erase k ↔ x ∈ f ∧ x.1 ≠ k := by
  rw [erase_eq_filter h]
  simp

theorem sorted_erase {f : Fmts} (h : SortedKeys f) (k : Nat) : SortedKeys (f.erase k) := by
  rw [erase_eq_filter h]
  exact List.Pairwise.filter _ h

theorem toFun_erase {f : Fmts} (h : SortedKeys f) (k j : Nat) :
    toFun (f.erase k) j = if j = k then {} else toFun f j := by
  by_cases hj : j = k
  · subst hj
    simp only [if_true]
    apply toFun_of_not_mem
    intro p hp
    exact ((mem_erase h j _).mp hp).2 rfl
  · simp only [hj, if_false]
    cases hg : f.get? j with
    | none =>
      have hn := not_mem_of_get?_eq_none h hg
      rw [toFun_of_not_mem hn, toFun_of_not_mem]
      intro p hp
      exact hn p ((mem_erase h k _).mp hp).1
    | some p =>
      have hm := mem_of_get?_eq_some hg
      rw [toFun_of_mem h hm, toFun_of_mem (sorted_erase h k)]
      exact (mem_erase h k _).mpr ⟨hm, hj⟩

/-- erasing an absent key changes nothing -/
theorem erase_of_get?_none {f : Fmts} (h : SortedKeys f) {k : Nat} (hg : f.get? k = none) :
    f.erase k = f := by
  rw [erase_eq_filter h]
  apply List.filter_eq_self.mpr
  intro x hx
  simp only [ne_eq, decide_not, Bool.not_eq_eq_eq_not, Bool.not_true, decide_eq_false_iff_not]
  intro hk
  exact not_mem_of_get?_eq_none h hg x.2 (by rw [← hk]; exact hx)

end Fmts

/-! ### `shiftKeys` -/

theorem shiftKeys_false (f : Fmts) (num : Nat) :
    shiftKeys f num false = f.map (fun kp => (kp.1 + num, kp.2)) := by
  simp [shiftKeys]

theorem mem_shiftKeys_false {f : Fmts} {num : Nat} {x : Nat × Point} :
    x ∈ shiftKeys f num false ↔ ∃ k, (k, x.2) ∈ f ∧ x.1 = k + num := by
  rw [shiftKeys_false]
  simp only [List.mem_map]
  constructor
  · rintro ⟨⟨k, p⟩, hm, rfl⟩
    exact ⟨k, hm, rfl⟩
  · rintro ⟨k, hm, hk⟩
    refine ⟨(k, x.2), hm, ?_⟩
    obtain ⟨a, b⟩ := x
    simp at hk ⊢
    omega

theorem mem_shiftKeys_true {f : Fmts} {num : Nat} {x : Nat × Point} :
    x ∈ shiftKeys f num true ↔ (x.1 = 0 ∧ x ∈ f) ∨ ∃ k, k ≠ 0 ∧ (k, x.2) ∈ f ∧ x.1 = k + num := by
  simp only [shiftKeys, true_and, List.mem_map]
  constructor
  · rintro ⟨⟨k, p⟩, hm, rfl⟩
    by_cases hk : k = 0
    · subst hk
      exact Or.inl ⟨rfl, hm⟩
    · simp only [hk, if_false]
      exact Or.inr ⟨k, hk, hm, rfl⟩
  · rintro (⟨h0, hm⟩ | ⟨k, hk, hm, hx⟩)
    · refine ⟨x, hm, ?_⟩
      simp [h0]
    · refine ⟨(k, x.2), hm, ?_⟩
      obtain ⟨a, b⟩ := x
      simp at hx ⊢
      simp [hk, hx]

theorem sorted_shiftKeys {f : Fmts} (h : SortedKeys f) (num : Nat) (keep : Bool) :
    SortedKeys (shiftKeys f num keep) := by
  unfold shiftKeys SortedKeys
  rw [List.pairwise_map]
  refine List.Pairwise.imp ?_ h
  intro a b hab
  cases keep with
  | false => simp; omega
  | true =>
    simp only [true_and]
    by_cases ha : a.1 = 0 <;> by_cases hb : b.1 = 0 <;> simp only [ha, hb, if_true, if_false] <;>
      omega

theorem map_snd_shiftKeys (f : Fmts) (num : Nat) (keep : Bool) :
    (shiftKeys f num keep).map (·.2) = f.map (·.2) := by
  unfold shiftKeys
  rw [List.map_map]
  apply List.map_congr_left
  intro a _
  simp only [Function.comp]
  split <;> rfl

theorem toFun_shiftKeys_false {f : Fmts} (h : SortedKeys f) (num j : Nat) :
    Fmts.toFun (shiftKeys f num false) j = if j < num then {} else Fmts.toFun f (j - num) := by
  have hs := sorted_shiftKeys h num false
  by_cases hj : j < num
  · simp only [hj, if_true]
    apply Fmts.toFun_of_not_mem
    intro p hp
    obtain ⟨k, _, hk⟩ := mem_shiftKeys_false.mp hp
    simp at hk; omega
  · simp only [hj, if_false]
    cases hg : f.get? (j - num) with
    | none =>
      have hn := Fmts.not_mem_of_get?_eq_none h hg
      rw [Fmts.toFun_of_not_mem hn, Fmts.toFun_of_not_mem]
      intro p hp
      obtain ⟨k, hm, hk⟩ := mem_shiftKeys_false.mp hp
      simp at hk hm
      have : k = j - num := by omega
      subst this
      exact hn p hm
    | some p =>
      have hm := Fmts.mem_of_get?_eq_some hg
      rw [Fmts.toFun_of_mem h hm, Fmts.toFun_of_mem hs]
      exact mem_shiftKeys_false.mpr ⟨j - num, hm, by simp; omega⟩

theorem toFun_shiftKeys_true {f : Fmts} (h : SortedKeys f) (num j : Nat) :
    Fmts.toFun (shiftKeys f num true) j =
      if j = 0 then Fmts.toFun f 0 else if j ≤ num then {} else Fmts.toFun f (j - num) := by
  have hs := sorted_shiftKeys h num true
  by_cases hj0 : j = 0
  · subst hj0
    simp only [if_true]
    cases hg : f.get? 0 with
    | none =>
      have hn := Fmts.not_mem_of_get?_eq_none h hg
      rw [Fmts.toFun_of_not_mem hn, Fmts.toFun_of_not_mem]
      intro p hp
      rcases mem_shiftKeys_true.mp hp with ⟨_, hm⟩ | ⟨k, hk, _, hx⟩
      · exact hn p hm
      · simp at hx; omega
    | some p =>
      have hm := Fmts.mem_of_get?_eq_some hg
      rw [Fmts.toFun_of_mem h hm, Fmts.toFun_of_mem hs]
      exact mem_shiftKeys_true.mpr (Or.inl ⟨rfl, hm⟩)
  · simp only [hj0, if_false]
    by_cases hj : j ≤ num
    · simp only [hj, if_true]
      apply Fmts.toFun_of_not_mem
      intro p hp
      rcases mem_shiftKeys_true.mp hp with ⟨h0, _⟩ | ⟨k, hk, _, hx⟩
      · exact hj0 h0
      · simp at hx; omega
    · simp only [hj, if_false]
      cases hg : f.get? (j - num) with
      | none =>
        have hn := Fmts.not_mem_of_get?_eq_none h hg
        rw [Fmts.toFun_of_not_mem hn, Fmts.toFun_of_not_mem]
        intro p hp
        rcases mem_shiftKeys_true.mp hp with ⟨h0, _⟩ | ⟨k, hk, hm, hx⟩
        · exact hj0 h0
        · simp at hx hm
          have : k = j - num := by omega
          subst this
          exact hn p hm
      | some p =>
        have hm := Fmts.mem_of_get?_eq_some hg
        rw [Fmts.toFun_of_mem h hm, Fmts.toFun_of_mem hs]
        exact mem_shiftKeys_true.mpr (Or.inr ⟨j - num, by omega, hm, by simp; omega⟩)

theorem shiftKeys_zero (f : Fmts) (keep : Bool) : shiftKeys f 0 keep = f := by
  unfold shiftKeys
  conv => rhs; rw [← List.map_id f]
  apply List.map_congr_left
  intro a _
  split <;> rfl

/-! ### structural form of "move the end point" -/

namespace Fmts
open _root_.Fmts

/-- setting a key above all present keys appends -/
theorem set_last {h : Fmts} {m : Nat} (p : Point) (hlt : ∀ kp ∈ h, kp.1 < m) :
    h.set m p = h ++ [(m, p)] := by
  induction h with
  | nil => rfl
  | cons kp rest ih =>
    obtain ⟨k', p'⟩ := kp
    have h1 : k' < m := hlt (k', p') (by simp)
    have h2 : ¬ k' = m := by omega
    have h3 : ¬ m < k' := by omega
    unfold Fmts.set
    simp only [h2, h3, if_false, List.cons_append]
    rw [ih (fun kp hkp => hlt kp (List.mem_cons_of_mem _ hkp))]

/-- the greatest possible key, when present, is the last entry -/
theorem erase_last {f : Fmts} (h : SortedKeys f) {n : Nat} {p : Point}
    (hb : ∀ kp ∈ f, kp.1 ≤ n) (hm : (n, p) ∈ f) : f = f.erase n ++ [(n, p)] := by
  induction f with
  | nil => cases hm
  | cons kp rest ih =>
    obtain ⟨k', p'⟩ := kp
    have hs := sorted_tail h
    have hlt := sorted_head_lt h
    unfold Fmts.erase
    by_cases h1 : k' = n
    · subst h1
      simp only [if_true]
      have hr : rest = [] := by
        cases rest with
        | nil => rfl
        | cons y ys =>
          have a := hlt y (by simp)
          have b := hb y (by simp)
          simp at a; omega
      subst hr
      simp at hm
      simp [hm]
    · simp only [h1, if_false, List.cons_append]
      have hm' : (n, p) ∈ rest := by
        rcases List.mem_cons.mp hm with e | e
        · cases e; exact absurd rfl h1
        · exact e
      rw [← ih hs (fun kp hkp => hb kp (List.mem_cons_of_mem _ hkp)) hm']

end Fmts

/-! ## Things that depend only on the sequence of points -/

theorem replayOkFrom_congr {f g : Fmts} (h : f.map (·.2) = g.map (·.2)) (cur : List Setting) :
    replayOkFrom cur f = replayOkFrom cur g := by
  induction f generalizing g cur with
  | nil =>
    cases g with
    | nil => rfl
    | cons b g => simp at h
  | cons a f ih =>
    cases g with
    | nil => simp at h
    | cons b g =>
      obtain ⟨ka, pa⟩ := a
      obtain ⟨kb, pb⟩ := b
      simp only [List.map_cons, List.cons.injEq] at h
      obtain ⟨h1, h2⟩ := h
      subst h1
      simp only [replayOkFrom]
      rw [ih h2]

theorem replayOk_congr {f g : Fmts} (h : f.map (·.2) = g.map (·.2)) : replayOk f = replayOk g :=
  replayOkFrom_congr h []

theorem settings_eq_map_snd (f : Fmts) :
    Fmts.settings f = (f.map (·.2)).flatMap (fun p => p.add ++ p.rem) := by
  unfold Fmts.settings
  rw [List.flatMap_map]

theorem settings_congr {f g : Fmts} (h : f.map (·.2) = g.map (·.2)) :
    Fmts.settings f = Fmts.settings g := by
  rw [settings_eq_map_snd, settings_eq_map_snd, h]

/-! ## The function representation -/

/-- the settings active just before index `n` (nothing before index 0) -/
def prevFn (g : Nat → Point) : Nat → List Setting
  | 0 => []
  | n + 1 => activeFn g n

theorem activeFn_eq_step_prev (g : Nat → Point) (n : Nat) :
    activeFn g n = stepPoint (prevFn g n) (g n) := by
  cases n with
  | zero => exact activeFn_zero g
  | succ n => exact activeFn_succ g n

theorem activeFn_congr {g g' : Nat → Point} {j : Nat} (h : ∀ k, k ≤ j → g k = g' k) :
    activeFn g j = activeFn g' j :=
  runFrom_congr (j + 1) [] (fun k _ hk => h k (by omega))

theorem prevFn_congr {g g' : Nat → Point} {n : Nat} (h : ∀ k, k < n → g k = g' k) :
    prevFn g n = prevFn g' n := by
  cases n with
  | zero => rfl
  | succ n => exact activeFn_congr (fun k hk => h k (by omega))

/-- no point in `n..n+d`: the active list is what it was before `n` -/
theorem activeFn_const_prev {g : Nat → Point} {n : Nat} :
    ∀ d, (∀ k, n ≤ k → k ≤ n + d → g k = {}) → activeFn g (n + d) = prevFn g n
  | 0, h => by
    rw [Nat.add_zero, activeFn_eq_step_prev, h n (Nat.le_refl _) (by omega), stepPoint_empty]
  | d + 1, h => by
    rw [← Nat.add_assoc, activeFn_succ, h (n + d + 1) (by omega) (by omega), stepPoint_empty]
    exact activeFn_const_prev d (fun k h1 h2 => h k h1 (by omega))

theorem activeFn_const_prev' {g : Nat → Point} {n j : Nat} (hnj : n ≤ j)
    (h : ∀ k, n ≤ k → k ≤ j → g k = {}) : activeFn g j = prevFn g n := by
  have := activeFn_const_prev (g := g) (n := n) (j - n) (fun k h1 h2 => h k h1 (by omega))
  rwa [show n + (j - n) = j by omega] at this

/-- no point in `i+1..j`: the active list is constant -/
theorem activeFn_const {g : Nat → Point} {i j : Nat} (hij : i ≤ j)
    (h : ∀ k, i < k → k ≤ j → g k = {}) : activeFn g j = activeFn g i := by
  by_cases e : i = j
  · subst e; rfl
  · exact activeFn_const_prev' (n := i + 1) (by omega) (fun k h1 h2 => h k (by omega) h2)

/-- shifting every key by `d` -/
theorem activeFn_shift_lt {g' : Nat → Point} {d j : Nat} (h0 : ∀ k, k < d → g' k = {}) (hj : j < d) :
    activeFn g' j = [] :=
  activeFn_const_prev' (n := 0) (Nat.zero_le _) (fun k _ hk => h0 k (by omega))

theorem activeFn_shift {g g' : Nat → Point} {d : Nat} (h0 : ∀ k, k < d → g' k = {})
    (h1 : ∀ k, g' (k + d) = g k) (j : Nat) : activeFn g' (j + d) = activeFn g j := by
  induction j with
  | zero =>
    rw [activeFn_eq_step_prev, h1 0, activeFn_zero]
    congr 1
    rw [Nat.zero_add]
    cases d with
    | zero => rfl
    | succ d => exact activeFn_shift_lt h0 (Nat.lt_succ_self d)
  | succ j ih =>
    rw [show j + 1 + d = (j + d) + 1 by omega, activeFn_succ, ih, activeFn_succ]
    rw [show j + d + 1 = (j + 1) + d by omega, h1]

/-- shifting every key but 0 by `d` -/
theorem activeFn_shiftKeep_le {g g' : Nat → Point} {d j : Nat} (h0 : g' 0 = g 0)
    (h1 : ∀ k, 0 < k → k ≤ d → g' k = {}) (hj : j ≤ d) : activeFn g' j = activeFn g 0 := by
  rw [activeFn_const (i := 0) (Nat.zero_le _) (fun k a b => h1 k a (by omega))]
  exact activeFn_congr (fun k hk => by rw [show k = 0 by omega, h0])

theorem activeFn_shiftKeep {g g' : Nat → Point} {d : Nat} (h0 : g' 0 = g 0)
    (h1 : ∀ k, 0 < k → k ≤ d → g' k = {}) (h2 : ∀ k, 0 < k → g' (k + d) = g k) (j : Nat) :
    activeFn g' (j + d) = activeFn g j := by
  induction j with
  | zero => rw [Nat.zero_add]; exact activeFn_shiftKeep_le h0 h1 (Nat.le_refl _)
  | succ j ih =>
    rw [show j + 1 + d = (j + d) + 1 by omega, activeFn_succ, ih, activeFn_succ]
    rw [show j + d + 1 = (j + 1) + d by omega, h2 _ (by omega)]

/-- deleting the point at `n` when nothing lies beyond it -/
theorem activeFn_eraseEnd_lt {g h : Nat → Point} {n j : Nat}
    (hh : ∀ k, h k = if k = n then {} else g k) (hj : j < n) : activeFn h j = activeFn g j :=
  activeFn_congr (fun k hk => by rw [hh, if_neg (by omega)])

theorem activeFn_eraseEnd_ge {g h : Nat → Point} {n j : Nat}
    (hh : ∀ k, h k = if k = n then {} else g k) (hb : ∀ k, n < k → g k = {}) (hj : n ≤ j) :
    activeFn h j = prevFn g n := by
  rw [activeFn_const_prev' hj]
  · exact prevFn_congr (fun k hk => by rw [hh, if_neg (by omega)])
  · intro k h1 _
    rw [hh]
    by_cases e : k = n
    · simp [e]
    · simp only [e, if_false]; exact hb k (by omega)

/-- putting a point at `M` when nothing lies at or beyond it -/
theorem activeFn_setEnd_lt {q g' : Nat → Point} {M j : Nat} {p : Point}
    (hg : ∀ k, g' k = if k = M then p else q k) (hj : j < M) : activeFn g' j = activeFn q j :=
  activeFn_congr (fun k hk => by rw [hg, if_neg (by omega)])

theorem activeFn_setEnd_ge {q g' : Nat → Point} {M j : Nat} {p : Point}
    (hg : ∀ k, g' k = if k = M then p else q k) (hb : ∀ k, M ≤ k → q k = {}) (hj : M ≤ j) :
    activeFn g' j = stepPoint (prevFn q M) p := by
  rw [activeFn_const hj (fun k a b => by rw [hg, if_neg (by omega)]; exact hb k (by omega))]
  rw [activeFn_eq_step_prev, hg M, if_pos rfl]
  congr 1
  exact prevFn_congr (fun k hk => by rw [hg, if_neg (by omega)])

theorem activeFn_shiftKeep_sub {g g' : Nat → Point} {d : Nat} (h0 : g' 0 = g 0)
    (h1 : ∀ k, 0 < k → k ≤ d → g' k = {}) (h2 : ∀ k, 0 < k → g' (k + d) = g k) (j : Nat) :
    activeFn g' j = activeFn g (j - d) := by
  by_cases hj : j ≤ d
  · rw [activeFn_shiftKeep_le h0 h1 hj, show j - d = 0 by omega]
  · have := activeFn_shiftKeep h0 h1 h2 (j - d)
    rwa [show j - d + d = j by omega] at this

/-! ## Facts about well-formed values -/

theorem act_eq_activeFn {x : AStr} (hw : WF x) (j : Nat) :
    act x j = activeFn (Fmts.toFun x.fmts) j := active_eq_activeFn _ hw.sorted j

theorem wf_toFun_beyond {x : AStr} (hw : WF x) {k : Nat} (hk : x.len < k) :
    Fmts.toFun x.fmts k = {} := by
  apply Fmts.toFun_of_not_mem
  intro p hp
  have := hw.bound _ hp
  simp at this; omega

/-- positions at or beyond the end report nothing -/
theorem wf_act_ge {x : AStr} (hw : WF x) {j : Nat} (hj : x.len ≤ j) : act x j = [] := by
  rw [act_eq_activeFn hw, activeFn_const hj (fun k a _ => wf_toFun_beyond hw a), ← act_eq_activeFn hw]
  exact hw.closed

/-- what the last character reports (`[]` for the empty text) -/
def lastAct (x : AStr) : List Setting := prevFn (Fmts.toFun x.fmts) x.len

theorem lastAct_pos {x : AStr} (hw : WF x) (h : 0 < x.len) : lastAct x = act x (x.len - 1) := by
  unfold lastAct
  rw [act_eq_activeFn hw]
  cases hn : x.len with
  | zero => omega
  | succ n => rfl

theorem lastAct_zero {x : AStr} (h : x.len = 0) : lastAct x = [] := by
  unfold lastAct; rw [h]; rfl

theorem wf_step_last {x : AStr} (hw : WF x) :
    stepPoint (lastAct x) (Fmts.toFun x.fmts x.len) = [] := by
  unfold lastAct
  rw [← activeFn_eq_step_prev, ← act_eq_activeFn hw]
  exact hw.closed

theorem lastAct_nodup {x : AStr} (hw : WF x) : ((lastAct x).map (·.id)).Nodup := by
  by_cases h : 0 < x.len
  · rw [lastAct_pos hw h]; exact hw.nodup _
  · rw [lastAct_zero (by omega)]; simp

/-- `WF` only looks at the length of the text and the table -/
theorem wf_of_eq {a b : AStr} (hw : WF a) (hl : b.len = a.len) (hf : b.fmts = a.fmts) : WF b where
  sorted := by rw [hf]; exact hw.sorted
  bound := by rw [hf, hl]; exact hw.bound
  noAddEnd := by rw [hf, hl]; exact hw.noAddEnd
  ok := by rw [hf]; exact hw.ok
  nodup := by rw [hf]; exact hw.nodup
  closed := by rw [hf, hl]; exact hw.closed
  coherent := by rw [hf]; exact hw.coherent

/-! ## Operation C: shift every key (`rjust`/`center` without extension; `ljust` is `left = 0`) -/

theorem active_shift {f : Fmts} (hs : SortedKeys f) (left j : Nat) :
    active (shiftKeys f left false) j = if j < left then [] else active f (j - left) := by
  rw [active_eq_activeFn _ (sorted_shiftKeys hs left false)]
  have h0 : ∀ k, k < left → Fmts.toFun (shiftKeys f left false) k = {} := by
    intro k hk; rw [toFun_shiftKeys_false hs, if_pos hk]
  by_cases hj : j < left
  · rw [if_pos hj]; exact activeFn_shift_lt h0 hj
  · rw [if_neg hj, active_eq_activeFn _ hs]
    have := activeFn_shift (g := Fmts.toFun f) h0
      (fun k => by rw [toFun_shiftKeys_false hs, if_neg (by omega), Nat.add_sub_cancel]) (j - left)
    rwa [show j - left + left = j by omega] at this

theorem wf_shift {x y : AStr} (hw : WF x) (left right : Nat) (hl : y.len = x.len + left + right)
    (hf : y.fmts = shiftKeys x.fmts left false) : WF y where
  sorted := by rw [hf]; exact sorted_shiftKeys hw.sorted _ _
  bound := by
    intro kp hkp
    rw [hf] at hkp
    obtain ⟨k, hm, hk⟩ := mem_shiftKeys_false.mp hkp
    have := hw.bound _ hm
    simp at this; omega
  noAddEnd := by
    intro kp hkp he
    rw [hf] at hkp
    obtain ⟨k, hm, hk⟩ := mem_shiftKeys_false.mp hkp
    have hb := hw.bound _ hm
    simp at hb
    exact hw.noAddEnd (k, kp.2) hm (by simp only; omega)
  ok := by rw [hf, replayOk_congr (map_snd_shiftKeys _ _ _)]; exact hw.ok
  nodup := by
    intro i
    rw [hf, active_shift hw.sorted]
    split
    · simp
    · exact hw.nodup _
  closed := by
    rw [hf, active_shift hw.sorted, hl, if_neg (by omega)]
    exact wf_act_ge hw (by omega)
  coherent := by rw [hf, settings_congr (map_snd_shiftKeys _ _ _)]; exact hw.coherent

/-! ## Operation B: shift every key but 0 (`rjust` with extension) -/

theorem active_shiftKeep {f : Fmts} (hs : SortedKeys f) (num j : Nat) :
    active (shiftKeys f num true) j = active f (j - num) := by
  rw [active_eq_activeFn _ (sorted_shiftKeys hs num true), active_eq_activeFn _ hs]
  apply activeFn_shiftKeep_sub
  · rw [toFun_shiftKeys_true hs, if_pos rfl]
  · intro k h1 h2
    rw [toFun_shiftKeys_true hs, if_neg (by omega), if_pos h2]
  · intro k h1
    rw [toFun_shiftKeys_true hs, if_neg (by omega), if_neg (by omega), Nat.add_sub_cancel]

theorem wf_shiftKeep {x y : AStr} (hw : WF x) (num : Nat) (hl : y.len = x.len + num)
    (hf : y.fmts = shiftKeys x.fmts num true) : WF y where
  sorted := by rw [hf]; exact sorted_shiftKeys hw.sorted _ _
  bound := by
    intro kp hkp
    rw [hf] at hkp
    rcases mem_shiftKeys_true.mp hkp with ⟨h0, _⟩ | ⟨k, _, hm, hk⟩
    · omega
    · have := hw.bound _ hm
      simp at this; omega
  noAddEnd := by
    intro kp hkp he
    rw [hf] at hkp
    rcases mem_shiftKeys_true.mp hkp with ⟨h0, hm⟩ | ⟨k, _, hm, hk⟩
    · exact hw.noAddEnd _ hm (by omega)
    · exact hw.noAddEnd (k, kp.2) hm (by simp only; omega)
  ok := by rw [hf, replayOk_congr (map_snd_shiftKeys _ _ _)]; exact hw.ok
  nodup := by
    intro i
    rw [hf, active_shiftKeep hw.sorted]
    exact hw.nodup _
  closed := by
    rw [hf, active_shiftKeep hw.sorted, hl, Nat.add_sub_cancel]
    exact hw.closed
  coherent := by rw [hf, settings_congr (map_snd_shiftKeys _ _ _)]; exact hw.coherent

/-! ## Operation A: take the end point out, shift every key but 0, put the end point at the new end
    (`center` with extension; `ljust` with extension and `assign_str` are `left = 0`) -/

def padExt (f : Fmts) (n left L : Nat) : Fmts :=
  match f.get? n with
  | some p => (shiftKeys (f.erase n) left true).set L p
  | none => shiftKeys (f.erase n) left true

theorem sorted_padExt {f : Fmts} (hs : SortedKeys f) (n left L : Nat) :
    SortedKeys (padExt f n left L) := by
  unfold padExt
  split
  · exact Fmts.sorted_set (sorted_shiftKeys (Fmts.sorted_erase hs _) _ _) _ _
  · exact sorted_shiftKeys (Fmts.sorted_erase hs _) _ _

/-- keys of the shifted table without its end point stay below the new end -/
theorem shifted_erase_lt {f : Fmts} (hs : SortedKeys f) {n left L : Nat}
    (hb : ∀ kp ∈ f, kp.1 ≤ n) (hL : n + left < L) :
    ∀ kp ∈ shiftKeys (f.erase n) left true, kp.1 < L := by
  intro kp hkp
  rcases mem_shiftKeys_true.mp hkp with ⟨h0, _⟩ | ⟨k, _, hm, hk⟩
  · omega
  · have h1 := (Fmts.mem_erase hs n _).mp hm
    have := hb _ h1.1
    simp at this; omega

theorem mem_padExt {f : Fmts} {n left L : Nat} {kp : Nat × Point}
    (hkp : kp ∈ padExt f n left L) :
    (kp.1 = L ∧ (n, kp.2) ∈ f) ∨ kp ∈ shiftKeys (f.erase n) left true := by
  unfold padExt at hkp
  split at hkp
  · rename_i p hg
    rcases Fmts.mem_set hkp with e | e
    · subst e; exact Or.inl ⟨rfl, Fmts.mem_of_get?_eq_some hg⟩
    · exact Or.inr e
  · exact Or.inr hkp

theorem map_snd_padExt {f : Fmts} (hs : SortedKeys f) {n left L : Nat}
    (hb : ∀ kp ∈ f, kp.1 ≤ n) (hL : n + left < L) :
    (padExt f n left L).map (·.2) = f.map (·.2) := by
  unfold padExt
  split
  · rename_i p hg
    have hm := Fmts.mem_of_get?_eq_some hg
    rw [Fmts.set_last p (shifted_erase_lt hs hb hL), List.map_append, map_snd_shiftKeys]
    conv => rhs; rw [Fmts.erase_last hs hb hm]
    rw [List.map_append]
    rfl
  · rename_i hg
    rw [map_snd_shiftKeys, Fmts.erase_of_get?_none hs hg]

theorem toFun_padExt {f : Fmts} (hs : SortedKeys f) {n left L : Nat}
    (hb : ∀ kp ∈ f, kp.1 ≤ n) (hL : n + left < L) (j : Nat) :
    Fmts.toFun (padExt f n left L) j =
      if j = L then Fmts.toFun f n else Fmts.toFun (shiftKeys (f.erase n) left true) j := by
  unfold padExt
  split
  · rename_i p hg
    rw [Fmts.toFun_set (sorted_shiftKeys (Fmts.sorted_erase hs _) _ _)]
    have : Fmts.toFun f n = p := Fmts.toFun_of_mem hs (Fmts.mem_of_get?_eq_some hg)
    rw [this]
  · rename_i hg
    by_cases hj : j = L
    · subst hj
      rw [if_pos rfl, Fmts.toFun_of_not_mem (Fmts.not_mem_of_get?_eq_none hs hg)]
      apply Fmts.toFun_of_not_mem
      intro p hp
      have := shifted_erase_lt hs hb hL _ hp
      simp at this
    · rw [if_neg hj]

theorem active_padExt {x : AStr} (hw : WF x) {left L : Nat} (hL : x.len + left < L) (j : Nat) :
    active (padExt x.fmts x.len left L) j =
      if L ≤ j then [] else if j - left < x.len then act x (j - left) else lastAct x := by
  have hs := hw.sorted
  have hse := Fmts.sorted_erase hs x.len
  rw [active_eq_activeFn _ (sorted_padExt hs _ _ _)]
  have hg' := toFun_padExt hs hw.bound hL
  have hh := Fmts.toFun_erase hs x.len
  -- the shifted table, as a function
  have hsh0 : Fmts.toFun (shiftKeys (x.fmts.erase x.len) left true) 0 =
      Fmts.toFun (x.fmts.erase x.len) 0 := by
    rw [toFun_shiftKeys_true hse, if_pos rfl]
  have hsh1 : ∀ k, 0 < k → k ≤ left →
      Fmts.toFun (shiftKeys (x.fmts.erase x.len) left true) k = {} := by
    intro k h1 h2
    rw [toFun_shiftKeys_true hse, if_neg (by omega), if_pos h2]
  have hsh2 : ∀ k, 0 < k → Fmts.toFun (shiftKeys (x.fmts.erase x.len) left true) (k + left) =
      Fmts.toFun (x.fmts.erase x.len) k := by
    intro k h1
    rw [toFun_shiftKeys_true hse, if_neg (by omega), if_neg (by omega), Nat.add_sub_cancel]
  have hshb : ∀ k, L ≤ k → Fmts.toFun (shiftKeys (x.fmts.erase x.len) left true) k = {} := by
    intro k hk
    rw [toFun_shiftKeys_true hse, if_neg (by omega), if_neg (by omega), hh, if_neg (by omega)]
    exact wf_toFun_beyond hw (by omega)
  -- value of the shifted table at any index below the new end
  have hbelow : ∀ i, activeFn (Fmts.toFun (shiftKeys (x.fmts.erase x.len) left true)) i =
      if i - left < x.len then act x (i - left) else lastAct x := by
    intro i
    rw [activeFn_shiftKeep_sub hsh0 hsh1 hsh2 i]
    by_cases hi : i - left < x.len
    · rw [if_pos hi, activeFn_eraseEnd_lt hh hi, act_eq_activeFn hw]
    · rw [if_neg hi]
      exact activeFn_eraseEnd_ge hh (fun k hk => wf_toFun_beyond hw hk) (by omega)
  by_cases hj : L ≤ j
  · rw [if_pos hj, activeFn_setEnd_ge hg' hshb hj]
    have hp : prevFn (Fmts.toFun (shiftKeys (x.fmts.erase x.len) left true)) L = lastAct x := by
      cases hLe : L with
      | zero => omega
      | succ L' =>
        show activeFn _ L' = _
        rw [hbelow L', if_neg (by omega)]
    rw [hp]
    exact wf_step_last hw
  · rw [if_neg hj, activeFn_setEnd_lt hg' (by omega)]
    exact hbelow j

theorem wf_padExt {x y : AStr} (hw : WF x) {left L : Nat} (hL : x.len + left < L)
    (hl : y.len = L) (hf : y.fmts = padExt x.fmts x.len left L) : WF y where
  sorted := by rw [hf]; exact sorted_padExt hw.sorted _ _ _
  bound := by
    intro kp hkp
    rw [hf] at hkp
    rcases mem_padExt hkp with ⟨h1, _⟩ | h
    · omega
    · have := shifted_erase_lt hw.sorted hw.bound hL kp h
      omega
  noAddEnd := by
    intro kp hkp he
    rw [hf] at hkp
    rcases mem_padExt hkp with ⟨_, hm⟩ | h
    · exact hw.noAddEnd (x.len, kp.2) hm rfl
    · have := shifted_erase_lt hw.sorted hw.bound hL kp h
      omega
  ok := by rw [hf, replayOk_congr (map_snd_padExt hw.sorted hw.bound hL)]; exact hw.ok
  nodup := by
    intro i
    rw [hf, active_padExt hw hL]
    split
    · simp
    · split
      · exact hw.nodup _
      · exact lastAct_nodup hw
  closed := by
    rw [hf, active_padExt hw hL, hl, if_pos (Nat.le_refl _)]
  coherent := by
    rw [hf, settings_congr (map_snd_padExt hw.sorted hw.bound hL)]; exact hw.coherent

/-! ## The model operations in terms of A, B, C -/

set_option linter.unusedSimpArgs false

namespace AStr
open _root_.AStr

theorem len_mk (s : Str) (f : Fmts) : (AStr.mk s f).len = s.length := rfl

/-! ### `ljust` -/

theorem ljust_noop' {x : AStr} {w : Int} (c : Char) (e : Bool) (h : (w - (x.len : Int)).toNat = 0) :
    x.ljust w c e = x := by
  unfold ljust
  simp only [h, Nat.lt_irrefl, gt_iff_lt, if_false]

theorem ljust_s (x : AStr) (w : Int) (c : Char) (e : Bool) :
    (x.ljust w c e).s = x.s ++ List.replicate (w - (x.len : Int)).toNat c := by
  unfold ljust
  by_cases h : (w - (x.len : Int)).toNat > 0
  · simp only [h, if_true]
  · have : (w - (x.len : Int)).toNat = 0 := by omega
    simp only [this, Nat.lt_irrefl, gt_iff_lt, if_false, List.replicate_zero, List.append_nil,
      List.nil_append, Nat.zero_div, Nat.sub_self]

theorem ljust_len (x : AStr) (w : Int) (c : Char) (e : Bool) :
    (x.ljust w c e).len = x.len + (w - (x.len : Int)).toNat := by
  unfold len; rw [ljust_s]; simp [len]

theorem ljust_fmts_plain (x : AStr) (w : Int) (c : Char) : (x.ljust w c false).fmts = x.fmts := by
  unfold ljust
  simp only [Bool.false_eq_true, if_false]
  split <;> rfl

theorem ljust_fmts_ext {x : AStr} (hs : SortedKeys x.fmts) {w : Int} (c : Char)
    (h : 0 < (w - (x.len : Int)).toNat) :
    (x.ljust w c true).fmts = padExt x.fmts x.len 0 (x.len + (w - (x.len : Int)).toNat) := by
  unfold ljust padExt
  simp only [gt_iff_lt, h, if_true, shiftKeys_zero]
  cases hg : x.fmts.get? x.len with
  | none => simp only; exact (Fmts.erase_of_get?_none hs hg).symm
  | some p => rfl

theorem act_ljust_plain (x : AStr) (w : Int) (c : Char) (j : Nat) :
    act (x.ljust w c false) j = act x j := by
  unfold act; rw [ljust_fmts_plain]

theorem act_ljust_ext {x : AStr} (hw : WF x) {w : Int} (c : Char)
    (h : 0 < (w - (x.len : Int)).toNat) (j : Nat) :
    act (x.ljust w c true) j =
      if x.len + (w - (x.len : Int)).toNat ≤ j then [] else if j < x.len then act x j else lastAct x := by
  unfold act
  rw [ljust_fmts_ext hw.sorted c h, active_padExt hw (by omega)]
  rfl

theorem ljust_wf' {x : AStr} (hw : WF x) (w : Int) (c : Char) (e : Bool) : WF (x.ljust w c e) := by
  by_cases h : 0 < (w - (x.len : Int)).toNat
  · cases e with
    | true => exact wf_padExt hw (by omega) (ljust_len x w c true) (ljust_fmts_ext hw.sorted c h)
    | false =>
      exact wf_shift hw 0 (w - (x.len : Int)).toNat (by rw [ljust_len]; omega)
        (by rw [ljust_fmts_plain, shiftKeys_zero])
  · rw [ljust_noop' c e (by omega)]; exact hw

/-! ### `rjust` -/

theorem rjust_noop' {x : AStr} {w : Int} (c : Char) (e : Bool) (h : (w - (x.len : Int)).toNat = 0) :
    x.rjust w c e = x := by
  unfold rjust
  simp only [h, Nat.lt_irrefl, gt_iff_lt, if_false]

theorem rjust_s (x : AStr) (w : Int) (c : Char) (e : Bool) :
    (x.rjust w c e).s = List.replicate (w - (x.len : Int)).toNat c ++ x.s := by
  unfold rjust
  by_cases h : (w - (x.len : Int)).toNat > 0
  · simp only [h, if_true]
  · have : (w - (x.len : Int)).toNat = 0 := by omega
    simp only [this, Nat.lt_irrefl, gt_iff_lt, if_false, List.replicate_zero, List.append_nil,
      List.nil_append, Nat.zero_div, Nat.sub_self]

theorem rjust_len (x : AStr) (w : Int) (c : Char) (e : Bool) :
    (x.rjust w c e).len = x.len + (w - (x.len : Int)).toNat := by
  unfold len; rw [rjust_s]; simp [len]; omega

theorem rjust_fmts (x : AStr) (w : Int) (c : Char) (e : Bool) :
    (x.rjust w c e).fmts = shiftKeys x.fmts (w - (x.len : Int)).toNat e := by
  unfold rjust
  by_cases h : (w - (x.len : Int)).toNat > 0
  · simp only [h, if_true, Bool.false_eq_true, if_false]
  · have : (w - (x.len : Int)).toNat = 0 := by omega
    simp only [this, Nat.lt_irrefl, gt_iff_lt, if_false, shiftKeys_zero, Nat.zero_div]

theorem act_rjust_ext {x : AStr} (hw : WF x) (w : Int) (c : Char) (j : Nat) :
    act (x.rjust w c true) j = act x (j - (w - (x.len : Int)).toNat) := by
  unfold act; rw [rjust_fmts, active_shiftKeep hw.sorted]

theorem act_rjust_plain {x : AStr} (hw : WF x) (w : Int) (c : Char) (j : Nat) :
    act (x.rjust w c false) j =
      if j < (w - (x.len : Int)).toNat then [] else act x (j - (w - (x.len : Int)).toNat) := by
  unfold act; rw [rjust_fmts, active_shift hw.sorted]

theorem rjust_wf' {x : AStr} (hw : WF x) (w : Int) (c : Char) (e : Bool) : WF (x.rjust w c e) := by
  cases e with
  | true => exact wf_shiftKeep hw _ (rjust_len x w c true) (rjust_fmts x w c true)
  | false => exact wf_shift hw _ 0 (rjust_len x w c false) (rjust_fmts x w c false)

/-! ### `center` -/

theorem center_noop' {x : AStr} {w : Int} (c : Char) (e : Bool) (h : (w - (x.len : Int)).toNat = 0) :
    x.center w c e = x := by
  unfold center
  simp only [h, Nat.lt_irrefl, gt_iff_lt, if_false]

theorem center_s (x : AStr) (w : Int) (c : Char) (e : Bool) :
    (x.center w c e).s = List.replicate ((w - (x.len : Int)).toNat / 2) c ++ x.s ++
      List.replicate ((w - (x.len : Int)).toNat - (w - (x.len : Int)).toNat / 2) c := by
  unfold center
  by_cases h : (w - (x.len : Int)).toNat > 0
  · simp only [h, if_true]
  · have : (w - (x.len : Int)).toNat = 0 := by omega
    simp only [this, Nat.lt_irrefl, gt_iff_lt, if_false, List.replicate_zero, List.append_nil,
      List.nil_append, Nat.zero_div, Nat.sub_self]

theorem center_len (x : AStr) (w : Int) (c : Char) (e : Bool) :
    (x.center w c e).len = x.len + (w - (x.len : Int)).toNat := by
  unfold len; rw [center_s]; simp [len]; omega

theorem center_fmts_plain (x : AStr) (w : Int) (c : Char) :
    (x.center w c false).fmts = shiftKeys x.fmts ((w - (x.len : Int)).toNat / 2) false := by
  unfold center
  by_cases h : (w - (x.len : Int)).toNat > 0
  · simp only [h, if_true, Bool.false_eq_true, if_false]
  · have : (w - (x.len : Int)).toNat = 0 := by omega
    simp only [this, Nat.lt_irrefl, gt_iff_lt, if_false, shiftKeys_zero, Nat.zero_div]

theorem center_fmts_ext (x : AStr) {w : Int} (c : Char) (h : 0 < (w - (x.len : Int)).toNat) :
    (x.center w c true).fmts =
      padExt x.fmts x.len ((w - (x.len : Int)).toNat / 2) (x.len + (w - (x.len : Int)).toNat) := by
  unfold center padExt
  simp only [gt_iff_lt, h, if_true]
  have hl : (List.replicate ((w - (x.len : Int)).toNat / 2) c ++ x.s ++
      List.replicate ((w - (x.len : Int)).toNat - (w - (x.len : Int)).toNat / 2) c).length =
      x.len + (w - (x.len : Int)).toNat := by
    simp [len]; omega
  rw [hl]
  cases hg : x.fmts.get? x.len <;> rfl

theorem act_center_plain {x : AStr} (hw : WF x) (w : Int) (c : Char) (j : Nat) :
    act (x.center w c false) j =
      if j < (w - (x.len : Int)).toNat / 2 then [] else act x (j - (w - (x.len : Int)).toNat / 2) := by
  unfold act; rw [center_fmts_plain, active_shift hw.sorted]

theorem act_center_ext {x : AStr} (hw : WF x) {w : Int} (c : Char)
    (h : 0 < (w - (x.len : Int)).toNat) (j : Nat) :
    act (x.center w c true) j =
      if x.len + (w - (x.len : Int)).toNat ≤ j then []
      else if j - (w - (x.len : Int)).toNat / 2 < x.len then act x (j - (w - (x.len : Int)).toNat / 2)
      else lastAct x := by
  unfold act
  rw [center_fmts_ext x c h, active_padExt hw (by omega)]
  rfl

theorem center_wf' {x : AStr} (hw : WF x) (w : Int) (c : Char) (e : Bool) : WF (x.center w c e) := by
  by_cases h : 0 < (w - (x.len : Int)).toNat
  · cases e with
    | true => exact wf_padExt hw (by omega) (center_len x w c true) (center_fmts_ext x c h)
    | false =>
      exact wf_shift hw _ ((w - (x.len : Int)).toNat - (w - (x.len : Int)).toNat / 2)
        (by rw [center_len]; omega) (center_fmts_plain x w c)
  · rw [center_noop' c e (by omega)]; exact hw

/-! ### `assign_str` with a text that is not shorter -/

theorem assignStr_s (x : AStr) (t : Str) : (x.assignStr t).s = t := by
  unfold assignStr
  simp only
  split
  · split <;> rfl
  · split <;> rfl

theorem assignStr_fmts_longer {x : AStr} (hs : SortedKeys x.fmts) {t : Str} (h : x.len < t.length) :
    (x.assignStr t).fmts = padExt x.fmts x.len 0 t.length := by
  unfold assignStr padExt
  simp only [gt_iff_lt, h, if_true, shiftKeys_zero]
  cases hg : x.fmts.get? x.len with
  | none => simp only; exact (Fmts.erase_of_get?_none hs hg).symm
  | some p => rfl

theorem assignStr_fmts_same {x : AStr} {t : Str} (h : x.len = t.length) :
    (x.assignStr t).fmts = x.fmts := by
  unfold assignStr
  simp [h]

end AStr

/-! ## The hand-rolled regex matcher on the justification patterns

  `matchStart_reAligned` / `matchStart_reLeft`: closed forms of the three patterns of
  `_apply_string_format` (`try3 … try0` = the alternatives in the matcher's priority order);
  `stripNl`, `form3 … form0`, `parse`: the same alternatives as a grammar on the text without one
  final newline; `applyStringFormat_eq`: `_apply_string_format` decided by the grammar. -/

namespace Re
open _root_.Re
theorem go_some {α} (s : Str) (caps : Caps) (k : Str → Caps → Option α) (n : Nat) (a : α)
    (h : k (s.drop n) caps = some a) : m.go s caps k n = some a := by
  cases n with
  | zero => rw [m.go.eq_1]; simpa using h
  | succ n => rw [m.go.eq_2, h]

theorem go_none {α} (s : Str) (caps : Caps) (k : Str → Caps → Option α) (n : Nat)
    (h : ∀ i, i ≤ n → k (s.drop i) caps = none) : m.go s caps k n = none := by
  induction n with
  | zero => rw [m.go.eq_1]; simpa using h 0 (Nat.le_refl _)
  | succ n ih =>
    rw [m.go.eq_2, h (n + 1) (Nat.le_refl _)]
    exact ih (fun i hi => h i (by omega))
end Re

namespace Rx
open _root_.Re Render

theorem drop_lt_takeWhile (p : Char → Bool) (s : Str) (i : Nat) (hi : i < (s.takeWhile p).length) :
    ∃ c rest, s.drop i = c :: rest ∧ p c = true := by
  induction s generalizing i with
  | nil => simp at hi
  | cons a s ih =>
    by_cases ha : p a = true
    · rw [List.takeWhile_cons_of_pos ha] at hi
      cases i with
      | zero => exact ⟨a, s, rfl, ha⟩
      | succ i => 
        simp only [List.length_cons, Nat.add_lt_add_iff_right] at hi
        simpa using ih i hi
    · rw [List.takeWhile_cons_of_neg ha] at hi
      simp at hi

theorem drop_takeWhile_length (p : Char → Bool) (s : Str) :
    s.drop (s.takeWhile p).length = s.dropWhile p := by
  conv => lhs; arg 2; rw [← List.takeWhile_append_dropWhile (p := p) (l := s)]
  exact List.drop_left

theorem take_takeWhile_length (p : Char → Bool) (s : Str) :
    s.take (s.takeWhile p).length = s.takeWhile p := by
  conv => lhs; arg 2; rw [← List.takeWhile_append_dropWhile (p := p) (l := s)]
  exact List.take_left

def tailRe : Re := .seq (.cap 3 (.star Py.isDigit)) .eos

def okTail (r : Str) : Bool := (r.dropWhile Py.isDigit).isEmpty || r.dropWhile Py.isDigit == ['\n']

theorem m_tailRe (r : Str) (caps : Caps) :
    Re.m tailRe r caps (fun _ c => some c) =
      if okTail r then some ((3, r.takeWhile Py.isDigit) :: caps.filter (·.1 != 3)) else none := by
  unfold tailRe
  simp only [Re.m]
  by_cases hok : okTail r = true
  · rw [if_pos hok]
    apply Re.go_some
    rw [drop_takeWhile_length]
    unfold okTail at hok
    have hlen : r.length - (r.dropWhile Py.isDigit).length = (r.takeWhile Py.isDigit).length := by
      have := congrArg List.length (List.takeWhile_append_dropWhile (p := Py.isDigit) (l := r))
      rw [List.length_append] at this; omega
    rw [hlen, take_takeWhile_length]
    simp at hok
    simp [hok]
  · rw [if_neg hok]
    apply Re.go_none
    intro i hi
    rcases Nat.lt_or_eq_of_le hi with hlt | heq
    · obtain ⟨c, rest, hd, hc⟩ := drop_lt_takeWhile _ _ _ hlt
      rw [hd]
      have : c ≠ '\n' := by
        intro e; subst e; simp [Py.isDigit] at hc
      simp [this]
    · subst heq
      rw [drop_takeWhile_length]
      unfold okTail at hok
      simp at hok
      simp [hok]

theorem reAligned_eq (a : Char) : reAligned a =
  .seq (.cap 1 (.opt (.cls dot))) (.seq (.cap 2 (.opt (.cls sign))) (.seq (.cls (· == a)) tailRe)) := rfl

theorem reLeft_eq : reLeft =
  .seq (.opt (.seq (.cap 1 (.opt (.cls dot))) (.seq (.cap 2 (.opt (.cls sign))) (.cls (· == '<'))))) tailRe := rfl

abbrev tw (r : Str) : Str := r.takeWhile Py.isDigit

def try3 (X : Char) : Str → Option Caps
  | f :: g :: x :: r =>
    if dot f && sign g && x == X && okTail r then some [(3, tw r), (2, [g]), (1, [f])] else none
  | _ => none
def try2 (X : Char) : Str → Option Caps
  | f :: x :: r => if dot f && x == X && okTail r then some [(3, tw r), (2, []), (1, [f])] else none
  | _ => none
def tryS (X : Char) : Str → Option Caps
  | g :: x :: r => if sign g && x == X && okTail r then some [(3, tw r), (2, [g]), (1, [])] else none
  | _ => none
def try1 (X : Char) : Str → Option Caps
  | x :: r => if x == X && okTail r then some [(3, tw r), (2, []), (1, [])] else none
  | _ => none
def try0 (s : Str) : Option Caps := if okTail s then some [(3, tw s)] else none

def alignedRef (X : Char) (s : Str) : Option Caps :=
  (try3 X s).or ((try2 X s).or ((tryS X s).or (try1 X s)))

theorem ite_and' {α} (P Q : Prop) [Decidable P] [Decidable Q] (a b : α) :
    (if P ∧ Q then a else b) = if P then (if Q then a else b) else b := by
  by_cases P <;> by_cases Q <;> simp [*]

theorem matchStart_reAligned (X : Char) (s : Str) :
    Re.matchStart (reAligned X) s = alignedRef X s := by
  rw [reAligned_eq]
  unfold Re.matchStart alignedRef
  simp only [Re.m, m_tailRe]
  rcases s with _ | ⟨a, _ | ⟨b, _ | ⟨c, r⟩⟩⟩
  · simp [try3, try2, tryS, try1]
  · simp [try3, try2, tryS, try1, ite_and']
  · simp only [try3, try2, tryS, try1, List.filter, ite_and', Bool.and_eq_true]
    by_cases h1 : dot a = true <;> by_cases h2 : (b == X) = true <;> by_cases h3 : okTail [] = true <;>
      by_cases h4 : sign a = true <;> simp [h1, h2, h3, h4, tw]
  · simp only [try3, try2, tryS, try1, List.filter, ite_and', Bool.and_eq_true]
    by_cases h1 : dot a = true <;> by_cases h2 : sign b = true <;> by_cases h3 : (c == X) = true <;>
      by_cases h4 : okTail r = true <;> by_cases h5 : (b == X) = true <;>
      by_cases h6 : okTail (c :: r) = true <;> by_cases h7 : sign a = true <;>
      simp [h1, h2, h3, h4, h5, h6, h7, tw]

def leftRef (s : Str) : Option Caps := (alignedRef '<' s).or (try0 s)

theorem m_seq {α} (a b : Re) (s : Str) (caps : Caps) (k : Str → Caps → Option α) :
    Re.m (.seq a b) s caps k = Re.m a s caps (fun rest caps' => Re.m b rest caps' k) := by
  rw [Re.m]

theorem m_opt {α} (r : Re) (s : Str) (caps : Caps) (k : Str → Caps → Option α) :
    Re.m (.opt r) s caps k = (Re.m r s caps k).or (k s caps) := by
  rw [Re.m]
  cases Re.m r s caps k <;> rfl

theorem matchStart_reLeft (s : Str) : Re.matchStart reLeft s = leftRef s := by
  have h : Re.matchStart reLeft s =
      (Re.matchStart (reAligned '<') s).or (Re.m tailRe s [] (fun _ c => some c)) := by
    rw [reLeft_eq, reAligned_eq]
    unfold Re.matchStart
    rw [m_seq, m_opt]
    simp only [m_seq]
  rw [h, matchStart_reAligned, m_tailRe]
  rfl


/-- drop one final newline -/
def stripNl : Str → Str
  | [] => []
  | [c] => if c = '\n' then [] else [c]
  | c :: c' :: rest => c :: stripNl (c' :: rest)

theorem stripNl_cons_ne {c : Char} (h : c ≠ '\n') (r : Str) : stripNl (c :: r) = c :: stripNl r := by
  cases r <;> simp [stripNl, h]

theorem stripNl_nl (r : Str) : stripNl ('\n' :: r) = if r = [] then [] else '\n' :: stripNl r := by
  cases r <;> simp [stripNl]

theorem isDigit_ne_nl {c : Char} (h : Py.isDigit c = true) : c ≠ '\n' := by
  intro e; subst e; simp [Py.isDigit] at h

theorem okTail_eq (r : Str) : okTail r = (stripNl r).all Py.isDigit := by
  induction r with
  | nil => rfl
  | cons c r ih =>
    by_cases hd : Py.isDigit c = true
    · rw [stripNl_cons_ne (isDigit_ne_nl hd)]
      unfold okTail at ih ⊢
      rw [List.dropWhile_cons_of_pos hd, ih]
      simp [hd]
    · unfold okTail
      rw [List.dropWhile_cons_of_neg hd]
      by_cases hc : c = '\n'
      · subst hc
        rw [stripNl_nl]
        cases r <;> simp [Py.isDigit]
      · rw [stripNl_cons_ne hc]
        simp [hd, hc]

theorem tw_eq {r : Str} (h : okTail r = true) : tw r = stripNl r := by
  induction r with
  | nil => rfl
  | cons c r ih =>
    by_cases hd : Py.isDigit c = true
    · rw [stripNl_cons_ne (isDigit_ne_nl hd)]
      unfold tw at ih ⊢
      rw [List.takeWhile_cons_of_pos hd, ih]
      unfold okTail at h ⊢
      rwa [List.dropWhile_cons_of_pos hd] at h
    · unfold okTail at h
      rw [List.dropWhile_cons_of_neg hd] at h
      simp at h
      obtain ⟨h1, h2⟩ := h
      subst h1; subst h2
      rfl

abbrev FmtParts := Option Char × Option Char × Char × Str

def form3 (X : Char) : Str → Option FmtParts
  | f :: g :: a :: ds =>
    if dot f && sign g && a == X && ds.all Py.isDigit then some (some f, some g, X, ds) else none
  | _ => none
def form2 (X : Char) : Str → Option FmtParts
  | f :: a :: ds => if dot f && a == X && ds.all Py.isDigit then some (some f, none, X, ds) else none
  | _ => none
def formS (X : Char) : Str → Option FmtParts
  | g :: a :: ds => if sign g && a == X && ds.all Py.isDigit then some (none, some g, X, ds) else none
  | _ => none
def form1 (X : Char) : Str → Option FmtParts
  | a :: ds => if a == X && ds.all Py.isDigit then some (none, none, X, ds) else none
  | _ => none
def form0 (s : Str) : Option FmtParts := if s.all Py.isDigit then some (none, none, '<', s) else none

def toCaps : FmtParts → Caps
  | (fill, sign, _, ds) => [(3, ds), (2, sign.toList), (1, fill.toList)]

theorem sign_ne_nl {c : Char} (h : sign c = true) : c ≠ '\n' := by
  intro e; subst e; simp [sign] at h

theorem dot_iff {c : Char} : dot c = true ↔ c ≠ '\n' := by simp [dot]

theorem try3_eq {X : Char} (hX : X ≠ '\n') (s : Str) : try3 X s = (form3 X (stripNl s)).map toCaps := by
  rcases s with _ | ⟨f, _ | ⟨g, _ | ⟨x, r⟩⟩⟩
  · rfl
  · simp only [try3, stripNl]; split <;> rfl
  · simp only [try3, stripNl]; split <;> rfl
  · simp only [try3, stripNl]
    by_cases hx : x = '\n'
    · subst hx
      have : ('\n' == X) = false := by simp; exact fun e => hX e.symm
      rw [stripNl_nl]
      simp only [this, Bool.and_false, Bool.false_and, Bool.false_eq_true, if_false]
      by_cases hr : r = [] <;> simp [hr, form3, hX.symm]
    · rw [stripNl_cons_ne hx]
      simp only [form3, ← okTail_eq]
      by_cases hok : okTail r = true
      · simp only [hok, tw_eq hok, Bool.and_true]
        split <;> simp_all [toCaps]
      · simp [hok]

theorem try2_eq {X : Char} (hX : X ≠ '\n') (s : Str) : try2 X s = (form2 X (stripNl s)).map toCaps := by
  rcases s with _ | ⟨f, _ | ⟨x, r⟩⟩
  · rfl
  · simp only [try2, stripNl]; split <;> rfl
  · simp only [try2, stripNl]
    by_cases hx : x = '\n'
    · subst hx
      have : ('\n' == X) = false := by simp; exact fun e => hX e.symm
      rw [stripNl_nl]
      simp only [this, Bool.and_false, Bool.false_and, Bool.false_eq_true, if_false]
      by_cases hr : r = [] <;> simp [hr, form2, hX.symm]
    · rw [stripNl_cons_ne hx]
      simp only [form2, ← okTail_eq]
      by_cases hok : okTail r = true
      · simp only [hok, tw_eq hok, Bool.and_true]
        split <;> simp_all [toCaps]
      · simp [hok]

theorem tryS_eq {X : Char} (hX : X ≠ '\n') (s : Str) : tryS X s = (formS X (stripNl s)).map toCaps := by
  rcases s with _ | ⟨f, _ | ⟨x, r⟩⟩
  · rfl
  · simp only [tryS, stripNl]; split <;> rfl
  · simp only [tryS, stripNl]
    by_cases hx : x = '\n'
    · subst hx
      have : ('\n' == X) = false := by simp; exact fun e => hX e.symm
      rw [stripNl_nl]
      simp only [this, Bool.and_false, Bool.false_and, Bool.false_eq_true, if_false]
      by_cases hr : r = [] <;> simp [hr, formS, hX.symm]
    · rw [stripNl_cons_ne hx]
      simp only [formS, ← okTail_eq]
      by_cases hok : okTail r = true
      · simp only [hok, tw_eq hok, Bool.and_true]
        split <;> simp_all [toCaps]
      · simp [hok]

theorem try1_eq {X : Char} (hX : X ≠ '\n') (s : Str) : try1 X s = (form1 X (stripNl s)).map toCaps := by
  rcases s with _ | ⟨x, r⟩
  · rfl
  · simp only [try1]
    by_cases hx : x = '\n'
    · subst hx
      have : ('\n' == X) = false := by simp; exact fun e => hX e.symm
      rw [stripNl_nl]
      simp only [this, Bool.false_and, Bool.false_eq_true, if_false]
      by_cases hr : r = [] <;> simp [hr, form1, hX.symm]
    · rw [stripNl_cons_ne hx]
      simp only [form1, ← okTail_eq]
      by_cases hok : okTail r = true
      · simp only [hok, tw_eq hok, Bool.and_true]
        split <;> simp_all [toCaps]
      · simp [hok]

theorem try0_eq (s : Str) : try0 s = (form0 (stripNl s)).map (fun p => [(3, p.2.2.2)]) := by
  unfold try0 form0
  rw [← okTail_eq]
  by_cases hok : okTail s = true
  · simp [hok, tw_eq hok]
  · simp [hok]

def alignedForms (X : Char) (s : Str) : Option FmtParts :=
  (form3 X s).or ((form2 X s).or ((formS X s).or (form1 X s)))

def parse (s : Str) : Option FmtParts :=
  ((alignedForms '<' s).or (form0 s)).or ((alignedForms '>' s).or (alignedForms '^' s))

theorem map_or {α β} (f : α → β) (a b : Option α) : (a.or b).map f = (a.map f).or (b.map f) := by
  cases a <;> rfl

theorem alignedRef_eq {X : Char} (hX : X ≠ '\n') (s : Str) :
    alignedRef X s = (alignedForms X (stripNl s)).map toCaps := by
  unfold alignedRef alignedForms
  rw [map_or, map_or, map_or, try3_eq hX, try2_eq hX, tryS_eq hX, try1_eq hX]

theorem alignedForms_some {X : Char} {s : Str} {p : FmtParts} (h : alignedForms X s = some p) :
    p.2.2.1 = X ∧ ∀ c, p.2.1 = some c → sign c = true := by
  unfold alignedForms at h
  simp only [Option.or_eq_some_iff] at h
  rcases h with h | ⟨_, h | ⟨_, h | ⟨_, h⟩⟩⟩
  · unfold form3 at h
    split at h
    · split at h
      · cases h; simp_all
      · cases h
    · cases h
  · unfold form2 at h
    split at h
    · split at h
      · cases h; simp
      · cases h
    · cases h
  · unfold formS at h
    split at h
    · split at h
      · cases h; simp_all
      · cases h
    · cases h
  · unfold form1 at h
    split at h
    · split at h
      · cases h; simp
      · cases h
    · cases h

/-- what `_apply_string_format` has to do once the spec is parsed -/
def padApply (obj : AStr) (nid : Nat) (fill : Char) (extend : Bool) (al : Char) (ds : Str)
    (settings : Option Str) : Except PyErr AStr := do
  let st : SArg := .str (settings.getD [])
  let doApply : Bool := match settings with | some s => !s.isEmpty | none => false
  let obj ← if !extend ∧ doApply then obj.applyRaw nid st none none else pure obj
  let obj := if ds.isEmpty then obj else
    let w : Int := Py.digitsVal ds
    if al = '<' then obj.ljust w fill extend
    else if al = '>' then obj.rjust w fill extend
    else obj.center w fill extend
  if extend ∧ doApply then obj.applyRaw nid st none none else pure obj

def justOf (al : Char) : Just := if al = '<' then .left else if al = '>' then .right else .center

theorem group_toCaps3 (p : FmtParts) : Re.group (toCaps p) 3 = some p.2.2.2 := rfl
theorem group_toCaps2 (p : FmtParts) : Re.group (toCaps p) 2 = some p.2.1.toList := rfl
theorem group_toCaps1 (p : FmtParts) : Re.group (toCaps p) 1 = some p.1.toList := rfl

theorem applyJust_toCaps (obj : AStr) (nid : Nat) (p : FmtParts) (settings : Option Str)
    (hs : ∀ c, p.2.1 = some c → sign c = true) :
    applyJust obj nid (toCaps p) (justOf p.2.2.1) settings =
      padApply obj nid (p.1.getD ' ') (p.2.1 != some '-') p.2.2.1 p.2.2.2 settings := by
  obtain ⟨fill, sg, al, ds⟩ := p
  have hsg : sg = none ∨ sg = some '+' ∨ sg = some '-' := by
    cases sg with
    | none => exact Or.inl rfl
    | some c =>
      have := hs c rfl
      simp [sign] at this
      rcases this with rfl | rfl
      · exact Or.inr (Or.inl rfl)
      · exact Or.inr (Or.inr rfl)
  have hj : justOf al = if al = '<' then Just.left else if al = '>' then .right else .center := rfl
  unfold applyJust padApply
  simp only [group_toCaps1, group_toCaps2, group_toCaps3, Option.getD_some, hj]
  rcases hsg with rfl | rfl | rfl <;> cases fill <;>
    by_cases h1 : al = '<' <;> by_cases h2 : al = '>' <;> simp only [h1, h2, if_true, if_false] <;> rfl

/-- `_apply_string_format`, decided by the grammar instead of the three regular expressions -/
def specApply (obj : AStr) (nid : Nat) (fmt : Str) (settings : Option Str) : Except PyErr AStr :=
  match parse (stripNl fmt) with
  | none => .error .valueError
  | some p => padApply obj nid (p.1.getD ' ') (p.2.1 != some '-') p.2.2.1 p.2.2.2 settings

theorem form0_some {s : Str} {p : FmtParts} (h : form0 s = some p) : p = (none, none, '<', s) := by
  unfold form0 at h
  split at h
  · cases h; rfl
  · cases h

theorem applyStringFormat_eq (obj : AStr) (nid : Nat) (fmt : Str) (settings : Option Str) :
    applyStringFormat obj nid fmt settings = specApply obj nid fmt settings := by
  unfold applyStringFormat specApply parse
  rw [matchStart_reLeft, matchStart_reAligned, matchStart_reAligned]
  unfold leftRef
  rw [alignedRef_eq (by decide), alignedRef_eq (by decide), alignedRef_eq (by decide), try0_eq]
  cases h1 : alignedForms '<' (stripNl fmt) with
  | some p =>
    obtain ⟨ha, hs⟩ := alignedForms_some h1
    have := applyJust_toCaps obj nid p settings hs
    rw [ha] at this
    simp only [Option.map_some, Option.some_or]
    rw [ha]; exact this
  | none =>
    cases h0 : form0 (stripNl fmt) with
    | some p =>
      have hp := form0_some h0
      subst hp
      simp only [Option.map_some, Option.map_none, Option.none_or, Option.some_or]
      rfl
    | none =>
      cases h2 : alignedForms '>' (stripNl fmt) with
      | some p =>
        obtain ⟨ha, hs⟩ := alignedForms_some h2
        have := applyJust_toCaps obj nid p settings hs
        rw [ha] at this
        simp only [Option.map_some, Option.map_none, Option.none_or, Option.some_or]
        rw [ha]; exact this
      | none =>
        cases h3 : alignedForms '^' (stripNl fmt) with
        | some p =>
          obtain ⟨ha, hs⟩ := alignedForms_some h3
          have := applyJust_toCaps obj nid p settings hs
          rw [ha] at this
          simp only [Option.map_some, Option.map_none, Option.none_or, Option.some_or]
          rw [ha]; exact this
        | none => simp only [Option.map_none, Option.none_or]

/-! ### The spec splitter of `to_str` on a spec whose first part is in the grammar -/


def restRe : Re := .seq (.opt (.cap 2 (.seq (.cls (· == ':')) (.star dot)))) .eos

theorem reSpec_eq : reSpec =
  .seq (.cap 1 (.seq (.opt (.cls dot)) (.seq (.opt (.cls sign)) (.seq (.opt (.cls align)) (.star Py.isDigit)))))
    restRe := rfl

/-- the text after the justification part: nothing, or `:` and an ansi part without newline -/
def suffix : Option Str → Str
  | none => []
  | some a => ':' :: a

/-- the captures of the spec splitter -/
def specCaps (core : Str) : Option Str → Caps
  | none => [(1, core)]
  | some a => [(2, ':' :: a), (1, core)]

theorem takeWhile_all {p : Char → Bool} {l : Str} (h : l.all p = true) : l.takeWhile p = l := by
  induction l with
  | nil => rfl
  | cons a l ih =>
    simp only [List.all_cons, Bool.and_eq_true] at h
    rw [List.takeWhile_cons_of_pos h.1, ih h.2]

theorem restRe_nil (caps : Caps) : Re.m restRe [] caps (fun _ c => some c) = some caps := by
  unfold restRe
  simp [Re.m]

theorem restRe_colon (a : Str) (ha : a.all dot = true) (caps : Caps) :
    Re.m restRe (':' :: a) caps (fun _ c => some c) =
      some ((2, ':' :: a) :: caps.filter (·.1 != 2)) := by
  unfold restRe
  simp only [Re.m, beq_self_eq_true, if_true]
  rw [Re.go_some _ _ _ _ ((2, ':' :: a) :: caps.filter (·.1 != 2))]
  rw [takeWhile_all ha]
  simp

theorem digitsStage (s0 core ds : Str) (ansi : Option Str) (hs0 : s0 = core ++ suffix ansi)
    (hds : ds.all Py.isDigit = true) (ha : ∀ a, ansi = some a → a.all dot = true) :
    Re.m.go (ds ++ suffix ansi) []
      (fun rest caps' =>
        restRe.m rest ((1, List.take (List.length s0 - List.length rest) s0) ::
          List.filter (fun x => x.fst != 1) caps') fun _ caps => some caps)
      (List.takeWhile Py.isDigit (ds ++ suffix ansi)).length =
    some (specCaps core ansi) := by
  have htw : List.takeWhile Py.isDigit (ds ++ suffix ansi) = ds := by
    rw [List.takeWhile_append]
    cases ansi with
    | none => simp [suffix, takeWhile_all hds]
    | some a => simp [suffix, takeWhile_all hds, Py.isDigit]
  have htk : List.take (s0.length - (suffix ansi).length) s0 = core := by
    rw [hs0, List.length_append, Nat.add_sub_cancel, List.take_left]
  apply Re.go_some
  rw [htw, List.drop_left]
  simp only [htk]
  cases ansi with
  | none => simp [suffix, restRe_nil, specCaps]
  | some a => simp [suffix, restRe_colon a (ha a rfl), List.filter, specCaps]

theorem align_not_sign {c : Char} (h : align c = true) : sign c = false := by
  simp [align] at h
  rcases h with (rfl | rfl) | rfl <;> decide

theorem head_not_sign_align {ds : Str} {ansi : Option Str} (hds : ds.all Py.isDigit = true)
    {c : Char} {r : Str} (h : ds ++ suffix ansi = c :: r) : sign c = false ∧ align c = false := by
  have hc : Py.isDigit c = true ∨ c = ':' := by
    cases ds with
    | nil =>
      cases ansi with
      | none => simp [suffix] at h
      | some a => simp [suffix] at h; exact Or.inr h.1.symm
    | cons d ds =>
      simp at h hds
      exact Or.inl (h.1 ▸ hds.1)
  rcases hc with hc | rfl
  · simp [Py.isDigit] at hc
    constructor
    · simp [sign]
      constructor <;> (intro e; subst e; revert hc; decide)
    · simp [align]
      refine ⟨⟨?_, ?_⟩, ?_⟩ <;> (intro e; subst e; revert hc; decide)
  · decide

/-- the shapes of a non-empty text of the grammar -/
inductive Shape : Str → Prop
  | s3 (f g X : Char) (ds : Str) : dot f = true → sign g = true → align X = true →
      ds.all Py.isDigit = true → Shape (f :: g :: X :: ds)
  | s2 (f X : Char) (ds : Str) : dot f = true → align X = true → ds.all Py.isDigit = true →
      Shape (f :: X :: ds)
  | s1 (X : Char) (ds : Str) : align X = true → ds.all Py.isDigit = true → Shape (X :: ds)
  | s0 (d : Char) (ds : Str) : Py.isDigit d = true → ds.all Py.isDigit = true → Shape (d :: ds)

theorem matchStart_reSpec {core : Str} (hc : Shape core) (ansi : Option Str)
    (ha : ∀ a, ansi = some a → a.all dot = true) :
    Re.matchStart reSpec (core ++ suffix ansi) = some (specCaps core ansi) := by
  rw [reSpec_eq]
  unfold Re.matchStart
  simp only [m_seq]
  simp only [Re.m]
  cases hc with
  | s3 f g X ds hf hg hX hds =>
    simp only [List.cons_append, hf, hg, hX, if_true,
      digitsStage (f :: g :: X :: (ds ++ suffix ansi)) (f :: g :: X :: ds) ds ansi rfl hds ha]
  | s2 f X ds hf hX hds =>
    simp only [List.cons_append, hf, hX, align_not_sign hX, if_true, Bool.false_eq_true, if_false,
      digitsStage (f :: X :: (ds ++ suffix ansi)) (f :: X :: ds) ds ansi rfl hds ha]
  | s1 X ds hX hds =>
    have hd : dot X = true := by
      simp [align] at hX
      rcases hX with (rfl | rfl) | rfl <;> decide
    have hD := digitsStage (X :: (ds ++ suffix ansi)) (X :: ds) ds ansi rfl hds ha
    have hH : ∀ c r', ds ++ suffix ansi = c :: r' → sign c = false ∧ align c = false :=
      fun c r' h => head_not_sign_align hds h
    simp only [List.cons_append, hd, if_true]
    generalize ds ++ suffix ansi = r at hD hH ⊢
    cases r with
    | nil => simp only [hD]
    | cons c r =>
      obtain ⟨h1, h2⟩ := hH c r rfl
      simp only [h1, h2, Bool.false_eq_true, if_false, hD]
  | s0 d ds hd hds =>
    have hdot : dot d = true := by
      simp only [dot, bne_iff_ne, ne_eq]
      exact isDigit_ne_nl hd
    have hD := digitsStage (d :: (ds ++ suffix ansi)) (d :: ds) ds ansi rfl hds ha
    have hH : ∀ c r', ds ++ suffix ansi = c :: r' → sign c = false ∧ align c = false :=
      fun c r' h => head_not_sign_align hds h
    simp only [List.cons_append, hdot, if_true]
    generalize ds ++ suffix ansi = r at hD hH ⊢
    cases r with
    | nil => simp only [hD]
    | cons c r =>
      obtain ⟨h1, h2⟩ := hH c r rfl
      simp only [h1, h2, Bool.false_eq_true, if_false, hD]

theorem align_ne_nl {c : Char} (h : align c = true) : c ≠ '\n' := by
  intro e; subst e; simp [align] at h

theorem all_digits_no_nl {ds : Str} (h : ds.all Py.isDigit = true) : '\n' ∉ ds := by
  intro hm
  have := List.all_eq_true.mp h _ hm
  simp [Py.isDigit] at this

theorem shape_no_nl {s : Str} (h : Shape s) : '\n' ∉ s := by
  cases h with
  | s3 f g X ds hf hg hX hds =>
    simp only [List.mem_cons, not_or]
    exact ⟨(dot_iff.mp hf).symm, (sign_ne_nl hg).symm, (align_ne_nl hX).symm, all_digits_no_nl hds⟩
  | s2 f X ds hf hX hds =>
    simp only [List.mem_cons, not_or]
    exact ⟨(dot_iff.mp hf).symm, (align_ne_nl hX).symm, all_digits_no_nl hds⟩
  | s1 X ds hX hds =>
    simp only [List.mem_cons, not_or]
    exact ⟨(align_ne_nl hX).symm, all_digits_no_nl hds⟩
  | s0 d ds hd hds =>
    simp only [List.mem_cons, not_or]
    exact ⟨(isDigit_ne_nl hd).symm, all_digits_no_nl hds⟩

theorem stripNl_of_no_nl {s : Str} (h : '\n' ∉ s) : stripNl s = s := by
  induction s with
  | nil => rfl
  | cons c s ih =>
    simp only [List.mem_cons, not_or] at h
    rw [stripNl_cons_ne (fun e => h.1 e.symm), ih h.2]

theorem form3_some {X : Char} {s : Str} {p : FmtParts} (h : form3 X s = some p) :
    ∃ f g ds, s = f :: g :: X :: ds ∧ dot f = true ∧ sign g = true ∧ ds.all Py.isDigit = true ∧
      p = (some f, some g, X, ds) := by
  unfold form3 at h
  split at h
  · rename_i f g a ds
    split at h
    · rename_i hc
      simp only [Bool.and_eq_true, beq_iff_eq] at hc
      cases h
      obtain ⟨⟨⟨h1, h2⟩, h3⟩, h4⟩ := hc
      subst h3
      exact ⟨f, g, ds, rfl, h1, h2, h4, rfl⟩
    · cases h
  · cases h

theorem form2_some {X : Char} {s : Str} {p : FmtParts} (h : form2 X s = some p) :
    ∃ f ds, s = f :: X :: ds ∧ dot f = true ∧ ds.all Py.isDigit = true ∧ p = (some f, none, X, ds) := by
  unfold form2 at h
  split at h
  · rename_i f a ds
    split at h
    · rename_i hc
      simp only [Bool.and_eq_true, beq_iff_eq] at hc
      cases h
      obtain ⟨⟨h1, h3⟩, h4⟩ := hc
      subst h3
      exact ⟨f, ds, rfl, h1, h4, rfl⟩
    · cases h
  · cases h

theorem formS_some {X : Char} {s : Str} {p : FmtParts} (h : formS X s = some p) :
    ∃ g ds, s = g :: X :: ds ∧ sign g = true ∧ ds.all Py.isDigit = true ∧ p = (none, some g, X, ds) := by
  unfold formS at h
  split at h
  · rename_i g a ds
    split at h
    · rename_i hc
      simp only [Bool.and_eq_true, beq_iff_eq] at hc
      cases h
      obtain ⟨⟨h1, h3⟩, h4⟩ := hc
      subst h3
      exact ⟨g, ds, rfl, h1, h4, rfl⟩
    · cases h
  · cases h

theorem form1_some {X : Char} {s : Str} {p : FmtParts} (h : form1 X s = some p) :
    ∃ ds, s = X :: ds ∧ ds.all Py.isDigit = true ∧ p = (none, none, X, ds) := by
  unfold form1 at h
  split at h
  · rename_i a ds
    split at h
    · rename_i hc
      simp only [Bool.and_eq_true, beq_iff_eq] at hc
      cases h
      obtain ⟨h3, h4⟩ := hc
      subst h3
      exact ⟨ds, rfl, h4, rfl⟩
    · cases h
  · cases h

theorem alignedForms_shape {X : Char} (hX : align X = true) {s : Str} {p : FmtParts}
    (h : alignedForms X s = some p) : Shape s := by
  unfold alignedForms at h
  simp only [Option.or_eq_some_iff] at h
  rcases h with h | ⟨_, h | ⟨_, h | ⟨_, h⟩⟩⟩
  · obtain ⟨f, g, ds, rfl, h1, h2, h3, _⟩ := form3_some h
    exact Shape.s3 f g X ds h1 h2 hX h3
  · obtain ⟨f, ds, rfl, h1, h3, _⟩ := form2_some h
    exact Shape.s2 f X ds h1 hX h3
  · obtain ⟨g, ds, rfl, h1, h3, _⟩ := formS_some h
    exact Shape.s2 g X ds (dot_iff.mpr (sign_ne_nl h1)) hX h3
  · obtain ⟨ds, rfl, h3, _⟩ := form1_some h
    exact Shape.s1 X ds hX h3

theorem parse_shape {s : Str} {p : FmtParts} (h : parse s = some p) : s = [] ∨ Shape s := by
  unfold parse at h
  simp only [Option.or_eq_some_iff] at h
  rcases h with (h | ⟨_, h⟩) | ⟨_, h | ⟨_, h⟩⟩
  · exact Or.inr (alignedForms_shape (by decide) h)
  · unfold form0 at h
    split at h
    · rename_i hd
      cases s with
      | nil => exact Or.inl rfl
      | cons d ds =>
        simp only [List.all_cons, Bool.and_eq_true] at hd
        exact Or.inr (Shape.s0 d ds hd.1 hd.2)
    · cases h
  · exact Or.inr (alignedForms_shape (by decide) h)
  · exact Or.inr (alignedForms_shape (by decide) h)

theorem parse_no_nl {s : Str} {p : FmtParts} (h : parse s = some p) : '\n' ∉ s := by
  rcases parse_shape h with rfl | hs
  · simp
  · exact shape_no_nl hs

/-- the `format_parts` of `to_str` -/
def specParts (spec : Str) : Str × Option Str :=
  match Re.matchStart reSpec spec with
  | none => (spec, none)
  | some caps =>
    match Re.group caps 2 with
    | some (_ :: rest) => ((Re.group caps 1).getD [], some rest)
    | _ => ((Re.group caps 1).getD [], none)

theorem applySpec_eq (x : AStr) (nid : Nat) (spec : Str) :
    applySpec x nid spec =
      if !(specParts spec).1.isEmpty then applyStringFormat x nid (specParts spec).1 (specParts spec).2
      else match (specParts spec).2 with
        | some s => if s.isEmpty then .ok x else x.applyRaw nid (.str s) none none
        | none => .ok x := rfl

theorem specParts_grammar {core : Str} (hc : Shape core) (ansi : Option Str)
    (ha : ∀ a, ansi = some a → a.all dot = true) :
    specParts (core ++ suffix ansi) = (core, ansi) := by
  unfold specParts
  rw [matchStart_reSpec hc ansi ha]
  cases ansi <;> rfl

theorem shape_ne_nil {s : Str} (h : Shape s) : s ≠ [] := by
  cases h <;> simp

theorem toStr_grammar (x : AStr) {core : Str} {p : FmtParts} (hne : core ≠ []) (hp : parse core = some p)
    (ansi : Option Str) (ha : ∀ a, ansi = some a → a.all dot = true)
    (o rs re : Bool) (nid : Nat) :
    x.toStr (some (core ++ suffix ansi)) o rs re nid =
      (padApply x nid (p.1.getD ' ') (p.2.1 != some '-') p.2.2.1 p.2.2.2 ansi >>= fun obj =>
        pure (Render.render obj o rs re)) := by
  have hs : Shape core := by
    rcases parse_shape hp with h | h
    · exact absurd h hne
    · exact h
  have hne' : (core ++ suffix ansi).isEmpty = false := by
    cases core with
    | nil => exact absurd rfl hne
    | cons c r => rfl
  have hce : core.isEmpty = false := by
    cases core with
    | nil => exact absurd rfl hne
    | cons c r => rfl
  unfold AStr.toStr
  simp only [hne', Bool.not_false, Bool.not_true, Bool.false_eq_true, false_and, if_false, if_true,
    Option.getD_some]
  rw [applySpec_eq, specParts_grammar hs ansi ha]
  simp only [hce, Bool.not_false, if_true]
  rw [applyStringFormat_eq]
  unfold specApply
  rw [stripNl_of_no_nl (parse_no_nl hp), hp]

/-! ### `stripNl`, declaratively -/

/-- drop one final newline (declarative form of `stripNl`) -/
def stripNlDecl (s : Str) : Str := if s.getLast? = some '\n' then s.dropLast else s

theorem stripNlDecl_eq (s : Str) : stripNlDecl s = stripNl s := by
  induction s with
  | nil => rfl
  | cons c s ih =>
    cases s with
    | nil =>
      unfold stripNlDecl stripNl
      by_cases hc : c = '\n' <;> simp [hc]
    | cons c' rest =>
      unfold stripNlDecl at ih ⊢
      rw [stripNl, ← ih]
      simp only [List.getLast?_cons_cons, List.dropLast_cons_cons]
      split <;> rfl

/-! ### The grammar as a set of texts -/

/-- the grammar of the justification part as a set of texts:
    `[fill][sign]align digits*` or `digits*` -/
def Mem (s : Str) : Prop :=
  (∃ (fill sg : Option Char) (al : Char) (ds : Str), s = fill.toList ++ sg.toList ++ al :: ds ∧
     (∀ c, fill = some c → c ≠ '\n') ∧ (∀ c, sg = some c → sign c = true) ∧ align al = true ∧
     ds.all Py.isDigit = true)
  ∨ s.all Py.isDigit = true

theorem or_isSome_left {α} {a : Option α} (b : Option α) (h : a.isSome = true) : (a.or b).isSome = true := by
  cases a with
  | none => cases h
  | some _ => rfl

theorem or_isSome_right {α} (a : Option α) {b : Option α} (h : b.isSome = true) : (a.or b).isSome = true := by
  cases a with
  | none => exact h
  | some _ => rfl

theorem alignedForms_isSome {al : Char} {fill sg : Option Char} {ds : Str}
    (hf : ∀ c, fill = some c → c ≠ '\n') (hs : ∀ c, sg = some c → sign c = true)
    (hds : ds.all Py.isDigit = true) :
    (alignedForms al (fill.toList ++ sg.toList ++ al :: ds)).isSome = true := by
  unfold alignedForms
  cases fill with
  | some f =>
    have hdf : dot f = true := dot_iff.mpr (hf f rfl)
    cases sg with
    | some g =>
      apply or_isSome_left
      simp [form3, hdf, hs g rfl, hds]
    | none =>
      apply or_isSome_right
      apply or_isSome_left
      simp [form2, hdf, hds]
  | none =>
    cases sg with
    | some g =>
      apply or_isSome_right
      apply or_isSome_right
      apply or_isSome_left
      simp [formS, hs g rfl, hds]
    | none =>
      apply or_isSome_right
      apply or_isSome_right
      apply or_isSome_right
      simp [form1, hds]

theorem parse_isSome_iff (s : Str) : (parse s).isSome = true ↔ Mem s := by
  constructor
  · intro h
    obtain ⟨p, hp⟩ := Option.isSome_iff_exists.mp h
    have key : ∀ X, align X = true → alignedForms X s = some p → Mem s := by
      intro X hX h
      unfold alignedForms at h
      simp only [Option.or_eq_some_iff] at h
      rcases h with h | ⟨_, h | ⟨_, h | ⟨_, h⟩⟩⟩
      · obtain ⟨f, g, ds, rfl, h1, h2, h3, _⟩ := form3_some h
        refine Or.inl ⟨some f, some g, X, ds, rfl, ?_, ?_, hX, h3⟩
        · intro c hc; cases hc; exact dot_iff.mp h1
        · intro c hc; cases hc; exact h2
      · obtain ⟨f, ds, rfl, h1, h3, _⟩ := form2_some h
        refine Or.inl ⟨some f, none, X, ds, rfl, ?_, ?_, hX, h3⟩
        · intro c hc; cases hc; exact dot_iff.mp h1
        · intro c hc; cases hc
      · obtain ⟨g, ds, rfl, h1, h3, _⟩ := formS_some h
        refine Or.inl ⟨none, some g, X, ds, rfl, ?_, ?_, hX, h3⟩
        · intro c hc; cases hc
        · intro c hc; cases hc; exact h1
      · obtain ⟨ds, rfl, h3, _⟩ := form1_some h
        refine Or.inl ⟨none, none, X, ds, rfl, ?_, ?_, hX, h3⟩
        · intro c hc; cases hc
        · intro c hc; cases hc
    unfold parse at hp
    simp only [Option.or_eq_some_iff] at hp
    rcases hp with (h | ⟨_, h⟩) | ⟨_, h | ⟨_, h⟩⟩
    · exact key _ (by decide) h
    · unfold form0 at h
      split at h
      · rename_i hd; exact Or.inr hd
      · cases h
    · exact key _ (by decide) h
    · exact key _ (by decide) h
  · rintro (⟨fill, sg, al, ds, rfl, hf, hs, hal, hds⟩ | hd)
    · have := alignedForms_isSome (al := al) hf hs hds
      unfold parse
      simp only [align, Bool.or_eq_true, beq_iff_eq] at hal
      rcases hal with (rfl | rfl) | rfl
      · exact or_isSome_left _ (or_isSome_left _ this)
      · exact or_isSome_right _ (or_isSome_left _ this)
      · exact or_isSome_right _ (or_isSome_right _ this)
    · unfold parse
      apply or_isSome_left
      apply or_isSome_right
      simp [form0, hd]

/-- the only ambiguity of the grammar: a sign character directly before the alignment character is
    read as the fill character (`'-<5'` fills with `'-'` and extends), so "sign without fill" is
    never the reading chosen by the library -/
theorem parse_never_sign_without_fill {s : Str} {sg : Option Char} {al : Char} {ds : Str}
    (h : parse s = some (none, sg, al, ds)) : sg = none := by
  have key : ∀ X, alignedForms X s = some (none, sg, al, ds) → sg = none := by
    intro X h
    unfold alignedForms at h
    simp only [Option.or_eq_some_iff] at h
    rcases h with h | ⟨_, h | ⟨h2, h | ⟨_, h⟩⟩⟩
    · obtain ⟨f, g, ds', _, _, _, _, hp⟩ := form3_some h
      cases hp
    · obtain ⟨f, ds', _, _, _, hp⟩ := form2_some h
      cases hp
    · obtain ⟨g, ds', rfl, h1, h3, _⟩ := formS_some h
      simp [form2, dot_iff.mpr (sign_ne_nl h1), h3] at h2
    · obtain ⟨ds', _, _, hp⟩ := form1_some h
      cases hp; rfl
  unfold parse at h
  simp only [Option.or_eq_some_iff] at h
  rcases h with (h | ⟨_, h⟩) | ⟨_, h | ⟨_, h⟩⟩
  · exact key _ h
  · have := form0_some h
    cases this; rfl
  · exact key _ h
  · exact key _ h

end Rx

end PadL
