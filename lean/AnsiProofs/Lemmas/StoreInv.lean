import AnsiProofs.Props.C02
import AnsiProofs.Props.C04
import AnsiProofs.Props.C05
import AnsiProofs.Props.C06
import AnsiProofs.Props.C07
import AnsiProofs.Props.C08
import AnsiProofs.Props.C12
import AnsiProofs.Props.C16
import AnsiProofs.Props.C10
/-
  AnsiProofs.Lemmas.StoreInv — helper lemmas for the capstone of property C09: the invariant over
  *histories* (`StoreInv`), assembled from the per-operation theorems of C02, C04, C05, C06, C07,
  C12 and C16.

  Contents
    1. where the setting objects of a result come from (`…_settings_sub`), one lemma per operation;
    2. `set_ansi_str` hands out identities in `[nid, next)` only (`setAnsi_ids`);
    3. the store invariant `StoreInv`, admissible new values `Adm`, `inv_commit`;
    4. every operation produces an admissible value (`adm_…`), the loop of `replace` included;
       (4b: the operations added later — `zfill`, `clip`, `join`, `fmatch`, `unfmatch`, the pieces of
       `split`/`splitlines`/`partition`, `expandtabs`);
    5. `inv_step`, `inv_run`;
    6. the error classes an operation can raise (`scrub_noIndex`, `…_noIndex`).
-/

namespace StoreL

open ConcatL (CoherentPair mem_iadd_settings)

/-! ## 1. provenance of setting objects -/

/-- a slice mentions only setting objects of its source -/
theorem getRange_settings_sub (x : AStr) (h : WF x) (st : Nat) {en : Nat} (hen : en ≤ x.len) :
    ∀ s ∈ (x.getRange st en).fmts.settings, s ∈ x.fmts.settings := by
  intro s hsm
  by_cases he : pySlice x.s st en = []
  · rw [getRange_of_empty x he] at hsm; cases hsm
  · have hse : st < en := pySlice_eq_nil_of_not hen he
    have hs := h.sorted
    have hsy := getRange_sorted x hs hse hen
    have hf := getRange_toFun_eq x hs hse hen
    obtain ⟨k, hk⟩ := (settings_iff _ hsy s).mp hsm
    rw [hf] at hk
    have fromAct : ∀ i, s ∈ activeFn (Fmts.toFun x.fmts) i → s ∈ x.fmts.settings := by
      intro i hi
      obtain ⟨k', hk'⟩ := mem_activeFn hi
      exact (settings_iff _ hs s).mpr ⟨k', Or.inl hk'⟩
    unfold sliceFn at hk
    by_cases h0 : k = 0
    · simp only [h0, if_true] at hk
      rcases hk with hk | hk
      · exact fromAct _ hk
      · cases hk
    · simp only [h0, if_false] at hk
      by_cases h1 : k < en - st
      · simp only [h1, if_true] at hk
        exact (settings_iff _ hs s).mpr ⟨_, hk⟩
      · simp only [h1, if_false] at hk
        by_cases h2 : k = en - st
        · simp only [h2, if_true, closePoint] at hk
          rcases hk with hk | hk
          · cases hk
          · rcases List.mem_append.mp hk with hk | hk
            · exact (settings_iff _ hs s).mpr ⟨_, Or.inr hk⟩
            · exact fromAct _ (List.mem_filter.mp hk).1
        · simp only [h2, if_false] at hk
          rcases hk with hk | hk <;> cases hk

theorem getSlice_settings_sub (x : AStr) (h : WF x) (a b : Option Int) :
    ∀ s ∈ (x.getSlice a b).fmts.settings, s ∈ x.fmts.settings :=
  getRange_settings_sub x h _ (C04.sliceIdx_stop_le x.len b)

/-- `+=` mentions only setting objects of its operands -/
theorem iadd_settings_sub (a b : AStr) (ha : WF a) (hb : WF b) :
    ∀ s ∈ (a.iadd b).fmts.settings, s ∈ a.fmts.settings ∨ s ∈ b.fmts.settings :=
  fun _ hs => mem_iadd_settings ha hb hs

theorem remove_settings_sub (x : AStr) (h : WF x) (M : Option (List Str)) (a b : Option Int) :
    ∀ s ∈ (x.removeFormatting M a b).fmts.settings, s ∈ x.fmts.settings :=
  ParseTextL.removeNoNewSettings x M a b h

/-- the ids of `freshSettings n ts` are `n, …, n + |ts| - 1` -/
theorem freshSettings_id_range {n : Nat} {ts : List Str} {s : Setting} (h : s ∈ freshSettings n ts) :
    n ≤ s.id ∧ s.id < n + ts.length := by
  have h1 : s.id ∈ (freshSettings n ts).map (·.id) := List.mem_map.mpr ⟨s, h, rfl⟩
  rw [freshSettings_ids, List.mem_range'_1] at h1
  exact h1

/-- `apply_formatting` with fresh objects: old objects, or ids in `[n, n + |ts|)` -/
theorem apply_settings_sub (x : AStr) (h : WF x) (n : Nat) (hf : FreshFrom x n) (ts : List Str)
    (a b : Option Int) (top : Bool) :
    ∀ s ∈ (x.applyFormatting (freshSettings n ts) a b top).fmts.settings,
      s ∈ x.fmts.settings ∨ (n ≤ s.id ∧ s.id < n + ts.length) := by
  intro s hs
  rcases ParseTextL.apply_settings_sub a b top h (freshSettings_fresh x n ts hf) s hs with h1 | h1
  · exact Or.inr (freshSettings_id_range h1)
  · exact Or.inl h1

theorem apply_fresh_wf (x : AStr) (h : WF x) (n : Nat) (hf : FreshFrom x n) (ts : List Str)
    (a b : Option Int) (top : Bool) : WF (x.applyFormatting (freshSettings n ts) a b top) :=
  apply_wf x _ a b top h (freshSettings_fresh x n ts hf)

/-! ### pads and `assign_str` keep the multiset of setting objects -/

open PadL in
theorem ljust_settings (x : AStr) (h : WF x) (w : Int) (c : Char) (e : Bool) :
    (x.ljust w c e).fmts.settings = x.fmts.settings := by
  by_cases hn : 0 < (w - (x.len : Int)).toNat
  · cases e with
    | true =>
      rw [PadL.AStr.ljust_fmts_ext h.sorted c hn]
      exact settings_congr (map_snd_padExt h.sorted h.bound (by omega))
    | false => rw [PadL.AStr.ljust_fmts_plain]
  · rw [PadL.AStr.ljust_noop' c e (by omega)]

open PadL in
theorem rjust_settings (x : AStr) (w : Int) (c : Char) (e : Bool) :
    (x.rjust w c e).fmts.settings = x.fmts.settings := by
  rw [PadL.AStr.rjust_fmts]
  exact settings_congr (map_snd_shiftKeys _ _ _)

open PadL in
theorem center_settings (x : AStr) (h : WF x) (w : Int) (c : Char) (e : Bool) :
    (x.center w c e).fmts.settings = x.fmts.settings := by
  by_cases hn : 0 < (w - (x.len : Int)).toNat
  · cases e with
    | true =>
      rw [PadL.AStr.center_fmts_ext x c hn]
      exact settings_congr (map_snd_padExt h.sorted h.bound (by omega))
    | false =>
      rw [PadL.AStr.center_fmts_plain]
      exact settings_congr (map_snd_shiftKeys _ _ _)
  · rw [PadL.AStr.center_noop' c e (by omega)]

/-- `assign_str(t)` with a shorter text is the slice `[:len t]` with the text replaced -/
theorem assignStr_shorter (x : AStr) {t : Str} (h : t.length < x.len) :
    x.assignStr t = { (x.getSlice none (some (t.length : Int))) with s := t } := by
  unfold AStr.assignStr
  have h1 : ¬ t.length > x.len := by omega
  simp only [h1, if_false, h, if_true]

theorem getSlice_prefix_len (x : AStr) {n : Nat} (h : n ≤ x.len) :
    (x.getSlice none (some (n : Int))).len = n := by
  unfold AStr.getSlice
  have e : sliceIdx x.len (some (n : Int)) x.len = n := by
    rw [sliceIdx_nonneg _ _ _ (by omega)]
    simp only [Int.toNat_natCast]
    omega
  rw [e, getRange_len x (by omega)]
  show n - sliceIdx x.len none 0 = n
  rw [C04.sliceIdx_omitted]
  omega

theorem assignStr_wf (x : AStr) (h : WF x) (t : Str) : WF (x.assignStr t) := by
  by_cases hl : t.length ≥ x.len
  · exact C12.assignStr_wf_longer h hl
  · have hl' : t.length < x.len := by omega
    rw [assignStr_shorter x hl']
    refine PadL.wf_of_eq (C04.getSlice_wf x h none (some (t.length : Int))) ?_ rfl
    rw [getSlice_prefix_len x (by omega)]
    rfl

open PadL in
theorem assignStr_settings_sub (x : AStr) (h : WF x) (t : Str) :
    ∀ s ∈ (x.assignStr t).fmts.settings, s ∈ x.fmts.settings := by
  intro s hs
  by_cases hl : x.len < t.length
  · rw [PadL.AStr.assignStr_fmts_longer h.sorted hl,
      settings_congr (map_snd_padExt h.sorted h.bound (by omega))] at hs
    exact hs
  · by_cases he : x.len = t.length
    · rw [PadL.AStr.assignStr_fmts_same he] at hs; exact hs
    · rw [assignStr_shorter x (by omega)] at hs
      exact getSlice_settings_sub x h _ _ s hs

/-! ### the str-like methods that are slices -/

theorem ite_slice_cases {c : Prop} [Decidable c] (x : AStr) (a b : Option Int) :
    (if c then x else x.getSlice a b) = x ∨ ∃ a' b', (if c then x else x.getSlice a b) = x.getSlice a' b' := by
  by_cases h : c
  · rw [if_pos h]; exact Or.inl rfl
  · rw [if_neg h]; exact Or.inr ⟨_, _, rfl⟩

theorem stripGen_cases (x : AStr) (cs : Option Str) (l r inplace : Bool) :
    x.stripGen cs l r inplace = x ∨ ∃ a b, x.stripGen cs l r inplace = x.getSlice a b :=
  ite_slice_cases x _ _

theorem removeprefix_cases (x : AStr) (p : Str) :
    x.removeprefix p = x ∨ ∃ a b, x.removeprefix p = x.getSlice a b :=
  ite_slice_cases x _ _

theorem removesuffix_cases (x : AStr) (p : Str) :
    x.removesuffix p = x ∨ ∃ a b, x.removesuffix p = x.getSlice a b :=
  ite_slice_cases x _ _

/-! ## 2. `set_ansi_str` hands out identities in `[nid, next)` only -/

theorem setAnsi_ids (r : Str) (nid : Nat) :
    nid ≤ (AStr.setAnsi r nid).2 ∧
      ∀ s ∈ (AStr.setAnsi r nid).1.fmts.settings, nid ≤ s.id ∧ s.id < (AStr.setAnsi r nid).2 := by
  rw [ParseTextL.setAnsi_eq_loop]
  have key := ParseTextL.loop_inv
    (fun x n => (WF x ∧ FreshFrom x n) ∧ nid ≤ n ∧ ∀ s ∈ x.fmts.settings, nid ≤ s.id)
    (fun x n M a b h =>
      ⟨⟨remove_wf x h.1.1 M a b, fun s hs => h.1.2 s (remove_settings_sub x h.1.1 M a b s hs)⟩,
        h.2.1, fun s hs => h.2.2 s (remove_settings_sub x h.1.1 M a b s hs)⟩)
    (fun x n ts a b h =>
      ⟨⟨apply_fresh_wf x h.1.1 n h.1.2 ts a b true, ParseTextL.freshFrom_apply ts a b true h.1.1 h.1.2⟩,
        by have := h.2.1; omega,
        fun s hs => by
          rcases apply_settings_sub x h.1.1 n h.1.2 ts a b true s hs with h1 | h1
          · exact h.2.2 s h1
          · have := h.2.1; omega⟩)
    (tokenize r false (some Gen.sgrTerminator)).seqs
    ({ s := (tokenize r false (some Gen.sgrTerminator)).text, fmts := [] }, [], nid)
    ⟨⟨ParseTextL.wf_plain _, ParseTextL.freshFrom_plain _ _⟩, Nat.le_refl _, by intro s h; cases h⟩
  exact ⟨key.2.1, fun s hs => ⟨key.2.2 s hs, key.1.2 s hs⟩⟩

/-! ## 3. the store invariant -/

/-- What every store reachable from the empty one satisfies: every value passes `WF`, the counter
    is beyond every identity in use, and an identity carries one text across the whole store. -/
structure StoreInv (σ : Store) : Prop where
  wf       : ∀ v x, σ.get? v = some x → WF x
  fresh    : ∀ v x, σ.get? v = some x → FreshFrom x σ.nid
  coherent : ∀ v w x y, σ.get? v = some x → σ.get? w = some y → CoherentPair x y

/-- `s` is a setting object of some value of the store -/
def Old (σ : Store) (s : Setting) : Prop := ∃ v x, σ.get? v = some x ∧ s ∈ x.fmts.settings

/-- a value that may be written to the store: `WF`, and every setting object it mentions is one of
    the store's or has an identity the counter has not reached yet -/
structure Adm (σ : Store) (y : AStr) : Prop where
  wf   : WF y
  prov : ∀ s ∈ y.fmts.settings, Old σ s ∨ σ.nid ≤ s.id

theorem old_lt {σ : Store} (h : StoreInv σ) {s : Setting} (hs : Old σ s) : s.id < σ.nid := by
  obtain ⟨v, x, hx, hm⟩ := hs
  exact h.fresh v x hx s hm

theorem old_coh {σ : Store} (h : StoreInv σ) {s t : Setting} (hs : Old σ s) (ht : Old σ t)
    (e : s.id = t.id) : s.txt = t.txt := by
  obtain ⟨v, x, hx, hm⟩ := hs
  obtain ⟨w, y, hy, hn⟩ := ht
  exact h.coherent v w x y hx hy s hm t hn e

theorem adm_old {σ : Store} {y : AStr} (hy : Adm σ y) {s : Setting}
    (hs : s ∈ y.fmts.settings) (hlt : s.id < σ.nid) : Old σ s := by
  rcases hy.prov s hs with h1 | h1
  · exact h1
  · omega

/-- an admissible value is coherent with everything made of the store's objects -/
theorem coh_adm_old {σ : Store} (h : StoreInv σ) {a b : AStr} (ha : Adm σ a)
    (hb : ∀ t ∈ b.fmts.settings, Old σ t) : CoherentPair a b := by
  intro s hs t ht e
  have h1 := old_lt h (hb t ht)
  exact old_coh h (adm_old ha hs (by omega)) (hb t ht) e

theorem coh_symm {a b : AStr} (h : CoherentPair a b) : CoherentPair b a :=
  fun s hs t ht e => (h t ht s hs e.symm).symm

/-- values whose identities lie on different sides of `n` are coherent -/
theorem coh_disjoint {a b : AStr} {n : Nat} (ha : FreshFrom a n) (hb : ∀ t ∈ b.fmts.settings, n ≤ t.id) :
    CoherentPair a b := by
  intro s hs t ht e
  have := ha s hs
  have := hb t ht
  omega

theorem get?_commit {σ : Store} {v w : Var} {y z : AStr} (h : ((σ.commit v y).1).get? w = some z) :
    z = y ∨ σ.get? w = some z := by
  by_cases e : w = v
  · subst e
    simp only [Store.commit, Store.get?_bump, Store.get?_put_eq] at h
    exact Or.inl (Option.some.inj h).symm
  · rw [Store.commit_frame σ v w y e] at h
    exact Or.inr h

theorem nid_commit (σ : Store) (v : Var) (y : AStr) :
    (σ.commit v y).1.nid = max σ.nid y.fmts.nextId := rfl

/-- writing an admissible value keeps the invariant -/
theorem inv_commit {σ : Store} (h : StoreInv σ) {y : AStr} (hy : Adm σ y) (v : Var) :
    StoreInv (σ.commit v y).1 := by
  have hyz : ∀ w z, σ.get? w = some z → CoherentPair y z :=
    fun w z hz => coh_adm_old h hy (fun t ht => ⟨w, z, hz, ht⟩)
  refine ⟨?_, ?_, ?_⟩
  · intro w z hz
    rcases get?_commit hz with e | e
    · rw [e]; exact hy.wf
    · exact h.wf w z e
  · intro w z hz s hs
    rw [nid_commit]
    rcases get?_commit hz with e | e
    · rw [e] at hs
      have := C16.nextId_fresh y s hs
      omega
    · have := h.fresh w z e s hs
      omega
  · intro w w' z z' hz hz'
    rcases get?_commit hz with e | e <;> rcases get?_commit hz' with e' | e'
    · rw [e, e']; exact hy.wf.coherent
    · rw [e]; exact hyz w' z' e'
    · rw [e']; exact coh_symm (hyz w z e)
    · exact h.coherent w w' z z' e e'

theorem inv_withVal {σ : Store} (h : StoreInv σ) (v : Var) (k : AStr → Store × Outcome)
    (hk : ∀ x, σ.get? v = some x → StoreInv (k x).1) : StoreInv (σ.withVal v k).1 := by
  unfold Store.withVal
  cases hg : σ.get? v with
  | none => exact h
  | some x => exact hk x hg

theorem inv_fromExcept {σ : Store} (h : StoreInv σ) (v : Var) (r : Except PyErr AStr)
    (hr : ∀ y, r = .ok y → Adm σ y) : StoreInv (σ.fromExcept v r).1 := by
  cases r with
  | ok y => exact inv_commit h (hr y rfl) v
  | error e => exact h

theorem inv_piece {σ : Store} (h : StoreInv σ) (d : Var) (o : Option AStr)
    (ho : ∀ p, o = some p → Adm σ p) : StoreInv (σ.piece d o).1 := by
  cases o with
  | some p => exact inv_commit h (ho p rfl) d
  | none => exact h

theorem inv_pad1 {σ : Store} (h : StoreInv σ) (d : Var) (fill : Str) (f : Char → AStr)
    (hf : ∀ c, Adm σ (f c)) : StoreInv (σ.pad1 d fill f).1 := by
  unfold Store.pad1
  split
  · exact inv_commit h (hf _) d
  · exact h

/-! ## 4. every operation produces an admissible value -/

section adm
variable {σ : Store}

theorem adm_sub {v : Var} {x y : AStr} (hx : σ.get? v = some x) (hw : WF y)
    (sub : ∀ s ∈ y.fmts.settings, s ∈ x.fmts.settings) : Adm σ y :=
  ⟨hw, fun s hs => Or.inl ⟨v, x, hx, sub s hs⟩⟩

theorem adm_self (h : StoreInv σ) {v : Var} {x : AStr} (hx : σ.get? v = some x) : Adm σ x :=
  adm_sub hx (h.wf v x hx) (fun _ hs => hs)

/-- a value all of whose objects are the store's -/
theorem all_old {v : Var} {x : AStr} (hx : σ.get? v = some x) : ∀ s ∈ x.fmts.settings, Old σ s :=
  fun _ hs => ⟨v, x, hx, hs⟩

theorem adm_sub_adm {x y : AStr} (hx : Adm σ x) (hw : WF y)
    (sub : ∀ s ∈ y.fmts.settings, s ∈ x.fmts.settings) : Adm σ y :=
  ⟨hw, fun s hs => hx.prov s (sub s hs)⟩

theorem adm_slice {x : AStr} (hx : Adm σ x) (a b : Option Int) : Adm σ (x.getSlice a b) :=
  adm_sub_adm hx (C04.getSlice_wf x hx.wf a b) (getSlice_settings_sub x hx.wf a b)

theorem adm_clear (x : AStr) : Adm σ x.clearFormatting :=
  ⟨ParseTextL.wf_plain _, fun s hs => by cases hs⟩

theorem adm_index {x y : AStr} (hx : Adm σ x) {i : Int} (h : x.getIndex i = .ok y) : Adm σ y := by
  unfold AStr.getIndex at h
  split at h
  · cases h
  · rename_i hi
    injection h with h
    subst h
    have hen : (if i ≥ 0 then i else (x.len : Int) + i).toNat + 1 ≤ x.len := by
      have := C04.getIndex_pos x i (by omega) (by omega)
      omega
    exact adm_sub_adm hx (C04.getRange_wf x hx.wf _ hen) (getRange_settings_sub x hx.wf _ hen)

theorem adm_iadd {a b : AStr} (ha : Adm σ a) (hb : Adm σ b) (hc : CoherentPair a b) : Adm σ (a.iadd b) :=
  ⟨C05.iadd_wf a b ha.wf hb.wf hc, fun s hs => by
    rcases iadd_settings_sub a b ha.wf hb.wf s hs with h | h
    · exact ha.prov s h
    · exact hb.prov s h⟩

/-- applying objects with identities from `n ≥ σ.nid` on -/
theorem adm_apply {x : AStr} (hx : Adm σ x) {n : Nat} (hn : σ.nid ≤ n) (hf : FreshFrom x n)
    (ts : List Str) (a b : Option Int) (top : Bool) :
    Adm σ (x.applyFormatting (freshSettings n ts) a b top) :=
  ⟨apply_fresh_wf x hx.wf n hf ts a b top, fun s hs => by
    rcases apply_settings_sub x hx.wf n hf ts a b top s hs with h | h
    · exact hx.prov s h
    · exact Or.inr (by omega)⟩

theorem adm_applyRaw {x y : AStr} (hx : Adm σ x) {n : Nat} (hn : σ.nid ≤ n) (hf : FreshFrom x n)
    {arg : SArg} {a b : Option Int} {top : Bool} (h : x.applyRaw n arg a b top = .ok y) : Adm σ y := by
  rcases applyRaw_spec x y n arg a b top h with e | ⟨ts, -, e⟩
  · rw [e]; exact hx
  · rw [e]; exact adm_apply hx hn hf ts a b top

theorem adm_removeRaw {x y : AStr} (hx : Adm σ x) {arg : Option SArg} {a b : Option Int}
    (h : x.removeRaw arg a b = .ok y) : Adm σ y := by
  rcases removeRaw_spec x arg a b y h with e | ⟨-, e⟩ | ⟨_, ts, -, -, e⟩
  · rw [e]; exact hx
  · rw [e]; exact adm_sub_adm hx (remove_wf x hx.wf _ a b) (remove_settings_sub x hx.wf _ a b)
  · rw [e]; exact adm_sub_adm hx (remove_wf x hx.wf _ a b) (remove_settings_sub x hx.wf _ a b)

/-- a parsed string: all its objects are new -/
theorem adm_setAnsi (t : Str) {n : Nat} (hn : σ.nid ≤ n) : Adm σ (AStr.setAnsi t n).1 :=
  ⟨C02.setAnsi_wf t n, fun s hs => Or.inr (by have := ((setAnsi_ids t n).2 s hs).1; omega)⟩

theorem adm_ofStr {t : Str} {ss : List SArg} {y : AStr} (h : AStr.ofStr t ss σ.nid = .ok y) : Adm σ y := by
  unfold AStr.ofStr at h
  simp only at h
  split at h
  · cases h; exact adm_setAnsi t (Nat.le_refl _)
  · exact adm_applyRaw (adm_setAnsi t (Nat.le_refl _)) (setAnsi_ids t σ.nid).1 (C02.setAnsi_fresh t σ.nid) h

theorem adm_ofAStr (hσ : StoreInv σ) {v : Var} {x y : AStr} (hx : σ.get? v = some x) {ss : List SArg}
    (h : x.ofAStr ss σ.nid = .ok y) : Adm σ y := by
  unfold AStr.ofAStr at h
  split at h
  · cases h; exact adm_self hσ hx
  · exact adm_applyRaw (adm_self hσ hx) (Nat.le_refl _) (hσ.fresh v x hx) h

theorem adm_simplify (x : AStr) : Adm σ (x.simplify σ.nid) :=
  adm_setAnsi _ (Nat.le_refl _)

theorem adm_addStr (hσ : StoreInv σ) {v : Var} {x : AStr} (hx : σ.get? v = some x) (t : Str) :
    Adm σ (x.iadd (AStr.setAnsi t σ.nid).1) :=
  adm_iadd (adm_self hσ hx) (adm_setAnsi t (Nat.le_refl _))
    (coh_disjoint (hσ.fresh v x hx) (fun s hs => ((setAnsi_ids t σ.nid).2 s hs).1))

theorem adm_iadd_vals (hσ : StoreInv σ) {v w : Var} {x y : AStr} (hx : σ.get? v = some x)
    (hy : σ.get? w = some y) : Adm σ (x.iadd y) :=
  adm_iadd (adm_self hσ hx) (adm_self hσ hy) (hσ.coherent v w x y hx hy)

theorem adm_ljust {x : AStr} (hx : Adm σ x) (w : Int) (c : Char) (e : Bool) : Adm σ (x.ljust w c e) :=
  adm_sub_adm hx (C12.ljust_wf hx.wf w c e) (fun s hs => by rwa [ljust_settings x hx.wf] at hs)

theorem adm_rjust {x : AStr} (hx : Adm σ x) (w : Int) (c : Char) (e : Bool) : Adm σ (x.rjust w c e) :=
  adm_sub_adm hx (C12.rjust_wf hx.wf w c e) (fun s hs => by rwa [rjust_settings x] at hs)

theorem adm_center {x : AStr} (hx : Adm σ x) (w : Int) (c : Char) (e : Bool) : Adm σ (x.center w c e) :=
  adm_sub_adm hx (C12.center_wf hx.wf w c e) (fun s hs => by rwa [center_settings x hx.wf] at hs)

theorem adm_assign {x : AStr} (hx : Adm σ x) (t : Str) : Adm σ (x.assignStr t) :=
  adm_sub_adm hx (assignStr_wf x hx.wf t) (assignStr_settings_sub x hx.wf t)

theorem adm_of_cases {x y : AStr} (hx : Adm σ x) (h : y = x ∨ ∃ a b, y = x.getSlice a b) : Adm σ y := by
  rcases h with e | ⟨a, b, e⟩
  · rw [e]; exact hx
  · rw [e]; exact adm_slice hx a b

/-! ### `replace`: the loop of slices and concatenations -/

/-- one iteration: `obj[:i] + rep + obj[j:]` -/
theorem adm_splice {obj rep : AStr} (ho : Adm σ obj) (hr : Adm σ rep) (hc : CoherentPair obj rep)
    (a b c d : Option Int) :
    Adm σ (((obj.getSlice a b).iadd rep).iadd (obj.getSlice c d)) ∧
      ∀ s ∈ (((obj.getSlice a b).iadd rep).iadd (obj.getSlice c d)).fmts.settings,
        s ∈ obj.fmts.settings ∨ s ∈ rep.fmts.settings := by
  have hS1 := adm_slice ho a b
  have sub1 := getSlice_settings_sub obj ho.wf a b
  have hS2 := adm_slice ho c d
  have sub2 := getSlice_settings_sub obj ho.wf c d
  have hc1 : CoherentPair (obj.getSlice a b) rep := fun s hs t ht e => hc s (sub1 s hs) t ht e
  have hT := adm_iadd hS1 hr hc1
  have subT : ∀ s ∈ ((obj.getSlice a b).iadd rep).fmts.settings,
      s ∈ obj.fmts.settings ∨ s ∈ rep.fmts.settings := by
    intro s hs
    rcases iadd_settings_sub _ _ hS1.wf hr.wf s hs with h | h
    · exact Or.inl (sub1 s h)
    · exact Or.inr h
  have hc2 : CoherentPair ((obj.getSlice a b).iadd rep) (obj.getSlice c d) := by
    intro s hs t ht e
    rcases subT s hs with h | h
    · exact ho.wf.coherent s h t (sub2 t ht) e
    · exact (hc t (sub2 t ht) s h e.symm).symm
  refine ⟨adm_iadd hT hS2 hc2, ?_⟩
  intro s hs
  rcases iadd_settings_sub _ _ hT.wf hS2.wf s hs with h | h
  · exact subT s h
  · exact Or.inl (sub2 s h)

/-- the loop with an `AnsiString` replacement taken from the store -/
theorem replaceLoop_adm_astr (hσ : StoreInv σ) (old : Str) {v : AStr} (hv : WF v)
    (hvo : ∀ s ∈ v.fmts.settings, Old σ s) :
    ∀ (fuel : Nat) (obj : AStr) (count : Int) (idx : Option Nat) (nid : Nat),
      Adm σ obj → Adm σ (AStr.replaceLoop old (.astr v) fuel obj count idx nid) := by
  have hva : Adm σ v := ⟨hv, fun s hs => Or.inl (hvo s hs)⟩
  intro fuel
  induction fuel with
  | zero => intro obj count idx nid ho; exact ho
  | succ fuel ih =>
    intro obj count idx nid ho
    cases idx with
    | none => exact ho
    | some i =>
      simp only [AStr.replaceLoop]
      split
      · exact ho
      · exact ih _ _ _ _ (adm_splice ho hva (coh_adm_old hσ ho hvo) _ _ _ _).1

theorem texts_length (l : List Setting) : (texts l).length = l.length := by
  simp [texts]

/-- the replacement built from a plain `str`: parsed, then given the settings of the match's first
    character as new objects -/
theorem adm_strRep {nid : Nat} (hn : σ.nid ≤ nid) (raw : Str) (act : List Setting) :
    Adm σ ((AStr.setAnsi raw nid).1.applyFormatting
        (freshSettings (AStr.setAnsi raw nid).2 (texts act)) none none true) ∧
      FreshFrom ((AStr.setAnsi raw nid).1.applyFormatting
        (freshSettings (AStr.setAnsi raw nid).2 (texts act)) none none true)
        ((AStr.setAnsi raw nid).2 + act.length) ∧
      (∀ s ∈ ((AStr.setAnsi raw nid).1.applyFormatting
        (freshSettings (AStr.setAnsi raw nid).2 (texts act)) none none true).fmts.settings, nid ≤ s.id) ∧
      nid ≤ (AStr.setAnsi raw nid).2 := by
  have hid := setAnsi_ids raw nid
  have hw := C02.setAnsi_wf raw nid
  have hf := C02.setAnsi_fresh raw nid
  refine ⟨adm_apply (adm_setAnsi raw hn) (by omega) hf _ _ _ _, ?_, ?_, hid.1⟩
  · have := ParseTextL.freshFrom_apply (texts act) none none true hw hf
    rwa [texts_length] at this
  · intro s hs
    rcases apply_settings_sub _ hw _ hf (texts act) none none true s hs with h | h
    · exact (hid.2 s h).1
    · omega

/-- the loop with a plain `str` replacement -/
theorem replaceLoop_adm_str (old raw : Str) :
    ∀ (fuel : Nat) (obj : AStr) (count : Int) (idx : Option Nat) (nid : Nat),
      σ.nid ≤ nid → Adm σ obj → FreshFrom obj nid →
      Adm σ (AStr.replaceLoop old (.str raw) fuel obj count idx nid) := by
  intro fuel
  induction fuel with
  | zero => intro obj count idx nid _ ho _; exact ho
  | succ fuel ih =>
    intro obj count idx nid hn ho hf
    cases idx with
    | none => exact ho
    | some i =>
      simp only [AStr.replaceLoop]
      split
      · exact ho
      · obtain ⟨h1, h2, h3, h4⟩ := adm_strRep hn raw (obj.ansiSettingsAt i)
        obtain ⟨k1, k2⟩ := adm_splice ho h1 (coh_disjoint hf h3) none (some (i : Int))
          (some ((i + old.length : Nat) : Int)) none
        refine ih _ _ _ _ (by omega) k1 ?_
        intro s hs
        rcases k2 s hs with h | h
        · have := hf s h; omega
        · exact h2 s h

theorem adm_replace_astr (hσ : StoreInv σ) {v w : Var} {x y : AStr} (hx : σ.get? v = some x)
    (hy : σ.get? w = some y) (old : Str) (count : Int) (nid : Nat) :
    Adm σ (x.replace old (.astr y) count nid) :=
  replaceLoop_adm_astr hσ old (hσ.wf w y hy) (all_old hy) _ _ _ _ _ (adm_self hσ hx)

theorem adm_replace_str (hσ : StoreInv σ) {v : Var} {x : AStr} (hx : σ.get? v = some x)
    (old raw : Str) (count : Int) : Adm σ (x.replace old (.str raw) count σ.nid) :=
  replaceLoop_adm_str old raw _ _ _ _ _ (Nat.le_refl _) (adm_self hσ hx) (hσ.fresh v x hx)

/-! ### 4b. the operations added later -/

theorem adm_zfill {x : AStr} (hx : Adm σ x) (w : Int) : Adm σ (x.zfill w) := adm_rjust hx w '0' true

/-- the empty value (`AnsiString()`, the second and third component of a failed `partition`) -/
theorem adm_empty : Adm σ ({} : AStr) :=
  ⟨ParseTextL.wf_plain [], fun s hs => by cases hs⟩

/-- `getAll` returns values of the store -/
theorem getAll_mem : ∀ (vs : List Var) (xs : List AStr), σ.getAll vs = some xs →
    ∀ y ∈ xs, ∃ v, σ.get? v = some y
  | [], xs, h, y, hy => by
    simp only [Store.getAll, Option.some.injEq] at h
    subst h; cases hy
  | v :: vs, xs, h, y, hy => by
    simp only [Store.getAll] at h
    split at h
    · rename_i x xs' hx hxs
      simp only [Option.some.injEq] at h
      subst h
      rcases List.mem_cons.mp hy with e | hm
      · exact ⟨v, by rw [e]; exact hx⟩
      · exact getAll_mem vs xs' hxs y hm
    · cases h

/-- the left fold of `join`: every intermediate value is admissible — it is made of the store's
    objects, hence coherent with the next operand -/
theorem adm_foldl_iadd (hσ : StoreInv σ) : ∀ (xs : List AStr) (acc : AStr),
    (∀ y ∈ xs, ∃ v, σ.get? v = some y) → Adm σ acc → Adm σ (xs.foldl AStr.iadd acc)
  | [], _, _, ha => ha
  | y :: ys, acc, hxs, ha => by
    obtain ⟨v, hv⟩ := hxs y List.mem_cons_self
    exact adm_foldl_iadd hσ ys (acc.iadd y) (fun z hz => hxs z (List.mem_cons_of_mem _ hz))
      (adm_iadd ha (adm_self hσ hv) (coh_adm_old hσ ha (all_old hv)))

theorem adm_join (hσ : StoreInv σ) {vs : List Var} {xs : List AStr} (h : σ.getAll vs = some xs) :
    Adm σ (AStr.join xs) := by
  have hm := getAll_mem vs xs h
  cases xs with
  | nil => exact adm_empty
  | cons x rest =>
    obtain ⟨v, hv⟩ := hm x List.mem_cons_self
    exact adm_foldl_iadd hσ rest x (fun z hz => hm z (List.mem_cons_of_mem _ hz)) (adm_self hσ hv)

/-- the loop of `format_matching` with identities from `n ≥ σ.nid` on: the settings of the result are
    old ones or new (by induction over the spans, every iteration is an `applyRaw` with identities
    above the store's counter and above everything the accumulator holds) -/
theorem adm_matchLoop {n : Nat} (hn : σ.nid ≤ n) (a : SArg) : ∀ (l : List (Int × Int)) (x y : AStr),
    Adm σ x →
    l.foldlM (fun (acc : AStr) (se : Int × Int) =>
      acc.applyRaw (max n acc.fmts.nextId) a (some se.1) (some se.2) true) x = .ok y → Adm σ y
  | [], x, y, hx, h => by
    simp only [List.foldlM_nil, pure, Except.pure, Except.ok.injEq] at h
    rw [← h]; exact hx
  | se :: l, x, y, hx, h => by
    obtain ⟨z, hz, hl⟩ := MatchL.foldlM_cons_ok h
    have hf : FreshFrom x (max n x.fmts.nextId) := by
      intro s hs
      have := C16.nextId_fresh x s hs
      omega
    exact adm_matchLoop hn a l z y (adm_applyRaw hx (by omega) hf hz) hl

theorem adm_fmatch (hσ : StoreInv σ) {v : Var} {x y : AStr} (hx : σ.get? v = some x) {a : SArg}
    {spans : List (Int × Int)} {count : Int} (h : x.formatMatchingFrom σ.nid a spans count = .ok y) :
    Adm σ y :=
  adm_matchLoop (Nat.le_refl _) a _ x y (adm_self hσ hx) h

/-- the facts of C16 (`matching_text`, `matching_wf`, `matching_outside`) for the loop that numbers
    from the store's counter: text kept, `WF` kept, characters outside all matches keep their settings -/
theorem formatMatchingFrom_spec (x y : AStr) (n : Nat) (a : SArg) (spans : List (Int × Int)) (count : Int)
    (h : x.formatMatchingFrom n a spans count = .ok y) :
    y.s = x.s ∧ (WF x → WF y ∧ ∀ i : Nat,
      (∀ se ∈ takeCount count spans,
        i < sliceIdx x.len (some se.1) 0 ∨ sliceIdx x.len (some se.2) x.len ≤ i) → act y i = act x i) := by
  have hf : ∀ z : AStr, FreshFrom z (max n z.fmts.nextId) := by
    intro z s hs
    have := C16.nextId_fresh z s hs
    omega
  refine MatchL.fold_spec
    (step := fun acc se => acc.applyRaw (max n acc.fmts.nextId) a (some se.1) (some se.2) true)
    ?_ ?_ ?_ _ h
  · intro x y se h
    rcases applyRaw_spec x y _ a _ _ true h with e | ⟨ts, _, e⟩
    · rw [e]
    · rw [e]; exact apply_text _ _ _ _ _
  · intro x y se hw h
    rcases applyRaw_spec x y _ a _ _ true h with e | ⟨ts, _, e⟩
    · rw [e]; exact hw
    · rw [e]; exact apply_wf _ _ _ _ _ hw (freshSettings_fresh x _ ts (hf x))
  · intro x y se hw h i hi
    rcases applyRaw_spec x y _ a _ _ true h with e | ⟨ts, _, e⟩
    · rw [e]
    · rw [e]
      exact apply_outside x _ _ _ true rfl rfl hw (freshSettings_fresh x _ ts (hf x)) i hi

theorem adm_unmatchLoop (a : Option SArg) : ∀ (l : List (Int × Int)) (x y : AStr), Adm σ x →
    l.foldlM (fun (acc : AStr) (se : Int × Int) => acc.removeRaw a (some se.1) (some se.2)) x = .ok y →
    Adm σ y
  | [], x, y, hx, h => by
    simp only [List.foldlM_nil, pure, Except.pure, Except.ok.injEq] at h
    rw [← h]; exact hx
  | se :: l, x, y, hx, h => by
    obtain ⟨z, hz, hl⟩ := MatchL.foldlM_cons_ok h
    exact adm_unmatchLoop a l z y (adm_removeRaw hx hz) hl

theorem adm_unfmatch (hσ : StoreInv σ) {v : Var} {x y : AStr} (hx : σ.get? v = some x) {a : Option SArg}
    {spans : List (Int × Int)} {count : Int} (h : x.unformatMatching a spans count = .ok y) : Adm σ y :=
  adm_unmatchLoop a _ x y (adm_self hσ hx) h

/-- the pieces of `split`/`rsplit`/`splitlines` are slices of the source -/
theorem piecesAt_slices (x : AStr) (offs : List (Nat × Nat)) :
    ∀ p ∈ x.piecesAt offs, ∃ a b, p = x.getSlice a b := by
  intro p hp
  unfold AStr.piecesAt at hp
  obtain ⟨ol, -, e⟩ := List.mem_map.mp hp
  exact ⟨_, _, e.symm⟩

theorem splitGen_slices {x : AStr} {sep : Option Str} {m : Int} {r : Bool} {ps : List AStr}
    (h : x.splitGen sep m r = .ok ps) : ∀ p ∈ ps, ∃ a b, p = x.getSlice a b := by
  unfold AStr.splitGen at h
  split at h
  · cases h
  · injection h with h; subst h; exact piecesAt_slices x _
  · injection h with h; subst h; exact piecesAt_slices x _

theorem adm_getElem? {x : AStr} (hx : Adm σ x) {ps : List AStr}
    (hps : ∀ p ∈ ps, p = x ∨ ∃ a b, p = x.getSlice a b) (j : Nat) :
    ∀ p, ps[j]? = some p → Adm σ p :=
  fun p hp => adm_of_cases hx (hps p (List.mem_of_getElem? hp))

theorem adm_splitPiece {x : AStr} (hx : Adm σ x) {sep : Option Str} {m : Int} {r : Bool}
    {ps : List AStr} (h : x.splitGen sep m r = .ok ps) (j : Nat) : ∀ p, ps[j]? = some p → Adm σ p :=
  adm_getElem? hx (fun p hp => Or.inr (splitGen_slices h p hp)) j

theorem adm_linePiece {x : AStr} (hx : Adm σ x) (keepends : Bool) (j : Nat) :
    ∀ p, (x.splitlines keepends)[j]? = some p → Adm σ p :=
  adm_getElem? hx (fun p hp => Or.inr (piecesAt_slices x _ p hp)) j

/-- the three components of `partition`/`rpartition`: slices of the source, or (no match) the
    source and two empty values -/
theorem adm_partPiece {x : AStr} (hx : Adm σ x) (sep : Str) (r : Bool) (j : Nat) :
    ∀ p, [(x.partitionGen sep r).1, (x.partitionGen sep r).2.1, (x.partitionGen sep r).2.2][j]? = some p →
      Adm σ p := by
  intro p hp
  have hm := List.mem_of_getElem? hp
  unfold AStr.partitionGen at hm
  split at hm
  · simp only [List.mem_cons, List.not_mem_nil, or_false] at hm
    rcases hm with e | e | e <;> rw [e] <;> exact adm_slice hx _ _
  · simp only [List.mem_cons, List.not_mem_nil, or_false] at hm
    rcases hm with e | e | e <;> rw [e]
    · exact hx
    · exact adm_empty
    · exact adm_empty

theorem adm_expandtabs (hσ : StoreInv σ) {v : Var} {x : AStr} (hx : σ.get? v = some x) (k : Int) :
    Adm σ (x.expandtabs k σ.nid) :=
  adm_replace_str hσ hx _ _ _

end adm

/-! ## 5. every operation keeps the invariant -/

theorem inv_step {σ : Store} (h : StoreInv σ) (op : Op) : StoreInv (σ.step op).1 := by
  cases op <;> simp only [Store.step]
  case new d s ss => exact inv_fromExcept h d _ (fun y hy => adm_ofStr hy)
  case copy d src ss =>
    exact inv_withVal h src _ (fun x hx => inv_fromExcept h d _ (fun y hy => adm_ofAStr h hx hy))
  case apply v a st en top =>
    exact inv_withVal h v _ (fun x hx => inv_fromExcept h v _ (fun y hy =>
      adm_applyRaw (adm_self h hx) (Nat.le_refl _) (h.fresh v x hx) hy))
  case remove v a st en =>
    exact inv_withVal h v _ (fun x hx => inv_fromExcept h v _ (fun y hy =>
      adm_removeRaw (adm_self h hx) hy))
  case clear v => exact inv_withVal h v _ (fun x _ => inv_commit h (adm_clear x) v)
  case slice d src a b =>
    exact inv_withVal h src _ (fun x hx => inv_commit h (adm_slice (adm_self h hx) a b) d)
  case index d src i =>
    exact inv_withVal h src _ (fun x hx => inv_fromExcept h d _ (fun y hy =>
      adm_index (adm_self h hx) hy))
  case iadd v u =>
    exact inv_withVal h v _ (fun x hx => inv_withVal h u _ (fun y hy =>
      inv_commit h (adm_iadd_vals h hx hy) v))
  case add d v u =>
    exact inv_withVal h v _ (fun x hx => inv_withVal h u _ (fun y hy =>
      inv_commit h (adm_iadd_vals h hx hy) d))
  case addStr d v t => exact inv_withVal h v _ (fun x hx => inv_commit h (adm_addStr h hx t) d)
  case ljust d src wd fill e =>
    exact inv_withVal h src _ (fun x hx => inv_pad1 h d fill _ (fun c => adm_ljust (adm_self h hx) wd c e))
  case rjust d src wd fill e =>
    exact inv_withVal h src _ (fun x hx => inv_pad1 h d fill _ (fun c => adm_rjust (adm_self h hx) wd c e))
  case center d src wd fill e =>
    exact inv_withVal h src _ (fun x hx => inv_pad1 h d fill _ (fun c => adm_center (adm_self h hx) wd c e))
  case assign v t => exact inv_withVal h v _ (fun x hx => inv_commit h (adm_assign (adm_self h hx) t) v)
  case simplify v => exact inv_withVal h v _ (fun x _ => inv_commit h (adm_simplify x) v)
  case strip d src cs l r =>
    exact inv_withVal h src _ (fun x hx =>
      inv_commit h (adm_of_cases (adm_self h hx) (stripGen_cases x cs l r false)) d)
  case removeprefix d src p =>
    exact inv_withVal h src _ (fun x hx =>
      inv_commit h (adm_of_cases (adm_self h hx) (removeprefix_cases x p)) d)
  case removesuffix d src p =>
    exact inv_withVal h src _ (fun x hx =>
      inv_commit h (adm_of_cases (adm_self h hx) (removesuffix_cases x p)) d)
  case replace d src old new count =>
    refine inv_withVal h src _ (fun x hx => ?_)
    cases new with
    | inr t => exact inv_commit h (adm_replace_str h hx old t count) d
    | inl u => exact inv_withVal h u _ (fun y hy => inv_commit h (adm_replace_astr h hx hy old count _) d)
  case render src spec o rs re =>
    refine inv_withVal h src _ (fun x _ => ?_)
    split <;> exact h
  case find src a st en rev =>
    refine inv_withVal h src _ (fun x _ => ?_)
    split <;> exact h
  case zfill d src wd =>
    exact inv_withVal h src _ (fun x hx => inv_commit h (adm_zfill (adm_self h hx) wd) d)
  case clip d src a b =>
    exact inv_withVal h src _ (fun x hx => inv_commit h (adm_slice (adm_self h hx) a b) d)
  case join d vs =>
    split
    · rename_i xs hxs
      exact inv_commit h (adm_join h hxs) d
    · exact h
  case fmatch v a spans count =>
    exact inv_withVal h v _ (fun x hx => inv_fromExcept h v _ (fun y hy => adm_fmatch h hx hy))
  case unfmatch v a spans count =>
    exact inv_withVal h v _ (fun x hx => inv_fromExcept h v _ (fun y hy => adm_unfmatch h hx hy))
  case splitPiece d src sep m r j =>
    refine inv_withVal h src _ (fun x hx => ?_)
    split
    · rename_i ps hps
      exact inv_piece h d _ (adm_splitPiece (adm_self h hx) hps j)
    · exact h
  case linePiece d src ke j =>
    exact inv_withVal h src _ (fun x hx => inv_piece h d _ (adm_linePiece (adm_self h hx) ke j))
  case partPiece d src sep r j =>
    exact inv_withVal h src _ (fun x hx => inv_piece h d _ (adm_partPiece (adm_self h hx) sep r j))
  case expandtabs d src k =>
    exact inv_withVal h src _ (fun x hx => inv_commit h (adm_expandtabs h hx k) d)

theorem inv_init : StoreInv {} :=
  ⟨fun v x hx => by simp [Store.get?] at hx, fun v x hx => by simp [Store.get?] at hx,
   fun v w x y hx => by simp [Store.get?] at hx⟩

theorem inv_run {σ : Store} (h : StoreInv σ) (ops : List Op) : StoreInv (σ.run ops) := by
  unfold Store.run
  induction ops generalizing σ with
  | nil => exact h
  | cons op rest ih => exact ih (inv_step h op)

/-! ## 6. the error classes an operation can raise -/

open Scrub

/-- "this computation does not raise IndexError" -/
def NoIdx {α : Type} (r : Except PyErr α) : Prop := r ≠ .error .indexError

theorem noIdx_ok {α : Type} (a : α) : NoIdx (Except.ok a : Except PyErr α) := by
  intro h; cases h

theorem noIdx_bind {α β : Type} {r : Except PyErr α} {f : α → Except PyErr β} (hr : NoIdx r)
    (hf : ∀ a, NoIdx (f a)) : NoIdx (r >>= f) := by
  cases r with
  | ok a => exact hf a
  | error e =>
    intro h
    simp only [bind, Except.bind] at h
    injection h with h
    subst h
    exact hr rfl

theorem parseRgb_noIdx (s : Str) : parseRgbString s ≠ some (.error .indexError) := by
  unfold parseRgbString
  dsimp only
  repeat' split
  all_goals simp

theorem scrubDirective_noIdx (fmt : Str) : NoIdx (scrubDirective fmt) := by
  unfold scrubDirective NoIdx
  split
  · simp
  · split
    · rename_i e he
      intro h
      injection h with h
      subst h
      exact parseRgb_noIdx fmt he
    · simp
    · repeat' split
      all_goals simp

theorem foldlM_noIdx {α β : Type} {f : β → α → Except PyErr β} (hf : ∀ b a, NoIdx (f b a)) :
    ∀ (l : List α) (b : β), NoIdx (l.foldlM f b) := by
  intro l
  induction l with
  | nil => intro b; exact noIdx_ok b
  | cons a l ih =>
    intro b
    rw [List.foldlM_cons]
    exact noIdx_bind (hf b a) ih

theorem scrubString_noIdx (s : Str) : NoIdx (scrubString s) := by
  unfold scrubString
  split
  · exact noIdx_ok _
  · split
    · intro h; cases h
    · exact noIdx_ok _
  · exact foldlM_noIdx (fun acc fmt => noIdx_bind (scrubDirective_noIdx fmt) (fun r => noIdx_ok _)) _ _

mutual
theorem scrubItem_noIdx : ∀ a : SArg, NoIdx (scrubItem a)
  | .obj t => by rw [scrubItem]; exact noIdx_ok _
  | .str s => by rw [scrubItem]; exact scrubString_noIdx s
  | .int i => by
    rw [scrubItem]; split
    · intro h; cases h
    · exact noIdx_ok _
  | .member name => by
    rw [scrubItem]; split
    · exact noIdx_ok _
    · intro h; cases h
  | .list l => by
    rw [scrubItem]
    exact noIdx_bind (scrubItems_noIdx l) (fun r => noIdx_ok _)
  | .selfRef => by rw [scrubItem]; intro h; cases h
  | .bad _ => by rw [scrubItem]; intro h; cases h
theorem scrubItems_noIdx : ∀ l : List SArg, NoIdx (scrubItems l)
  | [] => by rw [scrubItems]; exact noIdx_ok _
  | a :: rest => by
    rw [scrubItems]
    exact noIdx_bind (scrubItem_noIdx a) (fun r => noIdx_bind (scrubItems_noIdx rest) (fun rs => noIdx_ok _))
end

theorem scrub_noIdx (a : SArg) : NoIdx (scrub a) := by
  unfold scrub
  split
  · exact noIdx_bind (scrubItems_noIdx _) (fun r => noIdx_ok _)
  · exact noIdx_bind (scrubItem_noIdx _) (fun r => noIdx_ok _)

theorem noIdx_ite {α : Type} {c : Prop} [Decidable c] {a b : Except PyErr α} (ha : NoIdx a) (hb : NoIdx b) :
    NoIdx (if c then a else b) := by
  split
  · exact ha
  · exact hb

theorem applyRaw_noIdx (x : AStr) (nid : Nat) (a : SArg) (st en : Option Int) (top : Bool) :
    NoIdx (x.applyRaw nid a st en top) := by
  unfold AStr.applyRaw
  exact noIdx_ite (noIdx_ok _) (noIdx_bind (scrub_noIdx a) (fun ts => noIdx_ok _))

theorem removeRaw_noIdx (x : AStr) (a : Option SArg) (st en : Option Int) :
    NoIdx (x.removeRaw a st en) := by
  cases a with
  | none =>
    unfold AStr.removeRaw
    exact noIdx_ite (noIdx_ok _) (noIdx_ok _)
  | some a =>
    unfold AStr.removeRaw
    exact noIdx_ite (noIdx_ok _) (noIdx_bind (scrub_noIdx _) (fun ts => noIdx_ok _))

theorem findRaw_noIdx (x : AStr) (a : SArg) (st en : Option Int) (rev : Bool) :
    NoIdx (x.findRaw a st en rev) := by
  unfold AStr.findRaw
  exact noIdx_ite (noIdx_ok _) (noIdx_bind (scrub_noIdx a) (fun ts => noIdx_ok _))

theorem ofStr_noIdx (s : Str) (ss : List SArg) (nid : Nat) : NoIdx (AStr.ofStr s ss nid) := by
  unfold AStr.ofStr
  exact noIdx_ite (noIdx_ok _) (applyRaw_noIdx _ _ _ _ _ _)

theorem ofAStr_noIdx (x : AStr) (ss : List SArg) (nid : Nat) : NoIdx (x.ofAStr ss nid) := by
  unfold AStr.ofAStr
  exact noIdx_ite (noIdx_ok _) (applyRaw_noIdx _ _ _ _ _ _)

theorem applyJust_noIdx (obj : AStr) (nid : Nat) (caps : Re.Caps) (j : Render.Just) (settings : Option Str) :
    NoIdx (Render.applyJust obj nid caps j settings) := by
  unfold Render.applyJust
  dsimp only
  repeat' first
    | exact noIdx_ok _
    | exact applyRaw_noIdx _ _ _ _ _ _
    | apply noIdx_ite
    | apply noIdx_bind
    | intro _

theorem applyStringFormat_noIdx (obj : AStr) (nid : Nat) (fmt : Str) (settings : Option Str) :
    NoIdx (Render.applyStringFormat obj nid fmt settings) := by
  unfold Render.applyStringFormat
  split
  · exact applyJust_noIdx _ _ _ _ _
  · split
    · exact applyJust_noIdx _ _ _ _ _
    · split
      · exact applyJust_noIdx _ _ _ _ _
      · intro h; cases h

theorem applySpec_noIdx (x : AStr) (nid : Nat) (spec : Str) : NoIdx (Render.applySpec x nid spec) := by
  unfold Render.applySpec
  refine noIdx_ite (applyStringFormat_noIdx _ _ _ _) ?_
  split
  · exact noIdx_ite (noIdx_ok _) (applyRaw_noIdx _ _ _ _ _ _)
  · exact noIdx_ok _

theorem toStr_noIdx (x : AStr) (spec : Option Str) (o rs re : Bool) (nid : Nat) :
    NoIdx (x.toStr spec o rs re nid) := by
  unfold AStr.toStr
  refine noIdx_ite (noIdx_ok _) (noIdx_ite ?_ (noIdx_ok _))
  exact noIdx_bind (applySpec_noIdx _ _ _) (fun obj => noIdx_ok _)

theorem formatMatchingFrom_noIdx (x : AStr) (nid : Nat) (a : SArg) (spans : List (Int × Int)) (count : Int) :
    NoIdx (x.formatMatchingFrom nid a spans count) :=
  foldlM_noIdx (fun _ _ => applyRaw_noIdx _ _ _ _ _ _) _ _

theorem unformatMatching_noIdx (x : AStr) (a : Option SArg) (spans : List (Int × Int)) (count : Int) :
    NoIdx (x.unformatMatching a spans count) :=
  foldlM_noIdx (fun _ _ => removeRaw_noIdx _ _ _ _) _ _

/-- `split`/`rsplit` raise nothing but the `ValueError` of an empty separator -/
theorem splitGen_err (x : AStr) (sep : Option Str) (m : Int) (r : Bool) (e : PyErr)
    (h : x.splitGen sep m r = .error e) : e = .valueError ∧ sep = some [] := by
  unfold AStr.splitGen at h
  split at h
  · injection h with h; exact ⟨h.symm, rfl⟩
  · cases h
  · cases h

/-- `x[i]` raises nothing but `IndexError` -/
theorem getIndex_err (x : AStr) (i : Int) (e : PyErr) (h : x.getIndex i = .error e) : e = .indexError := by
  unfold AStr.getIndex at h
  split at h
  · injection h with h; exact h.symm
  · cases h

/-! ### outcomes of `step` -/

/-- the outcomes other than `IndexError` -/
def Doc (o : Outcome) : Prop :=
  o = .ok ∨ (∃ s, o = .str s) ∨ (∃ a b, o = .range a b) ∨ o = .err .typeError ∨ o = .err .valueError ∨
    o = .unbound

/-- success or an unbound script variable: the operation itself cannot fail -/
def Total (o : Outcome) : Prop := o = .ok ∨ o = .unbound

theorem Total.doc {o : Outcome} (h : Total o) : Doc o := by
  rcases h with h | h
  · exact Or.inl h
  · exact Or.inr (Or.inr (Or.inr (Or.inr (Or.inr h))))

theorem doc_err {e : PyErr} (h : e ≠ .indexError) : Doc (.err e) := by
  cases e with
  | typeError => exact Or.inr (Or.inr (Or.inr (Or.inl rfl)))
  | valueError => exact Or.inr (Or.inr (Or.inr (Or.inr (Or.inl rfl))))
  | indexError => exact absurd rfl h

theorem total_commit (σ : Store) (v : Var) (x : AStr) : Total (σ.commit v x).2 := Or.inl rfl

theorem total_withVal (σ : Store) (v : Var) (k : AStr → Store × Outcome) (hk : ∀ x, Total (k x).2) :
    Total (σ.withVal v k).2 := by
  unfold Store.withVal
  cases σ.get? v with
  | none => exact Or.inr rfl
  | some x => exact hk x

theorem doc_withVal (σ : Store) (v : Var) (k : AStr → Store × Outcome) (hk : ∀ x, Doc (k x).2) :
    Doc (σ.withVal v k).2 := by
  unfold Store.withVal
  cases σ.get? v with
  | none => exact Total.doc (Or.inr rfl)
  | some x => exact hk x

theorem doc_fromExcept (σ : Store) (v : Var) {r : Except PyErr AStr} (hr : NoIdx r) :
    Doc (σ.fromExcept v r).2 := by
  cases r with
  | ok x => exact Or.inl rfl
  | error e => exact doc_err (fun h => hr (by rw [h]))

theorem total_piece (σ : Store) (d : Var) (o : Option AStr) : Total (σ.piece d o).2 := by
  cases o with
  | some p => exact Or.inl rfl
  | none => exact Or.inr rfl

theorem doc_pad1 (σ : Store) (d : Var) (fill : Str) (f : Char → AStr) : Doc (σ.pad1 d fill f).2 := by
  unfold Store.pad1
  split
  · exact Or.inl rfl
  · exact doc_err (by intro h; cases h)

/-- the operations that cannot fail -/
def neverFails : Op → Bool
  | .clear _ | .slice _ _ _ _ | .iadd _ _ | .add _ _ _ | .addStr _ _ _ | .assign _ _ | .simplify _
  | .strip _ _ _ _ _ | .removeprefix _ _ _ | .removesuffix _ _ _ | .replace _ _ _ _ _
  | .zfill _ _ _ | .clip _ _ _ _ | .join _ _ | .linePiece _ _ _ _ | .partPiece _ _ _ _ _
  | .expandtabs _ _ _ => true
  | _ => false

theorem step_total (σ : Store) (op : Op) (h : neverFails op = true) : Total (σ.step op).2 := by
  cases op <;> simp only [neverFails, Bool.false_eq_true] at h <;> simp only [Store.step]
  case clear v => exact total_withVal σ v _ (fun x => total_commit σ v _)
  case slice d src a b => exact total_withVal σ src _ (fun x => total_commit σ d _)
  case iadd v u => exact total_withVal σ v _ (fun x => total_withVal σ u _ (fun y => total_commit σ v _))
  case add d v u => exact total_withVal σ v _ (fun x => total_withVal σ u _ (fun y => total_commit σ d _))
  case addStr d v t => exact total_withVal σ v _ (fun x => total_commit σ d _)
  case assign v t => exact total_withVal σ v _ (fun x => total_commit σ v _)
  case simplify v => exact total_withVal σ v _ (fun x => total_commit σ v _)
  case strip d src cs l r => exact total_withVal σ src _ (fun x => total_commit σ d _)
  case removeprefix d src p => exact total_withVal σ src _ (fun x => total_commit σ d _)
  case removesuffix d src p => exact total_withVal σ src _ (fun x => total_commit σ d _)
  case replace d src old new count =>
    refine total_withVal σ src _ (fun x => ?_)
    cases new with
    | inr t => exact total_commit σ d _
    | inl u => exact total_withVal σ u _ (fun y => total_commit σ d _)
  case zfill d src wd => exact total_withVal σ src _ (fun x => total_commit σ d _)
  case clip d src a b => exact total_withVal σ src _ (fun x => total_commit σ d _)
  case join d vs =>
    split
    · exact total_commit σ d _
    · exact Or.inr rfl
  case linePiece d src ke j => exact total_withVal σ src _ (fun x => total_piece σ d _)
  case partPiece d src sep r j => exact total_withVal σ src _ (fun x => total_piece σ d _)
  case expandtabs d src k => exact total_withVal σ src _ (fun x => total_commit σ d _)

/-- every operation but the integer index: no `IndexError` -/
theorem step_doc (σ : Store) (op : Op) (hop : ∀ d s i, op ≠ .index d s i) : Doc (σ.step op).2 := by
  by_cases hn : neverFails op = true
  · exact (step_total σ op hn).doc
  · cases op <;> simp only [neverFails, not_true_eq_false] at hn <;> simp only [Store.step]
    case new d s ss => exact doc_fromExcept σ d (ofStr_noIdx _ _ _)
    case copy d src ss => exact doc_withVal σ src _ (fun x => doc_fromExcept σ d (ofAStr_noIdx _ _ _))
    case apply v a st en top =>
      exact doc_withVal σ v _ (fun x => doc_fromExcept σ v (applyRaw_noIdx _ _ _ _ _ _))
    case remove v a st en => exact doc_withVal σ v _ (fun x => doc_fromExcept σ v (removeRaw_noIdx _ _ _ _))
    case index d src i => exact absurd rfl (hop d src i)
    case ljust d src wd fill e => exact doc_withVal σ src _ (fun x => doc_pad1 σ d fill _)
    case rjust d src wd fill e => exact doc_withVal σ src _ (fun x => doc_pad1 σ d fill _)
    case center d src wd fill e => exact doc_withVal σ src _ (fun x => doc_pad1 σ d fill _)
    case render src spec o rs re =>
      refine doc_withVal σ src _ (fun x => ?_)
      have := toStr_noIdx x spec o rs re σ.nid
      split
      · exact Or.inr (Or.inl ⟨_, rfl⟩)
      · rename_i e he
        exact doc_err (fun h => this (by rw [he, h]))
    case find src a st en rev =>
      refine doc_withVal σ src _ (fun x => ?_)
      have := findRaw_noIdx x a st en rev
      split
      · exact Or.inr (Or.inr (Or.inl ⟨_, _, rfl⟩))
      · rename_i e he
        exact doc_err (fun h => this (by rw [he, h]))
    case fmatch v a spans count =>
      exact doc_withVal σ v _ (fun x => doc_fromExcept σ v (formatMatchingFrom_noIdx _ _ _ _ _))
    case unfmatch v a spans count =>
      exact doc_withVal σ v _ (fun x => doc_fromExcept σ v (unformatMatching_noIdx _ _ _ _))
    case splitPiece d src sep m r j =>
      refine doc_withVal σ src _ (fun x => ?_)
      split
      · exact (total_piece σ d _).doc
      · rename_i e he
        rw [(splitGen_err x sep m r e he).1]
        exact doc_err (by intro h; cases h)

/-- the integer index: success, `IndexError`, or an unbound variable -/
theorem step_index (σ : Store) (d src : Var) (i : Int) :
    (σ.step (.index d src i)).2 = .ok ∨ (σ.step (.index d src i)).2 = .err .indexError ∨
      (σ.step (.index d src i)).2 = .unbound := by
  simp only [Store.step, Store.withVal]
  cases σ.get? src with
  | none => exact Or.inr (Or.inr rfl)
  | some x =>
    simp only
    cases hg : x.getIndex i with
    | ok y => exact Or.inl rfl
    | error e =>
      rw [getIndex_err x i e hg]
      exact Or.inr (Or.inl rfl)

/-- … and which of the two it is -/
theorem step_index_ok (σ : Store) (d src : Var) (i : Int) (x : AStr) (hx : σ.get? src = some x) :
    ((σ.step (.index d src i)).2 = .ok ↔ (-(x.len : Int) ≤ i ∧ i < x.len)) ∧
    ((σ.step (.index d src i)).2 = .err .indexError ↔ (i < -(x.len : Int) ∨ i ≥ x.len)) := by
  have e : (σ.step (.index d src i)).2 = (σ.fromExcept d (x.getIndex i)).2 := by
    simp only [Store.step, Store.withVal, hx]
  rw [e]
  by_cases h : i < -(x.len : Int) ∨ i ≥ x.len
  · rw [C04.getIndex_error x i h]
    show (Outcome.err .indexError = .ok ↔ _) ∧ (Outcome.err .indexError = .err .indexError ↔ _)
    constructor
    · constructor
      · intro h'; cases h'
      · intro h'; omega
    · exact ⟨fun _ => h, fun _ => rfl⟩
  · rw [C04.getIndex_spec x i (by omega) (by omega)]
    show (Outcome.ok = .ok ↔ _) ∧ (Outcome.ok = .err .indexError ↔ _)
    constructor
    · exact ⟨fun _ => by omega, fun _ => rfl⟩
    · constructor
      · intro h'; cases h'
      · intro h'; exact absurd h' h

/-- a pad with a one-character fill cannot fail; any other fill is a `ValueError`
    (CPython: "The fill character must be exactly one character long") -/
theorem pad1_outcome (σ : Store) (d : Var) (fill : Str) (f : Char → AStr) :
    (fill.length = 1 → (σ.pad1 d fill f).2 = .ok) ∧
    (fill.length ≠ 1 → (σ.pad1 d fill f).2 = .err .valueError) := by
  unfold Store.pad1
  split
  · exact ⟨fun _ => rfl, fun h => absurd rfl h⟩
  · rename_i hne
    refine ⟨fun h => ?_, fun _ => rfl⟩
    match fill, h, hne with
    | [c], _, hne => exact absurd rfl (hne c)

/-- `split`/`rsplit`: an empty separator is a `ValueError` (as for `str`), anything else succeeds
    (`unbound`: the script named a variable or a piece that does not exist) -/
theorem splitPiece_outcome (σ : Store) (d src : Var) (sep : Option Str) (m : Int) (r : Bool) (j : Nat) :
    (sep ≠ some [] → Total (σ.step (.splitPiece d src sep m r j)).2) ∧
    (sep = some [] → (σ.step (.splitPiece d src sep m r j)).2 = .err .valueError ∨
      (σ.step (.splitPiece d src sep m r j)).2 = .unbound) := by
  simp only [Store.step]
  constructor
  · intro hs
    refine total_withVal σ src _ (fun x => ?_)
    split
    · exact total_piece σ d _
    · rename_i e he
      exact absurd (splitGen_err x sep m r e he).2 hs
  · intro hs
    subst hs
    unfold Store.withVal
    cases σ.get? src with
    | none => exact Or.inr rfl
    | some x => exact Or.inl rfl

end StoreL
