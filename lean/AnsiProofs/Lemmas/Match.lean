import AnsiProofs.Props.C06
import AnsiProofs.Props.C07
/-
  Helper lemmas for property C16 (`format_matching`, `unformat_matching`).

  Part 1: `Fmts.nextId` is above every identity of the table.
  Part 2: `takeCount` = the `count` bookkeeping of the Python loop.
  Part 3: one loop iteration (`stepF` = `apply_formatting_for_match`, `stepU` = `remove_formatting`
          on the span of a match): text, invariant, characters outside the span.
  Part 4: the loop (`List.foldlM` in `Except`): the same three facts by induction over the spans.

  Everything is inside `namespace MatchL`.  The finished theorems of C06 (`apply_text`,
  `apply_outside`, `apply_wf`, `freshSettings_fresh`, `applyRaw_spec`) and C07 (`remove_text`,
  `remove_outside`, `remove_wf`, `removeRaw_spec`) are used as they are.
-/

namespace MatchL

/-! ## Part 1: `nextId` -/

/-- the inner fold of `Fmts.nextId` -/
def maxIds (m : Nat) (l : List Setting) : Nat := l.foldl (fun m s => max m (s.id + 1)) m

theorem maxIds_ge (l : List Setting) (m : Nat) : m ≤ maxIds m l := by
  induction l generalizing m with
  | nil => exact Nat.le_refl _
  | cons s l ih =>
    have := ih (max m (s.id + 1))
    simp only [maxIds, List.foldl_cons] at this ⊢
    omega

theorem maxIds_gt (l : List Setting) (m : Nat) {s : Setting} (h : s ∈ l) : s.id < maxIds m l := by
  induction l generalizing m with
  | nil => cases h
  | cons t l ih =>
    rcases List.mem_cons.mp h with e | h'
    · subst e
      have := maxIds_ge l (max m (s.id + 1))
      simp only [maxIds, List.foldl_cons] at this ⊢
      omega
    · have := ih (max m (t.id + 1)) h'
      simpa only [maxIds, List.foldl_cons] using this

/-- the outer fold of `Fmts.nextId`, from an arbitrary start value -/
def maxTbl (m : Nat) (f : Fmts) : Nat := f.foldl (fun m kp => maxIds m (kp.2.add ++ kp.2.rem)) m

theorem nextId_eq (f : Fmts) : f.nextId = maxTbl 0 f := rfl

theorem maxTbl_ge (f : Fmts) (m : Nat) : m ≤ maxTbl m f := by
  induction f generalizing m with
  | nil => exact Nat.le_refl _
  | cons kp f ih =>
    have h1 := ih (maxIds m (kp.2.add ++ kp.2.rem))
    have h2 := maxIds_ge (kp.2.add ++ kp.2.rem) m
    simp only [maxTbl, List.foldl_cons] at h1 ⊢
    omega

theorem maxTbl_gt (f : Fmts) (m : Nat) {s : Setting} (h : s ∈ Fmts.settings f) : s.id < maxTbl m f := by
  induction f generalizing m with
  | nil => simp [Fmts.settings] at h
  | cons kp f ih =>
    simp only [Fmts.settings, List.flatMap_cons, List.mem_append] at h
    rcases h with h | h
    · have h1 := maxIds_gt (kp.2.add ++ kp.2.rem) m (List.mem_append.mpr h)
      have h2 := maxTbl_ge f (maxIds m (kp.2.add ++ kp.2.rem))
      simp only [maxTbl, List.foldl_cons] at h2 ⊢
      omega
    · have := ih (maxIds m (kp.2.add ++ kp.2.rem)) (by simpa only [Fmts.settings] using h)
      simpa only [maxTbl, List.foldl_cons] using this

/-- every identity in the table is below `nextId` -/
theorem nextId_fresh (x : AStr) : FreshFrom x x.fmts.nextId := by
  intro s hs
  rw [nextId_eq]
  exact maxTbl_gt x.fmts 0 hs

/-! ## Part 2: `takeCount` -/

theorem takeCount_neg {c : Int} (h : c < 0) (spans : List (Int × Int)) : takeCount c spans = spans := by
  simp [takeCount, h]

theorem takeCount_nonneg {c : Int} (h : 0 ≤ c) (spans : List (Int × Int)) :
    takeCount c spans = spans.take c.toNat := by
  have : ¬ c < 0 := by omega
  simp [takeCount, this]

theorem takeCount_nil (c : Int) : takeCount c [] = [] := by
  unfold takeCount
  split <;> simp

theorem takeCount_zero (spans : List (Int × Int)) : takeCount 0 spans = [] := by
  simp [takeCount]

/-- one round of the Python loop: `if count < 0 or count > 0: …; if count > 0: count -= 1` -/
theorem takeCount_cons {c : Int} (h : c ≠ 0) (se : Int × Int) (rest : List (Int × Int)) :
    takeCount c (se :: rest) = se :: takeCount (if c > 0 then c - 1 else c) rest := by
  by_cases hc : c < 0
  · have h' : ¬ c > 0 := by omega
    simp [takeCount, hc, h']
  · have h' : c > 0 := by omega
    have h2 : ¬ c - 1 < 0 := by omega
    have h3 : c.toNat = (c - 1).toNat + 1 := by omega
    unfold takeCount
    rw [if_neg hc, if_pos h', if_neg h2, h3, List.take_succ_cons]

theorem takeCount_sublist (c : Int) (spans : List (Int × Int)) : (takeCount c spans).Sublist spans := by
  unfold takeCount
  split
  · exact List.Sublist.refl _
  · exact List.take_sublist _ _

/-! ## Part 3: one iteration -/

/-- `self.apply_formatting_for_match(format, match)` -/
def stepF (a : SArg) (acc : AStr) (se : Int × Int) : Except PyErr AStr :=
  acc.applyRaw acc.fmts.nextId a (some se.1) (some se.2) true

/-- `self.remove_formatting(format, match.start(0), match.end(0))` -/
def stepU (a : Option SArg) (acc : AStr) (se : Int × Int) : Except PyErr AStr :=
  acc.removeRaw a (some se.1) (some se.2)

theorem formatMatching_eq (x : AStr) (a : SArg) (spans : List (Int × Int)) (c : Int) :
    x.formatMatching a spans c = (takeCount c spans).foldlM (stepF a) x := rfl

theorem unformatMatching_eq (x : AStr) (a : Option SArg) (spans : List (Int × Int)) (c : Int) :
    x.unformatMatching a spans c = (takeCount c spans).foldlM (stepU a) x := rfl

theorem len_eq_of_s {x y : AStr} (h : y.s = x.s) : y.len = x.len := by
  unfold AStr.len; rw [h]

theorem stepF_text {a : SArg} {x y : AStr} {se : Int × Int} (h : stepF a x se = .ok y) : y.s = x.s := by
  rcases applyRaw_spec x y _ a _ _ true h with e | ⟨ts, _, e⟩
  · rw [e]
  · rw [e]; exact apply_text _ _ _ _ _

theorem stepF_wf {a : SArg} {x y : AStr} {se : Int × Int} (hw : WF x) (h : stepF a x se = .ok y) : WF y := by
  rcases applyRaw_spec x y _ a _ _ true h with e | ⟨ts, _, e⟩
  · rw [e]; exact hw
  · rw [e]
    exact apply_wf _ _ _ _ _ hw (freshSettings_fresh x _ ts (nextId_fresh x))

theorem stepF_outside {a : SArg} {x y : AStr} {se : Int × Int} (hw : WF x) (h : stepF a x se = .ok y)
    (i : Nat) (hi : i < sliceIdx x.len (some se.1) 0 ∨ sliceIdx x.len (some se.2) x.len ≤ i) :
    act y i = act x i := by
  rcases applyRaw_spec x y _ a _ _ true h with e | ⟨ts, _, e⟩
  · rw [e]
  · rw [e]
    exact apply_outside x _ _ _ true rfl rfl hw (freshSettings_fresh x _ ts (nextId_fresh x)) i hi

theorem stepF_falsy {a : SArg} (ha : a.truthy = false) (x : AStr) (se : Int × Int) : stepF a x se = .ok x := by
  simp [stepF, AStr.applyRaw, ha]

theorem stepU_text {a : Option SArg} {x y : AStr} {se : Int × Int} (h : stepU a x se = .ok y) : y.s = x.s := by
  rcases removeRaw_spec x a _ _ y h with e | ⟨_, e⟩ | ⟨_, _, _, _, e⟩
  · rw [e]
  · rw [e]; exact remove_text _ _ _ _
  · rw [e]; exact remove_text _ _ _ _

theorem stepU_wf {a : Option SArg} {x y : AStr} {se : Int × Int} (hw : WF x) (h : stepU a x se = .ok y) :
    WF y := by
  rcases removeRaw_spec x a _ _ y h with e | ⟨_, e⟩ | ⟨_, _, _, _, e⟩
  · rw [e]; exact hw
  · rw [e]; exact remove_wf x hw _ _ _
  · rw [e]; exact remove_wf x hw _ _ _

theorem stepU_outside {a : Option SArg} {x y : AStr} {se : Int × Int} (hw : WF x) (h : stepU a x se = .ok y)
    (i : Nat) (hi : i < sliceIdx x.len (some se.1) 0 ∨ sliceIdx x.len (some se.2) x.len ≤ i) :
    act y i = act x i := by
  rcases removeRaw_spec x a _ _ y h with e | ⟨_, e⟩ | ⟨_, _, _, _, e⟩
  · rw [e]
  · rw [e]; exact remove_outside x hw _ _ _ i hi
  · rw [e]; exact remove_outside x hw _ _ _ i hi

theorem stepU_falsy {arg : SArg} (ha : arg.truthy = false) (x : AStr) (se : Int × Int) :
    stepU (some arg) x se = .ok x := by
  simp [stepU, AStr.removeRaw, ha]

/-! ## Part 4: the loop -/

/-- unrolling `List.foldlM` in `Except` once -/
theorem foldlM_cons_ok {step : AStr → Int × Int → Except PyErr AStr} {x z : AStr} {se : Int × Int}
    {l : List (Int × Int)} (h : (se :: l).foldlM step x = .ok z) :
    ∃ y, step x se = .ok y ∧ l.foldlM step y = .ok z := by
  rw [List.foldlM_cons] at h
  cases hs : step x se with
  | error e => rw [hs] at h; cases h
  | ok y' => rw [hs] at h; exact ⟨y', rfl, h⟩

/-- A step that keeps the text, keeps `WF` and leaves every character outside its span alone, run
    over a list of spans, keeps the text, keeps `WF` and leaves alone every character that is
    outside all of the spans (the spans being slice-normalised against the — constant — length). -/
theorem fold_spec {step : AStr → Int × Int → Except PyErr AStr}
    (htext : ∀ {x y : AStr} {se : Int × Int}, step x se = .ok y → y.s = x.s)
    (hwf : ∀ {x y : AStr} {se : Int × Int}, WF x → step x se = .ok y → WF y)
    (hout : ∀ {x y : AStr} {se : Int × Int}, WF x → step x se = .ok y → ∀ i : Nat,
      (i < sliceIdx x.len (some se.1) 0 ∨ sliceIdx x.len (some se.2) x.len ≤ i) → act y i = act x i)
    (l : List (Int × Int)) {x z : AStr} (h : l.foldlM step x = .ok z) :
    z.s = x.s ∧ (WF x → WF z ∧ ∀ i : Nat,
      (∀ se ∈ l, i < sliceIdx x.len (some se.1) 0 ∨ sliceIdx x.len (some se.2) x.len ≤ i) →
      act z i = act x i) := by
  induction l generalizing x with
  | nil =>
    rw [List.foldlM_nil] at h
    cases h
    exact ⟨rfl, fun hw => ⟨hw, fun _ _ => rfl⟩⟩
  | cons se l ih =>
    obtain ⟨y, h1, h2⟩ := foldlM_cons_ok h
    obtain ⟨t2, r2⟩ := ih h2
    have t1 := htext h1
    refine ⟨t2.trans t1, fun hw => ?_⟩
    have hwy := hwf hw h1
    obtain ⟨wz, oz⟩ := r2 hwy
    refine ⟨wz, fun i hi => ?_⟩
    have hl : y.len = x.len := len_eq_of_s t1
    rw [oz i (fun se' hm => by rw [hl]; exact hi se' (List.mem_cons_of_mem _ hm))]
    exact hout hw h1 i (hi se (List.mem_cons_self ..))

theorem fold_falsy {step : AStr → Int × Int → Except PyErr AStr}
    (h : ∀ x se, step x se = .ok x) (l : List (Int × Int)) (x : AStr) : l.foldlM step x = .ok x := by
  induction l with
  | nil => rfl
  | cons se l ih => rw [List.foldlM_cons, h]; exact ih

end MatchL
