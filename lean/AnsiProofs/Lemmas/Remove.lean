import AnsiProofs.Lemmas.Basic
/-
  Helper lemmas for property C07 (`remove_formatting`).

  Plan: (A) list facts about `hasId`/`eraseId`/`filter` under pairwise distinct identities,
  (B) tables: `ensure`, the final `filter`, `replay` as a `map`, `replayOk` by index,
  (C) the three point transformations of the loop (`removeAtStart`, middle, end of range),
  (D) the output table of `removeLoop` as a function of the key, (E) induction on the index.
-/

namespace Remove

/-! ## A. lists of settings with pairwise distinct identities -/

abbrev ids (l : List Setting) : List Nat := l.map (·.id)

theorem hasId_iff {l : List Setting} {i : Nat} : hasId l i = true ↔ ∃ s ∈ l, s.id = i := by
  simp [hasId]

theorem hasId_false_iff {l : List Setting} {i : Nat} : hasId l i = false ↔ ∀ s ∈ l, s.id ≠ i := by
  simp [hasId]

theorem hasId_nil (i : Nat) : hasId [] i = false := rfl

theorem hasId_cons (a : Setting) (l : List Setting) (i : Nat) :
    hasId (a :: l) i = (a.id == i || hasId l i) := by
  simp [hasId]

theorem hasId_append (l₁ l₂ : List Setting) (i : Nat) :
    hasId (l₁ ++ l₂) i = (hasId l₁ i || hasId l₂ i) := by
  simp [hasId]

theorem hasId_of_mem {l : List Setting} {s : Setting} (h : s ∈ l) : hasId l s.id = true :=
  hasId_iff.mpr ⟨s, h, rfl⟩

theorem hasId_perm {l₁ l₂ : List Setting} (h : l₁.Perm l₂) (i : Nat) : hasId l₁ i = hasId l₂ i := by
  unfold hasId
  exact h.any_eq

theorem nodup_filter {l : List Setting} (h : (ids l).Nodup) (q : Setting → Bool) :
    (ids (l.filter q)).Nodup :=
  ((List.filter_sublist (p := q) (l := l)).map (·.id)).nodup h

theorem nodup_cons {a : Setting} {l : List Setting} (h : (ids (a :: l)).Nodup) :
    (∀ s ∈ l, s.id ≠ a.id) ∧ (ids l).Nodup := by
  simp only [ids, List.map_cons, List.nodup_cons, List.mem_map, not_exists, not_and] at h
  exact ⟨fun s hs => h.1 s hs, h.2⟩

/-- under distinct identities, an element is determined by its identity -/
theorem eq_of_id_eq {l : List Setting} (h : (ids l).Nodup) {s t : Setting} (hs : s ∈ l) (ht : t ∈ l)
    (e : s.id = t.id) : s = t := by
  induction l with
  | nil => cases hs
  | cons a l ih =>
    obtain ⟨h1, h2⟩ := nodup_cons h
    rcases List.mem_cons.mp hs with rfl | hs' <;> rcases List.mem_cons.mp ht with rfl | ht'
    · rfl
    · exact absurd e.symm (h1 t ht')
    · exact absurd e (h1 s hs')
    · exact ih h2 hs' ht'

/-- membership of an identity in a filtered list -/
theorem hasId_filter_of_mem {l : List Setting} (h : (ids l).Nodup) (q : Setting → Bool)
    {s : Setting} (hs : s ∈ l) : hasId (l.filter q) s.id = q s := by
  cases hq : q s with
  | true => exact hasId_iff.mpr ⟨s, List.mem_filter.mpr ⟨hs, hq⟩, rfl⟩
  | false =>
    apply hasId_false_iff.mpr
    intro t ht e
    obtain ⟨ht1, ht2⟩ := List.mem_filter.mp ht
    have := eq_of_id_eq h ht1 hs e
    subst this
    rw [hq] at ht2
    cases ht2

theorem hasId_filter_id (l : List Setting) (q : Nat → Bool) (i : Nat) :
    hasId (l.filter (fun s => q s.id)) i = (hasId l i && q i) := by
  induction l with
  | nil => rfl
  | cons a l ih =>
    by_cases hq : q a.id = true
    · rw [List.filter_cons_of_pos (by simpa using hq), hasId_cons, hasId_cons, ih]
      by_cases e : a.id = i
      · subst e; simp [hq]
      · have : (a.id == i) = false := by simpa using e
        simp [this]
    · have hq' : q a.id = false := by simpa using hq
      rw [List.filter_cons_of_neg (by simpa using hq'), hasId_cons, ih]
      by_cases e : a.id = i
      · subst e; simp [hq']
      · have : (a.id == i) = false := by simpa using e
        simp [this]

theorem eraseId_eq_filter {l : List Setting} (h : (ids l).Nodup) (i : Nat) :
    eraseId l i = l.filter (fun s => s.id != i) := by
  induction l with
  | nil => rfl
  | cons a l ih =>
    obtain ⟨h1, h2⟩ := nodup_cons h
    unfold eraseId at ih ⊢
    by_cases e : a.id = i
    · subst e
      rw [List.eraseP_cons_of_pos (by simp)]
      rw [List.filter_cons_of_neg (by simp)]
      symm
      apply List.filter_eq_self.mpr
      intro s hs
      simpa using h1 s hs
    · rw [List.eraseP_cons_of_neg (by simpa using e)]
      rw [List.filter_cons_of_pos (by simpa using e), ih h2]

theorem eraseId_of_not_hasId {l : List Setting} {i : Nat} (h : hasId l i = false) : eraseId l i = l := by
  unfold eraseId
  apply List.eraseP_of_forall_not
  intro s hs
  have := hasId_false_iff.mp h s hs
  simpa using this

theorem foldl_eraseId_eq_filter (R : List Setting) {c : List Setting} (h : (ids c).Nodup) :
    R.foldl (fun c s => eraseId c s.id) c = c.filter (fun s => !hasId R s.id) := by
  induction R generalizing c with
  | nil =>
    symm
    apply List.filter_eq_self.mpr
    intro s _
    rfl
  | cons r R ih =>
    rw [List.foldl_cons, eraseId_eq_filter h, ih (nodup_filter h _), List.filter_filter]
    apply List.filter_congr
    intro s _
    rw [hasId_cons]
    by_cases e : r.id = s.id
    · simp [e]
    · have e' : ¬ s.id = r.id := fun x => e x.symm
      have e1 : (r.id == s.id) = false := by simpa using e
      have e2 : (s.id != r.id) = true := by simpa using e'
      rw [e1, e2]
      simp

theorem stepPoint_eq {c : List Setting} (h : (ids c).Nodup) (p : Point) :
    stepPoint c p = c.filter (fun s => !hasId p.rem s.id) ++ p.add := by
  unfold stepPoint
  rw [foldl_eraseId_eq_filter _ h]

/-- the library's assertion, under distinct identities -/
theorem stepOk_iff {c : List Setting} (h : (ids c).Nodup) (R : List Setting) :
    stepOk c R = true ↔ (∀ r ∈ R, hasId c r.id = true) ∧ (ids R).Nodup := by
  induction R generalizing c with
  | nil => simp [stepOk]
  | cons r R ih =>
    simp only [stepOk, Bool.and_eq_true]
    rw [ih (c := eraseId c r.id) (by rw [eraseId_eq_filter h]; exact nodup_filter h _)]
    rw [eraseId_eq_filter h]
    constructor
    · rintro ⟨h1, h2, h3⟩
      refine ⟨?_, ?_⟩
      · intro r' hr'
        rcases List.mem_cons.mp hr' with rfl | hr'
        · exact h1
        · have := h2 r' hr'
          rw [hasId_filter_id c (fun j => j != r.id)] at this
          simp only [Bool.and_eq_true] at this
          exact this.1
      · simp only [ids, List.map_cons, List.nodup_cons, List.mem_map, not_exists, not_and]
        refine ⟨?_, h3⟩
        intro r' hr' e
        have := h2 r' hr'
        rw [hasId_filter_id c (fun j => j != r.id)] at this
        simp [e] at this
    · rintro ⟨h1, h2⟩
      obtain ⟨h3, h4⟩ := nodup_cons h2
      refine ⟨h1 r (by simp), ?_, h4⟩
      intro r' hr'
      rw [hasId_filter_id c (fun j => j != r.id)]
      simp only [Bool.and_eq_true]
      refine ⟨h1 r' (by simp [hr']), ?_⟩
      simpa using h3 r' hr'

/-! ## B. tables -/

open Fmts in
theorem toFun_cons (k' : Nat) (p : Point) (rest : Fmts) (k : Nat) :
    toFun ((k', p) :: rest) k = if k' = k then p else if k < k' then {} else toFun rest k := by
  unfold toFun Fmts.getD
  rw [get?_cons]
  by_cases h1 : k' = k
  · simp [h1]
  · by_cases h2 : k < k' <;> simp [h1, h2]

theorem toFun_nil (k : Nat) : Fmts.toFun [] k = {} := rfl

theorem toFun_of_LB {lo : Nat} {f : Fmts} (h : Fmts.LB lo f) {k : Nat} (hk : k < lo) :
    Fmts.toFun f k = {} := by
  unfold Fmts.toFun Fmts.getD
  rw [Fmts.get?_of_LB h hk]
  rfl

theorem toFun_of_mem {f : Fmts} (h : SortedKeys f) {k : Nat} {p : Point} (hm : (k, p) ∈ f) :
    Fmts.toFun f k = p := by
  unfold Fmts.toFun Fmts.getD
  rw [Fmts.get?_eq_some_of_mem h hm]
  rfl

/-- the point stored under a key is the empty point or an entry of the table -/
theorem toFun_mem_or (f : Fmts) (k : Nat) : Fmts.toFun f k = {} ∨ (k, Fmts.toFun f k) ∈ f := by
  unfold Fmts.toFun Fmts.getD
  cases h : f.get? k with
  | none => left; rfl
  | some p => right; exact Fmts.mem_of_get?_eq_some h

theorem contains_iff {f : Fmts} {k : Nat} : f.contains k = true ↔ ∃ p, f.get? k = some p := by
  unfold Fmts.contains
  cases f.get? k <;> simp

theorem sorted_ensure {f : Fmts} (h : SortedKeys f) (k : Nat) : SortedKeys (f.ensure k) := by
  unfold Fmts.ensure
  split
  · exact h
  · exact Fmts.sorted_set h k {}

theorem toFun_ensure {f : Fmts} (h : SortedKeys f) (k j : Nat) :
    Fmts.toFun (f.ensure k) j = Fmts.toFun f j := by
  unfold Fmts.ensure
  split
  · rfl
  · rename_i hc
    rw [Fmts.toFun_set h]
    split
    · rename_i e
      subst e
      unfold Fmts.toFun Fmts.getD
      unfold Fmts.contains at hc
      cases hg : f.get? j with
      | none => rfl
      | some p => rw [hg] at hc; simp at hc
    · rfl

theorem contains_ensure_self {f : Fmts} (h : SortedKeys f) (k : Nat) : (f.ensure k).contains k = true := by
  unfold Fmts.ensure
  split
  · assumption
  · unfold Fmts.contains
    rw [Fmts.get?_set h]
    simp

theorem contains_ensure_of_contains {f : Fmts} (h : SortedKeys f) (k j : Nat) (hj : f.contains j = true) :
    (f.ensure k).contains j = true := by
  unfold Fmts.ensure
  split
  · exact hj
  · unfold Fmts.contains at hj ⊢
    rw [Fmts.get?_set h]
    split
    · rfl
    · exact hj

theorem mem_ensure {f : Fmts} {k : Nat} {x : Nat × Point} (hx : x ∈ f.ensure k) : x = (k, {}) ∨ x ∈ f := by
  unfold Fmts.ensure at hx
  split at hx
  · exact Or.inr hx
  · exact Fmts.mem_set hx

theorem sorted_filter {f : Fmts} (h : SortedKeys f) (q : Nat × Point → Bool) : SortedKeys (f.filter q) :=
  List.Pairwise.sublist List.filter_sublist h

theorem point_eq_empty {p : Point} (h : p.nonEmpty = false) : p = {} := by
  obtain ⟨a, r⟩ := p
  simp [Point.nonEmpty] at h
  obtain ⟨h1, h2⟩ := h
  subst h1 h2
  rfl

/-- the final clean-up of empty entries does not change the table as a function of the key -/
theorem toFun_filter_nonEmpty {f : Fmts} (h : SortedKeys f) (k : Nat) :
    Fmts.toFun (f.filter (fun kp => kp.2.nonEmpty)) k = Fmts.toFun f k := by
  induction f with
  | nil => rfl
  | cons kp rest ih =>
    obtain ⟨k', p'⟩ := kp
    have hs := Fmts.sorted_tail h
    have hlb : Fmts.LB (k' + 1) rest := Fmts.LB_tail_of_sorted h
    by_cases hp : p'.nonEmpty = true
    · rw [List.filter_cons_of_pos (by simpa using hp), toFun_cons, toFun_cons, ih hs]
    · have hp' : p'.nonEmpty = false := by simpa using hp
      rw [List.filter_cons_of_neg (by simpa using hp'), toFun_cons, ih hs, point_eq_empty hp']
      by_cases h1 : k' = k
      · subst h1
        simp only [if_true]
        exact toFun_of_LB hlb (by omega)
      · by_cases h2 : k < k'
        · simp only [h1, h2, if_true, if_false]
          exact toFun_of_LB hlb (by omega)
        · simp [h1, h2]

/-- state before the point at key `k` is processed -/
def bef (g : Nat → Point) (k : Nat) : List Setting := runFrom g [] 0 k

theorem bef_zero (g : Nat → Point) : bef g 0 = [] := rfl

theorem bef_succ (g : Nat → Point) (k : Nat) : bef g (k + 1) = stepPoint (bef g k) (g k) := by
  unfold bef
  rw [runFrom_add g [] 0 k 1]
  simp [runFrom]

theorem activeFn_eq_bef (g : Nat → Point) (i : Nat) : activeFn g i = bef g (i + 1) := rfl

theorem active_eq_bef {f : Fmts} (h : SortedKeys f) (i : Nat) : active f i = bef (Fmts.toFun f) (i + 1) := by
  rw [active_eq_activeFn f h]; rfl

theorem bef_skip (g : Nat → Point) (lo : Nat) (m : Nat) (h : ∀ j, lo ≤ j → j < lo + m → g j = {}) :
    bef g (lo + m) = bef g lo := by
  induction m with
  | zero => rfl
  | succ m ih =>
    rw [show lo + (m + 1) = (lo + m) + 1 from rfl, bef_succ, h (lo + m) (by omega) (by omega),
      stepPoint_empty]
    exact ih (fun j h1 h2 => h j h1 (by omega))

theorem bef_skip' (g : Nat → Point) {lo k : Nat} (hk : lo ≤ k) (h : ∀ j, lo ≤ j → j < k → g j = {}) :
    bef g k = bef g lo := by
  have := bef_skip g lo (k - lo) (fun j h1 h2 => h j h1 (by omega))
  rwa [show lo + (k - lo) = k by omega] at this

theorem bef_congr {g g' : Nat → Point} (k : Nat) (h : ∀ j, j < k → g j = g' j) : bef g k = bef g' k := by
  unfold bef
  exact runFrom_congr k [] (fun j _ hj => h j (by omega))

theorem activeFrom_of_LB {f : Fmts} {i : Nat} (h : Fmts.LB (i + 1) f) (cur : List Setting) :
    activeFrom cur f i = cur := by
  cases f with
  | nil => rfl
  | cons kp rest =>
    obtain ⟨k, p⟩ := kp
    have : i + 1 ≤ k := h (k, p) (by simp)
    have hk : ¬ k ≤ i := by omega
    simp [activeFrom, hk]

theorem replayFrom_eq_map (f : Fmts) (hs : SortedKeys f) (cur : List Setting) :
    replayFrom cur f = f.map (fun kp => (kp.1, kp.2, activeFrom cur f kp.1)) := by
  induction f generalizing cur with
  | nil => rfl
  | cons kp rest ih =>
    obtain ⟨k, p⟩ := kp
    have hlb : Fmts.LB (k + 1) rest := Fmts.LB_tail_of_sorted hs
    simp only [replayFrom, List.map_cons]
    congr 1
    · simp [activeFrom, activeFrom_of_LB hlb]
    · rw [ih (Fmts.sorted_tail hs)]
      apply List.map_congr_left
      intro x hx
      have : k + 1 ≤ x.1 := hlb x hx
      have hk : k ≤ x.1 := by omega
      simp [activeFrom, hk]

/-- the triples the iterator yields, for a sorted table -/
theorem replay_eq_map (f : Fmts) (hs : SortedKeys f) :
    replay f = f.map (fun kp => (kp.1, kp.2, bef (Fmts.toFun f) (kp.1 + 1))) := by
  unfold replay
  rw [replayFrom_eq_map f hs]
  apply List.map_congr_left
  intro x _
  have := active_eq_bef hs x.1
  unfold active at this
  rw [this]

/-- the self-check by index: `m` points starting at key `lo` -/
def okFn (g : Nat → Point) (cur : List Setting) (lo : Nat) : Nat → Bool
  | 0 => true
  | m + 1 => stepOk cur (g lo).rem && okFn g (stepPoint cur (g lo)) (lo + 1) m

theorem okFn_add (g : Nat → Point) (cur : List Setting) (lo a b : Nat) :
    okFn g cur lo (a + b) = (okFn g cur lo a && okFn g (runFrom g cur lo a) (lo + a) b) := by
  induction a generalizing cur lo with
  | zero => simp [okFn, runFrom]
  | succ a ih =>
    rw [show a + 1 + b = (a + b) + 1 by omega]
    simp only [okFn, runFrom]
    rw [ih, Bool.and_assoc, show lo + 1 + a = lo + (a + 1) by omega]

theorem okFn_congr {g g' : Nat → Point} {lo : Nat} (m : Nat) (cur : List Setting)
    (h : ∀ k, lo ≤ k → k < lo + m → g k = g' k) : okFn g cur lo m = okFn g' cur lo m := by
  induction m generalizing cur lo with
  | zero => rfl
  | succ m ih =>
    simp only [okFn]
    rw [h lo (Nat.le_refl _) (by omega)]
    rw [ih _ (fun k h1 h2 => h k (by omega) (by omega))]

theorem okFn_skip (g : Nat → Point) (cur : List Setting) (lo m : Nat)
    (h : ∀ j, lo ≤ j → j < lo + m → g j = {}) :
    okFn g cur lo m = true ∧ runFrom g cur lo m = cur := by
  induction m generalizing lo with
  | zero => exact ⟨rfl, rfl⟩
  | succ m ih =>
    simp only [okFn, runFrom]
    rw [h lo (Nat.le_refl _) (by omega), stepPoint_empty]
    have := ih (lo + 1) (fun j h1 h2 => h j (by omega) (by omega))
    simp [stepOk, this]

theorem replayOkFrom_eq (f : Fmts) (hs : SortedKeys f) (lo m : Nat) (hlb : Fmts.LB lo f)
    (hub : ∀ kp ∈ f, kp.1 < lo + m) (cur : List Setting) :
    replayOkFrom cur f = okFn (Fmts.toFun f) cur lo m := by
  induction f generalizing cur lo m with
  | nil =>
    have := okFn_skip (Fmts.toFun []) cur lo m (fun _ _ _ => rfl)
    rw [this.1]; rfl
  | cons kp rest ih =>
    obtain ⟨k, p⟩ := kp
    have hk : lo ≤ k := hlb (k, p) (by simp)
    have hk2 : k < lo + m := hub (k, p) (by simp)
    have hrest : SortedKeys rest := Fmts.sorted_tail hs
    have hlb' : Fmts.LB (k + 1) rest := Fmts.LB_tail_of_sorted hs
    have e : m = (k - lo) + (1 + (lo + m - (k + 1))) := by omega
    have hskip := okFn_skip (Fmts.toFun ((k, p) :: rest)) cur lo (k - lo) (by
      intro j h1 h2
      rw [toFun_cons]
      have h3 : ¬ k = j := by omega
      have h4 : j < k := by omega
      simp [h3, h4])
    rw [e, okFn_add, hskip.1, hskip.2, show lo + (k - lo) = k by omega, Bool.true_and,
      show 1 + (lo + m - (k + 1)) = (lo + m - (k + 1)) + 1 by omega]
    simp only [okFn, replayOkFrom]
    have hhead : Fmts.toFun ((k, p) :: rest) k = p := by rw [toFun_cons]; simp
    rw [hhead, ih hrest (k + 1) (lo + m - (k + 1)) hlb' (by
      intro kp hkp
      have := hub kp (by simp [hkp])
      have := hlb' kp hkp
      omega)]
    congr 1
    apply okFn_congr
    intro j h1 h2
    rw [toFun_cons]
    have h3 : ¬ k = j := by omega
    have h4 : ¬ j < k := by omega
    simp [h3, h4]

theorem okFn_true_iff (g : Nat → Point) (cur : List Setting) (lo m : Nat) :
    okFn g cur lo m = true ↔ ∀ j, j < m → stepOk (runFrom g cur lo j) (g (lo + j)).rem = true := by
  induction m generalizing cur lo with
  | zero => simp [okFn]
  | succ m ih =>
    simp only [okFn, Bool.and_eq_true]
    rw [ih]
    constructor
    · rintro ⟨h1, h2⟩ j hj
      cases j with
      | zero => simpa [runFrom] using h1
      | succ j =>
        have := h2 j (by omega)
        simp only [runFrom]
        rwa [show lo + 1 + j = lo + (j + 1) by omega] at this
    · intro h
      refine ⟨by simpa [runFrom] using h 0 (by omega), ?_⟩
      intro j hj
      have := h (j + 1) (by omega)
      simp only [runFrom] at this
      rwa [show lo + 1 + j = lo + (j + 1) by omega]

/-- `replayOk` of a sorted table with keys `≤ n`, by index -/
theorem replayOk_iff {f : Fmts} (hs : SortedKeys f) (n : Nat) (hub : ∀ kp ∈ f, kp.1 ≤ n) :
    replayOk f = true ↔ ∀ k, k ≤ n → stepOk (bef (Fmts.toFun f) k) (Fmts.toFun f k).rem = true := by
  unfold replayOk
  rw [replayOkFrom_eq f hs 0 (n + 1) (fun _ _ => Nat.zero_le _) (fun kp h => by have := hub kp h; omega),
    okFn_true_iff]
  constructor
  · intro h k hk
    have := h k (by omega)
    simpa [bef] using this
  · intro h j hj
    have := h j (by omega)
    simpa [bef] using this

/-! ## C. the point transformations of the loop -/

theorem nodup_append {l₁ l₂ : List Setting} (h : (ids (l₁ ++ l₂)).Nodup) :
    (ids l₁).Nodup ∧ (ids l₂).Nodup ∧ (∀ s ∈ l₁, hasId l₂ s.id = false) ∧ (∀ s ∈ l₂, hasId l₁ s.id = false) := by
  simp only [ids, List.map_append] at h
  obtain ⟨h1, h2, h3⟩ := List.nodup_append.mp h
  refine ⟨h1, h2, ?_, ?_⟩
  · intro s hs
    apply hasId_false_iff.mpr
    intro t ht e
    exact h3 s.id (List.mem_map_of_mem hs) t.id (List.mem_map_of_mem ht) e.symm
  · intro s hs
    apply hasId_false_iff.mpr
    intro t ht e
    exact h3 t.id (List.mem_map_of_mem ht) s.id (List.mem_map_of_mem hs) e

theorem nodup_append_of {l₁ l₂ : List Setting} (h1 : (ids l₁).Nodup) (h2 : (ids l₂).Nodup)
    (h3 : ∀ s ∈ l₂, hasId l₁ s.id = false) : (ids (l₁ ++ l₂)).Nodup := by
  simp only [ids, List.map_append]
  refine List.nodup_append.mpr ⟨h1, h2, ?_⟩
  intro a ha b hb e
  obtain ⟨s, hs, rfl⟩ := List.mem_map.mp ha
  obtain ⟨t, ht, rfl⟩ := List.mem_map.mp hb
  exact hasId_false_iff.mp (h3 t ht) s hs e

theorem dropWhile_congr {α : Type} {l : List α} {p q : α → Bool} (h : ∀ a ∈ l, p a = q a) :
    l.dropWhile p = l.dropWhile q := by
  induction l with
  | nil => rfl
  | cons a l ih =>
    simp only [List.dropWhile_cons, h a (by simp)]
    split
    · exact ih (fun b hb => h b (by simp [hb]))
    · rfl

theorem of_mem_takeWhile {α : Type} {l : List α} {p : α → Bool} {a : α} (h : a ∈ l.takeWhile p) :
    p a = true := by
  induction l with
  | nil => cases h
  | cons b l ih =>
    rw [List.takeWhile_cons] at h
    split at h
    · rcases List.mem_cons.mp h with rfl | h'
      · assumption
      · exact ih h'
    · cases h

open AStr (removeRems removeAtStart removeLoop selected)

theorem filter_not_hasId_append (c A B : List Setting) :
    c.filter (fun s => !hasId (A ++ B) s.id)
      = (c.filter (fun s => !hasId A s.id)).filter (fun s => !hasId B s.id) := by
  rw [List.filter_filter]
  apply List.filter_congr
  intro s _
  rw [hasId_append, Bool.not_or, Bool.and_comm]

theorem filter_comm' {α : Type} (l : List α) (p q : α → Bool) :
    (l.filter p).filter q = (l.filter q).filter p := by
  rw [List.filter_filter, List.filter_filter]
  apply List.filter_congr
  intro s _
  rw [Bool.and_comm]

abbrev sel (M : Option (List Str)) : Setting → Bool := AStr.selected M
abbrev nsel (M : Option (List Str)) : Setting → Bool := fun s => !AStr.selected M s

/-- one iteration of the `for s in current_settings` loop at `start` -/
def rasStep (M : Option (List Str)) (acc : Point × List Setting) (s : Setting) : Point × List Setting :=
  if AStr.selected M s then
    if hasId acc.1.add s.id then ({ acc.1 with add := eraseId acc.1.add s.id }, acc.2 ++ [s])
    else ({ acc.1 with rem := acc.1.rem ++ [s] }, acc.2 ++ [s])
  else acc

theorem removeAtStart_eq (M : Option (List Str)) (p : Point) (R L : List Setting) :
    AStr.removeAtStart M p R L = L.foldl (rasStep M) (p, R) := rfl

theorem removeAtStart_spec (M : Option (List Str)) (L : List Setting) (hL : (ids L).Nodup)
    (q : Point) (hq : (ids q.add).Nodup) (R : List Setting) :
    AStr.removeAtStart M q R L =
      ({ rem := q.rem ++ L.filter (fun s => sel M s && !hasId q.add s.id),
         add := q.add.filter (fun a => !hasId (L.filter (sel M)) a.id) },
       R ++ L.filter (sel M)) := by
  induction L generalizing q R with
  | nil =>
    simp only [removeAtStart_eq, List.foldl_nil, List.filter_nil, List.append_nil, hasId_nil]
    have : q.add.filter (fun _ => !false) = q.add := List.filter_eq_self.mpr (fun _ _ => rfl)
    rw [this]
  | cons s L ih =>
    obtain ⟨hs1, hs2⟩ := nodup_cons hL
    rw [removeAtStart_eq, List.foldl_cons, ← removeAtStart_eq]
    unfold rasStep
    by_cases hsel : AStr.selected M s = true
    · simp only [hsel, if_true]
      by_cases hin : hasId q.add s.id = true
      · simp only [hin, if_true]
        rw [ih hs2 _ (by simpa [eraseId_eq_filter hq] using nodup_filter hq _)]
        simp only
        have e1 : (s :: L).filter (fun s => sel M s && !hasId q.add s.id)
            = L.filter (fun s => sel M s && !hasId q.add s.id) := by
          rw [List.filter_cons_of_neg (by simp [hin])]
        have e2 : L.filter (fun t => sel M t && !hasId (eraseId q.add s.id) t.id)
            = L.filter (fun s => sel M s && !hasId q.add s.id) := by
          apply List.filter_congr
          intro t ht
          rw [eraseId_eq_filter hq, hasId_filter_id q.add (fun j => j != s.id)]
          have : (t.id != s.id) = true := by simpa using hs1 t ht
          rw [this, Bool.and_true]
        have e3 : (eraseId q.add s.id).filter (fun a => !hasId (L.filter (sel M)) a.id)
            = q.add.filter (fun a => !hasId ((s :: L).filter (sel M)) a.id) := by
          rw [eraseId_eq_filter hq, List.filter_filter, List.filter_cons_of_pos (by simpa using hsel)]
          apply List.filter_congr
          intro a _
          rw [hasId_cons]
          by_cases e : s.id = a.id
          · simp [e]
          · have e' : ¬ a.id = s.id := fun x => e x.symm
            have x1 : (s.id == a.id) = false := by simpa using e
            have x2 : (a.id != s.id) = true := by simpa using e'
            rw [x1, x2]; simp
        rw [e1, e2, e3, List.filter_cons_of_pos (by simpa using hsel)]
        simp
      · have hin' : hasId q.add s.id = false := by simpa using hin
        simp only [hin', Bool.false_eq_true, if_false]
        rw [ih hs2 { q with rem := q.rem ++ [s] } hq]
        simp only
        have e1 : (s :: L).filter (fun s => sel M s && !hasId q.add s.id)
            = s :: L.filter (fun s => sel M s && !hasId q.add s.id) := by
          rw [List.filter_cons_of_pos (by simp [hin', hsel])]
        have e3 : q.add.filter (fun a => !hasId (L.filter (sel M)) a.id)
            = q.add.filter (fun a => !hasId ((s :: L).filter (sel M)) a.id) := by
          rw [List.filter_cons_of_pos (by simpa using hsel)]
          apply List.filter_congr
          intro a ha
          rw [hasId_cons]
          have : (s.id == a.id) = false := by
            have := hasId_false_iff.mp hin' a ha
            simpa using fun x => this x.symm
          rw [this, Bool.false_or]
        rw [e1, e3, List.filter_cons_of_pos (by simpa using hsel)]
        simp
    · have hsel' : AStr.selected M s = false := by simpa using hsel
      simp only [hsel', Bool.false_eq_true, if_false]
      rw [ih hs2 _ hq]
      rw [List.filter_cons_of_neg (by simp [hsel']), List.filter_cons_of_neg (by simp [hsel'])]

/-- the point at `start`: what the new table does there, and the resulting `removed_settings` -/
theorem step_start (M : Option (List Str)) {c : List Setting} (hc : (ids c).Nodup) (p : Point)
    (hcur : (ids (stepPoint c p)).Nodup) (hok : stepOk c p.rem = true) :
    stepPoint c (AStr.removeAtStart M p [] (stepPoint c p)).1 = (stepPoint c p).filter (nsel M) ∧
    stepOk c (AStr.removeAtStart M p [] (stepPoint c p)).1.rem = true ∧
    (AStr.removeAtStart M p [] (stepPoint c p)).2 = (stepPoint c p).filter (sel M) := by
  rw [stepPoint_eq hc] at hcur
  obtain ⟨hpre, hadd, hd1, hd2⟩ := nodup_append hcur
  have hcur' := hcur
  rw [← stepPoint_eq hc] at hcur'
  rw [removeAtStart_spec M _ hcur' p hadd []]
  simp only [List.nil_append]
  have e1 : (stepPoint c p).filter (fun s => sel M s && !hasId p.add s.id)
      = (c.filter (fun s => !hasId p.rem s.id)).filter (sel M) := by
    rw [stepPoint_eq hc, List.filter_append]
    have : p.add.filter (fun s => sel M s && !hasId p.add s.id) = [] := by
      apply List.filter_eq_nil_iff.mpr
      intro a ha
      simp [hasId_of_mem ha]
    rw [this, List.append_nil]
    apply List.filter_congr
    intro s hs
    rw [hd1 s hs]; simp
  have e2 : p.add.filter (fun a => !hasId ((stepPoint c p).filter (sel M)) a.id) = p.add.filter (nsel M) := by
    apply List.filter_congr
    intro a ha
    rw [hasId_filter_of_mem hcur' (sel M) (by rw [stepPoint_eq hc]; simp [ha])]
  rw [e1, e2]
  refine ⟨?_, ?_, ?_⟩
  rotate_left 2
  · first | trivial | rfl
  · rw [stepPoint_eq hc]
    simp only
    rw [stepPoint_eq hc, List.filter_append]
    congr 1
    rw [filter_not_hasId_append]
    apply List.filter_congr
    intro s hs
    rw [hasId_filter_of_mem hpre (sel M) hs]
  · rw [stepOk_iff hc]
    obtain ⟨o1, o2⟩ := (stepOk_iff hc p.rem).mp hok
    refine ⟨?_, ?_⟩
    · intro r hr
      rcases List.mem_append.mp hr with hr | hr
      · exact o1 r hr
      · exact hasId_of_mem (List.mem_filter.mp (List.mem_filter.mp hr).1).1
    · apply nodup_append_of o2 (nodup_filter hpre _)
      intro s hs
      have := (List.mem_filter.mp (List.mem_filter.mp hs).1).2
      simpa using this

theorem removeRems_cons (s : Setting) (rem R : List Setting) :
    removeRems (s :: rem) R =
      if hasId (removeRems rem R).2 s.id then ((removeRems rem R).1, eraseId (removeRems rem R).2 s.id)
      else (s :: (removeRems rem R).1, (removeRems rem R).2) := rfl

theorem removeRems_nil (R : List Setting) : removeRems [] R = ([], R) := rfl

theorem removeRems_snd {R : List Setting} (hR : (ids R).Nodup) (rem : List Setting) :
    (removeRems rem R).2 = R.filter (fun s => !hasId rem s.id) := by
  induction rem with
  | nil =>
    rw [removeRems_nil]
    exact (List.filter_eq_self.mpr (fun _ _ => rfl)).symm
  | cons s rem ih =>
    have h2 : (removeRems (s :: rem) R).2 = eraseId (removeRems rem R).2 s.id := by
      rw [removeRems_cons]
      split
      · rfl
      · rename_i h
        exact (eraseId_of_not_hasId (by simpa using h)).symm
    rw [h2, ih, eraseId_eq_filter (nodup_filter hR _), List.filter_filter]
    apply List.filter_congr
    intro t _
    rw [hasId_cons]
    by_cases e : s.id = t.id
    · simp [e]
    · have e' : ¬ t.id = s.id := fun x => e x.symm
      have x1 : (s.id == t.id) = false := by simpa using e
      have x2 : (t.id != s.id) = true := by simpa using e'
      rw [x1, x2]; simp

theorem removeRems_fst {R : List Setting} (hR : (ids R).Nodup) {rem : List Setting} (hrem : (ids rem).Nodup) :
    (removeRems rem R).1 = rem.filter (fun s => !hasId R s.id) := by
  induction rem with
  | nil => rfl
  | cons s rem ih =>
    obtain ⟨h1, h2⟩ := nodup_cons hrem
    have hs : hasId (removeRems rem R).2 s.id = hasId R s.id := by
      rw [removeRems_snd hR, hasId_filter_id R (fun j => !hasId rem j)]
      have : hasId rem s.id = false := hasId_false_iff.mpr h1
      rw [this]; simp
    rw [removeRems_cons, hs]
    by_cases hin : hasId R s.id = true
    · simp only [hin, if_true]
      rw [ih h2, List.filter_cons_of_neg (by simp [hin])]
    · have hin' : hasId R s.id = false := by simpa using hin
      simp only [hin', Bool.false_eq_true, if_false]
      rw [ih h2, List.filter_cons_of_pos (by simp [hin'])]

theorem removeRems_fst_subset (rem R : List Setting) : ∀ s ∈ (removeRems rem R).1, s ∈ rem := by
  induction rem with
  | nil => intro s hs; cases hs
  | cons a rem ih =>
    intro s hs
    rw [removeRems_cons] at hs
    split at hs
    · exact List.mem_cons_of_mem _ (ih s hs)
    · rcases List.mem_cons.mp hs with rfl | hs
      · simp
      · exact List.mem_cons_of_mem _ (ih s hs)

/-- facts shared by the middle points and the point at `end` -/
theorem mid_core (M : Option (List Str)) {c : List Setting} (hc : (ids c).Nodup) (p : Point)
    (hok : stepOk c p.rem = true) {R : List Setting} (hR : R.Perm (c.filter (sel M))) :
    (ids R).Nodup ∧
    removeRems p.rem R = (p.rem.filter (fun s => !hasId R s.id), R.filter (fun s => !hasId p.rem s.id)) ∧
    (∀ s ∈ c, hasId R s.id = sel M s) ∧
    (c.filter (nsel M)).filter (fun s => !hasId (p.rem.filter (fun s => !hasId R s.id)) s.id)
      = (c.filter (fun s => !hasId p.rem s.id)).filter (nsel M) ∧
    (∀ r ∈ p.rem.filter (fun s => !hasId R s.id), hasId (c.filter (nsel M)) r.id = true) ∧
    (ids (p.rem.filter (fun s => !hasId R s.id))).Nodup := by
  obtain ⟨o1, o2⟩ := (stepOk_iff hc p.rem).mp hok
  have hRn : (ids R).Nodup := ((hR.map (·.id)).nodup_iff).mpr (nodup_filter hc _)
  have hRc : ∀ s ∈ c, hasId R s.id = sel M s := by
    intro s hs
    rw [hasId_perm hR, hasId_filter_of_mem hc _ hs]
  refine ⟨hRn, ?_, hRc, ?_, ?_, nodup_filter o2 _⟩
  · rw [← removeRems_fst hRn o2, ← removeRems_snd hRn]
  · rw [filter_comm' c (fun s => !hasId p.rem s.id) (nsel M)]
    apply List.filter_congr
    intro s hs
    have hs' := (List.mem_filter.mp hs).1
    have hns : sel M s = false := by simpa [nsel, sel] using (List.mem_filter.mp hs).2
    rw [hasId_filter_id p.rem (fun j => !hasId R j), hRc s hs', hns]
    simp
  · intro r hr
    obtain ⟨hr1, hr2⟩ := List.mem_filter.mp hr
    obtain ⟨s, hs, e⟩ := hasId_iff.mp (o1 r hr1)
    rw [← e]
    rw [hasId_filter_of_mem hc _ hs]
    have := hRc s hs
    rw [e] at this
    simp only [Bool.not_eq_true'] at hr2
    rw [hr2] at this
    simp [← this]

/-- new point and new `removed_settings` at a change point strictly inside the range -/
def midPt (M : Option (List Str)) (p : Point) (R : List Setting) : Point :=
  { rem := (removeRems p.rem R).1, add := p.add.filter (fun s => !AStr.selected M s) }

def midR (M : Option (List Str)) (p : Point) (R : List Setting) : List Setting :=
  (removeRems p.rem R).2 ++ (p.add.filter (AStr.selected M)).reverse

theorem step_mid (M : Option (List Str)) {c : List Setting} (hc : (ids c).Nodup) (p : Point)
    (hok : stepOk c p.rem = true) {R : List Setting} (hR : R.Perm (c.filter (sel M))) :
    stepPoint (c.filter (nsel M)) (midPt M p R) = (stepPoint c p).filter (nsel M) ∧
    stepOk (c.filter (nsel M)) (midPt M p R).rem = true ∧
    (midR M p R).Perm ((stepPoint c p).filter (sel M)) := by
  obtain ⟨hRn, hrr, hRc, hcore, hin, hnd⟩ := mid_core M hc p hok hR
  have hcn : (ids (c.filter (nsel M))).Nodup := nodup_filter hc _
  unfold midPt midR
  rw [hrr]
  simp only
  refine ⟨?_, ?_, ?_⟩
  · rw [stepPoint_eq hcn, stepPoint_eq hc, List.filter_append]
    simp only
    rw [hcore]
  · rw [stepOk_iff hcn]
    exact ⟨hin, hnd⟩
  · rw [stepPoint_eq hc, List.filter_append]
    apply List.Perm.append
    · have := hR.filter (fun s => !hasId p.rem s.id)
      refine this.trans ?_
      rw [filter_comm']
    · exact List.reverse_perm _

/-- the point at `end` -/
def endPt (n en : Nat) (p : Point) (R cur : List Setting) : Point :=
  let rr := removeRems p.rem R
  if en ≠ n ∧ !rr.2.isEmpty then
    let carried := (cur.filter (fun s => !hasId p.add s.id)).dropWhile (fun s => !hasId rr.2 s.id)
    { rem := rr.1 ++ carried.filter (fun s => !hasId rr.2 s.id), add := carried ++ p.add }
  else { p with rem := rr.1 }

theorem step_end (M : Option (List Str)) (n en : Nat) {c : List Setting} (hc : (ids c).Nodup) (p : Point)
    (hcur : (ids (stepPoint c p)).Nodup) (hok : stepOk c p.rem = true)
    {R : List Setting} (hR : R.Perm (c.filter (sel M))) (hn : en = n → stepPoint c p = []) :
    stepPoint (c.filter (nsel M)) (endPt n en p R (stepPoint c p)) = stepPoint c p ∧
    stepOk (c.filter (nsel M)) (endPt n en p R (stepPoint c p)).rem = true := by
  obtain ⟨hRn, hrr, hRc, hcore, hin, hnd⟩ := mid_core M hc p hok hR
  have hcn : (ids (c.filter (nsel M))).Nodup := nodup_filter hc _
  have hcur0 := hcur
  rw [stepPoint_eq hc] at hcur
  obtain ⟨hpre, hadd, hd1, hd2⟩ := nodup_append hcur
  -- identities of `rr.2` on the surviving old settings
  have hrr2 : ∀ s ∈ c.filter (fun s => !hasId p.rem s.id),
      hasId (R.filter (fun s => !hasId p.rem s.id)) s.id = sel M s := by
    intro s hs
    obtain ⟨hs1, hs2⟩ := List.mem_filter.mp hs
    rw [hasId_filter_id R (fun j => !hasId p.rem j), hRc s hs1, hs2, Bool.and_true]
  unfold endPt
  rw [hrr]
  simp only
  split
  · -- restart
    have e0 : (stepPoint c p).filter (fun s => !hasId p.add s.id) = c.filter (fun s => !hasId p.rem s.id) := by
      rw [stepPoint_eq hc, List.filter_append]
      have : p.add.filter (fun s => !hasId p.add s.id) = [] := by
        apply List.filter_eq_nil_iff.mpr
        intro a ha
        simp [hasId_of_mem ha]
      rw [this, List.append_nil]
      apply List.filter_eq_self.mpr
      intro s hs
      rw [hd1 s hs]; rfl
    rw [e0]
    have e1 : (c.filter (fun s => !hasId p.rem s.id)).dropWhile
          (fun s => !hasId (R.filter (fun s => !hasId p.rem s.id)) s.id)
        = (c.filter (fun s => !hasId p.rem s.id)).dropWhile (nsel M) := by
      apply dropWhile_congr
      intro s hs
      rw [hrr2 s hs]
    rw [e1]
    generalize hpreq : c.filter (fun s => !hasId p.rem s.id) = pre at *
    have hsplit : pre.takeWhile (nsel M) ++ pre.dropWhile (nsel M) = pre := List.takeWhile_append_dropWhile
    generalize hT : pre.takeWhile (nsel M) = T at *
    generalize hC : pre.dropWhile (nsel M) = C at *
    have hTn : ∀ s ∈ T, nsel M s = true := by
      intro s hs; rw [← hT] at hs; exact of_mem_takeWhile hs
    have hCsub : ∀ s ∈ C, s ∈ pre := by
      intro s hs; rw [← hsplit]; simp [hs]
    have e2 : C.filter (fun s => !hasId (R.filter (fun s => !hasId p.rem s.id)) s.id) = C.filter (nsel M) := by
      apply List.filter_congr
      intro s hs
      rw [hrr2 s (hCsub s hs)]
    rw [e2]
    have hTC : (ids (T ++ C)).Nodup := by rw [hsplit]; exact hpre
    obtain ⟨hTnd, hCnd, hdT, hdC⟩ := nodup_append hTC
    refine ⟨?_, ?_⟩
    · rw [stepPoint_eq hcn, stepPoint_eq hc, hpreq]
      simp only
      have : (c.filter (nsel M)).filter
            (fun s => !hasId (p.rem.filter (fun s => !hasId R s.id) ++ C.filter (nsel M)) s.id) = T := by
        rw [filter_not_hasId_append, hcore, ← hsplit, List.filter_append, List.filter_append]
        have t1 : (T.filter (nsel M)).filter (fun s => !hasId (C.filter (nsel M)) s.id) = T := by
          rw [List.filter_eq_self.mpr hTn]
          apply List.filter_eq_self.mpr
          intro s hs
          have : hasId (C.filter (nsel M)) s.id = false := by
            apply hasId_false_iff.mpr
            intro t ht
            exact hasId_false_iff.mp (hdT s hs) t (List.mem_filter.mp ht).1
          rw [this]; rfl
        have t2 : (C.filter (nsel M)).filter (fun s => !hasId (C.filter (nsel M)) s.id) = [] := by
          apply List.filter_eq_nil_iff.mpr
          intro a ha
          simp [hasId_of_mem ha]
        rw [t1, t2, List.append_nil]
      rw [this, ← List.append_assoc, hsplit]
    · rw [stepOk_iff hcn]
      refine ⟨?_, ?_⟩
      · intro r hr
        rcases List.mem_append.mp hr with hr | hr
        · exact hin r hr
        · obtain ⟨hr1, hr2⟩ := List.mem_filter.mp hr
          have hrp : r ∈ pre := hCsub r hr1
          rw [← hpreq] at hrp
          exact hasId_of_mem (List.mem_filter.mpr ⟨(List.mem_filter.mp hrp).1, hr2⟩)
      · apply nodup_append_of hnd (nodup_filter hCnd _)
        intro s hs
        have hsp : s ∈ pre := hCsub s (List.mem_filter.mp hs).1
        rw [← hpreq] at hsp
        have h1 : hasId p.rem s.id = false := by simpa using (List.mem_filter.mp hsp).2
        apply hasId_false_iff.mpr
        intro t ht
        exact hasId_false_iff.mp h1 t (List.mem_filter.mp ht).1
  · -- nothing to restart
    rename_i hcond
    refine ⟨?_, ?_⟩
    · rw [stepPoint_eq hcn, stepPoint_eq hc]
      simp only
      rw [hcore]
      congr 1
      apply List.filter_eq_self.mpr
      intro s hs
      by_cases hen : en = n
      · have := hn hen
        rw [stepPoint_eq hc] at this
        have : c.filter (fun s => !hasId p.rem s.id) = [] := (List.append_eq_nil_iff.mp this).1
        rw [this] at hs; cases hs
      · have hemp : (R.filter (fun s => !hasId p.rem s.id)).isEmpty = true := by
          by_cases h : (R.filter (fun s => !hasId p.rem s.id)).isEmpty = true
          · exact h
          · exact absurd ⟨hen, by simpa using h⟩ hcond
        have hnil := List.isEmpty_iff.mp hemp
        have := hrr2 s hs
        rw [hnil, hasId_nil] at this
        simp [nsel, sel] at this ⊢
        exact this
    · rw [stepOk_iff hcn]
      exact ⟨hin, hnd⟩

/-! ## D. the output table of the loop as a function of the key -/

theorem removeLoop_nil (M : Option (List Str)) (st en n : Nat) (R : List Setting) :
    removeLoop M st en n R [] = [] := rfl

theorem removeLoop_cons (M : Option (List Str)) (st en n : Nat) (R : List Setting) (idx : Nat) (p : Point)
    (cur : List Setting) (rest : List (Nat × Point × List Setting)) :
    removeLoop M st en n R ((idx, p, cur) :: rest) =
      if idx < st then (idx, p) :: removeLoop M st en n R rest
      else if idx > en then (idx, p) :: rest.map (fun t => (t.1, t.2.1))
      else if idx = st then
        (idx, (removeAtStart M p R cur).1) :: removeLoop M st en n (removeAtStart M p R cur).2 rest
      else if idx = en then (idx, endPt n en p R cur) :: removeLoop M st en n (removeRems p.rem R).2 rest
      else (idx, midPt M p R) :: removeLoop M st en n (midR M p R) rest := by
  by_cases h1 : idx < st
  · simp [removeLoop, h1]
  · by_cases h2 : idx > en
    · simp [removeLoop, h1, h2]
    · by_cases h3 : idx = st
      · simp [removeLoop, h3]
      · by_cases h4 : idx = en
        · subst h4
          simp only [removeLoop, h1, h2, h3, if_false, if_true, endPt]
          by_cases h5 : idx ≠ n ∧ (!(removeRems p.rem R).2.isEmpty) = true
          · rw [if_pos h5, if_pos h5]
          · rw [if_neg h5, if_neg h5]
        · simp only [removeLoop, h1, h2, h3, h4, if_false, midPt, midR]

theorem removeLoop_keys (M : Option (List Str)) (st en n : Nat) (R : List Setting)
    (L : List (Nat × Point × List Setting)) :
    (removeLoop M st en n R L).map (·.1) = L.map (·.1) := by
  induction L generalizing R with
  | nil => rfl
  | cons t L ih =>
    obtain ⟨idx, p, cur⟩ := t
    rw [removeLoop_cons]
    split
    · simp [ih]
    · split
      · simp [List.map_map]
      · split
        · simp [ih]
        · split
          · simp [ih]
          · simp [ih]

def tag (A : Nat → List Setting) (f : Fmts) : List (Nat × Point × List Setting) :=
  f.map (fun kp => (kp.1, kp.2, A kp.1))

theorem tag_cons (A : Nat → List Setting) (k : Nat) (p : Point) (f : Fmts) :
    tag A ((k, p) :: f) = (k, p, A k) :: tag A f := rfl

theorem tag_untag (A : Nat → List Setting) (f : Fmts) : (tag A f).map (fun t => (t.1, t.2.1)) = f := by
  unfold tag
  rw [List.map_map]
  have : ((fun t : Nat × Point × List Setting => (t.1, t.2.1)) ∘ fun kp : Nat × Point => (kp.1, kp.2, A kp.1)) = id := by
    funext kp; rfl
  rw [this, List.map_id]

theorem tag_keys (A : Nat → List Setting) (f : Fmts) : (tag A f).map (·.1) = f.map (·.1) := by
  unfold tag
  rw [List.map_map]
  rfl

/-- what the new table holds under key `k`, in terms of the old table `g` -/
def SpecAt (M : Option (List Str)) (st en n : Nat) (g : Nat → Point) (k : Nat) (q : Point) : Prop :=
  (k < st → q = g k) ∧
  (k = st → q = (removeAtStart M (g k) [] (bef g (k + 1))).1) ∧
  (st < k → k < en → ∃ R, R.Perm ((bef g k).filter (sel M)) ∧ q = midPt M (g k) R) ∧
  (st < k → k = en → ∃ R, R.Perm ((bef g k).filter (sel M)) ∧ q = endPt n en (g k) R (bef g (k + 1))) ∧
  (en < k → q = g k)

theorem midPt_empty (M : Option (List Str)) (R : List Setting) : midPt M {} R = {} := rfl

theorem contains_cons_lt {k0 : Nat} {p0 : Point} {rest : Fmts} {j : Nat}
    (h : Fmts.contains ((k0, p0) :: rest) j = true) (hj : k0 ≠ j) : k0 < j ∧ rest.contains j = true := by
  unfold Fmts.contains at h ⊢
  rw [Fmts.get?_cons] at h
  simp only [hj, if_false] at h
  by_cases h2 : j < k0
  · simp [h2] at h
  · simp only [h2, if_false] at h
    exact ⟨by omega, h⟩

theorem contains_cons_le {k0 : Nat} {p0 : Point} {rest : Fmts} {j : Nat}
    (h : Fmts.contains ((k0, p0) :: rest) j = true) : k0 ≤ j := by
  by_cases e : k0 = j
  · omega
  · exact Nat.le_of_lt (contains_cons_lt h e).1

theorem toFun_cons_cases {P : Nat → Point → Prop} {lo k0 : Nat} {q0 : Point} {out : Fmts}
    (h1 : ∀ k, lo ≤ k → k < k0 → P k {}) (h2 : P k0 q0)
    (h3 : ∀ k, k0 + 1 ≤ k → P k (Fmts.toFun out k)) :
    ∀ k, lo ≤ k → P k (Fmts.toFun ((k0, q0) :: out) k) := by
  intro k hk
  rw [toFun_cons]
  by_cases e : k0 = k
  · subst e; simpa using h2
  · by_cases e2 : k < k0
    · simp only [e, e2, if_true, if_false]; exact h1 k hk e2
    · simp only [e, e2, if_false]; exact h3 k (by omega)

theorem removeLoop_spec (M : Option (List Str)) (st en n : Nat) (g : Nat → Point) (hse : st < en)
    (hnd : ∀ k, (ids (bef g k)).Nodup) (hok : ∀ k, stepOk (bef g k) (g k).rem = true) :
    ∀ (f : Fmts) (lo : Nat) (R : List Setting), SortedKeys f → Fmts.LB lo f →
      (∀ k, lo ≤ k → Fmts.toFun f k = g k) →
      (lo ≤ st → f.contains st = true) → (lo ≤ en → f.contains en = true) →
      (lo ≤ st → R = []) → (st < lo → lo ≤ en → R.Perm ((bef g lo).filter (sel M))) →
      ∀ k, lo ≤ k →
        SpecAt M st en n g k (Fmts.toFun (removeLoop M st en n R (tag (fun k => bef g (k + 1)) f)) k) := by
  intro f
  induction f with
  | nil =>
    intro lo R _ _ hg hcs hce _ _ k hk
    have h1 : ¬ lo ≤ st := fun h => by simpa [Fmts.contains, Fmts.get?] using hcs h
    have h2 : ¬ lo ≤ en := fun h => by simpa [Fmts.contains, Fmts.get?] using hce h
    have e : g k = {} := by rw [← hg k hk]; rfl
    refine ⟨fun h => by omega, fun h => by omega, fun _ h => by omega, fun _ h => by omega, fun _ => ?_⟩
    rw [e]; rfl
  | cons kp rest ih =>
    obtain ⟨k0, p0⟩ := kp
    intro lo R hs hlb hg hcs hce hR0 hRP
    have hk0 : lo ≤ k0 := hlb (k0, p0) (by simp)
    have hp0 : p0 = g k0 := by rw [← hg k0 hk0, toFun_cons]; simp
    have hrest : SortedKeys rest := Fmts.sorted_tail hs
    have hlb' : Fmts.LB (k0 + 1) rest := Fmts.LB_tail_of_sorted hs
    have hg' : ∀ k, k0 + 1 ≤ k → Fmts.toFun rest k = g k := by
      intro k hk
      rw [← hg k (by omega), toFun_cons]
      have h3 : ¬ k0 = k := by omega
      have h4 : ¬ k < k0 := by omega
      simp [h3, h4]
    have hgap : ∀ j, lo ≤ j → j < k0 → g j = {} := by
      intro j h1 h2
      rw [← hg j h1, toFun_cons]
      have h3 : ¬ k0 = j := by omega
      simp [h3, h2]
    have hbef : bef g k0 = bef g lo := bef_skip' g hk0 hgap
    have hst0 : lo ≤ st → k0 ≤ st := fun h => contains_cons_le (hcs h)
    have hen0 : lo ≤ en → k0 ≤ en := fun h => contains_cons_le (hce h)
    have hcs' : k0 + 1 ≤ st → Fmts.contains rest st = true := fun h =>
      (contains_cons_lt (hcs (by omega)) (by omega)).2
    have hce' : k0 + 1 ≤ en → Fmts.contains rest en = true := fun h =>
      (contains_cons_lt (hce (by omega)) (by omega)).2
    -- absent keys below the head
    have hlow : ∀ k, lo ≤ k → k < k0 → SpecAt M st en n g k {} := by
      intro k h1 h2
      have e : g k = {} := hgap k h1 h2
      refine ⟨fun _ => e.symm, fun h => ?_, fun _ _ => ?_, fun _ h => ?_, fun _ => e.symm⟩
      · have := hst0 (by omega); omega
      · exact ⟨_, List.Perm.refl _, by rw [e, midPt_empty]⟩
      · by_cases hl : lo ≤ en
        · have := hen0 hl; omega
        · omega
    rw [tag_cons, removeLoop_cons]
    by_cases c1 : k0 < st
    · simp only [c1, if_true]
      apply toFun_cons_cases hlow
      · exact ⟨fun _ => hp0, fun h => by omega, fun h => by omega, fun h => by omega, fun h => by omega⟩
      · exact ih (k0 + 1) R hrest hlb' hg' hcs' hce' (fun _ => hR0 (by omega)) (fun h => by omega)
    · by_cases c2 : k0 > en
      · simp only [c1, c2, if_true, if_false]
        rw [tag_untag]
        apply toFun_cons_cases hlow
        · exact ⟨fun h => by omega, fun h => by omega, fun _ h => by omega, fun _ h => by omega, fun _ => hp0⟩
        · intro k hk
          rw [hg' k hk]
          exact ⟨fun h => by omega, fun h => by omega, fun _ h => by omega, fun _ h => by omega, fun _ => rfl⟩
      · by_cases c3 : k0 = st
        · subst c3
          simp only [c1, c2, if_true, if_false]
          have hRnil : R = [] := hR0 (by omega)
          subst hRnil
          have hss := step_start M (hnd k0) (g k0) (by rw [← bef_succ]; exact hnd (k0 + 1)) (hok k0)
          rw [← bef_succ] at hss
          subst hp0
          apply toFun_cons_cases hlow
          · exact ⟨fun h => by omega, fun _ => rfl, fun h => by omega, fun h => by omega, fun h => by omega⟩
          · apply ih (k0 + 1) _ hrest hlb' hg' hcs' hce' (fun h => by omega)
            intro _ _
            rw [hss.2.2]
        · have hstlo : st < lo := by
            by_cases h : lo ≤ st
            · have := hst0 h; omega
            · omega
          have hRk0 : R.Perm ((bef g k0).filter (sel M)) := by
            rw [hbef]; exact hRP hstlo (by omega)
          by_cases c4 : k0 = en
          · subst c4
            simp only [c1, c2, c3, if_true, if_false]
            apply toFun_cons_cases hlow
            · subst hp0
              exact ⟨fun h => by omega, fun h => by omega, fun _ h => by omega,
                fun _ _ => ⟨R, hRk0, rfl⟩, fun h => by omega⟩
            · exact ih (k0 + 1) _ hrest hlb' hg' hcs' hce' (fun h => by omega) (fun _ h => by omega)
          · simp only [c1, c2, c3, c4, if_false]
            apply toFun_cons_cases hlow
            · subst hp0
              exact ⟨fun h => by omega, fun h => by omega, fun _ _ => ⟨R, hRk0, rfl⟩,
                fun _ h => by omega, fun h => by omega⟩
            · subst hp0
              apply ih (k0 + 1) _ hrest hlb' hg' hcs' hce' (fun h => by omega)
              intro _ _
              have := (step_mid M (hnd k0) (g k0) (hok k0) hRk0).2.2
              rwa [← bef_succ] at this

/-! ## E. induction on the index -/

section Index

variable (M : Option (List Str)) (st en n : Nat) (g g' : Nat → Point)
variable (hse : st < en)
variable (hnd : ∀ k, (ids (bef g k)).Nodup) (hok : ∀ k, stepOk (bef g k) (g k).rem = true)
variable (hclosed : en = n → bef g (en + 1) = [])
variable (hspec : ∀ k, SpecAt M st en n g k (g' k))

include hspec in
theorem bef_before : ∀ k, k ≤ st → bef g' k = bef g k := by
  intro k
  induction k with
  | zero => intro _; rfl
  | succ k ih =>
    intro hk
    rw [bef_succ, bef_succ, ih (by omega), (hspec k).1 (by omega)]

include hse hnd hok hspec in
theorem bef_inside : ∀ k, st < k → k ≤ en → bef g' k = (bef g k).filter (nsel M) := by
  intro k
  induction k with
  | zero => intro h; omega
  | succ k ih =>
    intro h1 h2
    rw [bef_succ, bef_succ]
    by_cases e : k = st
    · subst e
      rw [bef_before M k en n g g' hspec k (Nat.le_refl _), (hspec k).2.1 rfl]
      rw [bef_succ g k]
      exact (step_start M (hnd k) (g k) (by rw [← bef_succ]; exact hnd (k + 1)) (hok k)).1
    · obtain ⟨R, hR, hq⟩ := (hspec k).2.2.1 (by omega) (by omega)
      rw [ih (by omega) (by omega), hq]
      exact (step_mid M (hnd k) (g k) (hok k) hR).1

include hse hnd hok hclosed hspec in
theorem bef_after : ∀ k, en < k → bef g' k = bef g k := by
  intro k
  induction k with
  | zero => intro h; omega
  | succ k ih =>
    intro h1
    rw [bef_succ, bef_succ]
    by_cases e : k = en
    · subst e
      obtain ⟨R, hR, hq⟩ := (hspec k).2.2.2.1 hse rfl
      rw [bef_inside M st k n g g' hse hnd hok hspec k hse (Nat.le_refl _), hq, bef_succ]
      exact (step_end M n k (hnd k) (g k) (by rw [← bef_succ]; exact hnd (k + 1)) (hok k) hR
        (fun h => by rw [← bef_succ]; exact hclosed h)).1
    · rw [ih (by omega), (hspec k).2.2.2.2 (by omega)]

include hse hnd hok hclosed hspec in
theorem ok_new : ∀ k, stepOk (bef g' k) (g' k).rem = true := by
  intro k
  by_cases c1 : k < st
  · rw [bef_before M st en n g g' hspec k (by omega), (hspec k).1 c1]
    exact hok k
  · by_cases c2 : k = st
    · subst c2
      rw [bef_before M k en n g g' hspec k (Nat.le_refl _), (hspec k).2.1 rfl, bef_succ]
      exact (step_start M (hnd k) (g k) (by rw [← bef_succ]; exact hnd (k + 1)) (hok k)).2.1
    · by_cases c3 : k < en
      · obtain ⟨R, hR, hq⟩ := (hspec k).2.2.1 (by omega) c3
        rw [bef_inside M st en n g g' hse hnd hok hspec k (by omega) (by omega), hq]
        exact (step_mid M (hnd k) (g k) (hok k) hR).2.1
      · by_cases c4 : k = en
        · subst c4
          obtain ⟨R, hR, hq⟩ := (hspec k).2.2.2.1 hse rfl
          rw [bef_inside M st k n g g' hse hnd hok hspec k hse (Nat.le_refl _), hq, bef_succ]
          exact (step_end M n k (hnd k) (g k) (by rw [← bef_succ]; exact hnd (k + 1)) (hok k) hR
            (fun h => by rw [← bef_succ]; exact hclosed h)).2
        · rw [bef_after M st en n g g' hse hnd hok hclosed hspec k (by omega), (hspec k).2.2.2.2 (by omega)]
          exact hok k

end Index

/-! ## F. assembling: the value returned by `remove_formatting` -/

theorem sliceIdx_le (n : Nat) (v : Option Int) (d : Nat) (hd : d ≤ n) : sliceIdx n v d ≤ n := by
  unfold sliceIdx
  cases v with
  | none => exact hd
  | some v =>
    simp only
    split
    · omega
    · exact Nat.min_le_right _ _

/-- the old table as a function of the key -/
def gOf (x : AStr) : Nat → Point := Fmts.toFun x.fmts

def f0 (x : AStr) (st en : Nat) : Fmts := (x.fmts.ensure st).ensure en

def outOf (x : AStr) (M : Option (List Str)) (st en : Nat) : Fmts :=
  removeLoop M st en x.len [] (replay (f0 x st en))

def newFmts (x : AStr) (M : Option (List Str)) (st en : Nat) : Fmts :=
  (outOf x M st en).filter (fun kp => kp.2.nonEmpty)

theorem removeFormatting_eq (x : AStr) (M : Option (List Str)) (start end_ : Option Int)
    (h : ¬ (sliceIdx x.len start 0 ≥ x.len ∨ sliceIdx x.len end_ x.len ≤ sliceIdx x.len start 0)) :
    x.removeFormatting M start end_ =
      { x with fmts := newFmts x M (sliceIdx x.len start 0) (sliceIdx x.len end_ x.len) } := by
  unfold AStr.removeFormatting
  simp only [h, if_false]
  rfl

theorem mem_settings {f : Fmts} {s : Setting} :
    s ∈ f.settings ↔ ∃ kp ∈ f, s ∈ kp.2.add ∨ s ∈ kp.2.rem := by
  unfold Fmts.settings
  simp [List.mem_flatMap]

theorem toFun_settings {f : Fmts} {k : Nat} {s : Setting}
    (h : s ∈ (Fmts.toFun f k).add ∨ s ∈ (Fmts.toFun f k).rem) : s ∈ f.settings := by
  rcases toFun_mem_or f k with e | hm
  · rw [e] at h; simp at h
  · exact mem_settings.mpr ⟨_, hm, h⟩

section WFx

variable {x : AStr} (hx : WF x)

include hx in
theorem wf_nodup : ∀ k, (ids (bef (gOf x) k)).Nodup := by
  intro k
  cases k with
  | zero => simp [bef_zero, ids]
  | succ k =>
    unfold gOf
    rw [← active_eq_bef hx.sorted]
    exact hx.nodup k

include hx in
theorem wf_gt {k : Nat} (hk : x.len < k) : gOf x k = {} := by
  rcases toFun_mem_or x.fmts k with e | hm
  · exact e
  · have := hx.bound _ hm
    simp only at this
    omega

include hx in
theorem wf_ok : ∀ k, stepOk (bef (gOf x) k) (gOf x k).rem = true := by
  intro k
  by_cases hk : k ≤ x.len
  · exact (replayOk_iff hx.sorted x.len hx.bound).mp hx.ok k hk
  · rw [wf_gt hx (by omega)]
    rfl

include hx in
theorem wf_closed : bef (gOf x) (x.len + 1) = [] := by
  unfold gOf
  rw [← active_eq_bef hx.sorted]
  exact hx.closed

include hx in
theorem wf_noAddEnd : (gOf x x.len).add = [] := by
  rcases toFun_mem_or x.fmts x.len with e | hm
  · unfold gOf; rw [e]
  · exact hx.noAddEnd _ hm rfl

include hx in
theorem bef_settings : ∀ k, ∀ s ∈ bef (gOf x) k, s ∈ x.fmts.settings := by
  intro k
  induction k with
  | zero => intro s hs; cases hs
  | succ k ih =>
    intro s hs
    rw [bef_succ, stepPoint_eq (wf_nodup hx k)] at hs
    rcases List.mem_append.mp hs with h | h
    · exact ih s (List.mem_filter.mp h).1
    · exact toFun_settings (Or.inl h)

variable (M : Option (List Str)) (st en : Nat) (h1 : st < x.len) (h2 : st < en) (h3 : en ≤ x.len)

include hx in
theorem f0_sorted : SortedKeys (f0 x st en) :=
  sorted_ensure (sorted_ensure hx.sorted st) en

include hx in
theorem f0_toFun (k : Nat) : Fmts.toFun (f0 x st en) k = gOf x k := by
  unfold f0 gOf
  rw [toFun_ensure (sorted_ensure hx.sorted st), toFun_ensure hx.sorted]

include hx h1 h3 in
theorem f0_bound : ∀ kp ∈ f0 x st en, kp.1 ≤ x.len := by
  intro kp hkp
  rcases mem_ensure hkp with e | hkp
  · rw [e]; exact h3
  · rcases mem_ensure hkp with e | hkp
    · rw [e]; exact Nat.le_of_lt h1
    · exact hx.bound kp hkp

include hx in
theorem f0_replay :
    replay (f0 x st en) = tag (fun k => bef (gOf x) (k + 1)) (f0 x st en) := by
  rw [replay_eq_map _ (f0_sorted hx st en)]
  unfold tag
  apply List.map_congr_left
  intro kp _
  rw [bef_congr (g := Fmts.toFun (f0 x st en)) (g' := gOf x) _ (fun j _ => f0_toFun hx st en j)]

include hx in
theorem out_keys : (outOf x M st en).map (·.1) = (f0 x st en).map (·.1) := by
  unfold outOf
  rw [removeLoop_keys, f0_replay hx, tag_keys]

theorem sorted_iff_keys (f : Fmts) : SortedKeys f ↔ (f.map (·.1)).Pairwise (· < ·) := by
  unfold SortedKeys
  rw [List.pairwise_map]

include hx in
theorem out_sorted : SortedKeys (outOf x M st en) := by
  rw [sorted_iff_keys, out_keys hx, ← sorted_iff_keys]
  exact f0_sorted hx st en

include hx h1 h3 in
theorem out_bound : ∀ kp ∈ outOf x M st en, kp.1 ≤ x.len := by
  intro kp hkp
  have : kp.1 ∈ (outOf x M st en).map (·.1) := List.mem_map_of_mem hkp
  rw [out_keys hx] at this
  obtain ⟨kp', h, e⟩ := List.mem_map.mp this
  rw [← e]
  exact f0_bound hx st en h1 h3 kp' h

include hx in
theorem new_sorted : SortedKeys (newFmts x M st en) := sorted_filter (out_sorted hx M st en) _

include hx in
theorem new_toFun (k : Nat) : Fmts.toFun (newFmts x M st en) k = Fmts.toFun (outOf x M st en) k :=
  toFun_filter_nonEmpty (out_sorted hx M st en) k

include hx h2 in
theorem new_spec : ∀ k, SpecAt M st en x.len (gOf x) k (Fmts.toFun (newFmts x M st en) k) := by
  intro k
  rw [new_toFun hx]
  unfold outOf
  rw [f0_replay hx]
  refine removeLoop_spec M st en x.len (gOf x) h2 (wf_nodup hx) (wf_ok hx) (f0 x st en) 0 []
    (f0_sorted hx st en) (fun _ _ => Nat.zero_le _) (fun k _ => f0_toFun hx st en k) ?_ ?_ (fun _ => rfl)
    (fun h => by omega) k (Nat.zero_le _)
  · intro _
    exact contains_ensure_of_contains (sorted_ensure hx.sorted st) en st (contains_ensure_self hx.sorted st)
  · intro _
    exact contains_ensure_self (sorted_ensure hx.sorted st) en

include hx in
theorem closed_at (h : en = x.len) : bef (gOf x) (en + 1) = [] := by
  rw [h]; exact wf_closed hx

include hx h2 in
theorem new_before (k : Nat) (hk : k ≤ st) : bef (Fmts.toFun (newFmts x M st en)) k = bef (gOf x) k :=
  bef_before M st en x.len (gOf x) _ (new_spec hx M st en h2) k hk

include hx h2 in
theorem new_inside (k : Nat) (hk1 : st < k) (hk2 : k ≤ en) :
    bef (Fmts.toFun (newFmts x M st en)) k = (bef (gOf x) k).filter (nsel M) :=
  bef_inside M st en x.len (gOf x) _ h2 (wf_nodup hx) (wf_ok hx) (new_spec hx M st en h2) k hk1 hk2

include hx h2 in
theorem new_after (k : Nat) (hk : en < k) : bef (Fmts.toFun (newFmts x M st en)) k = bef (gOf x) k :=
  bef_after M st en x.len (gOf x) _ h2 (wf_nodup hx) (wf_ok hx) (closed_at hx en) (new_spec hx M st en h2) k hk

include hx h2 in
theorem new_ok (k : Nat) :
    stepOk (bef (Fmts.toFun (newFmts x M st en)) k) (Fmts.toFun (newFmts x M st en) k).rem = true :=
  ok_new M st en x.len (gOf x) _ h2 (wf_nodup hx) (wf_ok hx) (closed_at hx en) (new_spec hx M st en h2) k

include hx in
/-- `active` of the new table by index -/
theorem new_active (i : Nat) :
    active (newFmts x M st en) i = bef (Fmts.toFun (newFmts x M st en)) (i + 1) :=
  active_eq_bef (new_sorted hx M st en) i

include hx in
theorem old_active (i : Nat) : active x.fmts i = bef (gOf x) (i + 1) := active_eq_bef hx.sorted i

include hx in
/-- every setting of a new point comes from the old point or from the old active list -/
theorem spec_settings {k : Nat} {q : Point} (hq : SpecAt M st en x.len (gOf x) k q) {s : Setting}
    (hs : s ∈ q.add ∨ s ∈ q.rem) : s ∈ x.fmts.settings := by
  have hp : ∀ t, t ∈ (gOf x k).add ∨ t ∈ (gOf x k).rem → t ∈ x.fmts.settings := fun t ht => toFun_settings ht
  have hc : ∀ t, t ∈ bef (gOf x) (k + 1) → t ∈ x.fmts.settings := bef_settings hx (k + 1)
  by_cases c1 : k < st
  · rw [hq.1 c1] at hs; exact hp s hs
  · by_cases c2 : k = st
    · have hcur : (ids (bef (gOf x) (k + 1))).Nodup := wf_nodup hx (k + 1)
      have hcur' := hcur
      rw [bef_succ, stepPoint_eq (wf_nodup hx k)] at hcur'
      have hadd := (nodup_append hcur').2.1
      rw [hq.2.1 c2, removeAtStart_spec M _ hcur _ hadd] at hs
      simp only at hs
      rcases hs with h | h
      · exact hp s (Or.inl (List.mem_filter.mp h).1)
      · rcases List.mem_append.mp h with h | h
        · exact hp s (Or.inr h)
        · exact hc s (List.mem_filter.mp h).1
    · by_cases c3 : k < en
      · obtain ⟨R, _, e⟩ := hq.2.2.1 (by omega) c3
        rw [e] at hs
        unfold midPt at hs
        simp only at hs
        rcases hs with h | h
        · exact hp s (Or.inl (List.mem_filter.mp h).1)
        · exact hp s (Or.inr (removeRems_fst_subset _ _ s h))
      · by_cases c4 : k = en
        · obtain ⟨R, _, e⟩ := hq.2.2.2.1 (by omega) c4
          rw [e] at hs
          unfold endPt at hs
          simp only at hs
          have hcar : ∀ t, t ∈ ((bef (gOf x) (k + 1)).filter (fun s => !hasId (gOf x k).add s.id)).dropWhile
              (fun s => !hasId (removeRems (gOf x k).rem R).2 s.id) → t ∈ x.fmts.settings := by
            intro t ht
            exact hc t (List.mem_filter.mp ((List.dropWhile_sublist _).subset ht)).1
          split at hs
          · simp only at hs
            rcases hs with h | h
            · rcases List.mem_append.mp h with h | h
              · exact hcar s h
              · exact hp s (Or.inl h)
            · rcases List.mem_append.mp h with h | h
              · exact hp s (Or.inr (removeRems_fst_subset _ _ s h))
              · exact hcar s (List.mem_filter.mp h).1
          · simp only at hs
            rcases hs with h | h
            · exact hp s (Or.inl h)
            · exact hp s (Or.inr (removeRems_fst_subset _ _ s h))
        · rw [hq.2.2.2.2 (by omega)] at hs; exact hp s hs

include hx h2 in
theorem new_settings : ∀ s ∈ (newFmts x M st en).settings, s ∈ x.fmts.settings := by
  intro s hs
  obtain ⟨kp, hkp, h⟩ := mem_settings.mp hs
  have e : Fmts.toFun (newFmts x M st en) kp.1 = kp.2 := toFun_of_mem (new_sorted hx M st en) hkp
  have := new_spec hx M st en h2 kp.1
  rw [e] at this
  exact spec_settings hx M st en this h

include hx h1 h2 h3 in
theorem new_wf : WF { x with fmts := newFmts x M st en } := by
  have hb : ∀ kp ∈ newFmts x M st en, kp.1 ≤ x.len := fun kp hkp =>
    out_bound hx M st en h1 h3 kp (List.mem_filter.mp hkp).1
  have hact : ∀ i, active (newFmts x M st en) i = active x.fmts i ∨
      active (newFmts x M st en) i = (active x.fmts i).filter (nsel M) := by
    intro i
    rw [new_active hx, old_active hx]
    by_cases c1 : i + 1 ≤ st
    · exact Or.inl (new_before hx M st en h2 _ c1)
    · by_cases c2 : i + 1 ≤ en
      · exact Or.inr (new_inside hx M st en h2 _ (by omega) c2)
      · exact Or.inl (new_after hx M st en h2 _ (by omega))
  refine ⟨new_sorted hx M st en, hb, ?_, ?_, ?_, ?_, ?_⟩
  · -- noAddEnd
    intro kp hkp hk
    have e : Fmts.toFun (newFmts x M st en) kp.1 = kp.2 := toFun_of_mem (new_sorted hx M st en) hkp
    have hsp := new_spec hx M st en h2 kp.1
    rw [e] at hsp
    have hk' : kp.1 = x.len := hk
    by_cases c : kp.1 = en
    · obtain ⟨R, _, e⟩ := hsp.2.2.2.1 (by omega) c
      rw [e]
      unfold endPt
      have : ¬ (en ≠ x.len ∧ (!(removeRems (gOf x kp.1).rem R).2.isEmpty) = true) := by
        intro h; exact h.1 (by omega)
      simp only [this, if_false]
      rw [hk']
      exact wf_noAddEnd hx
    · rw [hsp.2.2.2.2 (by omega), hk']
      exact wf_noAddEnd hx
  · -- ok
    exact (replayOk_iff (new_sorted hx M st en) x.len hb).mpr (fun k _ => new_ok hx M st en h2 k)
  · -- nodup
    intro i
    rcases hact i with e | e
    · simp only; rw [e]; exact hx.nodup i
    · simp only; rw [e]; exact nodup_filter (hx.nodup i) _
  · -- closed
    show active (newFmts x M st en) x.len = []
    rw [new_active hx, new_after hx M st en h2 _ (by omega)]
    exact wf_closed hx
  · -- coherent
    intro s hs t ht
    exact hx.coherent s (new_settings hx M st en h2 s hs) t (new_settings hx M st en h2 t ht)

end WFx

end Remove
