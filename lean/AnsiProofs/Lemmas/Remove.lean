import AnsiProofs.Lemmas.Basic
/-
  Helper lemmas for property C07 (`remove_formatting`).

  Plan: (A) list facts about `hasId`/`eraseId`/`filter` under pairwise distinct identities,
  (B) tables: `ensure`, the final `filter`, `replay` as a `map`, `replayOk` by index,
  (C) the three point transformations of the loop (`removeAtStart`, middle, end of range),
  (D) the output table of `removeLoop` as a function of the key, (E) induction on the index.
-/

namespace Remove

/-! ## A. lists of settings with pairwise distinct identities -/

abbrev ids (l : List Setting) : List Nat := l.map (·.id)

theorem hasId_iff {l : List Setting} {i : Nat} : hasId l i = true ↔ ∃ s ∈ l, s.id = i := by
  simp [hasId]

theorem hasId_false_iff {l : List Setting} {i : Nat} : hasId l i = false ↔ ∀ s ∈ l, s.id ≠ i := by
  simp [hasId]

theorem hasId_nil (i : Nat) : hasId [] i = false := rfl

theorem hasId_cons (a : Setting) (l : List Setting) (i : Nat) :
    hasId (a :: l) i = (a.id == i || hasId l i) := by
  simp [hasId]

theorem hasId_append (l₁ l₂ : List Setting) (i : Nat) :
    hasId (l₁ ++ l₂) i = (hasId l₁ i || hasId l₂ i) := by
  simp [hasId]

theorem hasId_of_mem {l : List Setting} {s : Setting} (h : s ∈ l) : hasId l s.id = true :=
  hasId_iff.mpr ⟨s, h, rfl⟩

theorem hasId_perm {l₁ l₂ : List Setting} (h : l₁.Perm l₂) (i : Nat) : hasId l₁ i = hasId l₂ i := by
  unfold hasId
  exact h.any_eq

theorem nodup_filter {l : List Setting} (h : (ids l).Nodup) (q : Setting → Bool) :
    (ids (l.filter q)).Nodup :=
  ((List.filter_sublist (p := q) (l := l)).map (·.id)).nodup h

theorem nodup_cons {a : Setting} {l : List Setting} (h : (ids (a :: l)).Nodup) :
    (∀ s ∈ l, s.id ≠ a.id) ∧ (ids l).Nodup := by
  simp only [ids, List.map_cons, List.nodup_cons, List.mem_map, not_exists, not_and] at h
  exact ⟨fun s hs => h.1 s hs, h.2⟩

/-- under distinct identities, an element is determined by its identity -/
theorem eq_of_id_eq {l : List Setting} (h : (ids l).Nodup) {s t : Setting} (hs : s ∈ l) (ht : t ∈ l)
    (e : s.id = t.id) : s = t := by
  induction l with
  | nil => cases hs
  | cons a l ih =>
    obtain ⟨h1, h2⟩ := nodup_cons h
    rcases List.mem_cons.mp hs with rfl | hs' <;> rcases List.mem_cons.mp ht with rfl | ht'
    · rfl
    · exact absurd e.symm (h1 t ht')
    · exact absurd e (h1 s hs')
    · exact ih h2 hs' ht'

/-- membership of an identity in a filtered list -/
theorem hasId_filter_of_mem {l : List Setting} (h : (ids l).Nodup) (q : Setting → Bool)
    {s : Setting} (hs : s ∈ l) : hasId (l.filter q) s.id = q s := by
  cases hq : q s with
  | true => exact hasId_iff.mpr ⟨s, List.mem_filter.mpr ⟨hs, hq⟩, rfl⟩
  | false =>
    apply hasId_false_iff.mpr
    intro t ht e
    obtain ⟨ht1, ht2⟩ := List.mem_filter.mp ht
    have := eq_of_id_eq h ht1 hs e
    subst this
    rw [hq] at ht2
    cases ht2

theorem hasId_filter_id (l : List Setting) (q : Nat → Bool) (i : Nat) :
    hasId (l.filter (fun s => q s.id)) i = (hasId l i && q i) := by
  induction l with
  | nil => rfl
  | cons a l ih =>
    by_cases hq : q a.id = true
    · rw [List.filter_cons_of_pos (by simpa using hq), hasId_cons, hasId_cons, ih]
      by_cases e : a.id = i
      · subst e; simp [hq]
      · have : (a.id == i) = false := by simpa using e
        simp [this]
    · have hq' : q a.id = false := by simpa using hq
      rw [List.filter_cons_of_neg (by simpa using hq'), hasId_cons, ih]
      by_cases e : a.id = i
      · subst e; simp [hq']
      · have : (a.id == i) = false := by simpa using e
        simp [this]

theorem eraseId_eq_filter {l : List Setting} (h : (ids l).Nodup) (i : Nat) :
    eraseId l i = l.filter (fun s => s.id != i) := by
  induction l with
  | nil => rfl
  | cons a l ih =>
    obtain ⟨h1, h2⟩ := nodup_cons h
    unfold eraseId at ih ⊢
    by_cases e : a.id = i
    · subst e
      rw [List.eraseP_cons_of_pos (by simp)]
      rw [List.filter_cons_of_neg (by simp)]
      symm
      apply List.filter_eq_self.mpr
      intro s hs
      simpa using h1 s hs
    · rw [List.eraseP_cons_of_neg (by simpa using e)]
      rw [List.filter_cons_of_pos (by simpa using e), ih h2]

theorem eraseId_of_not_hasId {l : List Setting} {i : Nat} (h : hasId l i = false) : eraseId l i = l := by
  unfold eraseId
  apply List.eraseP_of_forall_not
  intro s hs
  have := hasId_false_iff.mp h s hs
  simpa using this

theorem foldl_eraseId_eq_filter (R : List Setting) {c : List Setting} (h : (ids c).Nodup) :
    R.foldl (fun c s => eraseId c s.id) c = c.filter (fun s => !hasId R s.id) := by
  induction R generalizing c with
  | nil =>
    symm
    apply List.filter_eq_self.mpr
    intro s _
    rfl
  | cons r R ih =>
    rw [List.foldl_cons, eraseId_eq_filter h, ih (nodup_filter h _), List.filter_filter]
    apply List.filter_congr
    intro s _
    rw [hasId_cons]
    by_cases e : r.id = s.id
    · simp [e]
    · have e' : ¬ s.id = r.id := fun x => e x.symm
      have e1 : (r.id == s.id) = false := by simpa using e
      have e2 : (s.id != r.id) = true := by simpa using e'
      rw [e1, e2]
      simp

theorem stepPoint_eq {c : List Setting} (h : (ids c).Nodup) (p : Point) :
    stepPoint c p = c.filter (fun s => !hasId p.rem s.id) ++ p.add := by
  unfold stepPoint
  rw [foldl_eraseId_eq_filter _ h]

/-- the library's assertion, under distinct identities -/
theorem stepOk_iff {c : List Setting} (h : (ids c).Nodup) (R : List Setting) :
    stepOk c R = true ↔ (∀ r ∈ R, hasId c r.id = true) ∧ (ids R).Nodup := by
  induction R generalizing c with
  | nil => simp [stepOk]
  | cons r R ih =>
    simp only [stepOk, Bool.and_eq_true]
    rw [ih (c := eraseId c r.id) (by rw [eraseId_eq_filter h]; exact nodup_filter h _)]
    rw [eraseId_eq_filter h]
    constructor
    · rintro ⟨h1, h2, h3⟩
      refine ⟨?_, ?_⟩
      · intro r' hr'
        rcases List.mem_cons.mp hr' with rfl | hr'
        · exact h1
        · have := h2 r' hr'
          rw [hasId_filter_id c (fun j => j != r.id)] at this
          simp only [Bool.and_eq_true] at this
          exact this.1
      · simp only [ids, List.map_cons, List.nodup_cons, List.mem_map, not_exists, not_and]
        refine ⟨?_, h3⟩
        intro r' hr' e
        have := h2 r' hr'
        rw [hasId_filter_id c (fun j => j != r.id)] at this
        simp [e] at this
    · rintro ⟨h1, h2⟩
      obtain ⟨h3, h4⟩ := nodup_cons h2
      refine ⟨h1 r (by simp), ?_, h4⟩
      intro r' hr'
      rw [hasId_filter_id c (fun j => j != r.id)]
      simp only [Bool.and_eq_true]
      refine ⟨h1 r' (by simp [hr']), ?_⟩
      simpa using h3 r' hr'

/-! ## B. tables -/

open Fmts in
theorem toFun_cons (k' : Nat) (p : Point) (rest : Fmts) (k : Nat) :
    toFun ((k', p) :: rest) k = if k' = k then p else if k < k' then {} else toFun rest k := by
  unfold toFun Fmts.getD
  rw [get?_cons]
  by_cases h1 : k' = k
  · simp [h1]
  · by_cases h2 : k < k' <;> simp [h1, h2]

theorem toFun_nil (k : Nat) : Fmts.toFun [] k = {} := rfl

theorem toFun_of_LB {lo : Nat} {f : Fmts} (h : Fmts.LB lo f) {k : Nat} (hk : k < lo) :
    Fmts.toFun f k = {} := by
  unfold Fmts.toFun Fmts.getD
  rw [Fmts.get?_of_LB h hk]
  rfl

theorem toFun_of_mem {f : Fmts} (h : SortedKeys f) {k : Nat} {p : Point} (hm : (k, p) ∈ f) :
    Fmts.toFun f k = p := by
  unfold Fmts.toFun Fmts.getD
  rw [Fmts.get?_eq_some_of_mem h hm]
  rfl

/-- the point stored under a key is the empty point or an entry of the table -/
theorem toFun_mem_or (f : Fmts) (k : Nat) : Fmts.toFun f k = {} ∨ (k, Fmts.toFun f k) ∈ f := by
  unfold Fmts.toFun Fmts.getD
  cases h : f.get? k with
  | none => left; rfl
  | some p => right; exact Fmts.mem_of_get?_eq_some h

theorem contains_iff {f : Fmts} {k : Nat} : f.contains k = true ↔ ∃ p, f.get? k = some p := by
  unfold Fmts.contains
  cases f.get? k <;> simp

theorem sorted_ensure {f : Fmts} (h : SortedKeys f) (k : Nat) : SortedKeys (f.ensure k) := by
  unfold Fmts.ensure
  split
  · exact h
  · exact Fmts.sorted_set h k {}

theorem toFun_ensure {f : Fmts} (h : SortedKeys f) (k j : Nat) :
    Fmts.toFun (f.ensure k) j = Fmts.toFun f j := by
  unfold Fmts.ensure
  split
  · rfl
  · rename_i hc
    rw [Fmts.toFun_set h]
    split
    · rename_i e
      subst e
      unfold Fmts.toFun Fmts.getD
      unfold Fmts.contains at hc
      cases hg : f.get? j with
      | none => rfl
      | some p => rw [hg] at hc; simp at hc
    · rfl

theorem contains_ensure_self {f : Fmts} (h : SortedKeys f) (k : Nat) : (f.ensure k).contains k = true := by
  unfold Fmts.ensure
  split
  · assumption
  · unfold Fmts.contains
    rw [Fmts.get?_set h]
    simp

theorem contains_ensure_of_contains {f : Fmts} (h : SortedKeys f) (k j : Nat) (hj : f.contains j = true) :
    (f.ensure k).contains j = true := by
  unfold Fmts.ensure
  split
  · exact hj
  · unfold Fmts.contains at hj ⊢
    rw [Fmts.get?_set h]
    split
    · rfl
    · exact hj

theorem mem_ensure {f : Fmts} {k : Nat} {x : Nat × Point} (hx : x ∈ f.ensure k) : x = (k, {}) ∨ x ∈ f := by
  unfold Fmts.ensure at hx
  split at hx
  · exact Or.inr hx
  · exact Fmts.mem_set hx

theorem sorted_filter {f : Fmts} (h : SortedKeys f) (q : Nat × Point → Bool) : SortedKeys (f.filter q) :=
  List.Pairwise.sublist List.filter_sublist h

theorem point_eq_empty {p : Point} (h : p.nonEmpty = false) : p = {} := by
  obtain ⟨a, r⟩ := p
  simp [Point.nonEmpty] at h
  obtain ⟨h1, h2⟩ := h
  subst h1 h2
  rfl

/-- the final clean-up of empty entries does not change the table as a function of the key -/
theorem toFun_filter_nonEmpty {f : Fmts} (h : SortedKeys f) (k : Nat) :
    Fmts.toFun (f.filter (fun kp => kp.2.nonEmpty)) k = Fmts.toFun f k := by
  induction f with
  | nil => rfl
  | cons kp rest ih =>
    obtain ⟨k', p'⟩ := kp
    have hs := Fmts.sorted_tail h
    have hlb : Fmts.LB (k' + 1) rest := Fmts.LB_tail_of_sorted h
    by_cases hp : p'.nonEmpty = true
    · rw [List.filter_cons_of_pos (by simpa using hp), toFun_cons, toFun_cons, ih hs]
    · have hp' : p'.nonEmpty = false := by simpa using hp
      rw [List.filter_cons_of_neg (by simpa using hp'), toFun_cons, ih hs, point_eq_empty hp']
      by_cases h1 : k' = k
      · subst h1
        simp only [if_true]
        exact toFun_of_LB hlb (by omega)
      · by_cases h2 : k < k'
        · simp only [h1, h2, if_true, if_false]
          exact toFun_of_LB hlb (by omega)
        · simp [h1, h2]

/-- state before the point at key `k` is processed -/
def bef (g : Nat → Point) (k : Nat) : List Setting := runFrom g [] 0 k

theorem bef_zero (g : Nat → Point) : bef g 0 = [] := rfl

theorem bef_succ (g : Nat → Point) (k : Nat) : bef g (k + 1) = stepPoint (bef g k) (g k) := by
  unfold bef
  rw [runFrom_add g [] 0 k 1]
  simp [runFrom]

theorem activeFn_eq_bef (g : Nat → Point) (i : Nat) : activeFn g i = bef g (i + 1) := rfl

theorem active_eq_bef {f : Fmts} (h : SortedKeys f) (i : Nat) : active f i = bef (Fmts.toFun f) (i + 1) := by
  rw [active_eq_activeFn f h]; rfl

theorem bef_skip (g : Nat → Point) (lo : Nat) (m : Nat) (h : ∀ j, lo ≤ j → j < lo + m → g j = {}) :
    bef g (lo + m) = bef g lo := by
  induction m with
  | zero => rfl
  | succ m ih =>
    rw [show lo + (m + 1) = (lo + m) + 1 from rfl, bef_succ, h (lo + m) (by omega) (by omega),
      stepPoint_empty]
    exact ih (fun j h1 h2 => h j h1 (by omega))

theorem bef_skip' (g : Nat → Point) {lo k : Nat} (hk : lo ≤ k) (h : ∀ j, lo ≤ j → j < k → g j = {}) :
    bef g k = bef g lo := by
  have := bef_skip g lo (k - lo) (fun j h1 h2 => h j h1 (by omega))
  rwa [show lo + (k - lo) = k by omega] at this

theorem bef_congr {g g' : Nat → Point} (k : Nat) (h : ∀ j, j < k → g j = g' j) : bef g k = bef g' k := by
  unfold bef
  exact runFrom_congr k [] (fun j _ hj => h j (by omega))

theorem activeFrom_of_LB {f : Fmts} {i : Nat} (h : Fmts.LB (i + 1) f) (cur : List Setting) :
    activeFrom cur f i = cur := by
  cases f with
  | nil => rfl
  | cons kp rest =>
    obtain ⟨k, p⟩ := kp
    have : i + 1 ≤ k := h (k, p) (by simp)
    have hk : ¬ k ≤ i := by omega
    simp [activeFrom, hk]

theorem replayFrom_eq_map (f : Fmts) (hs : SortedKeys f) (cur : List Setting) :
    replayFrom cur f = f.map (fun kp => (kp.1, kp.2, activeFrom cur f kp.1)) := by
  induction f generalizing cur with
  | nil => rfl
  | cons kp rest ih =>
    obtain ⟨k, p⟩ := kp
    have hlb : Fmts.LB (k + 1) rest := Fmts.LB_tail_of_sorted hs
    simp only [replayFrom, List.map_cons]
    congr 1
    · simp [activeFrom, activeFrom_of_LB hlb]
    · rw [ih (Fmts.sorted_tail hs)]
      apply List.map_congr_left
      intro x hx
      have : k + 1 ≤ x.1 := hlb x hx
      have hk : k ≤ x.1 := by omega
      simp [activeFrom, hk]

/-- the triples the iterator yields, for a sorted table -/
theorem replay_eq_map (f : Fmts) (hs : SortedKeys f) :
    replay f = f.map (fun kp => (kp.1, kp.2, bef (Fmts.toFun f) (kp.1 + 1))) := by
  unfold replay
  rw [replayFrom_eq_map f hs]
  apply List.map_congr_left
  intro x _
  have := active_eq_bef hs x.1
  unfold active at this
  rw [this]

/-- the self-check by index: `m` points starting at key `lo` -/
def okFn (g : Nat → Point) (cur : List Setting) (lo : Nat) : Nat → Bool
  | 0 => true
  | m + 1 => stepOk cur (g lo).rem && okFn g (stepPoint cur (g lo)) (lo + 1) m

theorem okFn_add (g : Nat → Point) (cur : List Setting) (lo a b : Nat) :
    okFn g cur lo (a + b) = (okFn g cur lo a && okFn g (runFrom g cur lo a) (lo + a) b) := by
  induction a generalizing cur lo with
  | zero => simp [okFn, runFrom]
  | succ a ih =>
    rw [show a + 1 + b = (a + b) + 1 by omega]
    simp only [okFn, runFrom]
    rw [ih, Bool.and_assoc, show lo + 1 + a = lo + (a + 1) by omega]

theorem okFn_congr {g g' : Nat → Point} {lo : Nat} (m : Nat) (cur : List Setting)
    (h : ∀ k, lo ≤ k → k < lo + m → g k = g' k) : okFn g cur lo m = okFn g' cur lo m := by
  induction m generalizing cur lo with
  | zero => rfl
  | succ m ih =>
    simp only [okFn]
    rw [h lo (Nat.le_refl _) (by omega)]
    rw [ih _ (fun k h1 h2 => h k (by omega) (by omega))]

theorem okFn_skip (g : Nat → Point) (cur : List Setting) (lo m : Nat)
    (h : ∀ j, lo ≤ j → j < lo + m → g j = {}) :
    okFn g cur lo m = true ∧ runFrom g cur lo m = cur := by
  induction m generalizing lo with
  | zero => exact ⟨rfl, rfl⟩
  | succ m ih =>
    simp only [okFn, runFrom]
    rw [h lo (Nat.le_refl _) (by omega), stepPoint_empty]
    have := ih (lo + 1) (fun j h1 h2 => h j (by omega) (by omega))
    simp [stepOk, this]

theorem replayOkFrom_eq (f : Fmts) (hs : SortedKeys f) (lo m : Nat) (hlb : Fmts.LB lo f)
    (hub : ∀ kp ∈ f, kp.1 < lo + m) (cur : List Setting) :
    replayOkFrom cur f = okFn (Fmts.toFun f) cur lo m := by
  induction f generalizing cur lo m with
  | nil =>
    have := okFn_skip (Fmts.toFun []) cur lo m (fun _ _ _ => rfl)
    rw [this.1]; rfl
  | cons kp rest ih =>
    obtain ⟨k, p⟩ := kp
    have hk : lo ≤ k := hlb (k, p) (by simp)
    have hk2 : k < lo + m := hub (k, p) (by simp)
    have hrest : SortedKeys rest := Fmts.sorted_tail hs
    have hlb' : Fmts.LB (k + 1) rest := Fmts.LB_tail_of_sorted hs
    have e : m = (k - lo) + (1 + (lo + m - (k + 1))) := by omega
    have hskip := okFn_skip (Fmts.toFun ((k, p) :: rest)) cur lo (k - lo) (by
      intro j h1 h2
      rw [toFun_cons]
      have h3 : ¬ k = j := by omega
      have h4 : j < k := by omega
      simp [h3, h4])
    rw [e, okFn_add, hskip.1, hskip.2, show lo + (k - lo) = k by omega, Bool.true_and,
      show 1 + (lo + m - (k + 1)) = (lo + m - (k + 1)) + 1 by omega]
    simp only [okFn, replayOkFrom]
    have hhead : Fmts.toFun ((k, p) :: rest) k = p := by rw [toFun_cons]; simp
    rw [hhead, ih hrest (k + 1) (lo + m - (k + 1)) hlb' (by
      intro kp hkp
      have := hub kp (by simp [hkp])
      have := hlb' kp hkp
      omega)]
    congr 1
    apply okFn_congr
    intro j h1 h2
    rw [toFun_cons]
    have h3 : ¬ k = j := by omega
    have h4 : ¬ j < k := by omega
    simp [h3, h4]

theorem okFn_true_iff (g : Nat → Point) (cur : List Setting) (lo m : Nat) :
    okFn g cur lo m = true ↔ ∀ j, j < m → stepOk (runFrom g cur lo j) (g (lo + j)).rem = true := by
  induction m generalizing cur lo with
  | zero => simp [okFn]
  | succ m ih =>
    simp only [okFn, Bool.and_eq_true]
    rw [ih]
    constructor
    · rintro ⟨h1, h2⟩ j hj
      cases j with
      | zero => simpa [runFrom] using h1
      | succ j =>
        have := h2 j (by omega)
        simp only [runFrom]
        rwa [show lo + 1 + j = lo + (j + 1) by omega] at this
    · intro h
      refine ⟨by simpa [runFrom] using h 0 (by omega), ?_⟩
      intro j hj
      have := h (j + 1) (by omega)
      simp only [runFrom] at this
      rwa [show lo + 1 + j = lo + (j + 1) by omega]

/-- `replayOk` of a sorted table with keys `≤ n`, by index -/
theorem replayOk_iff {f : Fmts} (hs : SortedKeys f) (n : Nat) (hub : ∀ kp ∈ f, kp.1 ≤ n) :
    replayOk f = true ↔ ∀ k, k ≤ n → stepOk (bef (Fmts.toFun f) k) (Fmts.toFun f k).rem = true := by
  unfold replayOk
  rw [replayOkFrom_eq f hs 0 (n + 1) (fun _ _ => Nat.zero_le _) (fun kp h => by have := hub kp h; omega),
    okFn_true_iff]
  constructor
  · intro h k hk
    have := h k (by omega)
    simpa [bef] using this
  · intro h j hj
    have := h j (by omega)
    simpa [bef] using this

end Remove
