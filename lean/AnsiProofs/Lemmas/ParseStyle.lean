import AnsiProofs.Lemmas.RenderStrip
import AnsiProofs.Props.C02
import AnsiProofs.Props.C18
import AnsiProofs.Props.C06
import AnsiProofs.Props.C07
/-
  AnsiProofs.Lemmas.ParseStyle — helper lemmas for the STYLE half of property C02
  (`set_ansi_str`: each character reports the effective style a conforming terminal gives it).

  * Part A: well-formed parameter strings — `parse_graphic_sequence` (string input) and the
            terminal read the same numbers; the per-sequence effect lemma for ANY prior state
  * Part B: the two lists `settings_to_remove` / `settings_to_apply` of the loop body, as sets of texts
  * Part C: the effective style of a list of settings whose texts are the values of a dict
            (order-independent: one group text per effect group)
  * Part D: one step of the loop body against the invariant
  * Part E: the fold over the ascending list of SGR sequences
-/

open Term Eff ParseTextL ParseTextL.C02Spec

namespace ParseStyleL

/-! ## Part A: well-formed parameter strings -/

/-- every parameter of the parameter string is empty or decimal (after trimming) -/
def ParamsOK (p : Str) : Prop := (Term.params p).all Option.isSome = true

instance (p : Str) : Decidable (ParamsOK p) := by unfold ParamsOK; infer_instance

/-- `Term.wellFormed` through `sgrs`: every listed parameter string is well formed -/
theorem wellFormedAux_sgrAux (m : Term.Mode) (n : Nat) (s : Str) :
    Term.wellFormedAux m s = true → ∀ ks ∈ sgrAux m n s, ParamsOK ks.2 := by
  fun_induction sgrAux m n s with
  | case1 => simp
  | case2 n rest ih =>
    intro h; rw [Term.wellFormedAux.eq_2] at h; exact ih h
  | case3 n c rest hne ih =>
    intro h; rw [Term.wellFormedAux.eq_3 _ _ hne] at h; exact ih h
  | case4 => simp
  | case5 ps n c rest hf hm ih =>
    intro h
    rw [Term.wellFormedAux.eq_5, if_pos hf, if_pos hm, Bool.and_eq_true] at h
    intro ks hks
    rcases List.mem_cons.mp hks with rfl | hks
    · exact h.1
    · exact ih h.2 ks hks
  | case6 ps n c rest hf hm ih =>
    intro h
    rw [Term.wellFormedAux.eq_5, if_pos hf, if_neg hm, Bool.and_eq_true] at h
    exact ih h.2
  | case7 ps n c rest hf ih =>
    intro h
    rw [Term.wellFormedAux.eq_5, if_neg hf] at h
    exact ih h

theorem wellFormed_sgrs (r : Str) (h : Term.wellFormed r = true) : ∀ ks ∈ sgrs r, ParamsOK ks.2 :=
  wellFormedAux_sgrAux .text 0 r h

theorem strip_eq_trim (s : Str) : Py.strip s = Term.trim s := rfl

theorem decimal_eq (s : Str) : Term.decimal s = Py.digitsVal s := rfl

theorem int_nil : Py.int [] = none := by decide

/-- one item: the model's `int(item.strip())` (empty = 0) and the terminal's `param` agree -/
theorem item_eq_param (it : Str) (n : Nat) (h : Term.param it = some n) :
    (match Py.int (Py.strip it) with
      | some i => Code.int i
      | none => if (Py.strip it).isEmpty then Code.int 0 else Code.str (Py.strip it)) =
      Code.int (n : Int) := by
  unfold Term.param at h
  simp only at h
  rw [strip_eq_trim]
  by_cases he : (Term.trim it).isEmpty = true
  · rw [if_pos he] at h
    cases h
    have : Term.trim it = [] := List.isEmpty_iff.1 he
    rw [this, int_nil]
    rfl
  · rw [if_neg he] at h
    by_cases hd : (Term.trim it).all Term.isDigit = true
    · rw [if_pos hd] at h
      cases h
      have hne : Term.trim it ≠ [] := fun e => he (by rw [e]; rfl)
      have hall : AllDigits (Term.trim it) := by
        intro c hc
        exact List.all_eq_true.1 hd c hc
      rw [int_digits hne hall, decimal_eq]
    · rw [if_neg hd] at h; cases h

theorem items_eq_aux (l : List Str) (h : ∀ it ∈ l, (Term.param it).isSome = true) :
    l.map (fun it =>
      let it := Py.strip it
      match Py.int it with
      | some i => Code.int i
      | none => if it.isEmpty then Code.int 0 else Code.str it) =
      ints ((l.map Term.param).filterMap id) := by
  induction l with
  | nil => rfl
  | cons it l ih =>
    have h1 := h it (by simp)
    obtain ⟨n, hn⟩ := Option.isSome_iff_exists.1 h1
    rw [List.map_cons, List.map_cons, ih (fun x hx => h x (by simp [hx])), hn]
    simp only [List.filterMap_cons, id]
    rw [item_eq_param it n hn]
    rfl

/-- **model and terminal read the same numbers from a well-formed parameter string** -/
theorem items_eq_params (p : Str) (hp : ParamsOK p) :
    pgsItemsOfStr p = ints ((Term.params p).filterMap id) ∧
    Term.params p = ((Term.params p).filterMap id).map some := by
  unfold ParamsOK at hp
  constructor
  · unfold pgsItemsOfStr Term.params
    rw [splitSemi_eq]
    apply items_eq_aux
    intro it hit
    unfold Term.params at hp
    rw [splitSemi_eq] at hp
    exact List.all_eq_true.1 hp _ (List.mem_map.2 ⟨it, hit, rfl⟩)
  · generalize Term.params p = l at hp
    induction l with
    | nil => rfl
    | cons a l ih =>
      simp only [List.all_cons, Bool.and_eq_true] at hp
      obtain ⟨n, rfl⟩ := Option.isSome_iff_exists.1 hp.1
      simp only [List.filterMap_cons, id, List.map_cons]
      rw [← ih hp.2]

theorem params_ne_nil (p : Str) : Term.params p ≠ [] := by
  unfold Term.params
  rw [splitSemi_eq]
  intro h
  exact splitOnChar_ne_nil ';' p (List.map_eq_nil_iff.1 h)

/-- the settings `parse_graphic_sequence(p, add_erroneous=False)` hands to `settings_to_dict` -/
def seqSettings (p : Str) : List Setting := (pgsStr p false).map (fun t => (⟨0, t⟩ : Setting))

theorem seqSettings_spec (p : Str) (hp : ParamsOK p) :
    (∀ s ∈ seqSettings p, isGroupTxt s.txt = true) ∧
    ∀ t : TState, Term.feed t (codesOf (seqSettings p)) = Term.feed t (Term.params p) := by
  by_cases hne : p = []
  · subst hne
    have e1 : seqSettings [] = [⟨0, ['0']⟩] := by decide
    have e2 : codesOf [(⟨0, ['0']⟩ : Setting)] = [some 0] := by decide
    have e3 : Term.params [] = [some 0] := by decide
    rw [e1, e2, e3]
    exact ⟨by simp [isGroupTxt_zero], fun _ => rfl⟩
  · obtain ⟨h1, h2⟩ := items_eq_params p hp
    generalize (Term.params p).filterMap id = codes at h1 h2
    obtain ⟨gs, hgs⟩ := split_exists codes
    have hgv := split_groupVals hgs
    have hnn : ∀ g ∈ gs, g ≠ [] := fun g hg => by cases hgv g hg <;> simp
    have hemp : p.isEmpty = false := by simpa [List.isEmpty_iff] using hne
    have e : seqSettings p = (gs.map joinNats).map (fun t => (⟨0, t⟩ : Setting)) := by
      unfold seqSettings pgsStr
      rw [hemp]
      simp only [Bool.false_eq_true, if_false]
      rw [h1, pgsItems_false hgs]
    rw [e]
    refine ⟨?_, fun t => ?_⟩
    · intro s hs
      simp only [List.mem_map] at hs
      obtain ⟨t, ⟨g, hg, rfl⟩, rfl⟩ := hs
      exact isGroupTxt_joinNats (hgv g hg)
    · rw [codesOf_groups gs hnn, split_feed hgs, h2]

/-- **Per-sequence effect lemma** (`C18.pgs_terminal` from any prior state, string input): on a
    well-formed parameter string, `parse_graphic_sequence` + `settings_to_dict` on top of `old` is
    what the terminal does with the same parameter string in the state `old` stands for. -/
theorem pgsStr_effect (p : Str) (hp : ParamsOK p) (old : PyDict) :
    alpha (settingsToDict (seqSettings p) old) = Term.feed (alpha old) (Term.params p) := by
  obtain ⟨h1, h2⟩ := seqSettings_spec p hp
  rw [alpha_settingsToDict h1, h2]

theorem pgsStr_dictOK (p : Str) (hp : ParamsOK p) (old : PyDict) (hd : DictOK old) :
    DictOK (settingsToDict (seqSettings p) old) :=
  dictOK_settingsToDict (seqSettings_spec p hp).1 hd

/-! ## Part B: `settings_to_remove` / `settings_to_apply` as sets of texts -/

/-- the texts of the values of a dict -/
def dtexts (d : PyDict) : List Str := d.map (fun kv => kv.2.txt)

theorem mem_dtexts {d : PyDict} {t : Str} : t ∈ dtexts d ↔ ∃ kv ∈ d, kv.2.txt = t := by
  simp [dtexts]

/- `rfl`-unfoldings (so that no `PyDict.*.eq_1` auxiliary is generated in this module) -/
theorem get?_def (d : PyDict) (k : Nat) :
    d.get? k = (d.find? (fun kv => kv.1 == k)).map (·.2) := rfl
theorem contains_def (d : PyDict) (k : Nat) : d.contains k = d.any (fun kv => kv.1 == k) := rfl

theorem get_eq_some_mem {d : PyDict} {k : Nat} {v : Setting} (h : d.get? k = some v) : (k, v) ∈ d := by
  rw [get?_def] at h
  rw [Option.map_eq_some_iff] at h
  obtain ⟨kv, hf, rfl⟩ := h
  have h1 := List.find?_some hf
  have h2 := List.mem_of_find?_eq_some hf
  have : kv.1 = k := by simpa using h1
  subst this; exact h2

theorem get_of_mem {d : PyDict} (hp : d.Pairwise (fun a b => a.1 ≠ b.1)) {k : Nat} {v : Setting}
    (h : (k, v) ∈ d) : d.get? k = some v := by
  induction d with
  | nil => cases h
  | cons x rest ih =>
    rw [List.pairwise_cons] at hp
    rcases List.mem_cons.1 h with rfl | h
    · rw [get?_def]; simp
    · have hx : ¬ ((x.1 == k) = true) := by simpa using hp.1 _ h
      have := ih hp.2 h
      rw [get?_def] at this ⊢
      have e : List.find? (fun kv : Nat × Setting => kv.1 == k) (x :: rest) =
          List.find? (fun kv : Nat × Setting => kv.1 == k) rest := List.find?_cons_of_neg hx
      rw [e]
      exact this

theorem get_eq_none {d : PyDict} {k : Nat} (h : d.get? k = none) : ∀ kv ∈ d, kv.1 ≠ k := by
  rw [get?_def] at h
  rw [Option.map_eq_none_iff, List.find?_eq_none] at h
  intro kv hkv
  simpa using h kv hkv

theorem contains_iff {d : PyDict} {k : Nat} : d.contains k = true ↔ ∃ kv ∈ d, kv.1 = k := by
  rw [contains_def]; simp

theorem pair_unique {d : PyDict} (hp : d.Pairwise (fun a b => a.1 ≠ b.1)) {a b : Nat × Setting}
    (ha : a ∈ d) (hb : b ∈ d) (h : a.1 = b.1) : a = b := by
  have h1 := get_of_mem hp (k := a.1) (v := a.2) ha
  have h2 := get_of_mem hp (k := b.1) (v := b.2) hb
  rw [h, h2] at h1
  exact Prod.ext h (Option.some.inj h1).symm

/-- the text of an entry determines its key -/
theorem key_of_txt {d d' : PyDict} (hd : DictOK d) (hd' : DictOK d') {kv kv' : Nat × Setting}
    (h : kv ∈ d) (h' : kv' ∈ d') (e : kv.2.txt = kv'.2.txt) : kv.1 = kv'.1 := by
  have a := (hd.2 kv h).2
  have b := (hd'.2 kv' h').2
  rw [e, b] at a
  simp only [Option.some.injEq, Prod.mk.injEq, and_true] at a
  exact a.symm

theorem dtexts_nodup {d : PyDict} (hd : DictOK d) : (dtexts d).Nodup := by
  unfold dtexts
  rw [List.nodup_iff_pairwise_ne, List.pairwise_map]
  refine List.Pairwise.imp_of_mem ?_ hd.1
  intro a b ha hb hne e
  exact hne (key_of_txt hd hd ha hb e)

/-- `settings_to_remove` of the loop body, as a function of the old and the new dict -/
def toRemoveOf (old new : PyDict) : List Setting :=
  ((new.filter (fun kv => match old.get? kv.1 with
      | some v => v.txt != kv.2.txt
      | none => false)).filterMap (fun kv => old.get? kv.1)) ++
    (old.filter (fun kv => !new.contains kv.1)).map (·.2)

/-- `settings_to_apply` of the loop body -/
def toApplyOf (old new : PyDict) : List Setting :=
  (new.filter (fun kv => match old.get? kv.1 with
      | some v => v.txt != kv.2.txt
      | none => true)).map (·.2)

/-- removed: exactly the old values whose text is no value of the new dict -/
theorem mem_toRemove {old new : PyDict} (ho : DictOK old) (hn : DictOK new) (t : Str) :
    t ∈ texts (toRemoveOf old new) ↔ t ∈ dtexts old ∧ t ∉ dtexts new := by
  unfold toRemoveOf texts
  simp only [List.map_append, List.mem_append, List.mem_map, List.mem_filterMap, List.mem_filter,
    mem_dtexts]
  constructor
  · rintro (⟨s, ⟨kv, ⟨hkv, hc⟩, hg⟩, rfl⟩ | ⟨s, ⟨kv, ⟨hkv, hc⟩, rfl⟩, rfl⟩)
    · have hm := get_eq_some_mem hg
      rw [hg] at hc
      have hc' : s.txt ≠ kv.2.txt := by simpa using hc
      refine ⟨⟨_, hm, rfl⟩, ?_⟩
      rintro ⟨kv', hkv', e⟩
      have hk : kv'.1 = kv.1 := key_of_txt (kv' := (kv.1, s)) hn ho hkv' hm e
      have : kv' = kv := pair_unique hn.1 hkv' hkv hk
      subst this
      exact hc' e.symm
    · refine ⟨⟨kv, hkv, rfl⟩, ?_⟩
      rintro ⟨kv', hkv', e⟩
      have hk : kv'.1 = kv.1 := key_of_txt hn ho hkv' hkv e
      have : new.contains kv.1 = true := contains_iff.2 ⟨kv', hkv', hk⟩
      rw [this] at hc
      cases hc
  · rintro ⟨⟨kv, hkv, rfl⟩, hnot⟩
    by_cases hc : new.contains kv.1 = true
    · left
      obtain ⟨kv', hkv', hk⟩ := contains_iff.1 hc
      have hg : old.get? kv'.1 = some kv.2 := get_of_mem ho.1 (by rw [hk]; exact hkv)
      refine ⟨kv.2, ⟨kv', ⟨hkv', ?_⟩, hg⟩, rfl⟩
      rw [hg]
      simp only [bne_iff_ne, ne_eq]
      intro e
      exact hnot ⟨kv', hkv', e.symm⟩
    · right
      exact ⟨kv.2, ⟨kv, ⟨hkv, by simpa using hc⟩, rfl⟩, rfl⟩

/-- applied: exactly the new values whose text is no value of the old dict -/
theorem mem_toApply {old new : PyDict} (ho : DictOK old) (hn : DictOK new) (t : Str) :
    t ∈ texts (toApplyOf old new) ↔ t ∈ dtexts new ∧ t ∉ dtexts old := by
  unfold toApplyOf texts
  simp only [List.mem_map, List.mem_filter, mem_dtexts]
  constructor
  · rintro ⟨s, ⟨kv, ⟨hkv, hc⟩, rfl⟩, rfl⟩
    refine ⟨⟨kv, hkv, rfl⟩, ?_⟩
    rintro ⟨kv', hkv', e⟩
    have hk : kv'.1 = kv.1 := key_of_txt ho hn hkv' hkv e
    have hg : old.get? kv.1 = some kv'.2 := get_of_mem ho.1 (by rw [← hk]; exact hkv')
    rw [hg] at hc
    have : kv'.2.txt ≠ kv.2.txt := by simpa using hc
    exact this e
  · rintro ⟨⟨kv, hkv, rfl⟩, hnot⟩
    refine ⟨kv.2, ⟨kv, ⟨hkv, ?_⟩, rfl⟩, rfl⟩
    cases hg : old.get? kv.1 with
    | none => rfl
    | some v =>
      simp only [bne_iff_ne, ne_eq]
      intro e
      exact hnot ⟨_, get_eq_some_mem hg, e⟩

theorem nodup_toApply {old new : PyDict} (hn : DictOK new) : (texts (toApplyOf old new)).Nodup := by
  unfold toApplyOf texts
  rw [List.map_map]
  exact (dtexts_nodup hn).sublist (List.Sublist.map _ List.filter_sublist)

/-! ## Part C: the effective style of settings whose texts are the values of a dict -/

/-- the effect number the first code of a setting text is filed under -/
def keyOf (t : Str) : Nat :=
  match SettingTxt.initialParam t with
  | some (e, _) => e
  | none => 0

/-- a group text that applies (sets) its own effect group -/
def ApplyTxt (t : Str) : Prop :=
  isGroupTxt t = true ∧ SettingTxt.initialParam t = some (keyOf t, Gen.fnApply)

theorem applyTxt_of_mem {d : PyDict} (hd : DictOK d) {kv : Nat × Setting} (h : kv ∈ d) :
    ApplyTxt kv.2.txt ∧ keyOf kv.2.txt = kv.1 := by
  obtain ⟨h1, h2⟩ := hd.2 kv h
  have hk : keyOf kv.2.txt = kv.1 := by unfold keyOf; rw [h2]
  exact ⟨⟨h1, by rw [hk]; exact h2⟩, hk⟩

theorem dictStep_apply {s : Setting} (h : ApplyTxt s.txt) (d : PyDict) :
    dictStep d s = d.insert (keyOf s.txt) s := by
  unfold dictStep
  rw [h.2]
  simp

/-- looking a key up in `settings_to_dict(A, d0)` when every setting of `A` applies its own group
    and no two of them share a group: the entry is the setting of `A` with that key, if any -/
theorem find_std (A : List Setting) (hA : ∀ s ∈ A, ApplyTxt s.txt)
    (hp : A.Pairwise (fun a b => keyOf a.txt ≠ keyOf b.txt)) (k : Nat) (d0 : PyDict) :
    (∀ s ∈ A, keyOf s.txt = k →
      (settingsToDict A d0).find? (fun kv => kv.1 == k) = some (k, s)) ∧
    ((∀ s ∈ A, keyOf s.txt ≠ k) →
      (settingsToDict A d0).find? (fun kv => kv.1 == k) = d0.find? (fun kv => kv.1 == k)) := by
  induction A generalizing d0 with
  | nil => exact ⟨by simp, fun _ => rfl⟩
  | cons a A ih =>
    rw [List.pairwise_cons] at hp
    have ha := hA a (by simp)
    have ih' := ih (fun s hs => hA s (by simp [hs])) hp.2 (d0.insert (keyOf a.txt) a)
    rw [settingsToDict_cons, dictStep_apply ha]
    constructor
    · intro s hs hk
      rcases List.mem_cons.1 hs with rfl | hs
      · rw [ih'.2 (fun s' hs' e => hp.1 s' hs' (by rw [e, hk])), find_insert, if_pos hk.symm, hk]
      · exact ih'.1 s hs hk
    · intro hne
      rw [ih'.2 (fun s hs => hne s (by simp [hs])), find_insert,
        if_neg (fun e => hne a (by simp) e.symm)]

theorem entryVal_txt (g : Group) {s s' : Setting} (h : s.txt = s'.txt) : entryVal g s = entryVal g s' := by
  unfold entryVal; rw [h]

theorem find_of_mem {d : PyDict} (hp : d.Pairwise (fun a b => a.1 ≠ b.1)) {kv : Nat × Setting}
    (h : kv ∈ d) : d.find? (fun x => x.1 == kv.1) = some kv := by
  induction d with
  | nil => cases h
  | cons x rest ih =>
    rw [List.pairwise_cons] at hp
    rcases List.mem_cons.1 h with rfl | h
    · simp
    · have hx : ¬ ((x.1 == kv.1) = true) := by simpa using hp.1 _ h
      have e : List.find? (fun y : Nat × Setting => y.1 == kv.1) (x :: rest) =
          List.find? (fun y : Nat × Setting => y.1 == kv.1) rest := List.find?_cons_of_neg hx
      rw [e]
      exact ih hp.2 h

/-- the active settings are, as a set of texts without repetition, the values of the dict -/
def TxtSet (A : List Setting) (d : PyDict) : Prop :=
  (texts A).Nodup ∧ ∀ t, t ∈ texts A ↔ t ∈ dtexts d

theorem mem_texts {A : List Setting} {t : Str} : t ∈ texts A ↔ ∃ s ∈ A, s.txt = t := by
  simp [texts]

/-- **Order independence**: a dict holds one group text per effect group, each setting its own
    group, so whatever the order in which a character reports the dict's values, their effective
    style is the state the dict stands for. -/
theorem eff_of_txtSet {A : List Setting} {d : PyDict} (hd : DictOK d) (h : TxtSet A d) :
    eff A = alpha d := by
  obtain ⟨hnd, hmem⟩ := h
  -- every active setting is a value of the dict
  have hin : ∀ s ∈ A, ∃ kv ∈ d, kv.2.txt = s.txt := fun s hs =>
    mem_dtexts.1 ((hmem s.txt).1 (mem_texts.2 ⟨s, hs, rfl⟩))
  have hA : ∀ s ∈ A, ApplyTxt s.txt := by
    intro s hs
    obtain ⟨kv, hkv, e⟩ := hin s hs
    rw [← e]
    exact (applyTxt_of_mem hd hkv).1
  have hp : A.Pairwise (fun a b => keyOf a.txt ≠ keyOf b.txt) := by
    have h1 : A.Pairwise (fun a b => a.txt ≠ b.txt) := by
      have := List.nodup_iff_pairwise_ne.1 hnd
      unfold texts at this
      exact List.pairwise_map.1 this
    refine List.Pairwise.imp_of_mem ?_ h1
    intro a b ha hb hne e
    obtain ⟨kva, hkva, ea⟩ := hin a ha
    obtain ⟨kvb, hkvb, eb⟩ := hin b hb
    have ka := (applyTxt_of_mem hd hkva).2
    have kb := (applyTxt_of_mem hd hkvb).2
    rw [ea] at ka
    rw [eb] at kb
    have : kva = kvb := pair_unique hd.1 hkva hkvb (by rw [← ka, ← kb, e])
    subst this
    exact hne (ea.symm.trans eb)
  have e1 : eff A = alpha (settingsToDict A []) := by
    rw [alpha_settingsToDict (fun s hs => (hA s hs).1), alpha_nil]
    rfl
  rw [e1]
  funext g
  rw [alpha_eq, alpha_eq]
  by_cases hex : ∃ s ∈ A, keyOf s.txt = effOfGroup g
  · obtain ⟨s, hs, hk⟩ := hex
    rw [(find_std A hA hp (effOfGroup g) []).1 s hs hk]
    obtain ⟨kv, hkv, e⟩ := hin s hs
    have kk := (applyTxt_of_mem hd hkv).2
    rw [e, hk] at kk
    have := find_of_mem hd.1 hkv
    rw [← kk] at this
    rw [this]
    simp only [Option.bind_some]
    exact entryVal_txt g e.symm
  · have hne : ∀ s ∈ A, keyOf s.txt ≠ effOfGroup g := fun s hs e => hex ⟨s, hs, e⟩
    rw [(find_std A hA hp (effOfGroup g) []).2 hne]
    cases hf : d.find? (fun kv => kv.1 == effOfGroup g) with
    | none => rfl
    | some kv =>
      exfalso
      have hkv := List.mem_of_find?_eq_some hf
      have hk : kv.1 = effOfGroup g := by simpa using List.find?_some hf
      obtain ⟨s, hs, e⟩ := mem_texts.1 ((hmem kv.2.txt).2 (mem_dtexts.2 ⟨kv, hkv, rfl⟩))
      have kk := (applyTxt_of_mem hd hkv).2
      exact hne s hs (by rw [e, kk, hk])

/-! ## Part D: one step of the loop body -/

theorem sliceIdx_key (n k : Nat) (h : k < n) : sliceIdx n (some (k : Int)) 0 = k := by
  have : ¬ ((k : Int) < 0) := by omega
  simp only [sliceIdx, this, if_false, Int.toNat_natCast]
  omega

theorem texts_freshSettings (nid : Nat) (ts : List Str) : texts (freshSettings nid ts) = ts := by
  unfold texts freshSettings
  rw [List.map_map]
  have : ((fun s : Setting => s.txt) ∘ fun (x : Str × Nat) =>
      match x with | (t, i) => (⟨nid + i, t⟩ : Setting)) = Prod.fst := by
    funext ⟨t, i⟩; rfl
  rw [this]
  exact List.zipIdx_map_fst 0 ts

/-- `if settings_to_remove: self.remove_formatting(settings_to_remove, key)` -/
def stepRemove (x : AStr) (R : List Setting) (key : Nat) : AStr :=
  if R.isEmpty then x else x.removeFormatting (some (texts R)) (some key) none

/-- `if settings_to_apply: self.apply_formatting(settings_to_apply, key)` -/
def stepApply (x : AStr) (nid : Nat) (N : List Setting) (key : Nat) : AStr :=
  if N.isEmpty then x else x.applyFormatting (freshSettings nid (texts N)) (some key) none true

theorem stepRemove_spec (x : AStr) (hw : WF x) (R : List Setting) (key : Nat) (hk : key < x.len) :
    WF (stepRemove x R key) ∧ (stepRemove x R key).s = x.s ∧
    (∀ n, FreshFrom x n → FreshFrom (stepRemove x R key) n) ∧
    (∀ j, j < key → act (stepRemove x R key) j = act x j) ∧
    (∀ j, key ≤ j → j < x.len →
      act (stepRemove x R key) j = (act x j).filter (fun s => !(texts R).contains s.txt)) := by
  unfold stepRemove
  split
  · rename_i he
    have : R = [] := List.isEmpty_iff.1 he
    subst this
    refine ⟨hw, rfl, fun _ h => h, fun _ _ => rfl, fun j _ _ => ?_⟩
    symm
    apply List.filter_eq_self.2
    intro s _
    simp [texts]
  · have hst : sliceIdx x.len (some (key : Int)) 0 = key := sliceIdx_key _ _ hk
    refine ⟨remove_wf x hw _ _ _, remove_text _ _ _ _,
      fun n h s hs => h s (removeNoNewSettings x _ _ _ hw s hs), ?_, ?_⟩
    · intro j hj
      exact remove_outside x hw _ _ _ j (Or.inl (by rw [hst]; exact hj))
    · intro j h1 h2
      rw [remove_inside x hw (some (texts R)) (some (key : Int)) none j (by rw [hst]; exact hk)
        (by rw [hst]; exact h1) h2]
      rfl

theorem stepApply_spec (x : AStr) (hw : WF x) (nid : Nat) (hf : FreshFrom x nid) (N : List Setting)
    (key : Nat) (hk : key < x.len) :
    WF (stepApply x nid N key) ∧ (stepApply x nid N key).s = x.s ∧
    FreshFrom (stepApply x nid N key) (nid + N.length) ∧
    (∀ j, j < key → act (stepApply x nid N key) j = act x j) ∧
    (∀ j, key ≤ j → j < x.len → ∃ p q, act x j = p ++ q ∧
      act (stepApply x nid N key) j = p ++ freshSettings nid (texts N) ++ q) := by
  unfold stepApply
  split
  · rename_i he
    have : N = [] := List.isEmpty_iff.1 he
    subst this
    refine ⟨hw, rfl, hf, fun _ _ => rfl, fun j _ _ => ⟨act x j, [], by simp, ?_⟩⟩
    simp [texts, freshSettings]
  · have hst : key = sliceIdx x.len (some (key : Int)) 0 := (sliceIdx_key _ _ hk).symm
    have hen : x.len = sliceIdx x.len none x.len := rfl
    have hfn := freshSettings_fresh x nid (texts N) hf
    refine ⟨apply_wf x _ _ _ true hw hfn, apply_text _ _ _ _ _, ?_, ?_, ?_⟩
    · have := freshFrom_apply (texts N) (some (key : Int)) none true hw hf
      rw [texts_length] at this
      exact this
    · intro j hj
      exact apply_outside x _ _ _ true hst hen hw hfn j (Or.inl hj)
    · intro j h1 h2
      exact apply_inside_top x _ _ _ hst hen hw hfn j h1 h2 hk

theorem setAnsiStep_skip (acc : AStr × PyDict × Nat) (key : Nat) (sq : CtlSeq) (h : key ≥ acc.1.len) :
    AStr.setAnsiStep acc key sq = acc := by
  obtain ⟨x, old, nid⟩ := acc
  unfold AStr.setAnsiStep
  simp only
  rw [if_pos h]

theorem setAnsiStep_eq (x : AStr) (old : PyDict) (nid key : Nat) (sq : CtlSeq) (h : key < x.len) :
    AStr.setAnsiStep (x, old, nid) key sq =
      (stepApply (stepRemove x (toRemoveOf old (settingsToDict (seqSettings sq.sequence) old)) key) nid
          (toApplyOf old (settingsToDict (seqSettings sq.sequence) old)) key,
       settingsToDict (seqSettings sq.sequence) old,
       nid + (toApplyOf old (settingsToDict (seqSettings sq.sequence) old)).length) := by
  unfold AStr.setAnsiStep
  simp only
  rw [if_neg (by omega)]
  rfl

/-- The loop invariant at "last processed key" `k` for a text of length `n`: the history
    invariant, the identities handed out so far, a well-formed dict, and — the point — every
    character from `k` on reports exactly the dict's values (each once, in some order). -/
structure StepInv (n k : Nat) (x : AStr) (d : PyDict) (nid : Nat) : Prop where
  wf : WF x
  fresh : FreshFrom x nid
  len : x.len = n
  dict : DictOK d
  set : ∀ j, k ≤ j → j < n → TxtSet (act x j) d

theorem len_of_s {x y : AStr} (h : y.s = x.s) : y.len = x.len := by
  unfold AStr.len; rw [h]

/-- one sequence at offset `key` (inside the text, not before the last processed key) -/
theorem step_inv {n k : Nat} {x : AStr} {d : PyDict} {nid : Nat} (h : StepInv n k x d nid)
    (key : Nat) (hk : k ≤ key) (hlt : key < n) (p : Str) (hp : ParamsOK p) (tm : Str) :
    StepInv n key (AStr.setAnsiStep (x, d, nid) key ⟨p, tm⟩).1
        (AStr.setAnsiStep (x, d, nid) key ⟨p, tm⟩).2.1 (AStr.setAnsiStep (x, d, nid) key ⟨p, tm⟩).2.2 ∧
    alpha (AStr.setAnsiStep (x, d, nid) key ⟨p, tm⟩).2.1 = Term.feed (alpha d) (Term.params p) ∧
    ∀ j, j < key → act (AStr.setAnsiStep (x, d, nid) key ⟨p, tm⟩).1 j = act x j := by
  have hlen := h.len
  rw [setAnsiStep_eq x d nid key ⟨p, tm⟩ (by omega)]
  simp only
  have hnew : DictOK (settingsToDict (seqSettings p) d) := pgsStr_dictOK p hp d h.dict
  have halpha := pgsStr_effect p hp d
  generalize settingsToDict (seqSettings p) d = new at hnew halpha ⊢
  generalize hR : toRemoveOf d new = R
  generalize hN : toApplyOf d new = N
  obtain ⟨r1, r2, r3, r4, r5⟩ := stepRemove_spec x h.wf R key (by omega)
  have hl1 : (stepRemove x R key).len = x.len := len_of_s r2
  obtain ⟨a1, a2, a3, a4, a5⟩ := stepApply_spec (stepRemove x R key) r1 nid (r3 nid h.fresh) N key
    (by omega)
  refine ⟨⟨a1, a3, ?_, hnew, ?_⟩, ?_, ?_⟩
  · rw [len_of_s a2, hl1, hlen]
  · intro j hj1 hj2
    obtain ⟨hnd, hmem⟩ := h.set j (by omega) hj2
    obtain ⟨pp, qq, e1, e2⟩ := a5 j hj1 (by omega)
    rw [r5 j hj1 (by omega)] at e1
    -- the texts after the removal
    have hsub : (texts (pp ++ qq)).Sublist (texts (act x j)) := by
      rw [← e1]; exact List.Sublist.map _ List.filter_sublist
    have hnd1 : (texts (pp ++ qq)).Nodup := hnd.sublist hsub
    have hmem1 : ∀ t, t ∈ texts (pp ++ qq) ↔ t ∈ dtexts d ∧ t ∈ dtexts new := by
      intro t
      rw [← e1, ← hmem t]
      have hrm := mem_toRemove h.dict hnew
      rw [hR] at hrm
      simp only [mem_texts, List.mem_filter, Bool.not_eq_true', List.contains_eq_mem,
        decide_eq_false_iff_not]
      constructor
      · rintro ⟨s, ⟨hs, hnot⟩, rfl⟩
        have hin : s.txt ∈ dtexts d := (hmem s.txt).1 (mem_texts.2 ⟨s, hs, rfl⟩)
        refine ⟨⟨s, hs, rfl⟩, ?_⟩
        by_cases hc : s.txt ∈ dtexts new
        · exact hc
        · exact absurd (mem_texts.1 ((hrm s.txt).2 ⟨hin, hc⟩)) hnot
      · rintro ⟨⟨s, hs, rfl⟩, hin⟩
        exact ⟨s, ⟨hs, fun hc => ((hrm s.txt).1 (mem_texts.2 hc)).2 hin⟩, rfl⟩
    have hap := mem_toApply h.dict hnew
    have hndN := nodup_toApply (old := d) hnew
    rw [hN] at hap hndN
    -- the texts after the application, up to order
    have hperm : (texts (pp ++ freshSettings nid (texts N) ++ qq)).Perm (texts (pp ++ qq) ++ texts N) := by
      unfold texts
      simp only [List.map_append, List.append_assoc]
      apply List.Perm.append_left
      have := texts_freshSettings nid (texts N)
      unfold texts at this
      rw [this]
      exact List.perm_append_comm
    rw [e2]
    constructor
    · rw [hperm.nodup_iff, List.nodup_append]
      refine ⟨hnd1, hndN, ?_⟩
      intro a ha b hb e
      subst e
      exact ((hap a).1 hb).2 ((hmem1 a).1 ha).1
    · intro t
      rw [hperm.mem_iff, List.mem_append, hmem1 t, hap t]
      by_cases h1 : t ∈ dtexts d <;> by_cases h2 : t ∈ dtexts new <;> simp [h1, h2]
  · exact halpha
  · intro j hj
    rw [a4 j hj, r4 j hj]

/-! ## Part E: the fold over the ascending list of SGR sequences -/

/-- the loop body as `C02.setAnsi_eq_fold_sgrs` folds it -/
def stepFn (acc : AStr × PyDict × Nat) (ks : Nat × Str) : AStr × PyDict × Nat :=
  AStr.setAnsiStep acc ks.1 ⟨ks.2, ['m']⟩

theorem stAt_nil (t : TState) (i : Nat) : stAt t [] i = t := rfl

theorem stAt_cons_gt (t : TState) (k : Nat) (ps : Str) (L : List (Nat × Str)) (i : Nat) (h : i < k) :
    stAt t ((k, ps) :: L) i = stAt t L i := by
  unfold stAt
  have : ¬ (k ≤ i) := by omega
  simp [this]

/-- **Loop invariant over the whole fold.**  From a state satisfying the invariant at `k`, folding
    the loop body over sequences at ascending offsets `≥ k` with well-formed parameter strings:
    characters before `k` are not touched; every character `i ≥ k` ends up reporting the style of
    the terminal state reached from the dict's state by the sequences at offsets `≤ i`; the final
    dict stands for the state reached by the sequences inside the text (those at the very end of
    the text are skipped by the library). -/
theorem fold_inv (n : Nat) (L : List (Nat × Str)) :
    ∀ (k : Nat) (x : AStr) (d : PyDict) (nid : Nat), StepInv n k x d nid →
      L.Pairwise (fun a b => a.1 ≤ b.1) → (∀ ks ∈ L, k ≤ ks.1) → (∀ ks ∈ L, ParamsOK ks.2) →
      (∀ j, j < k → act (L.foldl stepFn (x, d, nid)).1 j = act x j) ∧
      (∀ i, k ≤ i → i < n → eff (act (L.foldl stepFn (x, d, nid)).1 i) = stAt (alpha d) L i) ∧
      alpha (L.foldl stepFn (x, d, nid)).2.1 =
        feedSeqs (alpha d) ((L.filter (fun ks => ks.1 < n)).map (·.2)) ∧
      DictOK (L.foldl stepFn (x, d, nid)).2.1 := by
  induction L with
  | nil =>
    intro k x d nid h _ _ _
    refine ⟨fun _ _ => rfl, fun i h1 h2 => ?_, rfl, h.dict⟩
    rw [stAt_nil]
    exact eff_of_txtSet h.dict (h.set i h1 h2)
  | cons kp L ih =>
    obtain ⟨key, p⟩ := kp
    intro k x d nid h hs hge hok
    rw [List.pairwise_cons] at hs
    have hkey : k ≤ key := hge (key, p) (by simp)
    have hp : ParamsOK p := hok (key, p) (by simp)
    have hok' : ∀ ks ∈ L, ParamsOK ks.2 := fun ks hks => hok ks (by simp [hks])
    rw [List.foldl_cons]
    by_cases hlt : key < n
    · obtain ⟨hinv, halpha, hbefore⟩ := step_inv h key hkey hlt p hp ['m']
      have e : stepFn (x, d, nid) (key, p) =
          ((AStr.setAnsiStep (x, d, nid) key ⟨p, ['m']⟩).1,
           (AStr.setAnsiStep (x, d, nid) key ⟨p, ['m']⟩).2.1,
           (AStr.setAnsiStep (x, d, nid) key ⟨p, ['m']⟩).2.2) := rfl
      rw [e]
      obtain ⟨i1, i2, i3, i4⟩ := ih key _ _ _ hinv hs.2 (fun ks hks => hs.1 ks hks) hok'
      refine ⟨fun j hj => ?_, fun i h1 h2 => ?_, ?_, i4⟩
      · rw [i1 j (by omega), hbefore j (by omega)]
      · by_cases hi : i < key
        · rw [i1 i hi, hbefore i hi, eff_of_txtSet h.dict (h.set i h1 h2)]
          rw [stAt_of_lt]
          intro ks hks
          rcases List.mem_cons.1 hks with rfl | hks
          · exact hi
          · have := hs.1 ks hks
            simp only at this
            omega
        · rw [i2 i (by omega) h2, halpha, stAt_cons_le _ _ _ _ _ (by omega)]
      · rw [i3, halpha]
        simp only [List.filter_cons, hlt, decide_true, if_true, List.map_cons, feedSeqs_cons]
    · have e : stepFn (x, d, nid) (key, p) = (x, d, nid) :=
        setAnsiStep_skip (x, d, nid) key _ (by have := h.len; simp only; omega)
      rw [e]
      obtain ⟨i1, i2, i3, i4⟩ := ih k x d nid h hs.2
        (fun ks hks => by have := hs.1 ks hks; simp only at this; omega) hok'
      refine ⟨i1, fun i h1 h2 => ?_, ?_, i4⟩
      · rw [i2 i h1 h2, stAt_cons_gt _ _ _ _ _ (by omega)]
      · rw [i3]
        simp only [List.filter_cons, hlt, decide_false, Bool.false_eq_true, if_false]

/-- the start of the loop: plain text, empty dict -/
theorem stepInv_init (s : Str) (nid : Nat) : StepInv s.length 0 { s := s, fmts := [] } [] nid where
  wf := wf_plain s
  fresh := freshFrom_plain s nid
  len := rfl
  dict := dictOK_nil
  set := by
    intro j _ _
    exact ⟨List.nodup_nil, fun t => Iff.rfl⟩

/-- `current_settings` when `set_ansi_str(r)` returns (the dict component of the loop state) -/
def finalDict (r : Str) (nid : Nat := 0) : PyDict :=
  ((sgrs r).foldl stepFn ({ s := Term.stripSgr r, fmts := [] }, [], nid)).2.1

theorem setAnsi_eq_fold (r : Str) (nid : Nat) :
    (AStr.setAnsi r nid).1 =
      ((sgrs r).foldl stepFn ({ s := Term.stripSgr r, fmts := [] }, [], nid)).1 := by
  rw [C02.setAnsi_eq_fold_sgrs]
  rfl

/-- a terminal that meets no ESC displays every character in the start state -/
theorem runAux_plain (t : TState) (s : Str) (h : '\x1b' ∉ s) (out : List (Char × TState)) :
    Term.runAux .text t s out = (out ++ s.map (fun c => (c, t)), t) := by
  induction s generalizing out with
  | nil => simp [Term.runAux]
  | cons c rest ih =>
    have hc : c ≠ '\x1b' := fun e => h (by simp [e])
    rw [Term.runAux.eq_3 _ _ _ _ (fun _ e _ => hc e), ih (fun hm => h (List.mem_cons_of_mem _ hm))]
    simp

end ParseStyleL
