import AnsiSpec
/-
  Helper lemmas shared by the property proofs: sorted association lists (`Fmts`) and the
  function representation of the change-point table used for every induction over the
  character index.
-/

theorem stepPoint_empty (c : List Setting) : stepPoint c {} = c := by
  simp [stepPoint]

namespace Fmts

/-- every key of `f` is at least `lo` -/
def LB (lo : Nat) (f : Fmts) : Prop := ∀ kp ∈ f, lo ≤ kp.1

theorem get?_nil (k : Nat) : Fmts.get? [] k = none := rfl

theorem get?_cons (k' : Nat) (p : Point) (rest : Fmts) (k : Nat) :
    Fmts.get? ((k', p) :: rest) k = if k' = k then some p else if k < k' then none else Fmts.get? rest k := rfl

/-- absent key ↦ empty point -/
def toFun (f : Fmts) (k : Nat) : Point := f.getD k

theorem get?_of_LB {lo : Nat} {f : Fmts} (h : LB lo f) {k : Nat} (hk : k < lo) : f.get? k = none := by
  induction f with
  | nil => rfl
  | cons kp rest ih =>
    obtain ⟨k', p⟩ := kp
    have h1 : lo ≤ k' := h (k', p) (by simp)
    have h2 : LB lo rest := fun x hx => h x (by simp [hx])
    rw [get?_cons]
    have : ¬ k' = k := by omega
    simp [this]
    intro _
    exact ih h2

theorem sorted_tail {kp : Nat × Point} {rest : Fmts} (h : SortedKeys (kp :: rest)) : SortedKeys rest :=
  (List.pairwise_cons.mp h).2

theorem sorted_head_lt {kp : Nat × Point} {rest : Fmts} (h : SortedKeys (kp :: rest)) :
    ∀ x ∈ rest, kp.1 < x.1 := (List.pairwise_cons.mp h).1

theorem LB_tail_of_sorted {k : Nat} {p : Point} {rest : Fmts} (h : SortedKeys ((k, p) :: rest)) :
    LB (k + 1) rest := fun x hx => sorted_head_lt h x hx

theorem get?_eq_some_of_mem {f : Fmts} (h : SortedKeys f) {k : Nat} {p : Point} (hm : (k, p) ∈ f) :
    f.get? k = some p := by
  induction f with
  | nil => cases hm
  | cons kp rest ih =>
    obtain ⟨k', p'⟩ := kp
    rw [get?_cons]
    rcases List.mem_cons.mp hm with heq | hin
    · cases heq; simp
    · have hlt : k' < k := sorted_head_lt h (k, p) hin
      have h1 : ¬ k' = k := by omega
      have h2 : ¬ k < k' := by omega
      simp [h1, h2]
      exact ih (sorted_tail h) hin

theorem mem_of_get?_eq_some {f : Fmts} {k : Nat} {p : Point} (hg : f.get? k = some p) : (k, p) ∈ f := by
  induction f with
  | nil => cases hg
  | cons kp rest ih =>
    obtain ⟨k', p'⟩ := kp
    rw [get?_cons] at hg
    by_cases h1 : k' = k
    · simp [h1] at hg; subst hg; subst h1; simp
    · by_cases h2 : k < k'
      · simp [h1, h2] at hg
      · simp [h1, h2] at hg
        exact List.mem_cons_of_mem _ (ih hg)

/-- `get?` after `set` -/
theorem get?_set {f : Fmts} (h : SortedKeys f) (k : Nat) (p : Point) (j : Nat) :
    (f.set k p).get? j = if j = k then some p else f.get? j := by
  induction f with
  | nil =>
    simp [Fmts.set, get?_cons, get?_nil]
    by_cases hj : j = k
    · simp [hj]
    · have : ¬ k = j := fun e => hj e.symm
      simp [hj, this]
  | cons kp rest ih =>
    obtain ⟨k', p'⟩ := kp
    have hs := sorted_tail h
    have hlb : LB (k' + 1) rest := LB_tail_of_sorted h
    unfold Fmts.set
    by_cases h1 : k' = k
    · subst h1
      simp only [if_true, get?_cons]
      by_cases hj : j = k'
      · subst hj; simp
      · have : ¬ k' = j := fun e => hj e.symm
        simp [hj, this]
    · simp only [h1, if_false]
      by_cases h2 : k < k'
      · simp only [h2, if_true, get?_cons]
        by_cases hj : j = k
        · subst hj; simp
        · have hkj : ¬ k = j := fun e => hj e.symm
          simp only [hkj, if_false, hj]
          by_cases hjk : j < k
          · have : ¬ k' = j := by omega
            have : j < k' := by omega
            simp [*]
          · simp [hjk]
      · simp only [h2, if_false, get?_cons]
        by_cases hj : j = k
        · subst hj
          have : ¬ k' = j := h1
          have h3 : ¬ j < k' := h2
          simp [this, h3]
          have := ih hs
          simp at this
          exact this
        · by_cases hk'j : k' = j
          · simp [hk'j, hj]
          · simp only [hk'j, if_false, hj]
            by_cases hjk' : j < k'
            · simp [hjk']
            · simp only [hjk', if_false]
              have := ih hs
              simp [hj] at this
              exact this

theorem mem_set {f : Fmts} {k : Nat} {p : Point} {x : Nat × Point} (hx : x ∈ f.set k p) :
    x = (k, p) ∨ x ∈ f := by
  induction f with
  | nil => simp [Fmts.set] at hx; exact Or.inl hx
  | cons kp rest ih =>
    obtain ⟨k', p'⟩ := kp
    unfold Fmts.set at hx
    by_cases h1 : k' = k
    · simp only [h1, if_true] at hx
      rcases List.mem_cons.mp hx with e | e
      · exact Or.inl e
      · exact Or.inr (List.mem_cons_of_mem _ e)
    · simp only [h1, if_false] at hx
      by_cases h2 : k < k'
      · simp only [h2, if_true] at hx
        rcases List.mem_cons.mp hx with e | e
        · exact Or.inl e
        · exact Or.inr e
      · simp only [h2, if_false] at hx
        rcases List.mem_cons.mp hx with e | e
        · exact Or.inr (by simp [e])
        · rcases ih e with e' | e'
          · exact Or.inl e'
          · exact Or.inr (List.mem_cons_of_mem _ e')

theorem sorted_set {f : Fmts} (h : SortedKeys f) (k : Nat) (p : Point) : SortedKeys (f.set k p) := by
  induction f with
  | nil => simp [Fmts.set, SortedKeys]
  | cons kp rest ih =>
    obtain ⟨k', p'⟩ := kp
    have hs := sorted_tail h
    have hlt := sorted_head_lt h
    unfold Fmts.set
    by_cases h1 : k' = k
    · subst h1
      simp only [if_true]
      exact List.pairwise_cons.mpr ⟨hlt, hs⟩
    · simp only [h1, if_false]
      by_cases h2 : k < k'
      · simp only [h2, if_true]
        refine List.pairwise_cons.mpr ⟨?_, h⟩
        intro x hx
        rcases List.mem_cons.mp hx with e | e
        · subst e; exact h2
        · have := hlt x e; simp at this ⊢; omega
      · simp only [h2, if_false]
        refine List.pairwise_cons.mpr ⟨?_, ih hs⟩
        intro x hx
        rcases mem_set hx with e | e
        · subst e; simp; omega
        · exact hlt x e

theorem toFun_set {f : Fmts} (h : SortedKeys f) (k : Nat) (p : Point) (j : Nat) :
    toFun (f.set k p) j = if j = k then p else toFun f j := by
  unfold toFun Fmts.getD
  rw [get?_set h]
  by_cases hj : j = k <;> simp [hj]

end Fmts

/-- replay through the keys `lo, lo+1, …, lo+n-1` of a table given as a function -/
def runFrom (g : Nat → Point) (cur : List Setting) (lo : Nat) : Nat → List Setting
  | 0 => cur
  | n + 1 => runFrom g (stepPoint cur (g lo)) (lo + 1) n

theorem runFrom_congr {g g' : Nat → Point} {lo : Nat} (n : Nat) (cur : List Setting)
    (h : ∀ k, lo ≤ k → k < lo + n → g k = g' k) : runFrom g cur lo n = runFrom g' cur lo n := by
  induction n generalizing cur lo with
  | zero => rfl
  | succ n ih =>
    simp only [runFrom]
    rw [h lo (Nat.le_refl _) (by omega)]
    exact ih _ (fun k h1 h2 => h k (by omega) (by omega))

theorem runFrom_add (g : Nat → Point) (cur : List Setting) (lo m n : Nat) :
    runFrom g cur lo (m + n) = runFrom g (runFrom g cur lo m) (lo + m) n := by
  induction m generalizing cur lo with
  | zero => simp [runFrom]
  | succ m ih =>
    have : m + 1 + n = (m + n) + 1 := by omega
    rw [this]
    simp only [runFrom]
    rw [ih]
    congr 1
    omega

/-- the settings character `i` reports, computed by stepping through every index `0..i` -/
def activeFn (g : Nat → Point) (i : Nat) : List Setting := runFrom g [] 0 (i + 1)

theorem activeFrom_eq_runFrom (f : Fmts) (hs : SortedKeys f) (lo : Nat) (hlb : Fmts.LB lo f)
    (cur : List Setting) (i : Nat) :
    activeFrom cur f i = runFrom (Fmts.toFun f) cur lo (i + 1 - lo) := by
  induction f generalizing cur lo with
  | nil =>
    have : ∀ n (c : List Setting) (l : Nat), runFrom (Fmts.toFun []) c l n = c := by
      intro n
      induction n with
      | zero => intros; rfl
      | succ n ih => intro c l; simp [runFrom, Fmts.toFun, Fmts.getD, Fmts.get?, stepPoint_empty, ih]
    simp [activeFrom, this]
  | cons kp rest ih =>
    obtain ⟨k, p⟩ := kp
    have hk : lo ≤ k := hlb (k, p) (by simp)
    have hrest : SortedKeys rest := Fmts.sorted_tail hs
    have hlb' : Fmts.LB (k + 1) rest := Fmts.LB_tail_of_sorted hs
    -- keys lo..k-1 are absent: skipping them
    have skip : ∀ (m : Nat) (c : List Setting) (l : Nat), l + m ≤ k →
        runFrom (Fmts.toFun ((k, p) :: rest)) c l m = c := by
      intro m
      induction m with
      | zero => intros; rfl
      | succ m ihm =>
        intro c l hl
        simp only [runFrom]
        have hnone : Fmts.toFun ((k, p) :: rest) l = {} := by
          unfold Fmts.toFun Fmts.getD
          rw [Fmts.get?_cons]
          have h1 : ¬ k = l := by omega
          have h2 : l < k := by omega
          simp [h1, h2]
        rw [hnone, stepPoint_empty]
        exact ihm c (l + 1) (by omega)
    simp only [activeFrom]
    by_cases hki : k ≤ i
    · simp only [hki, if_true]
      have e1 : i + 1 - lo = (k - lo) + ((i + 1 - k)) := by omega
      rw [e1, runFrom_add, skip (k - lo) cur lo (by omega)]
      have e2 : i + 1 - k = (i + 1 - (k + 1)) + 1 := by omega
      have e3 : lo + (k - lo) = k := by omega
      rw [e2, e3]
      simp only [runFrom]
      have hhead : Fmts.toFun ((k, p) :: rest) k = p := by
        unfold Fmts.toFun Fmts.getD
        rw [Fmts.get?_cons]; simp
      rw [hhead, ih hrest (k + 1) hlb']
      apply runFrom_congr
      intro j hj1 hj2
      unfold Fmts.toFun Fmts.getD
      rw [Fmts.get?_cons]
      have h1 : ¬ k = j := by omega
      have h2 : ¬ j < k := by omega
      simp [h1, h2]
    · simp only [hki, if_false]
      exact (skip (i + 1 - lo) cur lo (by omega)).symm

/-- replay over the sorted association list = stepping through every index -/
theorem active_eq_activeFn (f : Fmts) (hs : SortedKeys f) (i : Nat) :
    active f i = activeFn (Fmts.toFun f) i := by
  unfold active activeFn
  have := activeFrom_eq_runFrom f hs 0 (fun _ _ => Nat.zero_le _) [] i
  simpa using this

theorem activeFn_succ (g : Nat → Point) (i : Nat) :
    activeFn g (i + 1) = stepPoint (activeFn g i) (g (i + 1)) := by
  unfold activeFn
  have : i + 1 + 1 = (i + 1) + 1 := rfl
  rw [show i + 1 + 1 = (i + 1) + 1 from rfl, runFrom_add g [] 0 (i + 1) 1]
  simp [runFrom]

theorem activeFn_zero (g : Nat → Point) : activeFn g 0 = stepPoint [] (g 0) := by
  simp [activeFn, runFrom]
