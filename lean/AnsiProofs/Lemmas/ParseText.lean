import AnsiProofs.Props.C19
import AnsiProofs.Props.C06
import AnsiProofs.Props.C07
/-
  AnsiProofs.Lemmas.ParseText — helper lemmas for the TEXT half of property C02
  (`set_ansi_str` / the constructors: base text = input with the SGR sequences removed).

  * Part 1: `set_ansi_str`'s loop never touches the text; a generic invariant lemma for the loop
  * Part 2: the model tokenizer (`tokLoop false (some ['m'])`) and the terminal specification
            (`Term.runAux`) are the same mode machine — simulation invariant on the displayed text
  * Part 3: text without ESC is not touched by the tokenizer
  * Part 4: terminal-side list of the SGR sequences with their offsets (`C02Spec.sgrs`); the
            tokenizer records exactly that list; `Term.run` expressed through it
  * Part 5: freshness of identities along the loop, `WF` of the result (relative to
            `removeFormatting` keeping `WF` and introducing no new objects — both named as
            hypotheses `RemoveKeepsWF`, `RemoveNoNewSettings` and discharged from C07)

  As for C19, the specification-side definitions (`ParseTextL.C02Spec.*`) live here because the helper lemmas
  mention them; they are written over the input characters only, mirroring `Term.runAux`, and
  never mention the tokenizer.
-/

namespace ParseTextL

/-! ## Part 1: the loop of `set_ansi_str` keeps the text -/

theorem texts_length (l : List Setting) : (texts l).length = l.length := by
  simp [texts]

/-- Generic invariant of one step of `set_ansi_str`'s loop: a predicate on (value, next id) that
    `remove_formatting` keeps and that `apply_formatting` with the fresh objects
    `freshSettings n ts` carries from `n` to `n + ts.length` is kept by the step. -/
theorem setAnsiStep_inv (P : AStr → Nat → Prop)
    (hrem : ∀ x n M a b, P x n → P (x.removeFormatting M a b) n)
    (happ : ∀ x n ts a b, P x n → P (x.applyFormatting (freshSettings n ts) a b true) (n + ts.length))
    (acc : AStr × PyDict × Nat) (key : Nat) (sq : CtlSeq) (h : P acc.1 acc.2.2) :
    P (AStr.setAnsiStep acc key sq).1 (AStr.setAnsiStep acc key sq).2.2 := by
  obtain ⟨x, old, nid⟩ := acc
  unfold AStr.setAnsiStep
  simp only
  split
  · exact h
  · simp only
    -- the value after the optional `remove_formatting`
    have h1 : ∀ (c : Bool) M a b, P (if c = true then x else x.removeFormatting M a b) nid := by
      intro c M a b
      cases c
      · exact hrem x nid M a b h
      · exact h
    split
    · rename_i hempty
      have : ∀ l : List Setting, l.isEmpty = true → l.length = 0 := by
        intro l hl; cases l <;> simp_all
      rw [this _ hempty]
      exact h1 _ _ _ _
    · rw [← texts_length]
      exact happ _ _ _ _ _ (h1 _ _ _ _)

/-- the double loop of `set_ansi_str` over the recorded sequences -/
def loop (seqs : List (Nat × List CtlSeq)) (init : AStr × PyDict × Nat) : AStr × PyDict × Nat :=
  seqs.foldl (fun acc kv => kv.2.foldl (fun acc sq => AStr.setAnsiStep acc kv.1 sq) acc) init

theorem setAnsi_eq_loop (r : Str) (nid : Nat) :
    AStr.setAnsi r nid =
      ((loop (tokenize r false (some Gen.sgrTerminator)).seqs
          ({ s := (tokenize r false (some Gen.sgrTerminator)).text, fmts := [] }, [], nid)).1,
       (loop (tokenize r false (some Gen.sgrTerminator)).seqs
          ({ s := (tokenize r false (some Gen.sgrTerminator)).text, fmts := [] }, [], nid)).2.2) := rfl

theorem loop_inv (P : AStr → Nat → Prop)
    (hrem : ∀ x n M a b, P x n → P (x.removeFormatting M a b) n)
    (happ : ∀ x n ts a b, P x n → P (x.applyFormatting (freshSettings n ts) a b true) (n + ts.length))
    (seqs : List (Nat × List CtlSeq)) (init : AStr × PyDict × Nat) (h : P init.1 init.2.2) :
    P (loop seqs init).1 (loop seqs init).2.2 := by
  unfold loop
  induction seqs generalizing init with
  | nil => exact h
  | cons kv rest ih =>
    rw [List.foldl_cons]
    apply ih
    generalize kv.2 = l
    induction l generalizing init with
    | nil => exact h
    | cons sq l ih2 =>
      rw [List.foldl_cons]
      exact ih2 _ (setAnsiStep_inv P hrem happ init kv.1 sq h)

/-- the loop keeps the text -/
theorem loop_s (seqs : List (Nat × List CtlSeq)) (init : AStr × PyDict × Nat) :
    (loop seqs init).1.s = init.1.s :=
  loop_inv (fun x _ => x.s = init.1.s)
    (fun x _ M a b h => by rw [remove_text]; exact h)
    (fun x _ ts a b h => by rw [apply_text]; exact h) seqs init rfl

/-! ## Part 2: tokenizer and terminal are the same mode machine -/

theorem sgr_eq : Gen.sgrTerminator = ['m'] := by decide

/-- the terminal's "final byte" and the library's "terminator" are the same predicate
    (`rfl` re-checks `Gen.termLo = 0x40`, `Gen.termHi = 0x7E` whenever the tables change) -/
theorem isFinal_eq_isTerm (c : Char) : Term.isFinal c = isTerm c := rfl

theorem accept_nil (acc : Option Str) : acceptSeq false acc [] = false := by
  simp [acceptSeq]

theorem accept_one (c : Char) : acceptSeq false (some Gen.sgrTerminator) [c] = (c == 'm') := by
  by_cases h : c = 'm' <;> simp [acceptSeq, sgr_eq, h]

/-- the mode correspondence -/
def modeOf : TokMode → Term.Mode
  | .text => .text
  | .params ps => .seq ps

/-- Simulation invariant: if the text collected so far equals the characters displayed so far,
    the tokenizer's final text equals the characters the terminal displays in the end —
    whatever the terminal state is. -/
theorem tokLoop_text_run (m : TokMode) (s : Str) (o : Parsed) :
    ∀ (t : Term.TState) (out : List (Char × Term.TState)), o.text = out.map (·.1) →
      (tokLoop false (some Gen.sgrTerminator) m s o).text =
        (Term.runAux (modeOf m) t s out).1.map (·.1) := by
  fun_induction tokLoop false (some Gen.sgrTerminator) m s o with
  | case1 o => intro t out h; simpa [modeOf, Term.runAux] using h
  | case2 rest o ih =>
    intro t out h
    rw [modeOf, Term.runAux.eq_2]
    exact ih t out h
  | case3 c rest o hne ih =>
    intro t out h
    rw [modeOf, Term.runAux.eq_3 _ _ _ _ hne]
    exact ih t _ (by simp [h])
  | case4 ps o hacc => rw [accept_nil] at hacc; cases hacc
  | case5 ps o hacc =>
    intro t out h
    simp [modeOf, Term.runAux, h, csi_eq, Function.comp_def]
  | case6 ps c rest o ht hacc ih =>
    intro t out h
    rw [accept_one] at hacc
    rw [modeOf, Term.runAux.eq_5, isFinal_eq_isTerm, ht, if_pos rfl, if_pos hacc]
    exact ih _ out (by rw [Parsed.record_text]; exact h)
  | case7 ps c rest o ht hacc ih =>
    intro t out h
    rw [accept_one] at hacc
    rw [modeOf, Term.runAux.eq_5, isFinal_eq_isTerm, ht, if_pos rfl, if_neg hacc]
    exact ih t _ (by simp [h, csi_eq, Function.comp_def])
  | case8 ps c rest o ht ih =>
    intro t out h
    rw [modeOf, Term.runAux.eq_5, isFinal_eq_isTerm, if_neg ht]
    exact ih t out h

theorem tokenize_text_stripSgr (r : Str) :
    (tokenize r false (some Gen.sgrTerminator)).text = Term.stripSgr r :=
  tokLoop_text_run .text r {} Term.default [] rfl

/-! ## Part 3: text without ESC -/

theorem tokLoop_noEsc (ae : Bool) (acc : Option Str) (s : Str) (o : Parsed) (h : '\x1b' ∉ s) :
    tokLoop ae acc .text s o = o.push s := by
  induction s generalizing o with
  | nil => simp [tokLoop, Parsed.push]
  | cons c rest ih =>
    have hc : c ≠ '\x1b' := fun e => h (by simp [e])
    rw [tokLoop.eq_3 _ _ _ _ _ (fun _ e _ => hc e), ih _ (fun hm => h (List.mem_cons_of_mem _ hm))]
    simp [Parsed.push]

theorem tokenize_noEsc (ae : Bool) (acc : Option Str) (s : Str) (h : '\x1b' ∉ s) :
    tokenize s ae acc = { text := s, seqs := [] } := by
  unfold tokenize
  rw [tokLoop_noEsc ae acc s {} h]
  simp [Parsed.push]

/-! ## Part 4: the SGR sequences with their offsets, seen from the terminal -/

namespace C02Spec

/-- feed the parameter strings of a list of SGR sequences to a terminal, in order -/
def feedSeqs (t : Term.TState) (l : List Str) : Term.TState :=
  l.foldl (fun t ps => Term.feed t (Term.params ps)) t

/-- The SGR sequences (`ESC [ ps m`) a terminal meets while reading `s` from mode `m`, each with
    the number of characters displayed before it (`n` = number displayed so far), in input order.
    Same mode machine as `Term.runAux`, written over the input only. -/
def sgrAux : Term.Mode → Nat → Str → List (Nat × Str)
  | .text, _, [] => []
  | .text, n, '\x1b' :: '[' :: rest => sgrAux (.seq []) n rest
  | .text, n, _ :: rest => sgrAux .text (n + 1) rest
  | .seq _, _, [] => []
  | .seq ps, n, c :: rest =>
    if Term.isFinal c then
      if c == 'm' then (n, ps) :: sgrAux .text n rest
      else sgrAux .text (n + (ps.length + 3)) rest
    else sgrAux (.seq (ps ++ [c])) n rest

/-- the SGR sequences of `r`: (offset into the displayed text, parameter string), in order -/
def sgrs (r : Str) : List (Nat × Str) := sgrAux .text 0 r

/-- the characters a terminal still displays from mode `m` on input `s` (helper; the
    specification proper is `Term.stripSgr`, see `ParseTextL.stripSgr_eq_dispAux`) -/
def dispAux : Term.Mode → Str → Str
  | .text, [] => []
  | .text, '\x1b' :: '[' :: rest => dispAux (.seq []) rest
  | .text, c :: rest => c :: dispAux .text rest
  | .seq ps, [] => '\x1b' :: '[' :: ps
  | .seq ps, c :: rest =>
    if Term.isFinal c then
      if c == 'm' then dispAux .text rest
      else ('\x1b' :: '[' :: ps ++ [c]) ++ dispAux .text rest
    else dispAux (.seq (ps ++ [c])) rest

/-- terminal state at displayed index `i`: everything at an offset `≤ i` has been fed -/
def stAt (t : Term.TState) (L : List (Nat × Str)) (i : Nat) : Term.TState :=
  feedSeqs t ((L.filter (fun ks => ks.1 ≤ i)).map (·.2))

end C02Spec

open C02Spec

/-- the recorded sequences as a flat list (offset, parameter string) -/
def flat (p : Parsed) : List (Nat × Str) :=
  p.seqs.flatMap (fun kv => kv.2.map (fun c => (kv.1, c.sequence)))

theorem flat_push (p : Parsed) (s : Str) : flat (p.push s) = flat p := rfl

theorem flat_record (p : Parsed) (c : CtlSeq) :
    flat (p.record c) = flat p ++ [(p.text.length, c.sequence)] := by
  rcases Parsed.record_cases p c with ⟨init, l, hs, hr⟩ | ⟨_, hr⟩
  · rw [hr]; unfold flat; simp only; rw [hs]; simp
  · rw [hr]; unfold flat; simp

/-- the tokenizer records exactly the SGR sequences the terminal meets, at the same offsets -/
theorem tokLoop_flat (m : TokMode) (s : Str) (o : Parsed) :
    flat (tokLoop false (some Gen.sgrTerminator) m s o) =
      flat o ++ sgrAux (modeOf m) o.text.length s := by
  fun_induction tokLoop false (some Gen.sgrTerminator) m s o with
  | case1 o => simp [modeOf, sgrAux]
  | case2 rest o ih => rw [ih, modeOf, sgrAux.eq_2]; rfl
  | case3 c rest o hne ih =>
    rw [ih, modeOf, sgrAux.eq_3 _ _ _ hne, flat_push]
    simp
  | case4 ps o hacc => rw [accept_nil] at hacc; cases hacc
  | case5 ps o hacc => simp [modeOf, sgrAux, flat_push]
  | case6 ps c rest o ht hacc ih =>
    rw [accept_one] at hacc
    rw [ih, flat_record, modeOf, modeOf, sgrAux.eq_5, isFinal_eq_isTerm, ht, if_pos rfl, if_pos hacc,
      Parsed.record_text]
    simp
  | case7 ps c rest o ht hacc ih =>
    rw [accept_one] at hacc
    rw [ih, flat_push, modeOf, modeOf, sgrAux.eq_5, isFinal_eq_isTerm, ht, if_pos rfl, if_neg hacc]
    have : (o.push (Gen.csi ++ ps ++ [c])).text.length = o.text.length + (ps.length + 3) := by
      simp only [Parsed.push_text, List.length_append, csi_eq, List.length_cons, List.length_nil]
      omega
    rw [this]
  | case8 ps c rest o ht ih =>
    rw [ih, modeOf, modeOf, sgrAux.eq_5, isFinal_eq_isTerm, if_neg ht]

theorem tokenize_flat (r : Str) : flat (tokenize r false (some Gen.sgrTerminator)) = sgrs r := by
  have := tokLoop_flat .text r {}
  simpa [flat, sgrs, modeOf, tokenize] using this

/-- every recorded sequence of `set_ansi_str`'s tokenizer ends in `m` -/
theorem tokenize_terminator (r : Str) :
    ∀ kv ∈ (tokenize r false (some Gen.sgrTerminator)).seqs, ∀ c ∈ kv.2, c.terminator = ['m'] := by
  intro kv hkv c hc
  obtain ⟨-, -, h⟩ := (tokenize_wellformed r false (some Gen.sgrTerminator)).1 kv hkv
  obtain ⟨-, h2, h3, h4⟩ := h c hc
  rcases h2 with h2 | ⟨ch, h2, -⟩
  · exact absurd (h3 h2) (by decide)
  · have := h4 _ rfl ch h2
    rw [sgr_eq, List.mem_singleton] at this
    rw [h2, this]

/-! ### offsets are ascending and inside the displayed text -/

theorem sgrAux_bounds (m : Term.Mode) (n : Nat) (s : Str) :
    ∀ ks ∈ sgrAux m n s, n ≤ ks.1 ∧ ks.1 ≤ n + (dispAux m s).length := by
  fun_induction sgrAux m n s with
  | case1 => simp
  | case2 n rest ih => rw [dispAux.eq_2]; exact ih
  | case3 n c rest hne ih =>
    rw [dispAux.eq_3 _ _ hne]
    intro ks hks
    have := ih ks hks
    simp only [List.length_cons]
    omega
  | case4 => simp
  | case5 ps n c rest hf hm ih =>
    rw [dispAux.eq_5, if_pos hf, if_pos hm]
    intro ks hks
    rcases List.mem_cons.mp hks with rfl | hks
    · simp
    · exact ih ks hks
  | case6 ps n c rest hf hm ih =>
    rw [dispAux.eq_5, if_pos hf, if_neg hm]
    intro ks hks
    have := ih ks hks
    simp only [List.length_append, List.length_cons, List.length_nil]
    omega
  | case7 ps n c rest hf ih =>
    rw [dispAux.eq_5, if_neg hf]; exact ih

theorem sgrAux_sorted (m : Term.Mode) (n : Nat) (s : Str) :
    (sgrAux m n s).Pairwise (fun a b => a.1 ≤ b.1) := by
  fun_induction sgrAux m n s with
  | case1 => simp
  | case2 n rest ih => exact ih
  | case3 n c rest hne ih => exact ih
  | case4 => simp
  | case5 ps n c rest hf hm ih =>
    rw [List.pairwise_cons]
    exact ⟨fun ks hks => (sgrAux_bounds _ _ _ ks hks).1, ih⟩
  | case6 ps n c rest hf hm ih => exact ih
  | case7 ps n c rest hf ih => exact ih

/-! ### `Term.run` through `sgrs` -/

theorem feedSeqs_nil (t : Term.TState) : feedSeqs t [] = t := rfl

theorem feedSeqs_cons (t : Term.TState) (ps : Str) (l : List Str) :
    feedSeqs t (ps :: l) = feedSeqs (Term.feed t (Term.params ps)) l := rfl

theorem stAt_of_lt (t : Term.TState) (L : List (Nat × Str)) (i : Nat) (h : ∀ ks ∈ L, i < ks.1) :
    stAt t L i = t := by
  unfold stAt
  have : L.filter (fun ks => ks.1 ≤ i) = [] := by
    rw [List.filter_eq_nil_iff]
    intro ks hks
    have := h ks hks
    simp only [decide_eq_true_eq]
    omega
  rw [this]; rfl

theorem stAt_cons_le (t : Term.TState) (k : Nat) (ps : Str) (L : List (Nat × Str)) (i : Nat)
    (h : k ≤ i) : stAt t ((k, ps) :: L) i = stAt (Term.feed t (Term.params ps)) L i := by
  unfold stAt
  simp [h, feedSeqs_cons]

/-- pairing a verbatim block with one and the same state -/
theorem zipIdx_map_const {β : Type} (E : Str) (n : Nat) (g : Nat → β) (t : β)
    (h : ∀ i, n ≤ i → i < n + E.length → g i = t) :
    (E.zipIdx n).map (fun ci => (ci.1, g ci.2)) = E.map (fun c => (c, t)) := by
  induction E generalizing n with
  | nil => rfl
  | cons e E ih =>
    rw [List.zipIdx_cons, List.map_cons, List.map_cons, ih (n + 1)]
    · rw [h n (Nat.le_refl _) (by simp)]
    · intro i h1 h2
      exact h i (by omega) (by simp only [List.length_cons]; omega)

/-- `Term.runAux` in closed form: the displayed characters are `dispAux`, the state under which
    the character at displayed index `i` is shown is the start state after all SGR sequences met
    at offsets `≤ i`; the final state is the start state after all of them. -/
theorem runAux_eq (m : Term.Mode) (t : Term.TState) (s : Str) (out : List (Char × Term.TState)) :
    Term.runAux m t s out =
      (out ++ ((dispAux m s).zipIdx out.length).map
          (fun ci => (ci.1, stAt t (sgrAux m out.length s) ci.2)),
       feedSeqs t ((sgrAux m out.length s).map (·.2))) := by
  fun_induction Term.runAux m t s out with
  | case1 t out => simp [dispAux, sgrAux, feedSeqs_nil]
  | case2 t rest out ih => rw [ih, dispAux.eq_2, sgrAux.eq_2]
  | case3 t c rest out hne ih =>
    rw [ih, dispAux.eq_3 _ _ hne, sgrAux.eq_3 _ _ _ hne, List.zipIdx_cons, List.map_cons]
    simp only [List.length_append, List.length_cons, List.length_nil, Nat.zero_add]
    rw [stAt_of_lt t _ out.length (fun ks hks => by
      have := (sgrAux_bounds _ _ _ ks hks).1; omega)]
    simp
  | case4 ps t out =>
    rw [dispAux.eq_4, sgrAux.eq_4]
    rw [zipIdx_map_const _ _ _ t (fun i _ _ => stAt_of_lt t [] i (by simp))]
    rfl
  | case5 ps t c rest out hf hm ih =>
    rw [ih, dispAux.eq_5, sgrAux.eq_5, if_pos hf, if_pos hm, if_pos hf, if_pos hm]
    refine Prod.ext (congrArg (out ++ ·) (List.map_congr_left ?_)) rfl
    intro ci hci
    rw [stAt_cons_le _ _ _ _ _ (List.le_snd_of_mem_zipIdx hci)]
  | case6 ps t c rest out hf hm ih =>
    rw [ih, dispAux.eq_5, sgrAux.eq_5, if_pos hf, if_neg hm, if_pos hf, if_neg hm]
    have hE : ('\x1b' :: '[' :: ps ++ [c]).length = ps.length + 3 := by simp
    have hlen : (out ++ List.map (fun c => (c, t)) ('\x1b' :: '[' :: ps ++ [c])).length =
        out.length + (ps.length + 3) := by
      rw [List.length_append, List.length_map, hE]
    rw [hlen]
    have key : (('\x1b' :: '[' :: ps ++ [c] ++ dispAux .text rest).zipIdx out.length).map
          (fun ci => (ci.1, stAt t (sgrAux .text (out.length + (ps.length + 3)) rest) ci.2)) =
        List.map (fun c => (c, t)) ('\x1b' :: '[' :: ps ++ [c]) ++
          ((dispAux .text rest).zipIdx (out.length + (ps.length + 3))).map
            (fun ci => (ci.1, stAt t (sgrAux .text (out.length + (ps.length + 3)) rest) ci.2)) := by
      rw [List.zipIdx_append, List.map_append, hE]
      rw [zipIdx_map_const ('\x1b' :: '[' :: ps ++ [c]) out.length
        (fun i => stAt t (sgrAux .text (out.length + (ps.length + 3)) rest) i) t]
      intro i h1 h2
      apply stAt_of_lt
      intro ks hks
      have := (sgrAux_bounds _ _ _ ks hks).1
      rw [hE] at h2
      omega
    rw [key, List.append_assoc]
  | case7 ps t c rest out hf ih =>
    rw [ih, dispAux.eq_5, sgrAux.eq_5, if_neg hf, if_neg hf]

theorem stripSgr_eq_dispAux (r : Str) : Term.stripSgr r = dispAux .text r := by
  unfold Term.stripSgr Term.run
  rw [runAux_eq]
  simp only [List.nil_append, List.map_map]
  exact List.zipIdx_map_fst 0 _

/-- `Term.run` in closed form over `stripSgr` and `sgrs` -/
theorem run_eq (t0 : Term.TState) (r : Str) :
    Term.run t0 r =
      ((Term.stripSgr r).zipIdx.map (fun ci => (ci.1, stAt t0 (sgrs r) ci.2)),
       feedSeqs t0 ((sgrs r).map (·.2))) := by
  rw [stripSgr_eq_dispAux]
  unfold Term.run
  rw [runAux_eq]
  simp [sgrs]

/-! ### `set_ansi_str` as one fold over `sgrs` -/

theorem foldl_flat {α β : Type} (f : α → Nat → β → α) (seqs : List (Nat × List β)) (init : α) :
    seqs.foldl (fun acc kv => kv.2.foldl (fun acc sq => f acc kv.1 sq) acc) init =
      (seqs.flatMap (fun kv => kv.2.map (fun c => (kv.1, c)))).foldl
        (fun acc kc => f acc kc.1 kc.2) init := by
  induction seqs generalizing init with
  | nil => rfl
  | cons kv rest ih =>
    rw [List.foldl_cons, ih, List.flatMap_cons, List.foldl_append, List.foldl_map]

/-- the step of `set_ansi_str` only looks at the parameter string of the recorded sequence -/
theorem setAnsiStep_sequence (acc : AStr × PyDict × Nat) (k : Nat) (c : CtlSeq) (tm : Str) :
    AStr.setAnsiStep acc k c = AStr.setAnsiStep acc k ⟨c.sequence, tm⟩ := rfl

theorem loop_eq_fold (seqs : List (Nat × List CtlSeq)) (init : AStr × PyDict × Nat) :
    loop seqs init =
      (seqs.flatMap (fun kv => kv.2.map (fun c => (kv.1, c.sequence)))).foldl
        (fun acc ks => AStr.setAnsiStep acc ks.1 ⟨ks.2, ['m']⟩) init := by
  unfold loop
  rw [foldl_flat (fun acc k sq => AStr.setAnsiStep acc k sq)]
  have : (fun kv : Nat × List CtlSeq => kv.2.map (fun c => (kv.1, c.sequence))) =
      fun kv => (kv.2.map (fun c => (kv.1, c))).map (fun kc => (kc.1, kc.2.sequence)) := by
    funext kv; simp
  rw [this, ← List.map_flatMap, List.foldl_map]
  rfl

/-! ## Part 5: freshness of the identities along the loop, `WF` of the result -/

/-- `apply_formatting` mentions only the new objects and what was there before -/
theorem apply_settings_sub {x : AStr} {N : List Setting} (a b : Option Int) (top : Bool)
    (hw : WF x) (hf : FreshN x N) :
    ∀ s ∈ (x.applyFormatting N a b top).fmts.settings, s ∈ N ∨ s ∈ x.fmts.settings := by
  intro s hs
  rcases apply_cases x N a b top rfl rfl with h | ⟨h1, h2, hN⟩
  · rw [h] at hs; exact Or.inr hs
  · cases top with
    | true =>
      obtain ⟨_, hs', hu, _⟩ := apply_topUpd hw hf rfl rfl h1 h2 hN
      obtain ⟨k, hk⟩ := (Fmts.mem_settings_iff hs' s).mp hs
      rcases hu.mem_new hk with h | h
      · exact Or.inl h
      · exact Or.inr ((Fmts.mem_settings_iff hw.sorted s).mpr h)
    | false =>
      obtain ⟨_, hs', hu, _⟩ := apply_botUpd hw hf rfl rfl h1 h2 hN
      obtain ⟨k, hk⟩ := (Fmts.mem_settings_iff hs' s).mp hs
      rcases hu.mem_new hk with h | h
      · exact Or.inl h
      · exact Or.inr ((Fmts.mem_settings_iff hw.sorted s).mpr h)

/-- applying the fresh objects `nid, …, nid + |ts| - 1` keeps everything below `nid + |ts|` -/
theorem freshFrom_apply {x : AStr} {nid : Nat} (ts : List Str) (a b : Option Int) (top : Bool)
    (hw : WF x) (hf : FreshFrom x nid) :
    FreshFrom (x.applyFormatting (freshSettings nid ts) a b top) (nid + ts.length) := by
  intro s hs
  rcases apply_settings_sub a b top hw (freshSettings_fresh x nid ts hf) s hs with h | h
  · have h1 : s.id ∈ (freshSettings nid ts).map (·.id) := List.mem_map.mpr ⟨s, h, rfl⟩
    rw [freshSettings_ids, List.mem_range'_1] at h1
    exact h1.2
  · have := hf s h
    omega

/-- `remove_formatting` keeps `WF` (discharged below by `remove_wf` of property C07) -/
def RemoveKeepsWF : Prop :=
  ∀ (x : AStr) (M : Option (List Str)) (a b : Option Int), WF x → WF (x.removeFormatting M a b)

/-- `remove_formatting` on a `WF` value mentions no setting object that was not there before -/
def RemoveNoNewSettings : Prop :=
  ∀ (x : AStr) (M : Option (List Str)) (a b : Option Int), WF x →
    ∀ s ∈ (x.removeFormatting M a b).fmts.settings, s ∈ x.fmts.settings

theorem removeKeepsWF : RemoveKeepsWF := fun x M a b h => remove_wf x h M a b

theorem removeNoNewSettings : RemoveNoNewSettings := by
  intro x M a b hw s hs
  by_cases hn : sliceIdx x.len a 0 ≥ x.len ∨ sliceIdx x.len b x.len ≤ sliceIdx x.len a 0
  · rw [remove_noop x M a b hn] at hs; exact hs
  · rw [Remove.removeFormatting_eq x M a b hn] at hs
    exact Remove.new_settings hw M _ _ (by omega) s hs

/-- the loop keeps `WF` together with "all identities are below the next id" -/
theorem loop_wf_fresh (hRemWF : RemoveKeepsWF) (hRemSub : RemoveNoNewSettings)
    (seqs : List (Nat × List CtlSeq)) (init : AStr × PyDict × Nat)
    (h : WF init.1 ∧ FreshFrom init.1 init.2.2) :
    WF (loop seqs init).1 ∧ FreshFrom (loop seqs init).1 (loop seqs init).2.2 :=
  loop_inv (fun x n => WF x ∧ FreshFrom x n)
    (fun x _ M a b h => ⟨hRemWF x M a b h.1, fun s hs => h.2 s (hRemSub x M a b h.1 s hs)⟩)
    (fun x n ts a b h =>
      ⟨apply_wf x _ a b true h.1 (freshSettings_fresh x n ts h.2), freshFrom_apply ts a b true h.1 h.2⟩)
    seqs init h

/-- a value without any formatting satisfies the invariant -/
theorem wf_plain (s : Str) : WF { s := s, fmts := [] } where
  sorted := List.Pairwise.nil
  bound := by intro kp h; cases h
  noAddEnd := by intro kp h; cases h
  ok := rfl
  nodup := by intro i; exact List.nodup_nil
  closed := rfl
  coherent := by intro s h; cases h

theorem freshFrom_plain (s : Str) (n : Nat) : FreshFrom { s := s, fmts := [] } n := by
  intro t h; cases h

end ParseTextL
