import AnsiProofs.Props.C04
import AnsiProofs.Props.C10
/-
  Helper lemmas for property C11 (settings of the pieces returned by the str-like methods).

  Every piece is a slice `x.getSlice a b`, whose settings are known from C04
  (`C04.getSlice_settings`).  What is proved here is that the offset the code computes is the TRUE
  offset of the piece:
  * §1 slices with natural / omitted / negative bounds (`getSlice_act`, `getSlice_nat_act`, …);
  * §2 `_strip`, `removeprefix`, `removesuffix`, `partition`;
  * §3 `_split` with an explicit separator (from `C10.pieceOffsets_sep`);
  * §4 layouts `g₀ ++ p₀ ++ g₁ ++ p₁ ++ … ++ tail` given as (gap, piece) pairs (`catL`, `offsL`)
       and the offsets `find` recovers in them: `pieceOffsets_exact` (all pieces non-empty),
       `pieceOffsets_early` (empty pieces allowed: they are found early, the others exactly);
  * §5 the layouts of `str.split(None)`, `str.rsplit(None)` (`splitWsAux_layR`, `ws_layout`) and
       `str.splitlines` (`splitlinesAux_layR`, `lines_layout`);
  * §6 `mapText`, `assign_str` (shorter text); `wf_run` (well-formedness of the example values).

  Everything lives in `namespace PiecesL`.
-/

namespace PiecesL

open StrLikeL

/-! ## 1 — slices -/

theorem getSlice_len (x : AStr) (a b : Option Int) :
    (x.getSlice a b).len = sliceIdx x.len b x.len - sliceIdx x.len a 0 := by
  have h := C04.sliceIdx_stop_le x.len b
  unfold AStr.len at *
  rw [StrLikeL.getSlice_s, pySlice_length]
  unfold AStr.len
  omega

/-- the settings of a slice, with the hypothesis on `k` phrased with the length of the slice -/
theorem getSlice_act (x : AStr) (h : WF x) (a b : Option Int) {k : Nat}
    (hk : k < (x.getSlice a b).len) :
    act (x.getSlice a b) k = act x (sliceIdx x.len a 0 + k) :=
  C04.getSlice_settings x h a b (by rw [getSlice_len] at hk; exact hk)

/-- `x[a:b]` for natural bounds: character `k` is character `a + k` of `x` -/
theorem getSlice_nat_act (x : AStr) (h : WF x) (a b : Nat) {k : Nat}
    (hk : k < (x.getSlice (some (a : Int)) (some (b : Int))).len) :
    act (x.getSlice (some (a : Int)) (some (b : Int))) k = act x (a + k) := by
  have hl := hk
  rw [getSlice_len, StrLikeL.sliceIdx_ofNat, StrLikeL.sliceIdx_ofNat] at hl
  rw [getSlice_act x h _ _ hk, StrLikeL.sliceIdx_ofNat]
  congr 1
  omega

/-- `x[a:]` for a natural bound -/
theorem getSlice_from_act (x : AStr) (h : WF x) (a : Nat) {k : Nat}
    (hk : k < (x.getSlice (some (a : Int)) none).len) :
    act (x.getSlice (some (a : Int)) none) k = act x (a + k) := by
  have hl := hk
  rw [getSlice_len, StrLikeL.sliceIdx_ofNat] at hl
  simp only [sliceIdx] at hl
  rw [getSlice_act x h _ _ hk, StrLikeL.sliceIdx_ofNat]
  congr 1
  omega

/-- `x[:b]` for any stop bound (negative included) -/
theorem getSlice_to_act (x : AStr) (h : WF x) (b : Option Int) {k : Nat}
    (hk : k < (x.getSlice none b).len) : act (x.getSlice none b) k = act x k := by
  rw [getSlice_act x h _ _ hk]
  simp [sliceIdx]

theorem getSlice_nat_len (x : AStr) (a b : Nat) :
    (x.getSlice (some (a : Int)) (some (b : Int))).len = min b x.len - min a x.len := by
  rw [getSlice_len, StrLikeL.sliceIdx_ofNat, StrLikeL.sliceIdx_ofNat]

/-- a slice with empty text is the empty value -/
theorem getSlice_of_len_zero (x : AStr) (a b : Option Int) (h : (x.getSlice a b).len = 0) :
    x.getSlice a b = { s := [], fmts := [] } := by
  have hs : (x.getSlice a b).s = [] := List.eq_nil_of_length_eq_zero h
  rw [StrLikeL.getSlice_s] at hs
  exact getRange_of_empty x hs

theorem wf_default : WF ({} : AStr) := wf_empty

/-! ## 2 — `_strip`, `removeprefix`, `removesuffix`, `partition` -/

theorem takeWhile_length_le (p : Char → Bool) (l : Str) : (l.takeWhile p).length ≤ l.length :=
  (List.takeWhile_sublist p).length_le

/-- the number of characters `_strip` removes on the left -/
def lcount (x : AStr) (chars : Option Str) (doL : Bool) : Nat :=
  if doL then (x.s.takeWhile (fun c => (chars.getD Gen.whitespaceChars).contains c)).length else 0

theorem lcount_le (x : AStr) (chars : Option Str) (doL : Bool) : lcount x chars doL ≤ x.len := by
  unfold AStr.len lcount
  split
  · exact takeWhile_length_le _ _
  · omega

/-- the shape of `_strip`: either the receiver itself (only `inplace`, nothing to strip) or the
    slice `x[lcount:rcount]` -/
theorem stripGen_shape (x : AStr) (chars : Option Str) (doL doR ip : Bool) :
    ∃ rc : Option Int,
      (x.stripGen chars doL doR ip =
        if ip = true ∧ lcount x chars doL = 0 ∧ rc.isNone = true then x
        else x.getSlice (some (lcount x chars doL : Int)) rc) ∧
      (∀ r, rc = some r → r < 0 ∧ 0 < x.len) :=
  ⟨if doR ∧ lcount x chars doL < x.len then
      (if (x.s.reverse.takeWhile (fun c => (chars.getD Gen.whitespaceChars).contains c)).length = 0 then none
       else some (-((x.s.reverse.takeWhile (fun c => (chars.getD Gen.whitespaceChars).contains c)).length : Int)))
    else none, rfl, by
    intro r hr
    split at hr
    · rename_i h1
      split at hr
      · cases hr
      · cases hr; omega
    · cases hr⟩

theorem strip_act (x : AStr) (h : WF x) (chars : Option Str) (doL doR ip : Bool) {k : Nat}
    (hk : k < (x.stripGen chars doL doR ip).len) :
    act (x.stripGen chars doL doR ip) k = act x (lcount x chars doL + k) := by
  have hle := lcount_le x chars doL
  obtain ⟨rc, he, -⟩ := stripGen_shape x chars doL doR ip
  rw [he] at hk ⊢
  split
  · rename_i hc
    rw [hc.2.1, Nat.zero_add]
  · rename_i hc
    rw [if_neg hc] at hk
    rw [getSlice_act x h _ _ hk, StrLikeL.sliceIdx_ofNat, Nat.min_eq_left hle]

theorem strip_wf (x : AStr) (h : WF x) (chars : Option Str) (doL doR ip : Bool) :
    WF (x.stripGen chars doL doR ip) := by
  obtain ⟨rc, he, -⟩ := stripGen_shape x chars doL doR ip
  rw [he]
  split
  · exact h
  · exact C04.getSlice_wf x h _ _

/-- `inplace` and nothing stripped: the receiver is returned unchanged -/
theorem strip_inplace_unchanged (x : AStr) (chars : Option Str) (doL doR : Bool)
    (hl : (x.stripGen chars doL doR true).len = x.len) : x.stripGen chars doL doR true = x := by
  obtain ⟨rc, he, hrc⟩ := stripGen_shape x chars doL doR true
  have hle := lcount_le x chars doL
  rw [he] at hl ⊢
  split
  · rfl
  · rename_i hc
    exfalso
    rw [if_neg hc, getSlice_len, StrLikeL.sliceIdx_ofNat, Nat.min_eq_left hle] at hl
    cases rc with
    | none =>
      simp only [sliceIdx] at hl
      simp at hc
      omega
    | some r =>
      obtain ⟨hr, hx⟩ := hrc r rfl
      rw [C04.sliceIdx_negative _ _ _ hr] at hl
      omega

/-- the text of a slice sits at the (normalised) start offset -/
theorem getSlice_text_at (x : AStr) (a b : Option Int) :
    pySlice x.s (sliceIdx x.len a 0) (sliceIdx x.len a 0 + (x.getSlice a b).len) =
      (x.getSlice a b).s := by
  rw [getSlice_len, StrLikeL.getSlice_s]
  by_cases hle : sliceIdx x.len a 0 ≤ sliceIdx x.len b x.len
  · congr 1; omega
  · have h1 : sliceIdx x.len a 0 + (sliceIdx x.len b x.len - sliceIdx x.len a 0) = sliceIdx x.len a 0 := by
      omega
    rw [h1]
    unfold pySlice
    rw [List.drop_eq_nil_of_le (by simp only [List.length_take]; omega),
      List.drop_eq_nil_of_le (by simp only [List.length_take]; omega)]

theorem strip_text_at (x : AStr) (chars : Option Str) (doL doR ip : Bool) :
    pySlice x.s (lcount x chars doL) (lcount x chars doL + (x.stripGen chars doL doR ip).len) =
      (x.stripGen chars doL doR ip).s := by
  have hle := lcount_le x chars doL
  obtain ⟨rc, he, -⟩ := stripGen_shape x chars doL doR ip
  rw [he]
  split
  · rename_i hc
    rw [hc.2.1]
    unfold pySlice AStr.len
    simp
  · have := getSlice_text_at x (some (lcount x chars doL : Int)) rc
    rw [StrLikeL.sliceIdx_ofNat, Nat.min_eq_left hle] at this
    exact this

theorem removeprefix_act (x : AStr) (h : WF x) (p : Str) (hp : Py.startsWith x.s p = true) {k : Nat}
    (hk : k < (x.removeprefix p).len) : act (x.removeprefix p) k = act x (p.length + k) := by
  unfold AStr.removeprefix at hk ⊢
  simp only [hp, Bool.not_true, Bool.false_eq_true, if_false] at hk ⊢
  exact getSlice_from_act x h p.length hk

theorem removeprefix_absent (x : AStr) (p : Str) (hp : Py.startsWith x.s p = false) :
    x.removeprefix p = x := by
  unfold AStr.removeprefix
  simp [hp]

theorem removeprefix_wf (x : AStr) (h : WF x) (p : Str) : WF (x.removeprefix p) := by
  unfold AStr.removeprefix
  split
  · exact h
  · exact C04.getSlice_wf x h _ _

theorem removesuffix_act (x : AStr) (h : WF x) (p : Str) {k : Nat}
    (hk : k < (x.removesuffix p).len) : act (x.removesuffix p) k = act x k := by
  unfold AStr.removesuffix at hk ⊢
  split
  · rfl
  · rename_i hc
    rw [if_neg hc] at hk
    exact getSlice_to_act x h _ hk

theorem removesuffix_absent (x : AStr) (p : Str) (hp : p = [] ∨ Py.endsWith x.s p = false) :
    x.removesuffix p = x := by
  unfold AStr.removesuffix
  rcases hp with hp | hp
  · simp [hp]
  · simp [hp]

theorem removesuffix_wf (x : AStr) (h : WF x) (p : Str) : WF (x.removesuffix p) := by
  unfold AStr.removesuffix
  split
  · exact h
  · exact C04.getSlice_wf x h _ _

/-- an occurrence lies inside the text -/
theorem occ_le (s sub : Str) (i : Nat) (hp : sub.isPrefixOf (s.drop i) = true) (hi : i ≤ s.length) :
    i + sub.length ≤ s.length := by
  have := congrArg List.length (StrLikeL.occ_decomp s sub i hp)
  simp only [List.length_append, List.length_take, List.length_drop] at this
  omega

theorem partition_eq (x : AStr) (sep : Str) (r : Bool) (idx : Nat)
    (hf : (if r then Py.rfind x.s sep else Py.find x.s sep 0) = some idx) :
    x.partitionGen sep r =
      (x.getSlice (some ((0 : Nat) : Int)) (some (idx : Int)),
       x.getSlice (some (idx : Int)) (some ((idx + sep.length : Nat) : Int)),
       x.getSlice (some ((idx + sep.length : Nat) : Int)) none) := by
  unfold AStr.partitionGen
  rw [hf]
  rfl

/-! ## 3 — `_split` with an explicit separator -/

theorem piecesAt_getElem? (x : AStr) (offs : List (Nat × Nat)) (j : Nat) :
    (x.piecesAt offs)[j]? =
      offs[j]?.map (fun ol => x.getSlice (some (ol.1 : Int)) (some ((ol.1 + ol.2 : Nat) : Int))) := by
  unfold AStr.piecesAt
  rw [List.getElem?_map]

/-- the offset sum written with the pieces' own lengths -/
theorem offsets_of_pieces (ps : List AStr) (n j : Nat) :
    ((ps.take j).map (fun q => q.len + n)).sum =
      (((ps.map (·.s)).take j).map (fun q => q.length + n)).sum := by
  rw [← List.map_take, List.map_map]
  rfl

theorem split_act (x : AStr) (h : WF x) (sep : Str) (hsep : sep ≠ []) (m : Int) (r : Bool)
    (ps : List AStr) (hps : x.splitGen (some sep) m r = .ok ps) (j : Nat) (p : AStr)
    (hj : ps[j]? = some p) {k : Nat} (hk : k < p.len) :
    act p k = act x (((ps.take j).map (fun q => q.len + sep.length)).sum + k) := by
  have htext := C10.split_text x sep m r ps hsep hps
  rw [offsets_of_pieces, htext]
  cases sep with
  | nil => exact absurd rfl hsep
  | cons c sp =>
    simp only [AStr.splitGen, Except.ok.injEq] at hps
    subst hps
    rw [piecesAt_getElem?, C10.pieceOffsets_sep x.s (c :: sp) m r j] at hj
    cases hq : (if r then Py.rsplitSep x.s (c :: sp) m else Py.splitSep x.s (c :: sp) m)[j]? with
    | none => rw [hq] at hj; cases hj
    | some q =>
      rw [hq] at hj
      simp only [Option.map_some, Option.some.injEq] at hj
      subst hj
      exact getSlice_nat_act x h _ _ hk

theorem split_wf (x : AStr) (h : WF x) (sep : Option Str) (m : Int) (r : Bool)
    (ps : List AStr) (hps : x.splitGen sep m r = .ok ps) : ∀ p ∈ ps, WF p := by
  intro p hp
  have : ∃ offs, ps = x.piecesAt offs := by
    unfold AStr.splitGen at hps
    split at hps
    · cases hps
    · cases hps; exact ⟨_, rfl⟩
    · cases hps; exact ⟨_, rfl⟩
  obtain ⟨offs, rfl⟩ := this
  unfold AStr.piecesAt at hp
  obtain ⟨ol, -, rfl⟩ := List.mem_map.mp hp
  exact C04.getSlice_wf x h _ _

theorem splitlines_wf (x : AStr) (h : WF x) (keep : Bool) : ∀ p ∈ x.splitlines keep, WF p := by
  intro p hp
  unfold AStr.splitlines AStr.piecesAt at hp
  obtain ⟨ol, -, rfl⟩ := List.mem_map.mp hp
  exact C04.getSlice_wf x h _ _

/-! ## 4 — layouts and the offsets `find` recovers in them -/

/-- `g₀ ++ p₀ ++ g₁ ++ p₁ ++ …` for a list of (gap before the piece, piece) pairs -/
def catL (pairs : List (Str × Str)) : Str := (pairs.map (fun gp => gp.1 ++ gp.2)).flatten

theorem catL_cons (gp : Str × Str) (rest : List (Str × Str)) :
    catL (gp :: rest) = gp.1 ++ gp.2 ++ catL rest := by
  simp [catL]

/-- the TRUE offsets (and lengths) of the pieces of such a layout that starts at `idx` -/
def offsL : List (Str × Str) → Nat → List (Nat × Nat)
  | [], _ => []
  | gp :: rest, idx =>
    (idx + gp.1.length, gp.2.length) :: offsL rest (idx + gp.1.length + gp.2.length)

/-- all characters of `s` at the positions `[a, b)` are separator characters -/
def Region (sepc : Char → Bool) (s : Str) (a b : Nat) : Prop :=
  ∀ i c, a ≤ i → i < b → s[i]? = some c → sepc c = true

theorem region_gap (sepc : Char → Bool) (pre g rest : Str) (hg : ∀ c ∈ g, sepc c = true) :
    Region sepc (pre ++ g ++ rest) pre.length (pre.length + g.length) := by
  intro i c h1 h2 hc
  rw [List.append_assoc, List.getElem?_append_right h1, List.getElem?_append_left (by omega)] at hc
  exact hg c (List.mem_of_getElem? hc)

theorem region_join {sepc : Char → Bool} {s : Str} {a b c : Nat} (h1 : Region sepc s a b)
    (h2 : Region sepc s b c) : Region sepc s a c := by
  intro i ch hi1 hi2 hc
  by_cases h : i < b
  · exact h1 i ch hi1 h hc
  · exact h2 i ch (by omega) hi2 hc

theorem region_empty (sepc : Char → Bool) (s : Str) (a : Nat) : Region sepc s a a := by
  intro i c h1 h2; omega

/-- a piece that starts with a non-separator character does not occur at a separator position -/
theorem not_prefix_of_sep (sepc : Char → Bool) (s p : Str) (i : Nat) (hne : p ≠ [])
    (hhead : ∀ c ∈ p.head?, sepc c = false) (hi : ∀ c, s[i]? = some c → sepc c = true) :
    p.isPrefixOf (s.drop i) = false := by
  cases hb : p.isPrefixOf (s.drop i) with
  | false => rfl
  | true =>
    exfalso
    obtain ⟨t, ht⟩ := List.isPrefixOf_iff_prefix.mp hb
    cases p with
    | nil => exact hne rfl
    | cons c p' =>
      have h0 : (s.drop i)[0]? = some c := by rw [← ht]; rfl
      rw [List.getElem?_drop, Nat.add_zero] at h0
      have h1 := hi c h0
      have h2 := hhead c (by simp)
      rw [h1] at h2; cases h2

/-- `find` from `idx` skips a region of separator characters -/
theorem find_skip_region (sepc : Char → Bool) (s p : Str) (idx T : Nat) (hne : p ≠ [])
    (hhead : ∀ c ∈ p.head?, sepc c = false) (hreg : Region sepc s idx T) (hle : idx ≤ T)
    (hT : T ≤ s.length) (hocc : p.isPrefixOf (s.drop T) = true) : Py.find s p idx = some T :=
  (find_some_iff s p idx T).mpr
    ⟨hT, hle, hocc, fun i hi1 hi2 => not_prefix_of_sep sepc s p i hne hhead (fun c hc => hreg i c hi2 hi1 hc)⟩

/-- all pieces non-empty, each starting with a non-separator character or directly behind the
    previous one: `find` recovers exactly the true offsets -/
theorem pieceOffsets_exact (sepc : Char → Bool) (s : Str) (pairs : List (Str × Str)) (tail pre : Str)
    (hs : s = pre ++ catL pairs ++ tail)
    (hp : ∀ gp ∈ pairs, gp.2 ≠ [] ∧ (∀ c ∈ gp.1, sepc c = true) ∧
      ((∀ c ∈ gp.2.head?, sepc c = false) ∨ gp.1 = [])) :
    AStr.pieceOffsets s 0 (pairs.map (·.2)) pre.length = offsL pairs pre.length := by
  induction pairs generalizing pre with
  | nil => rfl
  | cons gp rest ih =>
    obtain ⟨g, p⟩ := gp
    obtain ⟨hne, hg, hh⟩ := hp (g, p) (by simp)
    simp only at hne hg hh
    rw [catL_cons] at hs
    simp only at hs
    have hs' : s = (pre ++ g) ++ p ++ (catL rest ++ tail) := by rw [hs]; simp
    have hocc : p.isPrefixOf (s.drop (pre ++ g).length) = true := by
      rw [hs']; exact occ_of_decomp _ _ _
    have hT : (pre ++ g).length ≤ s.length := by rw [hs']; simp
    have hfind : Py.find s p pre.length = some (pre.length + g.length) := by
      rcases hh with hh | hh
      · refine find_skip_region sepc s p _ _ hne hh ?_ (by omega) (by simpa using hT) (by simpa using hocc)
        have := region_gap sepc pre g (p ++ (catL rest ++ tail)) hg
        rw [hs']; simpa using this
      · subst hh
        simpa using find_at s p pre.length (by simpa using hT) (by simpa using hocc)
    have := ih (pre ++ g ++ p) (by rw [hs]; simp) (fun gp hgp => hp gp (by simp [hgp]))
    simp only [List.map_cons, pieceOffsets_cons, hfind, Option.getD_some, offsL, Nat.add_zero]
    simp only [List.length_append] at this
    rw [this]

/-- pieces that are empty or start with a non-separator character, gaps of separator characters,
    and a running index that may lag behind by separator characters only: every non-empty piece is
    found at its true offset, an empty one at or before it -/
theorem pieceOffsets_early (sepc : Char → Bool) (s : Str) (pairs : List (Str × Str)) (tail pre : Str)
    (idx : Nat) (hs : s = pre ++ catL pairs ++ tail) (hidx : idx ≤ pre.length)
    (hreg : Region sepc s idx pre.length)
    (hp : ∀ gp ∈ pairs, (∀ c ∈ gp.1, sepc c = true) ∧ (∀ c ∈ gp.2.head?, sepc c = false)) :
    ∀ (j T n : Nat), (offsL pairs pre.length)[j]? = some (T, n) →
      ∃ e : Nat, (AStr.pieceOffsets s 0 (pairs.map (·.2)) idx)[j]? = some (e, n) ∧ e ≤ T ∧ (n ≠ 0 → e = T) := by
  induction pairs generalizing pre idx with
  | nil => intro j T n hj; simp [offsL] at hj
  | cons gp rest ih =>
    obtain ⟨g, p⟩ := gp
    obtain ⟨hg, hh⟩ := hp (g, p) (by simp)
    simp only at hg hh
    rw [catL_cons] at hs
    simp only at hs
    have hs' : s = (pre ++ g) ++ p ++ (catL rest ++ tail) := by rw [hs]; simp
    have hocc : p.isPrefixOf (s.drop (pre ++ g).length) = true := by
      rw [hs']; exact occ_of_decomp _ _ _
    have hT : (pre ++ g).length ≤ s.length := by rw [hs']; simp
    have hregT : Region sepc s idx (pre.length + g.length) := by
      refine region_join hreg ?_
      have := region_gap sepc pre g (p ++ (catL rest ++ tail)) hg
      rw [hs']; simpa using this
    simp only [List.length_append] at hT hocc
    -- the offset found for `p`, and the invariant for the rest
    have key : ∃ e, Py.find s p idx = some e ∧ e ≤ pre.length + g.length ∧
        (p.length ≠ 0 → e = pre.length + g.length) ∧ e + p.length ≤ (pre ++ g ++ p).length ∧
        Region sepc s (e + p.length) (pre ++ g ++ p).length := by
      cases p with
      | nil =>
        refine ⟨idx, ?_, by omega, fun h => absurd rfl h, by simp; omega, ?_⟩
        · rw [find_empty, if_pos (by omega)]
        · simpa using hregT
      | cons c p' =>
        refine ⟨pre.length + g.length, ?_, Nat.le_refl _, fun _ => rfl, by simp; omega, ?_⟩
        · exact find_skip_region sepc s _ _ _ (by simp) hh hregT (by omega) hT hocc
        · have : pre.length + g.length + (c :: p').length = (pre ++ g ++ c :: p').length := by
            simp; omega
          rw [this]; exact region_empty _ _ _
    obtain ⟨e, hfind, he1, he2, he3, he4⟩ := key
    have ih' := ih (pre ++ g ++ p) (e + p.length) (by rw [hs]; simp) he3 he4
      (fun gp hgp => hp gp (by simp [hgp]))
    intro j T n hj
    simp only [List.map_cons, pieceOffsets_cons, hfind, Option.getD_some, Nat.add_zero]
    cases j with
    | zero =>
      simp only [offsL, List.getElem?_cons_zero, Option.some.injEq, Prod.mk.injEq] at hj
      obtain ⟨rfl, rfl⟩ := hj
      exact ⟨e, rfl, he1, he2⟩
    | succ j =>
      simp only [offsL, List.getElem?_cons_succ] at hj
      simp only [List.getElem?_cons_succ]
      have : pre.length + g.length + p.length = (pre ++ g ++ p).length := by simp; omega
      rw [this] at hj
      exact ih' j T n hj

/-! ## 5 — the layouts of `str.split(None)`, `str.rsplit(None)`, `str.splitlines` -/

theorem catL_nil : catL [] = [] := rfl

theorem catL_append (a b : List (Str × Str)) : catL (a ++ b) = catL a ++ catL b := by
  simp [catL]

/-- mirror image of a layout: (piece, gap after) pairs become (gap before, piece) pairs -/
theorem catL_reverse (pairs : List (Str × Str)) :
    (catL pairs).reverse = catL ((pairs.map (fun pg => (pg.2.reverse, pg.1.reverse))).reverse) := by
  induction pairs with
  | nil => rfl
  | cons pg rest ih =>
    rw [catL_cons, List.map_cons, List.reverse_cons, catL_append, ← ih]
    simp [catL]

/-- from "head gap, then (piece, gap after) pairs" to "(gap before, piece) pairs, then tail gap" -/
def shiftL : Str → List (Str × Str) → List (Str × Str) × Str
  | h, [] => ([], h)
  | h, pg :: r => ((h, pg.1) :: (shiftL pg.2 r).1, (shiftL pg.2 r).2)

theorem shiftL_cat (h : Str) (pairs : List (Str × Str)) :
    h ++ catL pairs = catL (shiftL h pairs).1 ++ (shiftL h pairs).2 := by
  induction pairs generalizing h with
  | nil => simp [shiftL, catL]
  | cons pg r ih =>
    simp only [shiftL, catL_cons]
    rw [List.append_assoc, List.append_assoc, ← ih pg.2]
    simp

theorem shiftL_pieces (h : Str) (pairs : List (Str × Str)) :
    (shiftL h pairs).1.map (·.2) = pairs.map (·.1) := by
  induction pairs generalizing h with
  | nil => rfl
  | cons pg r ih => simp [shiftL, ih]

theorem shiftL_mem (h : Str) (pairs : List (Str × Str)) (gp : Str × Str)
    (hgp : gp ∈ (shiftL h pairs).1) :
    (gp.1 = h ∨ ∃ pg ∈ pairs, gp.1 = pg.2) ∧ ∃ pg ∈ pairs, gp.2 = pg.1 := by
  induction pairs generalizing h with
  | nil => simp [shiftL] at hgp
  | cons pg r ih =>
    simp only [shiftL, List.mem_cons] at hgp
    rcases hgp with rfl | hgp
    · exact ⟨Or.inl rfl, pg, by simp, rfl⟩
    · obtain ⟨h1, pg', hpg', h2⟩ := ih pg.2 hgp
      refine ⟨Or.inr ?_, pg', by simp [hpg'], h2⟩
      rcases h1 with h1 | ⟨pg'', hpg'', h1⟩
      · exact ⟨pg, by simp, h1⟩
      · exact ⟨pg'', by simp [hpg''], h1⟩

theorem shiftL_tail (h : Str) (pairs : List (Str × Str)) :
    (shiftL h pairs).2 = h ∨ ∃ pg ∈ pairs, (shiftL h pairs).2 = pg.2 := by
  induction pairs generalizing h with
  | nil => exact Or.inl rfl
  | cons pg r ih =>
    simp only [shiftL]
    rcases ih pg.2 with h1 | ⟨pg', hpg', h1⟩
    · exact Or.inr ⟨pg, by simp, h1⟩
    · exact Or.inr ⟨pg', by simp [hpg'], h1⟩

theorem mem_takeWhile {p : Char → Bool} {l : Str} {c : Char} (h : c ∈ l.takeWhile p) : p c = true := by
  induction l with
  | nil => simp at h
  | cons a l ih =>
    rw [List.takeWhile_cons] at h
    split at h
    · rename_i ha
      rcases List.mem_cons.mp h with rfl | h
      · exact ha
      · exact ih h
    · simp at h

/-- `str.split(None, m)`: head gap, then (word, gap after it) pairs; a piece is a whitespace-free
    word, or the unsplit rest (then nothing follows it) -/
theorem splitWsAux_layR (fuel : Nat) (s : Str) (m : Int) (hf : s.length < fuel) :
    ∃ (head : Str) (pairs : List (Str × Str)), s = head ++ catL pairs ∧
      (∀ c ∈ head, Py.isSpace c = true) ∧ Py.splitWsAux fuel s m = pairs.map (·.1) ∧
      ∀ pg ∈ pairs, pg.1 ≠ [] ∧ (∀ c ∈ pg.1.head?, Py.isSpace c = false) ∧
        (∀ c ∈ pg.2, Py.isSpace c = true) ∧ ((∀ c ∈ pg.1, Py.isSpace c = false) ∨ pg.2 = []) := by
  induction fuel generalizing s m with
  | zero => omega
  | succ fuel ih =>
    have h1 := List.takeWhile_append_dropWhile (p := Py.isSpace) (l := s)
    have hhead : ∀ c ∈ s.takeWhile Py.isSpace, Py.isSpace c = true := fun c hc => mem_takeWhile hc
    rw [Py.splitWsAux]
    simp only
    cases hd : s.dropWhile Py.isSpace with
    | nil =>
      refine ⟨s.takeWhile Py.isSpace, [], ?_, hhead, by simp, by simp⟩
      rw [hd, List.append_nil] at h1
      simp [catL, h1]
    | cons a d =>
      have ha : Py.isSpace a = false := by
        have := List.head_dropWhile_not Py.isSpace (l := s) (by rw [hd]; simp)
        simpa [hd] using this
      simp only [List.isEmpty_cons, Bool.false_eq_true, if_false]
      split
      · refine ⟨s.takeWhile Py.isSpace, [(a :: d, [])], ?_, hhead, by simp, ?_⟩
        · rw [← hd]; simp [catL, h1]
        · intro pg hpg
          simp only [List.mem_singleton] at hpg
          subst hpg
          exact ⟨by simp, by simpa using ha, by simp, Or.inr rfl⟩
      · have h2 := List.takeWhile_append_dropWhile (p := fun c => !Py.isSpace c) (l := a :: d)
        rw [drop_takeWhile_length]
        have hlen : ((a :: d).dropWhile (fun c => !Py.isSpace c)).length < fuel := by
          have e1 := congrArg List.length h1
          have e2 := congrArg List.length h2
          have e3 : 0 < ((a :: d).takeWhile (fun c => !Py.isSpace c)).length := by
            rw [List.takeWhile_cons]; simp [ha]
          rw [hd] at e1
          simp only [List.length_append] at e1 e2
          omega
        obtain ⟨head', pairs', e, hh', hpieces, hpairs⟩ := ih _ (m - 1) hlen
        refine ⟨s.takeWhile Py.isSpace,
          ((a :: d).takeWhile (fun c => !Py.isSpace c), head') :: pairs', ?_, hhead, ?_, ?_⟩
        · rw [catL_cons]
          simp only
          rw [List.append_assoc, ← e, h2, ← hd, h1]
        · rw [hpieces]; rfl
        · intro pg hpg
          rcases List.mem_cons.mp hpg with rfl | hpg
          · refine ⟨?_, ?_, hh', Or.inl ?_⟩
            · rw [List.takeWhile_cons]; simp [ha]
            · rw [List.takeWhile_cons]; simp [ha]
            · intro c hc
              have := mem_takeWhile hc
              simpa using this
          · exact hpairs pg hpg

/-- the separator characters of `splitlines`: the line breaks, unless they are kept in the pieces -/
def lineSep (keep : Bool) (c : Char) : Bool := !keep && Py.isLineBreak c

/-- `str.splitlines(keep)`: (line, line break after it) pairs; with `keep` the break belongs to the
    line and the gap is empty -/
theorem splitlinesAux_layR (keep : Bool) (s cur : Str) (hcur : ∀ c ∈ cur, lineSep keep c = false) :
    ∃ pairs : List (Str × Str), cur ++ s = catL pairs ∧
      Py.splitlinesAux keep s cur = pairs.map (·.1) ∧
      ∀ pg ∈ pairs, (∀ c ∈ pg.1, lineSep keep c = false) ∧ (∀ c ∈ pg.2, lineSep keep c = true) := by
  fun_induction Py.splitlinesAux keep s cur with
  | case1 cur hc =>
    have : cur = [] := List.isEmpty_iff.mp hc
    subst this
    exact ⟨[], rfl, rfl, by simp⟩
  | case2 cur hc =>
    refine ⟨[(cur, [])], by simp [catL], rfl, ?_⟩
    intro pg hpg
    simp only [List.mem_singleton] at hpg
    subst hpg
    exact ⟨hcur, by simp⟩
  | case3 rest cur ih =>
    obtain ⟨pairs, e, hp, hpairs⟩ := ih (by simp)
    simp only [List.nil_append] at e
    cases keep
    · refine ⟨(cur, ['\r', '\n']) :: pairs, ?_, by simp [hp], ?_⟩
      · rw [catL_cons, ← e]; simp
      · intro pg hpg
        rcases List.mem_cons.mp hpg with rfl | hpg
        · refine ⟨hcur, ?_⟩
          intro c hc
          simp only [List.mem_cons, List.not_mem_nil, or_false] at hc
          rcases hc with rfl | rfl <;> decide
        · exact hpairs pg hpg
    · refine ⟨(cur ++ ['\r', '\n'], []) :: pairs, ?_, by simp [hp], ?_⟩
      · rw [catL_cons, ← e]; simp
      · intro pg hpg
        rcases List.mem_cons.mp hpg with rfl | hpg
        · exact ⟨fun c _ => by simp [lineSep], by simp⟩
        · exact hpairs pg hpg
  | case4 c rest cur hnot hbr ih =>
    obtain ⟨pairs, e, hp, hpairs⟩ := ih (by simp)
    simp only [List.nil_append] at e
    cases keep
    · refine ⟨(cur, [c]) :: pairs, ?_, by simp [hp], ?_⟩
      · rw [catL_cons, ← e]; simp
      · intro pg hpg
        rcases List.mem_cons.mp hpg with rfl | hpg
        · refine ⟨hcur, ?_⟩
          intro c' hc
          simp only [List.mem_cons, List.not_mem_nil, or_false] at hc
          subst hc
          simpa [lineSep] using hbr
        · exact hpairs pg hpg
    · refine ⟨(cur ++ [c], []) :: pairs, ?_, by simp [hp], ?_⟩
      · rw [catL_cons, ← e]; simp
      · intro pg hpg
        rcases List.mem_cons.mp hpg with rfl | hpg
        · exact ⟨fun c _ => by simp [lineSep], by simp⟩
        · exact hpairs pg hpg
  | case5 c rest cur hnot hbr ih =>
    have hcur' : ∀ c' ∈ cur ++ [c], lineSep keep c' = false := by
      intro c' hc'
      rcases List.mem_append.mp hc' with h | h
      · exact hcur c' h
      · simp only [List.mem_singleton] at h
        subst h
        simp only [lineSep]
        simp only [Bool.not_eq_true] at hbr
        rw [hbr]; simp
    obtain ⟨pairs, e, hp, hpairs⟩ := ih hcur'
    exact ⟨pairs, by rw [← e]; simp, hp, hpairs⟩

/-- the `j`-th true offset, in closed form: all gaps up to and including the one before piece `j`,
    and all earlier pieces -/
theorem offsL_getElem? (pairs : List (Str × Str)) (idx j : Nat) :
    (offsL pairs idx)[j]? = pairs[j]?.map (fun gp =>
      (idx + ((((pairs.map (·.1)).take (j + 1)).map List.length).sum +
        (((pairs.map (·.2)).take j).map List.length).sum), gp.2.length)) := by
  induction pairs generalizing idx j with
  | nil => simp [offsL]
  | cons gp rest ih =>
    cases j with
    | zero => simp [offsL]
    | succ j =>
      simp only [offsL, List.getElem?_cons_succ, ih, List.map_cons, List.take_succ_cons,
        List.sum_cons]
      cases rest[j]? with
      | none => rfl
      | some q => simp only [Option.map_some]; congr 2; omega

/-- whitespace splitting: the layout of the pieces of `str.split(None, m)` / `str.rsplit(None, m)`
    and the offsets `_split` recovers in it -/
theorem ws_layout (s : Str) (m : Int) (r : Bool) :
    ∃ (pairs : List (Str × Str)) (tail : Str), s = catL pairs ++ tail ∧
      (∀ c ∈ tail, Py.isSpace c = true) ∧
      (∀ gp ∈ pairs, gp.2 ≠ [] ∧ (∀ c ∈ gp.1, Py.isSpace c = true) ∧
        ((∀ c ∈ gp.2.head?, Py.isSpace c = false) ∨ gp.1 = [])) ∧
      (if r then Py.rsplitWs s m else Py.splitWs s m) = pairs.map (·.2) ∧
      AStr.pieceOffsets s 0 (pairs.map (·.2)) 0 = offsL pairs 0 := by
  have fin : ∀ (pairs : List (Str × Str)) (tail : Str), s = catL pairs ++ tail →
      (∀ gp ∈ pairs, gp.2 ≠ [] ∧ (∀ c ∈ gp.1, Py.isSpace c = true) ∧
        ((∀ c ∈ gp.2.head?, Py.isSpace c = false) ∨ gp.1 = [])) →
      AStr.pieceOffsets s 0 (pairs.map (·.2)) 0 = offsL pairs 0 := by
    intro pairs tail hs hp
    exact pieceOffsets_exact Py.isSpace s pairs tail [] (by simpa using hs) hp
  cases r with
  | false =>
    obtain ⟨head, pairsR, hs, hhead, hpieces, hpairs⟩ :=
      splitWsAux_layR (s.length + 1) s m (Nat.lt_succ_self _)
    have hcond : ∀ gp ∈ (shiftL head pairsR).1, gp.2 ≠ [] ∧ (∀ c ∈ gp.1, Py.isSpace c = true) ∧
        ((∀ c ∈ gp.2.head?, Py.isSpace c = false) ∨ gp.1 = []) := by
      intro gp hgp
      obtain ⟨h1, pg, hpg, h2⟩ := shiftL_mem head pairsR gp hgp
      obtain ⟨q1, q2, -, -⟩ := hpairs pg hpg
      refine ⟨by rw [h2]; exact q1, ?_, Or.inl (by rw [h2]; exact q2)⟩
      rcases h1 with h1 | ⟨pg', hpg', h1⟩
      · rw [h1]; exact hhead
      · rw [h1]; exact (hpairs pg' hpg').2.2.1
    have hs' : s = catL (shiftL head pairsR).1 ++ (shiftL head pairsR).2 := by
      rw [← shiftL_cat]; exact hs
    refine ⟨(shiftL head pairsR).1, (shiftL head pairsR).2, hs', ?_, hcond, ?_, fin _ _ hs' hcond⟩
    · rcases shiftL_tail head pairsR with h1 | ⟨pg, hpg, h1⟩
      · rw [h1]; exact hhead
      · rw [h1]; exact (hpairs pg hpg).2.2.1
    · rw [shiftL_pieces]; exact hpieces
  | true =>
    obtain ⟨head, pairsR, hs, hhead, hpieces, hpairs⟩ :=
      splitWsAux_layR (s.reverse.length + 1) s.reverse m (Nat.lt_succ_self _)
    have hs' : s = catL ((pairsR.map (fun pg => (pg.2.reverse, pg.1.reverse))).reverse) ++
        head.reverse := by
      rw [← catL_reverse, ← List.reverse_append, ← hs, List.reverse_reverse]
    have hcond : ∀ gp ∈ (pairsR.map (fun pg => (pg.2.reverse, pg.1.reverse))).reverse,
        gp.2 ≠ [] ∧ (∀ c ∈ gp.1, Py.isSpace c = true) ∧
        ((∀ c ∈ gp.2.head?, Py.isSpace c = false) ∨ gp.1 = []) := by
      intro gp hgp
      rw [List.mem_reverse, List.mem_map] at hgp
      obtain ⟨pg, hpg, rfl⟩ := hgp
      obtain ⟨q1, -, q3, q4⟩ := hpairs pg hpg
      refine ⟨by simpa using q1, fun c hc => q3 c (by simpa using hc), ?_⟩
      rcases q4 with q4 | q4
      · exact Or.inl (fun c hc => q4 c (by simpa using List.mem_of_mem_head? hc))
      · exact Or.inr (by simp [q4])
    refine ⟨_, _, hs', fun c hc => hhead c (by simpa using hc), hcond, ?_, fin _ _ hs' hcond⟩
    unfold Py.rsplitWs Py.splitWs
    rw [hpieces]
    simp [List.map_reverse]

/-- `splitlines`: the layout of the lines and the offsets `splitlines` recovers in it: a non-empty
    line is found at its true offset, an empty one at or before it -/
theorem lines_layout (s : Str) (keep : Bool) :
    ∃ (pairs : List (Str × Str)) (tail : Str), s = catL pairs ++ tail ∧
      (∀ c ∈ tail, lineSep keep c = true) ∧
      (∀ gp ∈ pairs, (∀ c ∈ gp.1, lineSep keep c = true) ∧ (∀ c ∈ gp.2, lineSep keep c = false)) ∧
      Py.splitlines s keep = pairs.map (·.2) ∧
      ∀ (j T n : Nat), (offsL pairs 0)[j]? = some (T, n) →
        ∃ e : Nat, (AStr.pieceOffsets s 0 (pairs.map (·.2)) 0)[j]? = some (e, n) ∧ e ≤ T ∧
          (n ≠ 0 → e = T) := by
  obtain ⟨pairsR, hs, hpieces, hpairs⟩ := splitlinesAux_layR keep s [] (by simp)
  simp only [List.nil_append] at hs
  have hcond : ∀ gp ∈ (shiftL [] pairsR).1,
      (∀ c ∈ gp.1, lineSep keep c = true) ∧ (∀ c ∈ gp.2, lineSep keep c = false) := by
    intro gp hgp
    obtain ⟨h1, pg, hpg, h2⟩ := shiftL_mem [] pairsR gp hgp
    refine ⟨?_, by rw [h2]; exact (hpairs pg hpg).1⟩
    rcases h1 with h1 | ⟨pg', hpg', h1⟩
    · rw [h1]; simp
    · rw [h1]; exact (hpairs pg' hpg').2
  have hs' : s = catL (shiftL [] pairsR).1 ++ (shiftL [] pairsR).2 := by
    rw [← shiftL_cat]; simpa using hs
  refine ⟨(shiftL [] pairsR).1, (shiftL [] pairsR).2, hs', ?_, hcond, ?_, ?_⟩
  · rcases shiftL_tail [] pairsR with h1 | ⟨pg, hpg, h1⟩
    · rw [h1]; simp
    · rw [h1]; exact (hpairs pg hpg).2
  · rw [shiftL_pieces]; exact hpieces
  · exact pieceOffsets_early (lineSep keep) s _ _ [] 0 (by simpa using hs') (Nat.le_refl _)
      (region_empty _ _ _)
      (fun gp hgp => ⟨(hcond gp hgp).1, fun c hc => (hcond gp hgp).2 c (List.mem_of_mem_head? hc)⟩)

theorem pieceOffsets_length (s : Str) (gap : Nat) (ps : List Str) (idx : Nat) :
    (AStr.pieceOffsets s gap ps idx).length = ps.length := by
  induction ps generalizing idx with
  | nil => rfl
  | cons p rest ih => simp [AStr.pieceOffsets, ih]

/-- a run of separator characters followed by a non-separator character is determined -/
theorem sep_prefix_unique {sepc : Char → Bool} {u u' v v' : Str} {c c' : Char}
    (hu : ∀ d ∈ u, sepc d = true) (hu' : ∀ d ∈ u', sepc d = true) (hc : sepc c = false)
    (hc' : sepc c' = false) (h : u ++ c :: v = u' ++ c' :: v') : u = u' ∧ c :: v = c' :: v' := by
  induction u generalizing u' with
  | nil =>
    cases u' with
    | nil => exact ⟨rfl, h⟩
    | cons d u' =>
      simp only [List.nil_append, List.cons_append, List.cons.injEq] at h
      have := hu' d (by simp)
      rw [← h.1, hc] at this; cases this
  | cons d u ih =>
    cases u' with
    | nil =>
      simp only [List.nil_append, List.cons_append, List.cons.injEq] at h
      have := hu d (by simp)
      rw [h.1, hc'] at this; cases this
    | cons d' u' =>
      simp only [List.cons_append, List.cons.injEq] at h
      obtain ⟨h1, h2⟩ := ih (fun e he => hu e (by simp [he])) (fun e he => hu' e (by simp [he])) h.2
      exact ⟨by rw [h.1, h1], h2⟩

/-! ## 6 — `mapText`, `assign_str` -/

/-- replacing the text by one of the same length keeps the invariant -/
theorem mapText_wf (x : AStr) (h : WF x) (t : Str) (ht : t.length = x.len) : WF (x.mapText t) where
  sorted := h.sorted
  bound := by
    intro kp hkp
    have := h.bound kp hkp
    simpa [AStr.mapText, AStr.len, ht] using (show kp.1 ≤ t.length by rw [ht]; exact this)
  noAddEnd := by
    intro kp hkp he
    exact h.noAddEnd kp hkp (by
      have : (x.mapText t).len = t.length := rfl
      rw [he, this, ht])
  ok := h.ok
  nodup := h.nodup
  closed := by
    have : (x.mapText t).len = x.len := ht
    show active x.fmts (x.mapText t).len = []
    rw [this]; exact h.closed
  coherent := h.coherent

theorem assignStr_shorter_eq (x : AStr) (t : Str) (ht : t.length < x.len) :
    x.assignStr t = (x.getSlice none (some (t.length : Int))).mapText t := by
  unfold AStr.assignStr
  have h1 : ¬ t.length > x.len := by omega
  simp only [h1, if_false, ht, if_true]
  rfl

theorem assignStr_shorter_slice_len (x : AStr) (t : Str) (ht : t.length < x.len) :
    (x.getSlice none (some (t.length : Int))).len = t.length := by
  rw [getSlice_len, StrLikeL.sliceIdx_ofNat]
  simp only [sliceIdx]
  omega

/-- a value with one setting on the characters `[a, b)` is well formed (used for the examples) -/
theorem wf_run (t : Str) (a b : Nat) (s : Setting) (hab : a < b) (hb : b ≤ t.length) :
    WF { s := t, fmts := [(a, { add := [s] }), (b, { rem := [s] })] } where
  sorted := by simp [SortedKeys, hab]
  bound := by
    intro kp hkp
    simp only [List.mem_cons, List.not_mem_nil, or_false] at hkp
    rcases hkp with rfl | rfl <;> simp [AStr.len] <;> omega
  noAddEnd := by
    intro kp hkp he
    simp only [List.mem_cons, List.not_mem_nil, or_false] at hkp
    rcases hkp with rfl | rfl
    · simp [AStr.len] at he; omega
    · rfl
  ok := by simp [replayOk, replayOkFrom, stepOk, stepPoint, hasId, eraseId]
  nodup := by
    intro i
    simp only [active, activeFrom]
    split
    · split <;> simp [stepPoint, eraseId]
    · simp
  closed := by
    have h1 : a ≤ t.length := by omega
    simp [active, activeFrom, AStr.len, h1, hb, stepPoint, eraseId]
  coherent := by
    intro s1 h1 s2 h2 _
    simp [Fmts.settings] at h1 h2
    rw [h1, h2]

end PiecesL
