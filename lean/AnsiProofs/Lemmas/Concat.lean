import AnsiProofs.Lemmas.Basic
/-
  Helper lemmas for property C05 (`__iadd__`, `__add__`, `join`).

  Plan: (1) sorted-assoc-list facts for `erase`; (2) `retarget` computes a `map`/`filter`;
  (3) the fold of `iaddStep` is characterised in the function representation (`Fmts.toFun`);
  (4) induction on the character index with a relation between the active lists.
-/

namespace Fmts

theorem get?_erase {f : Fmts} (h : SortedKeys f) (k j : Nat) :
    (f.erase k).get? j = if j = k then none else f.get? j := by
  induction f with
  | nil => simp [Fmts.erase, get?_nil]
  | cons kp rest ih =>
    obtain ⟨k', p'⟩ := kp
    have hs := sorted_tail h
    have hlb : LB (k' + 1) rest := LB_tail_of_sorted h
    unfold Fmts.erase
    by_cases h1 : k' = k
    · subst h1
      simp only [if_true]
      by_cases hj : j = k'
      · subst hj
        simp only [if_true]
        exact get?_of_LB hlb (by omega)
      · simp only [hj, if_false, get?_cons]
        have h2 : ¬ k' = j := fun e => hj e.symm
        simp only [h2, if_false]
        by_cases h3 : j < k'
        · simp only [h3, if_true]
          exact get?_of_LB hlb (by omega)
        · simp [h3]
    · simp only [h1, if_false, get?_cons]
      by_cases hj : j = k
      · subst hj
        simp only [h1, if_false, if_true]
        by_cases h3 : j < k'
        · simp [h3]
        · simp only [h3, if_false]
          have := ih hs
          simpa using this
      · simp only [hj, if_false]
        by_cases h2 : k' = j
        · simp [h2]
        · simp only [h2, if_false]
          by_cases h3 : j < k'
          · simp [h3]
          · simp only [h3, if_false]
            have := ih hs
            simpa [hj] using this

theorem mem_erase {f : Fmts} {k : Nat} {x : Nat × Point} (hx : x ∈ f.erase k) : x ∈ f := by
  induction f with
  | nil => simp [Fmts.erase] at hx
  | cons kp rest ih =>
    obtain ⟨k', p'⟩ := kp
    unfold Fmts.erase at hx
    by_cases h1 : k' = k
    · simp only [h1, if_true] at hx
      exact List.mem_cons_of_mem _ hx
    · simp only [h1, if_false] at hx
      rcases List.mem_cons.mp hx with e | e
      · simp [e]
      · exact List.mem_cons_of_mem _ (ih e)

theorem sorted_erase {f : Fmts} (h : SortedKeys f) (k : Nat) : SortedKeys (f.erase k) := by
  induction f with
  | nil => simp [Fmts.erase, SortedKeys]
  | cons kp rest ih =>
    obtain ⟨k', p'⟩ := kp
    have hs := sorted_tail h
    have hlt := sorted_head_lt h
    unfold Fmts.erase
    by_cases h1 : k' = k
    · simp only [h1, if_true]; exact hs
    · simp only [h1, if_false]
      refine List.pairwise_cons.mpr ⟨?_, ih hs⟩
      intro x hx
      exact hlt x (mem_erase hx)

theorem toFun_erase {f : Fmts} (h : SortedKeys f) (k j : Nat) :
    toFun (f.erase k) j = if j = k then {} else toFun f j := by
  unfold toFun Fmts.getD
  rw [get?_erase h]
  by_cases hj : j = k <;> simp [hj]

/-- an absent key reads as the empty point -/
theorem toFun_of_get?_none {f : Fmts} {k : Nat} (h : f.get? k = none) : toFun f k = {} := by
  simp [toFun, Fmts.getD, h]

theorem toFun_of_get?_some {f : Fmts} {k : Nat} {p : Point} (h : f.get? k = some p) :
    toFun f k = p := by
  simp [toFun, Fmts.getD, h]

/-- every key of `f` is below `hi` -/
def UB (hi : Nat) (f : Fmts) : Prop := ∀ kp ∈ f, kp.1 < hi

theorem get?_of_UB {hi : Nat} {f : Fmts} (h : UB hi f) {k : Nat} (hk : hi ≤ k) : f.get? k = none := by
  cases hg : f.get? k with
  | none => rfl
  | some p =>
    have := h _ (mem_of_get?_eq_some hg)
    simp at this; omega

theorem UB_set {hi : Nat} {f : Fmts} (h : UB hi f) {k : Nat} (hk : k < hi) (p : Point) :
    UB hi (f.set k p) := by
  intro x hx
  rcases mem_set hx with e | e
  · subst e; exact hk
  · exact h x e

theorem UB_erase {hi : Nat} {f : Fmts} (h : UB hi f) (k : Nat) : UB hi (f.erase k) :=
  fun x hx => h x (mem_erase hx)

theorem UB_mono {hi hi' : Nat} {f : Fmts} (h : UB hi f) (hle : hi ≤ hi') : UB hi' f :=
  fun x hx => Nat.lt_of_lt_of_le (h x hx) hle

end Fmts
