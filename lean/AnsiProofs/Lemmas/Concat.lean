import AnsiProofs.Lemmas.Basic
/-
  Helper lemmas for property C05 (`__iadd__`, `__add__`, `join`).

  Plan: (1) sorted-assoc-list facts for `erase`; (2) `retarget` computes a `map`/`filter`;
  (3) the fold of `iaddStep` is characterised in the function representation (`Fmts.toFun`);
  (4) induction on the character index with a relation between the active lists.
-/

namespace ConcatL

open Fmts

namespace Fmts

theorem get?_erase {f : Fmts} (h : SortedKeys f) (k j : Nat) :
    (f.erase k).get? j = if j = k then none else f.get? j := by
  induction f with
  | nil => simp [Fmts.erase, get?_nil]
  | cons kp rest ih =>
    obtain ⟨k', p'⟩ := kp
    have hs := sorted_tail h
    have hlb : LB (k' + 1) rest := LB_tail_of_sorted h
    unfold Fmts.erase
    by_cases h1 : k' = k
    · subst h1
      simp only [if_true]
      by_cases hj : j = k'
      · subst hj
        simp only [if_true]
        exact get?_of_LB hlb (by omega)
      · simp only [hj, if_false, get?_cons]
        have h2 : ¬ k' = j := fun e => hj e.symm
        simp only [h2, if_false]
        by_cases h3 : j < k'
        · simp only [h3, if_true]
          exact get?_of_LB hlb (by omega)
        · simp [h3]
    · simp only [h1, if_false, get?_cons]
      by_cases hj : j = k
      · subst hj
        simp only [h1, if_false, if_true]
        by_cases h3 : j < k'
        · simp [h3]
        · simp only [h3, if_false]
          have := ih hs
          simpa using this
      · simp only [hj, if_false]
        by_cases h2 : k' = j
        · simp [h2]
        · simp only [h2, if_false]
          by_cases h3 : j < k'
          · simp [h3]
          · simp only [h3, if_false]
            have := ih hs
            simpa [hj] using this

theorem mem_erase {f : Fmts} {k : Nat} {x : Nat × Point} (hx : x ∈ f.erase k) : x ∈ f := by
  induction f with
  | nil => simp [Fmts.erase] at hx
  | cons kp rest ih =>
    obtain ⟨k', p'⟩ := kp
    unfold Fmts.erase at hx
    by_cases h1 : k' = k
    · simp only [h1, if_true] at hx
      exact List.mem_cons_of_mem _ hx
    · simp only [h1, if_false] at hx
      rcases List.mem_cons.mp hx with e | e
      · simp [e]
      · exact List.mem_cons_of_mem _ (ih e)

theorem sorted_erase {f : Fmts} (h : SortedKeys f) (k : Nat) : SortedKeys (f.erase k) := by
  induction f with
  | nil => simp [Fmts.erase, SortedKeys]
  | cons kp rest ih =>
    obtain ⟨k', p'⟩ := kp
    have hs := sorted_tail h
    have hlt := sorted_head_lt h
    unfold Fmts.erase
    by_cases h1 : k' = k
    · simp only [h1, if_true]; exact hs
    · simp only [h1, if_false]
      refine List.pairwise_cons.mpr ⟨?_, ih hs⟩
      intro x hx
      exact hlt x (mem_erase hx)

theorem toFun_erase {f : Fmts} (h : SortedKeys f) (k j : Nat) :
    toFun (f.erase k) j = if j = k then {} else toFun f j := by
  unfold toFun Fmts.getD
  rw [get?_erase h]
  by_cases hj : j = k <;> simp [hj]

/-- an absent key reads as the empty point -/
theorem toFun_of_get?_none {f : Fmts} {k : Nat} (h : f.get? k = none) : toFun f k = {} := by
  simp [toFun, Fmts.getD, h]

theorem toFun_of_get?_some {f : Fmts} {k : Nat} {p : Point} (h : f.get? k = some p) :
    toFun f k = p := by
  simp [toFun, Fmts.getD, h]

/-- every key of `f` is below `hi` -/
def UB (hi : Nat) (f : Fmts) : Prop := ∀ kp ∈ f, kp.1 < hi

theorem get?_of_UB {hi : Nat} {f : Fmts} (h : UB hi f) {k : Nat} (hk : hi ≤ k) : f.get? k = none := by
  cases hg : f.get? k with
  | none => rfl
  | some p =>
    have := h _ (mem_of_get?_eq_some hg)
    simp at this; omega

theorem UB_set {hi : Nat} {f : Fmts} (h : UB hi f) {k : Nat} (hk : k < hi) (p : Point) :
    UB hi (f.set k p) := by
  intro x hx
  rcases mem_set hx with e | e
  · subst e; exact hk
  · exact h x e

theorem UB_erase {hi : Nat} {f : Fmts} (h : UB hi f) (k : Nat) : UB hi (f.erase k) :=
  fun x hx => h x (mem_erase hx)

theorem UB_mono {hi hi' : Nat} {f : Fmts} (h : UB hi f) (hle : hi ≤ hi') : UB hi' f :=
  fun x hx => Nat.lt_of_lt_of_le (h x hx) hle

end Fmts

/-! ## `retarget` computes a `map` and a `filter` -/

abbrev Pend := List (Setting × Setting)

def subst (P : Pend) (r : Setting) : Setting :=
  match P.find? (fun p => p.1.id == r.id) with
  | some p => p.2
  | none => r

def pendFilter (P : Pend) (rem : List Setting) : Pend := P.filter (fun p => !hasId rem p.1.id)

def matchIdx (inl : List Setting) (i : Nat) : List Nat :=
  (inl.zipIdx.filter (fun p => p.1.id == i)).map (·.2)

theorem findRefs_nil (inl : List Setting) : findRefs [] inl = [] := rfl

theorem findRefs_cons (f : Setting) (find inl : List Setting) :
    findRefs (f :: find) inl =
      (matchIdx inl f.id).map (fun i2 => (0, i2)) ++ (findRefs find inl).map (fun p => (p.1 + 1, p.2)) := by
  unfold findRefs matchIdx
  rw [List.zipIdx_cons, List.map_cons, List.flatten_cons, List.zipIdx_succ]
  simp only [List.map_map, List.map_flatten]
  congr 2
  apply List.map_congr_left
  intro x _
  simp [Function.comp, List.map_map]

def rtStep (acc : List Setting × List Setting × List Setting) (fa : Nat × Nat) :
    List Setting × List Setting × List Setting :=
  match acc.2.2[fa.1]? with
  | some r => (acc.1.set fa.2 r, acc.2.1.eraseIdx fa.1, acc.2.2.eraseIdx fa.1)
  | none => acc

theorem retarget_def (rem find repl : List Setting) (finds : List (Nat × Nat)) :
    retarget rem find repl finds = finds.reverse.foldl rtStep (rem, find, repl) := rfl

theorem rtStep_shift (L : List (Nat × Nat)) (rem find repl : List Setting) (f r : Setting) :
    (L.map (fun p => (p.1 + 1, p.2))).foldl rtStep (rem, f :: find, r :: repl) =
      ((L.foldl rtStep (rem, find, repl)).1, f :: (L.foldl rtStep (rem, find, repl)).2.1,
        r :: (L.foldl rtStep (rem, find, repl)).2.2) := by
  induction L generalizing rem find repl with
  | nil => rfl
  | cons p L ih =>
    simp only [List.map_cons, List.foldl_cons]
    have : rtStep (rem, f :: find, r :: repl) (p.1 + 1, p.2) =
        ((rtStep (rem, find, repl) p).1, f :: (rtStep (rem, find, repl) p).2.1,
          r :: (rtStep (rem, find, repl) p).2.2) := by
      simp only [rtStep, List.getElem?_cons_succ]
      cases repl[p.1]? <;> simp
    rw [this, ih]

def matchIdxFrom (off : Nat) (inl : List Setting) (i : Nat) : List Nat :=
  ((inl.zipIdx off).filter (fun p => p.1.id == i)).map (·.2)

theorem matchIdxFrom_none (off : Nat) (inl : List Setting) (i : Nat) (h : ∀ x ∈ inl, x.id ≠ i) :
    matchIdxFrom off inl i = [] := by
  induction inl generalizing off with
  | nil => rfl
  | cons y inl ih =>
    unfold matchIdxFrom
    rw [List.zipIdx_cons, List.filter_cons]
    have hy : ¬ (y.id == i) = true := by simpa using h y (by simp)
    simp only [hy]
    exact ih (off + 1) (fun x hx => h x (by simp [hx]))

theorem matchIdxFrom_cases (off : Nat) (inl : List Setting) (i : Nat)
    (hn : (inl.map (·.id)).Nodup) :
    (matchIdxFrom off inl i = [] ∧ ∀ x ∈ inl, x.id ≠ i) ∨
    (∃ l1 x l2, inl = l1 ++ x :: l2 ∧ x.id = i ∧ (∀ y ∈ l1, y.id ≠ i) ∧ (∀ y ∈ l2, y.id ≠ i) ∧
      matchIdxFrom off inl i = [off + l1.length]) := by
  induction inl generalizing off with
  | nil => left; exact ⟨rfl, by simp⟩
  | cons y inl ih =>
    rw [List.map_cons, List.nodup_cons] at hn
    by_cases hy : y.id = i
    · right
      have hrest : ∀ z ∈ inl, z.id ≠ i := by
        intro z hz e
        exact hn.1 (List.mem_map.mpr ⟨z, hz, by simp [e, hy]⟩)
      refine ⟨[], y, inl, rfl, hy, by simp, hrest, ?_⟩
      unfold matchIdxFrom
      rw [List.zipIdx_cons, List.filter_cons]
      have : (y.id == i) = true := by simp [hy]
      simp only [this, if_true, List.map_cons, List.length_nil, Nat.add_zero]
      have := matchIdxFrom_none (off + 1) inl i hrest
      unfold matchIdxFrom at this
      rw [this]
    · have hstep : matchIdxFrom off (y :: inl) i = matchIdxFrom (off + 1) inl i := by
        unfold matchIdxFrom
        rw [List.zipIdx_cons, List.filter_cons]
        have : ¬ (y.id == i) = true := by simpa using hy
        simp only [this]
        rfl
      rcases ih (off + 1) hn.2 with ⟨h1, h2⟩ | ⟨l1, x, l2, e, hx, h1, h2, h3⟩
      · left
        refine ⟨by rw [hstep, h1], ?_⟩
        intro z hz
        rcases List.mem_cons.mp hz with e | e
        · subst e; exact hy
        · exact h2 z e
      · right
        refine ⟨y :: l1, x, l2, by simp [e], hx, ?_, h2, ?_⟩
        · intro z hz
          rcases List.mem_cons.mp hz with e | e
          · subst e; exact hy
          · exact h1 z e
        · rw [hstep, h3]; simp; omega

theorem matchIdx_eq (inl : List Setting) (i : Nat) : matchIdx inl i = matchIdxFrom 0 inl i := rfl

theorem subst_nil (r : Setting) : subst [] r = r := rfl

theorem subst_cons_ne (f r : Setting) (P : Pend) (x : Setting) (h : x.id ≠ f.id) :
    subst ((f, r) :: P) x = subst P x := by
  have : ¬ (f.id == x.id) = true := by simpa using fun e => h e.symm
  simp [subst, this]

theorem subst_cons_eq (f r : Setting) (P : Pend) (x : Setting) (h : x.id = f.id) :
    subst ((f, r) :: P) x = r := by
  simp [subst, h]

theorem retarget_eq (rem find repl : List Setting) (hl : find.length = repl.length)
    (hn : (rem.map (·.id)).Nodup) :
    retarget rem find repl (findRefs find rem) =
      (rem.map (subst (find.zip repl)), (pendFilter (find.zip repl) rem).map (·.1),
        (pendFilter (find.zip repl) rem).map (·.2)) := by
  induction find generalizing repl with
  | nil =>
    cases repl with
    | nil =>
      have : subst [] = id := funext fun _ => rfl
      simp [retarget_def, findRefs_nil, pendFilter, this]
    | cons _ _ => simp at hl
  | cons f find ih =>
    cases repl with
    | nil => simp at hl
    | cons r repl =>
      have hl' : find.length = repl.length := by simpa using hl
      have ih' := ih repl hl'
      rw [retarget_def] at ih'
      rw [retarget_def, findRefs_cons, List.reverse_append, List.foldl_append, ← List.map_reverse,
        rtStep_shift, ih', List.zip_cons_cons]
      rcases matchIdxFrom_cases 0 rem f.id hn with ⟨h1, h2⟩ | ⟨l1, x, l2, e, hx, h1, h2, h3⟩
      · rw [matchIdx_eq, h1]
        have hno : hasId rem f.id = false := by
          simp only [hasId, List.any_eq_false]
          intro x hx; simpa using h2 x hx
        simp only [List.map_nil, List.reverse_nil, List.foldl_nil, pendFilter, List.filter_cons, hno]
        simp only [Bool.not_false, if_true, List.map_cons]
        congr 1
        apply List.map_congr_left
        intro x hx
        exact (subst_cons_ne f r _ x (h2 x hx)).symm
      · rw [matchIdx_eq, h3]
        have hyes : hasId rem f.id = true := by
          simp only [hasId, List.any_eq_true]
          exact ⟨x, by simp [e], by simp [hx]⟩
        simp only [List.map_cons, List.map_nil, List.reverse_cons, List.reverse_nil, List.nil_append,
          List.foldl_cons, List.foldl_nil, pendFilter, List.filter_cons, hyes]
        simp only [rtStep, List.getElem?_cons_zero, List.eraseIdx_cons_zero, Bool.not_true]
        simp only [Bool.false_eq_true, if_false]
        congr 1
        subst e
        simp only [List.map_append, List.map_cons, Nat.zero_add]
        rw [subst_cons_eq f r _ x hx]
        have e1 : List.map (subst ((f, r) :: find.zip repl)) l1 = List.map (subst (find.zip repl)) l1 :=
          List.map_congr_left (fun y hy => subst_cons_ne f r _ y (h1 y hy))
        have e2 : List.map (subst ((f, r) :: find.zip repl)) l2 = List.map (subst (find.zip repl)) l2 :=
          List.map_congr_left (fun y hy => subst_cons_ne f r _ y (h2 y hy))
        rw [e1, e2]
        have : l1.length = (List.map (subst (find.zip repl)) l1).length := by simp
        rw [this, List.set_append_right _ _ (Nat.le_refl _)]
        simp

/-! ## the loop of `__iadd__` in the function representation -/

namespace Fmts
theorem toFun_cons (k' : Nat) (p : Point) (rest : Fmts) (k : Nat) :
    toFun ((k', p) :: rest) k = if k' = k then p else if k < k' then {} else toFun rest k := by
  unfold toFun Fmts.getD
  rw [get?_cons]
  by_cases h1 : k' = k
  · simp [h1]
  · by_cases h2 : k < k' <;> simp [h1, h2]

theorem toFun_nil (k : Nat) : toFun [] k = {} := rfl

theorem toFun_of_LB {lo : Nat} {f : Fmts} (h : LB lo f) {k : Nat} (hk : k < lo) : toFun f k = {} :=
  toFun_of_get?_none (get?_of_LB h hk)

theorem toFun_of_UB {hi : Nat} {f : Fmts} (h : UB hi f) {k : Nat} (hk : hi ≤ k) : toFun f k = {} :=
  toFun_of_get?_none (get?_of_UB h hk)
end Fmts

theorem pendFilter_nil (P : Pend) : pendFilter P [] = P := by
  simp [pendFilter, hasId]

/-- pending pairs after the keys `< k` of `g` have been processed -/
def pendAt (g : Nat → Point) (P : Pend) : Nat → Pend
  | 0 => P
  | k + 1 => pendFilter (pendAt g P k) (g k).rem

theorem pendAt_of_empty (g : Nat → Point) (P : Pend) (k : Nat) (h : ∀ j, j < k → (g j).rem = []) :
    pendAt g P k = P := by
  induction k with
  | zero => rfl
  | succ k ih =>
    simp only [pendAt]
    rw [ih (fun j hj => h j (by omega)), h k (by omega), pendFilter_nil]

theorem pendAt_tail (g g' : Nat → Point) (P P' : Pend) (k0 : Nat)
    (hg : ∀ j, k0 ≤ j → g j = g' j) (h0 : pendAt g P k0 = pendAt g' P' k0) (m : Nat) :
    pendAt g P (k0 + m) = pendAt g' P' (k0 + m) := by
  induction m with
  | zero => exact h0
  | succ m ih =>
    show pendFilter (pendAt g P (k0 + m)) (g (k0 + m)).rem = pendFilter (pendAt g' P' (k0 + m)) (g' (k0 + m)).rem
    rw [ih, hg (k0 + m) (by omega)]

theorem zip_map_fst_snd {α β : Type} (l : List (α × β)) : (l.map (·.1)).zip (l.map (·.2)) = l := by
  induction l with
  | nil => rfl
  | cons x l ih => simp [ih]

/-- one step of the loop at a key that is not yet in the table -/
theorem iaddStep_none (n : Nat) (actPrev later : List Setting) (st : IaddSt) (k : Nat) (p : Point)
    (hnone : st.f.get? (k + n) = none) (hlen : st.find.length = st.repl.length)
    (hn : (p.rem.map (·.id)).Nodup) :
    iaddStep n actPrev later st (k, p) =
      { f := st.f.set (k + n) { add := p.add, rem := p.rem.map (subst (st.find.zip st.repl)) },
        find := (pendFilter (st.find.zip st.repl) p.rem).map (·.1),
        repl := (pendFilter (st.find.zip st.repl) p.rem).map (·.2) } := by
  simp only [iaddStep, hnone]
  rw [retarget_eq _ _ _ hlen hn]

theorem iadd_fold_tail (n : Nat) (actPrev later : List Setting) (L : Fmts) :
    ∀ (lo : Nat) (st : IaddSt), SortedKeys L → Fmts.LB lo L →
      (∀ kp ∈ L, (kp.2.rem.map (·.id)).Nodup) →
      SortedKeys st.f → Fmts.UB (lo + n) st.f → st.find.length = st.repl.length →
      SortedKeys (L.foldl (iaddStep n actPrev later) st).f ∧
      (∀ j, j < lo + n → Fmts.toFun (L.foldl (iaddStep n actPrev later) st).f j = Fmts.toFun st.f j) ∧
      (∀ k, lo ≤ k → Fmts.toFun (L.foldl (iaddStep n actPrev later) st).f (k + n) =
        { add := (Fmts.toFun L k).add,
          rem := (Fmts.toFun L k).rem.map (subst (pendAt (Fmts.toFun L) (st.find.zip st.repl) k)) }) ∧
      (∀ kp ∈ (L.foldl (iaddStep n actPrev later) st).f, kp ∈ st.f ∨ ∃ kp' ∈ L, kp.1 = kp'.1 + n) := by
  induction L with
  | nil =>
    intro lo st _ _ _ hs hub _
    refine ⟨hs, fun _ _ => rfl, ?_, fun kp h => Or.inl h⟩
    intro k hk
    simp only [List.foldl_nil, Fmts.toFun_nil, List.map_nil]
    exact Fmts.toFun_of_UB hub (by omega)
  | cons kp L ih =>
    intro lo st hsL hlb hrem hs hub hlen
    obtain ⟨k1, p1⟩ := kp
    have hk1 : lo ≤ k1 := hlb (k1, p1) (by simp)
    have hnone : st.f.get? (k1 + n) = none := Fmts.get?_of_UB hub (by omega)
    obtain ⟨st1, hstep, hf1, hP1, hlen1⟩ : ∃ st1, iaddStep n actPrev later st (k1, p1) = st1 ∧
        st1.f = st.f.set (k1 + n) { add := p1.add, rem := p1.rem.map (subst (st.find.zip st.repl)) } ∧
        st1.find.zip st1.repl = pendFilter (st.find.zip st.repl) p1.rem ∧
        st1.find.length = st1.repl.length := by
      refine ⟨_, iaddStep_none n actPrev later st k1 p1 hnone hlen (hrem (k1, p1) (by simp)), rfl, ?_, ?_⟩
      · exact zip_map_fst_snd _
      · simp
    simp only [List.foldl_cons]
    rw [hstep]
    have hs1 : SortedKeys st1.f := by rw [hf1]; exact Fmts.sorted_set hs _ _
    have hub1 : Fmts.UB (k1 + 1 + n) st1.f := by
      rw [hf1]
      exact Fmts.UB_set (Fmts.UB_mono hub (by omega)) (by omega) _
    have hsL' := Fmts.sorted_tail hsL
    have hlb' : Fmts.LB (k1 + 1) L := Fmts.LB_tail_of_sorted hsL
    obtain ⟨r1, r2, r3, r4⟩ := ih (k1 + 1) st1 hsL' hlb' (fun kp h => hrem kp (by simp [h])) hs1 hub1 hlen1
    refine ⟨r1, ?_, ?_, ?_⟩
    · intro j hj
      rw [r2 j (by omega), hf1, Fmts.toFun_set hs]
      have : ¬ j = k1 + n := by omega
      simp [this]
    · intro k hk
      rw [Fmts.toFun_cons]
      by_cases hk1' : k1 = k
      · subst hk1'
        simp only [if_true]
        rw [r2 (k1 + n) (by omega), hf1, Fmts.toFun_set hs]
        simp only [if_true]
        rw [pendAt_of_empty]
        intro j hj
        rw [Fmts.toFun_cons]
        have h1 : ¬ k1 = j := by omega
        simp [h1, hj]
      · simp only [hk1', if_false]
        by_cases hlt : k < k1
        · simp only [hlt, if_true]
          rw [r2 (k + n) (by omega), hf1, Fmts.toFun_set hs]
          have : ¬ k + n = k1 + n := by omega
          simp only [this, if_false]
          rw [Fmts.toFun_of_UB hub (by omega)]
          rfl
        · simp only [hlt, if_false]
          rw [r3 k (by omega), hP1]
          have e : k = (k1 + 1) + (k - (k1 + 1)) := by omega
          have : pendAt (Fmts.toFun L) (pendFilter (st.find.zip st.repl) p1.rem) k =
              pendAt (Fmts.toFun ((k1, p1) :: L)) (st.find.zip st.repl) k := by
            rw [e]
            apply pendAt_tail
            · intro j hj
              rw [Fmts.toFun_cons]
              have h1 : ¬ k1 = j := by omega
              have h2 : ¬ j < k1 := by omega
              simp [h1, h2]
            · show pendFilter (pendAt (Fmts.toFun L) _ k1) (Fmts.toFun L k1).rem =
                pendFilter (pendAt (Fmts.toFun ((k1, p1) :: L)) _ k1) (Fmts.toFun ((k1, p1) :: L) k1).rem
              rw [Fmts.toFun_of_LB hlb' (by omega : k1 < k1 + 1), pendFilter_nil, pendAt_of_empty,
                pendAt_of_empty, Fmts.toFun_cons]
              · simp
              · intro j hj
                rw [Fmts.toFun_cons]
                have h1 : ¬ k1 = j := by omega
                simp [h1, hj]
              · intro j hj
                rw [Fmts.toFun_of_LB hlb' (by omega : j < k1 + 1)]
          rw [this]
    · intro kp hkp
      rcases r4 kp hkp with h | ⟨kp', h1, h2⟩
      · rw [hf1] at h
        rcases Fmts.mem_set h with e | e
        · right; exact ⟨(k1, p1), by simp, by rw [e]⟩
        · left; exact e
      · right; exact ⟨kp', by simp [h1], h2⟩

/-! ## the seam step -/

/-- the seam-merge test of `__iadd__` (without the `key == shift` conjunct) -/
def mergeCond (actPrev later : List Setting) (mine : Point) (add : List Setting) : Bool :=
  !add.isEmpty && (texts (mine.rem.take add.length) == texts add) &&
    sameRefs (actPrev.filter (fun s => hasId (mine.rem.take add.length) s.id)) (mine.rem.take add.length) &&
    !((mine.rem.take add.length).any (fun s => hasId later s.id))

theorem iaddStep_some (n : Nat) (actPrev later : List Setting) (st : IaddSt) (p mine : Point)
    (hget : st.f.get? (0 + n) = some mine) :
    iaddStep n actPrev later st (0, p) =
      if mergeCond actPrev later mine p.add then
        (if !({ mine with rem := mine.rem.drop p.add.length } : Point).nonEmpty ∧ p.rem.isEmpty then
          { f := st.f.erase (0 + n), find := p.add, repl := mine.rem.take p.add.length }
        else
          { f := st.f.set (0 + n) { add := mine.add, rem := mine.rem.drop p.add.length ++ p.rem },
            find := p.add, repl := mine.rem.take p.add.length })
      else { st with f := st.f.set (0 + n) { add := mine.add ++ p.add, rem := mine.rem ++ p.rem } } := by
  simp only [iaddStep, hget]
  by_cases h : mergeCond actPrev later mine p.add = true
  · have h' := h
    simp only [mergeCond, Bool.and_eq_true] at h'
    obtain ⟨⟨⟨h1, h2⟩, h3⟩, h4⟩ := h'
    rw [if_pos ⟨by omega, h1, h2, h3, h4⟩, if_pos h]
  · have : ¬ (0 + n = n ∧ (!p.add.isEmpty) = true ∧ (texts (mine.rem.take p.add.length) == texts p.add) = true ∧
        sameRefs (actPrev.filter (fun s => hasId (mine.rem.take p.add.length) s.id)) (mine.rem.take p.add.length) = true ∧
        (!((mine.rem.take p.add.length).any (fun s => hasId later s.id))) = true) := by
      rintro ⟨_, h1, h2, h3, h4⟩
      apply h
      simp only [mergeCond, Bool.and_eq_true]
      exact ⟨⟨⟨h1, h2⟩, h3⟩, h4⟩
    rw [if_neg this, if_neg h]

theorem mergeCond_empty (actPrev later add : List Setting) : mergeCond actPrev later {} add = false := by
  cases add with
  | nil => simp [mergeCond]
  | cons x l => simp [mergeCond, texts]

theorem mergeCond_length {actPrev later : List Setting} {mine : Point} {add : List Setting}
    (h : mergeCond actPrev later mine add = true) : (mine.rem.take add.length).length = add.length := by
  simp only [mergeCond, Bool.and_eq_true] at h
  have h2 := h.1.1.2
  have := congrArg List.length (eq_of_beq h2)
  simpa [texts] using this

theorem seam_step (n : Nat) (actPrev later : List Setting) (f0 : Fmts) (p0 : Point)
    (hs : SortedKeys f0) (hub : Fmts.UB (1 + n) f0) (hrem : p0.rem = [])
    (hadd : (Fmts.toFun f0 n).add = []) :
    ∃ st1, iaddStep n actPrev later { f := f0, find := [], repl := [] } (0, p0) = st1 ∧
      SortedKeys st1.f ∧ Fmts.UB (1 + n) st1.f ∧ st1.find.length = st1.repl.length ∧
      (∀ j, j ≠ n → Fmts.toFun st1.f j = Fmts.toFun f0 j) ∧
      (∀ kp ∈ st1.f, kp ∈ f0 ∨ kp.1 = n) ∧
      ((mergeCond actPrev later (Fmts.toFun f0 n) p0.add = true ∧
          Fmts.toFun st1.f n = { add := [], rem := (Fmts.toFun f0 n).rem.drop p0.add.length } ∧
          st1.find = p0.add ∧ st1.repl = (Fmts.toFun f0 n).rem.take p0.add.length) ∨
       (mergeCond actPrev later (Fmts.toFun f0 n) p0.add = false ∧
          Fmts.toFun st1.f n = { add := p0.add, rem := (Fmts.toFun f0 n).rem } ∧
          st1.find = [] ∧ st1.repl = [])) := by
  obtain ⟨add0, rem0⟩ := p0
  simp only at hrem
  subst hrem
  cases hget : f0.get? (0 + n) with
  | none =>
    have hget' : f0.get? n = none := by simpa using hget
    have hA : Fmts.toFun f0 n = {} := Fmts.toFun_of_get?_none hget'
    refine ⟨_, iaddStep_none n actPrev later _ 0 _ hget rfl (by simp), ?_, ?_, rfl, ?_, ?_, ?_⟩
    · exact Fmts.sorted_set hs _ _
    · exact Fmts.UB_set hub (by omega) _
    · intro j hj
      simp only [Nat.zero_add]
      rw [Fmts.toFun_set hs]; simp [hj]
    · intro kp hkp
      rcases Fmts.mem_set hkp with e | e
      · right; rw [e]; simp
      · left; exact e
    · right
      refine ⟨by rw [hA]; exact mergeCond_empty _ _ _, ?_, rfl, rfl⟩
      simp only [Nat.zero_add]
      rw [Fmts.toFun_set hs, hA]; simp
  | some mine =>
    have hget' : f0.get? n = some mine := by simpa using hget
    have hA : Fmts.toFun f0 n = mine := Fmts.toFun_of_get?_some hget'
    rw [hA] at hadd ⊢
    refine ⟨_, iaddStep_some n actPrev later _ _ mine hget, ?_⟩
    simp only [Nat.zero_add]
    by_cases hm : mergeCond actPrev later mine add0 = true
    · rw [if_pos hm]
      split
      · rename_i hc
        refine ⟨Fmts.sorted_erase hs _, Fmts.UB_erase hub _, (mergeCond_length hm).symm, ?_, ?_, ?_⟩
        · intro j hj; rw [Fmts.toFun_erase hs]; simp [hj]
        · intro kp hkp; left; exact Fmts.mem_erase hkp
        · left
          refine ⟨hm, ?_, rfl, rfl⟩
          rw [Fmts.toFun_erase hs]
          simp only [if_true]
          have h1 := hc.1
          simp only [Point.nonEmpty, hadd] at h1
          have : mine.rem.drop add0.length = [] := by simpa using h1
          rw [this]
      · refine ⟨Fmts.sorted_set hs _ _, Fmts.UB_set hub (by omega) _, (mergeCond_length hm).symm, ?_, ?_, ?_⟩
        · intro j hj; rw [Fmts.toFun_set hs]; simp [hj]
        · intro kp hkp
          rcases Fmts.mem_set hkp with e | e
          · right; rw [e]
          · left; exact e
        · left
          refine ⟨hm, ?_, rfl, rfl⟩
          rw [Fmts.toFun_set hs]
          simp [hadd]
    · have hm' : mergeCond actPrev later mine add0 = false := by simpa using hm
      rw [if_neg hm]
      refine ⟨Fmts.sorted_set hs _ _, Fmts.UB_set hub (by omega) _, rfl, ?_, ?_, ?_⟩
      · intro j hj; rw [Fmts.toFun_set hs]; simp [hj]
      · intro kp hkp
        rcases Fmts.mem_set hkp with e | e
        · right; rw [e]
        · left; exact e
      · right
        refine ⟨hm', ?_, rfl, rfl⟩
        rw [Fmts.toFun_set hs]
        simp [hadd]

/-! ## characterisation of `AStr.iadd` -/

/-- `self.ansi_settings_at(shift - 1)` -/
def seamPrev (a : AStr) : List Setting := if a.len = 0 then [] else active a.fmts (a.len - 1)

/-- start markers of `b` at keys other than 0 -/
def laterAdds (b : AStr) : List Setting :=
  (b.fmts.filter (fun kp => kp.1 != 0)).flatMap (fun kp => kp.2.add)

theorem iadd_fmts (a b : AStr) :
    (a.iadd b).fmts =
      (b.fmts.foldl (iaddStep a.len (seamPrev a) (laterAdds b)) { f := a.fmts, find := [], repl := [] }).f := by
  have : ({ a with s := a.s ++ b.s } : AStr).ansiSettingsAt ((a.len : Int) - 1) = seamPrev a := by
    unfold AStr.ansiSettingsAt seamPrev
    by_cases h : a.len = 0
    · simp [h]
    · have h1 : (0 : Int) ≤ (a.len : Int) - 1 := by omega
      have h2 : (a.len : Int) - 1 < (({ a with s := a.s ++ b.s } : AStr).len : Int) := by
        simp only [AStr.len, List.length_append]; omega
      have h3 : ((a.len : Int) - 1).toNat = a.len - 1 := by omega
      rw [if_pos ⟨h1, h2⟩, if_neg h, h3]
  unfold AStr.iadd
  simp only [this, laterAdds]

theorem iadd_char (a b : AStr) (hsa : SortedKeys a.fmts) (hba : ∀ kp ∈ a.fmts, kp.1 ≤ a.len)
    (hAn : (Fmts.toFun a.fmts a.len).add = []) (hsb : SortedKeys b.fmts)
    (hremb : ∀ kp ∈ b.fmts, (kp.2.rem.map (·.id)).Nodup) (hB0 : (Fmts.toFun b.fmts 0).rem = []) :
    ∃ P0 : Pend,
      SortedKeys (a.iadd b).fmts ∧
      (∀ j, j < a.len → Fmts.toFun (a.iadd b).fmts j = Fmts.toFun a.fmts j) ∧
      (∀ k, 1 ≤ k → Fmts.toFun (a.iadd b).fmts (k + a.len) =
        { add := (Fmts.toFun b.fmts k).add,
          rem := (Fmts.toFun b.fmts k).rem.map (subst (pendAt (Fmts.toFun b.fmts) P0 k)) }) ∧
      (∀ kp ∈ (a.iadd b).fmts, kp ∈ a.fmts ∨ ∃ kp' ∈ b.fmts, kp.1 = kp'.1 + a.len) ∧
      ((mergeCond (seamPrev a) (laterAdds b) (Fmts.toFun a.fmts a.len) (Fmts.toFun b.fmts 0).add = true ∧
          Fmts.toFun (a.iadd b).fmts a.len =
            { add := [], rem := (Fmts.toFun a.fmts a.len).rem.drop (Fmts.toFun b.fmts 0).add.length } ∧
          P0 = (Fmts.toFun b.fmts 0).add.zip
            ((Fmts.toFun a.fmts a.len).rem.take (Fmts.toFun b.fmts 0).add.length)) ∨
       (mergeCond (seamPrev a) (laterAdds b) (Fmts.toFun a.fmts a.len) (Fmts.toFun b.fmts 0).add = false ∧
          Fmts.toFun (a.iadd b).fmts a.len =
            { add := (Fmts.toFun b.fmts 0).add, rem := (Fmts.toFun a.fmts a.len).rem } ∧
          P0 = [])) := by
  rw [iadd_fmts]
  have hub : Fmts.UB (1 + a.len) a.fmts := fun kp h => by have := hba kp h; omega
  by_cases hlb : Fmts.LB 1 b.fmts
  · -- no point of `b` at key 0
    obtain ⟨r1, r2, r3, r4⟩ := iadd_fold_tail a.len (seamPrev a) (laterAdds b) b.fmts 1
      { f := a.fmts, find := [], repl := [] } hsb hlb hremb hsa hub rfl
    have hB : Fmts.toFun b.fmts 0 = {} := Fmts.toFun_of_LB hlb (by omega)
    refine ⟨[], r1, fun j hj => r2 j (by omega), r3, r4, Or.inr ⟨?_, ?_, rfl⟩⟩
    · rw [hB]; simp [mergeCond]
    · rw [r2 a.len (by omega), hB]
      show Fmts.toFun a.fmts a.len = { add := [], rem := (Fmts.toFun a.fmts a.len).rem }
      rw [← hAn]
  cases hb : b.fmts with
  | nil =>
    exfalso; apply hlb; rw [hb]; intro _ h; cases h
  | cons kp rest =>
    obtain ⟨k0, p0⟩ := kp
    rw [hb] at hsb hremb hB0 hlb
    by_cases hk0 : 1 ≤ k0
    · exfalso; apply hlb
      intro x hx
      rcases List.mem_cons.mp hx with e | e
      · rw [e]; exact hk0
      · have := Fmts.sorted_head_lt hsb x e; simp at this; omega
    · have hk0' : k0 = 0 := by omega
      subst hk0'
      have hB : Fmts.toFun ((0, p0) :: rest) 0 = p0 := by rw [Fmts.toFun_cons]; simp
      rw [hB] at hB0 ⊢
      obtain ⟨st1, hst, s1, s2, s3, s4, s5, s6⟩ :=
        seam_step a.len (seamPrev a) (laterAdds b) a.fmts p0 hsa hub hB0 hAn
      simp only [List.foldl_cons]
      rw [hst]
      have hlb' : Fmts.LB 1 rest := Fmts.LB_tail_of_sorted hsb
      obtain ⟨r1, r2, r3, r4⟩ := iadd_fold_tail a.len (seamPrev a) (laterAdds b) rest 1 st1
        (Fmts.sorted_tail hsb) hlb' (fun kp h => hremb kp (by simp [h])) s1 s2 s3
      refine ⟨st1.find.zip st1.repl, r1, ?_, ?_, ?_, ?_⟩
      · intro j hj
        rw [r2 j (by omega), s4 j (by omega)]
      · intro k hk
        rw [r3 k hk, Fmts.toFun_cons]
        have h1 : ¬ 0 = k := by omega
        have h2 : ¬ k < 0 := by omega
        simp only [h1, h2, if_false]
        have e : k = 1 + (k - 1) := by omega
        have : pendAt (Fmts.toFun rest) (st1.find.zip st1.repl) k =
            pendAt (Fmts.toFun ((0, p0) :: rest)) (st1.find.zip st1.repl) k := by
          rw [e]
          apply pendAt_tail
          · intro j hj
            rw [Fmts.toFun_cons]
            have h1 : ¬ 0 = j := by omega
            have h2 : ¬ j < 0 := by omega
            simp [h1, h2]
          · show pendFilter _ (Fmts.toFun rest 0).rem = pendFilter _ (Fmts.toFun ((0, p0) :: rest) 0).rem
            rw [hB, hB0, Fmts.toFun_of_LB hlb' (by omega : 0 < 1)]
            rfl
        rw [this]
      · intro kp hkp
        rcases r4 kp hkp with h | ⟨kp', h1, h2⟩
        · rcases s5 kp h with h' | h'
          · left; exact h'
          · right; exact ⟨(0, p0), by simp, by simp [h']⟩
        · right; exact ⟨kp', by simp [h1], h2⟩
      · rw [r2 a.len (by omega)]
        rcases s6 with ⟨m1, m2, m3, m4⟩ | ⟨m1, m2, m3, m4⟩
        · left; exact ⟨m1, m2, by rw [m3, m4]⟩
        · right; exact ⟨m1, m2, by rw [m3, m4]; rfl⟩

/-! ## erasing under an identity-compatible relabelling -/

abbrev ids (l : List Setting) : List Nat := l.map (·.id)

theorem hasId_iff {l : List Setting} {i : Nat} : hasId l i = true ↔ ∃ x ∈ l, x.id = i := by
  simp [hasId]

theorem hasId_false_iff {l : List Setting} {i : Nat} : hasId l i = false ↔ ∀ x ∈ l, x.id ≠ i := by
  simp [hasId]

theorem subst_id_congr (Q : Pend) {y r : Setting} (h : y.id = r.id) : (subst Q y).id = (subst Q r).id := by
  unfold subst
  rw [h]
  cases List.find? (fun p => p.1.id == r.id) Q with
  | none => exact h
  | some p => rfl

theorem subst_of_not_mem (Q : Pend) (t : Setting) (h : ∀ p ∈ Q, p.1.id ≠ t.id) : subst Q t = t := by
  unfold subst
  have : List.find? (fun p => p.1.id == t.id) Q = none := by
    rw [List.find?_eq_none]
    intro p hp; simpa using h p hp
  rw [this]

theorem subst_cases (Q : Pend) (y : Setting) :
    subst Q y = y ∨ ∃ p ∈ Q, p.1.id = y.id ∧ subst Q y = p.2 := by
  unfold subst
  cases h : List.find? (fun p => p.1.id == y.id) Q with
  | none => left; rfl
  | some p =>
    right
    refine ⟨p, List.mem_of_find?_eq_some h, ?_, rfl⟩
    simpa using List.find?_some h

theorem subst_pendFilter (Q : Pend) (rem : List Setting) (y : Setting) (h : hasId rem y.id = false) :
    subst (pendFilter Q rem) y = subst Q y := by
  induction Q with
  | nil => rfl
  | cons fr Q ih =>
    obtain ⟨f, r⟩ := fr
    unfold pendFilter at ih ⊢
    rw [List.filter_cons]
    by_cases hk : hasId rem f.id = true
    · have hne : y.id ≠ f.id := by
        intro e; rw [e] at h; rw [h] at hk; cases hk
      simp only [hk, Bool.not_true, Bool.false_eq_true, if_false]
      rw [subst_cons_ne f r Q y hne, ih]
    · have hk' : hasId rem f.id = false := by simpa using hk
      simp only [hk', Bool.not_false, if_true]
      by_cases he : y.id = f.id
      · rw [subst_cons_eq _ _ _ _ he, subst_cons_eq _ _ _ _ he]
      · rw [subst_cons_ne _ _ _ _ he, subst_cons_ne _ _ _ _ he, ih]

theorem mem_pendFilter {Q : Pend} {rem : List Setting} {p : Setting × Setting} :
    p ∈ pendFilter Q rem ↔ p ∈ Q ∧ hasId rem p.1.id = false := by
  simp [pendFilter, List.mem_filter]

theorem eraseId_cons (y : Setting) (Y : List Setting) (i : Nat) :
    eraseId (y :: Y) i = if y.id = i then Y else y :: eraseId Y i := by
  unfold eraseId
  rw [List.eraseP_cons]
  by_cases h : y.id = i
  · simp [h]
  · have : (y.id == i) = false := by simpa using h
    simp [h, this]

theorem eraseId_sublist (Y : List Setting) (i : Nat) : (eraseId Y i).Sublist Y := List.eraseP_sublist

theorem mem_eraseId_ne {Y : List Setting} (hn : (ids Y).Nodup) {i : Nat} {y : Setting}
    (hy : y ∈ eraseId Y i) : y.id ≠ i := by
  induction Y with
  | nil => simp [eraseId] at hy
  | cons y0 Y ih =>
    have hn' := List.nodup_cons.mp hn
    rw [eraseId_cons] at hy
    by_cases h0 : y0.id = i
    · simp only [h0, if_true] at hy
      intro e
      exact hn'.1 (List.mem_map.mpr ⟨y, hy, by show y.id = y0.id; rw [e, h0]⟩)
    · simp only [h0, if_false] at hy
      rcases List.mem_cons.mp hy with e | e
      · rw [e]; exact h0
      · exact ih hn'.2 e

theorem mem_eraseId_of_ne {Y : List Setting} {i : Nat} {y : Setting} (hy : y ∈ Y) (hne : y.id ≠ i) :
    y ∈ eraseId Y i := by
  induction Y with
  | nil => cases hy
  | cons y0 Y ih =>
    rw [eraseId_cons]
    by_cases h0 : y0.id = i
    · simp only [h0, if_true]
      rcases List.mem_cons.mp hy with e | e
      · subst e; exact absurd h0 hne
      · exact e
    · simp only [h0, if_false]
      rcases List.mem_cons.mp hy with e | e
      · simp [e]
      · exact List.mem_cons_of_mem _ (ih e)

/-- erasing commutes with an identity-compatible relabelling when the relabelled ids are distinct -/
theorem eraseId_map (σ : Setting → Setting) (r : Setting) (Y : List Setting)
    (hσ : ∀ y, y.id = r.id → (σ y).id = (σ r).id)
    (hn : (ids (Y.map σ)).Nodup) (hh : hasId Y r.id = true) :
    eraseId (Y.map σ) (σ r).id = (eraseId Y r.id).map σ := by
  induction Y with
  | nil => simp [hasId] at hh
  | cons y0 Y ih =>
    have hn' : (σ y0).id ∉ ids (Y.map σ) ∧ (ids (Y.map σ)).Nodup := by
      simpa [ids] using hn
    rw [List.map_cons, eraseId_cons, eraseId_cons]
    by_cases h0 : y0.id = r.id
    · simp [h0, hσ y0 h0]
    · have hh' : hasId Y r.id = true := by
        rcases hasId_iff.mp hh with ⟨x, hx, hxi⟩
        rcases List.mem_cons.mp hx with e | e
        · subst e; exact absurd hxi h0
        · exact hasId_iff.mpr ⟨x, e, hxi⟩
      have h1 : ¬ (σ y0).id = (σ r).id := by
        intro e
        rcases hasId_iff.mp hh' with ⟨x, hx, hxi⟩
        apply hn'.1
        refine List.mem_map.mpr ⟨σ x, List.mem_map.mpr ⟨x, hx, rfl⟩, ?_⟩
        rw [e, hσ x hxi]
      simp only [h0, h1, if_false, List.map_cons]
      rw [ih hn'.2 hh']

theorem stepOk_cons (cur : List Setting) (s : Setting) (rest : List Setting) :
    stepOk cur (s :: rest) = (hasId cur s.id && stepOk (eraseId cur s.id) rest) := rfl

/-- the stop markers of one point: erase loop under relabelling -/
theorem foldl_eraseId_map (σ : Setting → Setting) (hσ : ∀ y r : Setting, y.id = r.id → (σ y).id = (σ r).id)
    (rem : List Setting) : ∀ (Y : List Setting), (ids (Y.map σ)).Nodup → stepOk Y rem = true →
      (rem.map σ).foldl (fun c s => eraseId c s.id) (Y.map σ) =
        (rem.foldl (fun c s => eraseId c s.id) Y).map σ ∧
      stepOk (Y.map σ) (rem.map σ) = true := by
  induction rem with
  | nil => intro Y _ _; exact ⟨rfl, rfl⟩
  | cons r rem ih =>
    intro Y hn hok
    rw [stepOk_cons, Bool.and_eq_true] at hok
    have e := eraseId_map σ r Y (fun y h => hσ y r h) hn hok.1
    have hn' : (ids ((eraseId Y r.id).map σ)).Nodup :=
      List.Nodup.sublist (((eraseId_sublist Y r.id).map σ).map _) hn
    obtain ⟨i1, i2⟩ := ih (eraseId Y r.id) hn' hok.2
    refine ⟨?_, ?_⟩
    · simp only [List.map_cons, List.foldl_cons]
      rw [e, i1]
    · rw [List.map_cons, stepOk_cons, Bool.and_eq_true, e]
      refine ⟨?_, i2⟩
      rcases hasId_iff.mp hok.1 with ⟨x, hx, hxi⟩
      exact hasId_iff.mpr ⟨σ x, List.mem_map.mpr ⟨x, hx, rfl⟩, hσ x r hxi⟩

theorem foldl_eraseId_sublist (rem : List Setting) (Y : List Setting) :
    (rem.foldl (fun c s => eraseId c s.id) Y).Sublist Y := by
  induction rem generalizing Y with
  | nil => exact List.Sublist.refl _
  | cons r rem ih => exact (ih _).trans (eraseId_sublist Y r.id)

theorem mem_foldl_eraseId {rem Y : List Setting} (hn : (ids Y).Nodup) {y : Setting}
    (hy : y ∈ rem.foldl (fun c s => eraseId c s.id) Y) : y ∈ Y ∧ hasId rem y.id = false := by
  induction rem generalizing Y with
  | nil => exact ⟨hy, rfl⟩
  | cons r rem ih =>
    simp only [List.foldl_cons] at hy
    have hn' : (ids (eraseId Y r.id)).Nodup := List.Nodup.sublist ((eraseId_sublist Y r.id).map _) hn
    obtain ⟨h1, h2⟩ := ih hn' hy
    refine ⟨(eraseId_sublist Y r.id).subset h1, ?_⟩
    have := mem_eraseId_ne hn h1
    rw [hasId_false_iff] at h2 ⊢
    intro x hx
    rcases List.mem_cons.mp hx with e | e
    · rw [e]; exact fun e' => this e'.symm
    · exact h2 x e

theorem mem_foldl_eraseId_of {rem Y : List Setting} {y : Setting} (hy : y ∈ Y)
    (hne : hasId rem y.id = false) : y ∈ rem.foldl (fun c s => eraseId c s.id) Y := by
  induction rem generalizing Y with
  | nil => exact hy
  | cons r rem ih =>
    simp only [List.foldl_cons]
    rw [hasId_false_iff] at hne
    apply ih
    · exact mem_eraseId_of_ne hy (fun e => hne r (by simp) e.symm)
    · rw [hasId_false_iff]; exact fun x hx => hne x (by simp [hx])

theorem stepPoint_def (cur : List Setting) (p : Point) :
    stepPoint cur p = (p.rem.foldl (fun c s => eraseId c s.id) cur) ++ p.add := rfl

/-- one change point of `b` against the re-targeted change point of `a.iadd b` -/
theorem step_rel (Q : Pend) (Y add rem : List Setting)
    (hYn : (ids Y).Nodup)
    (hY' : (ids (stepPoint Y ⟨add, rem⟩)).Nodup)
    (hok : stepOk Y rem = true)
    (hXn : (ids (Y.map (subst Q))).Nodup)
    (hact : ∀ p ∈ Q, hasId Y p.1.id = true)
    (hadd : ∀ p ∈ Q, ∀ t ∈ add, p.2.id ≠ t.id) :
    stepPoint (Y.map (subst Q)) ⟨add, rem.map (subst Q)⟩ =
        (stepPoint Y ⟨add, rem⟩).map (subst (pendFilter Q rem)) ∧
      (ids ((stepPoint Y ⟨add, rem⟩).map (subst (pendFilter Q rem)))).Nodup ∧
      (∀ p ∈ pendFilter Q rem, hasId (stepPoint Y ⟨add, rem⟩) p.1.id = true) ∧
      stepOk (Y.map (subst Q)) (rem.map (subst Q)) = true := by
  obtain ⟨e1, e2⟩ := foldl_eraseId_map (subst Q) (fun y r h => subst_id_congr Q h) rem Y hXn hok
  simp only [stepPoint_def] at hY' ⊢
  rw [e1]
  generalize hY2 : rem.foldl (fun c s => eraseId c s.id) Y = Y2 at hY' ⊢
  have hmem : ∀ y ∈ Y2, y ∈ Y ∧ hasId rem y.id = false := by
    intro y hy; rw [← hY2] at hy; exact mem_foldl_eraseId hYn hy
  have hY'' : (ids Y2).Nodup ∧ (ids add).Nodup ∧ ∀ a ∈ ids Y2, ∀ b ∈ ids add, a ≠ b := by
    have := hY'
    simp only [ids, List.map_append] at this
    exact List.nodup_append.mp this
  -- pending pairs stay active
  have hact' : ∀ p ∈ pendFilter Q rem, ∃ x ∈ Y2, x.id = p.1.id := by
    intro p hp
    obtain ⟨hpQ, hpr⟩ := mem_pendFilter.mp hp
    obtain ⟨x, hx, hxi⟩ := hasId_iff.mp (hact p hpQ)
    refine ⟨x, ?_, hxi⟩
    rw [← hY2]
    exact mem_foldl_eraseId_of hx (by rw [hxi]; exact hpr)
  have hm1 : Y2.map (subst Q) = Y2.map (subst (pendFilter Q rem)) :=
    List.map_congr_left (fun y hy => (subst_pendFilter Q rem y (hmem y hy).2).symm)
  have hm2 : add.map (subst (pendFilter Q rem)) = add := by
    have : ∀ t ∈ add, subst (pendFilter Q rem) t = t := by
      intro t ht
      apply subst_of_not_mem
      intro p hp e
      obtain ⟨x, hx, hxi⟩ := hact' p hp
      exact hY''.2.2 x.id (List.mem_map.mpr ⟨x, hx, rfl⟩) t.id (List.mem_map.mpr ⟨t, ht, rfl⟩)
        (by rw [hxi, e])
    rw [List.map_congr_left this]; simp
  have hfinal : (Y2 ++ add).map (subst (pendFilter Q rem)) = Y2.map (subst Q) ++ add := by
    rw [List.map_append, hm2, hm1]
  refine ⟨hfinal.symm, ?_, ?_, e2⟩
  · rw [hfinal]
    simp only [ids, List.map_append]
    refine List.nodup_append.mpr ⟨?_, hY''.2.1, ?_⟩
    · have hsub : Y2.Sublist Y := by rw [← hY2]; exact foldl_eraseId_sublist rem Y
      exact List.Nodup.sublist ((hsub.map _).map _) hXn
    · intro i hi j hj e
      obtain ⟨x, hx, rfl⟩ := List.mem_map.mp hi
      obtain ⟨t, ht, rfl⟩ := List.mem_map.mp hj
      obtain ⟨y, hy, rfl⟩ := List.mem_map.mp hx
      rcases subst_cases Q y with h | ⟨p, hp, _, h⟩
      · rw [h] at e
        exact hY''.2.2 y.id (List.mem_map.mpr ⟨y, hy, rfl⟩) t.id (List.mem_map.mpr ⟨t, ht, rfl⟩) e
      · rw [h] at e
        exact hadd p hp t ht e
  · intro p hp
    obtain ⟨x, hx, hxi⟩ := hact' p hp
    exact hasId_iff.mpr ⟨x, List.mem_append_left _ hx, hxi⟩

/-! ## `replayOk` in the function representation -/

theorem stepOk_nil (cur : List Setting) : stepOk cur [] = true := by
  cases cur <;> rfl

/-- `replayOk` in the function representation -/
def okFrom (g : Nat → Point) (cur : List Setting) (lo : Nat) : Nat → Bool
  | 0 => true
  | m + 1 => stepOk cur (g lo).rem && okFrom g (stepPoint cur (g lo)) (lo + 1) m

theorem okFrom_congr {g g' : Nat → Point} {lo : Nat} (m : Nat) (cur : List Setting)
    (h : ∀ k, lo ≤ k → k < lo + m → g k = g' k) : okFrom g cur lo m = okFrom g' cur lo m := by
  induction m generalizing cur lo with
  | zero => rfl
  | succ m ih =>
    simp only [okFrom]
    rw [h lo (Nat.le_refl _) (by omega)]
    rw [ih _ (fun k h1 h2 => h k (by omega) (by omega))]

theorem okFrom_add (g : Nat → Point) (cur : List Setting) (lo m1 m2 : Nat) :
    okFrom g cur lo (m1 + m2) = (okFrom g cur lo m1 && okFrom g (runFrom g cur lo m1) (lo + m1) m2) := by
  induction m1 generalizing cur lo with
  | zero => simp [okFrom, runFrom]
  | succ m1 ih =>
    have : m1 + 1 + m2 = (m1 + m2) + 1 := by omega
    rw [this]
    simp only [okFrom, runFrom]
    rw [ih, Bool.and_assoc]
    congr 3
    omega

theorem okFrom_skip (g : Nat → Point) (cur : List Setting) (lo m : Nat)
    (h : ∀ k, lo ≤ k → k < lo + m → g k = {}) : okFrom g cur lo m = true ∧ runFrom g cur lo m = cur := by
  induction m generalizing lo with
  | zero => exact ⟨rfl, rfl⟩
  | succ m ih =>
    simp only [okFrom, runFrom]
    rw [h lo (Nat.le_refl _) (by omega), stepPoint_empty]
    have := ih (lo + 1) (fun k h1 h2 => h k (by omega) (by omega))
    simp [this, stepOk_nil]

theorem replayOkFrom_eq_okFrom (f : Fmts) (hs : SortedKeys f) (lo : Nat) (hlb : Fmts.LB lo f)
    (cur : List Setting) (m : Nat) (hub : Fmts.UB (lo + m) f) :
    replayOkFrom cur f = okFrom (Fmts.toFun f) cur lo m := by
  induction f generalizing cur lo m with
  | nil =>
    have := okFrom_skip (Fmts.toFun []) cur lo m (fun _ _ _ => rfl)
    simp [replayOkFrom, this.1]
  | cons kp rest ih =>
    obtain ⟨k, p⟩ := kp
    have hk : lo ≤ k := hlb (k, p) (by simp)
    have hk2 : k < lo + m := hub (k, p) (by simp)
    have hrest : SortedKeys rest := Fmts.sorted_tail hs
    have hlb' : Fmts.LB (k + 1) rest := Fmts.LB_tail_of_sorted hs
    have e1 : m = (k - lo) + (1 + (m - (k - lo) - 1)) := by omega
    have hskip := okFrom_skip (Fmts.toFun ((k, p) :: rest)) cur lo (k - lo) (by
      intro j h1 h2
      rw [Fmts.toFun_cons]
      have h3 : ¬ k = j := by omega
      have h4 : j < k := by omega
      simp [h3, h4])
    rw [e1, okFrom_add, hskip.1, hskip.2, Bool.true_and, okFrom_add]
    have e2 : lo + (k - lo) = k := by omega
    rw [e2]
    simp only [okFrom, runFrom, Bool.and_true]
    have hhead : Fmts.toFun ((k, p) :: rest) k = p := by rw [Fmts.toFun_cons]; simp
    rw [hhead]
    simp only [replayOkFrom]
    congr 1
    rw [ih hrest (k + 1) hlb' (stepPoint cur p) (m - (k - lo) - 1)
      (fun x hx => by have := hub x (List.mem_cons_of_mem _ hx); omega)]
    apply okFrom_congr
    intro j hj1 hj2
    rw [Fmts.toFun_cons]
    have h1 : ¬ k = j := by omega
    have h2 : ¬ j < k := by omega
    simp [h1, h2]

theorem okFrom_iff (g : Nat → Point) (cur : List Setting) (lo m : Nat) :
    okFrom g cur lo m = true ↔ ∀ j, j < m → stepOk (runFrom g cur lo j) (g (lo + j)).rem = true := by
  induction m generalizing cur lo with
  | zero => simp [okFrom]
  | succ m ih =>
    simp only [okFrom, Bool.and_eq_true, ih]
    constructor
    · rintro ⟨h0, h1⟩ j hj
      cases j with
      | zero => simpa [runFrom] using h0
      | succ j =>
        have := h1 j (by omega)
        simp only [runFrom]
        have e : lo + (j + 1) = lo + 1 + j := by omega
        rw [e]; exact this
    · intro h
      refine ⟨by simpa [runFrom] using h 0 (by omega), ?_⟩
      intro j hj
      have := h (j + 1) (by omega)
      simp only [runFrom] at this
      have e : lo + (j + 1) = lo + 1 + j := by omega
      rw [e] at this; exact this

/-- the settings active just before key `k` -/
def prevAct (g : Nat → Point) (k : Nat) : List Setting := runFrom g [] 0 k

theorem prevAct_zero (g : Nat → Point) : prevAct g 0 = [] := rfl

theorem prevAct_succ (g : Nat → Point) (k : Nat) : prevAct g (k + 1) = stepPoint (prevAct g k) (g k) := by
  unfold prevAct
  rw [runFrom_add g [] 0 k 1]
  simp [runFrom]

theorem prevAct_succ_eq_activeFn (g : Nat → Point) (k : Nat) : prevAct g (k + 1) = activeFn g k := rfl

theorem replayOk_iff (f : Fmts) (hs : SortedKeys f) (m : Nat) (hub : Fmts.UB m f) :
    replayOk f = true ↔ ∀ j, j < m → stepOk (prevAct (Fmts.toFun f) j) (Fmts.toFun f j).rem = true := by
  unfold replayOk
  rw [replayOkFrom_eq_okFrom f hs 0 (fun _ _ => Nat.zero_le _) [] m (by simpa using hub), okFrom_iff]
  simp [prevAct]

/-! ## settings membership, `stepOk` facts, pointwise consequences of `WF` -/

theorem mem_settings_of_toFun {f : Fmts} {k : Nat} {s : Setting}
    (h : s ∈ (Fmts.toFun f k).add ∨ s ∈ (Fmts.toFun f k).rem) : s ∈ f.settings := by
  cases hg : f.get? k with
  | none =>
    rw [Fmts.toFun_of_get?_none hg] at h
    simp at h
  | some p =>
    rw [Fmts.toFun_of_get?_some hg] at h
    unfold Fmts.settings
    rw [List.mem_flatMap]
    exact ⟨(k, p), Fmts.mem_of_get?_eq_some hg, by simpa using h⟩

theorem toFun_of_mem_settings {f : Fmts} (hs : SortedKeys f) {s : Setting} (h : s ∈ f.settings) :
    ∃ k, (k, Fmts.toFun f k) ∈ f ∧ (s ∈ (Fmts.toFun f k).add ∨ s ∈ (Fmts.toFun f k).rem) := by
  unfold Fmts.settings at h
  rw [List.mem_flatMap] at h
  obtain ⟨⟨k, p⟩, hm, hs'⟩ := h
  have := Fmts.toFun_of_get?_some (Fmts.get?_eq_some_of_mem hs hm)
  refine ⟨k, by rw [this]; exact hm, ?_⟩
  rw [this]; simpa using hs'

theorem toFun_mem_of_ne {f : Fmts} {k : Nat} (h : Fmts.toFun f k ≠ {}) : (k, Fmts.toFun f k) ∈ f := by
  cases hg : f.get? k with
  | none => exact absurd (Fmts.toFun_of_get?_none hg) h
  | some p =>
    rw [Fmts.toFun_of_get?_some hg]
    exact Fmts.mem_of_get?_eq_some hg

theorem mem_stepPoint {cur : List Setting} {p : Point} {y : Setting} (h : y ∈ stepPoint cur p) :
    y ∈ cur ∨ y ∈ p.add := by
  rw [stepPoint_def] at h
  rcases List.mem_append.mp h with h | h
  · left; exact (foldl_eraseId_sublist _ _).subset h
  · right; exact h

theorem mem_prevAct {g : Nat → Point} {k : Nat} {y : Setting} (h : y ∈ prevAct g k) :
    ∃ j, j < k ∧ y ∈ (g j).add := by
  induction k with
  | zero => simp [prevAct_zero] at h
  | succ k ih =>
    rw [prevAct_succ] at h
    rcases mem_stepPoint h with h | h
    · obtain ⟨j, hj, hy⟩ := ih h
      exact ⟨j, by omega, hy⟩
    · exact ⟨k, by omega, h⟩

theorem mem_laterAdds {b : AStr} {k : Nat} {t : Setting} (hk : k ≠ 0)
    (ht : t ∈ (Fmts.toFun b.fmts k).add) : t ∈ laterAdds b := by
  have hne : Fmts.toFun b.fmts k ≠ {} := by
    intro e; rw [e] at ht; simp at ht
  unfold laterAdds
  rw [List.mem_flatMap]
  refine ⟨(k, Fmts.toFun b.fmts k), ?_, ht⟩
  rw [List.mem_filter]
  exact ⟨toFun_mem_of_ne hne, by simpa using hk⟩

theorem stepOk_mem {cur rem : List Setting} (h : stepOk cur rem = true) {r : Setting} (hr : r ∈ rem) :
    hasId cur r.id = true := by
  induction rem generalizing cur with
  | nil => cases hr
  | cons r0 rest ih =>
    rw [stepOk_cons, Bool.and_eq_true] at h
    rcases List.mem_cons.mp hr with e | e
    · rw [e]; exact h.1
    · obtain ⟨x, hx, hxi⟩ := hasId_iff.mp (ih h.2 e)
      exact hasId_iff.mpr ⟨x, (eraseId_sublist _ _).subset hx, hxi⟩

theorem stepOk_nodup {cur rem : List Setting} (h : stepOk cur rem = true) (hn : (ids cur).Nodup) :
    (ids rem).Nodup := by
  induction rem generalizing cur with
  | nil => simp [ids]
  | cons r0 rest ih =>
    rw [stepOk_cons, Bool.and_eq_true] at h
    have hn' : (ids (eraseId cur r0.id)).Nodup := List.Nodup.sublist ((eraseId_sublist _ _).map _) hn
    simp only [ids, List.map_cons, List.nodup_cons]
    refine ⟨?_, ih h.2 hn'⟩
    intro hm
    obtain ⟨r', hr', e⟩ := List.mem_map.mp hm
    obtain ⟨x, hx, hxi⟩ := hasId_iff.mp (stepOk_mem h.2 hr')
    exact mem_eraseId_ne hn hx (by rw [hxi]; exact e)

theorem stepOk_nil_cur {rem : List Setting} (h : stepOk [] rem = true) : rem = [] := by
  cases rem with
  | nil => rfl
  | cons r rest => simp [stepOk_cons, hasId] at h

/-! ### pointwise consequences of `WF` -/

theorem wf_UB {x : AStr} (h : WF x) : Fmts.UB (x.len + 1) x.fmts :=
  fun kp hkp => by have := h.bound kp hkp; omega

theorem wf_act {x : AStr} (h : WF x) (i : Nat) : active x.fmts i = prevAct (Fmts.toFun x.fmts) (i + 1) :=
  active_eq_activeFn x.fmts h.sorted i

theorem wf_ok_at {x : AStr} (h : WF x) (j : Nat) :
    stepOk (prevAct (Fmts.toFun x.fmts) j) (Fmts.toFun x.fmts j).rem = true := by
  have := (replayOk_iff x.fmts h.sorted (x.len + 1 + j) (Fmts.UB_mono (wf_UB h) (by omega))).mp h.ok
  exact this j (by omega)

theorem wf_nodup_prev {x : AStr} (h : WF x) (j : Nat) : (ids (prevAct (Fmts.toFun x.fmts) j)).Nodup := by
  cases j with
  | zero => simp [prevAct_zero, ids]
  | succ j => rw [← wf_act h j]; exact h.nodup j

theorem wf_closed_ge {x : AStr} (h : WF x) (j : Nat) (hj : x.len ≤ j) :
    prevAct (Fmts.toFun x.fmts) (j + 1) = [] := by
  induction j with
  | zero =>
    have : x.len = 0 := by omega
    rw [← wf_act h 0, ← this]; exact h.closed
  | succ j ih =>
    by_cases hj' : x.len ≤ j
    · rw [prevAct_succ, ih hj', Fmts.toFun_of_UB (wf_UB h) (by omega)]
      rfl
    · have : x.len = j + 1 := by omega
      rw [← wf_act h (j + 1), ← this]; exact h.closed

theorem wf_rem0 {x : AStr} (h : WF x) : (Fmts.toFun x.fmts 0).rem = [] :=
  stepOk_nil_cur (by simpa [prevAct_zero] using wf_ok_at h 0)

theorem wf_rem_nodup {x : AStr} (h : WF x) (j : Nat) : (ids (Fmts.toFun x.fmts j).rem).Nodup :=
  stepOk_nodup (wf_ok_at h j) (wf_nodup_prev h j)

theorem wf_rem_nodup_mem {x : AStr} (h : WF x) : ∀ kp ∈ x.fmts, (kp.2.rem.map (·.id)).Nodup := by
  intro kp hkp
  have := Fmts.toFun_of_get?_some (Fmts.get?_eq_some_of_mem h.sorted (show (kp.1, kp.2) ∈ x.fmts from hkp))
  rw [← this]
  exact wf_rem_nodup h kp.1

theorem wf_addEnd {x : AStr} (h : WF x) : (Fmts.toFun x.fmts x.len).add = [] := by
  cases hg : x.fmts.get? x.len with
  | none => rw [Fmts.toFun_of_get?_none hg]
  | some p =>
    rw [Fmts.toFun_of_get?_some hg]
    exact h.noAddEnd (x.len, p) (Fmts.mem_of_get?_eq_some hg) rfl

theorem wf_mem_prev_settings {x : AStr} {j : Nat} {y : Setting}
    (hy : y ∈ prevAct (Fmts.toFun x.fmts) j) : y ∈ x.fmts.settings := by
  obtain ⟨i, _, hi⟩ := mem_prevAct hy
  exact mem_settings_of_toFun (Or.inl hi)

/-! ## list lemmas for the seam -/

theorem eraseId_eq_filter {Y : List Setting} (hn : (ids Y).Nodup) (i : Nat) :
    eraseId Y i = Y.filter (fun s => s.id != i) := by
  induction Y with
  | nil => rfl
  | cons y0 Y ih =>
    have hn' : y0.id ∉ ids Y ∧ (ids Y).Nodup := by simpa [ids] using hn
    rw [eraseId_cons, List.filter_cons]
    by_cases h0 : y0.id = i
    · simp only [h0, if_true, bne_self_eq_false, Bool.false_eq_true, if_false]
      symm
      rw [List.filter_eq_self]
      intro s hs
      have : s.id ≠ i := by
        intro e; apply hn'.1; rw [h0, ← e]; exact List.mem_map.mpr ⟨s, hs, rfl⟩
      simpa using this
    · have : (y0.id != i) = true := by simpa using h0
      simp only [h0, if_false, this, if_true]
      rw [ih hn'.2]

theorem foldl_eraseId_eq_filter (rem : List Setting) {Y : List Setting} (hn : (ids Y).Nodup) :
    rem.foldl (fun c s => eraseId c s.id) Y = Y.filter (fun s => !hasId rem s.id) := by
  induction rem generalizing Y with
  | nil =>
    simp only [List.foldl_nil, hasId, List.any_nil, Bool.not_false]
    exact (List.filter_eq_self.mpr (fun _ _ => rfl)).symm
  | cons r rem ih =>
    have hn' : (ids (eraseId Y r.id)).Nodup := List.Nodup.sublist ((eraseId_sublist _ _).map _) hn
    simp only [List.foldl_cons]
    rw [ih hn', eraseId_eq_filter hn, List.filter_filter]
    apply List.filter_congr
    intro s _
    simp only [hasId, List.any_cons]
    by_cases h : s.id = r.id
    · simp [h]
    · have h1 : (s.id != r.id) = true := by simpa using h
      have h2 : (r.id == s.id) = false := by simpa using fun e : r.id = s.id => h e.symm
      simp [h1, h2]

theorem hasId_append (l1 l2 : List Setting) (i : Nat) : hasId (l1 ++ l2) i = (hasId l1 i || hasId l2 i) := by
  simp [hasId]

/-- at the seam: deleting only the un-merged stop markers leaves the merged objects, in order -/
theorem seam_filter (S R : List Setting) (k : Nat) (hn : (ids S).Nodup) (hok : stepOk S R = true)
    (hcl : R.foldl (fun c s => eraseId c s.id) S = []) :
    (R.drop k).foldl (fun c s => eraseId c s.id) S = S.filter (fun s => hasId (R.take k) s.id) := by
  rw [foldl_eraseId_eq_filter _ hn]
  rw [foldl_eraseId_eq_filter _ hn] at hcl
  have hall : ∀ s ∈ S, hasId R s.id = true := by
    intro s hs
    have := List.filter_eq_nil_iff.mp hcl s hs
    simpa using this
  have hR : (ids (R.take k ++ R.drop k)).Nodup := by
    rw [List.take_append_drop]; exact stepOk_nodup hok hn
  simp only [ids, List.map_append] at hR
  have hdis := (List.nodup_append.mp hR).2.2
  apply List.filter_congr
  intro s hs
  have h1 := hall s hs
  rw [← List.take_append_drop k R, hasId_append] at h1
  cases hH : hasId (R.take k) s.id with
  | true =>
    cases hD : hasId (R.drop k) s.id with
    | false => rfl
    | true =>
      obtain ⟨x, hx, hxi⟩ := hasId_iff.mp hH
      obtain ⟨y, hy, hyi⟩ := hasId_iff.mp hD
      exact absurd (hxi.trans hyi.symm)
        (hdis x.id (List.mem_map.mpr ⟨x, hx, rfl⟩) y.id (List.mem_map.mpr ⟨y, hy, rfl⟩))
  | false =>
    rw [hH] at h1
    simp at h1
    simp [h1]

theorem eq_of_ids_eq : ∀ (l1 l2 : List Setting), ids l1 = ids l2 →
    (∀ s ∈ l1, ∀ t ∈ l2, s.id = t.id → s.txt = t.txt) → l1 = l2
  | [], [], _, _ => rfl
  | [], _ :: _, h, _ => by simp [ids] at h
  | _ :: _, [], h, _ => by simp [ids] at h
  | x :: l1, y :: l2, h, hc => by
    simp only [ids, List.map_cons, List.cons.injEq] at h
    have hxy : x = y := by
      have := hc x (by simp) y (by simp) h.1
      cases x; cases y; simp_all
    rw [hxy, eq_of_ids_eq l1 l2 h.2 (fun s hs t ht => hc s (by simp [hs]) t (by simp [ht]))]

theorem map_subst_zip : ∀ (l h : List Setting), (ids l).Nodup → l.length = h.length →
    l.map (subst (l.zip h)) = h
  | [], [], _, _ => rfl
  | [], _ :: _, _, hl => by simp at hl
  | _ :: _, [], _, hl => by simp at hl
  | x :: l, y :: h, hn, hl => by
    have hn' : x.id ∉ ids l ∧ (ids l).Nodup := by simpa [ids] using hn
    rw [List.zip_cons_cons, List.map_cons, subst_cons_eq x y _ x rfl]
    have : l.map (subst ((x, y) :: l.zip h)) = l.map (subst (l.zip h)) := by
      apply List.map_congr_left
      intro z hz
      apply subst_cons_ne
      intro e; apply hn'.1; rw [← e]; exact List.mem_map.mpr ⟨z, hz, rfl⟩
    rw [this, map_subst_zip l h hn'.2 (by simpa using hl)]

theorem zip_txt : ∀ (l h : List Setting), texts h = texts l → ∀ p ∈ l.zip h, p.1.txt = p.2.txt
  | [], _, _, p, hp => by simp at hp
  | _ :: _, [], _, p, hp => by simp at hp
  | x :: l, y :: h, ht, p, hp => by
    simp only [texts, List.map_cons, List.cons.injEq] at ht
    rw [List.zip_cons_cons] at hp
    rcases List.mem_cons.mp hp with e | e
    · rw [e]; exact ht.1.symm
    · exact zip_txt l h ht.2 p e

theorem pendAt_subset {g : Nat → Point} {P : Pend} {k : Nat} {p : Setting × Setting}
    (h : p ∈ pendAt g P k) : p ∈ P := by
  induction k with
  | zero => exact h
  | succ k ih => exact ih (mem_pendFilter.mp h).1

theorem texts_map_subst (Q : Pend) (Y : List Setting)
    (h : ∀ p ∈ Q, ∀ y ∈ Y, p.1.id = y.id → p.2.txt = y.txt) : texts (Y.map (subst Q)) = texts Y := by
  unfold texts
  rw [List.map_map]
  apply List.map_congr_left
  intro y hy
  rcases subst_cases Q y with e | ⟨p, hp, hpi, e⟩
  · simp [e]
  · simp only [Function.comp, e]
    exact h p hp y hy hpi

/-! ## the relation between the replays of `a.iadd b` and `b` -/

theorem stepOk_of_nodup {cur rem : List Setting} (hr : (ids rem).Nodup)
    (hm : ∀ r ∈ rem, hasId cur r.id = true) : stepOk cur rem = true := by
  induction rem generalizing cur with
  | nil => exact stepOk_nil _
  | cons r rest ih =>
    have hr' : r.id ∉ ids rest ∧ (ids rest).Nodup := by simpa [ids] using hr
    rw [stepOk_cons, Bool.and_eq_true]
    refine ⟨hm r (by simp), ih hr'.2 ?_⟩
    intro r' hr''
    obtain ⟨x, hx, hxi⟩ := hasId_iff.mp (hm r' (by simp [hr'']))
    refine hasId_iff.mpr ⟨x, mem_eraseId_of_ne hx ?_, hxi⟩
    intro e
    apply hr'.1
    rw [← e, hxi]
    exact List.mem_map.mpr ⟨r', hr'', rfl⟩

/-- relation between the replay of `a.iadd b` just before key `a.len + m` and that of `b` before `m` -/
structure RInv (B : Nat → Point) (P0 : Pend) (X : List Setting) (m : Nat) : Prop where
  eq    : X = (prevAct B m).map (subst (pendAt B P0 m))
  nodup : (ids X).Nodup
  act   : ∀ p ∈ pendAt B P0 m, hasId (prevAct B m) p.1.id = true

theorem seamPrev_eq {a : AStr} (ha : WF a) : seamPrev a = prevAct (Fmts.toFun a.fmts) a.len := by
  unfold seamPrev
  by_cases h : a.len = 0
  · simp [h, prevAct_zero]
  · rw [if_neg h, wf_act ha]
    congr 1
    omega

theorem prevAct_congr {g g' : Nat → Point} (k : Nat) (h : ∀ j, j < k → g j = g' j) :
    prevAct g k = prevAct g' k :=
  runFrom_congr k [] (fun j _ hj => h j (by omega))

/-- facts about the seam used below, all derived from `WF a` -/
theorem seam_facts {a : AStr} (ha : WF a) :
    (ids (seamPrev a)).Nodup ∧
    stepOk (seamPrev a) (Fmts.toFun a.fmts a.len).rem = true ∧
    (Fmts.toFun a.fmts a.len).rem.foldl (fun c s => eraseId c s.id) (seamPrev a) = [] := by
  rw [seamPrev_eq ha]
  refine ⟨wf_nodup_prev ha _, wf_ok_at ha _, ?_⟩
  have := wf_closed_ge ha a.len (Nat.le_refl _)
  rw [prevAct_succ, stepPoint_def, wf_addEnd ha, List.append_nil] at this
  exact this

theorem seam_base {a b : AStr} (ha : WF a) (hb : WF b) (P0 : Pend) (Cn : Point)
    (hcase :
      (mergeCond (seamPrev a) (laterAdds b) (Fmts.toFun a.fmts a.len) (Fmts.toFun b.fmts 0).add = true ∧
          Cn = { add := [], rem := (Fmts.toFun a.fmts a.len).rem.drop (Fmts.toFun b.fmts 0).add.length } ∧
          P0 = (Fmts.toFun b.fmts 0).add.zip
            ((Fmts.toFun a.fmts a.len).rem.take (Fmts.toFun b.fmts 0).add.length)) ∨
       (mergeCond (seamPrev a) (laterAdds b) (Fmts.toFun a.fmts a.len) (Fmts.toFun b.fmts 0).add = false ∧
          Cn = { add := (Fmts.toFun b.fmts 0).add, rem := (Fmts.toFun a.fmts a.len).rem } ∧
          P0 = [])) :
    RInv (Fmts.toFun b.fmts) P0 (stepPoint (seamPrev a) Cn) 1 ∧
    stepOk (seamPrev a) Cn.rem = true ∧
    (∀ p ∈ P0, p.1.txt = p.2.txt ∧ p.1 ∈ (Fmts.toFun b.fmts 0).add ∧
      p.2 ∈ (Fmts.toFun a.fmts a.len).rem ∧ hasId (laterAdds b) p.2.id = false) := by
  obtain ⟨hSn, hSok, hScl⟩ := seam_facts ha
  have hrem0 := wf_rem0 hb
  have hprev1 : prevAct (Fmts.toFun b.fmts) 1 = (Fmts.toFun b.fmts 0).add := by
    rw [prevAct_succ, prevAct_zero, stepPoint_def, hrem0]; rfl
  have hpend1 : pendAt (Fmts.toFun b.fmts) P0 1 = P0 := by
    show pendFilter P0 (Fmts.toFun b.fmts 0).rem = P0
    rw [hrem0, pendFilter_nil]
  have hadd0n : (ids (Fmts.toFun b.fmts 0).add).Nodup := by
    rw [← hprev1]; exact wf_nodup_prev hb 1
  generalize hS : seamPrev a = S at *
  generalize hR : (Fmts.toFun a.fmts a.len).rem = R at *
  generalize hadd0 : (Fmts.toFun b.fmts 0).add = add0 at *
  rcases hcase with ⟨hm, hCn, hP0⟩ | ⟨hm, hCn, hP0⟩
  · -- merged
    have hlen := mergeCond_length hm
    rw [hR] at hlen
    simp only [mergeCond, Bool.and_eq_true, hR] at hm
    obtain ⟨⟨⟨_, ht⟩, href⟩, hlater⟩ := hm
    have ht' : texts (R.take add0.length) = texts add0 := eq_of_beq ht
    have href' : ids (S.filter (fun s => hasId (R.take add0.length) s.id)) = ids (R.take add0.length) := by
      unfold sameRefs at href; exact eq_of_beq href
    have hHsub : ∀ s ∈ R.take add0.length, s ∈ R := fun s hs => List.mem_of_mem_take hs
    have hfilt : S.filter (fun s => hasId (R.take add0.length) s.id) = R.take add0.length := by
      apply eq_of_ids_eq _ _ href'
      intro s hs t ht e
      apply ha.coherent s _ t _ e
      · have : s ∈ S := (List.mem_filter.mp hs).1
        rw [← hS, seamPrev_eq ha] at this
        exact wf_mem_prev_settings this
      · have := hHsub t ht
        rw [← hR] at this
        exact mem_settings_of_toFun (Or.inr this)
    have hX : stepPoint S Cn = R.take add0.length := by
      rw [hCn, stepPoint_def]
      simp only [List.append_nil]
      rw [seam_filter S R add0.length hSn hSok hScl, hfilt]
    refine ⟨⟨?_, ?_, ?_⟩, ?_, ?_⟩
    · rw [hX, hprev1, hpend1, hP0, map_subst_zip _ _ hadd0n hlen.symm]
    · rw [hX, ← hfilt]
      exact List.Nodup.sublist (List.filter_sublist.map _) hSn
    · rw [hpend1, hprev1, hP0]
      intro p hp
      exact hasId_iff.mpr ⟨p.1, (List.of_mem_zip hp).1, rfl⟩
    · rw [hCn]
      apply stepOk_of_nodup
      · exact List.Nodup.sublist ((List.drop_sublist _ _).map _) (stepOk_nodup hSok hSn)
      · intro r hr
        exact stepOk_mem hSok (List.mem_of_mem_drop hr)
    · intro p hp
      rw [hP0] at hp
      have hp2 := (List.of_mem_zip hp).2
      refine ⟨zip_txt _ _ ht' p hp, (List.of_mem_zip hp).1, hHsub _ hp2, ?_⟩
      have : (R.take add0.length).any (fun s => hasId (laterAdds b) s.id) = false := by simpa using hlater
      rw [List.any_eq_false] at this
      simpa using this p.2 hp2
  · -- not merged
    have hX : stepPoint S Cn = add0 := by
      rw [hCn, stepPoint_def]
      simp only
      rw [hScl]; rfl
    refine ⟨⟨?_, ?_, ?_⟩, ?_, ?_⟩
    · rw [hX, hprev1, hpend1, hP0]
      have : subst [] = id := funext fun _ => rfl
      rw [this, List.map_id]
    · rw [hX]; exact hadd0n
    · rw [hpend1, hP0]; intro p hp; cases hp
    · rw [hCn]; exact hSok
    · rw [hP0]; intro p hp; cases hp


theorem rinv_step {b : AStr} (hb : WF b) (P0 : Pend)
    (hlater : ∀ p ∈ P0, hasId (laterAdds b) p.2.id = false) (m : Nat) (hm : 1 ≤ m)
    (X : List Setting) (h : RInv (Fmts.toFun b.fmts) P0 X m) :
    RInv (Fmts.toFun b.fmts) P0
      (stepPoint X { add := (Fmts.toFun b.fmts m).add,
                     rem := (Fmts.toFun b.fmts m).rem.map (subst (pendAt (Fmts.toFun b.fmts) P0 m)) }) (m + 1) ∧
    stepOk X ((Fmts.toFun b.fmts m).rem.map (subst (pendAt (Fmts.toFun b.fmts) P0 m))) = true := by
  have heta : (⟨(Fmts.toFun b.fmts m).add, (Fmts.toFun b.fmts m).rem⟩ : Point) = Fmts.toFun b.fmts m := rfl
  have hY' : (ids (stepPoint (prevAct (Fmts.toFun b.fmts) m)
      ⟨(Fmts.toFun b.fmts m).add, (Fmts.toFun b.fmts m).rem⟩)).Nodup := by
    rw [heta, ← prevAct_succ]; exact wf_nodup_prev hb _
  have hXn : (ids ((prevAct (Fmts.toFun b.fmts) m).map (subst (pendAt (Fmts.toFun b.fmts) P0 m)))).Nodup := by
    rw [← h.eq]; exact h.nodup
  have hadd : ∀ p ∈ pendAt (Fmts.toFun b.fmts) P0 m, ∀ t ∈ (Fmts.toFun b.fmts m).add, p.2.id ≠ t.id := by
    intro p hp t ht e
    have h1 := hlater p (pendAt_subset hp)
    have h2 : t ∈ laterAdds b := mem_laterAdds (by omega) ht
    rw [hasId_false_iff] at h1
    exact h1 t h2 e.symm
  obtain ⟨s1, s2, s3, s4⟩ := step_rel (pendAt (Fmts.toFun b.fmts) P0 m) (prevAct (Fmts.toFun b.fmts) m)
    (Fmts.toFun b.fmts m).add (Fmts.toFun b.fmts m).rem (wf_nodup_prev hb m) hY' (wf_ok_at hb m) hXn h.act hadd
  rw [heta, ← prevAct_succ] at s1 s2 s3
  rw [← h.eq] at s1 s4
  refine ⟨⟨?_, ?_, ?_⟩, s4⟩
  · exact s1
  · rw [s1]; exact s2
  · exact s3

theorem iadd_sem {a b : AStr} (ha : WF a) (hb : WF b) :
    ∃ P0 : Pend,
      SortedKeys (a.iadd b).fmts ∧
      (∀ j, j < a.len → Fmts.toFun (a.iadd b).fmts j = Fmts.toFun a.fmts j) ∧
      (∀ kp ∈ (a.iadd b).fmts, kp ∈ a.fmts ∨ ∃ kp' ∈ b.fmts, kp.1 = kp'.1 + a.len) ∧
      (∀ s ∈ (Fmts.toFun (a.iadd b).fmts a.len).add, s ∈ (Fmts.toFun b.fmts 0).add) ∧
      (∀ s ∈ (Fmts.toFun (a.iadd b).fmts a.len).rem, s ∈ (Fmts.toFun a.fmts a.len).rem) ∧
      (∀ k, 1 ≤ k → Fmts.toFun (a.iadd b).fmts (k + a.len) =
        { add := (Fmts.toFun b.fmts k).add,
          rem := (Fmts.toFun b.fmts k).rem.map (subst (pendAt (Fmts.toFun b.fmts) P0 k)) }) ∧
      (∀ p ∈ P0, p.1.txt = p.2.txt ∧ p.1 ∈ (Fmts.toFun b.fmts 0).add ∧
        p.2 ∈ (Fmts.toFun a.fmts a.len).rem ∧ hasId (laterAdds b) p.2.id = false) ∧
      (∀ m, 1 ≤ m → RInv (Fmts.toFun b.fmts) P0 (prevAct (Fmts.toFun (a.iadd b).fmts) (a.len + m)) m) ∧
      (∀ j, stepOk (prevAct (Fmts.toFun (a.iadd b).fmts) j) (Fmts.toFun (a.iadd b).fmts j).rem = true) := by
  obtain ⟨P0, c1, c2, c3, c4, c5⟩ := iadd_char a b ha.sorted ha.bound (wf_addEnd ha) hb.sorted
    (wf_rem_nodup_mem hb) (wf_rem0 hb)
  have hprevn : prevAct (Fmts.toFun (a.iadd b).fmts) a.len = seamPrev a := by
    rw [seamPrev_eq ha]; exact prevAct_congr _ c2
  obtain ⟨b1, b2, b3⟩ := seam_base ha hb P0 (Fmts.toFun (a.iadd b).fmts a.len) c5
  have hinv : ∀ m, 1 ≤ m →
      RInv (Fmts.toFun b.fmts) P0 (prevAct (Fmts.toFun (a.iadd b).fmts) (a.len + m)) m := by
    have h' : ∀ d, RInv (Fmts.toFun b.fmts) P0
        (prevAct (Fmts.toFun (a.iadd b).fmts) (a.len + (d + 1))) (d + 1) := by
      intro d
      induction d with
      | zero =>
        rw [show a.len + (0 + 1) = a.len + 1 from rfl, prevAct_succ, hprevn]; exact b1
      | succ d ih =>
        have := (rinv_step hb P0 (fun p hp => (b3 p hp).2.2.2) (d + 1) (by omega) _ ih).1
        rw [← c3 (d + 1) (by omega), Nat.add_comm (d + 1) a.len, ← prevAct_succ] at this
        exact this
    intro m hm
    have e : m = (m - 1) + 1 := by omega
    rw [e]; exact h' (m - 1)
  refine ⟨P0, c1, c2, c4, ?_, ?_, c3, b3, hinv, ?_⟩
  · intro s hs
    rcases c5 with ⟨_, h, _⟩ | ⟨_, h, _⟩
    · rw [h] at hs; cases hs
    · rw [h] at hs; exact hs
  · intro s hs
    rcases c5 with ⟨_, h, _⟩ | ⟨_, h, _⟩
    · rw [h] at hs; exact List.mem_of_mem_drop hs
    · rw [h] at hs; exact hs
  · intro j
    by_cases hj : j < a.len
    · rw [prevAct_congr j (fun i hi => c2 i (by omega)), c2 j hj]
      exact wf_ok_at ha j
    · by_cases hj' : j = a.len
      · rw [hj', hprevn]; exact b2
      · have e : j = a.len + (j - a.len) := by omega
        have hm : 1 ≤ j - a.len := by omega
        have := (rinv_step hb P0 (fun p hp => (b3 p hp).2.2.2) (j - a.len) hm _ (hinv _ hm)).2
        rw [e, Nat.add_comm a.len (j - a.len), c3 _ hm, Nat.add_comm (j - a.len) a.len]
        exact this

/-! ## property-level consequences -/

/-- identities shared between the two operands carry the same text -/
def CoherentPair (a b : AStr) : Prop :=
  ∀ s ∈ a.fmts.settings, ∀ t ∈ b.fmts.settings, s.id = t.id → s.txt = t.txt

instance (a b : AStr) : Decidable (CoherentPair a b) := by unfold CoherentPair; infer_instance

theorem iadd_len (a b : AStr) : (a.iadd b).len = a.len + b.len := by
  simp [AStr.iadd, AStr.len]

theorem act_left_aux {a b : AStr} (ha : WF a) (hb : WF b) {i : Nat} (hi : i < a.len) :
    active (a.iadd b).fmts i = active a.fmts i := by
  obtain ⟨P0, c1, c2, _⟩ := iadd_sem ha hb
  rw [active_eq_activeFn _ c1, active_eq_activeFn _ ha.sorted]
  exact prevAct_congr (i + 1) (fun j hj => c2 j (by omega))

theorem act_right_aux {a b : AStr} (ha : WF a) (hb : WF b) (k : Nat) :
    texts (active (a.iadd b).fmts (a.len + k)) = texts (active b.fmts k) := by
  obtain ⟨P0, c1, _, _, _, _, _, c7, c8, _⟩ := iadd_sem ha hb
  rw [active_eq_activeFn _ c1, wf_act hb]
  show texts (prevAct _ (a.len + (k + 1))) = _
  rw [(c8 (k + 1) (by omega)).eq]
  apply texts_map_subst
  intro p hp y hy e
  obtain ⟨h1, h2, _, _⟩ := c7 p (pendAt_subset hp)
  rw [← h1]
  exact hb.coherent p.1 (mem_settings_of_toFun (Or.inl h2)) y (wf_mem_prev_settings hy) e

theorem wf_empty : WF ({} : AStr) where
  sorted := List.Pairwise.nil
  bound := by intro kp h; cases h
  noAddEnd := by intro kp h; cases h
  ok := rfl
  nodup := by intro i; exact List.nodup_nil
  closed := rfl
  coherent := by intro s h; cases h

theorem mem_iadd_settings {a b : AStr} (ha : WF a) (hb : WF b) {s : Setting}
    (hs : s ∈ (a.iadd b).fmts.settings) : s ∈ a.fmts.settings ∨ s ∈ b.fmts.settings := by
  obtain ⟨P0, c1, c2, _, c4, c5, c6, c7, _, _⟩ := iadd_sem ha hb
  obtain ⟨k, _, hk⟩ := toFun_of_mem_settings c1 hs
  by_cases h1 : k < a.len
  · rw [c2 k h1] at hk
    exact Or.inl (mem_settings_of_toFun hk)
  · by_cases h2 : k = a.len
    · subst h2
      rcases hk with hk | hk
      · exact Or.inr (mem_settings_of_toFun (Or.inl (c4 s hk)))
      · exact Or.inl (mem_settings_of_toFun (Or.inr (c5 s hk)))
    · have e : k = (k - a.len) + a.len := by omega
      rw [e, c6 _ (by omega)] at hk
      rcases hk with hk | hk
      · exact Or.inr (mem_settings_of_toFun (Or.inl hk))
      · simp only [List.mem_map] at hk
        obtain ⟨r, hr, hrs⟩ := hk
        rcases subst_cases (pendAt (Fmts.toFun b.fmts) P0 (k - a.len)) r with h | ⟨p, hp, _, h⟩
        · rw [h] at hrs; rw [← hrs]
          exact Or.inr (mem_settings_of_toFun (Or.inr hr))
        · rw [h] at hrs; rw [← hrs]
          exact Or.inl (mem_settings_of_toFun (Or.inr (c7 p (pendAt_subset hp)).2.2.1))

theorem iadd_wf_aux {a b : AStr} (ha : WF a) (hb : WF b) (hc : CoherentPair a b) : WF (a.iadd b) := by
  obtain ⟨P0, c1, c2, c3, c4, c5, c6, c7, c8, c9⟩ := iadd_sem ha hb
  have hbound : ∀ kp ∈ (a.iadd b).fmts, kp.1 ≤ (a.iadd b).len := by
    intro kp hkp
    rw [iadd_len]
    rcases c3 kp hkp with h | ⟨kp', h1, h2⟩
    · have := ha.bound kp h; omega
    · have := hb.bound kp' h1; omega
  have hub : Fmts.UB ((a.iadd b).len + 1) (a.iadd b).fmts := fun kp h => by
    have := hbound kp h; omega
  have hprev : ∀ m, 1 ≤ m → (ids (prevAct (Fmts.toFun (a.iadd b).fmts) m)).Nodup := by
    intro m hm
    by_cases h : m ≤ a.len
    · rw [prevAct_congr m (fun j hj => c2 j (by omega))]
      exact wf_nodup_prev ha m
    · have e : m = a.len + (m - a.len) := by omega
      rw [e]; exact (c8 _ (by omega)).nodup
  refine ⟨c1, hbound, ?_, ?_, ?_, ?_, ?_⟩
  · intro kp hkp hk
    have hkp' : (kp.1, kp.2) ∈ (a.iadd b).fmts := hkp
    have hv := Fmts.toFun_of_get?_some (Fmts.get?_eq_some_of_mem c1 hkp')
    rw [← hv, hk, iadd_len]
    by_cases hbl : b.len = 0
    · rw [hbl, Nat.add_zero]
      apply List.eq_nil_iff_forall_not_mem.mpr
      intro s hs
      have := c4 s hs
      have h0 := wf_addEnd hb
      rw [hbl] at h0
      rw [h0] at this; cases this
    · rw [Nat.add_comm, c6 _ (by omega)]
      exact wf_addEnd hb
  · exact (replayOk_iff _ c1 _ hub).mpr (fun j _ => c9 j)
  · intro i
    rw [active_eq_activeFn _ c1]
    exact hprev (i + 1) (by omega)
  · rw [active_eq_activeFn _ c1, iadd_len]
    show prevAct _ (a.len + (b.len + 1)) = []
    rw [(c8 (b.len + 1) (by omega)).eq, wf_closed_ge hb b.len (Nat.le_refl _)]
    rfl
  · intro s hs t ht e
    rcases mem_iadd_settings ha hb hs with h1 | h1 <;> rcases mem_iadd_settings ha hb ht with h2 | h2
    · exact ha.coherent s h1 t h2 e
    · exact hc s h1 t h2 e
    · exact (hc t h2 s h1 e.symm).symm
    · exact hb.coherent s h1 t h2 e

theorem plain_right_aux {a : AStr} (ha : WF a) {j : Nat} (hj : a.len ≤ j) : active a.fmts j = [] := by
  rw [wf_act ha]; exact wf_closed_ge ha j hj

end ConcatL
