import AnsiProofs.Props.C01
import AnsiProofs.Props.C02b
import AnsiProofs.Props.C15b
import AnsiProofs.Props.C15
/-
  AnsiProofs.Lemmas.RoundTrip — helper lemmas for property C03 (round trip `AnsiString(str(s))`,
  `simplify()`).

  * Part A: every SGR sequence `Render.render` emits has decimal parameters only
            (`Term.wellFormed` of a rendering), so `C02b.parse_style_den` applies to renderings
  * Part B: dropping a set of setting objects (here: the invalid ones) from every start and stop
            marker keeps the history invariant `WF`; each character reports its previous settings
            minus the dropped ones
  * Part C: what `parse_graphic_sequence(…, add_erroneous=False)` can hand to `settings_to_dict`
            for ANY input (no well-formedness assumption): every text that is filed in the dict
            is parsable and a group text
  * Part D: hence every setting `set_ansi_str` puts into a table is parsable and a group text
-/

open Term Eff RenderStripL ParseTextL ParseTextL.C02Spec ParseStyleL

namespace RoundTripL

/-! ## Part A: renderings are well-formed inputs for the terminal -/

/-- `o` is passed over by the well-formedness scanner in text mode, which is in text mode again
    afterwards, and every SGR sequence inside `o` has decimal parameters only -/
def Passes (o : List Char) : Prop :=
  ∀ rest, Term.wellFormedAux .text (o ++ rest) = Term.wellFormedAux .text rest

theorem Passes.nil : Passes [] := fun _ => rfl

theorem Passes.append {a b : List Char} (h1 : Passes a) (h2 : Passes b) : Passes (a ++ b) := by
  intro rest
  rw [List.append_assoc, h1, h2]

theorem wf_text_cons (c : Char) (hc : c ≠ '\x1b') (rest : List Char) :
    Term.wellFormedAux .text (c :: rest) = Term.wellFormedAux .text rest := by
  rw [Term.wellFormedAux.eq_3]
  intro r h; exact absurd h hc

theorem Passes.text {a : List Char} (h : '\x1b' ∉ a) : Passes a := by
  intro rest
  induction a with
  | nil => rfl
  | cons c a ih =>
    have hc : c ≠ '\x1b' := by intro e; apply h; simp [e]
    have ha : '\x1b' ∉ a := fun hm => h (List.mem_cons_of_mem _ hm)
    rw [List.cons_append, wf_text_cons c hc, ih ha]

theorem wf_seq_append {codes : List Char} (h : NonFinal codes) (ps rest : List Char) :
    Term.wellFormedAux (.seq ps) (codes ++ rest) = Term.wellFormedAux (.seq (ps ++ codes)) rest := by
  induction codes generalizing ps with
  | nil => simp
  | cons c cs ih =>
    have hc : Term.isFinal c = false := h c (by simp)
    have hcs : NonFinal cs := fun d hd => h d (List.mem_cons_of_mem _ hd)
    rw [List.cons_append, Term.wellFormedAux.eq_5, hc]
    simp only [Bool.false_eq_true, if_false]
    rw [ih hcs]
    simp

/-- codes that may stand between `ESC [` and `m`: no final byte, every parameter decimal -/
def OKc (c : Str) : Prop := NonFinal c ∧ ParamsOK c

theorem wf_sgr {codes : List Char} (h : OKc codes) (rest : List Char) :
    Term.wellFormedAux .text ('\x1b' :: '[' :: (codes ++ 'm' :: rest)) = Term.wellFormedAux .text rest := by
  rw [Term.wellFormedAux.eq_2, wf_seq_append h.1, Term.wellFormedAux.eq_5]
  have hm : Term.isFinal 'm' = true := by decide
  have hp : (Term.params codes).all Option.isSome = true := h.2
  simp [hm, hp]

theorem Passes.sgr {codes : List Char} (h : OKc codes) : Passes (Render.sgr codes) := by
  intro rest
  unfold Render.sgr
  rw [sgrPrefix_eq, sgrSuffix_eq]
  simpa using wf_sgr h rest

theorem okc_nil : OKc [] := ⟨NonFinal.nil, by decide⟩

theorem Passes.escapeClear : Passes Gen.escapeClear := by
  intro rest
  rw [escapeClear_eq]
  simpa using wf_sgr okc_nil rest

/-! ### parameter strings joined with `;` -/

theorem splitSemi_ne_nil (s : List Char) : Term.splitSemi s ≠ [] := by
  rw [splitSemi_eq]; exact splitOnChar_ne_nil ';' s

theorem splitSemi_append_semi (a b : List Char) :
    Term.splitSemi (a ++ ';' :: b) = Term.splitSemi a ++ Term.splitSemi b := by
  induction a with
  | nil => simp [Term.splitSemi]
  | cons c a ih =>
    by_cases hc : (c == ';') = true
    · simp only [List.cons_append, Term.splitSemi, hc, if_true, ih, List.cons_append]
    · simp only [List.cons_append, Term.splitSemi, hc, ih]
      cases hs : Term.splitSemi a with
      | nil => exact absurd hs (splitSemi_ne_nil a)
      | cons h t => rfl

theorem paramsOK_append_semi {a b : Str} (ha : ParamsOK a) (hb : ParamsOK b) : ParamsOK (a ++ ';' :: b) := by
  unfold ParamsOK Term.params at *
  rw [splitSemi_append_semi, List.map_append, List.all_append, ha, hb]
  rfl

theorem okc_sep {a b : Str} (ha : OKc a) (hb : OKc b) : OKc (a ++ Gen.ansiSep ++ b) := by
  refine ⟨(ha.1.append nonFinal_sep).append hb.1, ?_⟩
  rw [ansiSep_eq]
  simpa using paramsOK_append_semi ha.2 hb.2

theorem okc_joinSep : ∀ {l : List Str}, (∀ a ∈ l, OKc a) → OKc (joinSep Gen.ansiSep l)
  | [], _ => okc_nil
  | [a], h => h a (by simp)
  | a :: b :: rest, h => by
    show OKc (a ++ Gen.ansiSep ++ joinSep Gen.ansiSep (b :: rest))
    exact okc_sep (h a (by simp)) (okc_joinSep (fun c hc => h c (List.mem_cons_of_mem _ hc)))

/-! ### the pieces: group texts, `0`, clear codes -/

/-- a group text contains no terminator character: `GroupSettings` implies `is_formatting_valid()` -/
theorem valid_of_group {t : Str} (h : isGroupTxt t = true) : SettingTxt.valid t = true := by
  apply ScrubL.valid_of_items_digits
  intro v hv
  obtain ⟨it, hit, rfl⟩ := List.mem_map.1 hv
  have hd := (isGroupTxt_spec h).1 it hit
  rw [strip_digits (isdigit_iff.1 hd).2]
  exact hd

theorem okc_of_group {t : Str} (h : isGroupTxt t = true) : OKc t := by
  refine ⟨nonFinal_of_valid (valid_of_group h), ?_⟩
  unfold ParamsOK
  rw [params_of_digits (isGroupTxt_spec h).1]
  simp

theorem okc_natStr (n : Nat) : OKc (Py.natStr n) := by
  constructor
  · intro c hc
    rw [← isTerm_eq_isFinal]
    exact isTerm_of_isDigit ((natStr_spec n).2.1 c hc)
  · unfold ParamsOK
    have := params_joinNats (l := [n]) (by simp)
    rw [joinNats_single] at this
    rw [this]
    rfl

theorem okc_clearCode (e : Nat) : OKc (Render.clearCode e) := by
  unfold Render.clearCode
  split
  · exact okc_natStr _
  · exact okc_nil

theorem groupSettings_valid {x : AStr} (hg : GroupSettings x) : x.isFormattingValid = true := by
  unfold AStr.isFormattingValid
  rw [List.all_eq_true]
  intro kp hkp
  rw [List.all_eq_true]
  intro s hs
  apply valid_of_group
  apply hg
  unfold Fmts.settings
  exact List.mem_flatMap.2 ⟨kp, hkp, List.mem_append_left _ hs⟩

/-! ### one iteration of the rendering loop, the whole loop -/

/-- every text of the list may stand in an SGR sequence -/
def GoodG (cur : List Setting) : Prop := ∀ s ∈ cur, OKc s.txt

theorem replayFrom_all (P : Setting → Prop) (f : Fmts) (cur : List Setting) (hc : ∀ s ∈ cur, P s)
    (hf : ∀ kp ∈ f, ∀ s ∈ kp.2.add, P s) : ∀ t ∈ replayFrom cur f, ∀ s ∈ t.2.2, P s := by
  induction f generalizing cur with
  | nil => intro t ht; cases ht
  | cons kp rest ih =>
    obtain ⟨k, p⟩ := kp
    have hg : ∀ s ∈ stepPoint cur p, P s := by
      intro s hs
      rcases RenderStripL.mem_stepPoint hs with h | h
      · exact hc s h
      · exact hf (k, p) (by simp) s h
    intro t ht
    simp only [replayFrom, List.mem_cons] at ht
    rcases ht with rfl | ht
    · exact hg
    · exact ih _ hg (fun kp hkp => hf kp (List.mem_cons_of_mem _ hkp)) t ht

theorem okc_texts {cur : List Setting} (h : GoodG cur) : ∀ a ∈ texts cur, OKc a := by
  intro a ha
  obtain ⟨s, hs, rfl⟩ := List.mem_map.mp ha
  exact h s hs

theorem okc_baseCodes (p : Point) {cur : List Setting} (h : GoodG cur) : OKc (baseCodes p cur) := by
  unfold baseCodes
  apply okc_joinSep
  split
  · intro a ha
    rcases List.mem_cons.mp ha with rfl | ha
    · exact okc_natStr _
    · exact okc_texts h a ha
  · exact okc_texts h

theorem okc_optCodes (old : PyDict) {cur : List Setting} (h : GoodG cur) : OKc (optCodes old cur) := by
  unfold optCodes
  apply okc_joinSep
  intro a ha
  rcases List.mem_append.mp ha with ha | ha
  · obtain ⟨kv, _, rfl⟩ := List.mem_map.mp ha
    exact okc_clearCode _
  · obtain ⟨kv, hkv, rfl⟩ := List.mem_map.mp ha
    have hm := (List.mem_filter.mp hkv).1
    rcases mem_settingsToDict cur [] hm with h0 | h0
    · cases h0
    · exact h kv.2 h0

theorem okc_emitAC (o rs : Bool) (old : PyDict) (idx : Nat) (p : Point) {cur : List Setting}
    (h : GoodG cur) : OKc (emitAC o rs old idx p cur).2 := by
  have hb := okc_baseCodes p h
  have ho := okc_optCodes old h
  have hac : OKc (if o = true then
      (if (optCodes old cur).isEmpty = true then (false, baseCodes p cur)
       else if (optCodes old cur).length < (baseCodes p cur).length then (true, optCodes old cur)
       else (true, baseCodes p cur))
    else (true, baseCodes p cur) : Bool × Str).2 := by
    split
    · split
      · exact hb
      · split
        · exact ho
        · exact hb
    · exact hb
  unfold emitAC
  simp only []
  split
  · apply okc_joinSep
    intro a ha
    simp only [List.mem_cons, List.not_mem_nil, or_false] at ha
    rcases ha with rfl | rfl
    · exact okc_natStr _
    · exact hac
  · exact hac

theorem passes_stepPre {s : Str} (hn : NoEsc s) (rs : Bool) {st : Render.St} {idx : Nat}
    (h : Passes st.out) : Passes (stepPre s rs st idx) := by
  unfold stepPre
  have h1 : Passes (if st.first ∧ idx > 0 ∧ rs then st.out ++ Gen.escapeClear else st.out) := by
    split
    · exact h.append Passes.escapeClear
    · exact h
  exact h1.append (Passes.text (fun hm => hn (List.mem_of_mem_take (List.mem_of_mem_drop hm))))

theorem passes_step {s : Str} (hn : NoEsc s) (o rs : Bool) {st : Render.St} {idx : Nat} (p : Point)
    {cur : List Setting} (hg : GoodG cur) (h : Passes st.out) :
    Passes (Render.step s o rs st (idx, p, cur)).out := by
  rw [step_out]
  have hp := passes_stepPre hn rs (idx := idx) h
  split
  · exact hp.append (Passes.sgr (okc_emitAC o rs st.dict idx p hg))
  · exact hp

theorem passes_foldl {s : Str} (hn : NoEsc s) (o rs : Bool) (pts : List (Nat × Point × List Setting))
    (st : Render.St) (hg : ∀ t ∈ pts, GoodG t.2.2) (h : Passes st.out) :
    Passes (pts.foldl (Render.step s o rs) st).out := by
  induction pts generalizing st with
  | nil => exact h
  | cons t pts ih =>
    obtain ⟨idx, p, cur⟩ := t
    rw [List.foldl_cons]
    apply ih _ (fun t' ht' => hg t' (List.mem_cons_of_mem _ ht'))
    exact passes_step hn o rs p (hg (idx, p, cur) (by simp)) h

theorem pts_goodG {x : AStr} (hg : GroupSettings x) : ∀ t ∈ pts x, GoodG t.2.2 := by
  intro t ht
  have hm : t ∈ replay x.fmts := (List.takeWhile_sublist _).subset ht
  refine replayFrom_all (fun s => OKc s.txt) x.fmts [] (fun _ h => by cases h) ?_ t hm
  intro kp hkp s hs
  apply okc_of_group
  apply hg
  unfold Fmts.settings
  exact List.mem_flatMap.2 ⟨kp, hkp, List.mem_append_left _ hs⟩

theorem passes_render {x : AStr} (hg : GroupSettings x) (hn : NoEsc x.s) (o rs re : Bool) :
    Passes (Render.render x o rs re) := by
  rw [render_eq]
  have hst := passes_foldl hn (o && x.isFormattingParsable) rs (pts x) {} (pts_goodG hg) Passes.nil
  simp only []
  generalize (pts x).foldl (Render.step x.s (o && x.isFormattingParsable) rs) {} = st at hst
  have h1 : Passes (if st.first ∧ rs then st.out ++ Gen.escapeClear else st.out) := by
    split
    · exact hst.append Passes.escapeClear
    · exact hst
  have h3 := h1.append (Passes.text (a := x.s.drop st.last) (fun hm => hn (List.mem_of_mem_drop hm)))
  split
  · exact h3.append Passes.escapeClear
  · exact h3

theorem Passes.wellFormed {o : List Char} (h : Passes o) : Term.wellFormed o = true := by
  have := h []
  rw [List.append_nil] at this
  unfold Term.wellFormed
  rw [this]
  rfl

/-! ## Part B: dropping setting objects from every marker -/

/-- keep only the markers of the objects selected by `p` -/
def dropPoint (p : Setting → Bool) (pt : Point) : Point :=
  { add := pt.add.filter p, rem := pt.rem.filter p }

def dropF (p : Setting → Bool) (f : Fmts) : Fmts := f.map (fun kp => (kp.1, dropPoint p kp.2))

/-- `p` does not tell apart two entries of `l` with the same identity -/
def Resp (p : Setting → Bool) (l : List Setting) : Prop := ∀ s ∈ l, ∀ t ∈ l, s.id = t.id → p s = p t

theorem Resp.mono {p : Setting → Bool} {l l' : List Setting} (h : Resp p l) (hs : ∀ s ∈ l', s ∈ l) :
    Resp p l' := fun s hs' t ht' e => h s (hs s hs') t (hs t ht') e

theorem eraseId_filter (p : Setting → Bool) (r : Setting) (cur : List Setting)
    (h : ∀ c ∈ cur, c.id = r.id → p c = p r) :
    (eraseId cur r.id).filter p = if p r then eraseId (cur.filter p) r.id else cur.filter p := by
  unfold eraseId
  induction cur with
  | nil => simp
  | cons c cs ih =>
    have ih' := ih (fun c' hc' => h c' (List.mem_cons_of_mem _ hc'))
    by_cases hid : c.id = r.id
    · have hpc := h c (by simp) hid
      have hb : (c.id == r.id) = true := by simpa using hid
      rw [List.eraseP_cons_of_pos (by simpa using hid)]
      by_cases hpr : p r = true
      · have : p c = true := hpc.trans hpr
        rw [if_pos hpr, List.filter_cons_of_pos this, List.eraseP_cons_of_pos (by simpa using hid)]
      · have : ¬ p c = true := by rw [hpc]; exact hpr
        rw [if_neg hpr, List.filter_cons_of_neg this]
    · rw [List.eraseP_cons_of_neg (by simpa using hid)]
      by_cases hpc : p c = true
      · rw [List.filter_cons_of_pos hpc, List.filter_cons_of_pos hpc, ih']
        by_cases hpr : p r = true
        · rw [if_pos hpr, if_pos hpr, List.eraseP_cons_of_neg (by simpa using hid)]
        · rw [if_neg hpr, if_neg hpr]
      · rw [List.filter_cons_of_neg hpc, List.filter_cons_of_neg hpc, ih']

theorem foldl_erase_filter (p : Setting → Bool) (rem cur : List Setting)
    (h : ∀ c ∈ cur, ∀ r ∈ rem, c.id = r.id → p c = p r) :
    (rem.foldl (fun c s => eraseId c s.id) cur).filter p =
      (rem.filter p).foldl (fun c s => eraseId c s.id) (cur.filter p) := by
  induction rem generalizing cur with
  | nil => rfl
  | cons r rest ih =>
    rw [List.foldl_cons]
    have h1 : ∀ c ∈ eraseId cur r.id, ∀ r' ∈ rest, c.id = r'.id → p c = p r' :=
      fun c hc r' hr' => h c (List.mem_of_mem_eraseP hc) r' (List.mem_cons_of_mem _ hr')
    rw [ih _ h1, eraseId_filter p r cur (fun c hc => h c hc r (by simp))]
    by_cases hpr : p r = true
    · rw [if_pos hpr, List.filter_cons_of_pos hpr, List.foldl_cons]
    · rw [if_neg hpr, List.filter_cons_of_neg hpr]

theorem stepPoint_filter (p : Setting → Bool) (cur : List Setting) (pt : Point)
    (h : ∀ c ∈ cur, ∀ r ∈ pt.rem, c.id = r.id → p c = p r) :
    (stepPoint cur pt).filter p = stepPoint (cur.filter p) (dropPoint p pt) := by
  unfold stepPoint dropPoint
  rw [List.filter_append, foldl_erase_filter p _ _ h]

theorem settings_cons (k : Nat) (pt : Point) (rest : Fmts) :
    Fmts.settings ((k, pt) :: rest) = (pt.add ++ pt.rem) ++ Fmts.settings rest := by
  unfold Fmts.settings
  rw [List.flatMap_cons]

theorem mem_stepPoint' {s : Setting} {cur : List Setting} {pt : Point} (h : s ∈ stepPoint cur pt) :
    s ∈ cur ∨ s ∈ pt.add := RenderStripL.mem_stepPoint h

/-- the hypothesis of the induction step: what is active next and what is still to come -/
theorem resp_step {p : Setting → Bool} {cur : List Setting} {k : Nat} {pt : Point} {rest : Fmts}
    (h : Resp p (cur ++ Fmts.settings ((k, pt) :: rest))) :
    Resp p (stepPoint cur pt ++ Fmts.settings rest) ∧
    ∀ c ∈ cur, ∀ r ∈ pt.rem, c.id = r.id → p c = p r := by
  rw [settings_cons] at h
  constructor
  · apply h.mono
    intro s hs
    rcases List.mem_append.1 hs with hs | hs
    · rcases mem_stepPoint' hs with hs | hs
      · exact List.mem_append_left _ hs
      · exact List.mem_append_right _ (List.mem_append_left _ (List.mem_append_left _ hs))
    · exact List.mem_append_right _ (List.mem_append_right _ hs)
  · intro c hc r hr e
    exact h c (List.mem_append_left _ hc) r
      (List.mem_append_right _ (List.mem_append_left _ (List.mem_append_right _ hr))) e

theorem activeFrom_drop (p : Setting → Bool) (f : Fmts) (cur : List Setting)
    (h : Resp p (cur ++ f.settings)) (i : Nat) :
    activeFrom (cur.filter p) (dropF p f) i = (activeFrom cur f i).filter p := by
  induction f generalizing cur with
  | nil => rfl
  | cons kp rest ih =>
    obtain ⟨k, pt⟩ := kp
    obtain ⟨h1, h2⟩ := resp_step h
    show activeFrom (cur.filter p) ((k, dropPoint p pt) :: dropF p rest) i = _
    simp only [activeFrom]
    split
    · rw [← stepPoint_filter p cur pt h2]
      exact ih _ h1
    · rfl

theorem stepOk_drop (p : Setting → Bool) (rem cur : List Setting)
    (h : ∀ c ∈ cur, ∀ r ∈ rem, c.id = r.id → p c = p r) (hok : stepOk cur rem = true) :
    stepOk (cur.filter p) (rem.filter p) = true := by
  induction rem generalizing cur with
  | nil => rfl
  | cons r rest ih =>
    rw [stepOk, Bool.and_eq_true] at hok
    have h1 : ∀ c ∈ eraseId cur r.id, ∀ r' ∈ rest, c.id = r'.id → p c = p r' :=
      fun c hc r' hr' => h c (List.mem_of_mem_eraseP hc) r' (List.mem_cons_of_mem _ hr')
    have ih' := ih _ h1 hok.2
    rw [eraseId_filter p r cur (fun c hc => h c hc r (by simp))] at ih'
    by_cases hpr : p r = true
    · rw [if_pos hpr] at ih'
      rw [List.filter_cons_of_pos hpr, stepOk, Bool.and_eq_true]
      refine ⟨?_, ih'⟩
      have := hok.1
      unfold hasId at this ⊢
      rw [List.any_eq_true] at this ⊢
      obtain ⟨c, hc, hid⟩ := this
      have hid' : c.id = r.id := by simpa using hid
      exact ⟨c, List.mem_filter.2 ⟨hc, (h c hc r (by simp) hid').trans hpr⟩, hid⟩
    · rw [if_neg hpr] at ih'
      rw [List.filter_cons_of_neg hpr]
      exact ih'

theorem replayOkFrom_drop (p : Setting → Bool) (f : Fmts) (cur : List Setting)
    (h : Resp p (cur ++ f.settings)) (hok : replayOkFrom cur f = true) :
    replayOkFrom (cur.filter p) (dropF p f) = true := by
  induction f generalizing cur with
  | nil => rfl
  | cons kp rest ih =>
    obtain ⟨k, pt⟩ := kp
    obtain ⟨h1, h2⟩ := resp_step h
    show replayOkFrom (cur.filter p) ((k, dropPoint p pt) :: dropF p rest) = true
    simp only [replayOkFrom, Bool.and_eq_true] at hok ⊢
    refine ⟨stepOk_drop p pt.rem cur h2 hok.1, ?_⟩
    rw [← stepPoint_filter p cur pt h2]
    exact ih _ h1 hok.2

theorem mem_dropF {p : Setting → Bool} {f : Fmts} {kp : Nat × Point} (h : kp ∈ dropF p f) :
    ∃ kp' ∈ f, kp = (kp'.1, dropPoint p kp'.2) := by
  obtain ⟨kp', h1, h2⟩ := List.mem_map.1 h
  exact ⟨kp', h1, h2.symm⟩

theorem settings_dropF {p : Setting → Bool} {f : Fmts} {s : Setting} (h : s ∈ (dropF p f).settings) :
    s ∈ f.settings ∧ p s = true := by
  unfold Fmts.settings at h ⊢
  obtain ⟨kp, hkp, hs⟩ := List.mem_flatMap.1 h
  obtain ⟨kp', hkp', rfl⟩ := mem_dropF hkp
  simp only [dropPoint] at hs
  rcases List.mem_append.1 hs with hs | hs
  · have := List.mem_filter.1 hs
    exact ⟨List.mem_flatMap.2 ⟨kp', hkp', List.mem_append_left _ this.1⟩, this.2⟩
  · have := List.mem_filter.1 hs
    exact ⟨List.mem_flatMap.2 ⟨kp', hkp', List.mem_append_right _ this.1⟩, this.2⟩

/-- a selection of objects that depends on the text only -/
theorem resp_of_coherent {x : AStr} (hw : WF x) (q : Str → Bool) :
    Resp (fun s => q s.txt) ([] ++ x.fmts.settings) := by
  intro s hs t ht e
  simp only [List.nil_append] at hs ht
  show q s.txt = q t.txt
  rw [hw.coherent s hs t ht e]

/-- **dropping objects keeps the history invariant** -/
theorem drop_wf {x : AStr} (hw : WF x) (q : Str → Bool) :
    WF { x with fmts := dropF (fun s => q s.txt) x.fmts } where
  sorted := by
    have := hw.sorted
    unfold SortedKeys dropF at *
    rw [List.pairwise_map]
    exact this
  bound := by
    intro kp hkp
    obtain ⟨kp', hkp', rfl⟩ := mem_dropF hkp
    exact hw.bound kp' hkp'
  noAddEnd := by
    intro kp hkp he
    obtain ⟨kp', hkp', rfl⟩ := mem_dropF hkp
    show kp'.2.add.filter _ = []
    rw [hw.noAddEnd kp' hkp' he]
    rfl
  ok := replayOkFrom_drop _ x.fmts [] (resp_of_coherent hw q) hw.ok
  nodup := by
    intro i
    have e := activeFrom_drop _ x.fmts [] (resp_of_coherent hw q) i
    show ((activeFrom [] (dropF _ x.fmts) i).map (·.id)).Nodup
    have e' : activeFrom [] (dropF (fun s => q s.txt) x.fmts) i =
        (active x.fmts i).filter (fun s => q s.txt) := e
    rw [e']
    exact (hw.nodup i).sublist (List.Sublist.map _ List.filter_sublist)
  closed := by
    have e := activeFrom_drop _ x.fmts [] (resp_of_coherent hw q) x.len
    show activeFrom [] (dropF _ x.fmts) x.len = []
    have e' : activeFrom [] (dropF (fun s => q s.txt) x.fmts) x.len =
        (active x.fmts x.len).filter (fun s => q s.txt) := e
    rw [e', hw.closed]
    rfl
  coherent := by
    intro s hs t ht e
    exact hw.coherent s (settings_dropF hs).1 t (settings_dropF ht).1 e

theorem drop_act {x : AStr} (hw : WF x) (q : Str → Bool) (i : Nat) :
    act { x with fmts := dropF (fun s => q s.txt) x.fmts } i = (act x i).filter (fun s => q s.txt) :=
  activeFrom_drop _ x.fmts [] (resp_of_coherent hw q) i

/-- selecting everything changes nothing -/
theorem dropF_all {p : Setting → Bool} {f : Fmts} (h : ∀ s ∈ f.settings, p s = true) : dropF p f = f := by
  unfold dropF
  conv => rhs; rw [← List.map_id f]
  apply List.map_congr_left
  intro kp hkp
  have ha : kp.2.add.filter p = kp.2.add := List.filter_eq_self.2 (fun s hs =>
    h s (List.mem_flatMap.2 ⟨kp, hkp, List.mem_append_left _ hs⟩))
  have hr : kp.2.rem.filter p = kp.2.rem := List.filter_eq_self.2 (fun s hs =>
    h s (List.mem_flatMap.2 ⟨kp, hkp, List.mem_append_right _ hs⟩))
  simp only [dropPoint, ha, hr, id]

/-! ## Part C: what `parse_graphic_sequence(…, add_erroneous=False)` emits, for ANY input -/

theorem strip_noSpace {s : Str} (h : ∀ c ∈ s, Py.isSpace c = false) : Py.strip s = s := by
  have h1 : s.dropWhile Py.isSpace = s :=
    dropWhile_eq_self_of_head (fun c hc => h c (List.mem_of_mem_head? hc))
  have h2 : s.reverse.dropWhile Py.isSpace = s.reverse :=
    dropWhile_eq_self_of_head (fun c hc => h c (by simpa using List.mem_of_mem_head? hc))
  simp only [Py.strip, Py.rstripBy, h1, h2, List.reverse_reverse]

theorem intStr_noSpace (v : Int) : ∀ c ∈ Py.intStr v, Py.isSpace c = false := by
  intro c hc
  unfold Py.intStr at hc
  split at hc
  · rcases List.mem_cons.1 hc with rfl | hc
    · decide
    · exact isSpace_of_isDigit ((natStr_spec _).2.1 c hc)
  · exact isSpace_of_isDigit ((natStr_spec _).2.1 c hc)

theorem strip_intStr (v : Int) : Py.strip (Py.intStr v) = Py.intStr v := strip_noSpace (intStr_noSpace v)

theorem parseDigitsU_none {s : Str} (hne : s ≠ []) (h : AllDigits s) :
    Py.parseDigitsU s none false = some (Py.digitsVal s) := by
  match s, hne, h with
  | c :: rest, _, h =>
    have hc : Py.isDigit c = true := h c (by simp)
    simp only [Py.parseDigitsU, hc, if_true, Option.getD_none]
    rw [parseDigitsU_digits rest _ (fun d hd => h d (by simp [hd]))]
    simp [Py.digitsVal]

/-- `int(str(v)) = v` -/
theorem int_intStr (v : Int) : Py.int (Py.intStr v) = some v := by
  by_cases hv : v < 0
  · have e : Py.intStr v = '-' :: Py.natStr v.natAbs := by simp [Py.intStr, hv]
    unfold Py.int
    rw [strip_intStr, e]
    have hs := natStr_spec v.natAbs
    simp only [parseDigitsU_none hs.1 hs.2.1, hs.2.2]
    show some (-(v.natAbs : Int)) = some v
    congr 1
    omega
  · have e : Py.intStr v = Py.natStr v.toNat := by simp [Py.intStr, hv]
    rw [e, int_natStr]
    congr 1
    omega

theorem initialParam_intStr (v : Int) : SettingTxt.initialParam (Py.intStr v) = ansiParam v := by
  unfold SettingTxt.initialParam
  rw [splitOnChar_noSep (intStr_noSemi v)]
  simp [int_intStr]

theorem joinInts_one (v : Int) : joinInts [v] = Py.intStr v := rfl

theorem ansiParam_zero_fn : (ansiParam 0).map (·.2) = some Gen.fnResetAll := by decide

/-- a single code that `settings_to_dict` files as an *apply* and that does not open an extended
    colour is a parsable setting -/
theorem single_parsable {v : Int} (h38 : v ≠ 38) (h48 : v ≠ 48) (h58 : v ≠ 58) {e : Nat}
    (hi : SettingTxt.initialParam (joinInts [v]) = some (e, Gen.fnApply)) :
    SettingTxt.parsable (joinInts [v]) = true := by
  rw [joinInts_one, initialParam_intStr] at hi
  have hv : ¬ v < 0 := by
    intro hv
    unfold ansiParam at hi
    rw [if_pos hv] at hi
    cases hi
  obtain ⟨c, rfl⟩ : ∃ c : Nat, v = (c : Int) := ⟨v.toNat, by omega⟩
  rw [joinInts_one, intStr_natCast]
  apply C15.codes_parsable
  · apply Nat.lt_of_not_le
    intro hge
    rw [ansiParam_ge hge] at hi
    cases hi
  · rintro rfl
    have := ansiParam_zero_fn
    rw [show ((0 : Nat) : Int) = 0 from rfl] at hi
    rw [hi] at this
    simp only [Option.map_some, Option.some.injEq] at this
    exact fn_distinct.1 this.symm
  · simp only [List.mem_cons, List.not_mem_nil, or_false, not_or]
    omega
  · rw [hi]; simp

/-- the two ways a text gets into the result of `parse_graphic_sequence(…, add_erroneous=False)` -/
def Emitted (t : Str) : Prop :=
  (∃ v : Int, t = joinInts [v] ∧ v ≠ 38 ∧ v ≠ 48 ∧ v ≠ 58) ∨
  (∃ cur : List Int, cur ≠ [] ∧ t = joinInts cur ∧ SettingTxt.parsable t = true)

theorem pgsFnLoop_nonExtInt {v : Int} (a1 : v ≠ 38) (a2 : v ≠ 48) (a3 : v ≠ 58) (tl : List Code) :
    pgsFnLoop (Code.int v :: tl) v Gen.ctrlFns (1, false, false) = (1, false, false) := by
  have b1 : (38 : Int) ≠ v := fun e => a1 e.symm
  have b2 : (48 : Int) ≠ v := fun e => a2 e.symm
  have b3 : (58 : Int) ≠ v := fun e => a3 e.symm
  rw [ctrlFns_eq]
  simp [pgsFnLoop, SettingTxt.startsWithFn, a1, a2, a3, b1, b2, b3]

theorem loop_singleInt {v : Int} (a1 : v ≠ 38) (a2 : v ≠ 48) (a3 : v ≠ 58) (rest : List Code) (l : Int)
    (o : List Str) :
    pgsLoop false (Code.int v :: rest) ⟨l, [], o⟩ = pgsLoop false rest ⟨0, [], o ++ [joinInts [v]]⟩ := by
  rw [pgsLoop]
  simp [pgsFnLoop_nonExtInt a1 a2 a3]

theorem loop_str (s : Str) (rest : List Code) (st : PgsSt) :
    pgsLoop false (Code.str s :: rest) st = pgsLoop false rest st := by
  rw [pgsLoop]
  simp

theorem pgsLoop_emitted (items : List Code) : ∀ st : PgsSt, (∀ t ∈ st.out, Emitted t) →
    ∀ t ∈ (pgsLoop false items st).out, Emitted t := by
  induction items with
  | nil => intro st h; rw [pgsLoop_nil]; exact h
  | cons it rest ih =>
    intro st h
    cases it with
    | str s => rw [loop_str]; exact ih st h
    | int v =>
      obtain ⟨l, cur, o⟩ := st
      by_cases hc : cur = []
      · subst hc
        by_cases hext : v = 38 ∨ v = 48 ∨ v = 58
        · obtain ⟨c, rfl⟩ : ∃ c : Nat, v = (c : Int) := ⟨v.toNat, by omega⟩
          have hE : IsExt c := by unfold IsExt; omega
          by_cases h5 : rest.head? = some (Code.int 5)
          · cases rest with
            | nil => cases h5
            | cons x rest' =>
              have : x = Code.int 5 := by simpa using h5
              subst this
              rw [loop_open5 hE rest' l o]
              exact ih _ h
          · by_cases h2 : rest.head? = some (Code.int 2)
            · cases rest with
              | nil => cases h2
              | cons x rest' =>
                have : x = Code.int 2 := by simpa using h2
                subst this
                rw [loop_open2 hE rest' l o]
                exact ih _ h
            · rw [loop_skip hE rest h5 h2 l o]
              exact ih _ h
        · simp only [not_or] at hext
          rw [loop_singleInt hext.1 hext.2.1 hext.2.2]
          apply ih
          intro t ht
          rcases List.mem_append.1 ht with ht | ht
          · exact h t ht
          · have : t = joinInts [v] := by simpa using ht
            exact Or.inl ⟨v, this, hext.1, hext.2.1, hext.2.2⟩
      · by_cases hl : 1 < l
        · rw [loop_cont v rest l cur o hc hl]
          exact ih _ h
        · rw [loop_flush v rest l cur o hc (by omega)]
          apply ih
          intro t ht
          simp only at ht
          split at ht
          · rename_i hp
            rcases List.mem_append.1 ht with ht | ht
            · exact h t ht
            · have : t = joinInts (cur ++ [v]) := by simpa using ht
              subst this
              exact Or.inr ⟨cur ++ [v], by simp, rfl, hp⟩
          · exact h t ht

theorem pgsStr_emitted (p : Str) : ∀ t ∈ pgsStr p false, t = ['0'] ∨ Emitted t := by
  intro t ht
  unfold pgsStr at ht
  split at ht
  · left; simpa using ht
  · right
    unfold pgsItems at ht
    simp only [Bool.false_eq_true, and_false, if_false] at ht
    exact pgsLoop_emitted _ {} (fun _ h => by cases h) t ht

/-- the canonical texts: parsable, and written as `';'.join(str(int) …)` -/
def Canon (t : Str) : Prop :=
  SettingTxt.parsable t = true ∧ ∃ cur : List Int, cur ≠ [] ∧ t = joinInts cur

theorem initialParam_zero_fn : (SettingTxt.initialParam ['0']).map (·.2) = some Gen.fnResetAll := by decide

/-- **whatever the input**, a text of `parse_graphic_sequence(p)` that `settings_to_dict` files in
    the dict (first code known, an *apply*) is canonical -/
theorem canon_of_pgs (p : Str) {t : Str} (ht : t ∈ pgsStr p false) {e : Nat}
    (hi : SettingTxt.initialParam t = some (e, Gen.fnApply)) : Canon t := by
  rcases pgsStr_emitted p t ht with rfl | ⟨v, rfl, h38, h48, h58⟩ | ⟨cur, hne, rfl, hp⟩
  · have := initialParam_zero_fn
    rw [hi] at this
    simp only [Option.map_some, Option.some.injEq] at this
    exact absurd this.symm fn_distinct.1
  · exact ⟨single_parsable h38 h48 h58 hi, [v], by simp, rfl⟩
  · exact ⟨hp, cur, hne, rfl⟩

theorem GroupVals_of_groupVals {vals : List Nat} (h : ScrubL.groupVals vals) : GroupVals vals := by
  obtain ⟨hle, first, rest, rfl, _, _, hif⟩ := h
  by_cases hext : first = 38 ∨ first = 48 ∨ first = 58
  · rw [if_pos hext] at hif
    rcases hif with ⟨n, rfl⟩ | ⟨r, g, b, rfl⟩
    · exact .idx first n hext (hle n (by simp))
    · exact .rgb first r g b hext (hle r (by simp)) (hle g (by simp)) (hle b (by simp))
  · rw [if_neg hext] at hif
    subst hif
    simp only [not_or] at hext
    exact .single first hext.1 hext.2.1 hext.2.2

/-- a canonical text is a group text -/
theorem group_of_canon {t : Str} (h : Canon t) : isGroupTxt t = true := by
  obtain ⟨hp, cur, hne, rfl⟩ := h
  have hsplit := split_joinInts hne
  have hitems : ScrubL.items (joinInts cur) = Py.splitOnChar ';' (joinInts cur) := by
    unfold ScrubL.items
    rw [hsplit, List.map_map]
    apply List.map_congr_left
    intro v _
    exact strip_intStr v
  obtain ⟨h1, h2⟩ := (ScrubL.parsable_iff_items _).1 hp
  rw [hitems] at h1 h2
  exact isGroupTxt_of_spec h1 (GroupVals_of_groupVals h2)

theorem parsable_valid {t : Str} (h : SettingTxt.parsable t = true) : SettingTxt.valid t = true :=
  C15.parsable_valid t h

/-! ## Part D: every setting `set_ansi_str` puts into a table -/

/-- an entry of `settings_to_dict(ss, old)` is an entry of `old` or one of `ss` that applies -/
theorem mem_std {ss : List Setting} {old : PyDict} {kv : Nat × Setting}
    (h : kv ∈ settingsToDict ss old) :
    kv ∈ old ∨ (kv.2 ∈ ss ∧ SettingTxt.initialParam kv.2.txt = some (kv.1, Gen.fnApply)) := by
  induction ss generalizing old with
  | nil => exact Or.inl h
  | cons s ss ih =>
    rw [settingsToDict_cons] at h
    rcases ih h with h1 | h1
    · unfold dictStep at h1
      split at h1
      · exact Or.inl h1
      · rename_i eff fn heq
        split at h1
        · rename_i hfn
          rcases Eff.mem_insert h1 with e | e
          · right
            have hfn' : fn = Gen.fnApply := by simpa using hfn
            subst e
            exact ⟨by simp, by rw [heq, hfn']⟩
          · exact Or.inl e
        · split at h1
          · exact Or.inl (List.mem_filter.mp h1).1
          · cases h1
    · exact Or.inr ⟨List.mem_cons_of_mem _ h1.1, h1.2⟩

theorem stepRemove_settings {x : AStr} (hw : WF x) (R : List Setting) (key : Nat) :
    ∀ s ∈ (stepRemove x R key).fmts.settings, s ∈ x.fmts.settings := by
  unfold stepRemove
  split
  · exact fun s hs => hs
  · exact removeNoNewSettings x _ _ _ hw

theorem mem_freshSettings {nid : Nat} {ts : List Str} {s : Setting} (h : s ∈ freshSettings nid ts) :
    s.txt ∈ ts := by
  have : s.txt ∈ texts (freshSettings nid ts) := List.mem_map.2 ⟨s, h, rfl⟩
  rwa [texts_freshSettings] at this

theorem stepApply_settings {x : AStr} (hw : WF x) {nid : Nat} (hf : FreshFrom x nid) (N : List Setting)
    (key : Nat) :
    ∀ s ∈ (stepApply x nid N key).fmts.settings, s.txt ∈ texts N ∨ s ∈ x.fmts.settings := by
  unfold stepApply
  split
  · exact fun s hs => Or.inr hs
  · intro s hs
    rcases apply_settings_sub _ _ true hw (freshSettings_fresh x nid (texts N) hf) s hs with h | h
    · exact Or.inl (mem_freshSettings h)
    · exact Or.inr h

/-- the loop state: history invariant, identities, and a predicate `G` on every text in the table
    and in `current_settings` -/
structure PInv (G : Str → Prop) (x : AStr) (d : PyDict) (nid : Nat) : Prop where
  wf : WF x
  fresh : FreshFrom x nid
  tab : ∀ s ∈ x.fmts.settings, G s.txt
  dict : ∀ kv ∈ d, G kv.2.txt

theorem stepFn_pinv {G : Str → Prop}
    (hG : ∀ (p : Str), ∀ s ∈ seqSettings p, ∀ e, SettingTxt.initialParam s.txt = some (e, Gen.fnApply) → G s.txt)
    {x : AStr} {d : PyDict} {nid : Nat} (h : PInv G x d nid) (ks : Nat × Str) :
    PInv G (stepFn (x, d, nid) ks).1 (stepFn (x, d, nid) ks).2.1 (stepFn (x, d, nid) ks).2.2 := by
  unfold stepFn
  by_cases hlt : ks.1 < x.len
  · rw [setAnsiStep_eq x d nid ks.1 ⟨ks.2, ['m']⟩ hlt]
    simp only
    have hnew : ∀ kv ∈ settingsToDict (seqSettings ks.2) d, G kv.2.txt := by
      intro kv hkv
      rcases mem_std hkv with h1 | ⟨h1, h2⟩
      · exact h.dict kv h1
      · exact hG ks.2 kv.2 h1 kv.1 h2
    generalize settingsToDict (seqSettings ks.2) d = new at hnew ⊢
    have hN : ∀ t ∈ texts (toApplyOf d new), G t := by
      intro t ht
      unfold texts toApplyOf at ht
      simp only [List.mem_map, List.mem_filter] at ht
      obtain ⟨s, ⟨kv, ⟨hkv, _⟩, rfl⟩, rfl⟩ := ht
      exact hnew kv hkv
    generalize toRemoveOf d new = R
    generalize toApplyOf d new = N at hN ⊢
    obtain ⟨r1, r2, r3, _, _⟩ := stepRemove_spec x h.wf R ks.1 hlt
    have hl1 : (stepRemove x R ks.1).len = x.len := len_of_s r2
    obtain ⟨a1, _, a3, _, _⟩ := stepApply_spec (stepRemove x R ks.1) r1 nid (r3 nid h.fresh) N ks.1
      (by omega)
    refine ⟨a1, a3, ?_, hnew⟩
    intro s hs
    rcases stepApply_settings r1 (r3 nid h.fresh) N ks.1 s hs with h1 | h1
    · exact hN _ h1
    · exact h.tab s (stepRemove_settings h.wf R ks.1 s h1)
  · rw [setAnsiStep_skip (x, d, nid) ks.1 _ (by simp only; omega)]
    exact h

theorem fold_pinv {G : Str → Prop}
    (hG : ∀ (p : Str), ∀ s ∈ seqSettings p, ∀ e, SettingTxt.initialParam s.txt = some (e, Gen.fnApply) → G s.txt)
    (L : List (Nat × Str)) : ∀ (x : AStr) (d : PyDict) (nid : Nat), PInv G x d nid →
      PInv G (L.foldl stepFn (x, d, nid)).1 (L.foldl stepFn (x, d, nid)).2.1 (L.foldl stepFn (x, d, nid)).2.2 := by
  induction L with
  | nil => intro x d nid h; exact h
  | cons ks L ih =>
    intro x d nid h
    rw [List.foldl_cons]
    have := stepFn_pinv hG h ks
    generalize stepFn (x, d, nid) ks = acc at this
    obtain ⟨x', d', nid'⟩ := acc
    exact ih x' d' nid' this

theorem canon_seqSettings (p : Str) : ∀ s ∈ seqSettings p, ∀ e,
    SettingTxt.initialParam s.txt = some (e, Gen.fnApply) → Canon s.txt := by
  intro s hs e hi
  unfold seqSettings at hs
  obtain ⟨t, ht, rfl⟩ := List.mem_map.1 hs
  exact canon_of_pgs p ht hi

/-- **every setting text in a value made by `set_ansi_str` is canonical**, whatever the input -/
theorem setAnsi_canon (r : Str) (nid : Nat) : ∀ s ∈ (AStr.setAnsi r nid).1.fmts.settings, Canon s.txt := by
  rw [setAnsi_eq_fold]
  exact (fold_pinv canon_seqSettings (sgrs r) _ [] nid
    ⟨wf_plain _, freshFrom_plain _ _, (fun _ h => by cases h), (fun _ h => by cases h)⟩).tab

theorem setAnsi_group (r : Str) (nid : Nat) : GroupSettings (AStr.setAnsi r nid).1 :=
  fun s hs => group_of_canon (setAnsi_canon r nid s hs)

theorem mem_settings_add {x : AStr} {kp : Nat × Point} (hkp : kp ∈ x.fmts) {s : Setting} (hs : s ∈ kp.2.add) :
    s ∈ x.fmts.settings :=
  List.mem_flatMap.2 ⟨kp, hkp, List.mem_append_left _ hs⟩

theorem setAnsi_parsable (r : Str) (nid : Nat) : (AStr.setAnsi r nid).1.isFormattingParsable = true := by
  unfold AStr.isFormattingParsable
  rw [List.all_eq_true]
  intro kp hkp
  rw [List.all_eq_true]
  intro s hs
  exact (setAnsi_canon r nid s (mem_settings_add hkp hs)).1

theorem setAnsi_valid (r : Str) (nid : Nat) : (AStr.setAnsi r nid).1.isFormattingValid = true :=
  groupSettings_valid (setAnsi_group r nid)

end RoundTripL
