import AnsiProofs.Props.C02
import AnsiProofs.Props.C04
import AnsiProofs.Props.C05
import AnsiProofs.Props.C06
import AnsiProofs.Props.C10
/-
  Helper lemmas for property C11, `replace` / `expandtabs` clause (the SETTINGS of the result; its
  text is property C10).

  * §1 `styled y`: the text of `y` with the setting texts each character reports; the list
       functions `styAux` it is made of (append / take / drop / congruence).
  * §2 settings membership: a slice mentions only settings of the original
       (`getSlice_settings_sub`), `apply_formatting` on a plain value only the new objects.
  * §3 one iteration of the loop of `replace`: `step_act_before`, `step_act_rep`,
       `step_act_after`, `step_styled`, `step_wf`.
  * §4 the value inserted for a plain-`str` replacement (`strRep_*`).
  * §5 the loop against ANY function `R` on styled lists that satisfies the three
       "first occurrence" equations (`replaceLoop_styled`), and its two instances
       (`astr_step`, `str_step`).

  Everything lives in `namespace ReplaceL`.
-/

namespace ReplaceL

open StrLikeL ConcatL

/-- a character together with the setting texts it reports (lowest precedence first) -/
abbrev SChar := Char × List Str

/-! ## 1 — styled lists -/

/-- `y.s` with, for every character, the texts of the settings it reports -/
def styled (y : AStr) : List SChar := y.s.zipIdx.map (fun (c, i) => (c, texts (act y i)))

/-- the characters of `s`, character `k` carrying `f (n + k)` -/
def styAux (f : Nat → List Str) : Str → Nat → List SChar
  | [], _ => []
  | c :: s, n => (c, f n) :: styAux f s (n + 1)

theorem zipIdx_map_sty (f : Nat → List Str) (s : Str) (n : Nat) :
    (s.zipIdx n).map (fun (c, i) => (c, f i)) = styAux f s n := by
  induction s generalizing n with
  | nil => rfl
  | cons c s ih => simp only [List.zipIdx_cons, List.map_cons, styAux, ih]

theorem styled_eq (y : AStr) : styled y = styAux (fun i => texts (act y i)) y.s 0 :=
  zipIdx_map_sty (fun i => texts (act y i)) y.s 0

theorem styAux_append (f : Nat → List Str) (a b : Str) (n : Nat) :
    styAux f (a ++ b) n = styAux f a n ++ styAux f b (n + a.length) := by
  induction a generalizing n with
  | nil => rfl
  | cons c a ih =>
    simp only [List.cons_append, styAux, ih, List.length_cons]
    congr 3; omega

theorem styAux_congr {f g : Nat → List Str} (s : Str) (n : Nat)
    (h : ∀ k, k < s.length → f (n + k) = g (n + k)) : styAux f s n = styAux g s n := by
  induction s generalizing n with
  | nil => rfl
  | cons c s ih =>
    simp only [styAux]
    rw [show f n = g n from h 0 (by simp), ih (n + 1) (fun k hk => by
      have := h (k + 1) (by simpa using hk)
      rwa [show n + (k + 1) = n + 1 + k by omega] at this)]

theorem styAux_shift (f : Nat → List Str) (s : Str) (n d : Nat) :
    styAux f s (n + d) = styAux (fun k => f (k + d)) s n := by
  induction s generalizing n with
  | nil => rfl
  | cons c s ih =>
    simp only [styAux]
    rw [show n + d + 1 = n + 1 + d by omega, ih]

theorem styAux_shift0 (f : Nat → List Str) (s : Str) (d : Nat) :
    styAux f s d = styAux (fun k => f (k + d)) s 0 := by
  have := styAux_shift f s 0 d
  rwa [Nat.zero_add] at this

theorem styAux_map_fst (f : Nat → List Str) (s : Str) (n : Nat) :
    (styAux f s n).map (·.1) = s := by
  induction s generalizing n with
  | nil => rfl
  | cons c s ih => simp only [styAux, List.map_cons, ih]

theorem styAux_length (f : Nat → List Str) (s : Str) (n : Nat) : (styAux f s n).length = s.length := by
  induction s generalizing n with
  | nil => rfl
  | cons c s ih => simp only [styAux, List.length_cons, ih]

theorem styAux_take (f : Nat → List Str) (s : Str) (n m : Nat) :
    (styAux f s n).take m = styAux f (s.take m) n := by
  induction s generalizing n m with
  | nil => simp [styAux]
  | cons c s ih =>
    cases m with
    | zero => simp [styAux]
    | succ m => simp only [styAux, List.take_succ_cons, ih]

theorem styAux_drop (f : Nat → List Str) (s : Str) (n m : Nat) :
    (styAux f s n).drop m = styAux f (s.drop m) (n + m) := by
  induction s generalizing n m with
  | nil => simp [styAux]
  | cons c s ih =>
    cases m with
    | zero => simp [styAux]
    | succ m =>
      simp only [styAux, List.drop_succ_cons, ih]
      congr 1; omega

theorem styAux_getElem? (f : Nat → List Str) (s : Str) (n k : Nat) :
    (styAux f s n)[k]? = (s[k]?).map (fun c => (c, f (n + k))) := by
  induction s generalizing n k with
  | nil => simp [styAux]
  | cons c s ih =>
    cases k with
    | zero => simp [styAux]
    | succ k =>
      simp only [styAux, List.getElem?_cons_succ, ih]
      rw [show n + 1 + k = n + (k + 1) by omega]

theorem styAux_const (t : List Str) (s : Str) (n : Nat) :
    styAux (fun _ => t) s n = s.map (fun c => (c, t)) := by
  induction s generalizing n with
  | nil => rfl
  | cons c s ih => simp only [styAux, List.map_cons, ih]

theorem styled_map_fst (y : AStr) : (styled y).map (·.1) = y.s := by
  rw [styled_eq, styAux_map_fst]

theorem styled_length (y : AStr) : (styled y).length = y.len := by
  rw [styled_eq, styAux_length]; rfl

theorem styled_getElem? (y : AStr) (k : Nat) :
    (styled y)[k]? = (y.s[k]?).map (fun c => (c, texts (act y k))) := by
  rw [styled_eq, styAux_getElem?]
  simp

/-! ## 2 — settings membership -/

/-- a slice mentions only settings of the original -/
theorem getRange_settings_sub (x : AStr) (h : WF x) (st : Nat) {en : Nat} (hen : en ≤ x.len) :
    ∀ s ∈ (x.getRange st en).fmts.settings, s ∈ x.fmts.settings := by
  by_cases he : pySlice x.s st en = []
  · rw [getRange_of_empty x he]
    intro s hs
    simp [Fmts.settings] at hs
  · have hse := pySlice_eq_nil_of_not hen he
    have hs := h.sorted
    have hsy := getRange_sorted x hs hse hen
    have hf := getRange_toFun_eq x hs hse hen
    intro s hsm
    obtain ⟨k, hk⟩ := (settings_iff _ hsy s).mp hsm
    rw [hf] at hk
    have fromAct : ∀ i, s ∈ activeFn (Fmts.toFun x.fmts) i → s ∈ x.fmts.settings := by
      intro i hi
      obtain ⟨k', hk'⟩ := mem_activeFn hi
      exact (settings_iff _ hs s).mpr ⟨k', Or.inl hk'⟩
    unfold sliceFn at hk
    by_cases h0 : k = 0
    · simp only [h0, if_true] at hk
      rcases hk with hk | hk
      · exact fromAct _ hk
      · cases hk
    · simp only [h0, if_false] at hk
      by_cases h1 : k < en - st
      · simp only [h1, if_true] at hk
        exact (settings_iff _ hs s).mpr ⟨_, hk⟩
      · simp only [h1, if_false] at hk
        by_cases h2 : k = en - st
        · simp only [h2, if_true, closePoint] at hk
          rcases hk with hk | hk
          · cases hk
          · rcases List.mem_append.mp hk with hk | hk
            · exact (settings_iff _ hs s).mpr ⟨_, Or.inr hk⟩
            · exact fromAct _ (List.mem_filter.mp hk).1
        · simp only [h2, if_false] at hk
          rcases hk with hk | hk <;> cases hk

theorem getSlice_settings_sub (x : AStr) (h : WF x) (a b : Option Int) :
    ∀ s ∈ (x.getSlice a b).fmts.settings, s ∈ x.fmts.settings :=
  getRange_settings_sub x h _ (C04.sliceIdx_stop_le x.len b)

/-! ## 3 — one iteration of the loop -/

/-- `obj[:i] + rep + obj[i+n:]` -/
def stepObj (obj rep : AStr) (i n : Nat) : AStr :=
  ((obj.getSlice none (some (i : Int))).iadd rep).iadd (obj.getSlice (some ((i + n : Nat) : Int)) none)

theorem head_len (obj : AStr) {i : Nat} (hi : i ≤ obj.len) :
    (obj.getSlice none (some (i : Int))).len = i := by
  unfold AStr.len at *
  rw [getSlice_to_s, List.length_take]; omega

theorem tail_len (obj : AStr) (j : Nat) :
    (obj.getSlice (some (j : Int)) none).len = obj.len - j := by
  unfold AStr.len
  rw [getSlice_from_s, List.length_drop]

theorem stepObj_s (obj rep : AStr) (i n : Nat) :
    (stepObj obj rep i n).s = obj.s.take i ++ rep.s ++ obj.s.drop (i + n) := by
  unfold stepObj
  rw [iadd_s, iadd_s, getSlice_to_s, getSlice_from_s]

theorem head_pair {obj rep : AStr} (hw : WF obj) (hc : CoherentPair obj rep) (i : Nat) :
    CoherentPair (obj.getSlice none (some (i : Int))) rep :=
  fun s hs t ht e => hc s (getSlice_settings_sub obj hw _ _ s hs) t ht e

theorem head_wf {obj rep : AStr} (hw : WF obj) (hr : WF rep) (hc : CoherentPair obj rep) (i : Nat) :
    WF ((obj.getSlice none (some (i : Int))).iadd rep) :=
  C05.iadd_wf _ _ (C04.getSlice_wf obj hw _ _) hr (head_pair hw hc i)

theorem step_settings_sub {obj rep : AStr} (hw : WF obj) (hr : WF rep) (hc : CoherentPair obj rep)
    (i n : Nat) : ∀ s ∈ (stepObj obj rep i n).fmts.settings, s ∈ obj.fmts.settings ∨ s ∈ rep.fmts.settings := by
  intro s hs
  rcases mem_iadd_settings (head_wf hw hr hc i) (C04.getSlice_wf obj hw _ _) hs with h | h
  · rcases mem_iadd_settings (C04.getSlice_wf obj hw _ _) hr h with h | h
    · exact Or.inl (getSlice_settings_sub obj hw _ _ s h)
    · exact Or.inr h
  · exact Or.inl (getSlice_settings_sub obj hw _ _ s h)

theorem step_wf {obj rep : AStr} (hw : WF obj) (hr : WF rep) (hc : CoherentPair obj rep) (i n : Nat) :
    WF (stepObj obj rep i n) := by
  refine C05.iadd_wf _ _ (head_wf hw hr hc i) (C04.getSlice_wf obj hw _ _) ?_
  intro s hs t ht e
  have ht' := getSlice_settings_sub obj hw _ _ t ht
  rcases mem_iadd_settings (C04.getSlice_wf obj hw _ _) hr hs with h | h
  · exact hw.coherent s (getSlice_settings_sub obj hw _ _ s h) t ht' e
  · exact (hc t ht' s h e.symm).symm

/-- characters in front of the match keep their settings (same objects, same order) -/
theorem step_act_before {obj rep : AStr} (hw : WF obj) (hr : WF rep) (hc : CoherentPair obj rep)
    {i n k : Nat} (hi : i ≤ obj.len) (hk : k < i) :
    act (stepObj obj rep i n) k = act obj k := by
  have hA := C04.getSlice_wf obj hw none (some (i : Int))
  have hl := head_len obj hi
  unfold stepObj
  rw [C05.iadd_left _ _ (head_wf hw hr hc i) (C04.getSlice_wf obj hw _ _) (by rw [iadd_len, hl]; omega),
    C05.iadd_left _ _ hA hr (by rw [hl]; exact hk),
    C04.getSlice_settings obj hw none (some (i : Int)) (by
      rw [sliceIdx_ofNat]; simp only [sliceIdx]; omega)]
  simp [sliceIdx]

/-- the inserted characters report the setting texts of the replacement value -/
theorem step_act_rep {obj rep : AStr} (hw : WF obj) (hr : WF rep) (hc : CoherentPair obj rep)
    {i n q : Nat} (hi : i ≤ obj.len) (hq : q < rep.len) :
    texts (act (stepObj obj rep i n) (i + q)) = texts (act rep q) := by
  have hA := C04.getSlice_wf obj hw none (some (i : Int))
  have hl := head_len obj hi
  unfold stepObj
  rw [C05.iadd_left _ _ (head_wf hw hr hc i) (C04.getSlice_wf obj hw _ _) (by rw [iadd_len, hl]; omega)]
  have := C05.iadd_right _ _ hA hr hq
  rwa [hl] at this

/-- characters behind the match keep their setting texts -/
theorem step_act_after {obj rep : AStr} (hw : WF obj) (hr : WF rep) (hc : CoherentPair obj rep)
    {i n k : Nat} (hi : i ≤ obj.len) (hk : i + n + k < obj.len) :
    texts (act (stepObj obj rep i n) (i + rep.len + k)) = texts (act obj (i + n + k)) := by
  have hl := head_len obj hi
  have hC := C04.getSlice_wf obj hw (some ((i + n : Nat) : Int)) none
  have h1 := C05.iadd_right _ _ (head_wf hw hr hc i) hC (k := k) (by rw [tail_len]; omega)
  rw [iadd_len, hl] at h1
  unfold stepObj
  rw [h1, C04.getSlice_settings obj hw (some ((i + n : Nat) : Int)) none (by
    rw [sliceIdx_ofNat]; simp only [sliceIdx]; omega), sliceIdx_ofNat]
  congr 2
  omega

/-- one iteration on styled lists: everything in front of and behind the match is kept, the
    match is replaced by the styled replacement value -/
theorem step_styled {obj rep : AStr} (hw : WF obj) (hr : WF rep) (hc : CoherentPair obj rep)
    {i n : Nat} (hi : i + n ≤ obj.len) :
    styled (stepObj obj rep i n) = (styled obj).take i ++ styled rep ++ (styled obj).drop (i + n) := by
  have hi' : i ≤ obj.len := by omega
  rw [styled_eq, styled_eq obj, styled_eq rep, stepObj_s, styAux_append, styAux_append, styAux_take,
    styAux_drop]
  have hlt : (obj.s.take i).length = i := by
    rw [List.length_take]; unfold AStr.len at hi'; omega
  congr 1
  · congr 1
    · apply styAux_congr
      intro k hk
      rw [hlt] at hk
      simp only [Nat.zero_add]
      rw [step_act_before hw hr hc hi' hk]
    · rw [hlt, Nat.zero_add, styAux_shift0]
      apply styAux_congr
      intro q hq
      simp only [Nat.zero_add]
      rw [Nat.add_comm q i]
      exact step_act_rep hw hr hc hi' hq
  · rw [List.length_append, hlt, Nat.zero_add, Nat.zero_add, styAux_shift0 _ _ (i + rep.s.length),
      styAux_shift0 _ _ (i + n)]
    apply styAux_congr
    intro k hk
    rw [List.length_drop] at hk
    simp only [Nat.zero_add]
    rw [Nat.add_comm k, Nat.add_comm k]
    exact step_act_after hw hr hc hi' (by unfold AStr.len; omega)

/-! ## 4 — the value inserted for a plain-`str` replacement -/

theorem plain_wf (raw : Str) : WF { s := raw, fmts := [] } where
  sorted := by simp [SortedKeys]
  bound := by simp
  noAddEnd := by simp
  ok := rfl
  nodup := by intro i; simp [active, activeFrom]
  closed := rfl
  coherent := by simp [Fmts.settings]

/-- `AnsiString(raw, settings)` for a `raw` without ESC: the plain text with fresh copies of the
    settings `ts` applied over all of it -/
def strRep (raw : Str) (nid : Nat) (ts : List Str) : AStr :=
  ({ s := raw, fmts := [] } : AStr).applyFormatting (freshSettings nid ts) none none true

theorem plain_fresh (raw : Str) (nid : Nat) (ts : List Str) :
    FreshN { s := raw, fmts := [] } (freshSettings nid ts) := by
  refine ⟨?_, ?_⟩
  · intro s _ t ht
    simp [Fmts.settings] at ht
  · rw [freshSettings_ids]
    exact List.nodup_range'

theorem repOf_str (raw : Str) (h : '\x1b' ∉ raw) (obj : AStr) {i : Nat} (hi : i < obj.len) (nid : Nat) :
    repOf (.str raw) obj i nid = (strRep raw nid (texts (act obj i)), nid + (act obj i).length) := by
  have ha : obj.ansiSettingsAt (i : Int) = act obj i := by
    unfold AStr.ansiSettingsAt act
    have : (0 : Int) ≤ (i : Int) ∧ (i : Int) < (obj.len : Int) := by omega
    rw [if_pos this]
    rfl
  unfold repOf
  simp only [C02.parse_plain raw nid h, ha]
  rfl

theorem strRep_wf (raw : Str) (nid : Nat) (ts : List Str) : WF (strRep raw nid ts) :=
  apply_wf _ _ _ _ _ (plain_wf raw) (plain_fresh raw nid ts)

theorem strRep_s (raw : Str) (nid : Nat) (ts : List Str) : (strRep raw nid ts).s = raw :=
  apply_text _ _ _ _ _

theorem strRep_settings_sub (raw : Str) (nid : Nat) (ts : List Str) :
    ∀ s ∈ (strRep raw nid ts).fmts.settings, s ∈ freshSettings nid ts := by
  intro s hs
  unfold strRep at hs
  rcases apply_cases { s := raw, fmts := [] } (freshSettings nid ts) none none true rfl rfl with
    h | ⟨h1, h2, hN⟩
  · rw [h] at hs
    simp [Fmts.settings] at hs
  · obtain ⟨_, hs', hu, _⟩ := apply_topUpd (plain_wf raw) (plain_fresh raw nid ts) rfl rfl h1 h2 hN
    obtain ⟨k, hk⟩ := (Fmts.mem_settings_iff hs' s).mp hs
    rcases hu.mem_new hk with h | ⟨j, hj⟩
    · exact h
    · simp [Fmts.toFun, Fmts.getD, Fmts.get?] at hj

theorem strRep_ids (raw : Str) (nid : Nat) (ts : List Str) :
    ∀ s ∈ (strRep raw nid ts).fmts.settings, nid ≤ s.id ∧ s.id < nid + ts.length := by
  intro s hs
  have h1 : s.id ∈ (freshSettings nid ts).map (·.id) :=
    List.mem_map.mpr ⟨s, strRep_settings_sub raw nid ts s hs, rfl⟩
  rw [freshSettings_ids, List.mem_range'_1] at h1
  exact h1

theorem texts_freshSettings_aux (nid : Nat) (ts : List Str) (k : Nat) :
    texts ((ts.zipIdx k).map (fun (ti : Str × Nat) => (⟨nid + ti.2, ti.1⟩ : Setting))) = ts := by
  induction ts generalizing k with
  | nil => rfl
  | cons t ts ih =>
    simp only [List.zipIdx_cons, List.map_cons, texts] at ih ⊢
    rw [ih (k + 1)]

theorem texts_freshSettings (nid : Nat) (ts : List Str) : texts (freshSettings nid ts) = ts :=
  texts_freshSettings_aux nid ts 0

/-- every character of the inserted value reports exactly (copies of) the given settings -/
theorem strRep_act (raw : Str) (nid : Nat) (ts : List Str) {q : Nat} (hq : q < raw.length) :
    act (strRep raw nid ts) q = freshSettings nid ts := by
  have := apply_top_until { s := raw, fmts := [] } (freshSettings nid ts) none none
    (st := 0) (en := raw.length) rfl rfl (plain_wf raw) (plain_fresh raw nid ts) q (Nat.zero_le _) hq
    (by show 0 < raw.length; omega) (fun k _ _ => by simp [Fmts.getD, Fmts.get?])
  unfold strRep
  rw [this]
  simp [act, active, activeFrom]

theorem strRep_styled (raw : Str) (nid : Nat) (ts : List Str) :
    styled (strRep raw nid ts) = raw.map (fun c => (c, ts)) := by
  rw [styled_eq, strRep_s, ← styAux_const ts raw 0]
  apply styAux_congr
  intro k hk
  simp only [Nat.zero_add]
  rw [strRep_act raw nid ts hk, texts_freshSettings]

/-! ## 5 — the loop -/

theorem take_add_append {α : Type} (done rest : List α) (k : Nat) :
    (done ++ rest).take (k + done.length) = done ++ rest.take k := by
  rw [List.take_append, List.take_of_length_le (by omega), Nat.add_sub_cancel]

theorem drop_add_append {α : Type} (done rest : List α) (k : Nat) :
    (done ++ rest).drop (k + done.length) = rest.drop k := by
  rw [List.drop_append, List.drop_of_length_le (by omega), Nat.add_sub_cancel, List.nil_append]

theorem replaceLoop_succ' (old : Str) (new : AStr.Repl) (fuel : Nat) (obj : AStr) (count : Int)
    (i nid : Nat) :
    AStr.replaceLoop old new (fuel + 1) obj count (some i) nid =
      if count = 0 then obj
      else
        AStr.replaceLoop old new fuel (stepObj obj (repOf new obj i nid).1 i old.length)
          (if count > 0 then count - 1 else count)
          (Py.find (stepObj obj (repOf new obj i nid).1 i old.length).s old
            (i + new.advance + (if old.isEmpty then 1 else 0)))
          (repOf new obj i nid).2 :=
  replaceLoop_succ old new fuel obj count i nid

/-- The loop of `replace` for a non-empty `old` on STYLED lists, against any function `R` that
    satisfies the three "first occurrence" equations, for any invariant `Inv` of the loop state
    `(obj, nid)` that one iteration preserves.  `newf st` is the styled replacement inserted for a
    match whose first character reports the texts `st`. -/
theorem replaceLoop_styled (old : Str) (hold : old ≠ []) (new : AStr.Repl)
    (newf : List Str → List SChar) (Inv : AStr → Nat → Prop)
    (hadv : ∀ st, (newf st).length = new.advance)
    (hstep : ∀ obj nid i, Inv obj nid → i + old.length ≤ obj.len →
      Inv (stepObj obj (repOf new obj i nid).1 i old.length) (repOf new obj i nid).2 ∧
      styled (stepObj obj (repOf new obj i nid).1 i old.length) =
        (styled obj).take i ++ newf (texts (act obj i)) ++ (styled obj).drop (i + old.length))
    (R : List SChar → Int → List SChar)
    (E1 : ∀ s c, (∀ j, j ≤ s.length → old.isPrefixOf ((s.map (·.1)).drop j) = false) → R s c = s)
    (E2 : ∀ s, R s 0 = s)
    (E3 : ∀ pre m mid post c, c ≠ 0 → (m :: mid).map (·.1) = old →
        (∀ j, j < pre.length →
          old.isPrefixOf (((pre ++ (m :: mid) ++ post).map (·.1)).drop j) = false) →
        R (pre ++ (m :: mid) ++ post) c = pre ++ newf m.2 ++ R post (if c > 0 then c - 1 else c))
    (fuel : Nat) : ∀ (obj : AStr) (count : Int) (nid : Nat) (done rest : List SChar),
      Inv obj nid → styled obj = done ++ rest → rest.length + 1 ≤ fuel →
      (∃ nid', Inv (AStr.replaceLoop old new fuel obj count
        ((Py.find (rest.map (·.1)) old 0).map (· + done.length)) nid) nid') ∧
      styled (AStr.replaceLoop old new fuel obj count
        ((Py.find (rest.map (·.1)) old 0).map (· + done.length)) nid) = done ++ R rest count := by
  induction fuel with
  | zero => intro _ _ _ _ rest _ _ h; omega
  | succ fuel ih =>
    intro obj count nid done rest hinv hobj hfuel
    cases hf : Py.find (rest.map (·.1)) old 0 with
    | none =>
      rw [Option.map_none, replaceLoop_none]
      refine ⟨⟨nid, hinv⟩, ?_⟩
      rw [hobj, E1 rest count (fun j hj =>
        (find_none_iff _ _ _).mp hf j (by simpa using hj) (Nat.zero_le _))]
    | some k =>
      obtain ⟨hk, -, hocc, hfirst⟩ := (find_some_iff _ _ _ _).mp hf
      rw [Option.map_some, replaceLoop_succ']
      by_cases hc : count = 0
      · rw [if_pos hc]
        exact ⟨⟨nid, hinv⟩, by rw [hobj, hc, E2]⟩
      · rw [if_neg hc]
        obtain ⟨t, ht⟩ := List.isPrefixOf_iff_prefix.mp hocc
        have hol : 0 < old.length := List.length_pos_iff.mpr hold
        have hkl : k + old.length ≤ rest.length := by
          have := congrArg List.length ht
          simp at this; omega
        have hdec0 : rest = rest.take k ++ (rest.drop k).take old.length ++ rest.drop (k + old.length) := by
          rw [List.append_assoc, ← List.drop_drop, List.take_append_drop, List.take_append_drop]
        have hmidmap : ((rest.drop k).take old.length).map (·.1) = old := by
          rw [List.map_take, List.map_drop, ← ht]
          exact List.take_left' rfl
        have hmidlen : ((rest.drop k).take old.length).length = old.length := by
          rw [List.length_take, List.length_drop]; omega
        have hprelen : (rest.take k).length = k := by rw [List.length_take]; omega
        generalize hpre : rest.take k = pre at hdec0 hprelen
        generalize hpost : rest.drop (k + old.length) = post at hdec0
        cases hmid : (rest.drop k).take old.length with
        | nil => rw [hmid] at hmidlen; simp at hmidlen; omega
        | cons m mid =>
          rw [hmid] at hdec0 hmidmap
          -- the style of the first matched character
          have hlen : obj.len = done.length + rest.length := by
            rw [← styled_length, hobj, List.length_append]
          have hm : m.2 = texts (act obj (k + done.length)) := by
            have h1 : (styled obj)[k + done.length]? = some m := by
              rw [hobj, List.getElem?_append_right (by omega), Nat.add_sub_cancel]
              have : ((rest.drop k).take old.length)[0]? = some m := by rw [hmid]; rfl
              rwa [List.getElem?_take_of_lt hol, List.getElem?_drop] at this
            rw [styled_getElem?] at h1
            cases hc' : obj.s[k + done.length]? with
            | none => rw [hc'] at h1; cases h1
            | some c => rw [hc'] at h1; simp at h1; rw [← h1]
          obtain ⟨hinv', hsty⟩ := hstep obj nid (k + done.length) hinv (by omega)
          rw [← hm, hobj, take_add_append, hpre,
            show k + done.length + old.length = (k + old.length) + done.length by omega,
            drop_add_append, hpost] at hsty
          have hold0 : (if old.isEmpty = true then 1 else 0) = 0 := by
            cases old with
            | nil => exact absurd rfl hold
            | cons _ _ => rfl
          have hs' : (stepObj obj (repOf new obj (k + done.length) nid).1 (k + done.length) old.length).s =
              (done ++ pre ++ newf m.2).map (·.1) ++ post.map (·.1) := by
            rw [← styled_map_fst, hsty, List.map_append]
          have hfrom : k + done.length + new.advance + (if old.isEmpty = true then 1 else 0) =
              ((done ++ pre ++ newf m.2).map (·.1)).length + 0 := by
            rw [hold0, ← hadv m.2]; simp; omega
          rw [hs', hfrom, find_append_skip, List.length_map]
          have hfuel' : post.length + 1 ≤ fuel := by
            have := congrArg List.length hdec0
            simp at this
            omega
          have hsty' : styled (stepObj obj (repOf new obj (k + done.length) nid).1 (k + done.length)
              old.length) = (done ++ pre ++ newf m.2) ++ post := hsty
          obtain ⟨hI, hS⟩ := ih _ (if count > 0 then count - 1 else count) _ (done ++ pre ++ newf m.2)
            post hinv' hsty' hfuel'
          refine ⟨hI, ?_⟩
          rw [hS, hdec0, E3 pre m mid post count hc hmidmap (fun j hj => by
            rw [← hdec0]; exact hfirst j (by omega) (Nat.zero_le _))]
          simp

/-! ### the two kinds of replacement value -/

/-- loop invariant for an AnsiString/AnsiStr replacement `v` -/
def InvA (v : AStr) (obj : AStr) (_nid : Nat) : Prop := WF obj ∧ CoherentPair obj v

/-- loop invariant for a plain-`str` replacement: all identities of `obj` are below the counter -/
def InvS (obj : AStr) (nid : Nat) : Prop := WF obj ∧ FreshFrom obj nid

theorem astr_step (old : Str) (v : AStr) (hv : WF v) (obj : AStr) (nid i : Nat)
    (hinv : InvA v obj nid) (hi : i + old.length ≤ obj.len) :
    InvA v (stepObj obj (repOf (.astr v) obj i nid).1 i old.length) (repOf (.astr v) obj i nid).2 ∧
    styled (stepObj obj (repOf (.astr v) obj i nid).1 i old.length) =
      (styled obj).take i ++ styled v ++ (styled obj).drop (i + old.length) := by
  obtain ⟨hw, hc⟩ := hinv
  show InvA v (stepObj obj v i old.length) nid ∧ styled (stepObj obj v i old.length) = _
  refine ⟨⟨step_wf hw hv hc i _, ?_⟩, step_styled hw hv hc hi⟩
  intro s hs t ht e
  rcases step_settings_sub hw hv hc i _ s hs with h | h
  · exact hc s h t ht e
  · exact hv.coherent s h t ht e

theorem str_step (old : Str) (hold : old ≠ []) (raw : Str) (hraw : '\x1b' ∉ raw) (obj : AStr)
    (nid i : Nat) (hinv : InvS obj nid) (hi : i + old.length ≤ obj.len) :
    InvS (stepObj obj (repOf (.str raw) obj i nid).1 i old.length) (repOf (.str raw) obj i nid).2 ∧
    styled (stepObj obj (repOf (.str raw) obj i nid).1 i old.length) =
      (styled obj).take i ++ raw.map (fun c => (c, texts (act obj i))) ++
        (styled obj).drop (i + old.length) := by
  obtain ⟨hw, hfr⟩ := hinv
  have hol : 0 < old.length := List.length_pos_iff.mpr hold
  rw [repOf_str raw hraw obj (by omega) nid]
  simp only
  have hr := strRep_wf raw nid (texts (act obj i))
  have hids := strRep_ids raw nid (texts (act obj i))
  have hc : CoherentPair obj (strRep raw nid (texts (act obj i))) := by
    intro s hs t ht e
    have h1 := hfr s hs
    have h2 := (hids t ht).1
    omega
  refine ⟨⟨step_wf hw hr hc i _, ?_⟩, ?_⟩
  · intro s hs
    rcases step_settings_sub hw hr hc i _ s hs with h | h
    · have := hfr s h; omega
    · have := (hids s h).2
      simp only [texts, List.length_map] at this
      exact this
  · rw [step_styled hw hr hc hi, strRep_styled]

end ReplaceL
