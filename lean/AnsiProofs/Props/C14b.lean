import AnsiModel.Scrub
import AnsiModel.Generated.Wrappers
/-
  Property C14, part b — the channel arithmetic of `rgb()`, from the source.

  "rgb components are clamped to 0..255, a single 24-bit value is split into r, g, b."
  `Gen.rgbSplit` and `Gen.rgbClamp` are the two branches of `_AnsiControlFn.rgb` that compute `r, g, b`,
  translated statement by statement on every run (harness/pyint.py); the model's `parseRgbString`
  uses `(v / 65536) % 256, (v / 256) % 256, v % 256` and `min 255 ·` (the regular expressions only
  produce natural numbers).  The theorems tie the two for every value.
-/
namespace C14b

theorem translated : Gen.rgbChannelsOk = true := by decide

/-- THE 24-BIT SPLIT: masking and shifting is dividing and taking remainders, for every value
    (also beyond 24 bits: the excess is dropped) -/
theorem split_is_code (v : Nat) : Gen.rgbSplit v = (v / 65536 % 256, v / 256 % 256, v % 256) := by
  unfold Gen.rgbSplit
  have h1 : (v &&& 16711680) >>> 16 = v / 65536 % 256 := by
    rw [Nat.shiftRight_and_distrib, Nat.shiftRight_eq_div_pow]
    have : (16711680 : Nat) >>> 16 = 2 ^ 8 - 1 := by decide
    rw [this, Nat.and_two_pow_sub_one_eq_mod]
  have h2 : (v &&& 65280) >>> 8 = v / 256 % 256 := by
    rw [Nat.shiftRight_and_distrib, Nat.shiftRight_eq_div_pow]
    have : (65280 : Nat) >>> 8 = 2 ^ 8 - 1 := by decide
    rw [this, Nat.and_two_pow_sub_one_eq_mod]
  have h3 : v &&& 255 = v % 256 := by
    have : (255 : Nat) = 2 ^ 8 - 1 := by decide
    rw [this, Nat.and_two_pow_sub_one_eq_mod]
  simp only [h1, h2, h3]

/-- every component of the split is a byte -/
theorem split_range (v : Nat) : (Gen.rgbSplit v).1 < 256 ∧ (Gen.rgbSplit v).2.1 < 256 ∧ (Gen.rgbSplit v).2.2 < 256 := by
  rw [split_is_code]; simp only []; omega

/-- THE CLAMP: each component on its own, into 0..255 (negative to 0) -/
theorem clamp_is_code (r g b : Int) :
    Gen.rgbClamp r g b = (min 255 (max 0 r), min 255 (max 0 g), min 255 (max 0 b)) := by
  unfold Gen.rgbClamp; rfl

/-- for the natural numbers the string forms produce, that is the model's `min 255 ·` -/
theorem clamp_nat (r g b : Nat) :
    Gen.rgbClamp (r : Int) (g : Int) (b : Int) = (((min 255 r : Nat) : Int), ((min 255 g : Nat) : Int), ((min 255 b : Nat) : Int)) := by
  rw [clamp_is_code]
  simp only [Prod.mk.injEq]
  omega

theorem clamp_range (r g b : Int) :
    0 ≤ (Gen.rgbClamp r g b).1 ∧ (Gen.rgbClamp r g b).1 ≤ 255 ∧
    0 ≤ (Gen.rgbClamp r g b).2.1 ∧ (Gen.rgbClamp r g b).2.1 ≤ 255 ∧
    0 ≤ (Gen.rgbClamp r g b).2.2 ∧ (Gen.rgbClamp r g b).2.2 ≤ 255 := by
  rw [clamp_is_code]; simp only []; omega

example : Gen.rgbSplit 0x102030 = (0x10, 0x20, 0x30) := by decide
example : Gen.rgbSplit 0x1000005 = (0, 0, 5) := by decide
example : Gen.rgbClamp 300 (-4) 255 = (255, 0, 255) := by decide

end C14b
