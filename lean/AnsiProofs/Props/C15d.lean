import AnsiProofs.Lemmas.Scrub
import AnsiModel.Generated.Methods.ParsePrims
import AnsiModel.Generated.Methods.SettingValid
import AnsiModel.Generated.Methods.SettingToList
import AnsiModel.Generated.Methods.SettingParsable
import AnsiModel.Generated.Methods.SettingInitialParam

/-
  Property C15, part d — the *generated* (statement-by-statement translated, `harness/pyparse.py`) methods
  `valid`, `to_list`, `parsable`, `get_initial_param` of `class AnsiSetting` (ansi_format.py) compute exactly
  what the hand-written model says (`SettingTxt.valid`, `.toList`, `.parsable`, `.initialParam` of
  `AnsiModel/Setting.lean`), and none of the places where the Python can raise does.

  `self` is `PyParse.SObj`: the text `_str` and the two attributes `_valid`, `_parsable` the properties keep
  their results in (`Option Bool`, `none` = `hasattr` is False).  A method that assigns attributes returns the
  result *and* the object afterwards; `parsable` calls the translated `valid` (and hands its object on) and the
  translated `to_list`.  What is proved about the memoisation:
    (a) first call (attribute absent): the result is the model's value and the attribute afterwards holds
        exactly that value (`valid_is_code`, `parsable_is_code`; every early `return False` is covered: the
        attribute is set to `False` before anything else);
    (b) later calls (attribute `some b`): the result is `b`, the object is unchanged (`valid_cached`,
        `parsable_cached`);
    (c) hence on an object whose attributes are absent or right (`Consistent`) every call gives the model's
        value and leaves such an object (`valid_consistent`, `parsable_consistent`) — any sequence of calls.
  Modelling restriction, as in the model: `str.isdigit`, `int`, `str.strip` on ASCII (`Py.isdigit`, `Py.int`,
  `Py.strip`); `to_list` needs `isdigit v → int(v) = digits of v` (`int_of_isdigit`).

  * `namespace C15d.L` — nothing generated is mentioned:
    - `FindSpec p step` / `fold_find`: a loop whose only effect is `return False` at the first item meeting
      `p` (state `ret_ : Option Bool`) — used for `valid` (`p = isTerm`, `isTerm_int`: the comparison of
      `ord(c)` with `ansi_term_ord_range` on ints) and for the range test of `parsable` (`outOfRange`);
    - `PieceSpec` / `fold_pieces`: the loop of `to_list` appends `piece v` per piece of the split;
    - `FnSpec codes step` / `fold_fn`: the loop over `_AnsiControlFn` with its `return` inside, state
      `(ret_, fn_found, self)`, against the model's `parsableFnLoop`;
    - `splitFirst_head`: `split(sep, 1)` and `split(sep)` start with the same piece.
  * `namespace C15d` — the theorems over `Gen.*`: `unfold`, loops rewritten by the `fold_*` lemmas, the specs
    of the rounds discharged for the generated lambdas by `intro …; simp …`.
-/

-- some simp arguments are there for other shapes the source may take
set_option linter.unusedSimpArgs false

namespace C15d
namespace L

/-! ### primitives -/

theorem bindOk {α β : Type} (a : α) (f : α → Except Exc β) : (Except.ok a : Except Exc α).bind f = f a := rfl

theorem getIdx_zero {α : Type} (c : α) (l : List α) : Py.getIdx (c :: l) (0 : Int) = .ok c := by
  simp [Py.getIdx]

theorem getAttr_some {α : Type} (a : α) : PyParse.getAttr (some a) = .ok a := rfl

theorem split_sep (s : Str) : PyParse.split s Gen.ansiSep = .ok (Py.splitOnChar ';' s) := by
  have h : Gen.ansiSep = [';'] := by decide
  rw [h]; rfl

theorem split1_sep (s : Str) : PyParse.split1 s Gen.ansiSep = .ok (PyParse.splitFirst ';' s) := by
  have h : Gen.ansiSep = [';'] := by decide
  rw [h]; rfl

/-- `split(sep, 1)` and `split(sep)` start with the same piece -/
theorem splitFirst_head (c : Char) : ∀ s : Str, (PyParse.splitFirst c s).head? = (Py.splitOnChar c s).head?
  | [] => rfl
  | x :: rest => by
    unfold PyParse.splitFirst Py.splitOnChar
    have ih := splitFirst_head c rest
    split
    · rfl
    · cases h1 : PyParse.splitFirst c rest <;> cases h2 : Py.splitOnChar c rest <;> simp_all

theorem splitFirst_ne_nil (c : Char) : ∀ s : Str, PyParse.splitFirst c s ≠ []
  | [] => by simp [PyParse.splitFirst]
  | x :: rest => by
    unfold PyParse.splitFirst
    split
    · simp
    · split <;> simp

/-! ### a loop that returns `False` at the first item meeting a test -/

/-- what a round of such a loop has to do, whatever it looks like; the state is `ret_`: `some r` once the
    function has returned `r` -/
def FindSpec {α : Type} (p : α → Bool) (step : Option Bool → α → Except Exc (Option Bool)) : Prop :=
  (∀ r c, step (some r) c = .ok (some r)) ∧ (∀ c, step none c = .ok (if p c then some false else none))

theorem fold_done {α : Type} {p : α → Bool} {step : Option Bool → α → Except Exc (Option Bool)}
    (h : FindSpec p step) (r : Bool) : ∀ l : List α, List.foldlM step (some r) l = .ok (some r)
  | [] => rfl
  | c :: l => by
    rw [List.foldlM_cons, h.1]
    exact fold_done h r l

/-- rounds that meet `FindSpec p` end with `some false` iff some item meets `p` -/
theorem fold_find {α : Type} {p : α → Bool} {step : Option Bool → α → Except Exc (Option Bool)}
    (h : FindSpec p step) : ∀ l : List α, List.foldlM step none l = .ok (if l.any p then some false else none)
  | [] => rfl
  | c :: l => by
    rw [List.foldlM_cons, h.2]
    cases hp : p c with
    | true =>
      show List.foldlM step (some false) l = _
      rw [fold_done h]; simp [hp]
    | false =>
      show List.foldlM step none l = _
      rw [fold_find h l]; simp [hp]

/-! ### `valid` -/

/-- the model's `isTerm` as arithmetic; however `ord(c) >= ansi_term_ord_range[0] and ord(c) <= ansi_term_ord_range[1]` is
    written, `simp; omega` compares it with this -/
theorem isTerm_iff (c : Char) : isTerm c = true ↔ (Gen.termLo ≤ c.toNat ∧ c.toNat ≤ Gen.termHi) := by
  simp [isTerm]

theorem valid_any (t : Str) : SettingTxt.valid t = !t.any isTerm := by
  unfold SettingTxt.valid
  induction t with
  | nil => rfl
  | cons c t ih => simp only [List.all_cons, List.any_cons, ih, Bool.not_or]

/-! ### `to_list` -/

/-- one piece of the text as a code -/
def piece (v : Str) : Code :=
  if Py.isdigit (Py.strip v) then Code.int (Py.digitsVal (Py.strip v)) else Code.str (Py.strip v)

theorem toList_eq (t : Str) : SettingTxt.toList t = (Py.splitOnChar ';' t).map piece := rfl

def PieceSpec (step : List Code → Str → Except Exc (List Code)) : Prop :=
  ∀ l v, step l v = .ok (l ++ [piece v])

theorem fold_pieces {step : List Code → Str → Except Exc (List Code)} (h : PieceSpec step) :
    ∀ (vs : List Str) (l : List Code), List.foldlM step l vs = .ok (l ++ vs.map piece)
  | [], l => by simp; rfl
  | v :: vs, l => by
    rw [List.foldlM_cons, h]
    show List.foldlM step (l ++ [piece v]) vs = _
    rw [fold_pieces h vs]; simp

/-- on a string `isdigit` accepts, `int` does not raise and gives the value of the digits -/
theorem int_of_isdigit {v : Str} (h : Py.isdigit v = true) : Py.int v = some (Py.digitsVal v : Int) := by
  unfold Py.isdigit at h
  simp only [Bool.and_eq_true, Bool.not_eq_true', List.all_eq_true] at h
  apply ScrubL.int_digits
  · intro e; rw [e] at h; simp at h
  · exact h.2

/-! ### `parsable` -/

/-- the test of one code in `for code in codes: if not isinstance(code, int) or code < 0 or code > 255` -/
def outOfRange : Code → Bool
  | .int i => decide (i < 0) || decide (i > 255)
  | .str _ => true

theorem range_ok (i : Int) : decide (0 ≤ i ∧ i ≤ 255) = !(decide (i < 0) || decide (i > 255)) := by
  rw [Bool.eq_iff_iff]
  simp only [Bool.and_eq_true, decide_eq_true_eq, Bool.not_eq_true', Bool.or_eq_false_iff, decide_eq_false_iff_not]
  omega

/-- "all codes are ints in 0..255", however the test is written, against "some code is out of range" -/
theorem all_range (codes : List Code) (f : Code → Bool) (hf : ∀ c, f c = !outOfRange c) :
    codes.all f = !codes.any outOfRange := by
  induction codes with
  | nil => rfl
  | cons c codes ih => simp only [List.all_cons, List.any_cons, ih, Bool.not_or, hf]

/-- the state of the translated loop over `_AnsiControlFn`: `(ret_, fn_found, self)` -/
abbrev P := Option Bool × Bool × PyParse.SObj

/-- one round of that loop on a row of the table -/
def fnRound (codes : List Code) (st : P) (row : List Nat × Nat) : P :=
  match st with
  | (some r, f, o) => (some r, f, o)
  | (none, f, o) =>
    if SettingTxt.startsWithFn row.1 codes then
      (some (codes.length == row.1.length + row.2), f, { o with parsable_ := some (codes.length == row.1.length + row.2) })
    else if codes.head? == row.1.head?.map (fun m => Code.int m) then (none, true, o)
    else (none, f, o)

def FnSpec (codes : List Code) (step : P → List Nat × Nat → Except Exc P) : Prop :=
  ∀ st row, step st row = .ok (fnRound codes st row)

/-- how the loop ends, by the model's `parsableFnLoop`: a `return` inside the loop has stored its value -/
def fnEnd (codes : List Code) (rows : List (List Nat × Nat)) (f : Bool) (o : PyParse.SObj) : P :=
  match SettingTxt.parsableFnLoop codes rows f with
  | (some b, f') => (some b, f', { o with parsable_ := some b })
  | (none, f') => (none, f', o)

theorem fold_fn_done {codes : List Code} {step : P → List Nat × Nat → Except Exc P} (h : FnSpec codes step)
    (r f : Bool) (o : PyParse.SObj) : ∀ rows, List.foldlM step (some r, f, o) rows = .ok (some r, f, o)
  | [] => rfl
  | row :: rows => by
    rw [List.foldlM_cons, h]
    exact fold_fn_done h r f o rows

/-- THE LOOP OVER THE FUNCTIONS: rounds that meet `FnSpec` compute the model's `parsableFnLoop` -/
theorem fold_fn {codes : List Code} {step : P → List Nat × Nat → Except Exc P} (h : FnSpec codes step) :
    ∀ (rows : List (List Nat × Nat)) (f : Bool) (o : PyParse.SObj),
      List.foldlM step (none, f, o) rows = .ok (fnEnd codes rows f o)
  | [], f, o => rfl
  | (setup, nargs) :: rows, f, o => by
    rw [List.foldlM_cons, h]
    unfold fnRound fnEnd SettingTxt.parsableFnLoop
    simp only []
    split
    · exact fold_fn_done h _ _ _ rows
    · split
      · exact fold_fn h rows true o
      · exact fold_fn h rows f o

theorem natCast_beq (a b : Nat) : ((a : Int) == (b : Int)) = (a == b) := by
  rw [Bool.eq_iff_iff]; simp only [beq_iff_eq]; omega

theorem natCast_beq_one (a : Nat) : ((a : Int) == (1 : Int)) = (a == 1) := natCast_beq a 1

theorem one_beq_natCast (a : Nat) : ((1 : Int) == (a : Int)) = (a == 1) := by
  rw [Bool.eq_iff_iff]; simp only [beq_iff_eq]; omega

theorem natCast_bne_one (a : Nat) : ((a : Int) != (1 : Int)) = !(a == 1) := by
  rw [bne, natCast_beq_one]

/-- another way of writing `not l` -/
theorem len_beq_zero {α : Type} (l : List α) : ((l.length : Int) == 0) = l.isEmpty := by
  cases l with
  | nil => rfl
  | cons a t =>
    have h : ¬ (((a :: t).length : Int) = 0) := by simp only [List.length_cons]; omega
    simp only [List.isEmpty_cons, beq_eq_false_iff_ne, ne_eq, h, not_false_eq_true]

theorem getIdx_head (m : Nat) (ms : List Nat) : Py.getIdx ((m :: ms).map Int.ofNat) (0 : Int) = .ok (m : Int) := by
  simp [Py.getIdx]

theorem paramReset_zero : (Gen.paramReset : Int) = 0 := by decide

end L
open L

/-- the four methods were translated -/
theorem translated : (Gen.settingValidOk && Gen.settingToListOk && Gen.settingParsableOk && Gen.settingInitialParamOk) = true := by
  decide

/-- THE GENERATED `AnsiSetting.valid` IS THE MODEL'S `SettingTxt.valid`, first call: with no `_valid` attribute
    yet the result is the model's value, and the attribute afterwards holds exactly that value -/
theorem valid_is_code (t : Str) (pc : Option Bool) :
    Gen.settingValid ⟨t, none, pc⟩ = .ok (SettingTxt.valid t, ⟨t, some (SettingTxt.valid t), pc⟩) := by
  unfold Gen.settingValid
  simp only [Option.isSome_none, Bool.false_eq_true, ↓reduceIte]
  rw [fold_find (p := isTerm) ?spec]
  case spec =>
    constructor
    · intro r c; simp
    · intro c
      simp only [Option.isSome_none, Bool.false_eq_true, ↓reduceIte]
      have hT := isTerm_iff c
      by_cases h : isTerm c = true
      · have h' := hT.mp h
        rw [if_pos (by simp; omega)]; simp [h]
      · have h' : ¬ (Gen.termLo ≤ c.toNat ∧ c.toNat ≤ Gen.termHi) := fun x => h (hT.mpr x)
        rw [if_neg (by simp; omega)]; simp [h]
  rw [valid_any]
  cases t.any isTerm <;> rfl

/-- later calls: with `_valid` holding `b` the result is `b`, the object is unchanged -/
theorem valid_cached (t : Str) (b : Bool) (pc : Option Bool) :
    Gen.settingValid ⟨t, some b, pc⟩ = .ok (b, ⟨t, some b, pc⟩) := by
  unfold Gen.settingValid
  simp [getAttr_some, bindOk]

/-- THE GENERATED `AnsiSetting.to_list` IS THE MODEL'S `SettingTxt.toList` (`isdigit`, `int` on ASCII) -/
theorem to_list_is_code (o : PyParse.SObj) : Gen.settingToList o = .ok (SettingTxt.toList o.str) := by
  unfold Gen.settingToList
  simp only [split_sep, bindOk]
  rw [fold_pieces ?spec, toList_eq]
  · rfl
  · intro l v
    unfold piece
    simp only []
    cases hd : Py.isdigit (Py.strip v) with
    | false => simp
    | true => simp [int_of_isdigit hd]

/-- THE GENERATED `AnsiSetting.get_initial_param` IS THE MODEL'S `SettingTxt.initialParam` -/
theorem initial_param_is_code (o : PyParse.SObj) :
    Gen.settingInitialParam o = .ok (SettingTxt.initialParam o.str) := by
  unfold Gen.settingInitialParam SettingTxt.initialParam
  simp only [split1_sep, bindOk]
  have hh := splitFirst_head ';' o.str
  have hn := splitFirst_ne_nil ';' o.str
  cases h1 : PyParse.splitFirst ';' o.str with
  | nil => exact absurd h1 hn
  | cons v rest =>
    rw [h1] at hh
    cases h2 : Py.splitOnChar ';' o.str with
    | nil => rw [h2] at hh; simp at hh
    | cons v' rest' =>
      rw [h2] at hh
      simp only [List.head?_cons, Option.some.injEq] at hh
      subst hh
      simp only [List.isEmpty_cons, Bool.not_false, Bool.not_true, Bool.false_eq_true, ↓reduceIte, getIdx_zero, bindOk]
      cases Py.int v with
      | none => rfl
      | some i => cases h3 : ansiParam i <;> simp [h3]

/-- later calls of `parsable`: with `_parsable` holding `b` the result is `b`, the object is unchanged (`valid`
    is not even asked) -/
theorem parsable_cached (t : Str) (vc : Option Bool) (b : Bool) :
    Gen.settingParsable ⟨t, vc, some b⟩ = .ok (b, ⟨t, vc, some b⟩) := by
  unfold Gen.settingParsable
  simp [getAttr_some, bindOk]

/-- THE GENERATED `AnsiSetting.parsable` IS THE MODEL'S `SettingTxt.parsable`, first call: with no `_parsable`
    attribute yet and a `_valid` attribute that is absent or right, the result is the model's value and both
    attributes afterwards hold exactly the model's values -/
theorem parsable_is_code (t : Str) (vc : Option Bool) (hv : vc = none ∨ vc = some (SettingTxt.valid t)) :
    Gen.settingParsable ⟨t, vc, none⟩ =
      .ok (SettingTxt.parsable t, ⟨t, some (SettingTxt.valid t), some (SettingTxt.parsable t)⟩) := by
  have hval : Gen.settingValid ⟨t, vc, some false⟩ = .ok (SettingTxt.valid t, ⟨t, some (SettingTxt.valid t), some false⟩) := by
    rcases hv with rfl | rfl
    · exact valid_is_code t _
    · exact valid_cached t _ _
  unfold Gen.settingParsable
  simp only [Option.isSome_none, Bool.false_eq_true, ↓reduceIte, hval, valid_cached, bindOk, to_list_is_code]
  rw [ScrubL.parsable_eq]
  cases hvt : SettingTxt.valid t with
  | false => simp
  | true =>
    simp only [Bool.not_true, Bool.false_eq_true, ↓reduceIte, Bool.true_and]
    generalize SettingTxt.toList t = codes
    try simp only [len_beq_zero]
    cases codes with
    | nil => simp [ScrubL.parsableCodes]
    | cons c0 rest =>
      -- the two loops first, whatever surrounds them
      simp only [getIdx_zero, bindOk]
      rw [fold_find (p := outOfRange) ?spec1, fold_fn (codes := c0 :: rest) ?spec2]
      case spec1 =>
        constructor
        · intro r c; simp
        · intro c
          cases c with
          | str s => simp [outOfRange]
          | int i =>
            simp only [Option.isSome_none, Bool.false_eq_true, ↓reduceIte]
            by_cases hr : i < 0 ∨ i > 255
            · have ho : outOfRange (Code.int i) = true := by simpa [outOfRange] using hr
              simp only [ho, ↓reduceIte]
              split <;> first | rfl | (rename_i hc; simp at hc; omega)
            · have ho : outOfRange (Code.int i) = false := by simpa [outOfRange] using hr
              simp only [ho, Bool.false_eq_true, ↓reduceIte]
              split <;> first | rfl | (rename_i hc; simp at hc; omega)
      case spec2 =>
        intro st row
        obtain ⟨r, f, o⟩ := st
        obtain ⟨setup, nargs⟩ := row
        unfold fnRound
        cases r with
        | some r => simp
        | none =>
          simp only [Option.isSome_none, Bool.false_eq_true, ↓reduceIte, getAttr_some, bindOk, natCast_beq]
          cases setup with
          | nil => simp [SettingTxt.startsWithFn] <;> (rw [Bool.eq_iff_iff]; simp only [beq_iff_eq]; omega)
          | cons m ms =>
            simp only [getIdx_head, bindOk]
            by_cases hs : SettingTxt.startsWithFn (m :: ms) (c0 :: rest) = true
            · simp [hs, natCast_beq] <;> (rw [Bool.eq_iff_iff]; simp only [beq_iff_eq]; omega)
            · simp only [hs, Bool.false_eq_true, ↓reduceIte, Bool.not_false]
              by_cases hm : c0 = Code.int (m : Int)
              · simp [hm]
              · have hm' : ¬ (Code.int (m : Int) = c0) := fun h => hm h.symm
                simp [hm, hm']
      -- the model, with the same two loops
      unfold ScrubL.parsableCodes
      simp only []
      rw [all_range _ _ (fun c => by cases c <;> simp only [outOfRange, range_ok, Bool.not_true])]
      generalize (c0 :: rest).any outOfRange = anyb
      simp only [fnEnd, natCast_beq_one, one_beq_natCast, natCast_bne_one, Bool.not_not]
      -- what is left: the tests between the loops
      by_cases h0 : c0 = Code.int 0
      · subst h0; simp [paramReset_zero, bindOk]
      · have h0' : ¬ (Code.int 0 = c0) := fun h => h0 h.symm
        rcases hf : SettingTxt.parsableFnLoop (c0 :: rest) Gen.ctrlFns false with ⟨_ | b, f'⟩
        · cases anyb <;> cases c0 with
          | str s0 => simp [h0, h0', paramReset_zero, bindOk, PyParse.ansiParamCode]
          | int i0 =>
            cases hp : ansiParam i0 <;> cases f' <;>
              simp [h0, h0', hp, paramReset_zero, bindOk, PyParse.ansiParamCode, getAttr_some, natCast_beq_one]
        · cases anyb <;> cases c0 with
          | str s0 => simp [h0, h0', paramReset_zero, bindOk, PyParse.ansiParamCode]
          | int i0 =>
            cases hp : ansiParam i0 <;>
              simp [h0, h0', hp, paramReset_zero, bindOk, PyParse.ansiParamCode, getAttr_some, natCast_beq_one]

/-! ## Any sequence of calls -/

/-- the cache attributes are absent or hold the model's values -/
def Consistent (o : PyParse.SObj) : Prop :=
  (o.valid_ = none ∨ o.valid_ = some (SettingTxt.valid o.str)) ∧
  (o.parsable_ = none ∨ o.parsable_ = some (SettingTxt.parsable o.str))

/-- a new object (`__init__` assigns `_str` only) is consistent -/
theorem consistent_new (t : Str) : Consistent ⟨t, none, none⟩ := ⟨Or.inl rfl, Or.inl rfl⟩

example : Consistent ⟨"38;5;214".toList, some true, none⟩ := ⟨Or.inr (by decide +kernel), Or.inl rfl⟩

theorem valid_consistent (o : PyParse.SObj) (h : Consistent o) :
    ∃ o', Gen.settingValid o = .ok (SettingTxt.valid o.str, o') ∧ o'.str = o.str ∧ Consistent o' := by
  obtain ⟨t, vc, pc⟩ := o
  obtain ⟨h1, h2⟩ := h
  simp only at h1 h2
  rcases h1 with rfl | rfl
  · exact ⟨_, valid_is_code t pc, rfl, ⟨Or.inr rfl, h2⟩⟩
  · exact ⟨_, valid_cached t _ pc, rfl, ⟨Or.inr rfl, h2⟩⟩

theorem parsable_consistent (o : PyParse.SObj) (h : Consistent o) :
    ∃ o', Gen.settingParsable o = .ok (SettingTxt.parsable o.str, o') ∧ o'.str = o.str ∧ Consistent o' := by
  obtain ⟨t, vc, pc⟩ := o
  obtain ⟨h1, h2⟩ := h
  simp only at h1 h2
  rcases h2 with rfl | rfl
  · exact ⟨_, parsable_is_code t vc h1, rfl, ⟨Or.inr rfl, Or.inr rfl⟩⟩
  · exact ⟨_, parsable_cached t vc _, rfl, ⟨h1, Or.inr rfl⟩⟩

/-! ## Nothing raises -/

theorem valid_never_raises (o : PyParse.SObj) (h : Consistent o) (err : Exc) : Gen.settingValid o ≠ .error err := by
  obtain ⟨o', ho, _⟩ := valid_consistent o h
  rw [ho]; intro e; cases e

theorem parsable_never_raises (o : PyParse.SObj) (h : Consistent o) (err : Exc) : Gen.settingParsable o ≠ .error err := by
  obtain ⟨o', ho, _⟩ := parsable_consistent o h
  rw [ho]; intro e; cases e

theorem to_list_never_raises (o : PyParse.SObj) (err : Exc) : Gen.settingToList o ≠ .error err := by
  rw [to_list_is_code]; intro e; cases e

theorem initial_param_never_raises (o : PyParse.SObj) (err : Exc) : Gen.settingInitialParam o ≠ .error err := by
  rw [initial_param_is_code]; intro e; cases e

/-! ## Concrete values -/

private def run (s : String) : Except Exc (Bool × PyParse.SObj) := Gen.settingParsable ⟨s.toList, none, none⟩
private def after (s : String) (v p : Bool) : PyParse.SObj := ⟨s.toList, some v, some p⟩

example : run "1" = .ok (true, after "1" true true) := by decide +kernel
example : run "38;5;214" = .ok (true, after "38;5;214" true true) := by decide +kernel
/-- a function cut short; two settings in one; a sign; a terminator inside; RESET -/
example : run "38;5" = .ok (false, after "38;5" true false) := by decide +kernel
example : run "1;31" = .ok (false, after "1;31" true false) := by decide +kernel
example : run " 1" = .ok (true, after " 1" true true) := by decide +kernel
example : run "+1" = .ok (false, after "+1" true false) := by decide +kernel
example : run "3H" = .ok (false, after "3H" false false) := by decide +kernel
example : run "0" = .ok (false, after "0" true false) := by decide +kernel
example : run "38;2;1;2;300" = .ok (false, after "38;2;1;2;300" true false) := by decide +kernel
/-- the second call answers from the attribute, whatever it holds -/
example : Gen.settingParsable (after "1" true true) = .ok (true, after "1" true true) := by decide +kernel
example : Gen.settingParsable ⟨"1".toList, none, some false⟩ = .ok (false, ⟨"1".toList, none, some false⟩) := by decide +kernel
/-- a wrong `_valid` attribute is believed: the hypothesis of `parsable_is_code` is needed -/
example : Gen.settingParsable ⟨"1".toList, some false, none⟩ = .ok (false, ⟨"1".toList, some false, some false⟩) := by
  decide +kernel

example : Gen.settingValid ⟨"3H".toList, none, none⟩ = .ok (false, ⟨"3H".toList, some false, none⟩) := by decide +kernel
example : Gen.settingValid ⟨"38;5;214".toList, none, none⟩ = .ok (true, ⟨"38;5;214".toList, some true, none⟩) := by decide +kernel
/-- the ends of the terminator range 0x40..0x7E -/
example : Gen.settingValid ⟨"1@".toList, none, none⟩ = .ok (false, ⟨"1@".toList, some false, none⟩) := by decide +kernel
example : Gen.settingValid ⟨"1~".toList, none, none⟩ = .ok (false, ⟨"1~".toList, some false, none⟩) := by decide +kernel
example : Gen.settingValid ⟨"1?".toList, none, none⟩ = .ok (true, ⟨"1?".toList, some true, none⟩) := by decide +kernel
example : Gen.settingValid ⟨['1', Char.ofNat 127], none, none⟩ = .ok (true, ⟨['1', Char.ofNat 127], some true, none⟩) := by
  decide +kernel
/-- the ends of the range of a code -/
example : run "38;5;255" = .ok (true, after "38;5;255" true true) := by decide +kernel
example : run "38;5;256" = .ok (false, after "38;5;256" true false) := by decide +kernel
example : Gen.settingToList ⟨"38; 5 ;+1;x;;07".toList, none, none⟩ =
    .ok [.int 38, .int 5, .str "+1".toList, .str "x".toList, .str [], .int 7] := by decide +kernel
example : Gen.settingInitialParam ⟨"38;5;214".toList, none, none⟩ = .ok (some (13, 2)) := by decide +kernel
example : Gen.settingInitialParam ⟨" +1 ;x".toList, none, none⟩ = .ok (some (2, 2)) := by decide +kernel
example : Gen.settingInitialParam ⟨"3H".toList, none, none⟩ = .ok none := by decide +kernel
example : Gen.settingInitialParam ⟨"256".toList, none, none⟩ = .ok none := by decide +kernel

/-- the outcomes the theorems exclude are real ones of the primitives -/
example : PyParse.getAttr (none : Option Bool) = .error .outside := by decide
example : Py.getIdx ([] : List Code) 0 = .error (.py .indexError) := by decide
example : PyParse.split1 "a".toList [] = .error (.py .valueError) := by decide

end C15d

#print axioms C15d.translated
#print axioms C15d.valid_is_code
#print axioms C15d.valid_cached
#print axioms C15d.to_list_is_code
#print axioms C15d.parsable_is_code
#print axioms C15d.parsable_cached
#print axioms C15d.initial_param_is_code
#print axioms C15d.valid_consistent
#print axioms C15d.parsable_consistent
#print axioms C15d.valid_never_raises
#print axioms C15d.parsable_never_raises
#print axioms C15d.to_list_never_raises
#print axioms C15d.initial_param_never_raises
