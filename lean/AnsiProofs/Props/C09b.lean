import AnsiProofs.Props.C01
import AnsiProofs.Props.C03
import AnsiProofs.Props.C04
import AnsiProofs.Props.C05b
import AnsiProofs.Props.C09
/-
  C09 (continued) — closing the loop between "for every value with `WF`" and "for every value
  reachable through the public API".

  The per-operation theorems (C01, C03, C04, C05, …) assume the history invariant `WF`; `C09.wf_reachable`
  shows that every value produced by any finite sequence of operations of the `Store` language has it.
  The corollaries below state a few of the properties in exactly the form the property texts use:
  quantified over *reachable* values.  They are one-line compositions; their content is in the
  theorems they compose.
-/

namespace C09b

open C09

/-- the value held by variable `v` after running the script `ops` from the empty store -/
def Reachable (x : AStr) : Prop := ∃ ops v, (Store.run {} ops).get? v = some x

theorem reachable_wf {x : AStr} (h : Reachable x) : WF x := by
  obtain ⟨ops, v, hv⟩ := h
  exact C09.reachable_wf ops v x hv

/-- C01 for reachable values: every rendering of a reachable value whose settings are parameter
    groups displays its text with the reported per-character styles -/
theorem reachable_render_display {x : AStr} (h : Reachable x) (hg : GroupSettings x) (hne : NoEsc x.s)
    (o rs re : Bool) (t0 : Term.TState) (h0 : rs = true ∨ t0 = Term.default) :
    (Term.run t0 (Render.render x o rs re)).1 = den x :=
  C01.render_display x o rs re t0 (reachable_wf h) hg hne h0

/-- C03 for reachable values: `AnsiString(str(s))` displays like `s` -/
theorem reachable_roundtrip_display {x : AStr} (h : Reachable x) (hg : GroupSettings x) (hne : NoEsc x.s)
    (nid : Nat) : den (AStr.setAnsi x.str nid).1 = den x :=
  C03.roundtrip_display x nid (reachable_wf h) hg hne

/-- C04 for reachable values: a slice reports, character by character, the settings of the source -/
theorem reachable_slice_settings {x : AStr} (h : Reachable x) (a b : Option Int) {k : Nat}
    (hk : k < sliceIdx x.len b x.len - sliceIdx x.len a 0) :
    act (x.getSlice a b) k = act x (sliceIdx x.len a 0 + k) :=
  C04.getSlice_settings x (reachable_wf h) a b hk

/-- C05 for reachable values: `s[:k] + s[k:]` displays like `s` -/
theorem reachable_split_concat_display {x : AStr} (h : Reachable x) {k : Nat} (hk : k ≤ x.len) :
    den ((x.getRange 0 k).iadd (x.getRange k x.len)) = den x :=
  C05b.split_concat_display x (reachable_wf h) hk

/-- C09: no reachable value fails the library's own self-check -/
theorem reachable_no_assert {x : AStr} (h : Reachable x) : replayOk x.fmts = true :=
  (reachable_wf h).ok

/-- non-vacuity: a value produced by a three-step script is `Reachable` -/
example : Reachable ((Store.run {} [.new 1 "ab".toList [.int 31], .slice 2 1 (some 1) none, .iadd 2 1]).get? 2 |>.getD {}) := by
  refine ⟨[.new 1 "ab".toList [.int 31], .slice 2 1 (some 1) none, .iadd 2 1], 2, ?_⟩
  decide +kernel

end C09b
