import AnsiProofs.Props.C06d
import AnsiProofs.Props.C09c
import AnsiProofs.Props.C12b
import AnsiModel.Generated.Methods

namespace C04c
namespace L
open C06d.L

/-- the state of the translated loop:
    `(previous_settings, new_s, settings_initialized, current_settings, done)` -/
abbrev S := Option (List Setting) × AStr × Bool × List Setting × Bool

/-- one round of the loop of `__getitem__` on the key `k` holding the point `p`, the loop still running -/
def round (st en n : Nat) (o : Option (List Setting)) (ns : AStr) (init : Bool) (cur : List Setting)
    (k : Nat) (p : Point) : S :=
  let cur' := stepPoint cur p
  if k > n ∨ k > en then (o, ns, init, cur', true)
  else if k = en then
    (o, { ns with fmts := if p.rem.isEmpty then ns.fmts else ns.fmts.set (k - st) { rem := p.rem } },
      init, cur', true)
  else if k = st then
    (some cur', { ns with fmts := if cur'.isEmpty then ns.fmts else ns.fmts.set 0 { add := cur' } },
      true, cur', false)
  else if k > st then
    (some cur',
      { ns with fmts :=
          (if !init ∧ !(o.getD []).isEmpty then ns.fmts.set 0 { add := o.getD [] } else ns.fmts).set (k - st) p },
      true, cur', false)
  else (some cur', ns, init, cur', false)

/-- the whole loop over the entries of a table; once `done` is set nothing changes -/
def loopS (st en n : Nat) : S → Fmts → S
  | s, [] => s
  | (o, ns, init, cur, true), _ :: _ => (o, ns, init, cur, true)
  | (o, ns, init, cur, false), (k, p) :: rest => loopS st en n (round st en n o ns init cur k p) rest

theorem loopS_done (st en n : Nat) (o : Option (List Setting)) (ns : AStr) (init : Bool)
    (cur : List Setting) (B : Fmts) :
    loopS st en n (o, ns, init, cur, true) B = (o, ns, init, cur, true) := by
  cases B <;> rfl

/-- what one round of the translated loop has to do, whatever it looks like: nothing once `done` is
    set; otherwise, on a key `k` of the table `fm` (given as the `int` it is in Python) holding `p`,
    what `round` says -/
def RoundSpec (fm : Fmts) (st en n : Nat) (step : S → Int → Except Exc S) : Prop :=
  (∀ o ns init cur idx, step (o, ns, init, cur, true) idx = .ok (o, ns, init, cur, true)) ∧
  (∀ o ns init cur (k : Nat) p, fm.get? k = some p →
    step (o, ns, init, cur, false) (k : Int) = .ok (round st en n o ns init cur k p))

theorem fold_loop_aux {fm : Fmts} {st en n : Nat} {step : S → Int → Except Exc S}
    (hstep : RoundSpec fm st en n step) (hs : SortedKeys fm) :
    ∀ (B A : Fmts), fm = A ++ B → ∀ s : S,
      List.foldlM step s (B.map (fun kp => (kp.1 : Int))) = .ok (loopS st en n s B) := by
  intro B
  induction B with
  | nil => intro A _ s; rfl
  | cons kp B ih =>
    intro A hfm s
    obtain ⟨k, p⟩ := kp
    obtain ⟨o, ns, init, cur, d⟩ := s
    have hnext : fm = (A ++ [(k, p)]) ++ B := by simp [hfm]
    rw [List.map_cons, List.foldlM_cons]
    cases d with
    | true =>
      rw [hstep.1]
      show List.foldlM step _ _ = _
      rw [ih _ hnext, loopS_done, loopS_done]
    | false =>
      have hA : ∀ x ∈ A, x.1 < k := by
        intro x hx
        rw [hfm] at hs
        exact (List.pairwise_append.mp hs).2.2 x hx (k, p) (by simp)
      have hg : fm.get? k = some p := by rw [hfm]; exact C12b.L.get?_mid p B hA
      rw [hstep.2 _ _ _ _ _ _ hg]
      show List.foldlM step _ _ = _
      rw [ih _ hnext]
      rfl

/-- THE LOOP: over the ascending keys of a sorted table, rounds that meet `RoundSpec` compute `loopS` -/
theorem fold_loop {fm : Fmts} {st en n : Nat} {step : S → Int → Except Exc S}
    (hstep : RoundSpec fm st en n step) (hs : SortedKeys fm) (s : S) :
    List.foldlM step s (Obj.keysAsc fm) = .ok (loopS st en n s fm) := by
  have h := fold_loop_aux hstep hs fm [] rfl s
  unfold Obj.keysAsc Fmts.keys
  rw [List.map_map]
  exact h

/-- `loopS` is the model's `getLoop` over the triples of the iterator: the text of `new_s` is not
    touched, `previous_settings` is read as the list it holds (`None` as `[]`) -/
theorem loopS_getLoop (st en n : Nat) :
    ∀ (B : Fmts) (o : Option (List Setting)) (ns : AStr) (init : Bool) (cur : List Setting),
      ∃ o' f' init' c' d',
        loopS st en n (o, ns, init, cur, false) B = (o', { s := ns.s, fmts := f' }, init', c', d') ∧
        (o'.getD [], init', f') = AStr.getLoop st en n (o.getD []) init ns.fmts (replayFrom cur B) := by
  intro B
  induction B with
  | nil => intro o ns init cur; exact ⟨o, ns.fmts, init, cur, false, rfl, rfl⟩
  | cons kp B ih =>
    intro o ns init cur
    obtain ⟨k, p⟩ := kp
    show ∃ o' f' init' c' d', loopS st en n (round st en n o ns init cur k p) B = _ ∧ _
    unfold replayFrom AStr.getLoop round
    by_cases h1 : k > n ∨ k > en
    · simp only [h1, if_true, loopS_done]
      exact ⟨_, _, _, _, _, rfl, rfl⟩
    · by_cases h2 : k = en
      · subst h2
        simp only [h1, if_true, if_false, loopS_done]
        exact ⟨_, _, _, _, _, rfl, rfl⟩
      · by_cases h3 : k = st
        · subst h3
          simp only [h1, h2, if_true, if_false]
          exact ih (some (stepPoint cur p)) _ true (stepPoint cur p)
        · by_cases h4 : k > st
          · simp only [h1, h2, h3, h4, if_true, if_false]
            exact ih (some (stepPoint cur p)) _ true (stepPoint cur p)
          · simp only [h1, h2, h3, h4, if_false]
            exact ih (some (stepPoint cur p)) ns init (stepPoint cur p)

/-! ## The primitives on the keys the loop uses -/

theorem get_some {f : Fmts} {k : Nat} {p : Point} (h : f.get? k = some p) :
    Obj.get f (k : Int) = .ok p := by
  unfold Obj.get
  have : ¬ ((k : Int) < 0) := by omega
  simp only [this, if_false, Int.toNat_natCast, h]

theorem set_zero (f : Fmts) (p : Point) : Obj.set f (0 : Int) p = .ok (f.set 0 p) := set_nat f 0 p

/-- `d[idx - st] = p` where `st ≤ idx` -/
theorem set_sub (f : Fmts) (k st : Nat) (p : Point) (h : st ≤ k) :
    Obj.set f ((k : Int) - (st : Int)) p = .ok (f.set (k - st) p) := by
  rw [← Int.ofNat_sub h]
  exact set_nat f (k - st) p

theorem truthy_none : Py.truthyOptList (none : Option (List Setting)) = false := rfl
theorem truthy_some (l : List Setting) : Py.truthyOptList (some l) = !l.isEmpty := rfl
theorem optGet_some (l : List Setting) : Py.optGet (some l) = (.ok l : Except Exc _) := rfl

theorem point_eta (p : Point) : ({ add := p.add, rem := p.rem } : Point) = p := rfl

end L

open L C06d.L

theorem translated : Gen.getItemCoreOk = true := by decide

theorem getItemCore_is_code (x : AStr) (hs : SortedKeys x.fmts) (st en : Nat) :
    Gen.getItemCore x { s := pySlice x.s st en, fmts := [] } (st : Int) (en : Int) =
      .ok (x.getRange st en) := by
  unfold Gen.getItemCore AStr.getRange
  cases htext : (pySlice x.s st en).isEmpty with
  | true =>
    have : pySlice x.s st en = [] := by simpa using htext
    simp [this]
  | false =>
    have hse : st ≤ en := by
      sorry
    simp only [Bool.not_false, Bool.not_true, Bool.false_eq_true, if_false]
    rw [fold_loop (st := st) (en := en) (n := x.len) ?spec hs]
    case spec =>
      constructor
      · intro o ns init cur idx
        simp
      · intro o ns init cur k p hg
        simp only [get_some hg, bind_ok, C09c.iter_step_is_code]
        unfold round
        trace_state
        sorry
    trace_state
    sorry

end C04c
