import AnsiProofs.Props.C06d
import AnsiProofs.Props.C09c
import AnsiProofs.Props.C12b
import AnsiModel.Generated.Methods.GetItemCore
/-
  Property C04, part c — the *generated* (statement-by-statement translated) body of
  `AnsiString.__getitem__` (`Gen.getItemCore` of `AnsiModel/Generated/Methods.lean`: the statements
  after `new_s._s = self._s[val]`) computes exactly what the hand-written model says
  (`AStr.getRange`, `AnsiModel/Slice.lean`) on values whose table is sorted; the outcomes `Exc.key`
  (the fetch `self._fmts[idx]` of the iterator) and `Exc.outside` (a negative key `idx - st`, `None`
  where the list `previous_settings` is needed) never happen there.

  The file is split in two:

  * `namespace C04c.L` — everything that does not mention `Gen.getItemCore`:
    - `round`: one round of the `for` loop as a function on the loop state
      `(previous_settings, new_s, settings_initialized, current_settings, done)`; `loopS`: the rounds
      over a table, nothing changing once `done` (Python's `break`) is set;
    - `RoundSpec fm st en n step`: what a step function has to do to be that round — a no-op on a
      state with `done`, and `round` on a key of the table `fm` given as the Python `int`;
    - `fold_loop`: for *any* step function meeting `RoundSpec`, `List.foldlM` over the ascending keys
      of a sorted table is `loopS` (here `SortedKeys` is used: the key under the cursor is found by
      `Fmts.get?`, which stops early, because everything before it is smaller);
    - `loopS_getLoop`: `loopS` is the model's `AStr.getLoop` over `replayFrom cur` of the table, with
      `previous_settings : Option (List Setting)` read as the list it holds (`None` as `[]`) and the
      text of `new_s` untouched;
    - the primitives on the keys used (`get_some`, `set_zero`, `set_sub`), `Py.truthyOptList`/`Py.optGet`.
  * `namespace C04c` — the theorems over `Gen.getItemCore`: `unfold`, the loop rewritten by `fold_loop`
    with the spec of the round discharged for the generated lambda by case distinction on the position
    of the key and `simp`, the statements after the loop by one `simp only` with the lemmas of
    `C06d.L` (`has_nat`, `set_nat`, `get_nat`, `modifyAt_nat`, `find_lt_zero`, …).  The same script was
    run unchanged against a rewritten variant of the generated function (`len(new_s._s) == 0`,
    `idx > en or len(self._s) < idx`, `en == idx`, `if not settings.rem: pass else: …`, `st < idx`,
    `previous_settings and not settings_initialized`, the assignment of `previous_settings` factored
    out behind the `if`/`elif` chain, `if not previous_settings: return new_s`,
    `if new_len in new_s._fmts: pass else: …`, no trailing rebinding) and passed.
-/

namespace C04c
namespace L
open C06d.L

/-- the state of the translated loop:
    `(previous_settings, new_s, settings_initialized, current_settings, done)` -/
abbrev S := Option (List Setting) × AStr × Bool × List Setting × Bool

/-- one round of the loop of `__getitem__` on the key `k` holding the point `p`, the loop still running -/
def round (st en n : Nat) (o : Option (List Setting)) (ns : AStr) (init : Bool) (cur : List Setting)
    (k : Nat) (p : Point) : S :=
  let cur' := stepPoint cur p
  if k > n ∨ k > en then (o, ns, init, cur', true)
  else if k = en then
    (o, { ns with fmts := if p.rem.isEmpty then ns.fmts else ns.fmts.set (k - st) { rem := p.rem } },
      init, cur', true)
  else if k = st then
    (some cur', { ns with fmts := if cur'.isEmpty then ns.fmts else ns.fmts.set 0 { add := cur' } },
      true, cur', false)
  else if k > st then
    (some cur',
      { ns with fmts :=
          (if !init ∧ !(o.getD []).isEmpty then ns.fmts.set 0 { add := o.getD [] } else ns.fmts).set (k - st) p },
      true, cur', false)
  else (some cur', ns, init, cur', false)

/-- the whole loop over the entries of a table; once `done` is set nothing changes -/
def loopS (st en n : Nat) : S → Fmts → S
  | s, [] => s
  | (o, ns, init, cur, true), _ :: _ => (o, ns, init, cur, true)
  | (o, ns, init, cur, false), (k, p) :: rest => loopS st en n (round st en n o ns init cur k p) rest

theorem loopS_done (st en n : Nat) (o : Option (List Setting)) (ns : AStr) (init : Bool)
    (cur : List Setting) (B : Fmts) :
    loopS st en n (o, ns, init, cur, true) B = (o, ns, init, cur, true) := by
  cases B <;> rfl

/-- what one round of the translated loop has to do, whatever it looks like: nothing once `done` is
    set; otherwise, on a key `k` of the table `fm` (given as the `int` it is in Python) holding `p`,
    what `round` says -/
def RoundSpec (fm : Fmts) (st en n : Nat) (step : S → Int → Except Exc S) : Prop :=
  (∀ o ns init cur idx, step (o, ns, init, cur, true) idx = .ok (o, ns, init, cur, true)) ∧
  (∀ o ns init cur (k : Nat) p, fm.get? k = some p →
    step (o, ns, init, cur, false) (k : Int) = .ok (round st en n o ns init cur k p))

theorem fold_loop_aux {fm : Fmts} {st en n : Nat} {step : S → Int → Except Exc S}
    (hstep : RoundSpec fm st en n step) (hs : SortedKeys fm) :
    ∀ (B A : Fmts), fm = A ++ B → ∀ s : S,
      List.foldlM step s (B.map (fun kp => (kp.1 : Int))) = .ok (loopS st en n s B) := by
  intro B
  induction B with
  | nil => intro A _ s; rfl
  | cons kp B ih =>
    intro A hfm s
    obtain ⟨k, p⟩ := kp
    obtain ⟨o, ns, init, cur, d⟩ := s
    have hnext : fm = (A ++ [(k, p)]) ++ B := by simp [hfm]
    rw [List.map_cons, List.foldlM_cons]
    cases d with
    | true =>
      rw [hstep.1]
      show List.foldlM step _ _ = _
      rw [ih _ hnext, loopS_done, loopS_done]
    | false =>
      have hA : ∀ x ∈ A, x.1 < k := by
        intro x hx
        rw [hfm] at hs
        exact (List.pairwise_append.mp hs).2.2 x hx (k, p) (by simp)
      have hg : fm.get? k = some p := by rw [hfm]; exact C12b.L.get?_mid p B hA
      rw [hstep.2 _ _ _ _ _ _ hg]
      show List.foldlM step _ _ = _
      rw [ih _ hnext]
      rfl

/-- THE LOOP: over the ascending keys of a sorted table, rounds that meet `RoundSpec` compute `loopS` -/
theorem fold_loop {fm : Fmts} {st en n : Nat} {step : S → Int → Except Exc S}
    (hstep : RoundSpec fm st en n step) (hs : SortedKeys fm) (s : S) :
    List.foldlM step s (Obj.keysAsc fm) = .ok (loopS st en n s fm) := by
  have h := fold_loop_aux hstep hs fm [] rfl s
  unfold Obj.keysAsc Fmts.keys
  rw [List.map_map]
  exact h

/-- `loopS` is the model's `getLoop` over the triples of the iterator: the text of `new_s` is not
    touched, `previous_settings` is read as the list it holds (`None` as `[]`) -/
theorem loopS_getLoop (st en n : Nat) :
    ∀ (B : Fmts) (o : Option (List Setting)) (ns : AStr) (init : Bool) (cur : List Setting),
      ∃ o' f' init' c' d',
        loopS st en n (o, ns, init, cur, false) B = (o', { s := ns.s, fmts := f' }, init', c', d') ∧
        (o'.getD [], init', f') = AStr.getLoop st en n (o.getD []) init ns.fmts (replayFrom cur B) := by
  intro B
  induction B with
  | nil => intro o ns init cur; exact ⟨o, ns.fmts, init, cur, false, rfl, rfl⟩
  | cons kp B ih =>
    intro o ns init cur
    obtain ⟨k, p⟩ := kp
    show ∃ o' f' init' c' d', loopS st en n (round st en n o ns init cur k p) B = _ ∧ _
    unfold replayFrom AStr.getLoop round
    by_cases h1 : k > n ∨ k > en
    · simp only [h1, if_true, loopS_done]
      exact ⟨_, _, _, _, _, rfl, rfl⟩
    · by_cases h2 : k = en
      · subst h2
        simp only [h1, if_true, if_false, loopS_done]
        exact ⟨_, _, _, _, _, rfl, rfl⟩
      · by_cases h3 : k = st
        · subst h3
          simp only [h1, h2, if_true, if_false]
          exact ih (some (stepPoint cur p)) _ true (stepPoint cur p)
        · by_cases h4 : k > st
          · simp only [h1, h2, h3, h4, if_true, if_false]
            exact ih (some (stepPoint cur p)) _ true (stepPoint cur p)
          · simp only [h1, h2, h3, h4, if_false]
            exact ih (some (stepPoint cur p)) ns init (stepPoint cur p)

/-! ## The primitives on the keys the loop uses -/

theorem get_some {f : Fmts} {k : Nat} {p : Point} (h : f.get? k = some p) :
    Obj.get f (k : Int) = .ok p := by
  unfold Obj.get
  have : ¬ ((k : Int) < 0) := by omega
  simp only [this, if_false, Int.toNat_natCast, h]

theorem set_zero (f : Fmts) (p : Point) : Obj.set f (0 : Int) p = .ok (f.set 0 p) := set_nat f 0 p

/-- `d[idx - st] = p` where `st ≤ idx` -/
theorem set_sub (f : Fmts) (k st : Nat) (p : Point) (h : st ≤ k) :
    Obj.set f ((k : Int) - (st : Int)) p = .ok (f.set (k - st) p) := by
  rw [← Int.ofNat_sub h]
  exact set_nat f (k - st) p

theorem truthy_none : Py.truthyOptList (none : Option (List Setting)) = false := rfl
theorem truthy_some (l : List Setting) : Py.truthyOptList (some l) = !l.isEmpty := rfl
theorem optGet_some (l : List Setting) : Py.optGet (some l) = (.ok l : Except Exc _) := rfl

end L

open L C06d.L

/-- the method was translated (it did not fall outside the translator's fragment) -/
theorem translated : Gen.getItemCoreOk = true := by decide

/-- closes what `simp` leaves of a branch of the round: `if`s on the emptiness of a list that occur on
    both sides -/
local macro "leaf" : tactic => `(tactic| (repeat' split) <;> simp_all [bind_ok])

set_option linter.unusedSimpArgs false in
/-- THE GENERATED `__getitem__` IS THE MODEL'S `getRange`: with `new_s._s = self._s[st:en]` already
    assigned, the statements of `__getitem__` translated from the source end normally with exactly the
    model's value — no `KeyError`, nothing outside the model's representation -/
theorem getItemCore_is_code (x : AStr) (hs : SortedKeys x.fmts) (st en : Nat) :
    Gen.getItemCore x { s := pySlice x.s st en, fmts := [] } (st : Int) (en : Int) =
      .ok (x.getRange st en) := by
  unfold Gen.getItemCore AStr.getRange
  cases htext : (pySlice x.s st en).isEmpty with
  | true =>
    have : pySlice x.s st en = [] := by simpa using htext
    simp [this]
  | false =>
    have hse : st ≤ en := by
      have h := congrArg List.length (show pySlice x.s st en = (x.s.take en).drop st from rfl)
      have hne : (pySlice x.s st en).length ≠ 0 := by
        intro h0; rw [List.length_eq_zero_iff.mp h0] at htext; cases htext
      rw [List.length_drop, List.length_take] at h
      omega
    simp only [htext, length_eq_zero_dec, length_ne_zero_dec, length_pos_dec, Bool.not_false, Bool.not_true,
      Bool.false_eq_true, if_false]
    rw [fold_loop (st := st) (en := en) (n := x.len) ?spec hs]
    case spec =>
      constructor
      · intro o ns init cur idx
        simp
      · intro o ns init cur k p hg
        simp only [get_some hg, bind_ok, C09c.iter_step_is_code]
        unfold round
        simp only [AStr.len]
        by_cases h1 : k > x.s.length ∨ k > en
        · rcases h1 with h | h <;> simp [h]
        · have a1 : ¬ x.s.length < k := by omega
          have a2 : ¬ en < k := by omega
          by_cases h2 : k = en
          · subst h2
            simp [a1, set_sub _ _ _ _ hse, bind_ok] <;> leaf
          · have h2' : ¬ en = k := by omega
            by_cases h3 : k = st
            · subst h3
              simp [a1, a2, h2, h2', set_zero, bind_ok, Int.natCast_inj] <;> leaf
            · have h3' : ¬ st = k := by omega
              by_cases h4 : k > st
              · have h4' : st ≤ k := by omega
                cases init <;> cases o <;>
                  simp [a1, a2, h2, h2', h3, h3', h4, set_sub _ _ _ _ h4', set_zero, bind_ok, truthy_none,
                    truthy_some, optGet_some, Int.natCast_inj] <;> leaf
              · simp [a1, a2, h2, h2', h3, h3', h4, Int.natCast_inj, bind_ok] <;> leaf
    obtain ⟨o', f', init', c', d', hl, hr⟩ :=
      loopS_getLoop st en x.len x.fmts none { s := pySlice x.s st en, fmts := [] } false []
    have hr' : AStr.getLoop st en x.len [] false [] (replay x.fmts) = (o'.getD [], init', f') := hr.symm
    rw [hl, hr']
    simp only [bind_ok, htext, length_eq_zero_dec, length_ne_zero_dec, length_pos_dec, Bool.not_false,
      Bool.not_true, Bool.false_eq_true, if_false]
    cases o' with
    | none => simp [truthy_none, bind_ok]
    | some l =>
      cases hle : l.isEmpty <;> cases init' <;>
        simp only [truthy_some, optGet_some, hle, set_zero, has_nat, set_nat, get_nat, modifyAt_nat, find_lt_zero,
          ensure_eq, contains_ensure_self, bind_ok, ite_ok, ite_bnot, ite_bnot_fmts, ite_astr,
          Option.getD_some, Bool.not_true, Bool.not_false, Bool.false_eq_true, Bool.and_true, Bool.and_false,
          Bool.true_and, Bool.false_and, and_true, and_false, true_and, false_and, if_false, if_true]

/-- under the same hypotheses the translated statements raise nothing: no `KeyError` from the fetch of
    the point of a key, nothing outside the model's representation (no negative key `idx - st`, no
    `None` where the list `previous_settings` is needed), no Python exception -/
theorem getItemCore_never_outside (x : AStr) (hs : SortedKeys x.fmts) (st en : Nat) (err : Exc) :
    Gen.getItemCore x { s := pySlice x.s st en, fmts := [] } (st : Int) (en : Int) ≠ .error err := by
  rw [getItemCore_is_code x hs st en]
  intro h; cases h

/-! ## Non-vacuity: a concrete value -/

/-- "abcdef", object 0 (`31`) from 0 to 6, object 1 (`1`) from 2 to 4 -/
def x0 : AStr :=
  { s := "abcdef".toList,
    fmts := [(0, { add := [⟨0, "31".toList⟩] }), (2, { add := [⟨1, "1".toList⟩] }),
             (4, { rem := [⟨1, "1".toList⟩] }), (6, { rem := [⟨0, "31".toList⟩] })] }

example : SortedKeys x0.fmts := by simp [x0, SortedKeys]

example : Gen.getItemCore x0 { s := pySlice x0.s 1 5, fmts := [] } 1 5 = .ok (x0.getRange 1 5) := by
  decide +kernel
example : Gen.getItemCore x0 { s := pySlice x0.s 2 4, fmts := [] } 2 4 = .ok (x0.getRange 2 4) := by
  decide +kernel
example : Gen.getItemCore x0 { s := pySlice x0.s 3 3, fmts := [] } 3 3 = .ok (x0.getRange 3 3) := by
  decide +kernel
example : Gen.getItemCore x0 { s := pySlice x0.s 0 6, fmts := [] } 0 6 = .ok (x0.getRange 0 6) := by
  decide +kernel
example : Gen.getItemCore x0 { s := pySlice x0.s 3 9, fmts := [] } 3 9 = .ok (x0.getRange 3 9) := by
  decide +kernel

/-- the values themselves: the settings active at the cut are started at 0, the ones still running at
    the end are stopped at the new length -/
example : Gen.getItemCore x0 { s := pySlice x0.s 1 5, fmts := [] } 1 5 = .ok
    { s := "bcde".toList,
      fmts := [(0, { add := [⟨0, "31".toList⟩] }), (1, { add := [⟨1, "1".toList⟩] }),
               (3, { rem := [⟨1, "1".toList⟩] }), (4, { rem := [⟨0, "31".toList⟩] })] } := by
  decide +kernel

example : Gen.getItemCore x0 { s := pySlice x0.s 3 5, fmts := [] } 3 5 = .ok
    { s := "de".toList,
      fmts := [(0, { add := [⟨0, "31".toList⟩, ⟨1, "1".toList⟩] }), (1, { rem := [⟨1, "1".toList⟩] }),
               (2, { rem := [⟨0, "31".toList⟩] })] } := by
  decide +kernel

example : Gen.getItemCore x0 { s := pySlice x0.s 3 3, fmts := [] } 3 3 = .ok { s := [], fmts := [] } := by
  decide +kernel

/-- the hypothesis `SortedKeys` is needed: on a table out of order the fetch of the point meets `Exc.key` -/
example : Gen.getItemCore { s := "abc".toList, fmts := [(2, {}), (0, {})] }
    { s := "abc".toList, fmts := [] } 0 3 = .error .key := by
  decide +kernel

end C04c

#print axioms C04c.translated
#print axioms C04c.getItemCore_is_code
#print axioms C04c.getItemCore_never_outside
