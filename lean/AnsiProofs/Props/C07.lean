import AnsiProofs.Lemmas.Remove
/-
  Property C07 — `remove_formatting(settings, start, end)` never changes the text; afterwards each
  character inside the slice-normalised range reports its previous settings minus every setting
  equal to one of the given ones (all of them when `settings` is `None`), the remaining ones keeping
  their relative precedence; each character outside the range reports the same settings with the
  same precedence as before.  An empty range is a no-op, and `clear_formatting()` leaves the text
  with no settings on any character.

  Notation: `M : Option (List Str)` are the scrubbed texts to remove (`none` = all),
  `st = sliceIdx x.len start 0`, `en = sliceIdx x.len end_ x.len`.
  All helper lemmas are in `AnsiProofs/Lemmas/Remove.lean` (namespace `Remove`).
-/

open Remove

/-! ## 1 — text, empty range -/

theorem remove_text (x : AStr) (M : Option (List Str)) (start end_ : Option Int) :
    (x.removeFormatting M start end_).s = x.s := by
  unfold AStr.removeFormatting
  simp only
  split <;> rfl

theorem remove_noop (x : AStr) (M : Option (List Str)) (start end_ : Option Int)
    (h : sliceIdx x.len start 0 ≥ x.len ∨ sliceIdx x.len end_ x.len ≤ sliceIdx x.len start 0) :
    x.removeFormatting M start end_ = x := by
  unfold AStr.removeFormatting
  simp only [h, if_true]

/-! ## 2 — inside the range: the previous settings minus the selected ones, order kept -/

theorem remove_inside (x : AStr) (hx : WF x) (M : Option (List Str)) (start end_ : Option Int) (i : Nat)
    (h1 : sliceIdx x.len start 0 < x.len) (h2 : sliceIdx x.len start 0 ≤ i)
    (h3 : i < sliceIdx x.len end_ x.len) :
    act (x.removeFormatting M start end_) i = (act x i).filter (fun s => !AStr.selected M s) := by
  have hle : sliceIdx x.len end_ x.len ≤ x.len := sliceIdx_le _ _ _ (Nat.le_refl _)
  rw [removeFormatting_eq x M start end_ (by omega)]
  unfold act
  simp only
  rw [new_active hx, old_active hx]
  exact new_inside hx M _ _ (by omega) _ (by omega) (by omega)

/-- with `settings=None` nothing is left inside the range -/
theorem remove_inside_all (x : AStr) (hx : WF x) (start end_ : Option Int) (i : Nat)
    (h1 : sliceIdx x.len start 0 < x.len) (h2 : sliceIdx x.len start 0 ≤ i)
    (h3 : i < sliceIdx x.len end_ x.len) :
    act (x.removeFormatting none start end_) i = [] := by
  rw [remove_inside x hx none start end_ i h1 h2 h3]
  apply List.filter_eq_nil_iff.mpr
  intro a _
  simp [AStr.selected]

/-! ## 3 — outside the range: same settings (same objects), same precedence -/

theorem remove_outside (x : AStr) (hx : WF x) (M : Option (List Str)) (start end_ : Option Int) (i : Nat)
    (h : i < sliceIdx x.len start 0 ∨ sliceIdx x.len end_ x.len ≤ i) :
    act (x.removeFormatting M start end_) i = act x i := by
  by_cases hn : sliceIdx x.len start 0 ≥ x.len ∨ sliceIdx x.len end_ x.len ≤ sliceIdx x.len start 0
  · rw [remove_noop x M start end_ hn]
  · have hle : sliceIdx x.len end_ x.len ≤ x.len := sliceIdx_le _ _ _ (Nat.le_refl _)
    rw [removeFormatting_eq x M start end_ hn]
    unfold act
    simp only
    rw [new_active hx, old_active hx]
    rcases h with h | h
    · exact new_before hx M _ _ (by omega) _ (by omega)
    · exact new_after hx M _ _ (by omega) _ (by omega)

/-- hence the same displayed style outside the range -/
theorem remove_outside_eff (x : AStr) (hx : WF x) (M : Option (List Str)) (start end_ : Option Int) (i : Nat)
    (h : i < sliceIdx x.len start 0 ∨ sliceIdx x.len end_ x.len ≤ i) :
    eff (act (x.removeFormatting M start end_) i) = eff (act x i) := by
  rw [remove_outside x hx M start end_ i h]

/-! ## 4 — the history invariant is preserved -/

theorem remove_wf (x : AStr) (hx : WF x) (M : Option (List Str)) (start end_ : Option Int) :
    WF (x.removeFormatting M start end_) := by
  by_cases hn : sliceIdx x.len start 0 ≥ x.len ∨ sliceIdx x.len end_ x.len ≤ sliceIdx x.len start 0
  · rw [remove_noop x M start end_ hn]; exact hx
  · have hle : sliceIdx x.len end_ x.len ≤ x.len := sliceIdx_le _ _ _ (Nat.le_refl _)
    rw [removeFormatting_eq x M start end_ hn]
    exact new_wf hx M _ _ (by omega) (by omega) hle

/-! ## 5 — `clear_formatting` -/

theorem clear_all (x : AStr) (i : Nat) : act x.clearFormatting i = [] := rfl

theorem clear_text (x : AStr) : x.clearFormatting.s = x.s := rfl

/-! ## 6 — the raw entry point (argument scrubbing, falsy-but-not-None arguments) -/

theorem removeRaw_spec (x : AStr) (a : Option SArg) (start end_ : Option Int) (y' : AStr)
    (h : x.removeRaw a start end_ = .ok y') :
    y' = x ∨ (a = none ∧ y' = x.removeFormatting none start end_) ∨
      ∃ arg ts, a = some arg ∧ Scrub.scrub arg = .ok ts ∧ y' = x.removeFormatting (some ts) start end_ := by
  unfold AStr.removeRaw at h
  cases a with
  | none =>
    simp only at h
    split at h
    · left
      injection h with h
      exact h.symm
    · injection h with h
      exact Or.inr (Or.inl ⟨rfl, h.symm⟩)
  | some arg =>
    simp only at h
    split at h
    · left
      injection h with h
      exact h.symm
    · cases hs : Scrub.scrub arg with
      | error e =>
        rw [hs] at h
        cases h
      | ok ts =>
        rw [hs] at h
        injection h with h
        exact Or.inr (Or.inr ⟨arg, ts, rfl, hs, h.symm⟩)

/-! ## Non-vacuity: `abcd`, red and blue (two objects) over the whole text, remove red on `[1,2)` -/

namespace C07Ex

def red : Setting := ⟨0, "31".toList⟩
def blue : Setting := ⟨1, "34".toList⟩

def x0 : AStr :=
  { s := "abcd".toList, fmts := [(0, { add := [red, blue] }), (4, { rem := [red, blue] })] }

theorem x0_active (i : Nat) : active x0.fmts i = if 4 ≤ i then [] else [red, blue] := by
  by_cases h : 4 ≤ i
  · have h0 : 0 ≤ i := Nat.zero_le _
    simp [x0, active, activeFrom, h, stepPoint, eraseId, red, blue]
  · simp [x0, active, activeFrom, h, stepPoint]

theorem x0_wf : WF x0 where
  sorted := by unfold SortedKeys; decide
  bound := by decide
  noAddEnd := by decide
  ok := by decide
  nodup := by
    intro i
    rw [x0_active]
    split <;> decide
  closed := by decide
  coherent := by decide

/-- `remove_formatting("31", 1, 2)` -/
def y0 : AStr := x0.removeFormatting (some ["31".toList]) (some 1) (some 2)

example : y0.s = "abcd".toList := by decide
/-- character 0: unchanged -/
example : act y0 0 = [red, blue] := by decide
/-- character 1: red is gone -/
example : act y0 1 = [blue] := by decide
/-- characters 2 and 3: red is back *below* blue, as before -/
example : act y0 2 = [red, blue] := by decide
example : act y0 3 = [red, blue] := by decide
/-- the resulting table -/
example : y0.fmts =
    [(0, { add := [red, blue] }), (1, { rem := [red] }),
     (2, { add := [red, blue], rem := [blue] }), (4, { rem := [red, blue] })] := by decide

/-- the hypotheses of `remove_inside` / `remove_outside` hold on this value -/
example : sliceIdx x0.len (some 1) 0 < x0.len ∧ sliceIdx x0.len (some 1) 0 ≤ 1 ∧
    1 < sliceIdx x0.len (some 2) x0.len := by decide
example : 0 < sliceIdx x0.len (some 1) 0 ∧ sliceIdx x0.len (some 2) x0.len ≤ 3 := by decide
/-- the theorems instantiated -/
example : act y0 1 = (act x0 1).filter (fun s => !AStr.selected (some ["31".toList]) s) :=
  remove_inside x0 x0_wf _ _ _ 1 (by decide) (by decide) (by decide)
example : act y0 3 = act x0 3 := remove_outside x0 x0_wf _ _ _ 3 (Or.inr (by decide))
example : WF y0 := remove_wf x0 x0_wf _ _ _
/-- empty range -/
example : sliceIdx x0.len (some 2) 0 ≥ x0.len ∨ sliceIdx x0.len (some 2) x0.len ≤ sliceIdx x0.len (some 2) 0 := by
  decide
/-- remove everything on `[1,3)`, negative bound -/
example : act (x0.removeFormatting none (some 1) (some (-1))) 2 = [] := by decide
example : act (x0.removeFormatting none (some 1) (some (-1))) 3 = [red, blue] := by decide
/-- the raw entry point on a string argument -/
example : x0.removeRaw (some (.obj "31".toList)) (some 1) (some 2) = .ok y0 := rfl

/-! a second value: a change point strictly inside the range, the removed setting in the middle of
    the precedence order at `end` (so `carried = [red, c]`, `c` is stopped and restarted above `red`) -/

def a : Setting := ⟨2, "1".toList⟩
def c : Setting := ⟨3, "4".toList⟩

def x1 : AStr :=
  { s := "abcdef".toList,
    fmts := [(0, { add := [a] }), (1, { add := [red] }), (3, { add := [c] }), (5, { rem := [red] }),
             (6, { rem := [a, c] })] }

theorem x1_wf : WF x1 where
  sorted := by unfold SortedKeys; decide
  bound := by decide
  noAddEnd := by decide
  ok := by decide
  nodup := by
    intro i
    unfold active x1
    simp only [activeFrom]
    repeat' split
    all_goals decide
  closed := by decide
  coherent := by decide

def y1 : AStr := x1.removeFormatting (some ["31".toList]) (some 2) (some 4)

example : (List.range 6).map (act x1) = [[a], [a, red], [a, red], [a, red, c], [a, red, c], [a, c]] := by decide
example : (List.range 6).map (act y1) = [[a], [a, red], [a], [a, c], [a, red, c], [a, c]] := by decide
example : y1.fmts =
    [(0, { add := [a] }), (1, { add := [red] }), (2, { rem := [red] }), (3, { add := [c] }),
     (4, { add := [red, c], rem := [c] }), (5, { rem := [red] }), (6, { rem := [a, c] })] := by decide
example : act y1 4 = act x1 4 := remove_outside x1 x1_wf _ _ _ 4 (Or.inr (by decide))
example : act y1 3 = (act x1 3).filter (fun s => !AStr.selected (some ["31".toList]) s) :=
  remove_inside x1 x1_wf _ _ _ 3 (by decide) (by decide) (by decide)
example : WF y1 := remove_wf x1 x1_wf _ _ _

end C07Ex

#print axioms remove_text
#print axioms remove_noop
#print axioms remove_inside
#print axioms remove_inside_all
#print axioms remove_outside
#print axioms remove_outside_eff
#print axioms remove_wf
#print axioms clear_all
#print axioms clear_text
#print axioms removeRaw_spec
