import AnsiProofs.Lemmas.Find
/-
  Property C17 — `ansi_settings_at`, `settings_at`, `find_settings`.

  Notation used in the comments: `n = x.len`, `st = sliceIdx n start 0`, `en = sliceIdx n end_ n`
  (the normalised range), `(fs, fe) = x.findSettings want start end_ rev`,
  `has i = AStr.allIn want (act x i)` (every wanted text occurs among the settings character `i`
  reports).  The only part of `WF x` that is used is `WF.sorted : SortedKeys x.fmts`.
-/

/-- the running example: "abcdef", bold ("1") on [1,4), red ("31") on [3,6) -/
def C17.ex : AStr :=
  { s := "abcdef".toList,
    fmts := [(1, { add := [⟨0, "1".toList⟩] }), (3, { add := [⟨1, "31".toList⟩] }),
             (4, { rem := [⟨0, "1".toList⟩] }), (6, { rem := [⟨1, "31".toList⟩] })] }

example : SortedKeys C17.ex.fmts := by unfold SortedKeys; decide
example : C17.ex.len = 6 := by decide

/-! ### 1. `ansi_settings_at` / `settings_at` -/

/-- outside `0..len-1` nothing is reported -/
theorem settings_at_oob (x : AStr) (i : Int) (h : i < 0 ∨ i ≥ x.len) : x.ansiSettingsAt i = [] := by
  unfold AStr.ansiSettingsAt
  have : ¬ (0 ≤ i ∧ i < (x.len : Int)) := by omega
  simp only [this, if_false]

example : C17.ex.ansiSettingsAt 6 = [] ∧ C17.ex.ansiSettingsAt (-1) = [] := by decide

/-- inside, exactly the settings the character reports -/
theorem settings_at_in (x : AStr) (i : Int) (h0 : 0 ≤ i) (h1 : i < x.len) :
    x.ansiSettingsAt i = act x i.toNat := by
  unfold AStr.ansiSettingsAt act
  simp only [h0, h1, and_self, if_true]

example : C17.ex.ansiSettingsAt 3 = [⟨0, "1".toList⟩, ⟨1, "31".toList⟩] := by decide

/-- `settings_at` is the `;`-join of the texts -/
theorem settings_at_join (x : AStr) (i : Int) :
    x.settingsAt i = joinSep semi (texts (x.ansiSettingsAt i)) := rfl

example : C17.ex.settingsAt 3 = "1;31".toList := by decide

/-! ### 2. degenerate calls of `find_settings` -/

/-- `end < start` after normalisation: `(None, None)` -/
theorem find_inverted (x : AStr) (want : List Str) (start end_ : Option Int) (rev : Bool)
    (h : sliceIdx x.len end_ x.len < sliceIdx x.len start 0) :
    x.findSettings want start end_ rev = (none, none) := by
  unfold AStr.findSettings
  simp only [h, if_true]

example : sliceIdx C17.ex.len (some 2) C17.ex.len < sliceIdx C17.ex.len (some 4) 0 := by decide
example : C17.ex.findSettings ["1".toList] (some 4) (some 2) false = (none, none) := by decide

/-- no settings: the normalised range itself -/
theorem find_empty (x : AStr) (want : List Str) (start end_ : Option Int) (rev : Bool)
    (h : sliceIdx x.len start 0 ≤ sliceIdx x.len end_ x.len) (hw : want = []) :
    x.findSettings want start end_ rev = (some (sliceIdx x.len start 0), some (sliceIdx x.len end_ x.len)) := by
  unfold AStr.findSettings
  have : ¬ sliceIdx x.len end_ x.len < sliceIdx x.len start 0 := by omega
  subst hw
  simp only [this, if_false, List.isEmpty_nil, if_true]

example : C17.ex.findSettings [] (some (-4)) (some 10) true = (some 2, some 6) := by decide

/-- the normalised range always lies inside `0..len` (so `en ≤ n` need not be assumed below) -/
theorem find_range_le (x : AStr) (start end_ : Option Int) :
    sliceIdx x.len start 0 ≤ x.len ∧ sliceIdx x.len end_ x.len ≤ x.len :=
  ⟨sliceIdx_le_f17 _ _ _ (Nat.zero_le _), sliceIdx_le_f17 _ _ _ (Nat.le_refl _)⟩

/-! ### 4. the search proper (`want ≠ []`, `st ≤ en`) -/

/-- `found_start is None` exactly when no position of the range has all the settings -/
theorem find_none_iff (x : AStr) (hs : SortedKeys x.fmts) (want : List Str) (hw : want ≠ [])
    (start end_ : Option Int) (rev : Bool)
    (hse : sliceIdx x.len start 0 ≤ sliceIdx x.len end_ x.len) :
    (x.findSettings want start end_ rev).1 = none ↔
      ∀ i, sliceIdx x.len start 0 ≤ i → i < sliceIdx x.len end_ x.len →
        AStr.allIn want (act x i) = false := by
  have hen := (find_range_le x start end_).2
  rw [findSettings_fst x want start end_ rev hse hw]
  constructor
  · exact findFs_none hs hse hen
  · intro h
    cases hfs : findFs x want (sliceIdx x.len start 0) (sliceIdx x.len end_ x.len) rev with
    | none => rfl
    | some i =>
      obtain ⟨h1, h2, h3⟩ := findFs_in_range hs hse hen hfs
      have := h i h1 h2
      unfold act at this
      rw [h3] at this
      cases this

/-- `found_start is None → found_end is None` (holds for every call) -/
theorem find_none_end (x : AStr) (want : List Str) (start end_ : Option Int) (rev : Bool)
    (h : (x.findSettings want start end_ rev).1 = none) :
    (x.findSettings want start end_ rev).2 = none :=
  findSettings_snd_none x want start end_ rev h

example : C17.ex.findSettings ["4".toList] none none false = (none, none) := by decide
example : C17.ex.findSettings ["1".toList, "31".toList] (some 4) none true = (none, none) := by decide

/-- `found_start` lies in the range and has all the settings (either search direction) -/
theorem find_in_range (x : AStr) (hs : SortedKeys x.fmts) (want : List Str) (hw : want ≠ [])
    (start end_ : Option Int) (rev : Bool)
    (hse : sliceIdx x.len start 0 ≤ sliceIdx x.len end_ x.len) (i : Nat)
    (h : (x.findSettings want start end_ rev).1 = some i) :
    sliceIdx x.len start 0 ≤ i ∧ i < sliceIdx x.len end_ x.len ∧ AStr.allIn want (act x i) = true := by
  rw [findSettings_fst x want start end_ rev hse hw] at h
  exact findFs_in_range hs hse (find_range_le x start end_).2 h

/-- forward search: `found_start` is the first position of the range having all the settings -/
theorem find_first (x : AStr) (hs : SortedKeys x.fmts) (want : List Str) (hw : want ≠ [])
    (start end_ : Option Int)
    (hse : sliceIdx x.len start 0 ≤ sliceIdx x.len end_ x.len) (i : Nat)
    (h : (x.findSettings want start end_ false).1 = some i) :
    ∀ j, sliceIdx x.len start 0 ≤ j → j < i → AStr.allIn want (act x j) = false := by
  rw [findSettings_fst x want start end_ false hse hw] at h
  exact findFs_first hs hse (find_range_le x start end_).2 h

/-- every position from `found_start` up to `found_end` (the range end when `None`) has all of them -/
theorem find_run (x : AStr) (hs : SortedKeys x.fmts) (want : List Str) (hw : want ≠ [])
    (start end_ : Option Int) (rev : Bool)
    (hse : sliceIdx x.len start 0 ≤ sliceIdx x.len end_ x.len) (i : Nat)
    (h : (x.findSettings want start end_ rev).1 = some i) :
    ∀ j, i ≤ j → j < sliceIdx x.len end_ x.len →
      (∀ p, (x.findSettings want start end_ rev).2 = some p → j < p) →
      AStr.allIn want (act x j) = true := by
  obtain ⟨h1, _, h3⟩ := find_in_range x hs want hw start end_ rev hse i h
  rw [findSettings_snd x want start end_ rev hse hw h]
  exact findFe_run hs h1 h3

/-- `found_end` is a later position, at most the range end, where a wanted setting is missing;
    by `find_run` it is the first such.  (The implementation can report `p = en`, the position just
    past the range, hence `p ≤ en` and `active` instead of `act` restricted to the range.) -/
theorem find_end (x : AStr) (hs : SortedKeys x.fmts) (want : List Str) (hw : want ≠ [])
    (start end_ : Option Int) (rev : Bool)
    (hse : sliceIdx x.len start 0 ≤ sliceIdx x.len end_ x.len) (i p : Nat)
    (h : (x.findSettings want start end_ rev).1 = some i)
    (hp : (x.findSettings want start end_ rev).2 = some p) :
    i < p ∧ p ≤ sliceIdx x.len end_ x.len ∧ AStr.allIn want (active x.fmts p) = false := by
  rw [findSettings_snd x want start end_ rev hse hw h] at hp
  obtain ⟨h1, h2, h3, _⟩ := findFe_some hs hp
  exact ⟨h1, h2, h3⟩

/-- `found_end` is the *first* later position lacking a setting: everything in `[found_start, found_end)` has all -/
theorem find_end_first (x : AStr) (hs : SortedKeys x.fmts) (want : List Str) (hw : want ≠ [])
    (start end_ : Option Int) (rev : Bool)
    (hse : sliceIdx x.len start 0 ≤ sliceIdx x.len end_ x.len) (i p : Nat)
    (h : (x.findSettings want start end_ rev).1 = some i)
    (hp : (x.findSettings want start end_ rev).2 = some p) :
    ∀ j, i ≤ j → j < p → AStr.allIn want (act x j) = true := by
  intro j h1 h2
  have hpe := (find_end x hs want hw start end_ rev hse i p h hp).2.1
  refine find_run x hs want hw start end_ rev hse i h j h1 (by omega) ?_
  intro p' hp'
  rw [hp] at hp'
  cases hp'
  exact h2

/-- `found_end is None`: the settings last to the end of the range -/
theorem find_end_none (x : AStr) (hs : SortedKeys x.fmts) (want : List Str) (hw : want ≠ [])
    (start end_ : Option Int) (rev : Bool)
    (hse : sliceIdx x.len start 0 ≤ sliceIdx x.len end_ x.len) (i : Nat)
    (h : (x.findSettings want start end_ rev).1 = some i)
    (hp : (x.findSettings want start end_ rev).2 = none) :
    ∀ j, i ≤ j → j < sliceIdx x.len end_ x.len → AStr.allIn want (act x j) = true := by
  intro j h1 h2
  refine find_run x hs want hw start end_ rev hse i h j h1 h2 ?_
  intro p hp'
  rw [hp] at hp'
  cases hp'

/-! ### 5. reverse search -/

/-- reverse search landing on a change point: no later change point of the range has all of them -/
theorem find_reverse_last (x : AStr) (hs : SortedKeys x.fmts) (want : List Str) (hw : want ≠ [])
    (start end_ : Option Int)
    (hse : sliceIdx x.len start 0 ≤ sliceIdx x.len end_ x.len) (i : Nat)
    (h : (x.findSettings want start end_ true).1 = some i) (hi : i ∈ x.fmts.keys) :
    ∀ k ∈ x.fmts.keys, i < k → k < sliceIdx x.len end_ x.len → AStr.allIn want (act x k) = false := by
  rw [findSettings_fst x want start end_ true hse hw] at h
  exact findFs_rev_last hs hse (find_range_le x start end_).2 h hi

/-! ### non-vacuity on the running example -/

-- both wanted, forward and backward: first at 3 (a key), ends at 4
example : C17.ex.findSettings ["1".toList, "31".toList] none none false = (some 3, some 4) := by decide
example : C17.ex.findSettings ["31".toList, "1".toList] none none true = (some 3, some 4) := by decide
-- start between keys: position `st = 2` itself is found
example : C17.ex.findSettings ["1".toList] (some 2) none false = (some 2, some 4) := by decide
-- reverse with `st` between keys still reports `st` (the `start` check comes first)
example : C17.ex.findSettings ["1".toList] (some 2) none true = (some 2, some 4) := by decide
-- `found_end = en` (just past the range): red stops exactly at 6 = en
example : C17.ex.findSettings ["31".toList] none none false = (some 3, some 6) := by decide
-- `found_end = None`: red lasts to the end of the range [0,5)
example : C17.ex.findSettings ["31".toList] none (some 5) false = (some 3, none) := by decide
-- reverse search lands on a change point (3 ∈ keys), hypotheses of `find_reverse_last`
example : C17.ex.findSettings ["1".toList] none none true = (some 3, some 4) ∧ 3 ∈ C17.ex.fmts.keys := by decide
-- reverse search really differs from forward search: red is first complete at 3, last change point with it is 4
example : C17.ex.findSettings ["31".toList] none none true = (some 4, some 6) := by decide
example : sliceIdx C17.ex.len none 0 ≤ sliceIdx C17.ex.len none C17.ex.len := by decide
example : (["1".toList, "31".toList] : List Str) ≠ [] := by decide

#print axioms settings_at_oob
#print axioms settings_at_in
#print axioms settings_at_join
#print axioms find_inverted
#print axioms find_empty
#print axioms find_range_le
#print axioms find_none_iff
#print axioms find_none_end
#print axioms find_in_range
#print axioms find_first
#print axioms find_run
#print axioms find_end
#print axioms find_end_first
#print axioms find_end_none
#print axioms find_reverse_last
