import AnsiProofs.Lemmas.ParseText
/-
  Property C02, TEXT half — "Constructing an AnsiString/AnsiStr from text containing SGR escape
  sequences yields base_str equal to the input with exactly those sequences removed (every other
  character, including non-SGR control sequences, kept verbatim) …  Text without escape sequences
  is kept unchanged and unformatted."   (The style half — "each character reports the effective
  style a conforming terminal would give it" — is a separate file; `sgr_positions`,
  `run_eq_sgrs` and `setAnsi_eq_fold_sgrs` below are the interface it needs.)

  The specification is `Term.stripSgr` of `AnsiSpec/Terminal.lean` (what an independent SGR terminal
  displays): the input with every `ESC [ p* m` removed (`p` = any character outside 0x40..0x7E),
  everything else kept — `ESC [ p* <other final byte>`, an unterminated `ESC [ p*` at the end, a
  lone `ESC`.  Everything is proved for ALL input strings, no length bound.

  Terminal-side definitions used in the statements (in `Lemmas/ParseText.lean`, namespace
  `ParseTextL.C02Spec`, because the helper lemmas mention them — same arrangement as `C19Spec`;
  they recurse over the input only, mirroring `Term.runAux`, and never mention the tokenizer):
    `sgrs r`       — the SGR sequences of `r` in input order, each as
                     (number of characters displayed before it, its parameter string)
    `feedSeqs t l` — terminal state after feeding the parameter strings `l` to state `t`
-/

namespace C02
open ParseTextL ParseTextL.C02Spec

/-! ## 1 — the base text is what a terminal displays -/

/-- `set_ansi_str(r)`: the base text is `r` with exactly the SGR sequences removed -/
theorem parse_text (r : Str) (nid : Nat) : (AStr.setAnsi r nid).1.s = Term.stripSgr r := by
  rw [setAnsi_eq_loop]
  simp only
  rw [loop_s, tokenize_text_stripSgr]

/-- the running example of the property: SGR removed, `ESC[2J` and the unterminated `ESC[3` kept -/
example : Term.stripSgr "a\x1b[1mb\x1b[2Jc\x1b[3".toList = "ab\x1b[2Jc\x1b[3".toList := by decide
example : (AStr.setAnsi "a\x1b[1mb\x1b[2Jc\x1b[3".toList 0).1.s = "ab\x1b[2Jc\x1b[3".toList := by
  decide +kernel
/-- several sequences at one place, a reset, parameters that are not numbers, a lone ESC -/
example : Term.stripSgr "\x1b[1;31m\x1b[mx\x1b[?;!m\x1by\x1b[0m".toList = "x\x1by".toList := by decide

/-! ## 2 — text without ESC is kept unchanged and unformatted -/

theorem parse_plain (r : Str) (nid : Nat) (h : '\x1b' ∉ r) :
    AStr.setAnsi r nid = ({ s := r, fmts := [] }, nid) := by
  rw [setAnsi_eq_loop, tokenize_noEsc false _ r h]
  rfl

example : '\x1b' ∉ "plain [1m text".toList := by decide

/-- … and the specification agrees: nothing to strip -/
theorem stripSgr_plain (r : Str) (h : '\x1b' ∉ r) : Term.stripSgr r = r := by
  have := parse_text r 0
  rw [parse_plain r 0 h] at this
  exact this.symm

/-! ## 3 — the constructor with settings -/

/-- `AnsiString(r, *settings)`: the settings are applied afterwards and do not touch the text -/
theorem parse_text_ofStr (r : Str) (settings : List SArg) (nid : Nat) (y : AStr)
    (h : AStr.ofStr r settings nid = .ok y) : y.s = Term.stripSgr r := by
  unfold AStr.ofStr at h
  simp only at h
  split at h
  · cases h; exact parse_text r nid
  · rcases applyRaw_spec _ y _ _ _ _ _ h with e | ⟨ts, -, e⟩
    · rw [e]; exact parse_text r nid
    · rw [e, apply_text]; exact parse_text r nid

example : (AStr.ofStr "a\x1b[1mb".toList [.int 31] 7).toOption = some
    { s := "ab".toList
      fmts := [(0, { add := [⟨8, "31".toList⟩] }), (1, { add := [⟨7, "1".toList⟩] }),
               (2, { rem := [⟨7, "1".toList⟩, ⟨8, "31".toList⟩] })] } := by decide +kernel

/-! ## 4 — stripping is NOT idempotent (removing a sequence can create a new one)

    `theorem stripSgr_idem : Term.stripSgr (Term.stripSgr r) = Term.stripSgr r` is FALSE:
    in `ESC ESC[1m [1m x` the inner `ESC[1m` is removed and the lone `ESC` meets `[1m`. -/

example : ¬ (∀ r, Term.stripSgr (Term.stripSgr r) = Term.stripSgr r) := by
  intro h
  exact absurd (h "\x1b\x1b[1m[1mx".toList) (by decide)

example : Term.stripSgr "\x1b\x1b[1m[1mx".toList = "\x1b[1mx".toList ∧
    Term.stripSgr "\x1b[1mx".toList = "x".toList := by decide

/-- the true variant: stripping is idempotent when nothing is left to strip, in particular when
    the result contains no ESC -/
theorem stripSgr_idem_partial (r : Str) (h : '\x1b' ∉ Term.stripSgr r) :
    Term.stripSgr (Term.stripSgr r) = Term.stripSgr r := stripSgr_plain _ h

example : '\x1b' ∉ Term.stripSgr "a\x1b[1mb\x1b[0m".toList := by decide

/-! ## 5 — positions: the recorded keys are offsets into the stripped text -/

/-- the terminator table entry the library uses for SGR -/
theorem sgrTerminator_is_m : Gen.sgrTerminator = ['m'] := sgr_eq

/-- every key is an offset into the stripped text, keys strictly ascending, no empty block, every
    recorded sequence ends in `m` and its parameter string contains no final byte -/
theorem tokenize_sgr_keys (r : Str) :
    (∀ kl ∈ (tokenize r false (some Gen.sgrTerminator)).seqs,
      kl.1 ≤ (Term.stripSgr r).length ∧ kl.2 ≠ [] ∧
      ∀ c ∈ kl.2, c.terminator = ['m'] ∧ ∀ ch ∈ c.sequence, Term.isFinal ch = false) ∧
    ((tokenize r false (some Gen.sgrTerminator)).seqs.map (·.1)).Pairwise (· < ·) := by
  obtain ⟨h1, h2⟩ := tokenize_wellformed r false (some Gen.sgrTerminator)
  refine ⟨fun kl hkl => ?_, h2⟩
  obtain ⟨a, b, c⟩ := h1 kl hkl
  rw [tokenize_text_stripSgr] at a
  exact ⟨a, b, fun cs hcs => ⟨tokenize_terminator r kl hkl cs hcs, (c cs hcs).1⟩⟩

/-- The tokenizer records exactly the SGR sequences the terminal meets: the same parameter
    strings, in the same order, at the same offsets of the displayed text. -/
theorem sgr_positions (r : Str) :
    (tokenize r false (some Gen.sgrTerminator)).seqs.flatMap
        (fun kv => kv.2.map (fun c => (kv.1, c.sequence))) = sgrs r :=
  tokenize_flat r

/-- the offsets of `sgrs` are non-decreasing and inside the displayed text (end included) -/
theorem sgrs_sorted (r : Str) : (sgrs r).Pairwise (fun a b => a.1 ≤ b.1) := sgrAux_sorted _ _ _

theorem sgrs_bound (r : Str) : ∀ ks ∈ sgrs r, ks.1 ≤ (Term.stripSgr r).length := by
  intro ks hks
  have := (sgrAux_bounds _ _ _ ks hks).2
  rw [stripSgr_eq_dispAux]
  omega

/-- What the terminal does, through `sgrs`: it displays `stripSgr r`; the character at displayed
    index `i` is shown in the start state after all SGR sequences at offsets `≤ i` have been fed
    (in order); the final state is the start state after all of them. -/
theorem run_eq_sgrs (t0 : Term.TState) (r : Str) :
    Term.run t0 r =
      ((Term.stripSgr r).zipIdx.map (fun ci =>
          (ci.1, feedSeqs t0 (((sgrs r).filter (fun ks => ks.1 ≤ ci.2)).map (·.2)))),
       feedSeqs t0 ((sgrs r).map (·.2))) :=
  run_eq t0 r

/-- What the library does, through `sgrs`: `set_ansi_str` is one left fold of its loop body over
    the very same list, starting from the stripped text without formatting. -/
theorem setAnsi_eq_fold_sgrs (r : Str) (nid : Nat) :
    AStr.setAnsi r nid =
      (((sgrs r).foldl (fun acc ks => AStr.setAnsiStep acc ks.1 ⟨ks.2, ['m']⟩)
          ({ s := Term.stripSgr r, fmts := [] }, [], nid)).1,
       ((sgrs r).foldl (fun acc ks => AStr.setAnsiStep acc ks.1 ⟨ks.2, ['m']⟩)
          ({ s := Term.stripSgr r, fmts := [] }, [], nid)).2.2) := by
  rw [setAnsi_eq_loop, loop_eq_fold, sgr_positions, tokenize_text_stripSgr]

/-- two sequences at offset 7 (`3;4` and the empty reset), `ESC[2J` counted as 4 displayed
    characters, the unterminated `ESC[5` not listed -/
example : sgrs "a\x1b[1mb\x1b[2Jc\x1b[3;4m\x1b[mx\x1b[5".toList =
    [(1, "1".toList), (7, "3;4".toList), (7, [])] := by decide
example : (tokenize "a\x1b[1mb\x1b[2Jc\x1b[3;4m\x1b[mx\x1b[5".toList false (some Gen.sgrTerminator)).seqs =
    [(1, [⟨"1".toList, ['m']⟩]), (7, [⟨"3;4".toList, ['m']⟩, ⟨[], ['m']⟩])] := by decide
example : Term.stripSgr "a\x1b[1mb\x1b[2Jc\x1b[3;4m\x1b[mx\x1b[5".toList = "ab\x1b[2Jcx\x1b[5".toList := by
  decide

/-! ## 6 — the history invariant holds for every parsed value -/

/-- relative form: `WF` of the result from the two facts about `remove_formatting`
    (`RemoveKeepsWF`: it keeps `WF`; `RemoveNoNewSettings`: on a `WF` value its result mentions
    only setting objects that were there before), together with freshness of the ids handed out -/
theorem setAnsi_wf_of (hRemoveKeepsWF : RemoveKeepsWF) (hRemoveNoNewSettings : RemoveNoNewSettings)
    (r : Str) (nid : Nat) :
    WF (AStr.setAnsi r nid).1 ∧ FreshFrom (AStr.setAnsi r nid).1 (AStr.setAnsi r nid).2 := by
  rw [setAnsi_eq_loop]
  exact loop_wf_fresh hRemoveKeepsWF hRemoveNoNewSettings _ _ ⟨wf_plain _, freshFrom_plain _ _⟩

/-- both hypotheses hold (C07: `remove_wf`, `Remove.new_settings`) -/
example : RemoveKeepsWF ∧ RemoveNoNewSettings := ⟨removeKeepsWF, removeNoNewSettings⟩

/-- every value `set_ansi_str` produces satisfies the history invariant -/
theorem setAnsi_wf (r : Str) (nid : Nat) : WF (AStr.setAnsi r nid).1 :=
  (setAnsi_wf_of removeKeepsWF removeNoNewSettings r nid).1

/-- … and all identities in it are below the returned next id -/
theorem setAnsi_fresh (r : Str) (nid : Nat) :
    FreshFrom (AStr.setAnsi r nid).1 (AStr.setAnsi r nid).2 :=
  (setAnsi_wf_of removeKeepsWF removeNoNewSettings r nid).2

/-- the constructor with settings keeps the invariant, too -/
theorem ofStr_wf (r : Str) (settings : List SArg) (nid : Nat) (y : AStr)
    (h : AStr.ofStr r settings nid = .ok y) : WF y := by
  unfold AStr.ofStr at h
  simp only at h
  split at h
  · cases h; exact setAnsi_wf r nid
  · rcases applyRaw_spec _ y _ _ _ _ _ h with e | ⟨ts, -, e⟩
    · rw [e]; exact setAnsi_wf r nid
    · rw [e]
      exact apply_wf _ _ _ _ _ (setAnsi_wf r nid) (freshSettings_fresh _ _ _ (setAnsi_fresh r nid))

/-- a value on which the loop both applies and removes (bold, then red on top, then reset) -/
example : (AStr.setAnsi "a\x1b[1mb\x1b[31mc\x1b[0md".toList 0).1.fmts =
    [(1, { add := [⟨0, "1".toList⟩] }), (2, { add := [⟨1, "31".toList⟩] }),
     (3, { rem := [⟨0, "1".toList⟩, ⟨1, "31".toList⟩] })] := by decide +kernel

end C02

#print axioms C02.parse_text
#print axioms C02.parse_plain
#print axioms C02.stripSgr_plain
#print axioms C02.parse_text_ofStr
#print axioms C02.stripSgr_idem_partial
#print axioms C02.tokenize_sgr_keys
#print axioms C02.sgr_positions
#print axioms C02.sgrs_sorted
#print axioms C02.sgrs_bound
#print axioms C02.run_eq_sgrs
#print axioms C02.setAnsi_eq_fold_sgrs
#print axioms C02.setAnsi_wf_of
#print axioms C02.setAnsi_wf
#print axioms C02.setAnsi_fresh
#print axioms C02.ofStr_wf
