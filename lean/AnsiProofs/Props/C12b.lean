import AnsiProofs.Lemmas.Pad
import AnsiModel.Generated.Methods.Rjust
import AnsiModel.Generated.Methods.Center
/-
  Property C12, part b — the *generated* (statement-by-statement translated) methods
  `_shift_settings_idx`, `rjust`, `center` of `AnsiModel/Generated/Methods.lean` compute exactly the
  hand-written model functions of `AnsiModel/Pad.lean` (`shiftKeys`, `AStr.rjust`, `AStr.center`) on
  values whose table is sorted; the outcomes `Exc.key` / `Exc.outside` never happen there.

  The file is split in two:

  * `namespace C12b.L` — everything that does not mention `Gen.*`: structural lemmas on sorted
    association lists (`get?_mid`, `erase_mid`, `set_mid`), the primitives of `AnsiModel/Obj.lean` on
    natural keys (`pop_nat`, `pop_nat_eq`, `set_int`, `set_nat`, `popD_nat`, `setOpt_nat`, `has_nat`)
    and the fold invariant of the
    loop of `_shift_settings_idx` (`fold_shift`), stated for an *arbitrary* step function that moves
    one present key (`MovesKey`).
  * `namespace C12b` — the theorems over `Gen.*`.  They unfold the generated definition, and leave the
    rest to `simp`/`split`/`omega` with the lemmas of `L`, so that harmless rewrites of the Python
    source (which change the shape of the generated term) do not break them.  The same proof scripts
    were run unchanged against two rewritten variants of the three generated functions (early
    `return` for `num <= 0` / `num == 0`, `inplace` branches swapped or merged, `continue`-style loop
    body without `max`, `key > 0 or not keep_origin`, `pop` guarded by `in` instead of `pop(k, None)`,
    no trailing `bind … .ok`) and passed.
-/

namespace C12b
namespace L
open PadL

/-! ## Sorted association lists: an entry between a lower part `A` and an upper part `D` -/

theorem get?_mid {A : Fmts} {k : Nat} (p : Point) (D : Fmts) (hA : ∀ x ∈ A, x.1 < k) :
    Fmts.get? (A ++ (k, p) :: D) k = some p := by
  induction A with
  | nil => simp [Fmts.get?]
  | cons a A ih =>
    obtain ⟨k', p'⟩ := a
    have h1 : k' < k := hA (k', p') (by simp)
    have h2 : ¬ k' = k := by omega
    have h3 : ¬ k < k' := by omega
    rw [List.cons_append, Fmts.get?_cons]
    simp only [h2, h3, if_false]
    exact ih (fun x hx => hA x (List.mem_cons_of_mem _ hx))

theorem erase_mid {A : Fmts} {k : Nat} (p : Point) (D : Fmts) (hA : ∀ x ∈ A, x.1 < k) :
    Fmts.erase (A ++ (k, p) :: D) k = A ++ D := by
  induction A with
  | nil => simp [Fmts.erase]
  | cons a A ih =>
    obtain ⟨k', p'⟩ := a
    have h1 : k' < k := hA (k', p') (by simp)
    have h2 : ¬ k' = k := by omega
    rw [List.cons_append]
    unfold Fmts.erase
    simp only [h2, if_false, List.cons_append]
    rw [ih (fun x hx => hA x (List.mem_cons_of_mem _ hx))]

theorem set_mid {A D : Fmts} {k : Nat} (p : Point) (hA : ∀ x ∈ A, x.1 < k)
    (hD : ∀ x ∈ D, k < x.1) : Fmts.set (A ++ D) k p = A ++ (k, p) :: D := by
  induction A with
  | nil =>
    cases D with
    | nil => rfl
    | cons d D =>
      obtain ⟨k', p'⟩ := d
      have h1 : k < k' := hD (k', p') (by simp)
      have h2 : ¬ k' = k := by omega
      simp [Fmts.set, h1, h2]
  | cons a A ih =>
    obtain ⟨k', p'⟩ := a
    have h1 : k' < k := hA (k', p') (by simp)
    have h2 : ¬ k' = k := by omega
    have h3 : ¬ k < k' := by omega
    rw [List.cons_append]
    unfold Fmts.set
    simp only [h2, h3, if_false, List.cons_append]
    rw [ih (fun x hx => hA x (List.mem_cons_of_mem _ hx))]

/-- the entries above a key `k` are all moved by `shiftKeys`, whatever `keep` says -/
theorem lt_shiftKeys {B : Fmts} {k : Nat} (n : Nat) (keep : Bool) (hB : ∀ x ∈ B, k < x.1) :
    ∀ x ∈ shiftKeys B n keep, k + n < x.1 := by
  intro x hx
  unfold shiftKeys at hx
  obtain ⟨y, hy, rfl⟩ := List.mem_map.mp hx
  have := hB y hy
  split <;> omega

theorem shiftKeys_append (A B : Fmts) (n : Nat) (keep : Bool) :
    shiftKeys (A ++ B) n keep = shiftKeys A n keep ++ shiftKeys B n keep := by
  unfold shiftKeys; exact List.map_append

theorem shiftKeys_cons (k : Nat) (p : Point) (B : Fmts) (n : Nat) (keep : Bool) :
    shiftKeys ((k, p) :: B) n keep =
      (if keep = true ∧ k = 0 then (k, p) else (k + n, p)) :: shiftKeys B n keep := by
  unfold shiftKeys; rfl

/-! ## The primitives of `AnsiModel/Obj.lean` on keys that are natural numbers -/

theorem bind_ok {ε α β : Type} (a : α) (f : α → Except ε β) : (Except.ok a).bind f = f a := rfl

theorem bind_error {ε α β : Type} (e : ε) (f : α → Except ε β) :
    (Except.error e : Except ε α).bind f = .error e := rfl

theorem pop_nat {f : Fmts} {k : Nat} {p : Point} (h : f.get? k = some p) :
    Obj.pop f (k : Int) = .ok (p, f.erase k) := by
  unfold Obj.pop
  have : ¬ ((k : Int) < 0) := by omega
  simp only [this, if_false, Int.toNat_natCast, h]

/-- `d.pop(k)` on a natural key, both outcomes -/
theorem pop_nat_eq (f : Fmts) (k : Nat) :
    Obj.pop f (k : Int) =
      match f.get? k with
      | some p => .ok (p, f.erase k)
      | none => .error .key := by
  unfold Obj.pop
  have : ¬ ((k : Int) < 0) := by omega
  rw [if_neg this, Int.toNat_natCast]
  cases f.get? k <;> rfl

theorem pop_nonneg {f : Fmts} {k : Int} {p : Point} (hk : 0 ≤ k) (h : f.get? k.toNat = some p) :
    Obj.pop f k = .ok (p, f.erase k.toNat) := by
  unfold Obj.pop
  have : ¬ (k < 0) := by omega
  simp only [this, if_false, h]

theorem set_nonneg (f : Fmts) {k : Int} (p : Point) (hk : 0 ≤ k) :
    Obj.set f k p = .ok (f.set k.toNat p) := by
  unfold Obj.set
  have : ¬ (k < 0) := by omega
  simp only [this, if_false]

/-- `d[k] = p` for a key that is (provably, e.g. by `omega`) the natural number `m` -/
theorem set_int (f : Fmts) {k : Int} (p : Point) {m : Nat} (hk : k = (m : Int)) :
    Obj.set f k p = .ok (f.set m p) := by
  subst hk
  rw [set_nonneg f p (by omega), Int.toNat_natCast]

theorem set_nat (f : Fmts) (k : Nat) (p : Point) : Obj.set f (k : Int) p = .ok (f.set k p) := by
  rw [set_nonneg f p (by omega), Int.toNat_natCast]

theorem setOpt_nat (f : Fmts) (k : Nat) (p : Point) :
    Obj.setOpt f (k : Int) (some p) = .ok (f.set k p) := set_nat f k p

/-- `d.pop(k, None)` on a sorted table: the entry (if any) and the table without the key -/
theorem popD_nat {f : Fmts} (hs : SortedKeys f) (k : Nat) :
    Obj.popD f (k : Int) = (f.get? k, f.erase k) := by
  unfold Obj.popD
  have : ¬ ((k : Int) < 0) := by omega
  simp only [this, if_false, Int.toNat_natCast]
  cases hg : f.get? k with
  | none => simp only; rw [Fmts.erase_of_get?_none hs hg]
  | some p => rfl

theorem has_nat (f : Fmts) (k : Nat) : Obj.has f (k : Int) = (f.get? k).isSome := by
  unfold Obj.has Fmts.contains
  simp

theorem keysDesc_eq (f : Fmts) : Obj.keysDesc f = f.reverse.map (fun kp => (kp.1 : Int)) := by
  unfold Obj.keysDesc Fmts.keys
  rw [← List.map_reverse, List.map_map]
  rfl

/-! ## The loop of `_shift_settings_idx`

  `MovesKey step n keep`: one round of the loop body on a key that is present — the entry goes from
  `k` to `k + n`, except the entry at 0 when `keep`.  The loop visits the keys from the highest to
  the lowest; when the entries of the upper part `B` have been moved the table is
  `A ++ shiftKeys B n keep`, and the next key is the last one of `A`. -/

def MovesKey (step : AStr → Int → Except Exc AStr) (n : Nat) (keep : Bool) : Prop :=
  ∀ (a : AStr) (k : Nat) (p : Point), a.fmts.get? k = some p →
    step a (k : Int) = .ok { a with fmts :=
      if keep = true ∧ k = 0 then a.fmts else (a.fmts.erase k).set (k + n) p }

theorem fold_shift_aux {step : AStr → Int → Except Exc AStr} {n : Nat} {keep : Bool}
    (hstep : MovesKey step n keep) (s : Str) :
    ∀ (R B : Fmts), SortedKeys (R.reverse ++ B) →
      List.foldlM step ({ s := s, fmts := R.reverse ++ shiftKeys B n keep } : AStr)
          (R.map (fun kp => (kp.1 : Int))) =
        .ok { s := s, fmts := shiftKeys (R.reverse ++ B) n keep } := by
  intro R
  induction R with
  | nil =>
    intro B _
    simp only [List.reverse_nil, List.nil_append, List.map_nil, List.foldlM_nil]
    rfl
  | cons kp R ih =>
    intro B hs
    obtain ⟨k, p⟩ := kp
    have hs' : SortedKeys (R.reverse ++ (k, p) :: B) := by
      simpa [List.reverse_cons, List.append_assoc] using hs
    have hsplit := List.pairwise_append.mp hs'
    have hA : ∀ x ∈ R.reverse, x.1 < k := fun x hx => hsplit.2.2 x hx (k, p) (by simp)
    have hB : ∀ x ∈ B, k < x.1 := fun x hx => (List.pairwise_cons.mp hsplit.2.1).1 x hx
    have hD := lt_shiftKeys n keep hB
    have htab : R.reverse ++ [(k, p)] ++ shiftKeys B n keep =
        R.reverse ++ (k, p) :: shiftKeys B n keep := by simp
    rw [List.map_cons, List.foldlM_cons, List.reverse_cons, htab,
      hstep _ k p (get?_mid p _ hA)]
    have hnext : (if keep = true ∧ k = 0 then R.reverse ++ (k, p) :: shiftKeys B n keep
          else Fmts.set (Fmts.erase (R.reverse ++ (k, p) :: shiftKeys B n keep) k) (k + n) p) =
        R.reverse ++ shiftKeys ((k, p) :: B) n keep := by
      rw [shiftKeys_cons]
      split
      · rfl
      · rw [erase_mid p _ hA, set_mid p (fun x hx => by have := hA x hx; omega) hD]
    show (Except.ok _ >>= _) = _
    simp only [Except.bind, bind, hnext]
    rw [show R.reverse ++ [(k, p)] ++ B = R.reverse ++ (k, p) :: B by simp]
    exact ih ((k, p) :: B) hs'

/-- THE LOOP: visiting the keys of a sorted table from the highest to the lowest, moving each by `n`
    (but 0 when `keep`), yields `shiftKeys` -/
theorem fold_shift {step : AStr → Int → Except Exc AStr} {n : Nat} {keep : Bool}
    (hstep : MovesKey step n keep) (a : AStr) (hs : SortedKeys a.fmts) :
    List.foldlM step a (Obj.keysDesc a.fmts) = .ok { a with fmts := shiftKeys a.fmts n keep } := by
  have h := fold_shift_aux hstep a.s a.fmts.reverse [] (by simpa using hs)
  simp only [List.reverse_reverse, List.append_nil, shiftKeys, List.map_nil] at h
  rw [keysDesc_eq]
  exact h

end L

open L
set_option linter.unusedSimpArgs false   -- both forms of a fact are given to `simp` on purpose

/-! ## `_shift_settings_idx` -/

/-- all three were translated (none fell outside the subset) -/
theorem translated : Gen.rjustOk = true ∧ Gen.centerOk = true ∧ Gen.shiftSettingsIdxOk = true := by decide

/-- THE GENERATED `_shift_settings_idx` IS `shiftKeys`: ValueError for a negative shift, otherwise every
    key (but 0 when `keep_origin`) moved up by `num` — never `Exc.key`, never `Exc.outside` -/
theorem shift_is_code (x : AStr) (hs : SortedKeys x.fmts) (num : Int) (keep : Bool) :
    Gen.shiftSettingsIdx x num keep =
      if num < 0 then .error (.py .valueError)
      else .ok { x with fmts := shiftKeys x.fmts num.toNat keep } := by
  unfold Gen.shiftSettingsIdx
  by_cases hn : num < 0
  · simp [hn]
  · -- the loop: `fold_shift` for whatever the loop body is, provided the body moves one key
    rw [fold_shift (n := num.toNat) (keep := keep) _ x hs]
    · simp [hn, bind_ok]
      -- (only if the code returns early for `num = 0`)
      try (intros; simp_all [PadL.shiftKeys_zero])
    · -- the loop body moves one key: `pop`, then `set` at a key that is `k + num`
      intro a k p h
      simp only [pop_nat h, bind_ok]
      rw [set_int (m := k + num.toNat)]
      · cases keep <;> by_cases hk : k = 0 <;> simp [hk, bind_ok]
      · omega

/-- the form used below: on a value given by its fields, with a shift known to be non-negative -/
theorem shift_mk (s : Str) (f : Fmts) (hs : SortedKeys f) (num : Int) (keep : Bool) (hn : 0 ≤ num) :
    Gen.shiftSettingsIdx { s := s, fmts := f } num keep =
      .ok { s := s, fmts := shiftKeys f num.toNat keep } := by
  rw [shift_is_code _ hs, if_neg (by omega)]

/-! ## `rjust`, `center` -/

/-- THE GENERATED `rjust` IS THE MODEL'S `rjust` (one fill character) -/
theorem rjust_is_code (x : AStr) (hs : SortedKeys x.fmts) (w : Int) (c : Char) (inplace ext : Bool) :
    Gen.rjust x w [c] inplace ext = .ok (x.rjust w c ext) := by
  unfold Gen.rjust AStr.rjust
  dsimp only [AStr.len]
  generalize w - (x.s.length : Int) = num
  by_cases hnum : 0 < num
  · have h1 : 0 < num.toNat := by omega
    have h2 : ¬ num ≤ 0 := by omega
    cases inplace <;>
      simp [hnum, h1, h2, Py.strMul_single, shift_mk _ _ hs _ _ (Int.le_of_lt hnum), bind_ok]
  · have h1 : ¬ 0 < num.toNat := by omega
    have h2 : num ≤ 0 := by omega
    cases inplace <;> simp [hnum, h1, h2]

/-- THE GENERATED `center` IS THE MODEL'S `center` (one fill character) -/
theorem center_is_code (x : AStr) (hs : SortedKeys x.fmts) (w : Int) (c : Char) (inplace ext : Bool) :
    Gen.center x w [c] inplace ext = .ok (x.center w c ext) := by
  unfold Gen.center AStr.center
  dsimp only [AStr.len]
  generalize w - (x.s.length : Int) = num
  by_cases hnum : 0 < num
  · have h1 : 0 < num.toNat := by omega
    have h2 : ¬ num ≤ 0 := by omega
    have hl : (num / 2).toNat = num.toNat / 2 := by omega
    have hr : (num - num / 2).toNat = num.toNat - num.toNat / 2 := by omega
    have hh : 0 ≤ num / 2 := by omega
    cases hg : x.fmts.get? x.s.length <;> cases inplace <;> cases ext <;>
      simp only [hnum, h1, h2, hl, hr, hg, Py.strMul_single, popD_nat hs, has_nat, pop_nat_eq,
        PadL.Fmts.erase_of_get?_none hs, shift_mk _ _ hs _ _ hh,
        shift_mk _ _ (PadL.Fmts.sorted_erase hs _) _ _ hh, bind_ok, bind_error, setOpt_nat, set_nat,
        List.length_singleton, Option.isSome, decide_true, decide_false, if_true, if_false,
        Bool.false_eq_true, Bool.not_true, Bool.not_false, Bool.and_true, Bool.true_and,
        Bool.and_false, Bool.false_and, gt_iff_lt, ne_eq, not_true_eq_false, Int.natCast_one] <;>
      try simp
  · have h1 : ¬ 0 < num.toNat := by omega
    have h2 : num ≤ 0 := by omega
    cases inplace <;> simp [hnum, h1, h2]

/-- a fill text that is not one character: ValueError, whatever the rest -/
theorem rjust_fill_error (x : AStr) (w : Int) (fill : Str) (inplace ext : Bool)
    (h : fill.length ≠ 1) : Gen.rjust x w fill inplace ext = .error (.py .valueError) := by
  unfold Gen.rjust
  have h' : ¬ ((fill.length : Int) = 1) := by omega
  simp [h, h']

theorem center_fill_error (x : AStr) (w : Int) (fill : Str) (inplace ext : Bool)
    (h : fill.length ≠ 1) : Gen.center x w fill inplace ext = .error (.py .valueError) := by
  unfold Gen.center
  have h' : ¬ ((fill.length : Int) = 1) := by omega
  simp [h, h']

/-! ## Non-vacuity on a concrete value: `"ab"` with a setting from 0 to 2 -/

def x0 : AStr :=
  { s := "ab".toList,
    fmts := [(0, { add := [⟨0, "1".toList⟩] }), (2, { rem := [⟨0, "1".toList⟩] })] }

example : SortedKeys x0.fmts := by simp [SortedKeys, x0]

example : Gen.shiftSettingsIdx x0 3 true =
    .ok { x0 with fmts := [(0, { add := [⟨0, "1".toList⟩] }), (5, { rem := [⟨0, "1".toList⟩] })] } := by
  decide +kernel

example : Gen.shiftSettingsIdx x0 3 false =
    .ok { x0 with fmts := [(3, { add := [⟨0, "1".toList⟩] }), (5, { rem := [⟨0, "1".toList⟩] })] } := by
  decide +kernel

example : Gen.shiftSettingsIdx x0 (-1) false = .error (.py .valueError) := by decide +kernel

/-- the hypothesis `SortedKeys` is needed: on a table out of order the loop meets `Exc.key` -/
example : Gen.shiftSettingsIdx { s := [], fmts := [(2, {}), (0, {})] } 1 false = .error .key := by
  decide +kernel

example : Gen.rjust x0 5 ['.'] false true =
    .ok { s := "...ab".toList,
          fmts := [(0, { add := [⟨0, "1".toList⟩] }), (5, { rem := [⟨0, "1".toList⟩] })] } := by
  decide +kernel

example : Gen.rjust x0 5 ['.'] false false =
    .ok { s := "...ab".toList,
          fmts := [(3, { add := [⟨0, "1".toList⟩] }), (5, { rem := [⟨0, "1".toList⟩] })] } := by
  decide +kernel

example : Gen.center x0 5 ['.'] false true =
    .ok { s := ".ab..".toList,
          fmts := [(0, { add := [⟨0, "1".toList⟩] }), (5, { rem := [⟨0, "1".toList⟩] })] } := by
  decide +kernel

example : Gen.center x0 5 ['.'] true false =
    .ok { s := ".ab..".toList,
          fmts := [(1, { add := [⟨0, "1".toList⟩] }), (3, { rem := [⟨0, "1".toList⟩] })] } := by
  decide +kernel

example : Gen.center x0 5 ['.'] false true = .ok (x0.center 5 '.' true) := by decide +kernel
example : Gen.rjust x0 5 ['.'] true true = .ok (x0.rjust 5 '.' true) := by decide +kernel
example : Gen.center x0 2 ['.'] false true = .ok x0 := by decide +kernel
example : Gen.center x0 5 "..".toList false true = .error (.py .valueError) := by decide +kernel
example : Gen.rjust x0 5 [] false true = .error (.py .valueError) := by decide +kernel

end C12b

#print axioms C12b.shift_is_code
#print axioms C12b.rjust_is_code
#print axioms C12b.center_is_code
#print axioms C12b.rjust_fill_error
#print axioms C12b.center_fill_error
