import AnsiProofs.Lemmas.RenderStrip
/-
  C15 (second half): "Whenever is_formatting_valid() is True and the base text contains no ESC,
  removing every 'ESC [ parameter-bytes m' sequence from any rendering leaves exactly base_str,
  and every verbatim setting in use appears intact inside such a sequence."

  `Term.stripSgr` is the specification's own tokenizer (AnsiSpec/Terminal.lean), independent of the
  model.  No hypothesis on the `rem` lists is needed: every setting the loop ever prints comes from
  an `add` list, which is what `is_formatting_valid()` inspects.
-/

namespace C15b
open RenderStripL

/-- a value with a verbatim multi-code setting `"1;31"` (over `[0,3)`), a foreign but valid setting
    text `"2 ?"` (over `[1,5)`) and `"4"` (over `[3,5)`), on the base text `"a b c"` -/
def ex : AStr :=
  { s := "a b c".toList
    fmts := [(0, { add := [⟨0, "1;31".toList⟩] }),
             (1, { add := [⟨1, "2 ?".toList⟩] }),
             (3, { add := [⟨2, "4".toList⟩], rem := [⟨0, "1;31".toList⟩] }),
             (5, { rem := [⟨1, "2 ?".toList⟩, ⟨2, "4".toList⟩] })] }

/-- **C15b-1.** For every value with ascending keys whose `is_formatting_valid()` is true and whose
    base text has no ESC, every rendering without a format spec (all 8 flag combinations) is the
    base text once the terminal tokenizer has removed the `ESC [ … m` sequences. -/
theorem render_strip (x : AStr) (hs : SortedKeys x.fmts) (hv : x.isFormattingValid = true)
    (hn : NoEsc x.s) (o rs re : Bool) : Term.stripSgr (Render.render x o rs re) = x.s :=
  (strips_render hs hv hn o rs re).stripSgr

theorem ex_sorted : SortedKeys ex.fmts := by unfold SortedKeys; decide

/-- the hypotheses of `render_strip` are satisfiable -/
example : SortedKeys ex.fmts ∧ ex.isFormattingValid = true ∧ NoEsc ex.s := ⟨ex_sorted, by decide, by unfold NoEsc; decide⟩

/-- `ex` also satisfies the history invariant (not needed by the theorems below) -/
example : WF ex where
  sorted := ex_sorted
  bound := by decide
  noAddEnd := by decide
  ok := by decide
  nodup := by
    intro i
    rcases i with _ | _ | _ | _ | _ | i
    · decide
    · decide
    · decide
    · decide
    · decide
    · simp [active, activeFrom, ex, stepPoint, eraseId]
  closed := by decide
  coherent := by decide

/-- `"1;31"` and `"2 ?"` are not parsable, so the optimiser is switched off for `ex` -/
example : Render.render ex true false true = "\x1b[1;31ma\x1b[1;31;2 ?m b\x1b[0;2 ?;4m c\x1b[m".toList := by
  decide
example : Term.stripSgr (Render.render ex true false true) = "a b c".toList := by decide

/-- a value on which the optimiser runs: `"1"` over `[0,4)`, `"31"` over `[2,6)` of `"abcdef"` -/
def ex2 : AStr :=
  { s := "abcdef".toList
    fmts := [(0, { add := [⟨1, "1".toList⟩] }), (2, { add := [⟨2, "31".toList⟩] }),
             (4, { rem := [⟨1, "1".toList⟩] }), (6, { rem := [⟨2, "31".toList⟩] })] }

example : SortedKeys ex2.fmts ∧ ex2.isFormattingValid = true ∧ NoEsc ex2.s :=
  ⟨by unfold SortedKeys; decide, by decide, by unfold NoEsc; decide⟩
example : Render.render ex2 true true true = "\x1b[0;1mab\x1b[31mcd\x1b[22mef\x1b[m".toList := by decide
example : Term.stripSgr (Render.render ex2 true true true) = "abcdef".toList := by decide

/-- the terminator test really excludes something: `"a b"` is not a valid setting text, and a value
    using it renders to something the tokenizer does not strip back to the base text -/
example : SettingTxt.valid "a b".toList = false := by decide
example : Term.stripSgr (Render.render { s := "xy".toList, fmts := [(0, { add := [⟨0, "a b".toList⟩] })] }
    false false false) ≠ "xy".toList := by decide

/-- **C15b-2.** The same for `str(x)` and for `to_str` without a format spec (`None` or `''`). -/
theorem str_strip (x : AStr) (hs : SortedKeys x.fmts) (hv : x.isFormattingValid = true)
    (hn : NoEsc x.s) : Term.stripSgr x.str = x.s := by
  unfold AStr.str AStr.str.Render.render'
  split
  · exact (Strips.text hn).stripSgr
  · exact render_strip x hs hv hn true false true

theorem toStr_none_strip (x : AStr) (hs : SortedKeys x.fmts) (hv : x.isFormattingValid = true)
    (hn : NoEsc x.s) (o rs re : Bool) (nid : Nat) :
    ∃ r, x.toStr none o rs re nid = .ok r ∧ Term.stripSgr r = x.s := by
  unfold AStr.toStr
  simp only [Bool.false_eq_true, if_false]
  split
  · exact ⟨_, rfl, (Strips.text hn).stripSgr⟩
  · exact ⟨_, rfl, render_strip x hs hv hn o rs re⟩

theorem toStr_empty_strip (x : AStr) (hs : SortedKeys x.fmts) (hv : x.isFormattingValid = true)
    (hn : NoEsc x.s) (o rs re : Bool) (nid : Nat) :
    ∃ r, x.toStr (some []) o rs re nid = .ok r ∧ Term.stripSgr r = x.s := by
  unfold AStr.toStr
  simp only [List.isEmpty_nil, Bool.not_true, Bool.false_eq_true, if_false]
  split
  · exact ⟨_, rfl, (Strips.text hn).stripSgr⟩
  · exact ⟨_, rfl, render_strip x hs hv hn o rs re⟩

example : ex.toStr none false true true = .ok "\x1b[0;1;31ma\x1b[1;31;2 ?m b\x1b[0;2 ?;4m c\x1b[m".toList := by
  rfl
example : ex.str = "\x1b[1;31ma\x1b[1;31;2 ?m b\x1b[0;2 ?;4m c\x1b[m".toList := by decide

/-- **C15b-3.** Without optimisation, at every change point `k` below the length the rendering
    contains one sequence `ESC [ codes m` whose parameter string `codes` ENDS with the texts of all
    settings active at `k`, in order, joined by the separator — each text intact as whole
    `;`-separated items — and is preceded only by nothing, by `0;` (a reset, when a marker stopped
    at `k` or `reset_start` asked for it at index 0) or by `0;0;` (both).  If moreover the formatting
    is valid and the base text has no ESC, that sequence sits exactly at position `k` of the base
    text: what precedes it strips to the first `k` characters. -/
theorem verbatim_intact (x : AStr) (hs : SortedKeys x.fmts) (rs re : Bool) (k : Nat)
    (hk : k ∈ x.fmts.keys) (hlt : k < x.len) :
    ∃ pre pfx post,
      Render.render x false rs re =
        pre ++ (Gen.sgrPrefix ++ (pfx ++ joinSep Gen.ansiSep (texts (active x.fmts k))) ++ Gen.sgrSuffix) ++ post ∧
      (pfx = [] ∨ pfx = Py.natStr Gen.paramReset ++ Gen.ansiSep ∨
        pfx = (Py.natStr Gen.paramReset ++ Gen.ansiSep) ++ (Py.natStr Gen.paramReset ++ Gen.ansiSep)) ∧
      (x.isFormattingValid = true → NoEsc x.s → Term.stripSgr pre = x.s.take k) := by
  obtain ⟨p, hp⟩ := mem_pts hs hk hlt
  obtain ⟨l1, l2, hl⟩ := List.append_of_mem hp
  rw [render_eq]
  simp only [Bool.false_and]
  rw [hl]
  obtain ⟨pfx, post, hpfx, hout⟩ := foldl_emit_false x.s rs l1 l2 k p (active x.fmts k) {}
  generalize hst : (l1 ++ (k, p, active x.fmts k) :: l2).foldl (Render.step x.s false rs) {} = st at hout
  refine ⟨stepPre x.s rs (l1.foldl (Render.step x.s false rs) {}) k, pfx,
    post ++ (if st.first ∧ rs then Gen.escapeClear else []) ++ x.s.drop st.last ++
      (if st.exist ∧ re then Gen.escapeClear else []), ?_, hpfx, ?_⟩
  · rw [hout]
    unfold Render.sgr
    split <;> split <;> simp
  · intro hv hn
    have hpw : (l1 ++ (k, p, active x.fmts k) :: l2).Pairwise (fun a b => a.1 < b.1) := hl ▸ pts_pairwise hs
    have hg : ∀ t ∈ l1 ++ (k, p, active x.fmts k) :: l2, Good t.2.2 := hl ▸ pts_good hv
    have hpw1 := (List.pairwise_append.mp hpw)
    have h1 := strips_foldl hn false rs l1 {} hpw1.1 (fun _ _ => Nat.zero_le _)
      (fun t ht => hg t (List.mem_append_left _ ht)) (by simpa using Strips.nil)
    have hle : (l1.foldl (Render.step x.s false rs) {}).last ≤ k := by
      rcases List.eq_nil_or_concat l1 with rfl | ⟨l0, t, rfl⟩
      · exact Nat.zero_le _
      · obtain ⟨i, q, c⟩ := t
        rw [List.concat_eq_append] at hpw1 ⊢
        rw [List.foldl_append]
        simp only [List.foldl_cons, List.foldl_nil, step_last]
        exact Nat.le_of_lt (hpw1.2.2 (i, q, c) (by simp) (k, p, active x.fmts k) (by simp))
    exact (strips_stepPre hn rs h1 hle).stripSgr

/-- **C15b-3'.** The same with the library's own `settings_at(k)` as the text that must appear:
    the parameter string of the sequence emitted at `k` ends with `settings_at(k)`, preceded by
    nothing or by a separator. -/
theorem verbatim_intact_settingsAt (x : AStr) (hs : SortedKeys x.fmts) (rs re : Bool) (k : Nat)
    (hk : k ∈ x.fmts.keys) (hlt : k < x.len) :
    ∃ pre pfx post,
      Render.render x false rs re =
        pre ++ (Gen.sgrPrefix ++ (pfx ++ x.settingsAt (k : Int)) ++ Gen.sgrSuffix) ++ post ∧
      (pfx = [] ∨ ∃ q, pfx = q ++ Gen.ansiSep) ∧
      (x.isFormattingValid = true → NoEsc x.s → Term.stripSgr pre = x.s.take k) := by
  obtain ⟨pre, pfx, post, h1, h2, h3⟩ := verbatim_intact x hs rs re k hk hlt
  refine ⟨pre, pfx, post, by rw [settingsAt_eq x hlt]; exact h1, ?_, h3⟩
  rcases h2 with e | e | e
  · exact Or.inl e
  · exact Or.inr ⟨_, e⟩
  · exact Or.inr ⟨_, by rw [e, ← List.append_assoc]⟩

example : ex.settingsAt 3 = "2 ?;4".toList := by decide

example : SortedKeys ex.fmts ∧ 3 ∈ ex.fmts.keys ∧ 3 < ex.len ∧
    texts (active ex.fmts 3) = ["2 ?".toList, "4".toList] := ⟨ex_sorted, by decide, by decide, by decide⟩
example : Render.render ex false false true =
    "\x1b[1;31ma\x1b[1;31;2 ?m b\x1b[0;2 ?;4m c\x1b[m".toList := by decide

end C15b
