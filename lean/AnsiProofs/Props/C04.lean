import AnsiProofs.Lemmas.Slice
/-
  Property C04 — `__getitem__` (integer index and step-1 slice), `clip`, the character iterator.

  "For every reachable value s and every integer index or step-1 slice (negative, omitted and
  out-of-range bounds following Python's slice rules), s[i:j] has base_str == s.base_str[i:j] and
  its k-th character reports the same settings, with the same precedence among conflicting
  settings, as the corresponding character of s; s[i] for any valid integer index, negative
  included, is the one-character slice at that position, clip(a, b) equals s[a:b], and iterating s
  yields s[0], s[1], ... in order. A slice is complete in itself: no style of s stays open past
  the end of the slice, so text appended to it keeps only its own style."

  Notation: `x : AStr`, `st en : Nat` the normalised bounds (`sliceIdx`), `x.getRange st en` the
  slice.  All statements hold for every `x` and every bound (no size restriction).
  Helper lemmas: `AnsiProofs/Lemmas/Slice.lean`.
-/

namespace C04

/-! ### 7. Python's bound normalisation (`_slice_val_to_idx`) -/

theorem sliceIdx_omitted (n d : Nat) : sliceIdx n none d = d := rfl

theorem sliceIdx_negative (n : Nat) (v : Int) (d : Nat) (h : v < 0) :
    sliceIdx n (some v) d = ((n : Int) + v).toNat := sliceIdx_neg n v d h

theorem sliceIdx_nonnegative (n : Nat) (v : Int) (d : Nat) (h : v ≥ 0) :
    sliceIdx n (some v) d = min v.toNat n := sliceIdx_nonneg n v d h

theorem sliceIdx_bound (n : Nat) (v : Option Int) (d : Nat) : sliceIdx n v d ≤ max n d :=
  sliceIdx_le_s4 n v d

/-- the stop bound of a slice never exceeds the length -/
theorem sliceIdx_stop_le (n : Nat) (v : Option Int) : sliceIdx n v n ≤ n := by
  have := sliceIdx_le_s4 n v n; omega

/-! ### 1. the text of a slice -/

/-- `pySlice s st en` selects the characters `st, st+1, …, en-1` of `s`, in order -/
theorem pySlice_spec (s : Str) (st en k : Nat) :
    (pySlice s st en)[k]? = if st + k < en then s[st + k]? else none :=
  pySlice_getElem? s st en k

theorem pySlice_len (s : Str) (st en : Nat) : (pySlice s st en).length = min en s.length - st :=
  pySlice_length s st en

theorem getRange_text (x : AStr) (st en : Nat) : (x.getRange st en).s = pySlice x.s st en :=
  getRange_s x st en

theorem getSlice_text (x : AStr) (a b : Option Int) :
    (x.getSlice a b).s = pySlice x.s (sliceIdx x.len a 0) (sliceIdx x.len b x.len) :=
  getRange_s x _ _

/-! ### 2. the settings of the characters of a slice -/

/-- character `k` of `x[st:en]` reports the same list of settings objects, in the same order
    (so with the same precedence), as character `st + k` of `x` -/
theorem getRange_settings (x : AStr) (h : WF x) {st en k : Nat} (hse : st < en) (hen : en ≤ x.len)
    (hk : k < en - st) : act (x.getRange st en) k = act x (st + k) :=
  getRange_act x h.sorted hse hen hk

/-- the same for the user-level slice with optional, possibly negative or out-of-range bounds -/
theorem getSlice_settings (x : AStr) (h : WF x) (a b : Option Int) {k : Nat}
    (hk : k < sliceIdx x.len b x.len - sliceIdx x.len a 0) :
    act (x.getSlice a b) k = act x (sliceIdx x.len a 0 + k) :=
  getRange_act x h.sorted (by omega) (sliceIdx_stop_le x.len b) hk

/-! ### 3. a slice is closed -/

/-- no style stays open at or past the end of the slice -/
theorem getRange_closed (x : AStr) (h : WF x) {st en : Nat} (hse : st < en) (hen : en ≤ x.len) :
    ∀ j, en - st ≤ j → act (x.getRange st en) j = [] :=
  fun _ hj => getRange_act_beyond x h.sorted hse hen (h.nodup _) hj

/-- the empty slice carries no markers at all -/
theorem getRange_empty (x : AStr) {st en : Nat} (h : pySlice x.s st en = []) :
    (x.getRange st en).fmts = [] := by
  rw [getRange_of_empty x h]

/-! ### 4. a slice is again a well-formed value -/

theorem getRange_wf (x : AStr) (h : WF x) (st : Nat) {en : Nat} (hen : en ≤ x.len) :
    WF (x.getRange st en) :=
  getRange_wf_all x h st hen

theorem getSlice_wf (x : AStr) (h : WF x) (a b : Option Int) : WF (x.getSlice a b) :=
  getRange_wf_all x h _ (sliceIdx_stop_le x.len b)

/-! ### 5. integer index, `clip`, iteration -/

/-- `x[i]` for a valid index (negative included) is the one-character slice at that position -/
theorem getIndex_spec (x : AStr) (i : Int) (h1 : -(x.len : Int) ≤ i) (h2 : i < x.len) :
    x.getIndex i =
      .ok (x.getRange (if i ≥ 0 then i else (x.len : Int) + i).toNat
        ((if i ≥ 0 then i else (x.len : Int) + i).toNat + 1)) := by
  unfold AStr.getIndex
  have : ¬ (i < -(x.len : Int) ∨ i ≥ x.len) := by omega
  simp only [this, if_false]

/-- an index outside `-len ≤ i < len` raises `IndexError` -/
theorem getIndex_error (x : AStr) (i : Int) (h : i < -(x.len : Int) ∨ i ≥ x.len) :
    x.getIndex i = .error .indexError := by
  unfold AStr.getIndex
  simp only [h, if_true]

theorem getIndex_nat (x : AStr) (i : Nat) (h : i < x.len) :
    x.getIndex (i : Int) = .ok (x.getRange i (i + 1)) := by
  rw [getIndex_spec x i (by omega) (by omega)]
  have : ((i : Int) ≥ 0) := by omega
  simp [this]

/-- the position selected by a valid index lies inside the text -/
theorem getIndex_pos (x : AStr) (i : Int) (h1 : -(x.len : Int) ≤ i) (h2 : i < x.len) :
    (if i ≥ 0 then i else (x.len : Int) + i).toNat < x.len := by
  split <;> omega

theorem clip_eq (x : AStr) (a b : Option Int) : x.clip a b = x.getSlice a b := rfl

theorem chars_eq (x : AStr) : x.chars = (List.range x.len).map (fun i => x.getRange i (i + 1)) := rfl

theorem chars_length (x : AStr) : x.chars.length = x.len := by
  simp [AStr.chars]

/-- the `i`-th value the iterator yields is `x[i]` -/
theorem chars_getElem? (x : AStr) (i : Nat) (h : i < x.len) :
    (x.chars[i]?).map Except.ok = some (x.getIndex (i : Int)) := by
  rw [getIndex_nat x i h]
  simp [AStr.chars, h]

/-! ### 6. text appended to a slice keeps only its own style -/

/-- `+=` with an operand whose table is empty leaves the left table unchanged -/
theorem iadd_plain (a : AStr) (t : Str) :
    a.iadd { s := t, fmts := [] } = { s := a.s ++ t, fmts := a.fmts } :=
  iadd_nil_fmts a t

/-- plain text appended to a slice is unstyled: nothing of `x` leaks past the end of the slice -/
theorem slice_append_plain (x : AStr) (h : WF x) {st en : Nat} (hse : st < en) (hen : en ≤ x.len)
    (t : Str) : ∀ j, en - st ≤ j → act ((x.getRange st en).iadd { s := t, fmts := [] }) j = [] := by
  intro j hj
  rw [iadd_plain]
  exact getRange_closed x h hse hen j hj

/-- and the characters of the slice keep their settings in that concatenation -/
theorem slice_append_plain_settings (x : AStr) (h : WF x) {st en k : Nat} (hse : st < en)
    (hen : en ≤ x.len) (t : Str) (hk : k < en - st) :
    act ((x.getRange st en).iadd { s := t, fmts := [] }) k = act x (st + k) := by
  rw [iadd_plain]
  exact getRange_settings x h hse hen hk

/-! ### non-vacuity: a concrete value with two overlapping settings

  text `abcdef`; object 1 (`"1"`, bold) on `[0, 4)`, object 2 (`"31"`, red) on `[2, 6)`. -/

def s1 : Setting := ⟨1, "1".toList⟩
def s2 : Setting := ⟨2, "31".toList⟩

def ex : AStr :=
  { s := "abcdef".toList,
    fmts := [(0, { add := [s1] }), (2, { add := [s2] }), (4, { rem := [s1] }), (6, { rem := [s2] })] }

theorem ex_wf : WF ex where
  sorted := by unfold SortedKeys; decide
  bound := by decide
  noAddEnd := by decide
  ok := by decide
  nodup := by
    intro i
    rcases i with _ | _ | _ | _ | _ | _ | i
    · decide
    · decide
    · decide
    · decide
    · decide
    · decide
    · simp [active, activeFrom, ex, stepPoint, eraseId, s1, s2]
  closed := by decide
  coherent := by decide

/-- hypotheses of `getRange_settings`, `getRange_closed`, `slice_append_plain` are satisfiable -/
example : WF ex ∧ 1 < 5 ∧ 5 ≤ ex.len ∧ 2 < 5 - 1 := ⟨ex_wf, by decide, by decide, by decide⟩

/-- the slice `ex[1:5]`: both objects overlap on its characters 1 and 2, in the original order -/
example : act (ex.getRange 1 5) 0 = [s1] ∧ act (ex.getRange 1 5) 1 = [s1, s2] ∧
    act (ex.getRange 1 5) 2 = [s1, s2] ∧ act (ex.getRange 1 5) 3 = [s2] := by decide

example : act (ex.getRange 1 5) 2 = act ex (1 + 2) :=
  getRange_settings ex ex_wf (by decide) (by decide) (by decide)

example : act (ex.getRange 1 5) 4 = [] :=
  getRange_closed ex ex_wf (by decide) (by decide) 4 (by decide)

/-- the table of the slice: object 2, still open in `ex` at 5, is stopped at the end of the slice -/
example : ex.getRange 1 5 =
    { s := "bcde".toList,
      fmts := [(0, { add := [s1] }), (1, { add := [s2] }), (3, { rem := [s1] }), (4, { rem := [s2] })] } := by
  decide

example : WF (ex.getRange 1 5) := getRange_wf ex ex_wf 1 (by decide)

/-- negative and omitted bounds: `ex[-5:]`, `ex[:-1]`, `ex[-100:100]` -/
example : ex.getSlice (some (-5)) none = ex.getRange 1 6 := by decide
example : (ex.getSlice none (some (-1))).s = "abcde".toList := by decide
example : ex.getSlice (some (-100)) (some 100) = ex := by decide
example : WF (ex.getSlice (some (-5)) (some (-1))) := getSlice_wf ex ex_wf _ _

example : act (ex.getSlice (some (-5)) (some (-1))) 1 = act ex (1 + 1) :=
  getSlice_settings ex ex_wf (some (-5)) (some (-1)) (by decide)

/-- the empty slice -/
example : pySlice ex.s 4 2 = [] ∧ (ex.getRange 4 2).fmts = [] := ⟨by decide, getRange_empty ex (by decide)⟩

/-- integer indices -/
example : -(ex.len : Int) ≤ -2 ∧ (-2 : Int) < ex.len := by decide
example : ex.getIndex (-2) = .ok (ex.getRange 4 5) := getIndex_spec ex (-2) (by decide) (by decide)
example : ex.getIndex (-2) = .ok { s := "e".toList, fmts := [(0, { add := [s2] }), (1, { rem := [s2] })] } := by
  have e : ex.getRange 4 5 = { s := "e".toList, fmts := [(0, { add := [s2] }), (1, { rem := [s2] })] } := by
    decide
  rw [← e]
  exact getIndex_spec ex (-2) (by decide) (by decide)
example : ex.getIndex 6 = .error .indexError := getIndex_error ex 6 (by decide)
example : ex.getIndex (-7) = .error .indexError := getIndex_error ex (-7) (by decide)
example : (ex.chars[3]?).map Except.ok = some (ex.getIndex 3) := chars_getElem? ex 3 (by decide)

/-- appended plain text is unstyled, the slice keeps its settings -/
example : act ((ex.getRange 1 5).iadd { s := "xy".toList, fmts := [] }) 4 = [] ∧
    act ((ex.getRange 1 5).iadd { s := "xy".toList, fmts := [] }) 5 = [] :=
  ⟨slice_append_plain ex ex_wf (by decide) (by decide) _ 4 (by decide),
   slice_append_plain ex ex_wf (by decide) (by decide) _ 5 (by decide)⟩

example : act ((ex.getRange 1 5).iadd { s := "xy".toList, fmts := [] }) 2 = [s1, s2] := by decide

/-- bound normalisation on concrete numbers -/
example : sliceIdx 6 (some (-2)) 0 = 4 ∧ sliceIdx 6 (some (-9)) 0 = 0 ∧ sliceIdx 6 (some 9) 6 = 6 ∧
    sliceIdx 6 none 6 = 6 := by decide

end C04

#print axioms C04.pySlice_spec
#print axioms C04.pySlice_len
#print axioms C04.getRange_text
#print axioms C04.getSlice_text
#print axioms C04.getRange_settings
#print axioms C04.getSlice_settings
#print axioms C04.getRange_closed
#print axioms C04.getRange_empty
#print axioms C04.getRange_wf
#print axioms C04.getSlice_wf
#print axioms C04.getIndex_spec
#print axioms C04.getIndex_error
#print axioms C04.getIndex_nat
#print axioms C04.clip_eq
#print axioms C04.chars_eq
#print axioms C04.chars_getElem?
#print axioms C04.iadd_plain
#print axioms C04.slice_append_plain
#print axioms C04.slice_append_plain_settings
#print axioms C04.sliceIdx_omitted
#print axioms C04.sliceIdx_negative
#print axioms C04.sliceIdx_nonnegative
#print axioms C04.sliceIdx_bound
#print axioms C04.ex_wf
