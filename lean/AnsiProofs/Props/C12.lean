import AnsiProofs.Lemmas.Pad
/-
  Property C12 — padding (`ljust`, `rjust`, `center`, `zfill`), `assign_str` with a text that is
  not shorter, and the `[fill][+|-][<|>|^][width]` part of a format spec.

  Notation used in the statements: `n = x.len`, `num = padNum x w = (w - n).toNat`
  (the number of fill characters), `act x k` = the settings character `k` reports.

  Independent specifications (this file): `PySpec.formatAlign` (Python's `format()` alignment of a
  `str`), `Grammar.fmtSpec` / `Grammar.Mem` (the grammar of the justification part),
  `Grammar.stripNl` (the text without one final newline), `PySpec.padApply` (what
  `_apply_string_format` has to do once the spec is parsed).

  The model is functional: `x.toStr …`, `x.ljust …` return new values, so "never changes `s`" is
  true by construction (Python: `to_str` works on `self.copy()`, checked by the harness).
-/

namespace C12
open PadL

/-! ## Independent specifications -/

namespace PySpec

/-- Python's `format(s, f"{fill}{align}{width}")` for a `str`: `'^'` puts the extra fill
    character on the right -/
def formatAlign (s : Str) (fill : Char) (align : Char) (width : Int) : Str :=
  let num := (width - s.length).toNat
  let left := match align with
    | '<' => 0
    | '>' => num
    | _ => num / 2
  List.replicate left fill ++ s ++ List.replicate (num - left) fill

example : formatAlign "ab".toList '*' '<' 5 = "ab***".toList := by decide
example : formatAlign "ab".toList '*' '>' 5 = "***ab".toList := by decide
example : formatAlign "ab".toList '*' '^' 5 = "*ab**".toList := by decide
example : formatAlign "ab".toList '*' '^' 1 = "ab".toList := by decide
example : formatAlign "ab".toList '*' '^' (-3) = "ab".toList := by decide

/-- the justification selected by the alignment character -/
def pad (obj : AStr) (al : Char) (w : Int) (fill : Char) (extend : Bool) : AStr :=
  if al = '<' then obj.ljust w fill extend
  else if al = '>' then obj.rjust w fill extend
  else obj.center w fill extend

/-- what `_apply_string_format` has to do with the parsed parts and the ansi part of the spec
    (`none` = no `:ansi` part): apply the ansi part first when formatting is not extended, pad
    (only when a width is given), apply the ansi part last when formatting is extended -/
def padApply (obj : AStr) (nid : Nat) (fill : Char) (extend : Bool) (al : Char) (digits : Str)
    (ansi : Option Str) : Except PyErr AStr := do
  let st : SArg := .str (ansi.getD [])
  let present : Bool := match ansi with | some s => !s.isEmpty | none => false
  let obj ← if !extend ∧ present then obj.applyRaw nid st none none else pure obj
  let obj := if digits.isEmpty then obj else pad obj al (Py.digitsVal digits) fill extend
  if extend ∧ present then obj.applyRaw nid st none none else pure obj

end PySpec

namespace Grammar

def isSign (c : Char) : Bool := c == '+' || c == '-'
def isAlign (c : Char) : Bool := c == '<' || c == '>' || c == '^'
def isDigit (c : Char) : Bool := '0' ≤ c && c ≤ '9'

/-- fill, sign, alignment (`'<'` for a bare width), width digits (possibly none) -/
abbrev Parts := Option Char × Option Char × Char × Str

/-- `fill sign a digits*` -/
def form3 (a : Char) : Str → Option Parts
  | f :: g :: a' :: ds =>
    if f != '\n' && isSign g && a' == a && ds.all isDigit then some (some f, some g, a, ds) else none
  | _ => none
/-- `fill a digits*` -/
def form2 (a : Char) : Str → Option Parts
  | f :: a' :: ds => if f != '\n' && a' == a && ds.all isDigit then some (some f, none, a, ds) else none
  | _ => none
/-- `sign a digits*` -/
def formS (a : Char) : Str → Option Parts
  | g :: a' :: ds => if isSign g && a' == a && ds.all isDigit then some (none, some g, a, ds) else none
  | _ => none
/-- `a digits*` -/
def form1 (a : Char) : Str → Option Parts
  | a' :: ds => if a' == a && ds.all isDigit then some (none, none, a, ds) else none
  | _ => none
/-- `digits*`: a bare width left-justifies -/
def bare (s : Str) : Option Parts := if s.all isDigit then some (none, none, '<', s) else none

/-- the readings with alignment character `a`, a reading with a fill character first -/
def withAlign (a : Char) (s : Str) : Option Parts :=
  (form3 a s).or ((form2 a s).or ((formS a s).or (form1 a s)))

/-- The grammar `[fill][sign]align digits* | digits*` of the justification part as a parser:
    the first reading that applies.  The readings for different alignment characters and the bare
    width exclude each other; the only ambiguity is `sign align …` against `fill align …`, which
    the library resolves in favour of the fill character (see `fmtSpec_sign_needs_fill`). -/
def fmtSpec (s : Str) : Option Parts :=
  ((withAlign '<' s).or (bare s)).or ((withAlign '>' s).or (withAlign '^' s))

/-- the same grammar as a set of texts -/
def Mem (s : Str) : Prop :=
  (∃ (fill sg : Option Char) (al : Char) (ds : Str), s = fill.toList ++ sg.toList ++ al :: ds ∧
     (∀ c, fill = some c → c ≠ '\n') ∧ (∀ c, sg = some c → isSign c = true) ∧ isAlign al = true ∧
     ds.all isDigit = true)
  ∨ s.all isDigit = true

/-- the text without one final newline: the library's `$` also matches before a final `'\n'` -/
def stripNl (s : Str) : Str := if s.getLast? = some '\n' then s.dropLast else s

/-- the rest of a format spec after the justification part: nothing, or `:` and the ansi part -/
def ansiSuffix : Option Str → Str
  | none => []
  | some a => ':' :: a

/-- the `format_parts` of `to_str` (the library's own splitter `(^.?[-\+]?[<>\^]?[0-9]*)(:.*)?$`) -/
def specParts (spec : Str) : Str × Option Str :=
  match Re.matchStart Render.reSpec spec with
  | none => (spec, none)
  | some caps =>
    match Re.group caps 2 with
    | some (_ :: rest) => ((Re.group caps 1).getD [], some rest)
    | _ => ((Re.group caps 1).getD [], none)

end Grammar

/-! the specifications above are, definitionally, the ones the helper lemmas are stated for -/
theorem padApply_eq : @PySpec.padApply = @Rx.padApply := rfl
theorem fmtSpec_eq : Grammar.fmtSpec = Rx.parse := rfl
theorem mem_eq : Grammar.Mem = Rx.Mem := rfl
theorem stripNl_eq (s : Str) : Grammar.stripNl s = Rx.stripNl s := Rx.stripNlDecl_eq s
theorem ansiSuffix_eq : Grammar.ansiSuffix = Rx.suffix := rfl
theorem specParts_eq : Grammar.specParts = Rx.specParts := rfl

/-- number of fill characters -/
abbrev padNum (x : AStr) (w : Int) : Nat := (w - (x.len : Int)).toNat

/-! ## 1. The text is what Python's `format()` produces -/

theorem ljust_text (x : AStr) (w : Int) (c : Char) (e : Bool) :
    (x.ljust w c e).s = PySpec.formatAlign x.s c '<' w := by
  rw [AStr.ljust_s]; simp [PySpec.formatAlign, AStr.len]

theorem rjust_text (x : AStr) (w : Int) (c : Char) (e : Bool) :
    (x.rjust w c e).s = PySpec.formatAlign x.s c '>' w := by
  rw [AStr.rjust_s]; simp [PySpec.formatAlign, AStr.len]

theorem center_text (x : AStr) (w : Int) (c : Char) (e : Bool) :
    (x.center w c e).s = PySpec.formatAlign x.s c '^' w := by
  rw [AStr.center_s]; simp [PySpec.formatAlign, AStr.len]

theorem zfill_eq (x : AStr) (w : Int) : x.zfill w = x.rjust w '0' true := rfl

theorem zfill_text (x : AStr) (w : Int) : (x.zfill w).s = PySpec.formatAlign x.s '0' '>' w :=
  rjust_text x w '0' true

/-! ## 2. Original characters keep their settings -/

theorem ljust_original {x : AStr} (hw : WF x) (w : Int) (c : Char) (e : Bool) {k : Nat}
    (hk : k < x.len) : act (x.ljust w c e) k = act x k := by
  cases e with
  | false => exact AStr.act_ljust_plain x w c k
  | true =>
    by_cases h : 0 < padNum x w
    · rw [AStr.act_ljust_ext hw c h, if_neg (by omega), if_pos hk]
    · rw [AStr.ljust_noop' c true (by unfold padNum at h; omega)]

theorem rjust_original {x : AStr} (hw : WF x) (w : Int) (c : Char) (e : Bool) {k : Nat}
    (_hk : k < x.len) : act (x.rjust w c e) (padNum x w + k) = act x k := by
  cases e with
  | false => rw [AStr.act_rjust_plain hw, if_neg (by unfold padNum; omega), Nat.add_sub_cancel_left]
  | true => rw [AStr.act_rjust_ext hw, Nat.add_sub_cancel_left]

theorem center_original {x : AStr} (hw : WF x) (w : Int) (c : Char) (e : Bool) {k : Nat}
    (hk : k < x.len) : act (x.center w c e) (padNum x w / 2 + k) = act x k := by
  cases e with
  | false =>
    rw [AStr.act_center_plain hw, if_neg (by unfold padNum; omega), Nat.add_sub_cancel_left]
  | true =>
    by_cases h : 0 < padNum x w
    · rw [AStr.act_center_ext hw c h, if_neg (by unfold padNum at *; omega),
        Nat.add_sub_cancel_left, if_pos hk]
    · have h0 : padNum x w = 0 := by omega
      rw [AStr.center_noop' c true h0, h0]; simp

/-! ## 3. Fill characters -/

/-! ### extended formatting: the adjacent original character's settings -/

theorem ljust_fill_ext {x : AStr} (hw : WF x) (w : Int) (c : Char) (hn : 0 < x.len) {j : Nat}
    (h1 : x.len ≤ j) (h2 : j < x.len + padNum x w) :
    act (x.ljust w c true) j = act x (x.len - 1) := by
  unfold padNum at h2
  rw [AStr.act_ljust_ext hw c (by omega), if_neg (by omega), if_neg (by omega), lastAct_pos hw hn]

theorem rjust_fill_ext {x : AStr} (hw : WF x) (w : Int) (c : Char) {j : Nat}
    (h : j < padNum x w) : act (x.rjust w c true) j = act x 0 := by
  rw [AStr.act_rjust_ext hw, show j - (w - (x.len : Int)).toNat = 0 by unfold padNum at h; omega]

theorem center_fill_ext_left {x : AStr} (hw : WF x) (w : Int) (c : Char) (hn : 0 < x.len) {j : Nat}
    (h : j < padNum x w / 2) : act (x.center w c true) j = act x 0 := by
  unfold padNum at h
  rw [AStr.act_center_ext hw c (by omega), if_neg (by omega),
    show j - (w - (x.len : Int)).toNat / 2 = 0 by omega, if_pos hn]

theorem center_fill_ext_right {x : AStr} (hw : WF x) (w : Int) (c : Char) (hn : 0 < x.len) {j : Nat}
    (h1 : padNum x w / 2 + x.len ≤ j) (h2 : j < x.len + padNum x w) :
    act (x.center w c true) j = act x (x.len - 1) := by
  unfold padNum at h1 h2
  rw [AStr.act_center_ext hw c (by omega), if_neg (by omega), if_neg (by omega), lastAct_pos hw hn]

/-! ### formatting not extended: no settings (for every position outside the original text) -/

theorem ljust_fill_plain {x : AStr} (hw : WF x) (w : Int) (c : Char) {j : Nat} (h1 : x.len ≤ j) :
    act (x.ljust w c false) j = [] := by
  rw [AStr.act_ljust_plain]; exact wf_act_ge hw h1

theorem rjust_fill_plain {x : AStr} (hw : WF x) (w : Int) (c : Char) {j : Nat}
    (h : j < padNum x w) : act (x.rjust w c false) j = [] := by
  rw [AStr.act_rjust_plain hw, if_pos h]

theorem center_fill_plain_left {x : AStr} (hw : WF x) (w : Int) (c : Char) {j : Nat}
    (h : j < padNum x w / 2) : act (x.center w c false) j = [] := by
  rw [AStr.act_center_plain hw, if_pos h]

theorem center_fill_plain_right {x : AStr} (hw : WF x) (w : Int) (c : Char) {j : Nat}
    (h1 : padNum x w / 2 + x.len ≤ j) : act (x.center w c false) j = [] := by
  unfold padNum at h1
  rw [AStr.act_center_plain hw]
  split
  · rfl
  · exact wf_act_ge hw (by omega)

/-! ### the empty text: every position of the result reports no settings -/

theorem ljust_fill_empty {x : AStr} (hw : WF x) (w : Int) (c : Char) (e : Bool) (hn : x.len = 0)
    (j : Nat) : act (x.ljust w c e) j = [] := by
  cases e with
  | false => exact ljust_fill_plain hw w c (by omega)
  | true =>
    by_cases h : 0 < padNum x w
    · rw [AStr.act_ljust_ext hw c h, lastAct_zero hn]
      split
      · rfl
      · rw [if_neg (by omega)]
    · rw [AStr.ljust_noop' c true (by unfold padNum at h; omega)]; exact wf_act_ge hw (by omega)

theorem rjust_fill_empty {x : AStr} (hw : WF x) (w : Int) (c : Char) (e : Bool) (hn : x.len = 0)
    (j : Nat) : act (x.rjust w c e) j = [] := by
  cases e with
  | false =>
    rw [AStr.act_rjust_plain hw]
    split
    · rfl
    · exact wf_act_ge hw (by omega)
  | true => rw [AStr.act_rjust_ext hw]; exact wf_act_ge hw (by omega)

theorem center_fill_empty {x : AStr} (hw : WF x) (w : Int) (c : Char) (e : Bool) (hn : x.len = 0)
    (j : Nat) : act (x.center w c e) j = [] := by
  cases e with
  | false =>
    rw [AStr.act_center_plain hw]
    split
    · rfl
    · exact wf_act_ge hw (by omega)
  | true =>
    by_cases h : 0 < padNum x w
    · rw [AStr.act_center_ext hw c h, lastAct_zero hn]
      split
      · rfl
      · rw [if_neg (by omega)]
    · rw [AStr.center_noop' c true (by unfold padNum at h; omega)]; exact wf_act_ge hw (by omega)

/-! ## 4. The invariant is preserved (no marker beyond the new length, everything closed at the
    new end — `center` on the unrepaired library failed exactly this) -/

theorem ljust_wf {x : AStr} (hw : WF x) (w : Int) (c : Char) (e : Bool) : WF (x.ljust w c e) :=
  AStr.ljust_wf' hw w c e

theorem rjust_wf {x : AStr} (hw : WF x) (w : Int) (c : Char) (e : Bool) : WF (x.rjust w c e) :=
  AStr.rjust_wf' hw w c e

theorem center_wf {x : AStr} (hw : WF x) (w : Int) (c : Char) (e : Bool) : WF (x.center w c e) :=
  AStr.center_wf' hw w c e

theorem zfill_wf {x : AStr} (hw : WF x) (w : Int) : WF (x.zfill w) := rjust_wf hw w '0' true

/-! ## 5. A width that is not larger than the text changes nothing -/

theorem ljust_noop (x : AStr) {w : Int} (c : Char) (e : Bool) (h : w ≤ x.len) : x.ljust w c e = x :=
  AStr.ljust_noop' c e (by omega)

theorem rjust_noop (x : AStr) {w : Int} (c : Char) (e : Bool) (h : w ≤ x.len) : x.rjust w c e = x :=
  AStr.rjust_noop' c e (by omega)

theorem center_noop (x : AStr) {w : Int} (c : Char) (e : Bool) (h : w ≤ x.len) : x.center w c e = x :=
  AStr.center_noop' c e (by omega)

/-! ## 6. `assign_str` with a text that is not shorter -/

theorem assignStr_text (x : AStr) (t : Str) : (x.assignStr t).s = t := AStr.assignStr_s x t

theorem assignStr_keep {x : AStr} (hw : WF x) {t : Str} (ht : t.length ≥ x.len) {k : Nat}
    (hk : k < x.len) : act (x.assignStr t) k = act x k := by
  unfold act
  by_cases h : x.len < t.length
  · rw [AStr.assignStr_fmts_longer hw.sorted h, active_padExt hw (by omega), if_neg (by omega),
      if_pos (by omega)]
    rfl
  · rw [AStr.assignStr_fmts_same (by omega)]

/-- added characters take the last character's settings -/
theorem assignStr_extend {x : AStr} (hw : WF x) {t : Str} (hn : 0 < x.len) {k : Nat}
    (h1 : x.len ≤ k) (h2 : k < t.length) : act (x.assignStr t) k = act x (x.len - 1) := by
  unfold act
  rw [AStr.assignStr_fmts_longer hw.sorted (by omega), active_padExt hw (by omega), if_neg (by omega),
    if_neg (by omega), lastAct_pos hw hn]
  rfl

/-- … and none when the old text was empty -/
theorem assignStr_extend_empty {x : AStr} (hw : WF x) {t : Str} (hn : x.len = 0) (k : Nat) :
    act (x.assignStr t) k = [] := by
  unfold act
  by_cases h : x.len < t.length
  · rw [AStr.assignStr_fmts_longer hw.sorted h, active_padExt hw (by omega), lastAct_zero hn]
    split
    · rfl
    · rw [if_neg (by omega)]
  · rw [AStr.assignStr_fmts_same (by omega)]; exact wf_act_ge hw (by omega)

theorem assignStr_wf_longer {x : AStr} (hw : WF x) {t : Str} (ht : t.length ≥ x.len) :
    WF (x.assignStr t) := by
  by_cases h : x.len < t.length
  · exact wf_padExt hw (by omega) (by unfold AStr.len; rw [assignStr_text])
      (AStr.assignStr_fmts_longer hw.sorted h)
  · exact wf_of_eq hw (by unfold AStr.len; rw [assignStr_text]; unfold AStr.len at ht h; omega)
      (AStr.assignStr_fmts_same (by omega))

/-! ## 7. The grammar of the justification part decides `_apply_string_format` -/

/-- `_apply_string_format(fmt, settings)`: `ValueError` when `fmt` without one final newline is
    outside the grammar; otherwise the padding/`apply_formatting` sequence `PySpec.padApply` with the
    fill character (default `' '`), the extend flag (sign ≠ `'-'`), the justification and the width
    digits of the grammar's reading. -/
theorem fmtspec_grammar (obj : AStr) (nid : Nat) (fmt : Str) (settings : Option Str) :
    Render.applyStringFormat obj nid fmt settings =
      match Grammar.fmtSpec (Grammar.stripNl fmt) with
      | none => .error .valueError
      | some (fill, sign, al, ds) =>
        PySpec.padApply obj nid (fill.getD ' ') (sign != some '-') al ds settings := by
  rw [Rx.applyStringFormat_eq, stripNl_eq]
  unfold Rx.specApply
  rw [fmtSpec_eq]
  cases Rx.parse (Rx.stripNl fmt) with
  | none => rfl
  | some p => obtain ⟨fill, sign, al, ds⟩ := p; rfl

theorem fmtspec_reject (obj : AStr) (nid : Nat) (fmt : Str) (settings : Option Str)
    (h : Grammar.fmtSpec (Grammar.stripNl fmt) = none) :
    Render.applyStringFormat obj nid fmt settings = .error .valueError := by
  rw [fmtspec_grammar, h]

theorem fmtspec_accept (obj : AStr) (nid : Nat) (fmt : Str) (settings : Option Str)
    {fill sign : Option Char} {al : Char} {ds : Str}
    (h : Grammar.fmtSpec (Grammar.stripNl fmt) = some (fill, sign, al, ds)) :
    Render.applyStringFormat obj nid fmt settings =
      PySpec.padApply obj nid (fill.getD ' ') (sign != some '-') al ds settings := by
  rw [fmtspec_grammar, h]

/-- without an ansi part nothing else can fail: the error is raised exactly outside the grammar -/
theorem fmtspec_error_iff (obj : AStr) (nid : Nat) (fmt : Str) :
    Render.applyStringFormat obj nid fmt none = .error .valueError ↔
      Grammar.fmtSpec (Grammar.stripNl fmt) = none := by
  rw [fmtspec_grammar]
  cases h : Grammar.fmtSpec (Grammar.stripNl fmt) with
  | none => simp
  | some p => simp [PySpec.padApply, pure, Except.pure, bind, Except.bind]

/-- the parser accepts exactly the texts of the grammar -/
theorem fmtSpec_isSome_iff_mem (s : Str) : (Grammar.fmtSpec s).isSome = true ↔ Grammar.Mem s :=
  Rx.parse_isSome_iff s

/-- a text of the grammar contains no newline (so `stripNl` leaves it alone) -/
theorem fmtSpec_no_newline {s : Str} {p : Grammar.Parts} (h : Grammar.fmtSpec s = some p) :
    '\n' ∉ s ∧ Grammar.stripNl s = s := by
  have := Rx.parse_no_nl h
  exact ⟨this, by rw [stripNl_eq, Rx.stripNl_of_no_nl this]⟩

/-- the one ambiguity: "sign without fill" is never the library's reading — `'-<5'` is fill `'-'`
    with extended formatting, not "do not extend" -/
theorem fmtSpec_sign_needs_fill {s : Str} {sg : Option Char} {al : Char} {ds : Str}
    (h : Grammar.fmtSpec s = some (none, sg, al, ds)) : sg = none :=
  Rx.parse_never_sign_without_fill h

/-! ### concrete decisions -/

example : Grammar.fmtSpec "+5".toList = none := by decide
example : Grammar.fmtSpec " 5".toList = none := by decide
example : Grammar.fmtSpec "x".toList = none := by decide
example : Grammar.fmtSpec "a+b".toList = none := by decide
example : Grammar.fmtSpec "5\n".toList = none := by decide
example : Grammar.fmtSpec (Grammar.stripNl "5\n".toList) = some (none, none, '<', ['5']) := by decide
example : Grammar.fmtSpec (Grammar.stripNl "5\n\n".toList) = none := by decide
example : Grammar.fmtSpec "5".toList = some (none, none, '<', ['5']) := by decide
example : Grammar.fmtSpec "05".toList = some (none, none, '<', ['0', '5']) := by decide
example : Grammar.fmtSpec "<5".toList = some (none, none, '<', ['5']) := by decide
example : Grammar.fmtSpec "*>7".toList = some (some '*', none, '>', ['7']) := by decide
example : Grammar.fmtSpec ":^9".toList = some (some ':', none, '^', ['9']) := by decide
example : Grammar.fmtSpec "+<3".toList = some (some '+', none, '<', ['3']) := by decide
example : Grammar.fmtSpec "*-^4".toList = some (some '*', some '-', '^', ['4']) := by decide
example : Grammar.fmtSpec "<".toList = some (none, none, '<', []) := by decide
/-- `'<<5'` is NOT rejected (the task statement expected a rejection): fill `'<'`, left, width 5 —
    the same reading as Python's `format('ab', '<<5') = 'ab<<<'` -/
example : Grammar.fmtSpec "<<5".toList = some (some '<', none, '<', ['5']) := by decide
example : Grammar.fmtSpec "-<5".toList = some (some '-', none, '<', ['5']) := by decide

/-! the same decisions on the library's regular expressions themselves -/
example : Re.matchStart Render.reLeft "+5".toList = none ∧
    Re.matchStart (Render.reAligned '>') "+5".toList = none ∧
    Re.matchStart (Render.reAligned '^') "+5".toList = none := by decide
example : Re.matchStart Render.reLeft "a+b".toList = none ∧
    Re.matchStart (Render.reAligned '>') "a+b".toList = none ∧
    Re.matchStart (Render.reAligned '^') "a+b".toList = none := by decide
example : Re.matchStart Render.reLeft "<<5".toList = some [(3, ['5']), (2, []), (1, ['<'])] := by decide
example : Re.matchStart Render.reLeft "*-^4".toList = none ∧
    Re.matchStart (Render.reAligned '>') "*-^4".toList = none ∧
    Re.matchStart (Render.reAligned '^') "*-^4".toList = some [(3, ['4']), (2, ['-']), (1, ['*'])] := by
  decide
example (obj : AStr) (nid : Nat) (st : Option Str) :
    Render.applyStringFormat obj nid "+5".toList st = .error .valueError :=
  fmtspec_reject obj nid _ st (by decide)
example (obj : AStr) (nid : Nat) :
    Render.applyStringFormat obj nid "*-^4".toList none = .ok (obj.center 4 '*' false) :=
  fmtspec_accept obj nid _ none (fill := some '*') (sign := some '-') (al := '^') (ds := ['4']) (by decide)

/-! ## 8. `format(x, spec)` / `to_str(spec)` = pad and `apply_formatting` on a copy, then render -/

/-- For a spec `core` or `core:ansi` whose justification part `core` is a non-empty text of the
    grammar (and whose ansi part contains no newline), `to_str` renders the value obtained by:
    apply the ansi part (if present and formatting is not extended), pad, apply the ansi part
    (if present and formatting is extended). -/
theorem format_eq_pad_apply (x : AStr) {core : Str} {fill sign : Option Char} {al : Char} {ds : Str}
    (hne : core ≠ []) (hp : Grammar.fmtSpec core = some (fill, sign, al, ds))
    (ansi : Option Str) (ha : ∀ a, ansi = some a → '\n' ∉ a) (o rs re : Bool) (nid : Nat) :
    x.toStr (some (core ++ Grammar.ansiSuffix ansi)) o rs re nid =
      (PySpec.padApply x nid (fill.getD ' ') (sign != some '-') al ds ansi >>= fun obj =>
        pure (Render.render obj o rs re)) := by
  have ha' : ∀ a, ansi = some a → a.all Render.dot = true := by
    intro a h
    simp only [List.all_eq_true, Render.dot, bne_iff_ne, ne_eq]
    intro c hc e
    exact ha a h (e ▸ hc)
  exact Rx.toStr_grammar x hne hp ansi ha' o rs re nid

/-- `to_str` raises `ValueError` when the justification part the library's splitter isolates is
    non-empty and outside the grammar -/
theorem format_valueError (x : AStr) (spec : Str) (o rs re : Bool) (nid : Nat)
    (h1 : (Grammar.specParts spec).1 ≠ [])
    (h2 : Grammar.fmtSpec (Grammar.stripNl (Grammar.specParts spec).1) = none) :
    x.toStr (some spec) o rs re nid = .error .valueError := by
  have hs : spec.isEmpty = false := by
    cases spec with
    | nil => exact absurd rfl h1
    | cons c r => rfl
  rw [specParts_eq] at h1 h2
  have h1' : (Rx.specParts spec).1.isEmpty = false := by
    cases h : (Rx.specParts spec).1 with
    | nil => exact absurd h h1
    | cons c r => rfl
  unfold AStr.toStr
  simp only [hs, Bool.not_false, Bool.not_true, Bool.false_eq_true, false_and, if_false, if_true,
    Option.getD_some]
  rw [Rx.applySpec_eq]
  simp only [h1', Bool.not_false, if_true]
  rw [fmtspec_reject x nid _ _ h2]
  rfl

/-- the splitter on specs of the grammar -/
theorem specParts_grammar {core : Str} {p : Grammar.Parts} (hne : core ≠ [])
    (hp : Grammar.fmtSpec core = some p) (ansi : Option Str) (ha : ∀ a, ansi = some a → '\n' ∉ a) :
    Grammar.specParts (core ++ Grammar.ansiSuffix ansi) = (core, ansi) := by
  have ha' : ∀ a, ansi = some a → a.all Render.dot = true := by
    intro a h
    simp only [List.all_eq_true, Render.dot, bne_iff_ne, ne_eq]
    intro c hc e
    exact ha a h (e ▸ hc)
  rcases Rx.parse_shape hp with h | h
  · exact absurd h hne
  · exact Rx.specParts_grammar h ansi ha'

example : Grammar.specParts ">10:underline;red".toList = (">10".toList, some "underline;red".toList) := by
  decide
example : Grammar.specParts " ->10:underline;red".toList = (" ->10".toList, some "underline;red".toList) := by
  decide
example : Grammar.specParts ":^9".toList = (":^9".toList, none) := by decide
example : Grammar.specParts "+5".toList = ("+5".toList, none) := by decide
example (x : AStr) : x.toStr (some "+5".toList) = .error .valueError :=
  format_valueError x _ _ _ _ _ (by decide) (by decide)


/-! ## Non-vacuity: the hypotheses of the theorems above hold on concrete values -/

/-- `AnsiString('ab', 'red')`: one setting object (id 0, SGR 31) starting at 0 and stopping at 2 -/
def red : Setting := ⟨0, "31".toList⟩
def ab : AStr := { s := "ab".toList, fmts := [(0, { add := [red] }), (2, { rem := [red] })] }

theorem ab_wf : WF ab where
  sorted := by unfold SortedKeys; decide
  bound := by decide
  noAddEnd := by decide
  ok := by decide
  nodup := by
    intro i
    simp only [ab, active, activeFrom]
    split
    · split <;> decide
    · decide
  closed := by decide
  coherent := by decide

theorem empty_wf : WF {} where
  sorted := by unfold SortedKeys; decide
  bound := by decide
  noAddEnd := by decide
  ok := by decide
  nodup := by intro i; simp [active, activeFrom]
  closed := by decide
  coherent := by decide

/-- the index hypotheses of sections 2 and 3 for `'ab'.center(6)` / `ljust(6)` / `rjust(6)` (num = 4) -/
example : padNum ab 6 = 4 ∧ 0 < ab.len ∧ 1 < ab.len ∧ 1 < padNum ab 6 / 2 ∧ 1 < padNum ab 6 ∧
    padNum ab 6 / 2 + ab.len ≤ 5 ∧ ab.len ≤ 5 ∧ 5 < ab.len + padNum ab 6 := by decide

/-- `'ab'` red, `center(6, '*')`: `**ab**`, every character red, closed at 6 -/
example : (ab.center 6 '*' true).s = "**ab**".toList := by decide
example : (ab.center 6 '*' true).fmts = [(0, { add := [red] }), (6, { rem := [red] })] := by decide
example : act (ab.center 6 '*' true) 1 = act ab 0 := center_fill_ext_left ab_wf 6 '*' (by decide) (by decide)
example : act (ab.center 6 '*' true) 5 = act ab (ab.len - 1) :=
  center_fill_ext_right ab_wf 6 '*' (by decide) (by decide) (by decide)
example : act (ab.center 6 '*' true) (padNum ab 6 / 2 + 1) = act ab 1 :=
  center_original ab_wf 6 '*' true (by decide)
example : act ab 0 = [red] ∧ act ab 1 = [red] ∧ act ab 2 = [] := by decide
example : (List.range 8).map (act (ab.center 6 '*' true)) =
    [[red], [red], [red], [red], [red], [red], [], []] := by decide
/-- not extended: only the original characters are red -/
example : (List.range 8).map (act (ab.center 6 '*' false)) =
    [[], [], [red], [red], [], [], [], []] := by decide
example : act (ab.center 6 '*' false) 1 = [] := center_fill_plain_left ab_wf 6 '*' (by decide)
example : act (ab.center 6 '*' false) 5 = [] := center_fill_plain_right ab_wf 6 '*' (by decide)
example : WF (ab.center 6 '*' true) ∧ WF (ab.center 7 '*' false) :=
  ⟨center_wf ab_wf _ _ _, center_wf ab_wf _ _ _⟩
/-- an odd number of fill characters: the extra one goes to the right -/
example : (ab.center 5 '*' true).s = "*ab**".toList := by decide

example : (List.range 7).map (act (ab.ljust 6 '*' true)) = [[red], [red], [red], [red], [red], [red], []] := by
  decide
example : (List.range 7).map (act (ab.ljust 6 '*' false)) = [[red], [red], [], [], [], [], []] := by
  decide
example : act (ab.ljust 6 '*' true) 5 = act ab (ab.len - 1) :=
  ljust_fill_ext ab_wf 6 '*' (by decide) (by decide) (by decide)
example : act (ab.ljust 6 '*' false) 5 = [] := ljust_fill_plain ab_wf 6 '*' (by decide)
example : act (ab.ljust 6 '*' true) 1 = act ab 1 := ljust_original ab_wf 6 '*' true (by decide)

example : (List.range 7).map (act (ab.rjust 6 '*' true)) = [[red], [red], [red], [red], [red], [red], []] := by
  decide
example : (List.range 7).map (act (ab.rjust 6 '*' false)) = [[], [], [], [], [red], [red], []] := by
  decide
example : act (ab.rjust 6 '*' true) 1 = act ab 0 := rjust_fill_ext ab_wf 6 '*' (by decide)
example : act (ab.rjust 6 '*' false) 1 = [] := rjust_fill_plain ab_wf 6 '*' (by decide)
example : act (ab.rjust 6 '*' true) (padNum ab 6 + 1) = act ab 1 := rjust_original ab_wf 6 '*' true (by decide)
example : (ab.zfill 4).s = "00ab".toList := by decide

/-- the empty text (with and without an empty change point at 0) -/
example : (({} : AStr).center 3 '*' true).s = "***".toList ∧ act (({} : AStr).center 3 '*' true) 1 = [] :=
  ⟨by decide, center_fill_empty empty_wf 3 '*' true rfl 1⟩

/-- no-op hypotheses -/
example : ab.center 2 '*' true = ab := center_noop ab '*' true (by decide)
example : ab.ljust (-1) '*' false = ab := ljust_noop ab '*' false (by decide)

/-- `assign_str('abcd')` on `'ab'` red: the two new characters are red, closed at 4 -/
example : "abcd".toList.length ≥ ab.len ∧ 0 < ab.len ∧ ab.len ≤ 3 ∧ 3 < "abcd".toList.length := by decide
example : (List.range 6).map (act (ab.assignStr "abcd".toList)) = [[red], [red], [red], [red], [], []] := by
  decide
example : act (ab.assignStr "abcd".toList) 3 = act ab (ab.len - 1) :=
  assignStr_extend ab_wf (by decide) (by decide) (by decide)
example : WF (ab.assignStr "abcd".toList) := assignStr_wf_longer ab_wf (by decide)
example : WF (ab.assignStr "xy".toList) := assignStr_wf_longer ab_wf (by decide)

/-- the hypotheses of `format_eq_pad_apply` / `specParts_grammar` on `'*^6:bold'` and `'*-^6'` -/
example : "*^6".toList ≠ [] ∧ Grammar.fmtSpec "*^6".toList = some (some '*', none, '^', ['6']) ∧
    (∀ a, some "bold".toList = some a → '\n' ∉ a) := by
  refine ⟨by decide, by decide, ?_⟩
  intro a h; cases h; decide
example (o rs re : Bool) (nid : Nat) :
    ab.toStr (some "*^6:bold".toList) o rs re nid =
      (PySpec.padApply ab nid '*' true '^' ['6'] (some "bold".toList) >>= fun obj =>
        pure (Render.render obj o rs re)) :=
  format_eq_pad_apply ab (core := "*^6".toList) (fill := some '*') (sign := none) (al := '^')
    (ds := ['6']) (by decide) (by decide) (some "bold".toList)
    (by intro a h; cases h; decide) o rs re nid
example (o rs re : Bool) (nid : Nat) :
    ab.toStr (some "*-^6".toList) o rs re nid = .ok (Render.render (ab.center 6 '*' false) o rs re) :=
  format_eq_pad_apply ab (core := "*-^6".toList) (fill := some '*') (sign := some '-') (al := '^')
    (ds := ['6']) (by decide) (by decide) none
    (by intro a h; cases h) o rs re nid

end C12
