import AnsiProofs.Lemmas.Match
/-
  Property C16 — `format_matching` / `unformat_matching`.

  "format_matching(spec, *fmt, regex, match_case, count) leaves the object in the same state as
  calling apply_formatting(fmt, m.start(), m.end()) for the first count (all if negative)
  non-overlapping matches of the pattern in base_str as found by Python's re …; unformat_matching
  likewise with remove_formatting, no format or None meaning all settings.  Characters outside all
  matches keep their settings and the text never changes."

  What is proved here, and what is not.  The matches are an *external input*: `spans` is the list
  of `(m.start(), m.end())` pairs that `re.finditer` yields, in that order.  Which spans Python's
  `re` produces for a pattern (escaping of a non-regex spec, IGNORECASE, non-overlap) is decided by
  the differential harness, which runs the real `re`; nothing about `re` is claimed here.
  About the model the following is proved, for all values, all arguments, all span lists and all
  counts:

   1. the method *is* the left fold of `apply_formatting` (`remove_formatting`) over the first
      `count` spans, and this fold obeys exactly the loop's `count` bookkeeping;
   2. the identity given to new setting objects is above every identity in the table;
   3. the text never changes;
   4. the history invariant `WF` is kept;
   5. a character outside all (slice-normalised) spans reports exactly the settings, in exactly
      the precedence order, that it reported before;
   6. an error result carries no value; a falsy format argument makes the call a no-op.

  Helper lemmas: `AnsiProofs/Lemmas/Match.lean` (namespace `MatchL`).  The facts about one
  `apply_formatting` / `remove_formatting` call are the finished theorems of C06 and C07.
-/

namespace C16

open MatchL

/-! ## 1 — the method is the fold over the first `count` spans -/

theorem format_matching_eq_fold (x : AStr) (a : SArg) (spans : List (Int × Int)) (count : Int) :
    x.formatMatching a spans count =
      (takeCount count spans).foldlM
        (fun acc se => acc.applyRaw acc.fmts.nextId a (some se.1) (some se.2) true) x := rfl

theorem unformat_matching_eq_fold (x : AStr) (a : Option SArg) (spans : List (Int × Int)) (count : Int) :
    x.unformatMatching a spans count =
      (takeCount count spans).foldlM (fun acc se => acc.removeRaw a (some se.1) (some se.2)) x := rfl

/-- `count < 0`: every match -/
theorem takeCount_neg (count : Int) (h : count < 0) (spans : List (Int × Int)) :
    takeCount count spans = spans := MatchL.takeCount_neg h spans

/-- `count ≥ 0`: the first `count` matches -/
theorem takeCount_nonneg (count : Int) (h : 0 ≤ count) (spans : List (Int × Int)) :
    takeCount count spans = spans.take count.toNat := MatchL.takeCount_nonneg h spans

example : takeCount (-1) [(1, 2), (3, 4), (5, 6)] = [(1, 2), (3, 4), (5, 6)] ∧
    takeCount (-7) [(1, 2), (3, 4), (5, 6)] = [(1, 2), (3, 4), (5, 6)] ∧
    takeCount 2 [(1, 2), (3, 4), (5, 6)] = [(1, 2), (3, 4)] ∧
    takeCount 0 [(1, 2), (3, 4), (5, 6)] = [] ∧
    takeCount 9 [(1, 2), (3, 4), (5, 6)] = [(1, 2), (3, 4), (5, 6)] := by decide

/-- `finditer` is exhausted: the loop ends -/
theorem format_matching_nil (x : AStr) (a : SArg) (count : Int) : x.formatMatching a [] count = .ok x := by
  rw [formatMatching_eq, takeCount_nil]; rfl

/-- `count == 0`: `break` -/
theorem format_matching_zero (x : AStr) (a : SArg) (spans : List (Int × Int)) :
    x.formatMatching a spans 0 = .ok x := by
  rw [formatMatching_eq, takeCount_zero]; rfl

/-- `count < 0 or count > 0`: format this match, decrement a positive `count`, go on -/
theorem format_matching_cons (x : AStr) (a : SArg) (se : Int × Int) (rest : List (Int × Int)) (count : Int)
    (h : count ≠ 0) :
    x.formatMatching a (se :: rest) count =
      (x.applyRaw x.fmts.nextId a (some se.1) (some se.2) true) >>=
        fun y => y.formatMatching a rest (if count > 0 then count - 1 else count) := by
  rw [formatMatching_eq, takeCount_cons h, List.foldlM_cons]
  rfl

theorem unformat_matching_nil (x : AStr) (a : Option SArg) (count : Int) :
    x.unformatMatching a [] count = .ok x := by
  rw [unformatMatching_eq, takeCount_nil]; rfl

theorem unformat_matching_zero (x : AStr) (a : Option SArg) (spans : List (Int × Int)) :
    x.unformatMatching a spans 0 = .ok x := by
  rw [unformatMatching_eq, takeCount_zero]; rfl

theorem unformat_matching_cons (x : AStr) (a : Option SArg) (se : Int × Int) (rest : List (Int × Int))
    (count : Int) (h : count ≠ 0) :
    x.unformatMatching a (se :: rest) count =
      (x.removeRaw a (some se.1) (some se.2)) >>=
        fun y => y.unformatMatching a rest (if count > 0 then count - 1 else count) := by
  rw [unformatMatching_eq, takeCount_cons h, List.foldlM_cons]
  rfl

example : (2 : Int) ≠ 0 ∧ (-1 : Int) ≠ 0 := by decide

/-! ## 2 — the identities of the new objects are new -/

theorem nextId_fresh (x : AStr) : FreshFrom x x.fmts.nextId := MatchL.nextId_fresh x

/-! The example value: text `a-b-c` with red (`31`, object 0) on `[0,3)`; the spec `-` matches at
    `[1,2)` and `[3,4)`.  The first match lies inside the red part, the second outside. -/

def exX : AStr :=
  { s := "a-b-c".toList
    fmts := [(0, { add := [⟨0, "31".toList⟩] }), (3, { rem := [⟨0, "31".toList⟩] })] }

def exSpans : List (Int × Int) := [(1, 2), (3, 4)]

theorem exX_wf : WF exX where
  sorted := by unfold SortedKeys; decide
  bound := by decide
  noAddEnd := by decide
  ok := by decide
  nodup := nodup_all_of_le (m := 3) (by decide) (by decide)
  closed := by decide
  coherent := by decide

example : exX.fmts.nextId = 1 := by decide

/-- `format_matching('-', 'bold', count=1)` -/
def exY1 : AStr :=
  { s := "a-b-c".toList
    fmts := [(0, { add := [⟨0, "31".toList⟩] }), (1, { add := [⟨1, "1".toList⟩] }),
             (2, { rem := [⟨1, "1".toList⟩] }), (3, { rem := [⟨0, "31".toList⟩] })] }

/-- `format_matching('-', 'bold')` (`count=-1`): a second, new object for the second match -/
def exYall : AStr :=
  { s := "a-b-c".toList
    fmts := [(0, { add := [⟨0, "31".toList⟩] }), (1, { add := [⟨1, "1".toList⟩] }),
             (2, { rem := [⟨1, "1".toList⟩] }),
             (3, { add := [⟨2, "1".toList⟩], rem := [⟨0, "31".toList⟩] }),
             (4, { rem := [⟨2, "1".toList⟩] })] }

/-- `unformat_matching('-')` (no format: everything), both matches -/
def exU : AStr :=
  { s := "a-b-c".toList
    fmts := [(0, { add := [⟨0, "31".toList⟩] }), (1, { rem := [⟨0, "31".toList⟩] }),
             (2, { add := [⟨0, "31".toList⟩] }), (3, { rem := [⟨0, "31".toList⟩] })] }

theorem ex_format_1 : exX.formatMatching (.str "bold".toList) exSpans 1 = .ok exY1 := by
  have h : (exX.formatMatching (.str "bold".toList) exSpans 1).toOption = some exY1 := by decide +kernel
  cases h' : exX.formatMatching (.str "bold".toList) exSpans 1 with
  | error e => rw [h'] at h; cases h
  | ok y => rw [h'] at h; cases h; rfl

theorem ex_format_all : exX.formatMatching (.str "bold".toList) exSpans (-1) = .ok exYall := by
  have h : (exX.formatMatching (.str "bold".toList) exSpans (-1)).toOption = some exYall := by decide +kernel
  cases h' : exX.formatMatching (.str "bold".toList) exSpans (-1) with
  | error e => rw [h'] at h; cases h
  | ok y => rw [h'] at h; cases h; rfl

theorem ex_unformat_all : exX.unformatMatching none exSpans (-1) = .ok exU := by
  have h : (exX.unformatMatching none exSpans (-1)).toOption = some exU := by decide +kernel
  cases h' : exX.unformatMatching none exSpans (-1) with
  | error e => rw [h'] at h; cases h
  | ok y => rw [h'] at h; cases h; rfl

/-- a tuple of formats (what the Python method really passes on: `format` is the `*format` tuple),
    here `(1,)` — the SGR code of bold — gives the same -/
example : (exX.formatMatching (.list [.int 1]) exSpans (-1)).toOption = some exYall := by
  decide +kernel

/-- one format, `(31,)`, removed from the first match only -/
example : (exX.unformatMatching (some (.list [.int 31])) exSpans 1).toOption = some exU := by
  decide +kernel

/-- `count=0`: nothing -/
example : (exX.formatMatching (.str "bold".toList) exSpans 0).toOption = some exX := by decide +kernel

-- what the characters report afterwards
example : (List.range 5).map (act exX) =
    [[⟨0, "31".toList⟩], [⟨0, "31".toList⟩], [⟨0, "31".toList⟩], [], []] := by decide
example : (List.range 5).map (act exY1) =
    [[⟨0, "31".toList⟩], [⟨0, "31".toList⟩, ⟨1, "1".toList⟩], [⟨0, "31".toList⟩], [], []] := by decide
example : (List.range 5).map (act exYall) =
    [[⟨0, "31".toList⟩], [⟨0, "31".toList⟩, ⟨1, "1".toList⟩], [⟨0, "31".toList⟩], [⟨2, "1".toList⟩], []] := by
  decide
example : (List.range 5).map (act exU) = [[⟨0, "31".toList⟩], [], [⟨0, "31".toList⟩], [], []] := by decide

/-! ## 3 — the text never changes -/

theorem matching_text (x y : AStr) (a : SArg) (spans : List (Int × Int)) (count : Int)
    (h : x.formatMatching a spans count = .ok y) : y.s = x.s :=
  (fold_spec (step := stepF a) stepF_text stepF_wf stepF_outside _ h).1

theorem unmatching_text (x y : AStr) (a : Option SArg) (spans : List (Int × Int)) (count : Int)
    (h : x.unformatMatching a spans count = .ok y) : y.s = x.s :=
  (fold_spec (step := stepU a) stepU_text stepU_wf stepU_outside _ h).1

example : exY1.s = exX.s := matching_text _ _ _ _ _ ex_format_1
example : exU.s = exX.s := unmatching_text _ _ _ _ _ ex_unformat_all

/-! ## 4 — the history invariant is kept -/

theorem matching_wf (x y : AStr) (a : SArg) (spans : List (Int × Int)) (count : Int) (hw : WF x)
    (h : x.formatMatching a spans count = .ok y) : WF y :=
  ((fold_spec (step := stepF a) stepF_text stepF_wf stepF_outside _ h).2 hw).1

theorem unmatching_wf (x y : AStr) (a : Option SArg) (spans : List (Int × Int)) (count : Int) (hw : WF x)
    (h : x.unformatMatching a spans count = .ok y) : WF y :=
  ((fold_spec (step := stepU a) stepU_text stepU_wf stepU_outside _ h).2 hw).1

example : WF exYall := matching_wf _ _ _ _ _ exX_wf ex_format_all
example : WF exU := unmatching_wf _ _ _ _ _ exX_wf ex_unformat_all

/-! ## 5 — characters outside all matches keep their settings exactly -/

theorem matching_outside (x y : AStr) (a : SArg) (spans : List (Int × Int)) (count : Int) (hw : WF x)
    (h : x.formatMatching a spans count = .ok y) (i : Nat)
    (hi : ∀ se ∈ takeCount count spans,
      i < sliceIdx x.len (some se.1) 0 ∨ sliceIdx x.len (some se.2) x.len ≤ i) :
    act y i = act x i :=
  ((fold_spec (step := stepF a) stepF_text stepF_wf stepF_outside _ h).2 hw).2 i hi

theorem unmatching_outside (x y : AStr) (a : Option SArg) (spans : List (Int × Int)) (count : Int)
    (hw : WF x) (h : x.unformatMatching a spans count = .ok y) (i : Nat)
    (hi : ∀ se ∈ takeCount count spans,
      i < sliceIdx x.len (some se.1) 0 ∨ sliceIdx x.len (some se.2) x.len ≤ i) :
    act y i = act x i :=
  ((fold_spec (step := stepU a) stepU_text stepU_wf stepU_outside _ h).2 hw).2 i hi

/-- in particular: outside *all* matches `finditer` yields, whatever `count` is -/
theorem matching_outside_all (x y : AStr) (a : SArg) (spans : List (Int × Int)) (count : Int) (hw : WF x)
    (h : x.formatMatching a spans count = .ok y) (i : Nat)
    (hi : ∀ se ∈ spans, i < sliceIdx x.len (some se.1) 0 ∨ sliceIdx x.len (some se.2) x.len ≤ i) :
    act y i = act x i :=
  matching_outside x y a spans count hw h i (fun se hm => hi se ((takeCount_sublist count spans).subset hm))

theorem unmatching_outside_all (x y : AStr) (a : Option SArg) (spans : List (Int × Int)) (count : Int)
    (hw : WF x) (h : x.unformatMatching a spans count = .ok y) (i : Nat)
    (hi : ∀ se ∈ spans, i < sliceIdx x.len (some se.1) 0 ∨ sliceIdx x.len (some se.2) x.len ≤ i) :
    act y i = act x i :=
  unmatching_outside x y a spans count hw h i (fun se hm => hi se ((takeCount_sublist count spans).subset hm))

-- the hypotheses are satisfiable: character 2 (`b`) is outside both matches, character 3 is
-- outside the matches that `count=1` lets through
example : ∀ se ∈ takeCount (-1) exSpans,
    2 < sliceIdx exX.len (some se.1) 0 ∨ sliceIdx exX.len (some se.2) exX.len ≤ 2 := by decide
example : ∀ se ∈ takeCount 1 exSpans,
    3 < sliceIdx exX.len (some se.1) 0 ∨ sliceIdx exX.len (some se.2) exX.len ≤ 3 := by decide
example : act exYall 2 = act exX 2 := matching_outside _ _ _ _ _ exX_wf ex_format_all 2 (by decide)
example : act exY1 3 = act exX 3 := matching_outside _ _ _ _ _ exX_wf ex_format_1 3 (by decide)
example : act exU 2 = act exX 2 := unmatching_outside _ _ _ _ _ exX_wf ex_unformat_all 2 (by decide)
-- and the conclusion is not true of a character inside a match (the theorem is not trivial)
example : act exYall 1 ≠ act exX 1 := by decide

/-! ## 6 — errors, falsy arguments -/

/-- An error result carries no value: `Except.error e` has no `AStr` component, so in the model
    "the call raised" and "the call returned an object" exclude each other by construction.  (What
    the *Python object* looks like after an exception in the middle of the loop — the matches
    formatted before the bad one stay formatted — is observed by the harness, not claimed here.) -/
theorem matching_error_pure (x : AStr) (a : SArg) (spans : List (Int × Int)) (count : Int) (e : PyErr)
    (h : x.formatMatching a spans count = .error e) : ∀ y, x.formatMatching a spans count ≠ .ok y := by
  intro y h'
  rw [h] at h'
  cases h'

theorem unmatching_error_pure (x : AStr) (a : Option SArg) (spans : List (Int × Int)) (count : Int) (e : PyErr)
    (h : x.unformatMatching a spans count = .error e) : ∀ y, x.unformatMatching a spans count ≠ .ok y := by
  intro y h'
  rw [h] at h'
  cases h'

-- an argument of an unsupported type is an error (raised at the first match); with no match at
-- all the same call succeeds: the argument is only looked at by `apply_formatting`
example : (exX.formatMatching (.bad true) exSpans (-1)).toOption = none := by decide +kernel
example : (exX.formatMatching (.bad true) [] (-1)).toOption = some exX := by decide +kernel

/-- `format_matching(spec)` without any format (the empty tuple is falsy): nothing happens -/
theorem matching_nil_settings (x : AStr) (a : SArg) (spans : List (Int × Int)) (count : Int)
    (ha : a.truthy = false) : x.formatMatching a spans count = .ok x := by
  rw [formatMatching_eq]
  exact fold_falsy (fun x se => stepF_falsy ha x se) _ x

/-- the same for `unformat_matching` when a falsy argument other than `None`/no-format reaches
    `remove_formatting` -/
theorem unmatching_falsy_settings (x : AStr) (arg : SArg) (spans : List (Int × Int)) (count : Int)
    (ha : arg.truthy = false) : x.unformatMatching (some arg) spans count = .ok x := by
  rw [unformatMatching_eq]
  exact fold_falsy (fun x se => stepU_falsy ha x se) _ x

example : (SArg.list []).truthy = false ∧ (SArg.str []).truthy = false := by decide
example : (exX.formatMatching (.list []) exSpans (-1)).toOption = some exX := by decide +kernel

end C16

#print axioms C16.format_matching_eq_fold
#print axioms C16.unformat_matching_eq_fold
#print axioms C16.takeCount_neg
#print axioms C16.takeCount_nonneg
#print axioms C16.format_matching_nil
#print axioms C16.format_matching_zero
#print axioms C16.format_matching_cons
#print axioms C16.unformat_matching_nil
#print axioms C16.unformat_matching_zero
#print axioms C16.unformat_matching_cons
#print axioms C16.nextId_fresh
#print axioms C16.matching_text
#print axioms C16.unmatching_text
#print axioms C16.matching_wf
#print axioms C16.unmatching_wf
#print axioms C16.matching_outside
#print axioms C16.unmatching_outside
#print axioms C16.matching_outside_all
#print axioms C16.unmatching_outside_all
#print axioms C16.matching_error_pure
#print axioms C16.unmatching_error_pure
#print axioms C16.matching_nil_settings
#print axioms C16.unmatching_falsy_settings
