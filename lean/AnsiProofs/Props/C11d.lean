import AnsiModel.StrLike
import AnsiModel.Obj
import AnsiModel.Generated.Methods.Clip
import AnsiModel.Generated.Methods.Strip
import AnsiModel.Generated.Methods.Removeprefix
import AnsiModel.Generated.Methods.Removesuffix

/-
  Property C11, part d — the *generated* (statement-by-statement translated) bodies of
  `AnsiString.clip`, `AnsiString._strip` (behind `strip`/`lstrip`/`rstrip`), `removeprefix` and
  `removesuffix` compute exactly what the hand-written model says (`AStr.clip`/`AStr.getSlice`,
  `AStr.stripGen`, `AStr.removeprefix`, `AStr.removesuffix`); no exception, nothing outside the model's
  representation (`Py.optGet rcount` in the second loop of `_strip` is never reached with `None`).

  * `namespace C11d.L` — nothing there mentions `Gen.*`: a counting loop left by `break`
    (`List.foldlM` over a pair (counter, done flag)) counts `(l.takeWhile c).length` upwards
    (`fold_up`) or downwards in an `Option Int` (`fold_down`), for *any* step function that meets the
    three-clause spec "done: unchanged / hit: count, go on / miss: set the flag".
  * `namespace C11d` — the theorems over `Gen.*`: `unfold`, `rw` with the fold lemmas (the spec clauses
    are side goals closed by `intros; simp_all`), `cases` on the Booleans, `simp`, `grind`.
    The same scripts were run unchanged against a rewritten variant (`if not inplace: return obj`,
    `if chars is not None: pass else: …`, `if char not in chars: break` before the increment, the
    counters and `rcount == 0 → None` returned through binds instead of duplicated tails,
    `removeprefix`/`removesuffix` with the branches swapped) and passed.
-/

namespace C11d
namespace L

theorem bind_ok {ε α β : Type} (a : α) (f : α → Except ε β) : (Except.ok a).bind f = f a := rfl

/-- once `break` has been executed the remaining rounds do nothing -/
theorem fold_done {ε σ α : Type} (f : σ × Bool → α → Except ε (σ × Bool))
    (hd : ∀ n ch, f (n, true) ch = .ok (n, true)) (l : List α) (n : σ) :
    List.foldlM f (n, true) l = .ok (n, true) := by
  induction l with
  | nil => rfl
  | cons a l ih =>
    rw [List.foldlM_cons, hd]
    show List.foldlM f _ l = _
    rw [ih]

/-- `for ch in l: if c(ch): n += 1 else: break` -/
theorem fold_up {ε α : Type} (c : α → Bool) (f : Int × Bool → α → Except ε (Int × Bool))
    (hd : ∀ n ch, f (n, true) ch = .ok (n, true))
    (hh : ∀ n ch, c ch = true → f (n, false) ch = .ok (n + 1, false))
    (hm : ∀ n ch, c ch = false → f (n, false) ch = .ok (n, true))
    (l : List α) (n0 : Int) :
    List.foldlM f (n0, false) l = .ok (n0 + ((l.takeWhile c).length : Nat), !l.all c) := by
  induction l generalizing n0 with
  | nil => simp [List.foldlM, pure, Except.pure]
  | cons a l ih =>
    rw [List.foldlM_cons]
    cases h : c a with
    | true =>
      rw [hh _ _ h]
      show List.foldlM f _ l = _
      rw [ih]
      simp [h]
      omega
    | false =>
      rw [hm _ _ h]
      show List.foldlM f _ l = _
      rw [fold_done f hd]
      simp [h]

/-- `for ch in l: if c(ch): r -= 1 else: break` where `r` may hold `None` as far as the translator sees -/
theorem fold_down {ε α : Type} (c : α → Bool) (f : Option Int × Bool → α → Except ε (Option Int × Bool))
    (hd : ∀ n ch, f (n, true) ch = .ok (n, true))
    (hh : ∀ n ch, c ch = true → f (some n, false) ch = .ok (some (n - 1), false))
    (hm : ∀ n ch, c ch = false → f (n, false) ch = .ok (n, true))
    (l : List α) (n0 : Int) :
    List.foldlM f (some n0, false) l = .ok (some (n0 - ((l.takeWhile c).length : Nat)), !l.all c) := by
  induction l generalizing n0 with
  | nil => simp [List.foldlM, pure, Except.pure]
  | cons a l ih =>
    rw [List.foldlM_cons]
    cases h : c a with
    | true =>
      rw [hh _ _ h]
      show List.foldlM f _ l = _
      rw [ih]
      simp [h]
      omega
    | false =>
      rw [hm _ _ h]
      show List.foldlM f _ l = _
      rw [fold_done f hd]
      simp [h]

end L

open L

theorem clip_is_code (x : AStr) (st en : Option Int) (inplace : Bool) :
    Gen.clip x st en inplace = .ok (x.clip st en) := by
  unfold Gen.clip AStr.clip
  cases inplace <;> simp

/-- `if chars is None: chars = WHITESPACE_CHARS` -/
theorem strip_none (x : AStr) (inplace doL doR : Bool) :
    Gen.strip x none inplace doL doR = Gen.strip x (some Gen.whitespaceChars) inplace doL doR := by
  unfold Gen.strip
  first | rfl | simp [bind_ok]

set_option linter.unusedSimpArgs false in
/-- the translated `_strip` with a given character set -/
theorem strip_some (x : AStr) (cs : Str) (inplace doL doR : Bool) :
    Gen.strip x (some cs) inplace doL doR = .ok (x.stripGen (some cs) doL doR inplace) := by
  unfold Gen.strip
  simp only [Option.isNone_some, Option.isNone_none, Bool.not_true, Bool.not_false, Bool.false_eq_true,
    if_true, if_false, bind_ok]
  rw [fold_down (fun ch => cs.contains ch) _ ?d ?h ?m]
  rw [fold_up (fun ch => cs.contains ch) _ ?d2 ?h2 ?m2]
  · cases doL <;> cases doR <;> cases inplace <;> simp [bind_ok, clip_is_code, AStr.stripGen, AStr.clip, AStr.len]
    all_goals grind [bind_ok]
  all_goals (intros; simp_all [Py.optGet, bind_ok])

theorem strip_is_code (x : AStr) (chars : Option Str) (inplace doL doR : Bool) :
    Gen.strip x chars inplace doL doR = .ok (x.stripGen chars doL doR inplace) := by
  cases chars with
  | some cs => exact strip_some x cs inplace doL doR
  | none => rw [strip_none, strip_some]; rfl

theorem removeprefix_is_code (x : AStr) (p : Str) (inplace : Bool) :
    Gen.removeprefix x p inplace = .ok (x.removeprefix p) := by
  unfold Gen.removeprefix AStr.removeprefix
  cases inplace <;> cases Py.startsWith x.s p <;> simp [clip_is_code, AStr.clip]

theorem removesuffix_is_code (x : AStr) (p : Str) (inplace : Bool) :
    Gen.removesuffix x p inplace = .ok (x.removesuffix p) := by
  unfold Gen.removesuffix AStr.removesuffix
  cases inplace <;> cases Py.endsWith x.s p <;> cases p <;> simp [clip_is_code, AStr.clip]

/-- all four were translated (none fell outside the translator's fragment) -/
theorem translated :
    Gen.clipOk = true ∧ Gen.stripOk = true ∧ Gen.removeprefixOk = true ∧ Gen.removesuffixOk = true := by
  decide

theorem clip_never_outside (x : AStr) (st en : Option Int) (inplace : Bool) (err : Exc) :
    Gen.clip x st en inplace ≠ .error err := by
  rw [clip_is_code]; intro h; cases h

theorem strip_never_outside (x : AStr) (chars : Option Str) (inplace doL doR : Bool) (err : Exc) :
    Gen.strip x chars inplace doL doR ≠ .error err := by
  rw [strip_is_code]; intro h; cases h

theorem removeprefix_never_outside (x : AStr) (p : Str) (inplace : Bool) (err : Exc) :
    Gen.removeprefix x p inplace ≠ .error err := by
  rw [removeprefix_is_code]; intro h; cases h

theorem removesuffix_never_outside (x : AStr) (p : Str) (inplace : Bool) (err : Exc) :
    Gen.removesuffix x p inplace ≠ .error err := by
  rw [removesuffix_is_code]; intro h; cases h

/-! ## Concrete values -/

/-- `"  ab c \t"` with `31` over the whole text and `1` over `"b "` -/
def x0 : AStr :=
  { s := "  ab c \t".toList,
    fmts := [(0, { add := [⟨0, "31".toList⟩] }), (3, { add := [⟨1, "1".toList⟩] }),
             (5, { rem := [⟨1, "1".toList⟩] }), (8, { rem := [⟨0, "31".toList⟩] })] }

example : Gen.strip x0 none false true true = .ok (x0.stripGen none true true false) := by decide +kernel
example : Gen.strip x0 (some " a".toList) false true false = .ok (x0.stripGen (some " a".toList) true false false) := by
  decide +kernel
example : Gen.removeprefix x0 "  a".toList false = .ok (x0.removeprefix "  a".toList) := by decide +kernel
example : Gen.removesuffix x0 " \t".toList true = .ok (x0.removesuffix " \t".toList) := by decide +kernel
example : Gen.removesuffix x0 [] true = .ok (x0.removesuffix []) := by decide +kernel
example : Gen.clip x0 (some 2) (some (-2)) true = .ok (x0.clip (some 2) (some (-2))) := by decide +kernel

/-- the value itself: both ends stripped, the table re-based -/
example : Gen.strip x0 none false true true = .ok
    { s := "ab c".toList,
      fmts := [(0, { add := [⟨0, "31".toList⟩] }), (1, { add := [⟨1, "1".toList⟩] }),
               (3, { rem := [⟨1, "1".toList⟩] }), (4, { rem := [⟨0, "31".toList⟩] })] } := by
  decide +kernel

end C11d

#print axioms C11d.clip_is_code
#print axioms C11d.strip_is_code
#print axioms C11d.removeprefix_is_code
#print axioms C11d.removesuffix_is_code
#print axioms C11d.translated
#print axioms C11d.strip_never_outside
