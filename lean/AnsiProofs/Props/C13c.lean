import AnsiProofs.Props.C13
import AnsiProofs.Props.C13b
import AnsiModel.SetAnsi
/-
  Property C13, part c — "The str payload of an AnsiStr … always equals its own rendering", for the
  values Python itself builds: `copy.copy`, `copy.deepcopy`, `pickle`.

  An `AnsiStr` is an instance of a `str` subclass with an instance `__dict__` (`_s`).  Python's copy
  protocol (`object.__reduce_ex__`, protocol ≥ 2) rebuilds such an object as

      obj = cls.__new__(cls, *self.__getnewargs__());  obj.__dict__.update(state)      -- state: `_s`

  so the *payload* of the copy is whatever `__new__` computes from the new-args, while `_s` is the
  (copied) wrapped object of the original.  `str.__getnewargs__` is `(payload,)`: `AnsiStr.__new__`
  then *parses* the payload and renders the result — which is the original payload only when
  rendering is a fixed point of parse-then-render.  It is not for settings that do not survive
  parsing (`'[77'`, a repeated `bold`): defect D36, the copy of `AnsiStr('abc', '[77', 'bold', 'bold')`
  had payload `ESC[1mabc ESC[m` and rendering `ESC[77;1;1mabc ESC[m`.  The repair defines
  `__getnewargs__` as `(self._s,)`, so `__new__` wraps (a copy of) the AnsiString.

  `Gen.ansiStr` is regenerated from the source; the body of `__getnewargs__` is read from it
  (`code_newargs`).  Without the method — or with any other body — `newFrom` falls back to what `str`
  does, and `copy_inv` is not provable (`without_newargs_stale`).
-/
namespace C13c
open C13 C13.AnsiStrW Wrap

/-- the object `cls.__new__(cls, *a.__getnewargs__())` builds, by the table's `__getnewargs__`:
    `(self._s,)` → `AnsiStr(<AnsiString>)`; anything else → `str`'s `(payload,)` → `AnsiStr(<str>)`,
    which parses the text (`set_ansi_str`) -/
def newFrom (tbl : List WMethod) (a : AnsiStrW) : AnsiStrW :=
  match (lookup tbl "__getnewargs__").map (·.body) with
  | some WBody.newargsInner => mk' a.val
  | _ => mk' (AStr.setAnsi a.payload).1

/-- `copy.copy(a)` / `copy.deepcopy(a)` / `pickle.loads(pickle.dumps(a))`: the new object, with `_s` put back -/
def pyCopy (tbl : List WMethod) (a : AnsiStrW) : AnsiStrW := ⟨a.val, (newFrom tbl a).payload⟩

/-- THE CODE'S `__getnewargs__` IS `return (self._s,)` (regenerated table) -/
theorem code_newargs : (lookup Gen.ansiStr "__getnewargs__").map (·.body) = some WBody.newargsInner := by
  decide +kernel

theorem newFrom_code (a : AnsiStrW) : newFrom Gen.ansiStr a = mk' a.val := by
  unfold newFrom
  rw [code_newargs]

/-- a copy made by Python satisfies the payload invariant — whatever the original was -/
theorem copy_inv (a : AnsiStrW) : C13.Inv (pyCopy Gen.ansiStr a) := by
  unfold pyCopy C13.Inv
  rw [newFrom_code]
  rfl

/-- … and it is the original, when the original satisfied it: same wrapped value, same payload -/
theorem copy_eq (a : AnsiStrW) (h : C13.Inv a) : pyCopy Gen.ansiStr a = a := by
  unfold pyCopy
  rw [newFrom_code]
  cases a with
  | mk v p =>
    unfold C13.Inv at h
    simp only at h
    simp [mk', h]

/-- everything that can be built, Python's copies included -/
inductive ReachC : AnsiStrW → Prop
  | base {a : AnsiStrW} : Reach a → ReachC a
  | copy {a : AnsiStrW} : ReachC a → ReachC (pyCopy Gen.ansiStr a)
  | lift (f : AStr → AStr) {a : AnsiStrW} : ReachC a → ReachC (a.lift f)
  | lift2 (f : AStr → AStr → AStr) {a b : AnsiStrW} : ReachC a → ReachC b → ReachC (lift2 f a b)
  | liftE (f : AStr → Except PyErr AStr) {a b : AnsiStrW} : ReachC a → a.liftE f = .ok b → ReachC b
  | liftL (f : AStr → List AStr) {a b : AnsiStrW} : ReachC a → b ∈ a.liftL f → ReachC b
  | rewrap {a : AnsiStrW} : ReachC a → ReachC a.rewrap

/-- "The str payload of an AnsiStr always equals its own rendering" — copies and unpickled values too -/
theorem payload_invariant_copy {a : AnsiStrW} (h : ReachC a) : C13.Inv a := by
  induction h with
  | base h => exact payload_invariant h
  | copy _ _ => exact copy_inv _
  | lift f _ _ => exact inv_lift f _
  | lift2 f _ _ _ _ => exact inv_lift2 f _ _
  | liftE f _ h _ => exact inv_liftE f _ _ h
  | liftL f _ h _ => exact inv_liftL f _ _ h
  | rewrap _ ih => exact inv_rewrap _ ih

/-- the defect D36, in the model: `'abc'` with the settings `77`, `1`, `1` from index 0 to 3 -/
def ex77 : AStr :=
  { s := "abc".toList,
    fmts := [(0, { add := [⟨0, "77".toList⟩, ⟨1, "1".toList⟩, ⟨2, "1".toList⟩] }),
             (3, { rem := [⟨0, "77".toList⟩, ⟨1, "1".toList⟩, ⟨2, "1".toList⟩] })] }

example : (mk' ex77).payload = "\x1b[77;1;1mabc\x1b[m".toList := by decide +kernel

/-- without `__getnewargs__` (the table before the repair: no such method) the copy is stale:
    parse-then-render of `ESC[77;1;1mabc ESC[m` is `ESC[1mabc ESC[m` -/
theorem without_newargs_stale : ¬ C13.Inv (pyCopy [] (mk' ex77)) := by
  unfold C13.Inv
  decide +kernel

example : (pyCopy [] (mk' ex77)).payload = "\x1b[1mabc\x1b[m".toList := by decide +kernel
example : C13.Inv (pyCopy Gen.ansiStr (mk' ex77)) := copy_inv _
example : ReachC (pyCopy Gen.ansiStr ((mk' ex77).lift AStr.clearFormatting)) :=
  ReachC.copy (ReachC.base (Reach.lift _ (Reach.mk _)))

end C13c

#print axioms C13c.code_newargs
#print axioms C13c.copy_inv
#print axioms C13c.copy_eq
#print axioms C13c.payload_invariant_copy
#print axioms C13c.without_newargs_stale
