import AnsiModel.Slice
import AnsiModel.Generated.Methods.AssignStr
/-
  Property C11, part c — `assign_str`, from the source.

  `Gen.assignStr` is `AnsiString.assign_str` translated statement by statement on every run
  (harness/pyobj.py).  The theorem ties it to the hand-written `AStr.assignStr` the C11 theorems
  (`assignStr_text/keep/extend/wf_longer`) are about, for every value and every new text: a longer text
  moves the markers at the old end to the new end, a shorter one clips, the same length keeps the table.
-/
namespace C11c

theorem translated : Gen.assignStrOk = true := by decide

private theorem has_iff (f : Fmts) (n : Nat) : Obj.has f (n : Int) = (f.get? n).isSome := by
  simp [Obj.has, Fmts.contains]

private theorem pop_some {f : Fmts} {n : Nat} {p : Point} (h : f.get? n = some p) :
    Obj.pop f (n : Int) = .ok (p, f.erase n) := by
  unfold Obj.pop
  have : ¬ ((n : Int) < 0) := by omega
  simp [this, h]

private theorem set_nat (f : Fmts) (n : Nat) (p : Point) : Obj.set f (n : Int) p = .ok (f.set n p) := by
  unfold Obj.set
  have : ¬ ((n : Int) < 0) := by omega
  simp [this]

/-- THE MODEL'S `assignStr` IS THE CODE'S `assign_str` -/
theorem assign_is_code (x : AStr) (t : Str) : Gen.assignStr x t = .ok (x.assignStr t) := by
  unfold Gen.assignStr AStr.assignStr AStr.len
  by_cases h1 : t.length > x.s.length
  · have h1a : (t.length : Int) > (x.s.length : Int) := by omega
    have h1b : ¬ (t.length : Int) < (x.s.length : Int) := by omega
    have h1c : ¬ t.length < x.s.length := by omega
    cases hg : x.fmts.get? x.s.length with
    | none => simp [h1, h1a, h1b, h1c, has_iff, hg] <;> (try (intros; first | omega | grind))
    | some p =>
      simp [h1, h1a, h1b, h1c, has_iff, hg, pop_some hg, set_nat, Except.bind] <;>
        (try (intros; first | omega | grind))
  · have h1a : ¬ (t.length : Int) > (x.s.length : Int) := by omega
    have h1b : ¬ (x.s.length : Int) < (t.length : Int) := by omega
    by_cases h2 : t.length < x.s.length
    · have h2a : (t.length : Int) < (x.s.length : Int) := by omega
      simp [h1, h1a, h1b, h2, h2a, AStr.clip] <;> (try (intros; first | omega | grind))
    · have h2a : ¬ (t.length : Int) < (x.s.length : Int) := by omega
      simp [h1, h1a, h1b, h2, h2a] <;> (try (intros; first | omega | grind))

/-- it never raises, and the outcomes the model cannot hold do not occur -/
theorem assign_total (x : AStr) (t : Str) : ∃ y, Gen.assignStr x t = .ok y := ⟨_, assign_is_code x t⟩

def exV : AStr :=
  { s := "ab".toList, fmts := [(0, { add := [⟨0, "1".toList⟩] }), (2, { rem := [⟨0, "1".toList⟩] })] }

example : Gen.assignStr exV "wxyz".toList =
    .ok { s := "wxyz".toList, fmts := [(0, { add := [⟨0, "1".toList⟩] }), (4, { rem := [⟨0, "1".toList⟩] })] } := by
  decide +kernel
example : Gen.assignStr exV "w".toList =
    .ok { s := "w".toList, fmts := [(0, { add := [⟨0, "1".toList⟩] }), (1, { rem := [⟨0, "1".toList⟩] })] } := by
  decide +kernel

end C11c

#print axioms C11c.assign_is_code
