import AnsiProofs.Lemmas.RoundTrip
/-
  Property C03 — "For every reachable value s with well-formed settings, AnsiString(str(s)) has the
  same text and the same effective style on every character as s.  simplify() never changes the
  text or any character's effective style, afterwards is_formatting_parsable() is True and invalid
  settings are gone, and it is idempotent: a second simplify() leaves str(s) unchanged, and a
  simplified value renders to a fixed point (str(AnsiString(str(s))) == str(s))."

  Notation: `x.str` = `str(x)`; `(AStr.setAnsi r nid).1` = `AnsiString(r)` (new objects get the
  identities `nid, nid+1, …`); `x.simplify nid` = the value after `x.simplify()`;
  `den x` = the characters of the base text, each with the effective style (a terminal state) of
  the settings the value reports for it (`AnsiSpec/Styled.lean`); `WF` the history invariant every
  reachable value satisfies; `GroupSettings x` = every setting text is one SGR parameter group
  ("well-formed settings"); `NoEsc x.s` = the base text contains no ESC.

  Everything is proved for ALL values (no size bound).  The display-level clauses are theorems.
  The two byte-level clauses of the last sentence are FALSE (known finding D26): section 7 proves
  their negations on a concrete reachable value.

  Helper lemmas: `AnsiProofs/Lemmas/RoundTrip.lean` (namespace `RoundTripL`).
-/

open Term Eff RoundTripL

namespace C03

/-! ## 1 — a rendering is a well-formed input for a terminal -/

/-- every SGR sequence the renderer emits has decimal parameters only (`;`-joins of group texts,
    `0` and clear codes); text without ESC contributes no sequence.  (`SortedKeys` is not needed.) -/
theorem render_wellFormed (x : AStr) (o rs re : Bool) (hg : GroupSettings x) (hne : NoEsc x.s)
    (_hs : SortedKeys x.fmts) : Term.wellFormed (Render.render x o rs re) = true :=
  (passes_render hg hne o rs re).wellFormed

theorem str_wellFormed (x : AStr) (hg : GroupSettings x) (hne : NoEsc x.s) :
    Term.wellFormed x.str = true := by
  rw [C01.str_eq_render]
  exact (passes_render hg hne true false true).wellFormed

/-- a group text contains no terminator character, so "well-formed settings" implies
    `is_formatting_valid()` -/
theorem group_valid (x : AStr) (hg : GroupSettings x) : x.isFormattingValid = true :=
  groupSettings_valid hg

/-! ## 2 — the round trip `AnsiString(str(s))` -/

/-- same text -/
theorem roundtrip_text (x : AStr) (nid : Nat) (hw : WF x) (hg : GroupSettings x) (hne : NoEsc x.s) :
    (AStr.setAnsi x.str nid).1.s = x.s := by
  rw [C02.parse_text, C15b.str_strip x hw.sorted (groupSettings_valid hg) hne]

/-- same effective style on every character: the two values have the same denotation -/
theorem roundtrip_display (x : AStr) (nid : Nat) (hw : WF x) (hg : GroupSettings x) (hne : NoEsc x.s) :
    den (AStr.setAnsi x.str nid).1 = den x := by
  rw [C02b.parse_style_den _ _ (str_wellFormed x hg hne), C01.str_display x hw hg hne]

/-- equal denotations, read per character -/
theorem eff_of_den_eq {y x : AStr} (h : den y = den x) (i : Nat) (hi : i < x.s.length) :
    eff (act y i) = eff (act x i) := by
  have hlen : y.s.length = x.s.length := by
    have := congrArg List.length h
    simpa [den] using this
  have := congrArg (fun l => l[i]?.map (·.2)) h
  simpa [den, hi, hlen] using this

/-- per character -/
theorem roundtrip_style (x : AStr) (nid : Nat) (hw : WF x) (hg : GroupSettings x) (hne : NoEsc x.s)
    (i : Nat) (hi : i < x.s.length) :
    eff (act (AStr.setAnsi x.str nid).1 i) = eff (act x i) :=
  eff_of_den_eq (roundtrip_display x nid hw hg hne) i hi

/-- the re-parsed value is a reachable value again: history invariant, fresh identities, and its
    settings are well-formed (parsable group texts) -/
theorem roundtrip_wf (x : AStr) (nid : Nat) :
    WF (AStr.setAnsi x.str nid).1 ∧ FreshFrom (AStr.setAnsi x.str nid).1 (AStr.setAnsi x.str nid).2 ∧
    GroupSettings (AStr.setAnsi x.str nid).1 :=
  ⟨C02.setAnsi_wf _ _, C02.setAnsi_fresh _ _, setAnsi_group _ _⟩

/-! ### non-vacuity: `"abc"`, red on `[0,3)`, blue on `[1,2)`, bold on `[1,3)` — conflicting colours -/

def ex : AStr :=
  { s := "abc".toList
    fmts := [(0, { add := [⟨1, "31".toList⟩] }),
             (1, { add := [⟨2, "34".toList⟩, ⟨3, "1".toList⟩] }),
             (2, { rem := [⟨2, "34".toList⟩] }),
             (3, { rem := [⟨1, "31".toList⟩, ⟨3, "1".toList⟩] })] }

theorem ex_wf : WF ex where
  sorted := by unfold SortedKeys; decide
  bound := by decide
  noAddEnd := by decide
  ok := by decide
  nodup := by
    intro i
    rcases i with _ | _ | _ | _ | i
    · decide
    · decide
    · decide
    · decide
    · simp [active, activeFrom, ex, stepPoint, eraseId]
  closed := by decide
  coherent := by decide

theorem ex_group : GroupSettings ex := by unfold GroupSettings; decide
theorem ex_noEsc : NoEsc ex.s := by unfold NoEsc; decide

example : WF ex ∧ GroupSettings ex ∧ NoEsc ex.s ∧ SortedKeys ex.fmts :=
  ⟨ex_wf, ex_group, ex_noEsc, ex_wf.sorted⟩

/-- the rendering: blue overrides red on `b`, red shows again on `c` -/
example : ex.str = "\x1b[31ma\x1b[34;1mb\x1b[31mc\x1b[m".toList := by decide
example : Term.wellFormed ex.str = true := by decide

/-- the re-parsed value: different objects, a different table (red is stopped at 1 and started again
    at 2), the same settings per character up to what is overridden -/
example : (AStr.setAnsi ex.str 10).1 =
    { s := "abc".toList
      fmts := [(0, { add := [⟨10, "31".toList⟩] }),
               (1, { add := [⟨11, "34".toList⟩, ⟨12, "1".toList⟩], rem := [⟨10, "31".toList⟩] }),
               (2, { add := [⟨13, "31".toList⟩], rem := [⟨11, "34".toList⟩] }),
               (3, { rem := [⟨12, "1".toList⟩, ⟨13, "31".toList⟩] })] } := by decide +kernel

example : (List.range 3).map (fun i => texts (act ex i)) =
    [["31".toList], ["31".toList, "34".toList, "1".toList], ["31".toList, "1".toList]] := by decide
example : (List.range 3).map (fun i => texts (act (AStr.setAnsi ex.str 10).1 i)) =
    [["31".toList], ["34".toList, "1".toList], ["1".toList, "31".toList]] := by decide +kernel

/-- both sides of `roundtrip_display`, evaluated -/
example : (den ex).map (fun ct => (ct.1, ct.2.toList)) =
    [('a', [(.fg, [31])]), ('b', [(.boldness, [1]), (.fg, [34])]), ('c', [(.boldness, [1]), (.fg, [31])])] := by
  decide +kernel
example : (den (AStr.setAnsi ex.str 10).1).map (fun ct => (ct.1, ct.2.toList)) =
    [('a', [(.fg, [31])]), ('b', [(.boldness, [1]), (.fg, [34])]), ('c', [(.boldness, [1]), (.fg, [31])])] := by
  decide +kernel
example : den (AStr.setAnsi ex.str 10).1 = den ex := roundtrip_display ex 10 ex_wf ex_group ex_noEsc

/-! ## 3 — `simplify()`: text and display -/

/-- the value with the invalid settings (those containing a terminator character) taken out of
    every start and stop marker -/
def dropInvalid (x : AStr) : AStr :=
  { x with fmts := dropF (fun s => SettingTxt.valid s.txt) x.fmts }

/-- `simplify()` is: drop the invalid settings, render, parse -/
theorem simplify_eq (x : AStr) (nid : Nat) :
    x.simplify nid = (AStr.setAnsi (dropInvalid x).str nid).1 := rfl

theorem dropInvalid_text (x : AStr) : (dropInvalid x).s = x.s := rfl

/-- dropping an object from all its start and stop markers keeps the history invariant -/
theorem dropInvalid_wf (x : AStr) (hw : WF x) : WF (dropInvalid x) := drop_wf hw SettingTxt.valid

/-- … and every character reports its previous settings minus the invalid ones, order kept -/
theorem dropInvalid_act (x : AStr) (hw : WF x) (i : Nat) :
    act (dropInvalid x) i = (act x i).filter (fun s => SettingTxt.valid s.txt) :=
  drop_act hw SettingTxt.valid i

/-- nothing invalid is left -/
theorem dropInvalid_valid (x : AStr) : ∀ s ∈ (dropInvalid x).fmts.settings, SettingTxt.valid s.txt = true :=
  fun _ hs => (settings_dropF hs).2

/-- the valid settings of the value are well-formed (group texts) -/
def GroupAfterDrop (x : AStr) : Prop :=
  ∀ s ∈ x.fmts.settings, SettingTxt.valid s.txt = true → isGroupTxt s.txt = true

theorem groupAfterDrop_of_group (x : AStr) (hg : GroupSettings x) : GroupAfterDrop x :=
  fun s hs _ => hg s hs

theorem dropInvalid_group (x : AStr) (hg : GroupAfterDrop x) : GroupSettings (dropInvalid x) :=
  fun s hs => hg s (settings_dropF hs).1 (settings_dropF hs).2

/-- with well-formed settings there is nothing to drop -/
theorem dropInvalid_of_group (x : AStr) (hg : GroupSettings x) : dropInvalid x = x := by
  unfold dropInvalid
  rw [dropF_all (fun s hs => valid_of_group (hg s hs))]

/-- `simplify()` never changes the text -/
theorem simplify_text (x : AStr) (nid : Nat) (hw : WF x) (hg : GroupAfterDrop x) (hne : NoEsc x.s) :
    (x.simplify nid).s = x.s := by
  rw [simplify_eq]
  exact roundtrip_text (dropInvalid x) nid (dropInvalid_wf x hw) (dropInvalid_group x hg) hne

/-- `simplify()` shows every character with the style of its valid settings … -/
theorem simplify_display (x : AStr) (nid : Nat) (hw : WF x) (hg : GroupAfterDrop x) (hne : NoEsc x.s) :
    den (x.simplify nid) = den (dropInvalid x) := by
  rw [simplify_eq]
  exact roundtrip_display (dropInvalid x) nid (dropInvalid_wf x hw) (dropInvalid_group x hg) hne

/-- … per character -/
theorem simplify_style (x : AStr) (nid : Nat) (hw : WF x) (hg : GroupAfterDrop x) (hne : NoEsc x.s)
    (i : Nat) (hi : i < x.s.length) :
    eff (act (x.simplify nid) i) = eff ((act x i).filter (fun s => SettingTxt.valid s.txt)) := by
  rw [← dropInvalid_act x hw i]
  exact eff_of_den_eq (simplify_display x nid hw hg hne) i hi

/-- **for a value with well-formed settings `simplify()` changes neither the text nor any
    character's effective style** -/
theorem simplify_display_group (x : AStr) (nid : Nat) (hw : WF x) (hg : GroupSettings x) (hne : NoEsc x.s) :
    (x.simplify nid).s = x.s ∧ den (x.simplify nid) = den x := by
  have h1 := simplify_text x nid hw (groupAfterDrop_of_group x hg) hne
  have h2 := simplify_display x nid hw (groupAfterDrop_of_group x hg) hne
  rw [dropInvalid_of_group x hg] at h2
  exact ⟨h1, h2⟩

/-! ## 4 — the simplified value is a reachable value again -/

theorem simplify_wf (x : AStr) (nid : Nat) : WF (x.simplify nid) := C02.setAnsi_wf _ _

/-! ## 5 — afterwards `is_formatting_parsable()` is True and invalid settings are gone
    (unconditional: no assumption on `x`, nor on the string that is parsed) -/

/-- every value made by `set_ansi_str` is parsable, whatever the input string: every setting put
    into the table is a value of `current_settings`, i.e. a text that `settings_to_dict` filed
    under a known *apply* code; such a text is a complete parameter group -/
theorem setAnsi_parsable : ∀ (r : Str) (nid : Nat), (AStr.setAnsi r nid).1.isFormattingParsable = true :=
  RoundTripL.setAnsi_parsable

theorem simplify_parsable (x : AStr) (nid : Nat) : (x.simplify nid).isFormattingParsable = true :=
  RoundTripL.setAnsi_parsable _ _

theorem simplify_valid (x : AStr) (nid : Nat) : (x.simplify nid).isFormattingValid = true :=
  RoundTripL.setAnsi_valid _ _

/-- stronger: every setting of the simplified value (start and stop markers) is parsable, valid and
    one SGR parameter group -/
theorem simplify_settings (x : AStr) (nid : Nat) : ∀ s ∈ (x.simplify nid).fmts.settings,
    SettingTxt.parsable s.txt = true ∧ SettingTxt.valid s.txt = true ∧ isGroupTxt s.txt = true := by
  intro s hs
  have h := setAnsi_canon _ _ s hs
  exact ⟨h.1, parsable_valid h.1, group_of_canon h⟩

theorem simplify_group (x : AStr) (nid : Nat) : GroupSettings (x.simplify nid) := setAnsi_group _ _

/-- an input that is not well-formed for a terminal (`+1`, a negative number, a lone `38`, a
    non-number, a final byte other than `m`): the parsed value is parsable all the same -/
example : Term.wellFormed "\x1b[+1;-3;38;?;31ma\x1b[2Jb\x1b[38;5;300;4mc".toList = false ∧
    (AStr.setAnsi "\x1b[+1;-3;38;?;31ma\x1b[2Jb\x1b[38;5;300;4mc".toList 0).1 =
    { s := "a\x1b[2Jbc".toList
      fmts := [(0, { add := [⟨0, "1".toList⟩, ⟨1, "31".toList⟩] }),
               (6, { add := [⟨2, "4".toList⟩] }),
               (7, { rem := [⟨0, "1".toList⟩, ⟨1, "31".toList⟩, ⟨2, "4".toList⟩] })] } := by
  decide +kernel

/-! ## 6 — idempotence at the display level -/

/-- a simplified value contains nothing to drop -/
theorem dropInvalid_simplified (x : AStr) (nid : Nat) : dropInvalid (x.simplify nid) = x.simplify nid :=
  dropInvalid_of_group _ (simplify_group x nid)

/-- general form: a second `simplify()` changes neither the text nor the style of any character,
    provided the text of the simplified value contains no ESC -/
theorem simplify_idem_display_gen (x : AStr) (nid nid' : Nat) (hne : NoEsc (x.simplify nid).s) :
    ((x.simplify nid).simplify nid').s = (x.simplify nid).s ∧
    den ((x.simplify nid).simplify nid') = den (x.simplify nid) :=
  simplify_display_group (x.simplify nid) nid' (simplify_wf x nid) (simplify_group x nid) hne

/-- **idempotence, display level**: for a reachable value whose valid settings are well-formed and
    whose text contains no ESC, a second `simplify()` leaves the text and every character's
    effective style unchanged -/
theorem simplify_idem_display (x : AStr) (nid nid' : Nat) (hw : WF x) (hg : GroupAfterDrop x)
    (hne : NoEsc x.s) :
    ((x.simplify nid).simplify nid').s = (x.simplify nid).s ∧
    den ((x.simplify nid).simplify nid') = den (x.simplify nid) := by
  apply simplify_idem_display_gen
  rw [simplify_text x nid hw hg hne]
  exact hne

/-- the rendering of a simplified value, re-parsed, is display-equal to it (the display-level
    reading of "a simplified value renders to a fixed point") -/
theorem simplified_roundtrip_display (x : AStr) (nid nid' : Nat) (hw : WF x) (hg : GroupAfterDrop x)
    (hne : NoEsc x.s) :
    Term.run Term.default (AStr.setAnsi (x.simplify nid).str nid').1.str =
      Term.run Term.default (x.simplify nid).str := by
  have hne' : NoEsc (x.simplify nid).s := by rw [simplify_text x nid hw hg hne]; exact hne
  have hne'' : NoEsc (AStr.setAnsi (x.simplify nid).str nid').1.s := by
    rw [roundtrip_text _ nid' (simplify_wf x nid) (simplify_group x nid) hne']; exact hne'
  rw [C01.str_display _ (C02.setAnsi_wf _ _) (setAnsi_group _ _) hne'',
    C01.str_display _ (simplify_wf x nid) (simplify_group x nid) hne',
    roundtrip_display _ nid' (simplify_wf x nid) (simplify_group x nid) hne']

/-! ### non-vacuity: a value with an invalid setting (`"A"`, a final byte) next to valid ones -/

def exBad : AStr :=
  { s := "abc".toList
    fmts := [(0, { add := [⟨1, "31".toList⟩, ⟨2, "A".toList⟩] }),
             (1, { add := [⟨3, "34".toList⟩] }),
             (2, { rem := [⟨2, "A".toList⟩, ⟨3, "34".toList⟩] }),
             (3, { rem := [⟨1, "31".toList⟩] })] }

theorem exBad_wf : WF exBad where
  sorted := by unfold SortedKeys; decide
  bound := by decide
  noAddEnd := by decide
  ok := by decide
  nodup := by
    intro i
    rcases i with _ | _ | _ | _ | i
    · decide
    · decide
    · decide
    · decide
    · simp [active, activeFrom, exBad, stepPoint, eraseId]
  closed := by decide
  coherent := by decide

theorem exBad_gad : GroupAfterDrop exBad := by unfold GroupAfterDrop; decide

example : WF exBad ∧ GroupAfterDrop exBad ∧ NoEsc exBad.s ∧ exBad.isFormattingValid = false :=
  ⟨exBad_wf, exBad_gad, by unfold NoEsc; decide, by decide⟩

example : dropInvalid exBad =
    { s := "abc".toList
      fmts := [(0, { add := [⟨1, "31".toList⟩] }), (1, { add := [⟨3, "34".toList⟩] }),
               (2, { rem := [⟨3, "34".toList⟩] }), (3, { rem := [⟨1, "31".toList⟩] })] } := by decide

example : exBad.simplify 10 =
    { s := "abc".toList
      fmts := [(0, { add := [⟨10, "31".toList⟩] }),
               (1, { add := [⟨11, "34".toList⟩], rem := [⟨10, "31".toList⟩] }),
               (2, { add := [⟨12, "31".toList⟩], rem := [⟨11, "34".toList⟩] }),
               (3, { rem := [⟨12, "31".toList⟩] })] } := by decide +kernel

example : (den (exBad.simplify 10)).map (fun ct => (ct.1, ct.2.toList)) =
    [('a', [(.fg, [31])]), ('b', [(.fg, [34])]), ('c', [(.fg, [31])])] := by decide +kernel

example : den ((exBad.simplify 10).simplify 20) = den (exBad.simplify 10) :=
  (simplify_idem_display exBad 10 20 exBad_wf exBad_gad (by unfold NoEsc; decide)).2

/-- the instances on the first example (well-formed settings) -/
example : (ex.simplify 10).s = ex.s ∧ den (ex.simplify 10) = den ex :=
  simplify_display_group ex 10 ex_wf ex_group ex_noEsc

/-! ## 7 — the byte-level clauses are FALSE (known_findings D26)

    Full claims, as stated in the property:

      theorem simplify_idem_bytes (x : AStr) (nid nid' : Nat) (hw : WF x) … :
          ((x.simplify nid).simplify nid').str = (x.simplify nid).str            -- false; see known_findings D26
      theorem simplified_fixed_point (x : AStr) (nid nid' : Nat) (hw : WF x) … :
          (AStr.setAnsi (x.simplify nid).str nid').1.str = (x.simplify nid).str   -- false; see known_findings D26

    Witness: `"ab"`, blue on `a`, the multi-code setting `"1;31"` on `b`.  The value is reachable
    (`WF`), all its settings are valid, but `"1;31"` is not parsable, so the first rendering is not
    optimised and resets before `b`: `set_ansi_str` then files bold before the colour.  The second
    rendering (now optimised, no reset) is read on top of the blue entry, which the red one
    replaces *in place*: the colour now comes first.  The third rendering differs from the second
    in the order of the two codes.  (All three are display-equal, by section 6.) -/

def x0 : AStr :=
  { s := "ab".toList
    fmts := [(0, { add := [⟨1, "34".toList⟩] }),
             (1, { add := [⟨2, "1;31".toList⟩], rem := [⟨1, "34".toList⟩] }),
             (2, { rem := [⟨2, "1;31".toList⟩] })] }

theorem x0_wf : WF x0 where
  sorted := by unfold SortedKeys; decide
  bound := by decide
  noAddEnd := by decide
  ok := by decide
  nodup := by
    intro i
    rcases i with _ | _ | _ | i
    · decide
    · decide
    · decide
    · simp [active, activeFrom, x0, stepPoint, eraseId]
  closed := by decide
  coherent := by decide

example : x0.isFormattingValid = true ∧ x0.isFormattingParsable = false ∧ NoEsc x0.s :=
  ⟨by decide, by decide, by unfold NoEsc; decide⟩

-- the three renderings
example : x0.str = "\x1b[34ma\x1b[0;1;31mb\x1b[m".toList := by decide
example : (x0.simplify 10).str = "\x1b[34ma\x1b[1;31mb\x1b[m".toList := by decide +kernel
example : ((x0.simplify 10).simplify 20).str = "\x1b[34ma\x1b[31;1mb\x1b[m".toList := by decide +kernel

/-- **a second `simplify()` changes `str(s)`** -/
theorem simplify_idem_bytes_false : ((x0.simplify 10).simplify 20).str ≠ (x0.simplify 10).str := by
  decide +kernel

/-- **a simplified value does not render to a fixed point** -/
theorem simplified_fixed_point_false :
    (AStr.setAnsi (x0.simplify 10).str 20).1.str ≠ (x0.simplify 10).str := by decide +kernel

theorem not_simplify_idem_bytes :
    ¬ (∀ (x : AStr) (nid nid' : Nat), WF x → x.isFormattingValid = true → NoEsc x.s →
        ((x.simplify nid).simplify nid').str = (x.simplify nid).str) :=
  fun h => simplify_idem_bytes_false (h x0 10 20 x0_wf (by decide) (by unfold NoEsc; decide))

/-- the third simplify is stable on this witness (the order no longer changes) -/
example : (((x0.simplify 10).simplify 20).simplify 30).str = ((x0.simplify 10).simplify 20).str := by
  decide +kernel

/-! ### the stretch goal is false as well: all settings parsable does not help

    Proposed weaker statement:

      theorem simplify_idem_bytes_partial (x : AStr) (nid nid' : Nat) (hw : WF x) (hne : NoEsc x.s)
          (hp : x.isFormattingParsable = true) :
          ((x.simplify nid).simplify nid').str = (x.simplify nid).str              -- FALSE

    Witness `x1` = `"abc"` after `apply_formatting(['1','31','4','3'], 0, 1)`,
    `apply_formatting(['32','1'], 1, 2)`, `apply_formatting(['33','2'], 2, 3)`: every setting is a
    single known code, so every rendering is optimised.  At `b` the optimiser keeps the reset form
    `0;32;1` (the alternative `24;23;32` is longer); `set_ansi_str` reads it into a fresh dict in the
    order colour, bold, but puts only the changed colour behind the kept bold: the value reports
    `1, 32`, the next rendering says `0;1;32`, and the dict of the *next* parse has the order bold,
    colour.  The pair replaced at `c` is emitted in dict order: `33;2` the first time, `2;33` the
    second.  What a proof of idempotence would need — the order of `current_settings` in
    `set_ansi_str` being a function of the value parsed, not of the string — does not hold. -/

def x1 : AStr :=
  { s := "abc".toList
    fmts := [(0, { add := [⟨1, "1".toList⟩, ⟨2, "31".toList⟩, ⟨3, "4".toList⟩, ⟨4, "3".toList⟩] }),
             (1, { add := [⟨5, "32".toList⟩, ⟨6, "1".toList⟩],
                   rem := [⟨1, "1".toList⟩, ⟨2, "31".toList⟩, ⟨3, "4".toList⟩, ⟨4, "3".toList⟩] }),
             (2, { add := [⟨7, "33".toList⟩, ⟨8, "2".toList⟩], rem := [⟨5, "32".toList⟩, ⟨6, "1".toList⟩] }),
             (3, { rem := [⟨7, "33".toList⟩, ⟨8, "2".toList⟩] })] }

/-- `x1` is what three `apply_formatting` calls on the plain text produce -/
example :
    ((({ s := "abc".toList, fmts := [] } : AStr).applyFormatting
        (freshSettings 1 ["1".toList, "31".toList, "4".toList, "3".toList]) (some 0) (some 1) true).applyFormatting
        (freshSettings 5 ["32".toList, "1".toList]) (some 1) (some 2) true).applyFormatting
        (freshSettings 7 ["33".toList, "2".toList]) (some 2) (some 3) true = x1 := by decide

theorem x1_wf : WF x1 where
  sorted := by unfold SortedKeys; decide
  bound := by decide
  noAddEnd := by decide
  ok := by decide
  nodup := by
    intro i
    rcases i with _ | _ | _ | _ | i
    · decide
    · decide
    · decide
    · decide
    · simp [active, activeFrom, x1, stepPoint, eraseId]
  closed := by decide
  coherent := by decide

example : x1.isFormattingParsable = true ∧ GroupSettings x1 ∧ NoEsc x1.s :=
  ⟨by decide, by unfold GroupSettings; decide, by unfold NoEsc; decide⟩

example : x1.str = "\x1b[1;31;4;3ma\x1b[0;32;1mb\x1b[33;2mc\x1b[m".toList := by decide +kernel
example : (x1.simplify 10).str = "\x1b[1;31;4;3ma\x1b[0;1;32mb\x1b[33;2mc\x1b[m".toList := by decide +kernel
example : ((x1.simplify 10).simplify 20).str = "\x1b[1;31;4;3ma\x1b[0;1;32mb\x1b[2;33mc\x1b[m".toList := by
  decide +kernel

theorem simplify_idem_bytes_partial_false :
    ¬ (∀ (x : AStr) (nid nid' : Nat), WF x → NoEsc x.s → GroupSettings x → x.isFormattingParsable = true →
        ((x.simplify nid).simplify nid').str = (x.simplify nid).str) := by
  intro h
  have := h x1 10 20 x1_wf (by unfold NoEsc; decide) (by unfold GroupSettings; decide) (by decide)
  revert this
  decide +kernel

/-! ### what remains true at the byte level

    Only the degenerate case is cheap: a value without formatting is a fixed point of `simplify()`
    and of rendering.  (For formatted values the display-level theorems of section 6 are the
    strongest statements that hold; see the two witnesses above.) -/

theorem simplify_plain (s : Str) (nid : Nat) (hne : NoEsc s) :
    ({ s := s, fmts := [] } : AStr).simplify nid = { s := s, fmts := [] } := by
  rw [simplify_eq]
  show (AStr.setAnsi s nid).1 = _
  rw [C02.parse_plain s nid hne]

theorem simplify_idem_bytes_partial (s : Str) (nid nid' : Nat) (hne : NoEsc s) :
    ((({ s := s, fmts := [] } : AStr).simplify nid).simplify nid').str =
      (({ s := s, fmts := [] } : AStr).simplify nid).str := by
  rw [simplify_plain s nid hne, simplify_plain s nid' hne]

example : NoEsc "plain [1m text".toList := by unfold NoEsc; decide

end C03

#print axioms C03.render_wellFormed
#print axioms C03.str_wellFormed
#print axioms C03.group_valid
#print axioms C03.roundtrip_text
#print axioms C03.roundtrip_display
#print axioms C03.roundtrip_style
#print axioms C03.roundtrip_wf
#print axioms C03.simplify_eq
#print axioms C03.dropInvalid_wf
#print axioms C03.dropInvalid_act
#print axioms C03.dropInvalid_valid
#print axioms C03.simplify_text
#print axioms C03.simplify_display
#print axioms C03.simplify_style
#print axioms C03.simplify_display_group
#print axioms C03.simplify_wf
#print axioms C03.setAnsi_parsable
#print axioms C03.simplify_parsable
#print axioms C03.simplify_valid
#print axioms C03.simplify_settings
#print axioms C03.simplify_group
#print axioms C03.simplify_idem_display_gen
#print axioms C03.simplify_idem_display
#print axioms C03.simplified_roundtrip_display
#print axioms C03.simplify_idem_bytes_false
#print axioms C03.simplified_fixed_point_false
#print axioms C03.not_simplify_idem_bytes
#print axioms C03.simplify_idem_bytes_partial_false
#print axioms C03.simplify_idem_bytes_partial
