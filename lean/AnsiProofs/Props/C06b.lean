import AnsiProofs.Lemmas.Display
/-
  Property C06 (second part) — the display-level reading of `apply_formatting`.

  "With topmost=False the displayed value of every effect that an existing setting on that
  character sets or clears is unchanged (the new settings show only where nothing conflicts); with
  topmost=True the new settings determine the displayed value of their effects on the first
  character of the range and on each following character of the range for as long as no other
  setting begins in between."

  Notation: `x` the value before, `x' = x.applyFormatting N start end_ top` the value after, `N` the
  freshly created setting objects (`FreshN x N`), `st`/`en` the slice-normalised bounds,
  `act y i` the settings character `i` of `y` reports (lowest precedence first),
  `eff l : Term.Group → Option Val` the style a conforming terminal shows after the settings `l`
  (`AnsiSpec/Styled.lean`), `touches l g` (`Lemmas/Display.lean`): some setting of `l` sets or
  clears the effect group `g` — decided by the first SGR parameter of its text; the reset `0`
  touches every group.

  All setting texts are well-formed SGR parameter groups (`GroupSettings x`, and the same for `N`).
  Everything is proved for all values, all `N`, all bounds and all groups.
-/
open Term DisplayL

namespace C06b

/-! ### topmost=False -/

/-- **topmost=False, 1**: on a character of the range, every effect that an existing setting of that
    character sets or clears is displayed exactly as before -/
theorem apply_bottom_display (x : AStr) (N : List Setting) (start end_ : Option Int)
    {st en : Nat} (hst : st = sliceIdx x.len start 0) (hen : en = sliceIdx x.len end_ x.len)
    (hw : WF x) (hf : FreshN x N) (hg : GroupSettings x) (hN : ∀ s ∈ N, isGroupTxt s.txt = true)
    (i : Nat) (h1 : st ≤ i) (h2 : i < en) (h3 : st < x.len) :
    ∀ g, touches (act x i) g →
      eff (act (x.applyFormatting N start end_ false) i) g = eff (act x i) g := by
  intro g ht
  rw [apply_inside_bottom x N start end_ hst hen hw hf i h1 h2 h3]
  exact eff_append_right (group_both hg hN i).1 ht

/-- **topmost=False, 2**: the new settings show where nothing conflicts — an effect no existing
    setting of the character touches is displayed as the new settings alone would display it -/
theorem apply_bottom_shows (x : AStr) (N : List Setting) (start end_ : Option Int)
    {st en : Nat} (hst : st = sliceIdx x.len start 0) (hen : en = sliceIdx x.len end_ x.len)
    (hw : WF x) (hf : FreshN x N) (hg : GroupSettings x) (hN : ∀ s ∈ N, isGroupTxt s.txt = true)
    (i : Nat) (h1 : st ≤ i) (h2 : i < en) (h3 : st < x.len) :
    ∀ g, ¬ touches (act x i) g →
      eff (act (x.applyFormatting N start end_ false) i) g = eff N g := by
  intro g ht
  rw [apply_inside_bottom x N start end_ hst hen hw hf i h1 h2 h3]
  exact eff_append_left (group_both hg hN i).1 ht

/-! ### topmost=True -/

/-- **topmost=True, 1**: on the first character of the range, and on each following one for as long
    as no other setting begins in between, the new settings determine the displayed value of every
    effect they set or clear -/
theorem apply_top_display (x : AStr) (N : List Setting) (start end_ : Option Int)
    {st en : Nat} (hst : st = sliceIdx x.len start 0) (hen : en = sliceIdx x.len end_ x.len)
    (hw : WF x) (hf : FreshN x N) (hg : GroupSettings x) (hN : ∀ s ∈ N, isGroupTxt s.txt = true)
    (i : Nat) (h1 : st ≤ i) (h2 : i < en) (h3 : st < x.len)
    (hquiet : ∀ k, st < k → k ≤ i → (x.fmts.getD k).add = []) :
    ∀ g, touches N g →
      eff (act (x.applyFormatting N start end_ true) i) g = eff N g := by
  intro g ht
  rw [apply_top_until x N start end_ hst hen hw hf i h1 h2 h3 hquiet]
  exact eff_append_right (group_both hg hN i).2 ht

/-- **topmost=True, 2**: … and the effects the new settings do not touch are displayed as before -/
theorem apply_top_keeps (x : AStr) (N : List Setting) (start end_ : Option Int)
    {st en : Nat} (hst : st = sliceIdx x.len start 0) (hen : en = sliceIdx x.len end_ x.len)
    (hw : WF x) (hf : FreshN x N) (hg : GroupSettings x) (hN : ∀ s ∈ N, isGroupTxt s.txt = true)
    (i : Nat) (h1 : st ≤ i) (h2 : i < en) (h3 : st < x.len)
    (hquiet : ∀ k, st < k → k ≤ i → (x.fmts.getD k).add = []) :
    ∀ g, ¬ touches N g →
      eff (act (x.applyFormatting N start end_ true) i) g = eff (act x i) g := by
  intro g ht
  rw [apply_top_until x N start end_ hst hen hw hf i h1 h2 h3 hquiet]
  exact eff_append_left (group_both hg hN i).2 ht

/-- the first character of the range is always "quiet" -/
theorem apply_top_first_display (x : AStr) (N : List Setting) (start end_ : Option Int)
    {st en : Nat} (hst : st = sliceIdx x.len start 0) (hen : en = sliceIdx x.len end_ x.len)
    (hw : WF x) (hf : FreshN x N) (hg : GroupSettings x) (hN : ∀ s ∈ N, isGroupTxt s.txt = true)
    (h1 : st < x.len) (h2 : st < en) :
    ∀ g, touches N g →
      eff (act (x.applyFormatting N start end_ true) st) g = eff N g :=
  apply_top_display x N start end_ hst hen hw hf hg hN st (Nat.le_refl _) h2 h1
    (fun k a b => absurd a (by omega))

/-! ### outside the range -/

/-- outside the range the displayed style of every character is unchanged -/
theorem apply_outside_display (x : AStr) (N : List Setting) (start end_ : Option Int) (top : Bool)
    {st en : Nat} (hst : st = sliceIdx x.len start 0) (hen : en = sliceIdx x.len end_ x.len)
    (hw : WF x) (hf : FreshN x N) (i : Nat) (hi : i < st ∨ en ≤ i) :
    eff (act (x.applyFormatting N start end_ top) i) = eff (act x i) := by
  rw [apply_outside x N start end_ top hst hen hw hf i hi]

/-! ### non-vacuity

  `abcd`, red (`31`, object 0) on `[0,4)`, blue (`34`, object 1) on `[1,4)`; the new objects bold
  (`1`) and green (`32`), applied on `[1,3)`. -/

def red : Setting := ⟨0, "31".toList⟩
def blue : Setting := ⟨1, "34".toList⟩
def bold : Setting := ⟨5, "1".toList⟩
def green : Setting := ⟨6, "32".toList⟩

def ex : AStr :=
  { s := "abcd".toList
    fmts := [(0, { add := [red] }), (1, { add := [blue] }), (4, { rem := [red, blue] })] }

def exN : List Setting := [bold, green]

theorem ex_wf : WF ex where
  sorted := by unfold SortedKeys; decide
  bound := by decide
  noAddEnd := by decide
  ok := by decide
  nodup := nodup_all_of_le (m := 4) (by decide) (by decide)
  closed := by decide
  coherent := by decide

theorem exN_fresh : FreshN ex exN := ⟨by decide, by decide⟩
theorem ex_group : GroupSettings ex := by unfold GroupSettings; decide
theorem exN_group : ∀ s ∈ exN, isGroupTxt s.txt = true := by decide

/-- the hypotheses of the theorems hold on the example: range `[1,3)`, character 1 and 2 -/
example : WF ex ∧ FreshN ex exN ∧ GroupSettings ex ∧ (∀ s ∈ exN, isGroupTxt s.txt = true) ∧
    sliceIdx ex.len (some 1) 0 = 1 ∧ sliceIdx ex.len (some 3) ex.len = 3 ∧ 1 < ex.len :=
  ⟨ex_wf, exN_fresh, ex_group, exN_group, by decide, by decide, by decide⟩
/-- no setting begins at index 2: character 2 is still "quiet" -/
example : ∀ k, 1 < k → k ≤ 2 → (ex.fmts.getD k).add = [] := by
  intro k a b
  have : k = 2 := by omega
  subst this; decide

/-- which groups are touched: the existing settings of character 1 touch the foreground colour and
    nothing else; the new ones touch boldness and the foreground colour -/
example : touches (act ex 1) .fg ∧ ¬ touches (act ex 1) .boldness ∧
    touches exN .fg ∧ touches exN .boldness ∧ ¬ touches exN .bg := by decide
/-- a reset setting (`0`) touches every group, a default-colour setting (`39`) the foreground -/
example : (∀ g ∈ Term.allGroups, touches [⟨9, "0".toList⟩] g) ∧ touches [⟨9, "39".toList⟩] .fg ∧
    ¬ touches [⟨9, "39".toList⟩] .bg ∧ touches [⟨9, "38;5;7".toList⟩] .fg := by decide

/-- topmost=False: blue stays displayed (the new green does not show), bold shows -/
example : act (ex.applyFormatting exN (some 1) (some 3) false) 1 = [bold, green, red, blue] ∧
    eff (act ex 1) .fg = some [34] ∧
    eff (act (ex.applyFormatting exN (some 1) (some 3) false) 1) .fg = some [34] ∧
    eff (act (ex.applyFormatting exN (some 1) (some 3) false) 1) .boldness = some [1] := by
  decide +kernel

/-- the same two facts as instances of the theorems -/
example : eff (act (ex.applyFormatting exN (some 1) (some 3) false) 1) .fg = eff (act ex 1) .fg :=
  apply_bottom_display ex exN (some 1) (some 3) (st := 1) (en := 3) (by decide) (by decide)
    ex_wf exN_fresh ex_group exN_group 1 (by decide) (by decide) (by decide) .fg (by decide)
example : eff (act (ex.applyFormatting exN (some 1) (some 3) false) 1) .boldness = eff exN .boldness :=
  apply_bottom_shows ex exN (some 1) (some 3) (st := 1) (en := 3) (by decide) (by decide)
    ex_wf exN_fresh ex_group exN_group 1 (by decide) (by decide) (by decide) .boldness (by decide)

/-- topmost=True: green is displayed on character 1 (and bold) -/
example : act (ex.applyFormatting exN (some 1) (some 3) true) 1 = [red, blue, bold, green] ∧
    eff (act (ex.applyFormatting exN (some 1) (some 3) true) 1) .fg = some [32] ∧
    eff (act (ex.applyFormatting exN (some 1) (some 3) true) 1) .boldness = some [1] ∧
    eff (act (ex.applyFormatting exN (some 1) (some 3) true) 2) .fg = some [32] := by
  decide +kernel

example : eff (act (ex.applyFormatting exN (some 1) (some 3) true) 1) .fg = eff exN .fg :=
  apply_top_first_display ex exN (some 1) (some 3) (st := 1) (en := 3) (by decide) (by decide)
    ex_wf exN_fresh ex_group exN_group (by decide) (by decide) .fg (by decide)
example : eff (act (ex.applyFormatting exN (some 1) (some 3) true) 2) .bg = eff (act ex 2) .bg :=
  apply_top_keeps ex exN (some 1) (some 3) (st := 1) (en := 3) (by decide) (by decide)
    ex_wf exN_fresh ex_group exN_group 2 (by decide) (by decide) (by decide)
    (by intro k a b; have : k = 2 := by omega
        subst this; decide) .bg (by decide)

/-- outside the range (character 3 and character 0) nothing changes on the display -/
example : eff (act (ex.applyFormatting exN (some 1) (some 3) true) 3) = eff (act ex 3) :=
  apply_outside_display ex exN (some 1) (some 3) true (st := 1) (en := 3) (by decide) (by decide)
    ex_wf exN_fresh 3 (by decide)

/-- the "as long as no other setting begins in between" clause is needed: with red on `[0,4)` and
    blue starting at 2, green applied with topmost=True on `[1,4)` is displayed on character 1 but
    not on character 2, where blue begins -/
def ex2 : AStr :=
  { s := "abcd".toList
    fmts := [(0, { add := [red] }), (2, { add := [blue] }), (4, { rem := [red, blue] })] }

example : eff (act (ex2.applyFormatting [green] (some 1) (some 4) true) 1) .fg = some [32] ∧
    eff (act (ex2.applyFormatting [green] (some 1) (some 4) true) 2) .fg = some [34] := by
  decide +kernel

end C06b

#print axioms C06b.apply_bottom_display
#print axioms C06b.apply_bottom_shows
#print axioms C06b.apply_top_display
#print axioms C06b.apply_top_keeps
#print axioms C06b.apply_top_first_display
#print axioms C06b.apply_outside_display
