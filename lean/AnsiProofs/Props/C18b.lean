import AnsiModel.Parse
import AnsiModel.Obj
import AnsiModel.Generated.Methods.ParsePrims
import AnsiModel.Generated.Methods.SettingsToDict
import AnsiModel.Generated.Methods.ParseGraphicSequence

/-
  Property C18, part b — the *generated* (statement-by-statement translated, `harness/pyparse.py`)
  `settings_to_dict` and `parse_graphic_sequence` of ansi_parsing.py compute exactly what the hand-written
  model says (`settingsToDict`, `pgsStr`, `pgsList` of `AnsiModel/Parse.lean`), and none of the places where
  the Python can raise does: `items[idx]`, `items[idx] = …` (IndexError), `fn.setup_seq[0]` (IndexError),
  `AnsiSetting(…)` on an empty text (ValueError), `sequence.split(ansi_sep)` (ValueError on an empty
  separator), `del settings_dict[effect]` (KeyError).

  `parse_graphic_sequence` is dynamically typed on `sequence`: the translator emits one function per member of
  the annotation `Union[str, List[Union[int, str]]]` (`Gen.parseGraphicSequenceStr`, `…List`), the test
  `isinstance(sequence, str)` being decided by the type; items that are `int` or `str` at run time are the
  model's `Code`.

  The file is split in two:

  * `namespace C18b.L` — everything that does not mention the generated functions:
    - `getIdx_mid`, `setIdx_mid`, `slice_mid`: `l[i]`, `l[i] = x`, `l[i:]` at the position under the cursor;
    - `settingOfCodes_ints`, `settingOfStr_ne`, `settingOfInt_reset`: the constructor `AnsiSetting(…)` does not
      raise on a non-empty list of ints / a non-empty string / `AnsiParam.RESET.value`; `del_guarded`:
      `if k in d: del d[k]` is `erase`; `split_sep`: the separator of the table is one character;
    - first loop (`for idx, value in enumerate(items): try: items[idx] = int(value) …`): `prep` (what happens
      to one item), `PrepSpec step` (what a round has to do, whatever it looks like), `fold_prep` (rounds that
      meet it map `prep` over the list — the loop runs over the indices and reads the *current* list);
    - loop over `_AnsiControlFn`: `fnRound`, `FnSpec`, `fold_fn` (= the model's `pgsFnLoop`);
    - main loop: `cstep` (one round as the code does it: `left_in_set` is overwritten before the `continue`,
      which the model does not do), `cloop`, `RoundSpec items addErr step`, `fold_loop`; `Sim` (two states that
      differ at most in a `left_in_set` nobody reads again), `step_sim`, `cloop_sim`, `finish_cloop`:
      `cloop` and the model's `pgsLoop` end in the same `current_set` and `output`;
    - `settings_to_dict`: `dictRound`, `DictSpec`, `fold_dict`.
  * `namespace C18b` — the theorems over `Gen.*`: `unfold`, each loop rewritten by its `fold_*` lemma with the
    spec of the round discharged for the generated lambda by `intro …; simp …`.
-/

-- some simp arguments are there for other shapes the source may take (`1 == len(x)` for `len(x) == 1`, …)
set_option linter.unusedSimpArgs false

namespace C18b
namespace L

/-! ### primitives -/

theorem bindOk {α β : Type} (a : α) (f : α → Except Exc β) : (Except.ok a : Except Exc α).bind f = f a := rfl

theorem bindRet {α : Type} (x : Except Exc α) : x.bind (fun a => .ok a) = x := by cases x <;> rfl

theorem getIdx_mid {α : Type} (A : List α) (c : α) (B : List α) :
    Py.getIdx (A ++ c :: B) (A.length : Int) = .ok c := by
  unfold Py.getIdx
  have h1 : ¬ ((A.length : Int) < 0) := by omega
  simp [h1]

theorem setIdx_mid {α : Type} (A : List α) (c : α) (B : List α) (x : α) :
    Py.setIdx (A ++ c :: B) (A.length : Int) x = .ok (A ++ x :: B) := by
  unfold Py.setIdx
  have h1 : ¬ ((A.length : Int) < 0) := by omega
  simp [h1]
  omega

theorem slice_mid {α : Type} (A B : List α) :
    Py.listSlice (A ++ B) (some (A.length : Int)) none = B := by
  unfold Py.listSlice Py.listIdx
  have h1 : ¬ ((A.length : Int) < 0) := by omega
  have h2 : List.take (A ++ B).length (A ++ B) = A ++ B := List.take_length
  simp only [h1, if_false, Int.toNat_natCast, h2]
  rw [Nat.min_eq_left (by simp)]
  exact List.drop_left

/-- other ways of writing `not l` / `l` as a condition -/
theorem len_beq_zero {α : Type} (l : List α) : ((l.length : Int) == 0) = l.isEmpty := by
  cases l with
  | nil => rfl
  | cons a t =>
    have h : ¬ (((a :: t).length : Int) = 0) := by simp only [List.length_cons]; omega
    simp only [List.isEmpty_cons, beq_eq_false_iff_ne, ne_eq, h, not_false_eq_true]

theorem len_gt_zero {α : Type} (l : List α) : decide ((l.length : Int) > 0) = !l.isEmpty := by
  cases l with
  | nil => rfl
  | cons a t =>
    have h : ((a :: t).length : Int) > 0 := by simp only [List.length_cons]; omega
    simp only [h, decide_true, List.isEmpty_cons, Bool.not_false]

theorem rangeAsc_len (n : Nat) : Py.rangeAsc (n : Int) = (List.range' 0 n).map Int.ofNat := by
  unfold Py.rangeAsc
  simp [List.range_eq_range']

/-! ### the texts of new settings are not empty -/

theorem natDigitsAux_ne_nil : ∀ (fuel n : Nat) (acc : Str), acc ≠ [] → Py.natDigitsAux fuel n acc ≠ []
  | 0, _, _, h => h
  | fuel + 1, n, acc, _ => by
    unfold Py.natDigitsAux
    simp only []
    split
    · exact List.cons_ne_nil _ _
    · exact natDigitsAux_ne_nil fuel _ _ (List.cons_ne_nil _ _)

theorem natStr_ne_nil (n : Nat) : Py.natStr n ≠ [] := by
  unfold Py.natStr Py.natDigitsAux
  simp only []
  split
  · exact List.cons_ne_nil _ _
  · exact natDigitsAux_ne_nil _ _ _ (List.cons_ne_nil _ _)

theorem intStr_ne_nil (i : Int) : Py.intStr i ≠ [] := by
  unfold Py.intStr
  split
  · exact List.cons_ne_nil _ _
  · exact natStr_ne_nil _

theorem joinSep_ne_nil (sep a : Str) (l : List Str) (ha : a ≠ []) : joinSep sep (a :: l) ≠ [] := by
  cases l with
  | nil => exact ha
  | cons b l => simp [joinSep, ha]

/-- the separator of the table is the model's -/
theorem ansiSep_semi : Gen.ansiSep = semi := by decide

/-- `AnsiSetting(<non-empty list of ints>)` is the model's `joinInts`; no ValueError -/
theorem settingOfCodes_ints (l : List Int) (h : l ≠ []) :
    PyParse.settingOfCodes (l.map Code.int) = .ok (joinInts l) := by
  unfold PyParse.settingOfCodes PyParse.mkSetting joinInts
  rw [ansiSep_semi, List.map_map]
  have hm : (Code.toStr ∘ Code.int) = Py.intStr := rfl
  rw [hm]
  cases l with
  | nil => exact absurd rfl h
  | cons a l =>
    have := joinSep_ne_nil semi (Py.intStr a) (l.map Py.intStr) (intStr_ne_nil a)
    simp only [List.map_cons]
    cases hj : joinSep semi (Py.intStr a :: l.map Py.intStr) with
    | nil => exact absurd hj this
    | cons c t => rfl

theorem settingOfCodes_snoc (l : List Int) (v : Int) :
    PyParse.settingOfCodes (l.map Code.int ++ [Code.int v]) = .ok (joinInts (l ++ [v])) := by
  have := settingOfCodes_ints (l ++ [v]) (by simp)
  simpa using this

theorem settingOfStr_ne (s : Str) (h : s ≠ []) : PyParse.settingOfStr s = .ok s := by
  unfold PyParse.settingOfStr PyParse.mkSetting
  cases s with
  | nil => exact absurd rfl h
  | cons c t => rfl

/-- `AnsiSetting(AnsiParam.RESET.value)` -/
theorem settingOfInt_reset : PyParse.settingOfInt (Gen.paramReset : Int) = .ok "0".toList := by decide +kernel

/-! ### first loop: `items[idx] = int(value)` over `enumerate(items)` -/

/-- what the first loop does to one item -/
def prep (c : Code) : Code :=
  match PyParse.int c with
  | some v => .int v
  | none => if c = .str [] then .int (Gen.paramReset : Int) else c

/-- what one round has to do, whatever it looks like: at index `|A|` of `A ++ c :: B`, store `prep c` there -/
def PrepSpec (step : List Code → Int → Except Exc (List Code)) : Prop :=
  ∀ A c B, step (A ++ c :: B) (A.length : Int) = .ok (A ++ prep c :: B)

theorem fold_prep_aux {step : List Code → Int → Except Exc (List Code)} (h : PrepSpec step) :
    ∀ (B A : List Code), List.foldlM step (A ++ B) ((List.range' A.length B.length).map Int.ofNat) = .ok (A ++ B.map prep) := by
  intro B
  induction B with
  | nil => intro A; simp; rfl
  | cons c B ih =>
    intro A
    rw [List.length_cons, List.range'_succ, List.map_cons, List.foldlM_cons]
    show (step (A ++ c :: B) (A.length : Int)) >>= _ = _
    rw [h A c B]
    show List.foldlM step (A ++ prep c :: B) _ = _
    have := ih (A ++ [prep c])
    simp only [List.length_append, List.length_cons, List.length_nil, List.append_assoc, List.cons_append, List.nil_append] at this
    rw [this]
    simp

/-- THE FIRST LOOP: rounds that meet `PrepSpec` map `prep` over the list -/
theorem fold_prep {step : List Code → Int → Except Exc (List Code)} (h : PrepSpec step) (l : List Code) :
    List.foldlM step l (Py.rangeAsc (l.length : Int)) = .ok (l.map prep) := by
  rw [rangeAsc_len]
  exact fold_prep_aux h l []

theorem prep_list (l : List Code) : l.map prep = pgsItemsOfList l := by
  unfold pgsItemsOfList
  apply List.map_congr_left
  intro c _
  cases c with
  | int i => rfl
  | str s =>
    unfold prep PyParse.int
    simp only []
    cases Py.int s with
    | some v => rfl
    | none =>
      cases s with
      | nil => simp; decide
      | cons a t => simp

theorem prep_str (l : List Str) : (l.map (fun it => Code.str (Py.strip it))).map prep =
    l.map (fun it =>
      let it := Py.strip it
      match Py.int it with
      | some i => Code.int i
      | none => if it.isEmpty then Code.int 0 else Code.str it) := by
  rw [List.map_map]
  apply List.map_congr_left
  intro s _
  simp only [Function.comp]
  unfold prep PyParse.int
  simp only []
  cases Py.int (Py.strip s) with
  | some v => rfl
  | none =>
    cases Py.strip s with
    | nil => simp; decide
    | cons a t => simp

theorem splitOnChar_ne_nil (c : Char) : ∀ s : Str, Py.splitOnChar c s ≠ []
  | [] => by simp [Py.splitOnChar]
  | a :: s => by
    unfold Py.splitOnChar
    split
    · simp
    · split <;> simp

/-- `sequence.split(ansi_sep)` is the model's split at `';'`: the separator of the table is one character -/
theorem split_sep (s : Str) : PyParse.split s Gen.ansiSep = .ok (Py.splitOnChar ';' s) := by
  have h : Gen.ansiSep = [';'] := by decide
  rw [h]; rfl

theorem items_of_str (s : Str) :
    pgsItemsOfList ((Py.splitOnChar ';' s).map (fun it => Code.str (Py.strip it))) = pgsItemsOfStr s := by
  rw [← prep_list, prep_str]; rfl

/-- after the first loop no item is the empty string -/
theorem prep_ne (c : Code) : prep c ≠ .str [] := by
  unfold prep
  split
  · simp
  · split
    · simp
    · assumption

/-! ### the loop over `_AnsiControlFn` -/

/-- the state of the translated loop: `(fn_set, fn_found, left_in_set)` -/
abbrev F := Bool × Bool × Int

/-- one round of `for fn in _AnsiControlFn` on a row of the table -/
def fnRound (tail : List Code) (value : Int) (st : F) (row : List Nat × Nat) : F :=
  if SettingTxt.startsWithFn row.1 tail then (true, st.2.1, ((row.1.length + row.2 : Nat) : Int))
  else if row.1.head?.map (fun m => (m : Int)) == some value then (st.1, true, st.2.2) else st

def FnSpec (tail : List Code) (value : Int) (step : F → List Nat × Nat → Except Exc F) : Prop :=
  ∀ st row, step st row = .ok (fnRound tail value st row)

/-- THE LOOP OVER THE FUNCTIONS: rounds that meet `FnSpec` compute the model's `pgsFnLoop` -/
theorem fold_fn {tail : List Code} {value : Int} {step : F → List Nat × Nat → Except Exc F}
    (h : FnSpec tail value step) :
    ∀ (rows : List (List Nat × Nat)) (l : Nat) (s f : Bool),
      List.foldlM step (s, f, (l : Int)) rows =
        .ok ((pgsFnLoop tail value rows (l, s, f)).2.1, (pgsFnLoop tail value rows (l, s, f)).2.2,
             ((pgsFnLoop tail value rows (l, s, f)).1 : Int)) := by
  intro rows
  induction rows with
  | nil => intro l s f; rfl
  | cons row rows ih =>
    intro l s f
    obtain ⟨setup, nargs⟩ := row
    rw [List.foldlM_cons, h]
    show List.foldlM step (fnRound tail value _ _) rows = _
    unfold fnRound pgsFnLoop
    simp only []
    split
    · exact ih _ _ _
    · split
      · exact ih _ _ _
      · exact ih _ _ _

/-- the loop as `parse_graphic_sequence` starts it: `left_in_set = 1`, `fn_set = fn_found = False` -/
theorem fold_fn1 {tail : List Code} {value : Int} {step : F → List Nat × Nat → Except Exc F}
    (h : FnSpec tail value step) (rows : List (List Nat × Nat)) :
    List.foldlM step (false, false, (1 : Int)) rows =
      .ok ((pgsFnLoop tail value rows (1, false, false)).2.1, (pgsFnLoop tail value rows (1, false, false)).2.2,
           ((pgsFnLoop tail value rows (1, false, false)).1 : Int)) := fold_fn h rows 1 false false

theorem natCast_beq_one (n : Nat) : ((n : Int) == (1 : Int)) = (n == 1) := by
  rw [Bool.eq_iff_iff]; simp only [beq_iff_eq]; omega

theorem one_beq_natCast (n : Nat) : ((1 : Int) == (n : Int)) = (n == 1) := by
  rw [Bool.eq_iff_iff]; simp only [beq_iff_eq]; omega

theorem len_codes (sc : List Int) (v : Int) :
    ((List.map Code.int sc ++ [Code.int v]).length : Int) = (((sc ++ [v]).length : Nat) : Int) := by simp

theorem getIdx_head (m : Nat) (ms : List Nat) : Py.getIdx ((m :: ms).map Int.ofNat) (0 : Int) = .ok (m : Int) := by
  simp [Py.getIdx]

/-! ### the main loop -/

/-- the state of the translated loop: `(left_in_set, current_set, output)` -/
abbrev G := Int × List Code × List Str

/-- a state of the model as a state of the code: `current_set` holds ints only -/
def enc (st : PgsSt) : G := (st.left, st.cur.map Code.int, st.out)

/-- the end of a round: `current_set.append(value)`, `left_in_set -= 1`, the set closed when nothing is left -/
def fin (addErr : Bool) (left : Int) (cur : List Int) (out : List Str) (value : Int) : PgsSt :=
  if left - 1 ≤ 0 then
    if (addErr || (cur ++ [value]).length == 1 || SettingTxt.parsable (joinInts (cur ++ [value]))) = true then
      { left := left - 1, cur := [], out := out ++ [joinInts (cur ++ [value])] }
    else { left := left - 1, cur := [], out := out }
  else { left := left - 1, cur := cur ++ [value], out := out }

theorem enc_mk (l : Int) (c : List Int) (o : List Str) :
    enc { left := l, cur := c, out := o } = (l, c.map Code.int, o) := rfl

/-- one round of the main loop as the code does it (`left_in_set` is assigned before the `continue`) -/
def cstep (addErr : Bool) (it : Code) (rest : List Code) (st : PgsSt) : PgsSt :=
  match it with
  | .int value =>
    if st.cur.isEmpty then
      if (pgsFnLoop (it :: rest) value Gen.ctrlFns (1, false, false)).2.2 &&
          !(pgsFnLoop (it :: rest) value Gen.ctrlFns (1, false, false)).2.1 && !addErr then
        { st with left := ((pgsFnLoop (it :: rest) value Gen.ctrlFns (1, false, false)).1 : Int) }
      else fin addErr ((pgsFnLoop (it :: rest) value Gen.ctrlFns (1, false, false)).1 : Int) st.cur st.out value
    else fin addErr st.left st.cur st.out value
  | .str s => if addErr then { st with out := st.out ++ [s] } else st

def cloop (addErr : Bool) : List Code → PgsSt → PgsSt
  | [], st => st
  | it :: rest, st => cloop addErr rest (cstep addErr it rest st)

/-- what one round of the main loop has to do, whatever it looks like: at index `|A|` of the items
    `A ++ it :: rest` (none of which is the empty string), `cstep` -/
def RoundSpec (items : List Code) (addErr : Bool) (step : G → Int → Except Exc G) : Prop :=
  ∀ A it rest, items = A ++ it :: rest → it ≠ .str [] → ∀ st : PgsSt,
    step (enc st) (A.length : Int) = .ok (enc (cstep addErr it rest st))

theorem fold_loop_aux {items : List Code} {addErr : Bool} {step : G → Int → Except Exc G}
    (h : RoundSpec items addErr step) (hne : ∀ c ∈ items, c ≠ .str []) :
    ∀ (B A : List Code), items = A ++ B → ∀ st : PgsSt,
      List.foldlM step (enc st) ((List.range' A.length B.length).map Int.ofNat) = .ok (enc (cloop addErr B st)) := by
  intro B
  induction B with
  | nil => intro A _ st; rfl
  | cons c B ih =>
    intro A hi st
    rw [List.length_cons, List.range'_succ, List.map_cons, List.foldlM_cons]
    show (step (enc st) (A.length : Int)) >>= _ = _
    rw [h A c B hi (hne c (by simp [hi]))]
    show List.foldlM step (enc (cstep addErr c B st)) _ = _
    have := ih (A ++ [c]) (by simp [hi]) (cstep addErr c B st)
    simp only [List.length_append, List.length_cons, List.length_nil] at this
    rw [this]
    rfl

/-- THE MAIN LOOP: rounds that meet `RoundSpec` compute `cloop` -/
theorem fold_loop {items : List Code} {addErr : Bool} {step : G → Int → Except Exc G}
    (h : RoundSpec items addErr step) (hne : ∀ c ∈ items, c ≠ .str []) (st : PgsSt) :
    List.foldlM step (enc st) (Py.rangeAsc (items.length : Int)) = .ok (enc (cloop addErr items st)) := by
  rw [rangeAsc_len]
  exact fold_loop_aux h hne items [] rfl st

/-- two states the rest of the run cannot tell apart: `left_in_set` is read only while a set is open -/
def Sim (a b : PgsSt) : Prop := a.cur = b.cur ∧ a.out = b.out ∧ (a.cur ≠ [] → a.left = b.left)

theorem fin_eq (addErr : Bool) (left : Int) (cur : List Int) (out : List Str) (value : Int) :
    fin addErr left cur out value =
      (if left - 1 ≤ 0 then
        { left := left - 1, cur := [],
          out := if (addErr || (cur ++ [value]).length == 1 || SettingTxt.parsable (joinInts (cur ++ [value]))) = true
                 then out ++ [joinInts (cur ++ [value])] else out }
       else { left := left - 1, cur := cur ++ [value], out := out } : PgsSt) := by
  unfold fin
  split
  · split <;> rfl
  · rfl

theorem sim_refl (a : PgsSt) : Sim a a := ⟨rfl, rfl, fun _ => rfl⟩

theorem step_sim (addErr : Bool) (it : Code) (rest : List Code) (a b : PgsSt) (h : Sim a b) :
    ∃ b', pgsLoop addErr (it :: rest) b = pgsLoop addErr rest b' ∧ Sim (cstep addErr it rest a) b' := by
  obtain ⟨al, ac, ao⟩ := a
  obtain ⟨bl, bc, bo⟩ := b
  obtain ⟨h1, h2, h3⟩ := h
  simp only at h1 h2 h3
  subst h1 h2
  cases it with
  | str s =>
    cases addErr with
    | true =>
      refine ⟨{ left := bl, cur := ac, out := ao ++ [s] }, ?_, ⟨rfl, rfl, h3⟩⟩
      rw [pgsLoop]; rfl
    | false =>
      refine ⟨{ left := bl, cur := ac, out := ao }, ?_, ⟨rfl, rfl, h3⟩⟩
      rw [pgsLoop]; rfl
  | int value =>
    rw [pgsLoop]
    unfold cstep
    simp only []
    cases ac with
    | nil =>
      simp only [List.isEmpty_nil, if_true]
      rcases hr : pgsFnLoop (Code.int value :: rest) value Gen.ctrlFns (1, false, false) with ⟨l, s, f⟩
      simp only []
      by_cases hc : (f && !s && !addErr) = true
      · have hc' : (f = true ∧ (!s) = true ∧ (!addErr) = true) := by
          simpa [Bool.and_eq_true, and_assoc] using hc
        rw [if_pos hc, if_pos hc']
        exact ⟨_, rfl, ⟨rfl, rfl, fun h => absurd rfl h⟩⟩
      · have hc' : ¬ (f = true ∧ (!s) = true ∧ (!addErr) = true) := by
          simpa [Bool.and_eq_true, and_assoc] using hc
        rw [if_neg hc, if_neg hc']
        simp only []
        rw [fin_eq]
        split
        · exact ⟨_, rfl, sim_refl _⟩
        · exact ⟨_, rfl, sim_refl _⟩
    | cons c0 ac =>
      have hl : al = bl := h3 (by simp)
      subst hl
      simp only [List.isEmpty_cons, Bool.false_eq_true, if_false]
      rw [fin_eq]
      split
      · exact ⟨_, rfl, sim_refl _⟩
      · exact ⟨_, rfl, sim_refl _⟩

theorem cloop_sim (addErr : Bool) : ∀ (items : List Code) (a b : PgsSt), Sim a b →
    Sim (cloop addErr items a) (pgsLoop addErr items b) := by
  intro items
  induction items with
  | nil => intro a b h; exact h
  | cons it rest ih =>
    intro a b h
    obtain ⟨b', hb, hs⟩ := step_sim addErr it rest a b h
    rw [hb]
    exact ih _ _ hs

/-- what follows the main loop: the dangling set -/
def finish (addErr : Bool) (st : PgsSt) : List Str :=
  if (!st.cur.isEmpty && addErr) = true then st.out ++ [joinInts st.cur] else st.out

theorem finish_cloop (items : List Code) (addErr : Bool) :
    finish addErr (cloop addErr items {}) = pgsItems items addErr := by
  obtain ⟨h1, h2, _⟩ := cloop_sim addErr items {} {} (sim_refl _)
  unfold finish pgsItems
  simp only [h1, h2, Bool.and_eq_true, Bool.not_eq_eq_eq_not, Bool.not_true]

/-! ### `settings_to_dict` -/

/-- one round of the loop of `settings_to_dict`, as the model has it -/
def dictRound (d : PyDict) (s : Setting) : PyDict :=
  match SettingTxt.initialParam s.txt with
  | none => d
  | some (eff, fn) =>
    if fn == Gen.fnApply then d.insert eff s
    else if fn == Gen.fnClear then d.erase eff
    else []

theorem settingsToDict_eq (ss : List Setting) (old : PyDict) : settingsToDict ss old = ss.foldl dictRound old := rfl

def DictSpec (step : PyDict → Setting → Except Exc PyDict) : Prop := ∀ d s, step d s = .ok (dictRound d s)

theorem fold_dict {step : PyDict → Setting → Except Exc PyDict} (h : DictSpec step) :
    ∀ (ss : List Setting) (d : PyDict), List.foldlM step d ss = .ok (ss.foldl dictRound d) := by
  intro ss
  induction ss with
  | nil => intro d; rfl
  | cons s ss ih =>
    intro d
    rw [List.foldlM_cons, h]
    exact ih _

theorem erase_absent (d : PyDict) (k : Nat) (h : d.contains k = false) : d.erase k = d := by
  unfold PyDict.erase
  unfold PyDict.contains at h
  apply List.filter_eq_self.mpr
  intro a ha
  have := List.any_eq_false.mp h a ha
  simpa using this

theorem dictDel_present (d : PyDict) (k : Nat) (h : d.contains k = true) : PyParse.dictDel d k = .ok (d.erase k) := by
  unfold PyParse.dictDel; rw [if_pos h]

/-- `if k in d: del d[k]` is the model's `erase`; no KeyError -/
theorem del_guarded (d : PyDict) (k : Nat) :
    (if PyDict.contains d k = true then PyParse.dictDel d k else .ok d) = .ok (d.erase k) := by
  unfold PyParse.dictDel
  cases h : PyDict.contains d k with
  | true => simp
  | false => simp [erase_absent d k h]

end L
open L

/-- both functions were translated, `parse_graphic_sequence` for both types of its argument -/
theorem translated : (Gen.settingsToDictCodeOk && Gen.parseGraphicSequenceStrOk && Gen.parseGraphicSequenceListOk) = true := by
  decide

/-- THE GENERATED `settings_to_dict` IS THE MODEL'S `settingsToDict`; `del settings_dict[effect]` raises no KeyError -/
theorem settings_to_dict_is_code (ss : List Setting) (old : PyDict) :
    Gen.settingsToDictCode ss old = .ok (settingsToDict ss old) := by
  unfold Gen.settingsToDictCode
  simp only []
  rw [fold_dict ?spec, settingsToDict_eq]
  · rfl
  · intro d s
    simp only []
    unfold dictRound
    cases SettingTxt.initialParam s.txt with
    | none => rfl
    | some p =>
      obtain ⟨eff, fn⟩ := p
      simp only [bindRet]
      by_cases h1 : (fn == Gen.fnApply) = true
      · simp only [h1, ↓reduceIte]
      · by_cases h2 : (fn == Gen.fnClear) = true
        · simp only [h1, h2, Bool.false_eq_true, ↓reduceIte]
          cases hcon : PyDict.contains d eff
          · simp [erase_absent d eff hcon]
          · simp [dictDel_present d eff hcon]
        · simp only [h1, h2, Bool.false_eq_true, ↓reduceIte]

theorem pgs_list_is_code (l : List Code) (e : Bool) :
    Gen.parseGraphicSequenceList l e = .ok (pgsList l e) := by
  unfold Gen.parseGraphicSequenceList pgsList
  simp only [len_beq_zero, len_gt_zero]
  cases l with
  | nil => simp only [List.isEmpty_nil, settingOfInt_reset, bindOk]; rfl
  | cons c0 l0 =>
    simp only [List.isEmpty_cons, Bool.not_false, Bool.not_true, Bool.false_eq_true, ↓reduceIte]
    generalize c0 :: l0 = l
    rw [fold_prep ?spec1]
    case spec1 =>
      intro A c B
      simp only [getIdx_mid, setIdx_mid, bindOk]
      unfold prep
      cases PyParse.int c with
      | some v => rfl
      | none =>
        by_cases hc : c = Code.str []
        · subst hc; simp
        · have hc' : ¬ (Code.str [] = c) := fun h => hc h.symm
          simp [hc, hc']
    simp only [bindOk]
    have hne : ∀ c ∈ l.map prep, c ≠ Code.str [] := by
      intro c hc
      obtain ⟨c', _, rfl⟩ := List.mem_map.mp hc
      exact prep_ne c'
    rw [show ((0 : Int), ([] : List Code), ([] : List Str)) = enc {} from rfl, fold_loop (addErr := e) ?spec2 hne]
    case spec2 =>
      intro A it rest hi hit st
      obtain ⟨sl, sc, so⟩ := st
      simp only [hi, enc_mk, getIdx_mid, slice_mid, bindOk]
      cases it with
      | str s =>
        have hs : s ≠ [] := fun h => hit (by rw [h])
        cases e <;> simp [cstep, settingOfStr_ne s hs, bindOk, enc_mk]
      | int v =>
        simp only []
        rw [fold_fn1 (tail := Code.int v :: rest) (value := v) ?spec3]
        case spec3 =>
          intro st row
          obtain ⟨setup, nargs⟩ := row
          unfold fnRound
          cases setup with
          | nil => simp [SettingTxt.startsWithFn]
          | cons m ms =>
            simp only [getIdx_head, bindOk]
            by_cases hs : SettingTxt.startsWithFn (m :: ms) (Code.int v :: rest) = true
            · simp only [hs, if_true]
            · simp only [hs]
              by_cases hv : v = (m : Int)
              · simp [hv]
              · have hv' : ¬ ((m : Int) = v) := fun h => hv h.symm
                simp [hv, hv']
        simp only [bindOk, ite_self, settingOfCodes_snoc, len_codes, natCast_beq_one, one_beq_natCast, cstep, fin, apply_ite enc, enc_mk,
          apply_ite Except.ok]
        cases sc <;> simp <;> (by_cases hl : sl - 1 ≤ 0 <;> simp [hl])
    simp only [bindOk]
    rw [← prep_list, ← finish_cloop]
    generalize cloop e (List.map prep l) {} = X
    obtain ⟨xl, xc, xo⟩ := X
    simp only [enc_mk, finish]
    cases xc with
    | nil => simp
    | cons a t =>
      have hs := settingOfCodes_ints (a :: t) (List.cons_ne_nil _ _)
      cases e <;> simp only [hs, bindOk] <;> simp

/-- THE GENERATED `parse_graphic_sequence` ON A `str` IS THE MODEL'S `pgsStr`.  Both generated functions
    come from the same statements; after `items = [item.strip() for item in sequence.split(ansi_sep)]`
    the one for a `str` is the one for the list of the stripped pieces (never empty) -/
theorem pgs_str_is_code (s : Str) (e : Bool) :
    Gen.parseGraphicSequenceStr s e = .ok (pgsStr s e) := by
  unfold Gen.parseGraphicSequenceStr pgsStr
  simp only [len_beq_zero, len_gt_zero]
  cases s with
  | nil => simp only [List.isEmpty_nil, settingOfInt_reset, bindOk]; rfl
  | cons c0 s0 =>
    simp only [List.isEmpty_cons, Bool.not_false, Bool.not_true, Bool.false_eq_true, ↓reduceIte, split_sep, bindOk]
    generalize c0 :: s0 = s
    have hl := pgs_list_is_code ((Py.splitOnChar ';' s).map (fun it => Code.str (Py.strip it))) e
    unfold Gen.parseGraphicSequenceList pgsList at hl
    simp only [len_beq_zero, len_gt_zero] at hl
    have hne : ((Py.splitOnChar ';' s).map (fun it => Code.str (Py.strip it))).isEmpty = false := by
      have := splitOnChar_ne_nil ';' s
      cases h : Py.splitOnChar ';' s with
      | nil => exact absurd h this
      | cons a t => rfl
    simp only [hne, Bool.not_false, Bool.not_true, Bool.false_eq_true, ↓reduceIte, items_of_str] at hl
    exact hl

/-- no outcome other than a value: no Python exception, no `KeyError`, nothing outside the model -/
theorem settings_to_dict_never_raises (ss : List Setting) (old : PyDict) (err : Exc) :
    Gen.settingsToDictCode ss old ≠ .error err := by
  rw [settings_to_dict_is_code]; intro h; cases h

theorem pgs_str_never_raises (s : Str) (e : Bool) (err : Exc) : Gen.parseGraphicSequenceStr s e ≠ .error err := by
  rw [pgs_str_is_code]; intro h; cases h

theorem pgs_list_never_raises (l : List Code) (e : Bool) (err : Exc) : Gen.parseGraphicSequenceList l e ≠ .error err := by
  rw [pgs_list_is_code]; intro h; cases h

/-! ## Concrete values -/

example : Gen.parseGraphicSequenceStr "1;31".toList false = .ok ["1".toList, "31".toList] := by decide +kernel
example : Gen.parseGraphicSequenceStr "1;31".toList true = .ok ["1".toList, "31".toList] := by decide +kernel
/-- a complete 256-colour function with an argument out of range is dropped, or kept as erroneous -/
example : Gen.parseGraphicSequenceStr "38;5;300".toList false = .ok [] := by decide +kernel
example : Gen.parseGraphicSequenceStr "38;5;300".toList true = .ok ["38;5;300".toList] := by decide +kernel
/-- an RGB function cut short: a dangling set -/
example : Gen.parseGraphicSequenceStr "38;2;1".toList false = .ok [] := by decide +kernel
example : Gen.parseGraphicSequenceStr "38;2;1".toList true = .ok ["38;2;1".toList] := by decide +kernel
/-- the empty sequence is RESET -/
example : Gen.parseGraphicSequenceStr [] false = .ok ["0".toList] := by decide +kernel
example : Gen.parseGraphicSequenceStr [] true = .ok ["0".toList] := by decide +kernel
example : Gen.parseGraphicSequenceList [] false = .ok ["0".toList] := by decide +kernel
/-- empty parameters are RESET; text that is no number is kept only as erroneous -/
example : Gen.parseGraphicSequenceStr "4;;x; +1_0".toList false = .ok ["4".toList, "0".toList, "10".toList] := by decide +kernel
example : Gen.parseGraphicSequenceStr "4;;x; +1_0".toList true = .ok ["4".toList, "0".toList, "x".toList, "10".toList] := by
  decide +kernel
/-- a function code without a valid setup sequence (the `continue`) -/
example : Gen.parseGraphicSequenceStr "38;7;1".toList false = .ok ["7".toList, "1".toList] := by decide +kernel
example : Gen.parseGraphicSequenceStr "38;7;1".toList true = .ok ["38".toList, "7".toList, "1".toList] := by decide +kernel
/-- a list mixing ints and strings -/
example : Gen.parseGraphicSequenceList [.str "38".toList, .int 5, .str " 7 ".toList, .int 0, .str [], .str "z".toList] true =
    .ok ["38;5;7".toList, "0".toList, "0".toList, "z".toList] := by decide +kernel
example : Gen.parseGraphicSequenceList [.str "38".toList, .int 5, .str " 7 ".toList, .int 0, .str [], .str "z".toList] false =
    .ok (pgsList [.str "38".toList, .int 5, .str " 7 ".toList, .int 0, .str [], .str "z".toList] false) := by decide +kernel

/-- bold, red, then "normal intensity" (clears bold), on top of an italic entry -/
example : Gen.settingsToDictCode [⟨1, "1".toList⟩, ⟨2, "31".toList⟩, ⟨3, "22".toList⟩] [(3, ⟨0, "3".toList⟩)] =
    .ok [(3, ⟨0, "3".toList⟩), (13, ⟨2, "31".toList⟩)] := by decide +kernel
/-- a clear code for an effect that is not in the dictionary: the guard, no KeyError -/
example : Gen.settingsToDictCode [⟨3, "22".toList⟩] [] = .ok [] := by decide +kernel
/-- reset empties the dictionary; a setting that is no known code is skipped -/
example : Gen.settingsToDictCode [⟨1, "1".toList⟩, ⟨2, "0".toList⟩, ⟨3, "999".toList⟩, ⟨4, "4".toList⟩] [(3, ⟨0, "3".toList⟩)] =
    .ok [(4, ⟨4, "4".toList⟩)] := by decide +kernel

/-- the outcomes the theorems exclude are real ones of the primitives -/
example : PyParse.settingOfStr [] = .error (.py .valueError) := by decide
example : PyParse.settingOfCodes [] = .error (.py .valueError) := by decide
example : PyParse.dictDel [] 3 = .error .key := by decide
example : Py.getIdx ([] : List Int) 0 = .error (.py .indexError) := by decide
example : PyParse.split "a".toList [] = .error (.py .valueError) := by decide

end C18b

#print axioms C18b.translated
#print axioms C18b.settings_to_dict_is_code
#print axioms C18b.pgs_str_is_code
#print axioms C18b.pgs_list_is_code
#print axioms C18b.settings_to_dict_never_raises
#print axioms C18b.pgs_str_never_raises
#print axioms C18b.pgs_list_never_raises
