import AnsiModel.Generated.Wrappers
/-
  Property C13, part b — the wrapper layer itself, from the source.

  `Gen.ansiStr` / `Gen.ansiString` are regenerated on every run from the AST of `class AnsiStr` and
  `class AnsiString` (harness/wrappers.py).  C13.lean proves what follows from the *shape*
  "copy, call the method of the same name, wrap again"; this file proves that the methods of the
  code's `AnsiStr` *have* that shape and pass their arguments on unchanged:

  * `conforms_sem` — for any semantics of the wrapped class (`Wrap.Sem`, fully abstract), a method
    whose table entry conforms calls the `AnsiString` method of its own name, on (a copy of) the
    wrapped value, with exactly the caller's arguments, `inplace=True` where the method has that
    switch, and the method's own defaults for parameters the `AnsiStr` signature does not offer;
    `lift_sem`, `fwd_sem`, `wrap_sem`, `wrapEach_sem` state the result for each kind of delegation.
  * `table_conforms` — every method in the regenerated `AnsiStr` table conforms, except the
    enumerated `exempt` ones, whose bodies are fixed by `exempt_bodies` (delegations of other
    kinds) or are hand-modelled in C13.lean and decided by twin execution (`__new__`, `__iter__`,
    `__eq__`, `join`, `encode`).
  * `covered` — every public method of `AnsiString` has an `AnsiStr` method of the same name,
    except the ones that only make sense in place.

  A change to an `AnsiStr` method that makes it stop being a plain delegation (a fast path, a
  forgotten copy, a dropped or reordered argument, a different default) changes the regenerated
  table and `table_conforms` no longer checks.
-/
namespace C13b
open Wrap

variable {S V R E A : Type}

/-! ## 1 — conformity means: same method, same arguments -/

theorem evalE_expected (sem : Sem S V R E) (ρ : String → V) (ps : List Param) (tp : Param) (e : WExpr)
    (h : okOne ps tp e = true) : evalE sem ρ e = expectedOne sem ρ ps tp := by
  unfold okOne at h
  unfold expectedOne
  cases hin : (tp.name == "inplace") with
  | true =>
    simp only [hin, if_true] at h ⊢
    have : e = .const "True" := by simpa using h
    subst this; rfl
  | false =>
    simp only [hin, Bool.false_eq_true, if_false] at h ⊢
    cases hf : ps.find? (·.name == tp.name) with
    | some p =>
      simp only [hf, Bool.and_eq_true, Option.isSome_some, if_true] at h ⊢
      cases hk : (tp.kind == 1) with
      | true =>
        simp only [hk, if_true] at h
        have : e = .star tp.name := by simpa using h.2
        subst this; rfl
      | false =>
        simp only [hk, Bool.false_eq_true, if_false] at h
        have : e = .param tp.name := by simpa using h.2
        subst this; rfl
    | none =>
      simp only [hf, Option.isSome_none, Bool.false_eq_true, if_false] at h ⊢
      cases hk : (tp.kind == 1) with
      | true =>
        simp only [hk, if_true] at h ⊢
        have : e = .dflt "()" := by simpa using h
        subst this; rfl
      | false =>
        simp only [hk, Bool.false_eq_true, if_false] at h ⊢
        cases hd : tp.dflt with
        | none => simp [hd] at h
        | some d =>
          simp only [hd] at h
          have : e = .dflt d := by simpa using h
          subst this; simp [evalE]

theorem bindArgs_expected (sem : Sem S V R E) (ρ : String → V) (ps : List Param) :
    ∀ (tps : List Param) (f : List (String × WExpr)), okFwd ps tps f = true →
      bindArgs sem ρ f = expectedArgs sem ρ ps tps
  | [], [], _ => rfl
  | [], _ :: _, h => by simp [okFwd] at h
  | _ :: _, [], h => by simp [okFwd] at h
  | tp :: tps, pe :: f, h => by
    simp only [okFwd, Bool.and_eq_true] at h
    have hn : pe.1 = tp.name := by simpa using h.1.1
    have h1 := evalE_expected sem ρ ps tp pe.2 h.1.2
    have ih := bindArgs_expected sem ρ ps tps f h.2
    simp only [bindArgs, expectedArgs, List.map_cons] at ih ⊢
    rw [ih, hn, h1]

/-- THE CONFORMITY THEOREM.  A conforming method delegates to the wrapped class's method of its own
    name, and the arguments that method is called with are exactly `expectedArgs`: each parameter
    gets the caller's value for the parameter of the same name, `inplace` gets `True`, and a
    parameter the wrapper does not offer keeps its default. -/
theorem conforms_sem (inner : List WMethod) (m : WMethod) (h : conforms inner m = true)
    (sem : Sem S V R E) (ρ : String → V) :
    ∃ tm f, lookup inner m.name = some tm ∧ m.body.target? = some (m.name, f) ∧
      bindArgs sem ρ f = expectedArgs sem ρ m.params tm.params := by
  unfold conforms at h
  cases ht : m.body.target? with
  | none => simp [ht] at h
  | some tf =>
    obtain ⟨t, f⟩ := tf
    simp only [ht, Bool.and_eq_true] at h
    have hname : t = m.name := by simpa using h.1
    subst hname
    cases hl : lookup inner m.name with
    | none => rw [hl] at h; simp at h
    | some tm =>
      rw [hl] at h
      simp only [Bool.and_eq_true] at h
      exact ⟨tm, f, rfl, rfl, bindArgs_expected sem ρ m.params tm.params f h.2.1⟩

/-- every parameter of a conforming method is a parameter of the method it delegates to (none ignored) -/
theorem conforms_params (inner : List WMethod) (m : WMethod) (h : conforms inner m = true) :
    ∃ tm, lookup inner m.name = some tm ∧ ∀ p ∈ m.params, ∃ tp ∈ tm.params, tp.name = p.name := by
  unfold conforms at h
  cases ht : m.body.target? with
  | none => simp [ht] at h
  | some tf =>
    obtain ⟨t, f⟩ := tf
    simp only [ht, Bool.and_eq_true] at h
    have hname : t = m.name := by simpa using h.1
    subst hname
    cases hl : lookup inner m.name with
    | none => rw [hl] at h; simp at h
    | some tm =>
      rw [hl] at h
      simp only [Bool.and_eq_true, List.all_eq_true, List.any_eq_true] at h
      refine ⟨tm, rfl, fun p hp => ?_⟩
      obtain ⟨tp, htp, he⟩ := h.2.2 p hp
      exact ⟨tp, htp, by simpa using he⟩

/-- a caller's argument reaches the called method under the same name -/
theorem expected_passes (sem : Sem S V R E) (ρ : String → V) (ps : List Param) (tp : Param)
    (hne : tp.name ≠ "inplace") (p : Param) (hp : p ∈ ps) (hn : p.name = tp.name) :
    expectedOne sem ρ ps tp = ρ tp.name := by
  unfold expectedOne
  have h1 : (tp.name == "inplace") = false := by simpa using hne
  have h2 : (ps.find? (·.name == tp.name)).isSome = true := by
    rw [List.find?_isSome]; exact ⟨p, hp, by simpa using hn⟩
  simp [h1, h2]

/-- `cpy = self._s.copy(); cpy.m(…); return AnsiStr(cpy)`: the result wraps exactly what the
    in-place `AnsiString` method leaves in a copy of the wrapped value -/
theorem lift_sem (tbl inner : List WMethod) (m : WMethod) (h : conforms inner m = true)
    (t : String) (f : List (String × WExpr)) (hb : m.body = .lift t f)
    (sem : Sem S V R E) (mk : S → A) (un : A → S) (ρ : String → V) (a : A) :
    ∃ tm, lookup inner m.name = some tm ∧
      interp tbl sem mk un ρ a m.body =
        some ((sem.call m.name (un a) (expectedArgs sem ρ m.params tm.params)).map fun r => .str (mk r.1)) := by
  obtain ⟨tm, f', hl, ht, hbind⟩ := conforms_sem inner m h sem ρ
  refine ⟨tm, hl, ?_⟩
  rw [hb] at ht ⊢
  simp only [WBody.target?, Option.some.injEq, Prod.mk.injEq] at ht
  obtain ⟨rfl, rfl⟩ := ht
  simp only [interp, interpDirect, hbind]

/-- `return self._s.m(…)`: whatever the `AnsiString` method returns, for the same arguments -/
theorem fwd_sem (tbl inner : List WMethod) (m : WMethod) (h : conforms inner m = true)
    (t : String) (f : List (String × WExpr)) (hb : m.body = .fwd t f)
    (sem : Sem S V R E) (mk : S → A) (un : A → S) (ρ : String → V) (a : A) :
    ∃ tm, lookup inner m.name = some tm ∧
      interp tbl sem mk un ρ a m.body =
        some ((sem.call m.name (un a) (expectedArgs sem ρ m.params tm.params)).map fun r => .raw r.2) := by
  obtain ⟨tm, f', hl, ht, hbind⟩ := conforms_sem inner m h sem ρ
  refine ⟨tm, hl, ?_⟩
  rw [hb] at ht ⊢
  simp only [WBody.target?, Option.some.injEq, Prod.mk.injEq] at ht
  obtain ⟨rfl, rfl⟩ := ht
  simp only [interp, interpDirect, hbind]

/-- `return AnsiStr(self._s.m(…))` -/
theorem wrap_sem (tbl inner : List WMethod) (m : WMethod) (h : conforms inner m = true)
    (t : String) (f : List (String × WExpr)) (hb : m.body = .wrap t f)
    (sem : Sem S V R E) (mk : S → A) (un : A → S) (ρ : String → V) (a : A) :
    ∃ tm, lookup inner m.name = some tm ∧
      interp tbl sem mk un ρ a m.body =
        some ((sem.call m.name (un a) (expectedArgs sem ρ m.params tm.params)).map fun r => wrapRet mk r.2) := by
  obtain ⟨tm, f', hl, ht, hbind⟩ := conforms_sem inner m h sem ρ
  refine ⟨tm, hl, ?_⟩
  rw [hb] at ht ⊢
  simp only [WBody.target?, Option.some.injEq, Prod.mk.injEq] at ht
  obtain ⟨rfl, rfl⟩ := ht
  simp only [interp, interpDirect, hbind]

/-- `return [AnsiStr(x) for x in self._s.m(…)]`: the pieces of the `AnsiString` result, each wrapped -/
theorem wrapEach_sem (tbl inner : List WMethod) (m : WMethod) (h : conforms inner m = true)
    (t : String) (f : List (String × WExpr)) (hb : m.body = .wrapEach t f)
    (sem : Sem S V R E) (mk : S → A) (un : A → S) (ρ : String → V) (a : A) :
    ∃ tm, lookup inner m.name = some tm ∧
      interp tbl sem mk un ρ a m.body =
        some ((sem.call m.name (un a) (expectedArgs sem ρ m.params tm.params)).map fun r => wrapEachRet mk r.2) := by
  obtain ⟨tm, f', hl, ht, hbind⟩ := conforms_sem inner m h sem ρ
  refine ⟨tm, hl, ?_⟩
  rw [hb] at ht ⊢
  simp only [WBody.target?, Option.some.injEq, Prod.mk.injEq] at ht
  obtain ⟨rfl, rfl⟩ := ht
  simp only [interp, interpDirect, hbind]

/-! ## 2 — the regenerated table -/

/-- methods of `AnsiStr` that are not a direct delegation to the `AnsiString` method of their name -/
def exempt : List String :=
  ["__new__", "__iter__", "__eq__", "join", "encode",          -- hand-modelled (C13.lean) / twin execution
   "__add__", "__iadd__", "__format__", "expandtabs", "base_str",   -- other delegations: `exempt_bodies`
   "__getnewargs__"]                                              -- the copy protocol: C13c.lean

/-- EVERY METHOD OF THE CODE'S `AnsiStr` IS A CONFORMING DELEGATION (or one of the eleven exempt ones). -/
theorem table_conforms : ∀ m ∈ Gen.ansiStr, m.name ∈ exempt ∨ conforms Gen.ansiString m = true := by
  decide +kernel

/-- the exempt methods that are delegations of another kind, exactly:
    `a + v` copies, `+=`s on the copy and re-wraps; `a += v` is `a + v`; `format(a, spec)` is
    `a.to_str(spec)`; `expandtabs` is `replace('\t', ' ' * tabsize)` in both classes; `base_str`
    is the wrapped object's. -/
theorem exempt_bodies :
    (lookup Gen.ansiStr "__add__").map (·.body) = some (.liftIAdd (.param "value")) ∧
    (lookup Gen.ansiStr "__iadd__").map (·.body) = some (.selfAdd (.param "value")) ∧
    (lookup Gen.ansiStr "__format__").map (·.body) =
      some (.viaSelf "to_str" [("format_spec", .param "__format_spec"), ("optimize", .dflt "True"),
        ("reset_start", .dflt "False"), ("reset_end", .dflt "True")]) ∧
    (lookup Gen.ansiString "__format__").map (·.body) =
      some (.viaSelf "to_str" [("format_spec", .param "__format_spec"), ("optimize", .dflt "True"),
        ("reset_start", .dflt "False"), ("reset_end", .dflt "True")]) ∧
    (lookup Gen.ansiStr "expandtabs").map (·.body) =
      some (.viaSelf "replace" [("old", .const "'\\t'"), ("new", .other "' ' * tabsize"), ("count", .dflt "-1")]) ∧
    (lookup Gen.ansiString "expandtabs").map (·.body) =
      some (.viaSelf "replace" [("old", .const "'\\t'"), ("new", .other "' ' * tabsize"), ("count", .dflt "-1"),
        ("inplace", .param "inplace")]) ∧
    (lookup Gen.ansiStr "base_str").map (fun m => (m.deco, m.body)) = some ("property", .attr "base_str") ∧
    (lookup Gen.ansiString "base_str").map (·.deco) = some "property" := by
  decide +kernel

/-- `AnsiString` methods with no `AnsiStr` counterpart: they only make sense on a mutable object -/
def inPlaceOnly : List String := ["__init__", "assign_str", "set_ansi_str", "copy", "__str__", "__repr__"]

/-- every public method (and operator) of `AnsiString` exists in `AnsiStr` under the same name -/
theorem covered : ∀ m ∈ Gen.ansiString,
    (m.name.startsWith "_" && !m.name.startsWith "__") = true ∨ m.name ∈ inPlaceOnly ∨
      (lookup Gen.ansiStr m.name).isSome = true := by
  decide +kernel

/-- no method name occurs twice (so `lookup` finds *the* method) -/
theorem names_nodup : (Gen.ansiStr.map (·.name)).Nodup ∧ (Gen.ansiString.map (·.name)).Nodup := by
  decide +kernel

/-! ## 3 — the indirect ones, through `interp` -/

/-- `a += v` means `a + v`: copy, `+=` on the copy, wrap -/
theorem iadd_sem (sem : Sem S V R E) (mk : S → A) (un : A → S) (ρ : String → V) (a : A) :
    interp Gen.ansiStr sem mk un ρ a (.selfAdd (.param "value")) =
      some ((sem.iadd (un a) (ρ "value")).map fun v => .str (mk v)) := by
  have h : lookup Gen.ansiStr "__add__" = some
      { name := "__add__", deco := "", params := [⟨"value", 0, none⟩], body := .liftIAdd (.param "value") } := by
    decide +kernel
  simp [interp, h, interpDirect, evalE]

/-- `format(a, spec)` = `a.to_str(spec)` = the wrapped object's `to_str(spec)` with the defaults -/
theorem format_sem (sem : Sem S V R E) (mk : S → A) (un : A → S) (ρ : String → V) (a : A) :
    interp Gen.ansiStr sem mk un ρ a (.viaSelf "to_str" [("format_spec", .param "__format_spec"),
        ("optimize", .dflt "True"), ("reset_start", .dflt "False"), ("reset_end", .dflt "True")]) =
      some ((sem.call "to_str" (un a) [("format_spec", ρ "__format_spec"), ("optimize", sem.ev "True" ρ),
        ("reset_start", sem.ev "False" ρ), ("reset_end", sem.ev "True" ρ)]).map fun r => .raw r.2) := by
  have h : (lookup Gen.ansiStr "to_str").map (·.body) = some (.fwd "to_str" [("format_spec", .param "format_spec"),
      ("optimize", .param "optimize"), ("reset_start", .param "reset_start"), ("reset_end", .param "reset_end")]) := by
    decide +kernel
  cases hl : lookup Gen.ansiStr "to_str" with
  | none => simp [hl] at h
  | some m =>
    simp only [hl, Option.map_some, Option.some.injEq] at h
    simp [interp, hl, h, interpDirect, bindArgs, evalE, List.lookup]

/-! ## Non-vacuity: a conforming entry of each kind, and what the theorem says about one of them -/

example : (lookup Gen.ansiStr "replace").map (conforms Gen.ansiString) = some true := by decide +kernel
example : (lookup Gen.ansiStr "find").map (conforms Gen.ansiString) = some true := by decide +kernel
example : (lookup Gen.ansiStr "__getitem__").map (conforms Gen.ansiString) = some true := by decide +kernel
example : (lookup Gen.ansiStr "split").map (conforms Gen.ansiString) = some true := by decide +kernel

/-- a method that forgets `inplace=True` does not conform -/
example : conforms Gen.ansiString
    { name := "lower", deco := "", params := [], body := .lift "lower" [("inplace", .dflt "False")] } = false := by
  decide +kernel
/-- a method that calls another method does not conform -/
example : conforms Gen.ansiString
    { name := "lower", deco := "", params := [], body := .lift "upper" [("inplace", .const "True")] } = false := by
  decide +kernel
/-- a method that swaps two arguments does not conform -/
example : conforms Gen.ansiString
    { name := "clip", deco := "", params := [⟨"start", 0, some "None"⟩, ⟨"end", 0, some "None"⟩],
      body := .lift "clip" [("start", .param "end"), ("end", .param "start"), ("inplace", .const "True")] } = false := by
  decide +kernel
/-- a method with a different default does not conform -/
example : conforms Gen.ansiString
    { name := "replace", deco := "", params := [⟨"old", 0, none⟩, ⟨"new", 0, none⟩, ⟨"count", 0, some "1"⟩],
      body := .lift "replace" [("old", .param "old"), ("new", .param "new"), ("count", .param "count"), ("inplace", .const "True")] } = false := by
  decide +kernel

end C13b
