import AnsiProofs.Lemmas.StrLike
/-
  Property C10 (text part) — every str-like method of AnsiString/AnsiStr produces result TEXT equal
  to the same `str` method applied to the base text.  Only `.s` is covered here (the settings of
  the pieces are a separate property).

  `namespace PySpec` holds declarative, list-recursive specifications of the `str` methods, written
  without the model's primitives (`Py.find`, `Py.startsWith`, slices, …): they use only core `List`
  functions (`dropWhile`, `isPrefixOf`, `isSuffixOf`, `take`, `drop`).  The section "the
  specifications mean what they say" proves the characteristic properties of the scanning
  specifications (first / last occurrence), which is also what links them to `find` / `rfind`.

  Contents: 1 strip (`strip_text`, `default_strip_set`), 2 `removeprefix_text`/`removesuffix_text`,
  3 `partition_text`/`rpartition_text`/`partition_lossless`, 4 `replace_text`/`replace_text_str`/
  `replace_text_empty`, 5 `expandtabs_text`, 6 `mapText_text`, 7 `split_text`/`splitWs_text`/
  `splitlines_text` with `pieceOffsets_sep`, `split_join`, `split_maxsplit`,
  `split_is_repeated_partition`.  All statements hold for ALL inputs; none had to be weakened.
  For `split`/`rsplit`/`splitlines` the reference on the right-hand side is the model of the CPython
  primitive (`Py.splitSep`, `Py.rsplitSep`, `Py.splitWs`, `Py.rsplitWs`, `Py.splitlines`), which the
  differential harness ties to CPython; `split_join`/`split_maxsplit`/`split_is_repeated_partition`
  say what `Py.splitSep` is.  Helper lemmas: `AnsiProofs/Lemmas/StrLike.lean` (namespace `StrLikeL`).
-/

open StrLikeL

namespace PySpec

/-! ### strip -/

/-- `s.lstrip(cs)` -/
def lstrip (cs : Str) (s : Str) : Str := s.dropWhile (fun c => cs.contains c)

/-- `s.rstrip(cs)` -/
def rstrip (cs : Str) (s : Str) : Str := (s.reverse.dropWhile (fun c => cs.contains c)).reverse

/-- `s.strip(cs)` -/
def strip (cs : Str) (s : Str) : Str := rstrip cs (lstrip cs s)

/-! ### removeprefix / removesuffix -/

/-- `s.removeprefix(p)` -/
def removeprefix (s p : Str) : Str := if p.isPrefixOf s then s.drop p.length else s

/-- `s.removesuffix(p)` -/
def removesuffix (s p : Str) : Str :=
  if p.isSuffixOf s ∧ p ≠ [] then s.take (s.length - p.length) else s

/-! ### partition / rpartition -/

/-- `(before, after)` around the FIRST occurrence of `sep`, scanning left to right -/
def splitFirst (sep : Str) : Str → Option (Str × Str)
  | [] => if sep.isEmpty then some ([], []) else none
  | c :: rest =>
    if sep.isPrefixOf (c :: rest) then some ([], (c :: rest).drop sep.length)
    else (splitFirst sep rest).map (fun ba => (c :: ba.1, ba.2))

/-- `(before, after)` around the LAST occurrence of `sep`: an occurrence further right wins -/
def splitLast (sep : Str) : Str → Option (Str × Str)
  | [] => if sep.isEmpty then some ([], []) else none
  | c :: rest =>
    match splitLast sep rest with
    | some ba => some (c :: ba.1, ba.2)
    | none => if sep.isPrefixOf (c :: rest) then some ([], (c :: rest).drop sep.length) else none

/-- `s.partition(sep)` -/
def partition (s sep : Str) : Str × Str × Str :=
  match splitFirst sep s with
  | some ba => (ba.1, sep, ba.2)
  | none => (s, [], [])

/-- the library's `rpartition`: like `str.rpartition`, except that an absent separator gives
    `(s, '', '')` (documented deviation; `str` gives `('', '', s)`) -/
def rpartition (s sep : Str) : Str × Str × Str :=
  match splitLast sep s with
  | some ba => (ba.1, sep, ba.2)
  | none => (s, [], [])

/-! ### replace -/

/-- `s.replace(old, new, count)` for a NON-EMPTY `old`: scan left to right; `skip` counts the
    characters of a matched `old` that are still to be skipped.  At each position (with `skip = 0`):
    if `count ≠ 0` and `old` is a prefix of the rest, emit `new`, skip `old`, decrement a positive
    count (a negative count means "no limit"); otherwise emit the character. -/
def replaceGo (old new : Str) : Str → Nat → Int → Str
  | [], _, _ => []
  | _ :: rest, skip + 1, count => replaceGo old new rest skip count
  | c :: rest, 0, count =>
    if count ≠ 0 ∧ old.isPrefixOf (c :: rest) then
      new ++ replaceGo old new rest (old.length - 1) (if count > 0 then count - 1 else count)
    else c :: replaceGo old new rest 0 count

/-- `s.replace('', new, count)`: insert `new` before every character and at the end, at most
    `count` insertions when `count ≥ 0` (`'abc'.replace('', 'x') = 'xaxbxcx'`) -/
def replaceEmpty (new : Str) : Str → Int → Str
  | [], count => if count ≠ 0 then new else []
  | c :: rest, count =>
    if count ≠ 0 then new ++ c :: replaceEmpty new rest (if count > 0 then count - 1 else count)
    else c :: rest

/-- `s.replace(old, new, count)` -/
def replace (s old new : Str) (count : Int) : Str :=
  if old.isEmpty then replaceEmpty new s count else replaceGo old new s 0 count

end PySpec

/-! ## the specifications mean what they say -/

namespace PySpec

/-- `splitFirst` finds an occurrence, and no occurrence starts further left -/
theorem splitFirst_some {sep s b a : Str} (h : splitFirst sep s = some (b, a)) :
    s = b ++ sep ++ a ∧ ∀ j, j < b.length → sep.isPrefixOf (s.drop j) = false := by
  induction s generalizing b with
  | nil =>
    simp only [splitFirst] at h
    split at h
    · rename_i he
      cases h
      have : sep = [] := List.isEmpty_iff.mp he
      subst this
      exact ⟨rfl, fun j hj => by cases hj⟩
    · cases h
  | cons c rest ih =>
    simp only [splitFirst] at h
    split at h
    · rename_i hp
      cases h
      obtain ⟨t, ht⟩ := List.isPrefixOf_iff_prefix.mp hp
      refine ⟨?_, fun j hj => by cases hj⟩
      rw [← ht]; simp
    · rename_i hp
      cases hr : splitFirst sep rest with
      | none => rw [hr] at h; cases h
      | some ba =>
        rw [hr] at h
        cases h
        obtain ⟨h1, h2⟩ := ih (b := ba.1) hr
        refine ⟨by rw [h1]; simp, ?_⟩
        intro j hj
        cases j with
        | zero => rw [List.drop_zero]; exact Bool.eq_false_iff.mpr hp
        | succ j => simpa using h2 j (by simpa using hj)

/-- `splitFirst` fails only if there is no occurrence at all -/
theorem splitFirst_none {sep s : Str} (h : splitFirst sep s = none) :
    ∀ j, j ≤ s.length → sep.isPrefixOf (s.drop j) = false := by
  induction s with
  | nil =>
    simp only [splitFirst] at h
    split at h
    · cases h
    · rename_i he
      intro j hj
      have : j = 0 := by simpa using hj
      subst this
      cases sep <;> simp_all
  | cons c rest ih =>
    simp only [splitFirst] at h
    split at h
    · cases h
    · rename_i hp
      cases hr : splitFirst sep rest with
      | some ba => rw [hr] at h; cases h
      | none =>
        intro j hj
        cases j with
        | zero => rw [List.drop_zero]; exact Bool.eq_false_iff.mpr hp
        | succ j => simpa using ih hr j (by simpa using hj)

/-- `splitLast` finds an occurrence, and no occurrence starts further right -/
theorem splitLast_some {sep s b a : Str} (h : splitLast sep s = some (b, a)) :
    s = b ++ sep ++ a ∧
      ∀ j, b.length < j → j ≤ s.length → sep.isPrefixOf (s.drop j) = false := by
  induction s generalizing b with
  | nil =>
    simp only [splitLast] at h
    split at h
    · rename_i he
      cases h
      have : sep = [] := List.isEmpty_iff.mp he
      subst this
      exact ⟨rfl, fun j hj hl => by simp at hl; omega⟩
    · cases h
  | cons c rest ih =>
    simp only [splitLast] at h
    cases hr : splitLast sep rest with
    | some ba =>
      rw [hr] at h
      cases h
      obtain ⟨h1, h2⟩ := ih (b := ba.1) hr
      refine ⟨by rw [h1]; simp, ?_⟩
      intro j hj hl
      cases j with
      | zero => cases hj
      | succ j => simpa using h2 j (by simpa using hj) (by simpa using hl)
    | none =>
      rw [hr] at h
      simp only at h
      split at h
      · rename_i hp
        cases h
        obtain ⟨t, ht⟩ := List.isPrefixOf_iff_prefix.mp hp
        refine ⟨by rw [← ht]; simp, ?_⟩
        intro j hj hl
        cases j with
        | zero => cases hj
        | succ j =>
          have := splitLast_none_aux hr j (by simpa using hl)
          simpa using this
      · cases h
where
  splitLast_none_aux {sep s : Str} (h : splitLast sep s = none) :
      ∀ j, j ≤ s.length → sep.isPrefixOf (s.drop j) = false := by
    induction s with
    | nil =>
      simp only [splitLast] at h
      split at h
      · cases h
      · intro j hj
        have : j = 0 := by simpa using hj
        subst this
        cases sep <;> simp_all
    | cons c rest ih =>
      simp only [splitLast] at h
      cases hr : splitLast sep rest with
      | some ba => rw [hr] at h; cases h
      | none =>
        rw [hr] at h
        simp only at h
        split at h
        · cases h
        · rename_i hp
          intro j hj
          cases j with
          | zero => rw [List.drop_zero]; exact Bool.eq_false_iff.mpr hp
          | succ j => simpa using ih hr j (by simpa using hj)

/-- `splitLast` fails only if there is no occurrence at all -/
theorem splitLast_none {sep s : Str} (h : splitLast sep s = none) :
    ∀ j, j ≤ s.length → sep.isPrefixOf (s.drop j) = false :=
  splitLast_some.splitLast_none_aux h

/-! ### replace: the scan replaces exactly the first occurrence and continues behind it -/

/-- skipping is dropping -/
theorem replaceGo_skip (old new : Str) (s : Str) (k : Nat) (c : Int) :
    replaceGo old new s k c = replaceGo old new (s.drop k) 0 c := by
  induction s generalizing k with
  | nil => simp [replaceGo]
  | cons a s ih =>
    cases k with
    | zero => rfl
    | succ k => rw [replaceGo, ih]; rfl

/-- the defining equation of the scan in "drop" form -/
theorem replaceGo_cons (old new : Str) (a : Char) (s : Str) (c : Int) (hold : old ≠ []) :
    replaceGo old new (a :: s) 0 c =
      if c ≠ 0 ∧ old.isPrefixOf (a :: s) then
        new ++ replaceGo old new ((a :: s).drop old.length) 0 (if c > 0 then c - 1 else c)
      else a :: replaceGo old new s 0 c := by
  rw [replaceGo, replaceGo_skip]
  cases old with
  | nil => exact absurd rfl hold
  | cons d o => rfl

/-- count 0: nothing is replaced -/
theorem replaceGo_zero (old new s : Str) : replaceGo old new s 0 0 = s := by
  induction s with
  | nil => rfl
  | cons a s ih => rw [replaceGo]; simp [ih]

/-- no occurrence: nothing is replaced -/
theorem replaceGo_absent (old new s : Str) (c : Int)
    (h : ∀ j, j ≤ s.length → old.isPrefixOf (s.drop j) = false) : replaceGo old new s 0 c = s := by
  induction s with
  | nil => rfl
  | cons a s ih =>
    have h0 := h 0 (Nat.zero_le _)
    rw [List.drop_zero] at h0
    rw [replaceGo, h0]
    simp only [Bool.false_eq_true, and_false, if_false]
    rw [ih (fun j hj => by simpa using h (j + 1) (by simpa using hj))]

/-- the first occurrence is replaced, everything before it is kept, the scan continues behind it -/
theorem replaceGo_first (old new : Str) (hold : old ≠ []) (pre post : Str) (c : Int) (hc : c ≠ 0)
    (h : ∀ j, j < pre.length → old.isPrefixOf ((pre ++ old ++ post).drop j) = false) :
    replaceGo old new (pre ++ old ++ post) 0 c =
      pre ++ new ++ replaceGo old new post 0 (if c > 0 then c - 1 else c) := by
  induction pre with
  | nil =>
    cases old with
    | nil => exact absurd rfl hold
    | cons d o =>
      have hp : (d :: o).isPrefixOf (d :: (o ++ post)) = true :=
        List.isPrefixOf_iff_prefix.mpr ⟨post, rfl⟩
      simp only [List.nil_append, List.cons_append]
      rw [replaceGo, hp, replaceGo_skip]
      simp [hc]
  | cons a pre ih =>
    have h0 := h 0 (by simp)
    rw [List.drop_zero] at h0
    simp only [List.cons_append] at h0 ⊢
    rw [replaceGo, h0]
    simp only [Bool.false_eq_true, and_false, if_false]
    rw [ih (fun j hj => by simpa using h (j + 1) (by simpa using hj))]

end PySpec

namespace C10

/-! ## 1 — strip / lstrip / rstrip -/

/-- the default strip set (`WHITESPACE_CHARS`) is `' \t\n\r\v\f'` -/
theorem default_strip_set :
    Gen.whitespaceChars = [' ', '\t', '\n', '\r', Char.ofNat 11, Char.ofNat 12] := by decide

/-- `_strip(chars, inplace, do_lstrip, do_rstrip)`: the text is `str.strip/lstrip/rstrip` of the
    base text (with the default set when `chars is None`), whatever `inplace` is -/
theorem strip_text (x : AStr) (chars : Option Str) (doL doR ip : Bool) :
    (x.stripGen chars doL doR ip).s =
      (if doR then PySpec.rstrip (chars.getD Gen.whitespaceChars) else id)
        ((if doL then PySpec.lstrip (chars.getD Gen.whitespaceChars) else id) x.s) :=
  stripGen_s x chars doL doR ip

/-- the public `strip` -/
theorem strip_text_both (x : AStr) (chars : Option Str) (ip : Bool) :
    (x.stripGen chars true true ip).s = PySpec.strip (chars.getD Gen.whitespaceChars) x.s :=
  strip_text x chars true true ip

/-! ## 2 — removeprefix / removesuffix -/

theorem removeprefix_text (x : AStr) (p : Str) :
    (x.removeprefix p).s = PySpec.removeprefix x.s p := by
  unfold AStr.removeprefix PySpec.removeprefix
  rw [startsWith_eq]
  cases h : p.isPrefixOf x.s with
  | false => rfl
  | true => simp only [Bool.not_true, Bool.false_eq_true, if_false, if_true]; exact getSlice_from_s x _

theorem removesuffix_text (x : AStr) (p : Str) :
    (x.removesuffix p).s = PySpec.removesuffix x.s p := by
  unfold AStr.removesuffix PySpec.removesuffix
  rw [endsWith_eq]
  cases p with
  | nil => simp
  | cons c p =>
    cases h : (c :: p).isSuffixOf x.s with
    | false => simp
    | true =>
      simp only [List.isEmpty_cons, Bool.false_eq_true, Bool.not_true, or_self, if_false, ne_eq,
        reduceCtorEq, not_false_eq_true, and_self, if_true]
      rw [getSlice_negstop_s x none (c :: p).length (by simp)]
      rfl

/-! ## 3 — partition / rpartition -/

/-- `partition(sep)`: the texts are `str.partition` of the base text (any `sep`; CPython raises
    ValueError for the empty one, which is outside the claim) -/
theorem partition_text (x : AStr) (sep : Str) :
    ((x.partitionGen sep false).1.s, (x.partitionGen sep false).2.1.s,
      (x.partitionGen sep false).2.2.s) = PySpec.partition x.s sep := by
  unfold PySpec.partition
  cases h : PySpec.splitFirst sep x.s with
  | none =>
    have hn := PySpec.splitFirst_none h
    have : Py.find x.s sep 0 = none := (find_none_iff _ _ _).mpr (fun i hi _ => hn i hi)
    rw [partitionGen_none x sep false (by simpa using this)]
  | some ba =>
    obtain ⟨b, a⟩ := ba
    obtain ⟨h1, h2⟩ := PySpec.splitFirst_some h
    have hocc : sep.isPrefixOf (x.s.drop b.length) = true := by rw [h1]; exact occ_of_decomp b sep a
    have hlen : b.length ≤ x.s.length := by rw [h1]; simp
    have hf : Py.find x.s sep 0 = some b.length :=
      (find_some_iff _ _ _ _).mpr ⟨hlen, Nat.zero_le _, hocc, fun i hi _ => h2 i hi⟩
    rw [partitionGen_some x sep false b.length (by simpa using hf) hocc]
    simp only [h1]
    simp

/-- `rpartition(sep)`: last occurrence; `(s, '', '')` when absent (the documented deviation) -/
theorem rpartition_text (x : AStr) (sep : Str) :
    ((x.partitionGen sep true).1.s, (x.partitionGen sep true).2.1.s,
      (x.partitionGen sep true).2.2.s) = PySpec.rpartition x.s sep := by
  unfold PySpec.rpartition
  cases h : PySpec.splitLast sep x.s with
  | none =>
    have hn := PySpec.splitLast_none h
    have : Py.rfind x.s sep = none := (rfind_none_iff _ _).mpr hn
    rw [partitionGen_none x sep true (by simpa using this)]
  | some ba =>
    obtain ⟨b, a⟩ := ba
    obtain ⟨h1, h2⟩ := PySpec.splitLast_some h
    have hocc : sep.isPrefixOf (x.s.drop b.length) = true := by rw [h1]; exact occ_of_decomp b sep a
    have hlen : b.length ≤ x.s.length := by rw [h1]; simp
    have hf : Py.rfind x.s sep = some b.length := (rfind_some_iff _ _ _).mpr ⟨hlen, hocc, h2⟩
    rw [partitionGen_some x sep true b.length (by simpa using hf) hocc]
    simp only [h1]
    simp

/-- both are lossless: the three texts concatenate to the base text -/
theorem partition_lossless (x : AStr) (sep : Str) (r : Bool) :
    (x.partitionGen sep r).1.s ++ (x.partitionGen sep r).2.1.s ++ (x.partitionGen sep r).2.2.s =
      x.s := by
  cases h : (if r then Py.rfind x.s sep else Py.find x.s sep 0) with
  | none => rw [partitionGen_none x sep r h]; simp
  | some i =>
    have hocc : sep.isPrefixOf (x.s.drop i) = true := by
      cases r
      · exact ((find_some_iff _ _ _ _).mp (by simpa using h)).2.2.1
      · exact ((rfind_some_iff _ _ _).mp (by simpa using h)).2.1
    have := partitionGen_some x sep r i h hocc
    simp only [Prod.mk.injEq] at this
    rw [this.1, this.2.1, this.2.2]
    exact (occ_decomp x.s sep i hocc).symm

/-! ## 4 — replace -/

/-- `replace(old, new, count)` with an AnsiString/AnsiStr `new` and a non-empty `old` -/
theorem replace_text (x : AStr) (old : Str) (v : AStr) (count : Int) (nid : Nat) (h : old ≠ []) :
    (x.replace old (.astr v) count nid).s = PySpec.replace x.s old v.s count := by
  have hne : old.isEmpty = false := by cases old <;> simp_all
  rw [PySpec.replace, hne]
  exact replace_s x old h (.astr v) trivial (fun s c => PySpec.replaceGo old v.s s 0 c)
    (fun s c hs => PySpec.replaceGo_absent old v.s s c hs)
    (fun s => PySpec.replaceGo_zero old v.s s)
    (fun pre post c hc hs => PySpec.replaceGo_first old v.s h pre post c hc hs) count nid

/-- `replace(old, new, count)` with a plain `str` `new` (no ESC in it) and a non-empty `old` -/
theorem replace_text_str (x : AStr) (old raw : Str) (count : Int) (nid : Nat) (h : old ≠ [])
    (hraw : NoEsc raw) :
    (x.replace old (.str raw) count nid).s = PySpec.replace x.s old raw count := by
  have hne : old.isEmpty = false := by cases old <;> simp_all
  rw [PySpec.replace, hne]
  exact replace_s x old h (.str raw) hraw (fun s c => PySpec.replaceGo old raw s 0 c)
    (fun s c hs => PySpec.replaceGo_absent old raw s c hs)
    (fun s => PySpec.replaceGo_zero old raw s)
    (fun pre post c hc hs => PySpec.replaceGo_first old raw h pre post c hc hs) count nid

/-- the empty `old` (both kinds of `new`): `new` is inserted before every character and at the end -/
theorem replace_text_empty (x : AStr) (new : AStr.Repl) (hnew : ReplOk new) (count : Int) (nid : Nat) :
    (x.replace [] new count nid).s = PySpec.replace x.s [] (replText new) count := by
  rw [PySpec.replace]
  exact replace_empty_s x new hnew (fun s c => PySpec.replaceEmpty (replText new) s c)
    (fun s => by cases s <;> simp [PySpec.replaceEmpty])
    (fun c hc => by simp [PySpec.replaceEmpty, hc])
    (fun a s c hc => by simp [PySpec.replaceEmpty, hc]) count nid

/-! ## 5 — expandtabs -/

/-- `expandtabs(tabsize)`: every tab becomes exactly `tabsize` spaces (the documented deviation
    from `str.expandtabs`, which pads to the next tab stop) -/
theorem expandtabs_text (x : AStr) (k : Int) (nid : Nat) :
    (x.expandtabs k nid).s = PySpec.replace x.s ['\t'] (List.replicate k.toNat ' ') (-1) := by
  unfold AStr.expandtabs
  refine replace_text_str x ['\t'] _ (-1) nid (by simp) ?_
  intro hmem
  have := List.eq_of_mem_replicate hmem
  exact absurd this (by decide)

/-! ## 6 — case methods -/

/-- case methods: CPython supplies the converted text, the model stores it unchanged -/
theorem mapText_text (x : AStr) (t : Str) : (x.mapText t).s = t := rfl

/-! ## 7 — split / rsplit / splitlines -/

/-- the model of `str.split(sep, maxsplit)` is lossless … -/
theorem split_join (s sep : Str) (m : Int) : joinSep sep (Py.splitSep s sep m) = s :=
  splitSep_join s sep m

/-- … and so is `rsplit` -/
theorem rsplit_join (s sep : Str) (m : Int) : joinSep sep (Py.rsplitSep s sep m) = s :=
  rsplitSep_join s sep m

/-- `maxsplit ≥ 0` bounds the number of pieces -/
theorem split_maxsplit (s sep : Str) (m : Int) (hm : 0 ≤ m) :
    (Py.splitSep s sep m).length ≤ m.toNat + 1 :=
  splitSepAux_length sep _ _ _ m hm

theorem rsplit_maxsplit (s sep : Str) (m : Int) (hm : 0 ≤ m) :
    (Py.rsplitSep s sep m).length ≤ m.toNat + 1 := by
  unfold Py.rsplitSep
  rw [List.length_reverse, List.length_map]
  exact split_maxsplit _ _ m hm

/-- The offsets `_split` recovers (`idx = find(piece, idx); idx += len(piece) + len(sep)`) are the
    TRUE offsets: the `k`-th one is the total length of the earlier pieces and separators. -/
theorem pieceOffsets_sep (s sep : Str) (m : Int) (r : Bool) (k : Nat) :
    let ps := if r then Py.rsplitSep s sep m else Py.splitSep s sep m
    (AStr.pieceOffsets s sep.length ps 0)[k]? =
      ps[k]?.map (fun p => (((ps.take k).map (fun q => q.length + sep.length)).sum, p.length)) := by
  intro ps
  have hj : s = [] ++ joinSep sep ps := by
    cases r
    · exact (splitSep_join s sep m).symm
    · exact (rsplitSep_join s sep m).symm
  have hne : ps ≠ [] := by
    cases r
    · exact splitSep_ne s sep m
    · exact rsplitSep_ne s sep m
  have h := (join_laid sep ps hne s [] hj).1
  simp only [List.length_nil] at h
  rw [h, offsetsFrom_getElem?]
  simp

/-- … and the slice of the base text taken there is the piece -/
theorem pieceOffsets_sep_slice (s sep : Str) (m : Int) (r : Bool) (k : Nat) (p : Str) :
    let ps := if r then Py.rsplitSep s sep m else Py.splitSep s sep m
    ps[k]? = some p →
    pySlice s (((ps.take k).map (fun q => q.length + sep.length)).sum)
      (((ps.take k).map (fun q => q.length + sep.length)).sum + p.length) = p := by
  intro ps hk
  have hj : s = [] ++ joinSep sep ps := by
    cases r
    · exact (splitSep_join s sep m).symm
    · exact (rsplitSep_join s sep m).symm
  have hne : ps ≠ [] := by
    cases r
    · exact splitSep_ne s sep m
    · exact rsplitSep_ne s sep m
  have htext := pieceOffsets_text s sep.length ps 0 (join_laid sep ps hne s [] hj).2
  have hoff := pieceOffsets_sep s sep m r k
  have := congrArg (fun l => l[k]?) htext
  simp only [List.getElem?_map] at this
  rw [hoff, hk] at this
  simpa [pySlice] using this

/-- `split(sep, maxsplit)` / `rsplit(sep, maxsplit)` with a non-empty separator: the texts of the
    pieces are the pieces of `str.split` / `str.rsplit` -/
theorem split_text (x : AStr) (sep : Str) (m : Int) (r : Bool) (ps : List AStr) (hsep : sep ≠ [])
    (h : x.splitGen (some sep) m r = .ok ps) :
    ps.map (·.s) = (if r then Py.rsplitSep x.s sep m else Py.splitSep x.s sep m) := by
  cases sep with
  | nil => exact absurd rfl hsep
  | cons c sp =>
    simp only [AStr.splitGen, Except.ok.injEq] at h
    subst h
    rw [piecesAt_s]
    have hj : x.s = [] ++ joinSep (c :: sp)
        (if r then Py.rsplitSep x.s (c :: sp) m else Py.splitSep x.s (c :: sp) m) := by
      cases r
      · exact (splitSep_join x.s _ m).symm
      · exact (rsplitSep_join x.s _ m).symm
    have hne : (if r then Py.rsplitSep x.s (c :: sp) m else Py.splitSep x.s (c :: sp) m) ≠ [] := by
      cases r
      · exact splitSep_ne x.s _ m
      · exact rsplitSep_ne x.s _ m
    exact pieceOffsets_text x.s _ _ 0 (join_laid (c :: sp) _ hne x.s [] hj).2

/-- what `str.split` means, in terms of the specification of `partition`: cut at the FIRST
    occurrence of `sep` (unless `maxsplit` is exhausted) and split the rest with `maxsplit - 1`.
    This equation determines `Py.splitSep` uniquely (the rest is shorter), so the model of
    `str.split` — including its fuel — is "repeated `partition`". -/
theorem split_is_repeated_partition (s sep : Str) (hsep : sep ≠ []) (m : Int) :
    Py.splitSep s sep m =
      if m = 0 then [s]
      else match PySpec.splitFirst sep s with
        | none => [s]
        | some ba => ba.1 :: Py.splitSep ba.2 sep (m - 1) := by
  rw [splitSep_unfold s sep hsep m]
  cases h : PySpec.splitFirst sep s with
  | none =>
    have hn := PySpec.splitFirst_none h
    rw [(find_none_iff _ _ _).mpr (fun i hi _ => hn i hi)]
  | some ba =>
    obtain ⟨b, a⟩ := ba
    obtain ⟨h1, h2⟩ := PySpec.splitFirst_some h
    have hocc : sep.isPrefixOf (s.drop b.length) = true := by rw [h1]; exact occ_of_decomp b sep a
    have hlen : b.length ≤ s.length := by rw [h1]; simp
    rw [(find_some_iff _ _ _ _).mpr ⟨hlen, Nat.zero_le _, hocc, fun i hi _ => h2 i hi⟩]
    simp only
    have ht : s.take b.length = b := by rw [h1, List.append_assoc]; exact List.take_left' rfl
    have hd : s.drop (b.length + sep.length) = a := by
      rw [h1]; exact List.drop_left' (by simp)
    rw [ht, hd]

/-- `rsplit` is the mirror image of `split` (by definition of the model) -/
theorem rsplit_is_mirror (s sep : Str) (m : Int) :
    Py.rsplitSep s sep m = ((Py.splitSep s.reverse sep.reverse m).map List.reverse).reverse := rfl

/-- the empty separator is `str`'s ValueError -/
theorem split_empty_sep (x : AStr) (m : Int) (r : Bool) :
    x.splitGen (some []) m r = .error .valueError := rfl

/-- whitespace splitting (`sep=None`): holds in full.  The offsets are recovered by a `find` from
    the previous end; they may be EARLIER than the true ones only for an empty piece (none occurs
    here), and in any case the slice found is the piece (`StrLikeL.pieceOffsets_text`). -/
theorem splitWs_text (x : AStr) (m : Int) (r : Bool) (ps : List AStr)
    (h : x.splitGen none m r = .ok ps) :
    ps.map (·.s) = (if r then Py.rsplitWs x.s m else Py.splitWs x.s m) := by
  simp only [AStr.splitGen, Except.ok.injEq] at h
  subst h
  rw [piecesAt_s]
  apply pieceOffsets_sub
  cases r
  · exact splitWs_sub x.s m
  · exact rsplitWs_sub x.s m

/-- `splitlines(keepends)`: holds in full (an empty line IS found "early", at the previous end
    instead of behind the line break — see the example below — but its text is empty either way) -/
theorem splitlines_text (x : AStr) (keep : Bool) :
    (x.splitlines keep).map (·.s) = Py.splitlines x.s keep := by
  unfold AStr.splitlines
  rw [piecesAt_s]
  exact pieceOffsets_sub _ _ (splitlines_sub x.s keep)

/-! ## `find` / `rfind` (used above; restated here for reference) -/

/-- `s.find(sub, start)` is the first position `≥ start` where `sub` is a prefix of the rest -/
theorem find_first (s sub : Str) (st i : Nat) :
    Py.find s sub st = some i ↔
      i ≤ s.length ∧ st ≤ i ∧ sub.isPrefixOf (s.drop i) = true ∧
        ∀ j, j < i → st ≤ j → sub.isPrefixOf (s.drop j) = false :=
  find_some_iff s sub st i

/-- `s.rfind(sub)` is the last such position -/
theorem rfind_last (s sub : Str) (i : Nat) :
    Py.rfind s sub = some i ↔
      i ≤ s.length ∧ sub.isPrefixOf (s.drop i) = true ∧
        ∀ j, i < j → j ≤ s.length → sub.isPrefixOf (s.drop j) = false :=
  rfind_some_iff s sub i

/-- `replace` with an AnsiString/AnsiStr `new`, any `old` (empty or not) -/
theorem replace_text_any (x : AStr) (old : Str) (v : AStr) (count : Int) (nid : Nat) :
    (x.replace old (.astr v) count nid).s = PySpec.replace x.s old v.s count := by
  cases old with
  | nil => exact replace_text_empty x (.astr v) trivial count nid
  | cons c o => exact replace_text x (c :: o) v count nid (by simp)

/-- `replace` with a plain `str` `new` without ESC, any `old` -/
theorem replace_text_str_any (x : AStr) (old raw : Str) (count : Int) (nid : Nat) (hraw : NoEsc raw) :
    (x.replace old (.str raw) count nid).s = PySpec.replace x.s old raw count := by
  cases old with
  | nil => exact replace_text_empty x (.str raw) hraw count nid
  | cons c o => exact replace_text_str x (c :: o) raw count nid (by simp) hraw

/-! ## Non-vacuity: the specifications and the model on concrete inputs -/

section Examples

/-- a styled value: `"  ab cab  "` with bold on `ab c` -/
private def exX : AStr :=
  { s := "  ab cab  ".toList,
    fmts := [(2, { add := [⟨0, "1".toList⟩] }), (6, { rem := [⟨0, "1".toList⟩] })] }

/-- a value with bold on its first character -/
private def exA (t : String) : AStr :=
  { s := t.toList, fmts := [(0, { add := [⟨0, "1".toList⟩] }), (1, { rem := [⟨0, "1".toList⟩] })] }

/-! strip -/
example : PySpec.strip Gen.whitespaceChars " \t ab c \n".toList = "ab c".toList := by decide
example : PySpec.lstrip "xy".toList "xyaxy".toList = "axy".toList := by decide
example : PySpec.rstrip "xy".toList "xyaxy".toList = "xya".toList := by decide
example : (exX.stripGen none true true false).s = "ab cab".toList := by decide
example : (exX.stripGen none false true true).s = "  ab cab".toList := by decide
/-- the corner case: everything is stripped from the left, `rcount` stays `None` -/
example : ((exA "   ").stripGen none true true false).s = [] ∧
    PySpec.strip Gen.whitespaceChars "   ".toList = [] := by decide

/-! removeprefix / removesuffix -/
example : PySpec.removeprefix "abcab".toList "ab".toList = "cab".toList := by decide
example : PySpec.removesuffix "abcab".toList "ab".toList = "abc".toList := by decide
example : PySpec.removesuffix "abcab".toList [] = "abcab".toList := by decide
example : PySpec.removeprefix "abcab".toList "b".toList = "abcab".toList := by decide
example : ((exA "abcab").removeprefix "ab".toList).s = "cab".toList := by decide
example : ((exA "abcab").removesuffix "ab".toList).s = "abc".toList := by decide

/-! partition / rpartition (self-overlapping pattern; absent separator) -/
example : PySpec.partition "aaa".toList "aa".toList = ([], "aa".toList, "a".toList) := by decide
example : PySpec.rpartition "aaa".toList "aa".toList = ("a".toList, "aa".toList, []) := by decide
example : PySpec.partition "k=v=w".toList "=".toList = ("k".toList, "=".toList, "v=w".toList) := by
  decide
example : PySpec.rpartition "k=v=w".toList "=".toList = ("k=v".toList, "=".toList, "w".toList) := by
  decide
example : PySpec.rpartition "abc".toList "=".toList = ("abc".toList, [], []) := by decide
example : (((exA "aaa").partitionGen "aa".toList true).1.s,
    ((exA "aaa").partitionGen "aa".toList true).2.1.s,
    ((exA "aaa").partitionGen "aa".toList true).2.2.s) = ("a".toList, "aa".toList, []) := by decide

/-! replace (self-overlapping pattern, count, empty `old`) -/
example : PySpec.replace "aaa".toList "aa".toList "b".toList (-1) = "ba".toList := by decide
example : PySpec.replace "aaaa".toList "a".toList "bb".toList 2 = "bbbbaa".toList := by decide
example : PySpec.replace "xabbbb".toList "ab".toList "ab-ab".toList (-1) = "xab-abbbb".toList := by
  decide
example : PySpec.replace "abc".toList [] "x".toList (-1) = "xaxbxcx".toList := by decide
example : PySpec.replace "abc".toList [] "x".toList 2 = "xaxbc".toList := by decide
example : PySpec.replace "abc".toList "b".toList "x".toList 0 = "abc".toList := by decide
/-- hypotheses of `replace_text` / `replace_text_str` are satisfiable -/
example : "aa".toList ≠ [] ∧ NoEsc "b-".toList := ⟨by decide, by unfold NoEsc; decide⟩
example : ((exA "aaa").replace "aa".toList (.astr (exA "b")) (-1) 7).s = "ba".toList := by decide
example : ((exA "aaa").replace "a".toList (.str "b-".toList) 2 7).s = "b-b-a".toList := by decide
example : ((exA "ab").replace [] (.astr (exA "x")) (-1) 7).s = "xaxbx".toList := by decide
/-- `NoEsc raw` is needed: a `str` replacement containing an SGR sequence is parsed (the sequence
    leaves the text; every match is still replaced — the loop advances by the length of what was
    inserted, after the repair of the library) -/
example : ((exA "aba").replace "a".toList (.str "\x1b[4mX".toList) (-1) 7).s = "XbX".toList ∧
    PySpec.replace "aba".toList "a".toList "\x1b[4mX".toList (-1) = "\x1b[4mXb\x1b[4mX".toList := by
  decide +kernel
example : ReplOk (.str "b-".toList) ∧ ReplOk (.astr (exA "x")) :=
  ⟨by show '\x1b' ∉ "b-".toList; decide, trivial⟩

/-! expandtabs -/
example : ((exA "a\tb\t").expandtabs 2 7).s = "a  b  ".toList := by decide
example : PySpec.replace "a\tb\t".toList ['\t'] (List.replicate (2 : Int).toNat ' ') (-1) =
    "a  b  ".toList := by decide

/-! split / rsplit (separator occurring inside later pieces; maxsplit; adjacent separators) -/
/-- the hypotheses of `split_text` are satisfiable -/
example : ∃ ps, (exA "xabbbb").splitGen (some "ab".toList) (-1) false = .ok ps ∧
    ps.map (·.s) = ["x".toList, "bbb".toList] := ⟨_, rfl, by decide⟩
example : ∃ ps, (exA "a,b,,c").splitGen (some ",".toList) 2 true = .ok ps ∧
    ps.map (·.s) = ["a,b".toList, [], "c".toList] := ⟨_, rfl, by decide⟩
example : Py.splitSep "abab".toList "ab".toList (-1) = [[], [], []] := by decide
example : Py.splitSep "a,b,c".toList ",".toList 1 = ["a".toList, "b,c".toList] := by decide
example : Py.rsplitSep "a,b,c".toList ",".toList 1 = ["a,b".toList, "c".toList] := by decide
example : AStr.pieceOffsets "a,,bc,".toList 1 (Py.splitSep "a,,bc,".toList ",".toList (-1)) 0 =
    [(0, 1), (2, 0), (3, 2), (6, 0)] := by decide
/-- the hypothesis of `splitWs_text` is satisfiable -/
example : ∃ ps, (exA " a  b ").splitGen none (-1) true = .ok ps ∧
    ps.map (·.s) = ["a".toList, "b".toList] := ⟨_, rfl, by decide⟩
example : ∃ ps, (exA " a  b c ").splitGen none 1 false = .ok ps ∧
    ps.map (·.s) = ["a".toList, "b c ".toList] := ⟨_, rfl, by decide⟩

/-! splitlines: an empty line is found EARLY (offset 1 instead of the true offset 2) — harmless
    for the text, since the piece is empty -/
example : AStr.pieceOffsets "a\n\nb".toList 0 (Py.splitlines "a\n\nb".toList false) 0 =
    [(0, 1), (1, 0), (3, 1)] ∧
    offsetsFrom 1 (Py.splitlines "a\n\nb".toList false) 0 = [(0, 1), (2, 0), (3, 1)] := by decide
example : ((exA "a\r\n\nb\n").splitlines true).map (·.s) =
    ["a\r\n".toList, "\n".toList, "b\n".toList] := by decide
example : ((exA "a\r\n\nb\n").splitlines false).map (·.s) = ["a".toList, [], "b".toList] := by
  decide

end Examples

#print axioms default_strip_set
#print axioms strip_text
#print axioms removeprefix_text
#print axioms removesuffix_text
#print axioms partition_text
#print axioms rpartition_text
#print axioms partition_lossless
#print axioms replace_text
#print axioms replace_text_str
#print axioms replace_text_empty
#print axioms replace_text_any
#print axioms replace_text_str_any
#print axioms expandtabs_text
#print axioms mapText_text
#print axioms split_join
#print axioms rsplit_join
#print axioms split_maxsplit
#print axioms rsplit_maxsplit
#print axioms pieceOffsets_sep
#print axioms pieceOffsets_sep_slice
#print axioms split_text
#print axioms split_is_repeated_partition
#print axioms split_empty_sep
#print axioms splitWs_text
#print axioms splitlines_text
#print axioms find_first
#print axioms rfind_last

end C10
