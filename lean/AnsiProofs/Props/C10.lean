import AnsiProofs.Lemmas.StrLike
/-
  Property C10 (text part) — every str-like method of AnsiString/AnsiStr produces result TEXT equal
  to the same `str` method applied to the base text.  Only `.s` is covered here (the settings of
  the pieces are a separate property).

  `namespace PySpec` holds declarative, list-recursive specifications of the `str` methods, written
  without the model's primitives (`Py.find`, `Py.startsWith`, slices, …): they use only core `List`
  functions (`dropWhile`, `isPrefixOf`, `isSuffixOf`, `take`, `drop`).  The section "the
  specifications mean what they say" proves the characteristic properties of the scanning
  specifications (first / last occurrence), which is also what links them to `find` / `rfind`.
-/

open SL

namespace PySpec

/-! ### strip -/

/-- `s.lstrip(cs)` -/
def lstrip (cs : Str) (s : Str) : Str := s.dropWhile (fun c => cs.contains c)

/-- `s.rstrip(cs)` -/
def rstrip (cs : Str) (s : Str) : Str := (s.reverse.dropWhile (fun c => cs.contains c)).reverse

/-- `s.strip(cs)` -/
def strip (cs : Str) (s : Str) : Str := rstrip cs (lstrip cs s)

/-! ### removeprefix / removesuffix -/

/-- `s.removeprefix(p)` -/
def removeprefix (s p : Str) : Str := if p.isPrefixOf s then s.drop p.length else s

/-- `s.removesuffix(p)` -/
def removesuffix (s p : Str) : Str :=
  if p.isSuffixOf s ∧ p ≠ [] then s.take (s.length - p.length) else s

/-! ### partition / rpartition -/

/-- `(before, after)` around the FIRST occurrence of `sep`, scanning left to right -/
def splitFirst (sep : Str) : Str → Option (Str × Str)
  | [] => if sep.isEmpty then some ([], []) else none
  | c :: rest =>
    if sep.isPrefixOf (c :: rest) then some ([], (c :: rest).drop sep.length)
    else (splitFirst sep rest).map (fun ba => (c :: ba.1, ba.2))

/-- `(before, after)` around the LAST occurrence of `sep`: an occurrence further right wins -/
def splitLast (sep : Str) : Str → Option (Str × Str)
  | [] => if sep.isEmpty then some ([], []) else none
  | c :: rest =>
    match splitLast sep rest with
    | some ba => some (c :: ba.1, ba.2)
    | none => if sep.isPrefixOf (c :: rest) then some ([], (c :: rest).drop sep.length) else none

/-- `s.partition(sep)` -/
def partition (s sep : Str) : Str × Str × Str :=
  match splitFirst sep s with
  | some ba => (ba.1, sep, ba.2)
  | none => (s, [], [])

/-- the library's `rpartition`: like `str.rpartition`, except that an absent separator gives
    `(s, '', '')` (documented deviation; `str` gives `('', '', s)`) -/
def rpartition (s sep : Str) : Str × Str × Str :=
  match splitLast sep s with
  | some ba => (ba.1, sep, ba.2)
  | none => (s, [], [])

end PySpec

/-! ## the specifications mean what they say -/

namespace PySpec

/-- `splitFirst` finds an occurrence, and no occurrence starts further left -/
theorem splitFirst_some {sep s b a : Str} (h : splitFirst sep s = some (b, a)) :
    s = b ++ sep ++ a ∧ ∀ j, j < b.length → sep.isPrefixOf (s.drop j) = false := by
  induction s generalizing b with
  | nil =>
    simp only [splitFirst] at h
    split at h
    · rename_i he
      cases h
      have : sep = [] := List.isEmpty_iff.mp he
      subst this
      exact ⟨rfl, fun j hj => by cases hj⟩
    · cases h
  | cons c rest ih =>
    simp only [splitFirst] at h
    split at h
    · rename_i hp
      cases h
      obtain ⟨t, ht⟩ := List.isPrefixOf_iff_prefix.mp hp
      refine ⟨?_, fun j hj => by cases hj⟩
      rw [← ht]; simp
    · rename_i hp
      cases hr : splitFirst sep rest with
      | none => rw [hr] at h; cases h
      | some ba =>
        rw [hr] at h
        cases h
        obtain ⟨h1, h2⟩ := ih (b := ba.1) hr
        refine ⟨by rw [h1]; simp, ?_⟩
        intro j hj
        cases j with
        | zero => rw [List.drop_zero]; exact Bool.eq_false_iff.mpr hp
        | succ j => simpa using h2 j (by simpa using hj)

/-- `splitFirst` fails only if there is no occurrence at all -/
theorem splitFirst_none {sep s : Str} (h : splitFirst sep s = none) :
    ∀ j, j ≤ s.length → sep.isPrefixOf (s.drop j) = false := by
  induction s with
  | nil =>
    simp only [splitFirst] at h
    split at h
    · cases h
    · rename_i he
      intro j hj
      have : j = 0 := by simpa using hj
      subst this
      cases sep <;> simp_all
  | cons c rest ih =>
    simp only [splitFirst] at h
    split at h
    · cases h
    · rename_i hp
      cases hr : splitFirst sep rest with
      | some ba => rw [hr] at h; cases h
      | none =>
        intro j hj
        cases j with
        | zero => rw [List.drop_zero]; exact Bool.eq_false_iff.mpr hp
        | succ j => simpa using ih hr j (by simpa using hj)

/-- `splitLast` finds an occurrence, and no occurrence starts further right -/
theorem splitLast_some {sep s b a : Str} (h : splitLast sep s = some (b, a)) :
    s = b ++ sep ++ a ∧
      ∀ j, b.length < j → j ≤ s.length → sep.isPrefixOf (s.drop j) = false := by
  induction s generalizing b with
  | nil =>
    simp only [splitLast] at h
    split at h
    · rename_i he
      cases h
      have : sep = [] := List.isEmpty_iff.mp he
      subst this
      exact ⟨rfl, fun j hj hl => by simp at hl; omega⟩
    · cases h
  | cons c rest ih =>
    simp only [splitLast] at h
    cases hr : splitLast sep rest with
    | some ba =>
      rw [hr] at h
      cases h
      obtain ⟨h1, h2⟩ := ih (b := ba.1) hr
      refine ⟨by rw [h1]; simp, ?_⟩
      intro j hj hl
      cases j with
      | zero => cases hj
      | succ j => simpa using h2 j (by simpa using hj) (by simpa using hl)
    | none =>
      rw [hr] at h
      simp only at h
      split at h
      · rename_i hp
        cases h
        obtain ⟨t, ht⟩ := List.isPrefixOf_iff_prefix.mp hp
        refine ⟨by rw [← ht]; simp, ?_⟩
        intro j hj hl
        cases j with
        | zero => cases hj
        | succ j =>
          have := splitLast_none_aux hr j (by simpa using hl)
          simpa using this
      · cases h
where
  splitLast_none_aux {sep s : Str} (h : splitLast sep s = none) :
      ∀ j, j ≤ s.length → sep.isPrefixOf (s.drop j) = false := by
    induction s with
    | nil =>
      simp only [splitLast] at h
      split at h
      · cases h
      · intro j hj
        have : j = 0 := by simpa using hj
        subst this
        cases sep <;> simp_all
    | cons c rest ih =>
      simp only [splitLast] at h
      cases hr : splitLast sep rest with
      | some ba => rw [hr] at h; cases h
      | none =>
        rw [hr] at h
        simp only at h
        split at h
        · cases h
        · rename_i hp
          intro j hj
          cases j with
          | zero => rw [List.drop_zero]; exact Bool.eq_false_iff.mpr hp
          | succ j => simpa using ih hr j (by simpa using hj)

/-- `splitLast` fails only if there is no occurrence at all -/
theorem splitLast_none {sep s : Str} (h : splitLast sep s = none) :
    ∀ j, j ≤ s.length → sep.isPrefixOf (s.drop j) = false :=
  splitLast_some.splitLast_none_aux h

end PySpec

/-! ## 1 — strip / lstrip / rstrip -/

/-- the default strip set (`WHITESPACE_CHARS`) is `' \t\n\r\v\f'` -/
theorem default_strip_set :
    Gen.whitespaceChars = [' ', '\t', '\n', '\r', Char.ofNat 11, Char.ofNat 12] := by decide

/-- `_strip(chars, inplace, do_lstrip, do_rstrip)`: the text is `str.strip/lstrip/rstrip` of the
    base text (with the default set when `chars is None`), whatever `inplace` is -/
theorem strip_text (x : AStr) (chars : Option Str) (doL doR ip : Bool) :
    (x.stripGen chars doL doR ip).s =
      (if doR then PySpec.rstrip (chars.getD Gen.whitespaceChars) else id)
        ((if doL then PySpec.lstrip (chars.getD Gen.whitespaceChars) else id) x.s) :=
  stripGen_s x chars doL doR ip

/-- the public `strip` -/
theorem strip_text_both (x : AStr) (chars : Option Str) (ip : Bool) :
    (x.stripGen chars true true ip).s = PySpec.strip (chars.getD Gen.whitespaceChars) x.s :=
  strip_text x chars true true ip

/-! ## 2 — removeprefix / removesuffix -/

theorem removeprefix_text (x : AStr) (p : Str) :
    (x.removeprefix p).s = PySpec.removeprefix x.s p := by
  unfold AStr.removeprefix PySpec.removeprefix
  rw [startsWith_eq]
  cases h : p.isPrefixOf x.s with
  | false => rfl
  | true => simp only [Bool.not_true, Bool.false_eq_true, if_false, if_true]; exact getSlice_from_s x _

theorem removesuffix_text (x : AStr) (p : Str) :
    (x.removesuffix p).s = PySpec.removesuffix x.s p := by
  unfold AStr.removesuffix PySpec.removesuffix
  rw [endsWith_eq]
  cases p with
  | nil => simp
  | cons c p =>
    cases h : (c :: p).isSuffixOf x.s with
    | false => simp
    | true =>
      simp only [List.isEmpty_cons, Bool.false_eq_true, Bool.not_true, or_self, if_false, ne_eq,
        reduceCtorEq, not_false_eq_true, and_self, if_true]
      rw [getSlice_negstop_s x none (c :: p).length (by simp)]
      rfl

/-! ## 3 — partition / rpartition -/

/-- `partition(sep)`: the texts are `str.partition` of the base text (any `sep`; CPython raises
    ValueError for the empty one, which is outside the claim) -/
theorem partition_text (x : AStr) (sep : Str) :
    ((x.partitionGen sep false).1.s, (x.partitionGen sep false).2.1.s,
      (x.partitionGen sep false).2.2.s) = PySpec.partition x.s sep := by
  unfold PySpec.partition
  cases h : PySpec.splitFirst sep x.s with
  | none =>
    have hn := PySpec.splitFirst_none h
    have : Py.find x.s sep 0 = none := (find_none_iff _ _ _).mpr (fun i hi _ => hn i hi)
    rw [partitionGen_none x sep false (by simpa using this)]
  | some ba =>
    obtain ⟨b, a⟩ := ba
    obtain ⟨h1, h2⟩ := PySpec.splitFirst_some h
    have hocc : sep.isPrefixOf (x.s.drop b.length) = true := by rw [h1]; exact occ_of_decomp b sep a
    have hlen : b.length ≤ x.s.length := by rw [h1]; simp
    have hf : Py.find x.s sep 0 = some b.length :=
      (find_some_iff _ _ _ _).mpr ⟨hlen, Nat.zero_le _, hocc, fun i hi _ => h2 i hi⟩
    rw [partitionGen_some x sep false b.length (by simpa using hf) hocc]
    simp only [h1]
    simp

/-- `rpartition(sep)`: last occurrence; `(s, '', '')` when absent (the documented deviation) -/
theorem rpartition_text (x : AStr) (sep : Str) :
    ((x.partitionGen sep true).1.s, (x.partitionGen sep true).2.1.s,
      (x.partitionGen sep true).2.2.s) = PySpec.rpartition x.s sep := by
  unfold PySpec.rpartition
  cases h : PySpec.splitLast sep x.s with
  | none =>
    have hn := PySpec.splitLast_none h
    have : Py.rfind x.s sep = none := (rfind_none_iff _ _).mpr hn
    rw [partitionGen_none x sep true (by simpa using this)]
  | some ba =>
    obtain ⟨b, a⟩ := ba
    obtain ⟨h1, h2⟩ := PySpec.splitLast_some h
    have hocc : sep.isPrefixOf (x.s.drop b.length) = true := by rw [h1]; exact occ_of_decomp b sep a
    have hlen : b.length ≤ x.s.length := by rw [h1]; simp
    have hf : Py.rfind x.s sep = some b.length := (rfind_some_iff _ _ _).mpr ⟨hlen, hocc, h2⟩
    rw [partitionGen_some x sep true b.length (by simpa using hf) hocc]
    simp only [h1]
    simp

/-- both are lossless: the three texts concatenate to the base text -/
theorem partition_lossless (x : AStr) (sep : Str) (r : Bool) :
    (x.partitionGen sep r).1.s ++ (x.partitionGen sep r).2.1.s ++ (x.partitionGen sep r).2.2.s =
      x.s := by
  cases h : (if r then Py.rfind x.s sep else Py.find x.s sep 0) with
  | none => rw [partitionGen_none x sep r h]; simp
  | some i =>
    have hocc : sep.isPrefixOf (x.s.drop i) = true := by
      cases r
      · exact ((find_some_iff _ _ _ _).mp (by simpa using h)).2.2.1
      · exact ((rfind_some_iff _ _ _).mp (by simpa using h)).2.1
    have := partitionGen_some x sep r i h hocc
    simp only [Prod.mk.injEq] at this
    rw [this.1, this.2.1, this.2.2]
    exact (occ_decomp x.s sep i hocc).symm

/-! ## 6 — case methods -/

/-- case methods: CPython supplies the converted text, the model stores it unchanged -/
theorem mapText_text (x : AStr) (t : Str) : (x.mapText t).s = t := rfl
