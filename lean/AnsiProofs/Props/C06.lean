import AnsiProofs.Lemmas.Apply
/-
  Property C06 — `apply_formatting(settings, start, end, topmost)`.

  "apply_formatting never changes the text; characters outside the slice-normalised range
  [start, end) keep their settings and precedence exactly, and every character inside gains exactly
  the given settings in addition to all it had before.  With topmost=False the displayed value of
  every effect that an existing setting on that character sets or clears is unchanged (the new
  settings show only where nothing conflicts); with topmost=True the new settings determine the
  displayed value of their effects on the first character of the range and on each following
  character of the range for as long as no other setting begins in between.  An empty range or an
  empty settings list is a no-op."

  Notation: `x` the value before, `N` the freshly created setting objects (`FreshN x N`: their
  identities are new and pairwise different), `st = sliceIdx x.len start 0`,
  `en = sliceIdx x.len end_ x.len` the slice-normalised bounds, `act y i` the settings character
  `i` of `y` reports, lowest precedence first (the last one wins).

  Everything is proved for all values, all settings lists and all bounds (no size limit).
-/

/-! ### 10. the bounds are Python's slice normalisation -/

theorem apply_bounds_none (n d : Nat) : sliceIdx n none d = d := rfl

theorem apply_bounds_neg (n : Nat) (v : Int) (d : Nat) (h : v < 0) :
    sliceIdx n (some v) d = ((n : Int) + v).toNat := by
  simp [sliceIdx, h]

theorem apply_bounds_nonneg (n : Nat) (v : Int) (d : Nat) (h : v ≥ 0) :
    sliceIdx n (some v) d = min v.toNat n := by
  have : ¬ v < 0 := by omega
  simp [sliceIdx, this]

/-- all three cases at once -/
theorem apply_bounds (n : Nat) (d : Nat) :
    sliceIdx n none d = d ∧
    (∀ v : Int, v < 0 → sliceIdx n (some v) d = ((n : Int) + v).toNat) ∧
    (∀ v : Int, v ≥ 0 → sliceIdx n (some v) d = min v.toNat n) :=
  ⟨rfl, fun v h => apply_bounds_neg n v d h, fun v h => apply_bounds_nonneg n v d h⟩

example : sliceIdx 6 (some (-2)) 0 = 4 ∧ sliceIdx 6 (some (-9)) 0 = 0 ∧ sliceIdx 6 (some 9) 6 = 6 := by
  decide

/-! ### 1. the text is never changed -/

theorem apply_text (x : AStr) (N : List Setting) (start end_ : Option Int) (top : Bool) :
    (x.applyFormatting N start end_ top).s = x.s := by
  unfold AStr.applyFormatting
  simp only
  split
  · rfl
  · split <;> rfl

/-! ### 2. an empty range or an empty settings list is a no-op -/

theorem apply_noop (x : AStr) (N : List Setting) (start end_ : Option Int) (top : Bool)
    {st en : Nat} (hst : st = sliceIdx x.len start 0) (hen : en = sliceIdx x.len end_ x.len)
    (h : st ≥ x.len ∨ en ≤ st ∨ N = []) : x.applyFormatting N start end_ top = x := by
  subst hst hen
  unfold AStr.applyFormatting
  simp only
  split
  · rfl
  · rename_i h1
    have hN : N = [] := by
      rcases h with h | h | h
      · exact absurd (Or.inl h) h1
      · exact absurd (Or.inr h) h1
      · exact h
    simp [hN]

/-- either nothing happens, or the range is a non-empty range inside the text and `N ≠ []` -/
theorem apply_cases (x : AStr) (N : List Setting) (start end_ : Option Int) (top : Bool)
    {st en : Nat} (hst : st = sliceIdx x.len start 0) (hen : en = sliceIdx x.len end_ x.len) :
    x.applyFormatting N start end_ top = x ∨ (st < x.len ∧ st < en ∧ N ≠ []) := by
  by_cases h : st ≥ x.len ∨ en ≤ st ∨ N = []
  · exact Or.inl (apply_noop x N start end_ top hst hen h)
  · refine Or.inr ⟨?_, ?_, ?_⟩
    · omega
    · omega
    · exact fun e => h (Or.inr (Or.inr e))

/-! The example value used for every non-vacuity check: text `abcdef`, red (`31`, object 0) on
    `[0,4)`, green (`32`, object 1) on `[2,6)` — two overlapping, conflicting settings —
    and two new objects bold (`1`) and blue (`34`). -/

def exX : AStr :=
  { s := "abcdef".toList
    fmts := [(0, { add := [⟨0, "31".toList⟩] }), (2, { add := [⟨1, "32".toList⟩] }),
             (4, { rem := [⟨0, "31".toList⟩] }), (6, { rem := [⟨1, "32".toList⟩] })] }

def exN : List Setting := [⟨5, "1".toList⟩, ⟨6, "34".toList⟩]

theorem exX_wf : WF exX where
  sorted := by unfold SortedKeys; decide
  bound := by decide
  noAddEnd := by decide
  ok := by decide
  nodup := nodup_all_of_le (m := 6) (by decide) (by decide)
  closed := by decide
  coherent := by decide

theorem exN_fresh : FreshN exX exN := ⟨by decide, by decide⟩

-- 2. on the example: reversed range, empty settings list, start at the end of the text
example : exX.applyFormatting exN (some 4) (some 2) true = exX ∧
    exX.applyFormatting [] (some 1) (some 5) false = exX ∧
    exX.applyFormatting exN (some 6) none true = exX := by decide

/-! ### 3. outside the range nothing changes -/

theorem apply_outside (x : AStr) (N : List Setting) (start end_ : Option Int) (top : Bool)
    {st en : Nat} (hst : st = sliceIdx x.len start 0) (hen : en = sliceIdx x.len end_ x.len)
    (hw : WF x) (hf : FreshN x N) (i : Nat) (hi : i < st ∨ en ≤ i) :
    act (x.applyFormatting N start end_ top) i = act x i := by
  rcases apply_cases x N start end_ top hst hen with h | ⟨h1, h2, hN⟩
  · rw [h]
  · unfold act
    rw [active_eq_before hw.sorted]
    cases top with
    | true =>
      obtain ⟨_, hs', hu, _⟩ := apply_topUpd hw hf hst hen h1 h2 hN
      rw [active_eq_before hs']
      rcases hi with hi | hi
      · exact hu.before_le (by omega)
      · exact hu.before_gt (by omega)
    | false =>
      obtain ⟨_, hs', hu, _⟩ := apply_botUpd hw hf hst hen h1 h2 hN
      rw [active_eq_before hs']
      rcases hi with hi | hi
      · exact hu.before_le (by omega)
      · exact hu.before_gt (by omega)

-- hypotheses satisfiable, and the conclusion on the example (range [1,3), characters 0 and 3)
example : WF exX ∧ FreshN exX exN ∧ ((0 : Nat) < sliceIdx exX.len (some 1) 0 ∨ sliceIdx exX.len (some 3) exX.len ≤ 3) :=
  ⟨exX_wf, exN_fresh, by decide⟩
example : act (exX.applyFormatting exN (some 1) (some 3) true) 3 = act exX 3 := by decide

/-! ### 4. inside the range, topmost=True: exactly the new settings are gained, as one block,
    everything else keeps its relative order -/

theorem apply_inside_top (x : AStr) (N : List Setting) (start end_ : Option Int)
    {st en : Nat} (hst : st = sliceIdx x.len start 0) (hen : en = sliceIdx x.len end_ x.len)
    (hw : WF x) (hf : FreshN x N) (i : Nat) (h1 : st ≤ i) (h2 : i < en) (h3 : st < x.len) :
    ∃ p q, act x i = p ++ q ∧ act (x.applyFormatting N start end_ true) i = p ++ N ++ q := by
  by_cases hN : N = []
  · rw [apply_noop x N start end_ true hst hen (Or.inr (Or.inr hN)), hN]
    exact ⟨act x i, [], by simp, by simp⟩
  · obtain ⟨_, hs', hu, _⟩ := apply_topUpd hw hf hst hen h3 (by omega) hN
    unfold act
    rw [active_eq_before hw.sorted, active_eq_before hs']
    exact hu.ins (by omega) (by omega)

/-! ### 5. topmost=True, first character of the range: the new settings come last (they win) -/

theorem apply_top_first (x : AStr) (N : List Setting) (start end_ : Option Int)
    {st en : Nat} (hst : st = sliceIdx x.len start 0) (hen : en = sliceIdx x.len end_ x.len)
    (hw : WF x) (hf : FreshN x N) (h1 : st < x.len) (h2 : st < en) :
    act (x.applyFormatting N start end_ true) st = act x st ++ N := by
  by_cases hN : N = []
  · rw [apply_noop x N start end_ true hst hen (Or.inr (Or.inr hN)), hN]; simp
  · obtain ⟨_, hs', hu, _⟩ := apply_topUpd hw hf hst hen h1 h2 hN
    unfold act
    rw [active_eq_before hw.sorted, active_eq_before hs']
    exact hu.before_st

/-! ### 6. topmost=True: … and on every following character of the range for as long as no other
    setting begins in between -/

theorem apply_top_until (x : AStr) (N : List Setting) (start end_ : Option Int)
    {st en : Nat} (hst : st = sliceIdx x.len start 0) (hen : en = sliceIdx x.len end_ x.len)
    (hw : WF x) (hf : FreshN x N) (i : Nat) (h1 : st ≤ i) (h2 : i < en) (h3 : st < x.len)
    (hquiet : ∀ k, st < k → k ≤ i → (x.fmts.getD k).add = []) :
    act (x.applyFormatting N start end_ true) i = act x i ++ N := by
  by_cases hN : N = []
  · rw [apply_noop x N start end_ true hst hen (Or.inr (Or.inr hN)), hN]; simp
  · obtain ⟨_, hs', hu, _⟩ := apply_topUpd hw hf hst hen h3 (by omega) hN
    unfold act
    rw [active_eq_before hw.sorted, active_eq_before hs']
    exact hu.upto (by omega) (by omega) (fun j a b => hquiet j a (by omega))

/-! ### 7. inside the range, topmost=False: the new settings come first (lowest precedence);
    everything that was there stays on top, in its old order -/

theorem apply_inside_bottom (x : AStr) (N : List Setting) (start end_ : Option Int)
    {st en : Nat} (hst : st = sliceIdx x.len start 0) (hen : en = sliceIdx x.len end_ x.len)
    (hw : WF x) (hf : FreshN x N) (i : Nat) (h1 : st ≤ i) (h2 : i < en) (h3 : st < x.len) :
    act (x.applyFormatting N start end_ false) i = N ++ act x i := by
  by_cases hN : N = []
  · rw [apply_noop x N start end_ false hst hen (Or.inr (Or.inr hN)), hN]; simp
  · obtain ⟨_, hs', hu, _⟩ := apply_botUpd hw hf hst hen h3 (by omega) hN
    unfold act
    rw [active_eq_before hw.sorted, active_eq_before hs']
    exact hu.inside (by omega) (by omega)

-- hypotheses of 4–7 on the example: range [1,5) of `abcdef`, which the start of green (index 2)
-- and the end of red (index 4) both fall into; index 1 is "quiet" for 6.
example : WF exX ∧ FreshN exX exN ∧ sliceIdx exX.len (some 1) 0 ≤ 3 ∧ 3 < sliceIdx exX.len (some 5) exX.len ∧
    sliceIdx exX.len (some 1) 0 < exX.len := ⟨exX_wf, exN_fresh, by decide⟩
example : ∀ k, sliceIdx exX.len (some 1) 0 < k → k ≤ 1 → (exX.fmts.getD k).add = [] := by
  intro k a b
  have : sliceIdx exX.len (some 1) 0 = 1 := by decide
  omega
-- what the conclusions say on the example
example : act exX 3 = [⟨0, "31".toList⟩, ⟨1, "32".toList⟩] ∧
    act (exX.applyFormatting exN (some 1) (some 5) true) 3 = [⟨0, "31".toList⟩] ++ exN ++ [⟨1, "32".toList⟩] ∧
    act (exX.applyFormatting exN (some 1) (some 5) true) 1 = [⟨0, "31".toList⟩] ++ exN ∧
    act (exX.applyFormatting exN (some 1) (some 5) false) 3 = exN ++ [⟨0, "31".toList⟩, ⟨1, "32".toList⟩] := by
  decide

/-! ### 8. the history invariant is kept -/

theorem apply_wf (x : AStr) (N : List Setting) (start end_ : Option Int) (top : Bool)
    (hw : WF x) (hf : FreshN x N) : WF (x.applyFormatting N start end_ top) := by
  rcases apply_cases x N start end_ top rfl rfl with h | ⟨h1, h2, hN⟩
  · rw [h]; exact hw
  · have hen : sliceIdx x.len end_ x.len ≤ x.len := sliceIdx_le _ _ _ (Nat.le_refl _)
    cases top with
    | true =>
      obtain ⟨hs, hs', hu, hc⟩ := apply_topUpd hw hf rfl rfl h1 h2 hN
      exact wf_of_upd hw hf hs hs' hc h1 hen (hu.ok hw.before_ok) (hu.nodup hw.before_nodup)
        (fun k hk => hu.before_gt hk) hu.oth hu.add_en (fun k s h => hu.mem_new h)
    | false =>
      obtain ⟨hs, hs', hu, hc⟩ := apply_botUpd hw hf rfl rfl h1 h2 hN
      exact wf_of_upd hw hf hs hs' hc h1 hen (hu.ok hw.before_ok) (hu.nodup hw.before_nodup)
        (fun k hk => hu.before_gt hk) hu.oth hu.add_en (fun k s h => hu.mem_new h)

example : WF (exX.applyFormatting exN (some 1) (some 5) false) := apply_wf _ _ _ _ _ exX_wf exN_fresh

/-! ### 9. the objects `apply_formatting` creates are fresh; the raw entry point -/

theorem freshSettings_fresh (x : AStr) (nid : Nat) (ts : List Str) (h : FreshFrom x nid) :
    FreshN x (freshSettings nid ts) := by
  constructor
  · intro s hs t ht
    have h1 : s.id ∈ (freshSettings nid ts).map (·.id) := List.mem_map.mpr ⟨s, hs, rfl⟩
    rw [freshSettings_ids, List.mem_range'_1] at h1
    have := h t ht
    omega
  · rw [freshSettings_ids]
    exact List.nodup_range'

example : FreshFrom exX 5 := by unfold FreshFrom; decide
example : freshSettings 5 ["1".toList, "34".toList] = exN := by decide

/-- `apply_formatting` as called: either nothing happens, or the scrubbed settings are turned into
    fresh objects and applied.  (An error result carries no value at all: `Except.error` has no
    state component, so "an error leaves the value unchanged" is built into the type —
    `applyRaw_error_pure` needs no proof.) -/
theorem applyRaw_spec (x y : AStr) (nid : Nat) (a : SArg) (start end_ : Option Int) (top : Bool)
    (h : x.applyRaw nid a start end_ top = .ok y) :
    y = x ∨ ∃ ts, Scrub.scrub a = .ok ts ∧ y = x.applyFormatting (freshSettings nid ts) start end_ top := by
  unfold AStr.applyRaw at h
  simp only at h
  split at h
  · left; cases h; rfl
  · right
    cases hs : Scrub.scrub a with
    | error e => simp [hs, bind, Except.bind] at h
    | ok ts =>
      refine ⟨ts, rfl, ?_⟩
      simp only [hs, bind, Except.bind, pure, Except.pure] at h
      cases h; rfl

example : (exX.applyRaw 5 (.list [.int 1, .int 34]) (some 1) (some 5) true).toOption =
    some (exX.applyFormatting exN (some 1) (some 5) true) := by decide +kernel

#print axioms apply_bounds
#print axioms apply_text
#print axioms apply_noop
#print axioms apply_outside
#print axioms apply_inside_top
#print axioms apply_top_first
#print axioms apply_top_until
#print axioms apply_inside_bottom
#print axioms apply_wf
#print axioms freshSettings_fresh
#print axioms applyRaw_spec
