import AnsiProofs.Props.C05c
import AnsiModel.Replay
import AnsiModel.Generated.Methods.IterStep
/-
  Property C09, part c — one step of `_AnsiSettingsIterator`, from the source.

  Everything that reads a value — rendering, `settings_at`, slicing, removal, `find_settings`, `+=` —
  replays the change-point table through `_AnsiSettingsIterator.__next__`; the model's `stepPoint`
  (and `stepOk`, the library's own `WITH_ASSERTIONS` self-check) is what all replay lemmas stand on.
  `Gen.iterStep` is the body of `__next__` after the point has been fetched, translated statement by
  statement on every run (harness/pyobj.py): the loop over `settings.rem` that looks each stop marker
  up *by identity* (`_find_setting_reference`) and deletes it at the index found, then the extension
  by `settings.add`.
-/
namespace C09c

theorem translated : Gen.iterStepOk = true := by decide

/-- `del cur[i]` at the index `_find_setting_reference` found is the model's `eraseId` -/
private theorem del_found (cur : List Setting) (s : Setting) :
    (if Gen.findSettingReference s cur ≥ 0 then Py.delIdx cur (Gen.findSettingReference s cur) else .ok cur) =
      .ok (eraseId cur s.id) := by
  rw [C05c.find_reference_index]
  unfold eraseId
  rw [List.eraseP_eq_eraseIdx]
  cases h : cur.findIdx? (fun x => x.id == s.id) with
  | none => simp
  | some i =>
    have hi : i < cur.length := by
      have := List.findIdx?_eq_some_iff_getElem.mp h
      exact this.1
    have h1 : (0 : Int) ≤ (i : Int) ∧ (i : Int) < cur.length := by omega
    simp [Py.delIdx, h1]

private theorem found_iff (cur : List Setting) (s : Setting) :
    decide (Gen.findSettingReference s cur ≥ 0) = hasId cur s.id := C05c.find_reference_is_code s cur

/-- what one round of the loop has to do, whatever it looks like: delete the marker found by identity,
    or — nothing found — leave the list (`strict = false`) / raise (`strict = true`) -/
private def RoundSpec (strict : Bool) (f : List Setting → Setting → Except Exc (List Setting)) : Prop :=
  ∀ c s, f c s = if hasId c s.id then .ok (eraseId c s.id)
                 else if strict then .error (.py .valueError) else .ok c

private theorem eraseId_of_not_has {c : List Setting} {i : Nat} (h : hasId c i = false) : eraseId c i = c := by
  unfold eraseId
  unfold hasId at h
  apply List.eraseP_of_forall_not
  intro a ha
  have := List.any_eq_false.mp h a ha
  simpa using this

private theorem fold_plain (f : List Setting → Setting → Except Exc (List Setting)) (hf : RoundSpec false f)
    (rem cur : List Setting) :
    List.foldlM f cur rem = .ok (rem.foldl (fun c s => eraseId c s.id) cur) := by
  induction rem generalizing cur with
  | nil => rfl
  | cons s rest ih =>
    simp only [List.foldlM_cons, List.foldl_cons]
    rw [hf cur s]
    cases h : hasId cur s.id with
    | true => simp only [if_true]; exact ih _
    | false =>
      simp only [Bool.false_eq_true, if_false]
      rw [eraseId_of_not_has h]
      exact ih _

private theorem fold_strict (f : List Setting → Setting → Except Exc (List Setting)) (hf : RoundSpec true f)
    (rem cur : List Setting) :
    List.foldlM f cur rem =
      if stepOk cur rem then .ok (rem.foldl (fun c s => eraseId c s.id) cur) else .error (.py .valueError) := by
  induction rem generalizing cur with
  | nil => simp [stepOk]; rfl
  | cons s rest ih =>
    simp only [List.foldlM_cons, List.foldl_cons, stepOk]
    rw [hf cur s]
    by_cases h : hasId cur s.id = true
    · simp only [h, if_true, Bool.true_and]
      exact ih _
    · have h' : hasId cur s.id = false := by simpa using h
      simp [h']
      rfl

/-- the generated round meets the spec: the facts about `_find_setting_reference` and `del` it needs -/
private theorem round_facts (c : List Setting) (s : Setting) :
    (hasId c s.id = true → Gen.findSettingReference s c ≥ 0 ∧
        Py.delIdx c (Gen.findSettingReference s c) = .ok (eraseId c s.id)) ∧
    (hasId c s.id = false → ¬ Gen.findSettingReference s c ≥ 0) := by
  have hf := found_iff c s
  have hd := del_found c s
  constructor
  · intro h
    have hpos : Gen.findSettingReference s c ≥ 0 := by rw [h] at hf; exact of_decide_eq_true hf
    rw [if_pos hpos] at hd
    exact ⟨hpos, hd⟩
  · intro h
    rw [h] at hf; exact of_decide_eq_false hf

/-- THE MODEL'S `stepPoint` IS THE CODE'S `__next__` (self-check off, as shipped) -/
theorem iter_step_is_code (cur : List Setting) (p : Point) :
    Gen.iterStep cur p false = .ok (stepPoint cur p) := by
  unfold Gen.iterStep stepPoint
  rw [fold_plain _ ?spec]
  · simp [Except.bind]
  · intro c s
    obtain ⟨h1, h2⟩ := round_facts c s
    cases h : hasId c s.id with
    | true => obtain ⟨hp, hd⟩ := h1 h; simp [hp, hd, Except.bind]
    | false => have hn := h2 h; simp [hn]

/-- THE MODEL'S `stepOk` IS THE CODE'S SELF-CHECK: with `WITH_ASSERTIONS` on, `__next__` raises exactly
    when a stop marker is not the same object as an active setting -/
theorem iter_step_asserting (cur : List Setting) (p : Point) :
    Gen.iterStep cur p true =
      if stepOk cur p.rem then .ok (stepPoint cur p) else .error (.py .valueError) := by
  unfold Gen.iterStep stepPoint
  rw [fold_strict _ ?spec]
  · cases stepOk cur p.rem <;> simp [Except.bind]
  · intro c s
    obtain ⟨h1, h2⟩ := round_facts c s
    cases h : hasId c s.id with
    | true => obtain ⟨hp, hd⟩ := h1 h; simp [hp, hd, Except.bind]
    | false => have hn := h2 h; simp [hn]

/-- equal value is not enough: a stop marker with the value of an active setting but another identity
    removes nothing (and trips the self-check) -/
example : Gen.iterStep [⟨1, "31".toList⟩] { rem := [⟨2, "31".toList⟩] } false = .ok [⟨1, "31".toList⟩] := by decide +kernel
example : Gen.iterStep [⟨1, "31".toList⟩] { rem := [⟨2, "31".toList⟩] } true = .error (.py .valueError) := by decide +kernel
example : Gen.iterStep [⟨1, "31".toList⟩, ⟨2, "1".toList⟩] { rem := [⟨1, "31".toList⟩], add := [⟨3, "4".toList⟩] } true =
    .ok [⟨2, "1".toList⟩, ⟨3, "4".toList⟩] := by decide +kernel

end C09c

#print axioms C09c.iter_step_is_code
#print axioms C09c.iter_step_asserting
