import AnsiProofs.Lemmas.Tokenize
/-
  Property C19 — `ParsedAnsiControlSequenceString(s)` is lossless for every string `s`;
  each cursor_*/erase_*/scroll_* helper returns exactly one recognised sequence.

  The specification of the unformatted text (`C19Spec.recognised`, `C19Spec.removeRecognised`)
  lives in `AnsiProofs/Lemmas/Tokenize.lean` (namespace `C19Spec`) because the helper lemmas
  mention it; it is written independently of the tokenizer's mode machine (scan for `ESC [`,
  `takeWhile`/`dropWhile` of the parameter characters, acceptance rule as stated by the property).
-/

/-! ## T1 — re-inserting the recorded sequences reproduces `s` exactly -/

/-- `formatted_str` / `str()` / `repr()` of the parse of `s` is `s`, for every string -/
theorem tokenize_lossless (s : Str) (allowEmpty : Bool) (acc : Option Str) :
    (tokenize s allowEmpty acc).formatted = s := by
  have := tokLoop_formatted allowEmpty acc .text s {} Parsed.keysLe_empty
  simpa [tokenize, TokMode.pending, Parsed.formatted] using this

/-! ## T2 — `unformatted_str` is `s` with the recognised control sequences removed -/

theorem tokenize_unformatted (s : Str) (allowEmpty : Bool) (acc : Option Str) :
    (tokenize s allowEmpty acc).text = C19Spec.removeRecognised allowEmpty acc s := by
  have := tokLoop_text allowEmpty acc .text s {}
  simpa [tokenize, tokCont] using this

/-! ## T3 — the recorded sequences are well formed, keys strictly ascending -/

theorem tokenize_wellformed (s : Str) (allowEmpty : Bool) (acc : Option Str) :
    (∀ kl ∈ (tokenize s allowEmpty acc).seqs,
      kl.1 ≤ (tokenize s allowEmpty acc).text.length ∧ kl.2 ≠ [] ∧
      ∀ c ∈ kl.2,
        (∀ ch ∈ c.sequence, isTerm ch = false) ∧
        (c.terminator = [] ∨ ∃ ch, c.terminator = [ch] ∧ isTerm ch = true) ∧
        (c.terminator = [] → allowEmpty = true) ∧
        (∀ a, acc = some a → ∀ ch, c.terminator = [ch] → ch ∈ a)) ∧
    ((tokenize s allowEmpty acc).seqs.map (·.1)).Pairwise (· < ·) := by
  have g := tokLoop_good allowEmpty acc .text s {} (good_empty _ _) trivial
  refine ⟨fun kl hkl => ⟨g.keysLe kl hkl, (g.blocks kl hkl).1, (g.blocks kl hkl).2⟩, g.asc⟩

/-! ## T4 — an unterminated sequence can only be the last element of the last block -/

/-- positional form: wherever a sequence with empty terminator occurs (block `kv` at position
    `init.length`, element at position `l1.length`), nothing follows it -/
theorem tokenize_empty_terminator_last (s : Str) (allowEmpty : Bool) (acc : Option Str)
    (init rest : List (Nat × List CtlSeq)) (kv : Nat × List CtlSeq)
    (hs : (tokenize s allowEmpty acc).seqs = init ++ kv :: rest)
    (l1 l2 : List CtlSeq) (c : CtlSeq) (hkv : kv.2 = l1 ++ c :: l2) (hc : c.terminator = []) :
    rest = [] ∧ l2 = [] :=
  tokLoop_lastOnly allowEmpty acc .text s {} noEmpty_empty init kv rest hs l1 c l2 hkv hc

/-- value form of T4: such a sequence is the last element of the last block -/
theorem tokenize_empty_terminator_getLast (s : Str) (allowEmpty : Bool) (acc : Option Str) :
    ∀ kv ∈ (tokenize s allowEmpty acc).seqs, ∀ c ∈ kv.2, c.terminator = [] →
      (tokenize s allowEmpty acc).seqs.getLast? = some kv ∧ kv.2.getLast? = some c := by
  intro kv hkv c hc hce
  obtain ⟨init, rest, hs⟩ := List.append_of_mem hkv
  obtain ⟨l1, l2, hl⟩ := List.append_of_mem hc
  obtain ⟨hr, hl2⟩ := tokenize_empty_terminator_last s allowEmpty acc init rest kv hs l1 l2 c hl hce
  subst hr hl2
  rw [hs, hl]
  simp

/-! ## T5 — the cursor/erase/scroll helpers -/

/-- hand-written specification table: documented final byte of each helper -/
def C19Spec.finalByte : List (String × Char) :=
  [("cursor_up_str", 'A'), ("cursor_down_str", 'B'), ("cursor_forward_str", 'C'),
   ("cursor_backward_str", 'D'), ("cursor_next_line_str", 'E'), ("cursor_previous_line_str", 'F'),
   ("cursor_horizontal_absolute_str", 'G'), ("cursor_position_str", 'H'),
   ("erase_in_display_str", 'J'), ("erase_in_line_str", 'K'), ("scroll_up_str", 'S'),
   ("scroll_down_str", 'T')]

/-- what `Main.lean`'s `helper` op computes from a table entry -/
def renderHelper (pieces : List Gen.HelperPiece) (args : List Int) : Str :=
  (pieces.map (fun p => match p with
    | .csi => Gen.csi
    | .lit l => l
    | .arg i => Py.intStr (args.getD i 0))).flatten

/-- Facts about the generated table (re-checked by `decide` whenever it is regenerated): every
    entry was translated, has the documented final byte (a terminator), and has one of the two
    shapes `CSI str(a) fb` (one parameter) or `CSI str(a) ; str(b) fb` (two parameters). -/
theorem helperTable_shape : ∀ e ∈ Gen.helperTable, ∃ p ∈ C19Spec.finalByte,
    p.1 = e.1 ∧ isTerm p.2 = true ∧
    ((e.2.1 = 1 ∧ e.2.2 = some [.csi, .arg 0, .lit [p.2]]) ∨
     (e.2.1 = 2 ∧ e.2.2 = some [.csi, .arg 0, .lit [';'], .arg 1, .lit [p.2]])) := by
  decide

/-- every documented helper is present in the generated table (and vice versa by the above) -/
theorem helperTable_complete :
    ∀ p ∈ C19Spec.finalByte, ∃ e ∈ Gen.helperTable, e.1 = p.1 ∧ e.2.2.isSome = true := by
  decide

theorem helper_one_sequence (name : String) (nargs : Nat) (pieces : List Gen.HelperPiece)
    (hmem : (name, nargs, some pieces) ∈ Gen.helperTable)
    (args : List Int) (hargs : args.length = nargs) :
    ∃ fb, (name, fb) ∈ C19Spec.finalByte ∧
      renderHelper pieces args = Gen.csi ++ joinSep [';'] (args.map Py.intStr) ++ [fb] ∧
      tokenize (renderHelper pieces args) =
        { text := [], seqs := [(0, [⟨joinSep [';'] (args.map Py.intStr), [fb]⟩])] } := by
  obtain ⟨⟨n', fb⟩, hp, hname, hterm, hshape⟩ := helperTable_shape _ hmem
  simp only at hname hterm hshape
  subst hname
  refine ⟨fb, hp, ?_⟩
  rcases hshape with ⟨h1, h2⟩ | ⟨h1, h2⟩
  · subst h1
    simp only [Option.some.injEq] at h2
    subst h2
    match args, hargs with
    | [a], _ =>
      have hr : renderHelper [.csi, .arg 0, .lit [fb]] [a] = Gen.csi ++ Py.intStr a ++ [fb] := by
        simp [renderHelper]
      rw [hr]
      refine ⟨by simp [joinSep_one], ?_⟩
      simpa [joinSep_one] using
        tokenize_single true none (Py.intStr a) fb (intStr_not_term a) hterm (by simp [acceptSeq])
  · subst h1
    simp only [Option.some.injEq] at h2
    subst h2
    match args, hargs with
    | [a, b], _ =>
      have hr : renderHelper [.csi, .arg 0, .lit [';'], .arg 1, .lit [fb]] [a, b] =
          Gen.csi ++ (Py.intStr a ++ [';'] ++ Py.intStr b) ++ [fb] := by
        simp [renderHelper]
      rw [hr]
      refine ⟨by simp [joinSep_two], ?_⟩
      have hps : ∀ ch ∈ Py.intStr a ++ [';'] ++ Py.intStr b, isTerm ch = false := by
        intro ch hch
        simp only [List.mem_append, List.mem_singleton] at hch
        rcases hch with (hch | hch) | hch
        · exact intStr_not_term a ch hch
        · rw [hch]; exact semicolon_not_term
        · exact intStr_not_term b ch hch
      simpa [joinSep_two] using
        tokenize_single true none _ fb hps hterm (by simp [acceptSeq])

/-! ## Non-vacuity -/

/-- two sequences at one position, text around them, an unterminated sequence at the end -/
example : tokenize "ab\x1b[1;31m\x1b[2Jcd\x1b[3".toList true none =
    { text := "abcd".toList,
      seqs := [(2, [⟨"1;31".toList, "m".toList⟩, ⟨"2".toList, "J".toList⟩]),
               (4, [⟨"3".toList, []⟩])] } := by decide

/-- restricted terminators: `J` is not acceptable, so that sequence stays in the text -/
example : tokenize "a\x1b[1mb\x1b[2Jc".toList true (some "m".toList) =
    { text := "ab\x1b[2Jc".toList, seqs := [(1, [⟨"1".toList, "m".toList⟩])] } := by decide

/-- unterminated sequences not allowed: it stays in the text -/
example : tokenize "a\x1b[1".toList false none = { text := "a\x1b[1".toList, seqs := [] } := by
  decide

/-- the specification evaluated on its own (no tokenizer involved) -/
example : C19Spec.removeRecognised true none "ab\x1b[1;31m\x1b[2Jcd\x1b[3".toList = "abcd".toList := by
  simp [C19Spec.removeRecognised, C19Spec.isParamChar, C19Spec.recognised, isTerm,
    Gen.termLo, Gen.termHi]

/-- the specification with a restricted terminator set / unterminated sequences disallowed -/
example : C19Spec.removeRecognised false (some "m".toList) "a\x1b[1mb\x1b[2Jc\x1b[3".toList =
    "ab\x1b[2Jc\x1b[3".toList := by
  simp [C19Spec.removeRecognised, C19Spec.isParamChar, C19Spec.recognised, isTerm,
    Gen.termLo, Gen.termHi]

/-- T4's hypotheses are satisfiable: the unterminated `ESC [ 3` is last of the last block -/
example : ∃ init kv l1 c,
    (tokenize "ab\x1b[1m\x1b[2Jcd\x1b[5n\x1b[3".toList true none).seqs = init ++ kv :: [] ∧
    kv.2 = l1 ++ c :: [] ∧ c.terminator = [] ∧ init ≠ [] ∧ l1 ≠ [] :=
  ⟨[(2, [⟨"1".toList, "m".toList⟩, ⟨"2".toList, "J".toList⟩])],
   (4, [⟨"5".toList, "n".toList⟩, ⟨"3".toList, []⟩]), [⟨"5".toList, "n".toList⟩],
   ⟨"3".toList, []⟩, by decide⟩

/-- T5 instantiated: `cursor_position_str(3, -4)` is `ESC [ 3 ; - 4 H` -/
example : ("cursor_position_str", 2,
    some [Gen.HelperPiece.csi, .arg 0, .lit [';'], .arg 1, .lit ['H']]) ∈ Gen.helperTable := by decide

example : renderHelper [.csi, .arg 0, .lit [';'], .arg 1, .lit ['H']] [3, -4] = "\x1b[3;-4H".toList := by
  decide

example : tokenize (renderHelper [.csi, .arg 0, .lit ['A']] [12]) =
    { text := [], seqs := [(0, [⟨"12".toList, "A".toList⟩])] } := by decide

#print axioms tokenize_lossless
#print axioms tokenize_unformatted
#print axioms tokenize_wellformed
#print axioms tokenize_empty_terminator_last
#print axioms tokenize_empty_terminator_getLast
#print axioms helperTable_shape
#print axioms helperTable_complete
#print axioms helper_one_sequence
