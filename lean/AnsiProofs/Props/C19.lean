import AnsiProofs.Lemmas.Tokenize
/-
  Property C19 — `ParsedAnsiControlSequenceString(s)` is lossless for every string `s`;
  each cursor_*/erase_*/scroll_* helper returns exactly one recognised sequence.

  The specification of the unformatted text (`C19Spec.recognised`, `C19Spec.removeRecognised`)
  lives in `AnsiProofs/Lemmas/Tokenize.lean` (namespace `C19Spec`) because the helper lemmas
  mention it; it is written independently of the tokenizer's mode machine (scan for `ESC [`,
  `takeWhile`/`dropWhile` of the parameter characters, acceptance rule as stated by the property).
-/

/-! ## T1 — re-inserting the recorded sequences reproduces `s` exactly -/

/-- `formatted_str` / `str()` / `repr()` of the parse of `s` is `s`, for every string -/
theorem tokenize_lossless (s : Str) (allowEmpty : Bool) (acc : Option Str) :
    (tokenize s allowEmpty acc).formatted = s := by
  have := tokLoop_formatted allowEmpty acc .text s {} Parsed.keysLe_empty
  simpa [tokenize, TokMode.pending, Parsed.formatted] using this

/-! ## T2 — `unformatted_str` is `s` with the recognised control sequences removed -/

theorem tokenize_unformatted (s : Str) (allowEmpty : Bool) (acc : Option Str) :
    (tokenize s allowEmpty acc).text = C19Spec.removeRecognised allowEmpty acc s := by
  have := tokLoop_text allowEmpty acc .text s {}
  simpa [tokenize, tokCont] using this

/-! ## T3 — the recorded sequences are well formed, keys strictly ascending -/

theorem tokenize_wellformed (s : Str) (allowEmpty : Bool) (acc : Option Str) :
    (∀ kl ∈ (tokenize s allowEmpty acc).seqs,
      kl.1 ≤ (tokenize s allowEmpty acc).text.length ∧ kl.2 ≠ [] ∧
      ∀ c ∈ kl.2,
        (∀ ch ∈ c.sequence, isTerm ch = false) ∧
        (c.terminator = [] ∨ ∃ ch, c.terminator = [ch] ∧ isTerm ch = true) ∧
        (c.terminator = [] → allowEmpty = true) ∧
        (∀ a, acc = some a → ∀ ch, c.terminator = [ch] → ch ∈ a)) ∧
    ((tokenize s allowEmpty acc).seqs.map (·.1)).Pairwise (· < ·) := by
  have g := tokLoop_good allowEmpty acc .text s {} (good_empty _ _) trivial
  refine ⟨fun kl hkl => ⟨g.keysLe kl hkl, (g.blocks kl hkl).1, (g.blocks kl hkl).2⟩, g.asc⟩

/-! ## T4 — an unterminated sequence can only be the last element of the last block -/

/-- positional form: wherever a sequence with empty terminator occurs (block `kv` at position
    `init.length`, element at position `l1.length`), nothing follows it -/
theorem tokenize_empty_terminator_last (s : Str) (allowEmpty : Bool) (acc : Option Str)
    (init rest : List (Nat × List CtlSeq)) (kv : Nat × List CtlSeq)
    (hs : (tokenize s allowEmpty acc).seqs = init ++ kv :: rest)
    (l1 l2 : List CtlSeq) (c : CtlSeq) (hkv : kv.2 = l1 ++ c :: l2) (hc : c.terminator = []) :
    rest = [] ∧ l2 = [] :=
  tokLoop_lastOnly allowEmpty acc .text s {} noEmpty_empty init kv rest hs l1 c l2 hkv hc

/-- value form of T4: such a sequence is the last element of the last block -/
theorem tokenize_empty_terminator_getLast (s : Str) (allowEmpty : Bool) (acc : Option Str) :
    ∀ kv ∈ (tokenize s allowEmpty acc).seqs, ∀ c ∈ kv.2, c.terminator = [] →
      (tokenize s allowEmpty acc).seqs.getLast? = some kv ∧ kv.2.getLast? = some c := by
  intro kv hkv c hc hce
  obtain ⟨init, rest, hs⟩ := List.append_of_mem hkv
  obtain ⟨l1, l2, hl⟩ := List.append_of_mem hc
  obtain ⟨hr, hl2⟩ := tokenize_empty_terminator_last s allowEmpty acc init rest kv hs l1 l2 c hl hce
  subst hr hl2
  rw [hs, hl]
  simp

/-! ## Non-vacuity -/

/-- two sequences at one position, text around them, an unterminated sequence at the end -/
example : tokenize "ab\x1b[1;31m\x1b[2Jcd\x1b[3".toList true none =
    { text := "abcd".toList,
      seqs := [(2, [⟨"1;31".toList, "m".toList⟩, ⟨"2".toList, "J".toList⟩]),
               (4, [⟨"3".toList, []⟩])] } := by decide

/-- restricted terminators: `J` is not acceptable, so that sequence stays in the text -/
example : tokenize "a\x1b[1mb\x1b[2Jc".toList true (some "m".toList) =
    { text := "ab\x1b[2Jc".toList, seqs := [(1, [⟨"1".toList, "m".toList⟩])] } := by decide

/-- unterminated sequences not allowed: it stays in the text -/
example : tokenize "a\x1b[1".toList false none = { text := "a\x1b[1".toList, seqs := [] } := by
  decide

/-- the specification evaluated on its own (no tokenizer involved) -/
example : C19Spec.removeRecognised true none "ab\x1b[1;31m\x1b[2Jcd\x1b[3".toList = "abcd".toList := by
  simp [C19Spec.removeRecognised, C19Spec.isParamChar, C19Spec.recognised, isTerm,
    Gen.termLo, Gen.termHi]

/-- the specification with a restricted terminator set / unterminated sequences disallowed -/
example : C19Spec.removeRecognised false (some "m".toList) "a\x1b[1mb\x1b[2Jc\x1b[3".toList =
    "ab\x1b[2Jc\x1b[3".toList := by
  simp [C19Spec.removeRecognised, C19Spec.isParamChar, C19Spec.recognised, isTerm,
    Gen.termLo, Gen.termHi]

/-- T4's hypotheses are satisfiable: the unterminated `ESC [ 3` is last of the last block -/
example : ∃ init kv l1 c,
    (tokenize "ab\x1b[1m\x1b[2Jcd\x1b[5n\x1b[3".toList true none).seqs = init ++ kv :: [] ∧
    kv.2 = l1 ++ c :: [] ∧ c.terminator = [] ∧ init ≠ [] ∧ l1 ≠ [] :=
  ⟨[(2, [⟨"1".toList, "m".toList⟩, ⟨"2".toList, "J".toList⟩])],
   (4, [⟨"5".toList, "n".toList⟩, ⟨"3".toList, []⟩]), [⟨"5".toList, "n".toList⟩],
   ⟨"3".toList, []⟩, by decide⟩

#print axioms tokenize_lossless
#print axioms tokenize_unformatted
#print axioms tokenize_wellformed
#print axioms tokenize_empty_terminator_last
#print axioms tokenize_empty_terminator_getLast

