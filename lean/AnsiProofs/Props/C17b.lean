import AnsiProofs.Props.C04b
import AnsiModel.Render
/-
  Property C17, part b — the guards of `find_settings` and `ansi_settings_at`, from the source.

  `Gen.findGuard` / `Gen.settingsAtGuard` are the leading parts of the two methods translated statement
  by statement on every run (harness/pyint.py, prefix mode): an inverted range answers `(None, None)`
  at once; an index outside the text answers `[]`.  The theorems tie them to the model's hand-written
  `findRaw` and `ansiSettingsAt`.
-/
namespace C17b

theorem find_guard_is_code (n : Nat) (a1 a2 : Bool) (s e : Option Int) (r1 r2 : Bool) :
    Gen.findGuard (n : Int) a1 a2 s e r1 r2 = if sliceIdx n e n < sliceIdx n s 0 then 1 else 0 := by
  have hs := (C04b.sliceIdx_is_code n s 0).2
  have he := (C04b.sliceIdx_is_code n e n).2
  have hs' : Gen.sliceValToIdx (n : Int) s 0 = (sliceIdx n s 0 : Int) := by simpa using hs
  unfold Gen.findGuard
  simp only [hs', he]
  generalize sliceIdx n s 0 = a
  generalize sliceIdx n e n = b
  grind

/-- an inverted range is answered with `(None, None)` before the settings are even looked at … -/
theorem findRaw_returns (x : AStr) (a : SArg) (s e : Option Int) (rev : Bool) (a1 a2 r1 r2 : Bool)
    (h : Gen.findGuard (x.len : Int) a1 a2 s e r1 r2 = 1) : x.findRaw a s e rev = .ok (none, none) := by
  rw [find_guard_is_code] at h
  have hc : sliceIdx x.len e x.len < sliceIdx x.len s 0 := by
    by_cases hn : sliceIdx x.len e x.len < sliceIdx x.len s 0
    · exact hn
    · rw [if_neg hn] at h; omega
  unfold AStr.findRaw
  simp only []
  rw [if_pos hc]

/-- … and otherwise the settings are scrubbed and searched for -/
theorem findRaw_goes_on (x : AStr) (a : SArg) (s e : Option Int) (rev : Bool) (a1 a2 r1 r2 : Bool)
    (h : Gen.findGuard (x.len : Int) a1 a2 s e r1 r2 = 0) :
    x.findRaw a s e rev = (do let ts ← Scrub.scrub a; pure (x.findSettings ts s e rev)) := by
  rw [find_guard_is_code] at h
  have hc : ¬ sliceIdx x.len e x.len < sliceIdx x.len s 0 := by
    intro hp; rw [if_pos hp] at h; omega
  unfold AStr.findRaw
  simp only []
  rw [if_neg hc]

theorem settingsAt_guard_is_code (n : Nat) (idx : Int) :
    Gen.settingsAtGuard (n : Int) idx = if 0 ≤ idx ∧ idx < n then 0 else 1 := by
  unfold Gen.settingsAtGuard
  grind

/-- an index outside the text has no settings: `ansi_settings_at` answers `[]` exactly when the
    translated guard returns -/
theorem ansiSettingsAt_returns (x : AStr) (idx : Int) (h : Gen.settingsAtGuard (x.len : Int) idx = 1) :
    x.ansiSettingsAt idx = [] := by
  rw [settingsAt_guard_is_code] at h
  have hc : ¬ (0 ≤ idx ∧ idx < x.len) := by
    intro hp; rw [if_pos hp] at h; omega
  unfold AStr.ansiSettingsAt
  rw [if_neg hc]

theorem ansiSettingsAt_goes_on (x : AStr) (idx : Int) (h : Gen.settingsAtGuard (x.len : Int) idx = 0) :
    x.ansiSettingsAt idx = active x.fmts idx.toNat := by
  rw [settingsAt_guard_is_code] at h
  have hc : 0 ≤ idx ∧ idx < x.len := by
    by_cases hn : 0 ≤ idx ∧ idx < x.len
    · exact hn
    · rw [if_neg hn] at h; omega
  unfold AStr.ansiSettingsAt
  rw [if_pos hc]

example : Gen.findGuard 5 false true (some 3) (some 2) false false = 1 := by decide
example : Gen.findGuard 5 false true (some 3) (some 3) false false = 0 := by decide
example : Gen.settingsAtGuard 5 5 = 1 := by decide
example : Gen.settingsAtGuard 5 (-1) = 1 := by decide
example : Gen.settingsAtGuard 5 4 = 0 := by decide

end C17b
