import AnsiModel.Format
import AnsiModel.Generated.Wrappers
/-
  Bounds, from the source.  `Gen.sliceValToIdx` is `AnsiString._slice_val_to_idx` translated
  statement by statement on every run (harness/pyint.py); the model's `sliceIdx` — what every
  range operation of the model (slicing, apply, remove, find) starts from — is hand-written.
  The theorem ties them for every length, bound and default: a harmless rewrite of the Python
  function (`max(0, …)`, a conditional expression, reordered branches) regenerates a different
  definition and the proof still goes through; a change of behaviour does not.
-/
namespace C04b

/-- THE MODEL'S BOUND IS THE CODE'S BOUND: for every length `n`, bound `v` (`None`, negative, beyond
    the end) and default `d`. -/
theorem sliceIdx_is_code (n : Nat) (v : Option Int) (d : Nat) :
    Gen.sliceValToIdxOk = true ∧ Gen.sliceValToIdx (n : Int) v (d : Int) = (sliceIdx n v d : Int) := by
  refine ⟨rfl, ?_⟩
  cases v with
  | none => simp [Gen.sliceValToIdx, sliceIdx]
  | some v => simp only [Gen.sliceValToIdx, sliceIdx]; grind

/-- the result is a valid index: `0 ≤ · ≤ n` whenever the default is -/
theorem sliceValToIdx_range (n : Nat) (v : Option Int) (d : Nat) (hd : d ≤ n) :
    0 ≤ Gen.sliceValToIdx (n : Int) v (d : Int) ∧ Gen.sliceValToIdx (n : Int) v (d : Int) ≤ n := by
  cases v with
  | none => simp [Gen.sliceValToIdx]; omega
  | some v => simp only [Gen.sliceValToIdx]; grind

end C04b
