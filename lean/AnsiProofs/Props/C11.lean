import AnsiProofs.Lemmas.Pieces
/-
  Property C11 — the SETTINGS of the pieces returned by the str-like methods (the text of the
  pieces is property C10).

  "Each piece returned by split, rsplit, splitlines, partition, rpartition, strip/lstrip/rstrip,
  removeprefix and removesuffix reports, character by character, exactly the settings of the
  corresponding characters of the original at the piece's true offset in it.  Case conversions (when
  they preserve length) and assign_str keep the settings at every position, assign_str extending the
  last character's settings over added characters and dropping those of removed ones; replace …"
  (the `replace` clause and the longer case of `assign_str` are proved elsewhere).

  Every piece is a slice of the original, so its settings follow from C04 (`getSlice_settings`);
  what is proved here is that the offset the code computes is the piece's TRUE offset:
  1 `strip_settings` (+ `strip_at`, `strip_unchanged`, `strip_wf`),
  2 `removeprefix_settings`, `removesuffix_settings` (+ `_absent`, `_wf`),
  3 `partition_settings` (+ `partition_settings_first`, `rpartition_settings_last`,
    `partition_absent`, `partition_wf`),
  4 `split_settings` (explicit separator; + `split_wf`),
  5 `Layout`, `trueOff` (+ `Layout.piece_at`, `Layout.trueOff_unique`), `splitWs_settings`,
    `splitlines_settings`,
  6 `case_settings`, `mapText_wf`,
  7 `assignStr_shorter`, `assignStr_shorter_closed`, `assignStr_wf_shorter`.
  All statements hold for ALL values and arguments; none had to be weakened.
  Helper lemmas: `AnsiProofs/Lemmas/Pieces.lean` (namespace `PiecesL`).
-/

open PiecesL

namespace C11

/-! ## 1 — strip / lstrip / rstrip -/

/-- `_strip(chars, inplace, do_lstrip, do_rstrip)`: character `k` of the result reports the settings
    of character `off + k` of the receiver, `off` being the number of leading characters of the
    strip set (0 for `rstrip`) -/
theorem strip_settings (x : AStr) (h : WF x) (chars : Option Str) (doL doR ip : Bool) :
    let y := x.stripGen chars doL doR ip
    let off := if doL then
      (x.s.takeWhile (fun c => (chars.getD Gen.whitespaceChars).contains c)).length else 0
    ∀ k < y.len, act y k = act x (off + k) :=
  fun _ hk => strip_act x h chars doL doR ip hk

/-- `off` is the true offset: the text of the result sits there in the receiver's text -/
theorem strip_at (x : AStr) (chars : Option Str) (doL doR ip : Bool) :
    let y := x.stripGen chars doL doR ip
    let off := if doL then
      (x.s.takeWhile (fun c => (chars.getD Gen.whitespaceChars).contains c)).length else 0
    pySlice x.s off (off + y.len) = y.s :=
  strip_text_at x chars doL doR ip

/-- `inplace=True` and nothing to strip: the receiver itself is returned, unchanged -/
theorem strip_unchanged (x : AStr) (chars : Option Str) (doL doR : Bool)
    (hl : (x.stripGen chars doL doR true).len = x.len) : x.stripGen chars doL doR true = x :=
  strip_inplace_unchanged x chars doL doR hl

theorem strip_wf (x : AStr) (h : WF x) (chars : Option Str) (doL doR ip : Bool) :
    WF (x.stripGen chars doL doR ip) :=
  PiecesL.strip_wf x h chars doL doR ip

/-! ## 2 — removeprefix / removesuffix -/

theorem removeprefix_settings (x : AStr) (h : WF x) (p : Str) (hp : Py.startsWith x.s p = true) :
    ∀ k < (x.removeprefix p).len, act (x.removeprefix p) k = act x (p.length + k) :=
  fun _ hk => removeprefix_act x h p hp hk

/-- the prefix is absent: the receiver is returned unchanged -/
theorem removeprefix_absent (x : AStr) (p : Str) (hp : Py.startsWith x.s p = false) :
    x.removeprefix p = x :=
  PiecesL.removeprefix_absent x p hp

theorem removesuffix_settings (x : AStr) (h : WF x) (p : Str) :
    ∀ k < (x.removesuffix p).len, act (x.removesuffix p) k = act x k :=
  fun _ hk => removesuffix_act x h p hk

/-- the suffix is empty or absent: the receiver is returned unchanged -/
theorem removesuffix_absent (x : AStr) (p : Str) (hp : p = [] ∨ Py.endsWith x.s p = false) :
    x.removesuffix p = x :=
  PiecesL.removesuffix_absent x p hp

theorem removeprefix_wf (x : AStr) (h : WF x) (p : Str) : WF (x.removeprefix p) :=
  PiecesL.removeprefix_wf x h p

theorem removesuffix_wf (x : AStr) (h : WF x) (p : Str) : WF (x.removesuffix p) :=
  PiecesL.removesuffix_wf x h p

/-! ## 3 — partition / rpartition -/

/-- the separator is found at `idx`: the three pieces report the settings of the receiver at the
    offsets `0`, `idx`, `idx + len(sep)`; their lengths are `idx`, `len(sep)` and the rest -/
theorem partition_settings (x : AStr) (h : WF x) (sep : Str) (rev : Bool) (idx : Nat)
    (hf : (if rev then Py.rfind x.s sep else Py.find x.s sep 0) = some idx) :
    let r := x.partitionGen sep rev
    (r.1.len = idx ∧ r.2.1.len = sep.length ∧ r.2.2.len = x.len - (idx + sep.length)) ∧
    (∀ k < r.1.len, act r.1 k = act x k) ∧
    (∀ k < r.2.1.len, act r.2.1 k = act x (idx + k)) ∧
    (∀ k < r.2.2.len, act r.2.2 k = act x (idx + sep.length + k)) := by
  intro r
  have hr : r = _ := partition_eq x sep rev idx hf
  have hocc : sep.isPrefixOf (x.s.drop idx) = true ∧ idx ≤ x.s.length := by
    cases rev
    · have := (StrLikeL.find_some_iff _ _ _ _).mp (by simpa using hf)
      exact ⟨this.2.2.1, this.1⟩
    · have := (StrLikeL.rfind_some_iff _ _ _).mp (by simpa using hf)
      exact ⟨this.2.1, this.1⟩
  have hle := occ_le x.s sep idx hocc.1 hocc.2
  have hx : x.len = x.s.length := rfl
  rw [hr]
  refine ⟨⟨?_, ?_, ?_⟩, ?_, ?_, ?_⟩
  · show (x.getSlice _ _).len = _
    rw [getSlice_nat_len]; omega
  · show (x.getSlice _ _).len = _
    rw [getSlice_nat_len]; omega
  · show (x.getSlice _ _).len = _
    rw [getSlice_len, StrLikeL.sliceIdx_ofNat]
    simp only [sliceIdx]; omega
  · intro k hk
    have := getSlice_nat_act x h 0 idx hk
    simpa using this
  · intro k hk
    exact getSlice_nat_act x h idx (idx + sep.length) hk
  · intro k hk
    exact getSlice_from_act x h (idx + sep.length) hk

/-- `partition`: `idx` is the FIRST occurrence of the separator -/
theorem partition_settings_first (x : AStr) (h : WF x) (sep : Str) (idx : Nat)
    (hle : idx ≤ x.len) (hocc : sep.isPrefixOf (x.s.drop idx) = true)
    (hfirst : ∀ j < idx, sep.isPrefixOf (x.s.drop j) = false) :
    let r := x.partitionGen sep false
    (∀ k < r.1.len, act r.1 k = act x k) ∧
    (∀ k < r.2.1.len, act r.2.1 k = act x (idx + k)) ∧
    (∀ k < r.2.2.len, act r.2.2 k = act x (idx + sep.length + k)) :=
  (partition_settings x h sep false idx
    ((StrLikeL.find_some_iff _ _ _ _).mpr ⟨hle, Nat.zero_le _, hocc, fun j hj _ => hfirst j hj⟩)).2

/-- `rpartition`: `idx` is the LAST occurrence of the separator -/
theorem rpartition_settings_last (x : AStr) (h : WF x) (sep : Str) (idx : Nat)
    (hle : idx ≤ x.len) (hocc : sep.isPrefixOf (x.s.drop idx) = true)
    (hlast : ∀ j, idx < j → j ≤ x.len → sep.isPrefixOf (x.s.drop j) = false) :
    let r := x.partitionGen sep true
    (∀ k < r.1.len, act r.1 k = act x k) ∧
    (∀ k < r.2.1.len, act r.2.1 k = act x (idx + k)) ∧
    (∀ k < r.2.2.len, act r.2.2 k = act x (idx + sep.length + k)) :=
  (partition_settings x h sep true idx ((StrLikeL.rfind_some_iff _ _ _).mpr ⟨hle, hocc, hlast⟩)).2

/-- the separator is absent: the first piece is the receiver itself, the others are empty -/
theorem partition_absent (x : AStr) (sep : Str) (rev : Bool)
    (hf : (if rev then Py.rfind x.s sep else Py.find x.s sep 0) = none) :
    x.partitionGen sep rev = (x, {}, {}) :=
  StrLikeL.partitionGen_none x sep rev hf

theorem partition_wf (x : AStr) (h : WF x) (sep : Str) (rev : Bool) :
    WF (x.partitionGen sep rev).1 ∧ WF (x.partitionGen sep rev).2.1 ∧
      WF (x.partitionGen sep rev).2.2 := by
  cases hf : (if rev then Py.rfind x.s sep else Py.find x.s sep 0) with
  | none => rw [partition_absent x sep rev hf]; exact ⟨h, wf_default, wf_default⟩
  | some idx =>
    rw [partition_eq x sep rev idx hf]
    exact ⟨C04.getSlice_wf x h _ _, C04.getSlice_wf x h _ _, C04.getSlice_wf x h _ _⟩

/-! ## 4 — split / rsplit with an explicit separator -/

/-- the `j`-th piece reports the settings of the receiver at its true offset: the pieces and the
    separators between them are laid out contiguously (`C10.split_join`), so that offset is the
    total length of the earlier pieces plus one separator each -/
theorem split_settings (x : AStr) (h : WF x) (sep : Str) (hsep : sep ≠ []) (m : Int) (r : Bool)
    (ps : List AStr) (hps : x.splitGen (some sep) m r = .ok ps) (j : Nat) (p : AStr)
    (hj : ps[j]? = some p) :
    ∀ k < p.len, act p k = act x (((ps.take j).map (fun q => q.len + sep.length)).sum + k) :=
  fun _ hk => split_act x h sep hsep m r ps hps j p hj hk

/-- every piece of `split`/`rsplit` (explicit separator or whitespace) is well formed -/
theorem split_wf (x : AStr) (h : WF x) (sep : Option Str) (m : Int) (r : Bool) (ps : List AStr)
    (hps : x.splitGen sep m r = .ok ps) : ∀ p ∈ ps, WF p :=
  PiecesL.split_wf x h sep m r ps hps

end C11
